import Restli.Lib.Url
/-! # Lib.Multipart — executable model of the MIME pieces query tunnelling relies on (go1.23)

THIRD-PARTY behaviour: `net/textproto` header keys and MIME header blocks, `net/http.Header`
`Get/Set/Add/Del`, `mime.ParseMediaType` / `mime.FormatMediaType`, `mime/multipart.Writer`
(`CreatePart`, `Write`, `Close`) and `mime/multipart.Reader` (`NextPart`, part body reads).
A model, compared with the real packages on every run of `bin/check C14` (ops `mediatype`,
`mpwrite`, `mpread`), never verified; it is in the trusted base of every C14 theorem.

The multipart reader is modelled on the COMPLETE input (Go streams through a 4096-byte buffer; the
claim that streaming does not change the result is part of what the differential run checks, with
parts well beyond 4096 bytes).

Regions deliberately not modelled (`unmodelled <region>`):
* `mediatype-nonascii`     : a byte ≥ 0x80 in a Content-Type value (Go's rune-based scanning)
* `mediatype-continuation` : a parameter name containing `*` (RFC 2231)
* `boundary-crlf`          : a boundary containing CR or LF
* `header-continuation`    : a part header line continued on the next line (leading space/tab)
* `transfer-encoding`      : a part with a `Content-Transfer-Encoding` header (quoted-printable decoding)
* `long-line`              : a preamble/separator line longer than the reader's 4096-byte buffer
* `fuel`                   : the loops take fuel (input length + 1 or + 2, one unit per line / parameter, each of
                             which consumes at least one byte); if it ever ran out the model declines rather than guess
-/
namespace Restli.Mime
open Restli Restli.Url

abbrev cCR : UInt8 := 13
abbrev cLF : UInt8 := 10
abbrev cSP : UInt8 := 32
abbrev cTAB : UInt8 := 9
abbrev cDash : UInt8 := 45
abbrev cSemi : UInt8 := 59
abbrev cEq : UInt8 := 61
abbrev cDQuote : UInt8 := 34
abbrev cBackslash : UInt8 := 92

/-! ## header keys and `http.Header` -/

/-- `textproto.validHeaderFieldByte`: RFC 7230 `tchar` -/
def validFieldByte (c : UInt8) : Bool :=
  isAlnum c || [33, 35, 36, 37, 38, 39, 42, 43, 45, 46, 94, 95, 96, 124, 126].contains c

/-- `textproto.validHeaderValueByte`: HTAB, SP, VCHAR, obs-text -/
def validValueByte (c : UInt8) : Bool := c == cTAB || (32 ≤ c && c != 127)

def upperByte (c : UInt8) : UInt8 := if 97 ≤ c && c ≤ 122 then c - 32 else c

/-- the canonicalisation loop: upper case at the start and after `-`, lower case elsewhere -/
def canonLoop : Bool → Bytes → Bytes
  | _, [] => []
  | upper, c :: cs =>
    let c' := if upper then upperByte c else toLowerByte c
    c' :: canonLoop (c' == cDash) cs

/-- `textproto.CanonicalMIMEHeaderKey` (= `http.CanonicalHeaderKey`): keys with a byte that is not a
`tchar` (including space) are returned unchanged -/
def canonicalKey (k : Bytes) : Bytes := if k.all validFieldByte then canonLoop true k else k

/-- `http.Header` : key ↦ values. Keys are stored as given (`Set/Add/Get/Del` canonicalise the key
they are called with; direct map assignment does not). -/
abbrev Hdr := List (Bytes × List Bytes)

def Hdr.find (h : Hdr) (ck : Bytes) : Option (List Bytes) :=
  match h with
  | [] => none
  | (k, vs) :: r => if k == ck then some vs else Hdr.find r ck

/-- `Header.Get` -/
def Hdr.get (h : Hdr) (k : Bytes) : Bytes :=
  match h.find (canonicalKey k) with
  | some (v :: _) => v
  | _ => []

/-- `Header.Del` -/
def Hdr.del (h : Hdr) (k : Bytes) : Hdr := h.filter fun kv => kv.1 != canonicalKey k

/-- `Header.Set` (a map assignment; the model appends a new key at the end) -/
def Hdr.set (h : Hdr) (k v : Bytes) : Hdr := (h.del k) ++ [(canonicalKey k, [v])]

/-- `Header.Add` -/
def Hdr.add (h : Hdr) (k v : Bytes) : Hdr :=
  match h.find (canonicalKey k) with
  | some vs => (h.del k) ++ [(canonicalKey k, vs ++ [v])]
  | none => h ++ [(canonicalKey k, [v])]

/-! ## `mime.ParseMediaType` / `FormatMediaType` -/

def isTSpecial (c : UInt8) : Bool :=
  -- ( ) < > @ , ; : \ " / [ ] ? =
  [40, 41, 60, 62, 64, 44, 59, 58, 92, 34, 47, 91, 93, 63, 61].contains c

/-- `mime.isTokenChar` -/
def isTokenChar (c : UInt8) : Bool := c > 32 && c < 127 && !isTSpecial c

/-- `mime.isToken` -/
def isToken (s : Bytes) : Bool := !s.isEmpty && s.all isTokenChar

/-- `unicode.IsSpace` on ASCII -/
def isSpace (c : UInt8) : Bool := c == cSP || (9 ≤ c && c ≤ 13)

def trimLeftSpace (s : Bytes) : Bytes := s.dropWhile isSpace
def trimSpace (s : Bytes) : Bytes := ((s.dropWhile isSpace).reverse.dropWhile isSpace).reverse

/-- `consumeToken` -/
def consumeToken (v : Bytes) : Bytes × Bytes := (v.takeWhile isTokenChar, v.dropWhile isTokenChar)

/-- the quoted-string loop of `consumeValue` (after the opening quote); `none` = no closing quote / CR / LF -/
def consumeQuoted : Bytes → Option (Bytes × Bytes)
  | [] => none
  | c :: rest =>
    if c == cDQuote then some ([], rest)
    else if c == cBackslash then
      match rest with
      | d :: rest' =>
        if isTSpecial d then (consumeQuoted rest').map fun p => (d :: p.1, p.2)
        else (consumeQuoted (d :: rest')).map fun p => (c :: p.1, p.2)
      | [] => none
    else if c == cCR || c == cLF then none
    else (consumeQuoted rest).map fun p => (c :: p.1, p.2)

/-- `consumeValue`: (value, rest); failure is `([], v)` -/
def consumeValue (v : Bytes) : Bytes × Bytes :=
  match v with
  | [] => ([], [])
  | c :: rest =>
    if c != cDQuote then consumeToken v
    else match consumeQuoted rest with
      | some p => p
      | none => ([], v)

/-- `consumeMediaParam`: `none` is the failure return `("", "", v)` -/
def consumeMediaParam (v : Bytes) : Option (Bytes × Bytes × Bytes) :=
  let rest := trimLeftSpace v
  match rest with
  | c :: rest1 =>
    if c != cSemi then none
    else
      let rest2 := trimLeftSpace rest1
      let tk := consumeToken rest2
      let param := tk.1.map toLowerByte
      if param.isEmpty then none
      else
        let rest3 := trimLeftSpace tk.2
        match rest3 with
        | e :: rest4 =>
          if e != cEq then none
          else
            let rest5 := trimLeftSpace rest4
            let vr := consumeValue rest5
            if vr.1.isEmpty && vr.2 == rest5 then none
            else some (param, vr.1, vr.2)
        | [] => none
  | [] => none

/-- `checkMediaTypeDisposition` -/
def checkMediaType (s : Bytes) : Bool :=
  let t := consumeToken s
  if t.1.isEmpty then false
  else if t.2.isEmpty then true
  else match t.2 with
    | c :: r =>
      if c != cSlash then false
      else
        let st := consumeToken r
        !st.1.isEmpty && st.2.isEmpty
    | [] => true

/-- the parameter loop of `ParseMediaType`; fuel = input length + 1 (every round consumes ≥ 1 byte).
`none` = invalid parameter (media type kept, params nil); `some none`… see `ParseMediaTypeResult`. -/
inductive ParamLoop where
  | ok (params : List (Bytes × Bytes))
  | invalid        -- ErrInvalidMediaParameter: the media type is still returned, params = nil
  | duplicate      -- "duplicate parameter name": mediatype "" is returned
  | continuation   -- a parameter name with '*' : not modelled
  | fuel           -- the model ran out of fuel (never happens with fuel = input length + 1; declined, not guessed)
deriving Repr, DecidableEq

def paramLoop : Nat → Bytes → List (Bytes × Bytes) → ParamLoop
  | 0, _, _ => .fuel
  | fuel + 1, v, acc =>
    let v1 := trimLeftSpace v
    if v1.isEmpty then .ok acc
    else match consumeMediaParam v1 with
      | none => if trimSpace v1 == [cSemi] then .ok acc else .invalid
      | some (key, value, rest) =>
        if key.contains cStar then .continuation
        else match acc.lookup key with
          | some old => if old != value then .duplicate else paramLoop fuel rest acc
          | none => paramLoop fuel rest (acc ++ [(key, value)])

/-- `mime.ParseMediaType(v)` as DecodeTunnelledQuery uses it: the error is ignored, so the result is
just (mediatype, params) — `("", [])` on a total failure, `(mediatype, [])` on a bad parameter. -/
def parseMediaType (v : Bytes) : Res (Bytes × List (Bytes × Bytes)) :=
  if v.any (· ≥ 128) then .unmodelled "mediatype-nonascii"
  else
    let base := (cut cSemi v).1
    let mediatype := trimSpace (base.map toLowerByte)
    if !checkMediaType mediatype then .ok ([], [])
    else match paramLoop (v.length + 1) (v.drop base.length) [] with
      | .ok ps => .ok (mediatype, ps)
      | .invalid => .ok (mediatype, [])
      | .duplicate => .ok ([], [])
      | .continuation => .unmodelled "mediatype-continuation"
      | .fuel => .unmodelled "fuel"

/-- `mime.FormatMediaType(t, {attr: value})` for a `type/subtype` of tokens and ONE parameter whose
value is a token (what a hex boundary is) -/
def formatMediaType1 (t attr value : Bytes) : Res Bytes :=
  let c := cut cSlash t
  if !(c.2.2 && isToken c.1 && isToken c.2.1 && isToken attr) then .ok []
  else if !isToken value then .unmodelled "mediatype-quoted-value"
  else .ok (t.map toLowerByte ++ [cSemi, cSP] ++ attr.map toLowerByte ++ [cEq] ++ value)

/-! ## `multipart.Writer` -/

/-- one part as EncodeTunnelledQuery writes it: a single `Content-Type` header and the content -/
structure WPart where
  key : Bytes
  value : Bytes
  content : Bytes
deriving Repr, DecidableEq

def crlf : Bytes := [cCR, cLF]
def dashDash : Bytes := [cDash, cDash]

/-- the header block `CreatePart` writes: `key: value CRLF`, then the blank line -/
def partHead (p : WPart) : Bytes := p.key ++ [cColon, cSP] ++ p.value ++ crlf ++ crlf

/-- everything after the first part's content: further parts, then `Close()` -/
def writeRest (b : Bytes) : List WPart → Bytes
  | [] => crlf ++ dashDash ++ b ++ dashDash ++ crlf
  | p :: ps => crlf ++ dashDash ++ b ++ crlf ++ partHead p ++ p.content ++ writeRest b ps

/-- `NewWriter` (boundary `b`), `CreatePart`+`Write` per part, `Close` -/
def writeParts (b : Bytes) : List WPart → Bytes
  | [] => writeRest b []
  | p :: ps => dashDash ++ b ++ crlf ++ partHead p ++ p.content ++ writeRest b ps

/-! ## `multipart.Reader` -/

/-- what `NextPart` / reading the part yield, in sequence -/
inductive Parts where
  | eof
  | err
  | unmodelled (region : String)
  | part (hdr : List (Bytes × Bytes)) (content : Bytes) (rest : Parts)
  /-- a part whose body is not terminated by a boundary: reading it fails (`io.ErrUnexpectedEOF`)
  and every later `NextPart` fails -/
  | truncated (hdr : List (Bytes × Bytes))
deriving Repr

/-- `bufio.Reader.ReadSlice('\n')` on the rest of the input: (line incl. the newline, rest, found) -/
def readSlice : Bytes → Bytes × Bytes × Bool
  | [] => ([], [], false)
  | c :: cs =>
    if c == cLF then ([c], cs, true)
    else let r := readSlice cs; (c :: r.1, r.2.1, r.2.2)

/-- `skipLWSPChar` -/
def skipLWSP (s : Bytes) : Bytes := s.dropWhile fun c => c == cSP || c == cTAB

/-- `isFinalBoundary` -/
def isFinalBoundary (b nl line : Bytes) : Bool :=
  let dbd := dashDash ++ b ++ dashDash
  dbd.isPrefixOf line &&
    (let rest := skipLWSP (line.drop dbd.length); rest.isEmpty || rest == nl)

/-- `matchAfterPrefix` with the whole input in view: what follows the boundary prefix makes it a boundary -/
def boundaryTerminated (after : Bytes) : Bool :=
  match after with
  | [] => true
  | c :: r => c == cSP || c == cTAB || c == cCR || c == cLF || (c == cDash && r.head? == some cDash)

/-- the part body ends before the first `nl--boundary` that is followed by a terminator -/
def scanFrom (nlDash : Bytes) : Bytes → Option (Bytes × Bytes)
  | [] => none
  | c :: cs =>
    if nlDash.isPrefixOf (c :: cs) && boundaryTerminated ((c :: cs).drop nlDash.length) then some ([], c :: cs)
    else (scanFrom nlDash cs).map fun p => (c :: p.1, p.2)

/-- `scanUntilBoundary` over the whole rest of the input: (content, rest starting at the boundary);
at the very start of a body a bare `--boundary` is recognised too -/
def scanBody (dash nlDash s : Bytes) : Option (Bytes × Bytes) :=
  if dash.isPrefixOf s && boundaryTerminated (s.drop dash.length) then some ([], s)
  else scanFrom nlDash s

/-- `textproto.Reader.readLineSlice`: the line without its `\n` / `\r\n`; `none` at end of input -/
def readLine (s : Bytes) : Option (Bytes × Bytes) :=
  if s.isEmpty then none
  else
    let r := readSlice s
    if r.2.2 then
      let l := r.1.dropLast
      some (if l.getLast? == some cCR then l.dropLast else l, r.2.1)
    else some (r.1, r.2.1)      -- unterminated last line: returned as it is

/-- `textproto.trim` -/
def trimWS (s : Bytes) : Bytes :=
  let f := fun c => c == cSP || c == cTAB
  ((s.dropWhile f).reverse.dropWhile f).reverse

inductive HeadRes where
  | ok (hdr : List (Bytes × Bytes)) (rest : Bytes)
  /-- the input ends inside the header block: `readMIMEHeader` returns `io.EOF`, which `NextPart`
  hands to its caller — who takes it for "no more parts" -/
  | eof
  | err
  | unmodelled (region : String)
deriving Repr, DecidableEq

/-- the key handling of `textproto.canonicalMIMEHeaderKey` in `readMIMEHeader`: `none` = malformed -/
def readerKey (k : Bytes) : Option Bytes :=
  if k.isEmpty then none
  else if k.any (fun c => !validFieldByte c && c != cSP) then none
  else if k.contains cSP then some k
  else some (canonLoop true k)

/-- the loop of `textproto.readMIMEHeader`; fuel = input length + 1 (every line consumes ≥ 1 byte) -/
def readHeaderLoop : Nat → Bytes → List (Bytes × Bytes) → HeadRes
  | 0, _, _ => .unmodelled "fuel"
  | fuel + 1, s, acc =>
    match readLine s with
    | none => .eof                      -- end of input before the blank line: io.EOF
    | some (line, rest) =>
      if line.isEmpty then .ok acc rest
      else if !line.contains cColon then .err
      else if rest.head? == some cSP || rest.head? == some cTAB then .unmodelled "header-continuation"
      else
        let kv := trimWS line
        let c := cut cColon kv
        match readerKey c.1 with
        | none => .err
        | some key =>
          if c.2.1.any (fun x => !validValueByte x) then .err
          else readHeaderLoop fuel rest (acc ++ [(key, c.2.1.dropWhile fun x => x == cSP || x == cTAB)])

/-- `textproto.readMIMEHeader` as `multipart.newPart` calls it -/
def readHeader (s : Bytes) : HeadRes :=
  if s.head? == some cSP || s.head? == some cTAB then .err
  else readHeaderLoop (s.length + 1) s []

def asciiLower (s : Bytes) : Bytes := s.map toLowerByte

/-- `MIMEHeader.Get` on a part header -/
def partHeaderGet (h : List (Bytes × Bytes)) (k : Bytes) : Bytes := (h.lookup (canonicalKey k)).getD []

def strB (s : String) : Bytes := s.toUTF8.toList

/-- `Reader.NextPart` repeated until `io.EOF` or an error, each part read to its end.
`first` is `partsRead == 0`; `expect` is `expectNewPart`; `nl` is `"\r\n"` or `"\n"`.
Fuel = input length + 2: every round reads a line of ≥ 1 byte (or ends). -/
def nextPart (b : Bytes) : Nat → Bytes → Bool → Bool → Bytes → Parts
  | 0, _, _, _, _ => .unmodelled "fuel"
  | fuel + 1, nl, first, expect, s =>
    let r := readSlice s
    let line := r.1
    let rest := r.2.1
    let found := r.2.2
    if line.length > 4096 || (!found && line.length ≥ 4096) then .unmodelled "long-line"
    else if !found && isFinalBoundary b nl line then .eof
    else if !found then .err
    else
      let dash := dashDash ++ b
      -- isBoundaryDelimiterLine, with its switch to "\n" mode on the first boundary line
      let after := skipLWSP (line.drop dash.length)
      let isPref := dash.isPrefixOf line
      let nl' := if isPref && first && after == [cLF] then [cLF] else nl
      if isPref && after == nl' then
        match readHeader rest with
        | .eof => .eof
        | .err => .err
        | .unmodelled reg => .unmodelled reg
        | .ok hdr body =>
          if (hdr.lookup (strB "Content-Transfer-Encoding")).isSome then .unmodelled "transfer-encoding"
          else match scanBody dash (nl' ++ dash) body with
            | none => .truncated hdr
            | some (content, rest') => .part hdr content (nextPart b fuel nl' false false rest')
      else if isFinalBoundary b nl' line then .eof
      else if expect then .err
      else if first then nextPart b fuel nl' true false rest
      else if line == nl' then nextPart b fuel nl' false true rest
      else .err

/-- `multipart.NewReader(data, boundary)` drained -/
def readParts (b data : Bytes) : Parts :=
  if b.contains cCR || b.contains cLF then .unmodelled "boundary-crlf"
  else if b.isEmpty then .err        -- "multipart: boundary is empty"
  else nextPart b (data.length + 2) crlf true false data

end Restli.Mime
