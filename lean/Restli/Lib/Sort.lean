/-! Insertion sort by a Boolean order, structurally recursive (so closed terms evaluate under
`decide`), with the three facts the models need: the result is a permutation of the input, it is
sorted, and — for a total, transitive, antisymmetric order — it is a function of the multiset.
Stands for Go's `sort.Slice`/`sort.Strings` on element types where equivalent elements are
identical (`uint32`, `string`): there the sorted sequence is unique, so the algorithm and its
stability are irrelevant. Core Lean only. -/
namespace Restli

def insertSorted {α : Type} (le : α → α → Bool) (x : α) : List α → List α
  | [] => [x]
  | y :: ys => if le x y then x :: y :: ys else y :: insertSorted le x ys

def isort {α : Type} (le : α → α → Bool) (l : List α) : List α := l.foldr (insertSorted le) []

theorem insertSorted_perm {α : Type} (le : α → α → Bool) (x : α) (l : List α) :
    (insertSorted le x l).Perm (x :: l) := by
  induction l with
  | nil => exact List.Perm.refl _
  | cons y ys ih =>
    simp only [insertSorted]
    split
    · exact List.Perm.refl _
    · exact (List.Perm.cons y ih).trans (List.Perm.swap x y ys)

theorem isort_perm {α : Type} (le : α → α → Bool) (l : List α) : (isort le l).Perm l := by
  induction l with
  | nil => exact List.Perm.refl _
  | cons x xs ih =>
    simp only [isort, List.foldr_cons] at ih ⊢
    exact (insertSorted_perm le x _).trans (List.Perm.cons x ih)

theorem insertSorted_pairwise {α : Type} (le : α → α → Bool)
    (htrans : ∀ a b c, le a b = true → le b c = true → le a c = true)
    (htotal : ∀ a b, (le a b || le b a) = true) (x : α) (l : List α)
    (h : l.Pairwise (fun a b => le a b = true)) :
    (insertSorted le x l).Pairwise (fun a b => le a b = true) := by
  induction l with
  | nil => simp [insertSorted]
  | cons y ys ih =>
    simp only [insertSorted]
    have hy := List.pairwise_cons.1 h
    split
    · next hxy =>
      refine List.pairwise_cons.2 ⟨?_, h⟩
      intro z hz
      rcases List.mem_cons.1 hz with rfl | hz
      · exact hxy
      · exact htrans _ _ _ hxy (hy.1 z hz)
    · next hxy =>
      have hyx : le y x = true := by
        have := htotal x y
        simp only [Bool.or_eq_true] at this
        rcases this with h1 | h1
        · exact absurd h1 hxy
        · exact h1
      refine List.pairwise_cons.2 ⟨?_, ih hy.2⟩
      intro z hz
      have := (insertSorted_perm le x ys).mem_iff.1 hz
      rcases List.mem_cons.1 this with rfl | hz'
      · exact hyx
      · exact hy.1 z hz'

theorem isort_pairwise {α : Type} (le : α → α → Bool)
    (htrans : ∀ a b c, le a b = true → le b c = true → le a c = true)
    (htotal : ∀ a b, (le a b || le b a) = true) (l : List α) :
    (isort le l).Pairwise (fun a b => le a b = true) := by
  induction l with
  | nil => simp [isort]
  | cons x xs ih =>
    simp only [isort, List.foldr_cons] at ih ⊢
    exact insertSorted_pairwise le htrans htotal x _ ih

/-- the sorted sequence is a function of the multiset -/
theorem isort_eq_of_perm {α : Type} (le : α → α → Bool)
    (htrans : ∀ a b c, le a b = true → le b c = true → le a c = true)
    (htotal : ∀ a b, (le a b || le b a) = true)
    (hanti : ∀ a b, le a b = true → le b a = true → a = b)
    {l l' : List α} (h : l.Perm l') : isort le l = isort le l' := by
  apply List.Perm.eq_of_pairwise (le := fun a b => le a b = true)
  · intro a b _ _ hab hba
    exact hanti a b hab hba
  · exact isort_pairwise le htrans htotal l
  · exact isort_pairwise le htrans htotal l'
  · exact (isort_perm le l).trans (h.trans (isort_perm le l').symm)

end Restli
