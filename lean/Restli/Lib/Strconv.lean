import Restli.Lib.Basic
/-! Executable reference models of the parts of Go's `strconv` the codecs use, over bytes:
`FormatInt(·,10)`, `ParseInt(·,10,bits)`, `ParseBool`, `FormatFloat(·,'g',-1,64)`,
`ParseFloat(·,64|32)` (decimal syntax; hexadecimal and underscore syntax are declined), and the
float32 ↔ float64 conversions. Floats are IEEE bit patterns, never Lean `Float`.

Third-party behaviour: validated differentially against Go on every run (trusted base). -/
namespace Restli.Strconv

/-! ## integers -/

/-- decimal digits of a natural number, most significant first (what `strconv` prints) -/
def digitsOfNat (n : Nat) : Bytes :=
  if h : n < 10 then [UInt8.ofNat (48 + n)] else digitsOfNat (n / 10) ++ [UInt8.ofNat (48 + n % 10)]
termination_by n
decreasing_by omega

/-- `strconv.FormatInt(v, 10)` / `jwriter.Int64` -/
def formatInt (v : Int) : Bytes :=
  if v < 0 then 45 :: digitsOfNat v.natAbs else digitsOfNat v.natAbs

def isDigit (c : UInt8) : Bool := 48 ≤ c && c ≤ 57

def natOfDigits : Bytes → Nat → Nat
  | [], acc => acc
  | c :: cs, acc => natOfDigits cs (acc * 10 + (c.toNat - 48))

/-- `strconv.ParseInt(s, 10, bits)`: optional sign, one or more decimal digits, in range.
(With an explicit base 10 Go accepts neither prefixes nor underscores.) -/
def splitSign (s : Bytes) : Bool × Bytes :=
  match s with
  | 43 :: r => (false, r)
  | 45 :: r => (true, r)
  | r => (false, r)

def parseInt (bits : Nat) (s : Bytes) : Option Int :=
  let (neg, body) := splitSign s
  if body.isEmpty || !body.all isDigit then none
  else
    let n := natOfDigits body 0
    let lim : Nat := 2 ^ (bits - 1)
    if neg then (if n ≤ lim then some (-(n : Int)) else none)
    else (if n < lim then some (n : Int) else none)

/-- `strconv.ParseBool` -/
def parseBool (s : Bytes) : Option Bool :=
  let t := asciiString s
  if t ∈ ["1", "t", "T", "TRUE", "true", "True"] then some true
  else if t ∈ ["0", "f", "F", "FALSE", "false", "False"] then some false
  else none

/-! ## binary floating point as rationals -/

/-- round-half-even of `n / d` (`d > 0`) -/
def roundDiv (n d : Nat) : Nat :=
  let q := n / d
  let r := n % d
  if 2 * r < d then q else if 2 * r > d then q + 1 else if q % 2 == 0 then q else q + 1

structure FloatFmt where
  mbits : Nat      -- explicit mantissa bits (52 / 23)
  ebits : Nat      -- exponent bits (11 / 8)

def f64 : FloatFmt := ⟨52, 11⟩
def f32 : FloatFmt := ⟨23, 8⟩

def FloatFmt.bias (f : FloatFmt) : Nat := 2 ^ (f.ebits - 1) - 1
/-- exponent of the least significant bit of a subnormal: 1 - bias - mbits -/
def FloatFmt.emin (f : FloatFmt) : Int := 1 - (f.bias : Int) - (f.mbits : Int)
def FloatFmt.expMask (f : FloatFmt) : Nat := 2 ^ f.ebits - 1

/-- bits of the nearest (ties to even) value of format `f` to `num/den` (`den > 0`);
`none` on overflow (Go: ±Inf with a range error). -/
def roundToBits (f : FloatFmt) (neg : Bool) (num den : Nat) : Option Nat :=
  let sign : Nat := if neg then 2 ^ (f.mbits + f.ebits) else 0
  if num == 0 then some sign
  else
    let e0 : Int := (Nat.log2 num : Int) - (Nat.log2 den : Int)
    let ge (e : Int) : Bool :=
      if e ≥ 0 then num ≥ den * 2 ^ e.toNat else num * 2 ^ (-e).toNat ≥ den
    let e : Int := if ge (e0 + 1) then e0 + 1 else if ge e0 then e0 else e0 - 1
    let k0 : Int := e - (f.mbits : Int)
    let k : Int := if k0 < f.emin then f.emin else k0
    let mant0 : Nat :=
      if k ≥ 0 then roundDiv num (den * 2 ^ k.toNat) else roundDiv (num * 2 ^ (-k).toNat) den
    let (mant, k) : Nat × Int :=
      if mant0 == 2 ^ (f.mbits + 1) then (2 ^ f.mbits, k + 1) else (mant0, k)
    if mant ≥ 2 ^ f.mbits then
      let biased : Int := k + (f.mbits : Int) + (f.bias : Int)
      if biased ≥ (f.expMask : Int) then none
      else some (sign + biased.toNat * 2 ^ f.mbits + (mant - 2 ^ f.mbits))
    else some (sign + mant)

structure Decoded where
  neg : Bool
  /-- 0 = finite, 1 = infinity, 2 = NaN -/
  cls : Nat
  mant : Nat
  exp2 : Int

def decodeBits (f : FloatFmt) (b : Nat) : Decoded :=
  let neg := (b / 2 ^ (f.mbits + f.ebits)) % 2 == 1
  let e := (b / 2 ^ f.mbits) % 2 ^ f.ebits
  let m := b % 2 ^ f.mbits
  if e == f.expMask then ⟨neg, if m == 0 then 1 else 2, 0, 0⟩
  else if e == 0 then ⟨neg, 0, m, f.emin⟩
  else ⟨neg, 0, m + 2 ^ f.mbits, (e : Int) - (f.bias : Int) - (f.mbits : Int)⟩

def infBits (f : FloatFmt) (neg : Bool) : Nat :=
  (if neg then 2 ^ (f.mbits + f.ebits) else 0) + f.expMask * 2 ^ f.mbits
/-- the quiet NaN Go's conversions and `math.NaN()`-style parsing produce (compared only up to "is NaN") -/
def nanBits (f : FloatFmt) : Nat := f.expMask * 2 ^ f.mbits + 2 ^ (f.mbits - 1)

def isNaN (f : FloatFmt) (b : Nat) : Bool := (decodeBits f b).cls == 2

/-- convert between formats with IEEE rounding (`float32(x)`, `float64(x)`) -/
def convert (src dst : FloatFmt) (b : Nat) : Nat :=
  let d := decodeBits src b
  if d.cls == 1 then infBits dst d.neg
  else if d.cls == 2 then nanBits dst
  else
    let r := if d.exp2 ≥ 0 then roundToBits dst d.neg (d.mant * 2 ^ d.exp2.toNat) 1
             else roundToBits dst d.neg d.mant (2 ^ (-d.exp2).toNat)
    match r with
    | some x => x
    | none => infBits dst d.neg

/-! ## ParseFloat (decimal) -/

inductive PF where
  | ok (bits : Nat)
  | syntaxErr
  | rangeErr
  | unmodelled      -- hexadecimal / underscore syntax: declined
deriving Repr, DecidableEq

def lower (c : UInt8) : UInt8 := if 65 ≤ c && c ≤ 90 then c + 32 else c

def commonPrefixLenIgnoreCase : Bytes → Bytes → Nat
  | c :: cs, p :: ps => if lower c == p then 1 + commonPrefixLenIgnoreCase cs ps else 0
  | _, _ => 0

def infinityWord : Bytes := [105, 110, 102, 105, 110, 105, 116, 121]
def nanWord : Bytes := [110, 97, 110]

/-- Go's `special`: returns (class, neg, consumed) -/
def special (s : Bytes) : Option (Nat × Bool × Nat) :=
  match s with
  | [] => none
  | c :: rest =>
    let tryInf (neg : Bool) (nsign : Nat) (body : Bytes) : Option (Nat × Bool × Nat) :=
      let n := commonPrefixLenIgnoreCase body infinityWord
      let n := if 3 < n && n < 8 then 3 else n
      if n == 3 || n == 8 then some (1, neg, nsign + n) else none
    if c == 43 then tryInf false 1 rest
    else if c == 45 then tryInf true 1 rest
    else if lower c == 105 then tryInf false 0 s
    else if lower c == 110 then
      if commonPrefixLenIgnoreCase s nanWord == 3 then some (2, false, 3) else none
    else none

def takeDigits : Bytes → Bytes × Bytes
  | [] => ([], [])
  | c :: cs => if isDigit c then let (d, r) := takeDigits cs; (c :: d, r) else ([], c :: cs)

/-- decimal float syntax: sign? digits ('.' digits)? ([eE] sign? digits)?  with at least one
mantissa digit. Returns (neg, mantissa, exp10). -/
def readDecimal (s : Bytes) : Option (Bool × Nat × Int) :=
  let (neg, s1) := match s with
    | 43 :: r => (false, r)
    | 45 :: r => (true, r)
    | r => (false, r)
  let (ip, s2) := takeDigits s1
  let (fp, s3) := match s2 with
    | 46 :: r => takeDigits r
    | r => ([], r)
  if ip.isEmpty && fp.isEmpty then none
  else
    let mant := natOfDigits (ip ++ fp) 0
    let e0 : Int := -(fp.length : Int)
    match s3 with
    | [] => some (neg, mant, e0)
    | c :: r =>
      if c == 101 || c == 69 then
        let (eneg, r1) := match r with
          | 43 :: t => (false, t)
          | 45 :: t => (true, t)
          | t => (false, t)
        let (ed, r2) := takeDigits r1
        if ed.isEmpty || !r2.isEmpty then none
        else
          let ev : Int := natOfDigits ed 0
          some (neg, mant, e0 + (if eneg then -ev else ev))
      else none

/-- `strconv.ParseFloat(s, bits)` returning the bit pattern in format `f` -/
def parseFloat (f : FloatFmt) (s : Bytes) : PF :=
  match special s with
  | some (cls, neg, n) =>
    if n == s.length then .ok (if cls == 1 then infBits f neg else nanBits f) else .syntaxErr
  | none =>
    if s.any (fun c => c == 95 || lower c == 120 || lower c == 112) then .unmodelled
    else match readDecimal s with
      | none => .syntaxErr
      | some (neg, mant, e) =>
        -- exponents far outside the representable range are decided without big powers
        if mant == 0 then .ok (if neg then 2 ^ (f.mbits + f.ebits) else 0)
        else if e > 400 then .rangeErr
        else if e < -1500 then .ok (if neg then 2 ^ (f.mbits + f.ebits) else 0)
        else
          let r := if e ≥ 0 then roundToBits f neg (mant * 10 ^ e.toNat) 1
                   else roundToBits f neg mant (10 ^ (-e).toNat)
          match r with
          | some b => .ok b
          | none => .rangeErr

/-! ## FormatFloat(x, 'g', -1, 64) — shortest representation that round-trips -/

structure Q where
  num : Nat
  den : Nat

def Q.lt (a b : Q) : Bool := a.num * b.den < b.num * a.den
def Q.le (a b : Q) : Bool := a.num * b.den ≤ b.num * a.den
def mkQ (m : Nat) (e : Int) : Q := if e ≥ 0 then ⟨m * 2 ^ e.toNat, 1⟩ else ⟨m, 2 ^ (-e).toNat⟩
def decQ (d : Nat) (k : Int) : Q := if k ≥ 0 then ⟨d * 10 ^ k.toNat, 1⟩ else ⟨d, 10 ^ (-k).toNat⟩
def Q.absDiff (a b : Q) : Q :=
  let x := a.num * b.den
  let y := b.num * a.den
  ⟨if x ≥ y then x - y else y - x, a.den * b.den⟩

def floorScaled (x : Q) (k : Int) : Nat :=
  if k ≥ 0 then x.num / (x.den * 10 ^ k.toNat) else (x.num * 10 ^ (-k).toNat) / x.den

/-- largest p with 10^p ≤ x (x > 0) -/
def log10floor (x : Q) : Int :=
  let rec go (p : Int) : Nat → Int
    | 0 => p
    | fuel + 1 =>
      if (decQ 1 p).le x then
        if x.lt (decQ 1 (p + 1)) then p else go (p + 1) fuel
      else go (p - 1) fuel
  go 0 800

def stripTrailingZeros (ds : Bytes) : Bytes := (ds.reverse.dropWhile (· == 48)).reverse

/-- shortest digits: (digits, decimal point position dp) with value = 0.d1d2… × 10^dp -/
def shortest (mant : Nat) (e2 : Int) (mantEven lowerHalfGap : Bool) : Bytes × Int :=
  let x := mkQ mant e2
  let upper := mkQ (2 * mant + 1) (e2 - 1)
  let lower := if lowerHalfGap then mkQ (4 * mant - 1) (e2 - 2) else mkQ (2 * mant - 1) (e2 - 1)
  let inI (q : Q) : Bool := if mantEven then lower.le q && q.le upper else lower.lt q && q.lt upper
  let p := log10floor x
  let rec go (n : Nat) : Nat → Bytes × Int
    | 0 => ([], 0)
    | fuel + 1 =>
      let k : Int := p - (n : Int) + 1
      let fl := floorScaled x k
      let c1 := fl
      let c2 := fl + 1
      let ok1 := c1 ≥ 10 ^ (n - 1) && inI (decQ c1 k)
      let ok2 := inI (decQ c2 k)
      if ok1 || ok2 then
        let pick :=
          if ok1 && ok2 then
            let d1 := (decQ c1 k).absDiff x
            let d2 := (decQ c2 k).absDiff x
            if d1.lt d2 then c1 else if d2.lt d1 then c2 else (if c1 % 2 == 0 then c1 else c2)
          else if ok1 then c1 else c2
        let s := digitsOfNat pick
        (stripTrailingZeros s, k + (s.length : Int))
      else go (n + 1) fuel
  go 1 20

def fmtE (neg : Bool) (ds : Bytes) (dp : Int) : Bytes :=
  let exp := dp - 1
  let es := digitsOfNat exp.natAbs
  let es := if es.length < 2 then 48 :: es else es
  (if neg then [45] else []) ++ ds.take 1 ++ (if ds.length ≤ 1 then [] else 46 :: ds.drop 1)
    ++ [101] ++ [if exp < 0 then 45 else 43] ++ es

def fmtF (neg : Bool) (ds : Bytes) (dp : Int) : Bytes :=
  let sign : Bytes := if neg then [45] else []
  if dp ≤ 0 then sign ++ [48, 46] ++ List.replicate (-dp).toNat 48 ++ ds
  else if dp.toNat ≥ ds.length then sign ++ ds ++ List.replicate (dp.toNat - ds.length) 48
  else sign ++ ds.take dp.toNat ++ [46] ++ ds.drop dp.toNat

/-- `strconv.AppendFloat(nil, x, 'g', -1, 64)` on the bit pattern `b` -/
def formatFloat64 (b : Nat) : Bytes :=
  let d := decodeBits f64 b
  if d.cls == 2 then [78, 97, 78]
  else if d.cls == 1 then (if d.neg then [45, 73, 110, 102] else [43, 73, 110, 102])
  else if d.mant == 0 then (if d.neg then [45, 48] else [48])
  else
    let e := (b / 2 ^ 52) % 2048
    let boundary := b % 2 ^ 52 == 0 && e > 1
    let (ds, dp) := shortest d.mant d.exp2 (d.mant % 2 == 0) boundary
    let exp := dp - 1
    -- with the shortest representation Go uses precision 6 for the %e / %f decision
    if exp < -4 || exp ≥ 6 then fmtE d.neg ds dp
    else fmtF d.neg ds dp

end Restli.Strconv
