import Restli.Lib.Basic
/-! # Lib.Url — executable model of the parts of Go's `net/url` (go1.23) that request
construction uses

Transliterated from `$(go env GOROOT)/src/net/url/url.go`:
`shouldEscape`, `unescape` (path mode), `escape`, `validEncoded`, `getScheme`, `Parse`/`parse`
(`viaRequest = false`), `parseAuthority`/`parseHost` (plain hosts), `setPath`, `EscapedPath`,
`String`, `RequestURI`, `resolvePath`, `ResolveReference`, `(*URL).Parse`; and from
`net/http/request.go`: `removeEmptyPort` (applied by `http.NewRequestWithContext`).

This is THIRD-PARTY behaviour. It is a model, validated differentially against the real
`net/url` on every run of `bin/check C15` (ops `urlparse`, `urlresolve`), never verified. It
is named in the trusted base of every theorem that mentions it.

Regions deliberately not modelled — the functions answer `Res.unmodelled <region>`:
* `fragment`    : any `#` in the input (Fragment / RawFragment / setFragment)
* `opaque`      : `scheme:rest` where `rest` does not start with `/`
* `userinfo`    : `@` in the authority
* `ipv6-host`   : authority starting with `[`
* `host-escape` : `%` or a byte ≥ 0x80 in the authority (host unescaping / re-escaping)
-/
namespace Restli.Url
open Restli

/-- outcome of a modelled third-party call -/
inductive Res (α : Type) where
  | ok (a : α)
  | err
  | unmodelled (region : String)
  | panic
deriving Repr, DecidableEq

/-! ## bytes -/
abbrev cSlash : UInt8 := 47
abbrev cQuest : UInt8 := 63
abbrev cHash : UInt8 := 35
abbrev cPct : UInt8 := 37
abbrev cColon : UInt8 := 58
abbrev cAt : UInt8 := 64
abbrev cDot : UInt8 := 46
abbrev cStar : UInt8 := 42
abbrev cLBrack : UInt8 := 91
abbrev cRBrack : UInt8 := 93

def isAlpha (c : UInt8) : Bool := (97 ≤ c && c ≤ 122) || (65 ≤ c && c ≤ 90)
def isDigit (c : UInt8) : Bool := 48 ≤ c && c ≤ 57
def isAlnum (c : UInt8) : Bool := isAlpha c || isDigit c
/-- `ishex` -/
def isHex (c : UInt8) : Bool := isDigit c || (97 ≤ c && c ≤ 102) || (65 ≤ c && c ≤ 70)
/-- `unhex` -/
def unhex (c : UInt8) : UInt8 :=
  if isDigit c then c - 48
  else if 97 ≤ c && c ≤ 102 then c - 97 + 10
  else if 65 ≤ c && c ≤ 70 then c - 65 + 10
  else 0
/-- `upperhex[n]` for n < 16 -/
def upperHex (n : UInt8) : UInt8 := if n < 10 then 48 + n else 55 + n
/-- `stringContainsCTLByte`'s byte test -/
def isCtl (c : UInt8) : Bool := c < 32 || c == 127
def toLowerByte (c : UInt8) : UInt8 := if 65 ≤ c && c ≤ 90 then c + 32 else c

/-! ## string helpers (`strings.Cut`, `LastIndex`, `HasPrefix` …) over bytes -/

/-- `strings.Cut(s, sep)` for a one-byte separator: (before, after, found) -/
def cut (sep : UInt8) : Bytes → Bytes × Bytes × Bool
  | [] => ([], [], false)
  | c :: cs =>
    if c == sep then ([], cs, true)
    else let r := cut sep cs; (c :: r.1, r.2.1, r.2.2)

/-- like `s[:i], s[i:]` with `i = strings.IndexByte(s, sep)`; (`s`, none) when absent -/
def splitAtByte (sep : UInt8) : Bytes → Bytes × Option Bytes
  | [] => ([], none)
  | c :: cs =>
    if c == sep then ([], some (c :: cs))
    else let r := splitAtByte sep cs; (c :: r.1, r.2)

/-- the part after the last `sep` (`s[LastIndex(s,sep)+1:]`), `none` when `sep` is absent -/
def afterLast (sep : UInt8) : Bytes → Option Bytes
  | [] => none
  | c :: cs =>
    match afterLast sep cs with
    | some r => some r
    | none => if c == sep then some cs else none

/-- `strings.LastIndexByte` -/
def lastIndexOf (sep : UInt8) : Bytes → Option Nat
  | [] => none
  | c :: cs =>
    match lastIndexOf sep cs with
    | some i => some (i + 1)
    | none => if c == sep then some 0 else none

/-- `strings.Split(s, sep)` for a one-byte separator (never empty) -/
def splitOn (sep : UInt8) : Bytes → List Bytes
  | [] => [[]]
  | c :: cs =>
    if c == sep then [] :: splitOn sep cs
    else match splitOn sep cs with
      | h :: t => (c :: h) :: t
      | [] => [[c]]

def hasPrefix (p s : Bytes) : Bool := p.isPrefixOf s

/-! ## escaping -/

inductive Enc | path | pathSegment | host | zone | userPassword | queryComponent | fragment
deriving DecidableEq, Repr

/-- `shouldEscape(c, mode)` -/
def shouldEscape (c : UInt8) (mode : Enc) : Bool :=
  if isAlnum c then false
  else if (mode == .host || mode == .zone) &&
      -- ! $ & ' ( ) * + , ; = : [ ] < > "
      [33, 36, 38, 39, 40, 41, 42, 43, 44, 59, 61, 58, 91, 93, 60, 62, 34].contains c then false
  else if [45, 95, 46, 126].contains c then false      -- - _ . ~
  else
    let reservedAnswer : Option Bool :=
      if [36, 38, 43, 44, 47, 58, 59, 61, 63, 64].contains c then   -- $ & + , / : ; = ? @
        match mode with
        | .path => some (c == 63)
        | .pathSegment => some (c == 47 || c == 59 || c == 44 || c == 63)
        | .userPassword => some (c == 64 || c == 47 || c == 63 || c == 58)
        | .queryComponent => some true
        | .fragment => some false
        | _ => none
      else none
    match reservedAnswer with
    | some b => b
    | none =>
      if mode == .fragment && [33, 40, 41, 42].contains c then false   -- ! ( ) *
      else true

/-- `unescape(s, encodePath)`: `none` is the `EscapeError` -/
def unescape : Bytes → Option Bytes
  | [] => some []
  | c :: rest =>
    if c == cPct then
      match rest with
      | a :: b :: rest' =>
        if isHex a && isHex b then (unescape rest').map ((unhex a <<< 4 ||| unhex b) :: ·) else none
      | _ => none
    else (unescape rest).map (c :: ·)

/-- `escape(s, mode)` for the modes without the space→'+' rule (everything but queryComponent) -/
def escape (s : Bytes) (mode : Enc) : Bytes :=
  s.flatMap fun c => if shouldEscape c mode then [cPct, upperHex (c >>> 4), upperHex (c &&& 15)] else [c]

/-- the per-byte test of `validEncoded(s, encodePath)` -/
def validEncodedByte (c : UInt8) : Bool :=
  -- ! $ & ' ( ) * + , ; = : @ [ ] %
  [33, 36, 38, 39, 40, 41, 42, 43, 44, 59, 61, 58, 64, 91, 93, 37].contains c || !shouldEscape c .path

/-- `validEncoded(s, encodePath)` -/
def validEncoded (s : Bytes) : Bool := s.all validEncodedByte

/-! ## URL -/

/-- `url.URL` restricted to the modelled region: `Opaque = ""`, `User = nil`,
`Fragment = RawFragment = ""` always. -/
structure URL where
  scheme : Bytes := []
  host : Bytes := []
  path : Bytes := []
  rawPath : Bytes := []
  omitHost : Bool := false
  forceQuery : Bool := false
  rawQuery : Bytes := []
deriving Repr, DecidableEq

/-- `(*URL).setPath`; `none` when the path holds an invalid escape -/
def setPath (u : URL) (p : Bytes) : Option URL :=
  match unescape p with
  | none => none
  | some path => some { u with path := path, rawPath := if escape path .path == p then [] else p }

/-- `(*URL).EscapedPath` -/
def escapedPath (u : URL) : Bytes :=
  if u.rawPath ≠ [] && validEncoded u.rawPath && unescape u.rawPath == some u.path then u.rawPath
  else if u.path == [cStar] then [cStar]
  else escape u.path .path

/-- `getScheme`, with the prefix consumed so far as accumulator; `none` = "missing protocol scheme" -/
def getSchemeAux (raw : Bytes) (acc : Bytes) : Bytes → Option (Bytes × Bytes)
  | [] => some ([], raw)
  | c :: cs =>
    if isAlpha c then getSchemeAux raw (acc ++ [c]) cs
    else if isDigit c || c == 43 || c == 45 || c == 46 then
      if acc == [] then some ([], raw) else getSchemeAux raw (acc ++ [c]) cs
    else if c == cColon then
      if acc == [] then none else some (acc, cs)
    else some ([], raw)

def getScheme (raw : Bytes) : Option (Bytes × Bytes) := getSchemeAux raw [] raw

/-- the `?` handling at the top of `parse`: (rest, ForceQuery, RawQuery) -/
def splitQuery (rest : Bytes) : Bytes × Bool × Bytes :=
  if rest.getLast? == some cQuest && rest.count cQuest == 1 then (rest.dropLast, true, [])
  else let r := cut cQuest rest; (r.1, false, r.2.1)

/-- `parseHost` on the modelled region -/
def parseHost (host : Bytes) : Res Bytes :=
  if host.head? == some cLBrack then .unmodelled "ipv6-host"
  else if host.any (fun c => c == cPct || c ≥ 128) then .unmodelled "host-escape"
  else
    let portOk := match afterLast cColon host with
      | none => true
      | some p => p.all isDigit
    if !portOk then .err
    else if host.any (fun c => shouldEscape c .host) then .err
    else .ok host

/-- `url.Parse` (`parse(rawURL, viaRequest=false)` after cutting the fragment) -/
def parse (raw : Bytes) : Res URL :=
  if raw.contains cHash then .unmodelled "fragment"
  else if raw.any isCtl then .err
  else if raw == [cStar] then .ok { path := [cStar] }
  else
    match getScheme raw with
    | none => .err
    | some (scheme0, rest0) =>
      let scheme := scheme0.map toLowerByte
      let sq := splitQuery rest0
      let rest := sq.1
      let u0 : URL := { scheme := scheme, forceQuery := sq.2.1, rawQuery := sq.2.2 }
      if !hasPrefix [cSlash] rest && scheme ≠ [] then .unmodelled "opaque"
      else if !hasPrefix [cSlash] rest && (cut cSlash rest).1.contains cColon then .err
      else if (scheme ≠ [] || !hasPrefix [cSlash, cSlash, cSlash] rest) && hasPrefix [cSlash, cSlash] rest then
        let sp := splitAtByte cSlash (rest.drop 2)
        let authority := sp.1
        let rest' := sp.2.getD []
        if authority.contains cAt then .unmodelled "userinfo"
        else match parseHost authority with
          | .ok h =>
            match setPath { u0 with host := h } rest' with
            | some u => .ok u
            | none => .err
          | .err => .err
          | .unmodelled r => .unmodelled r
          | .panic => .panic
      else
        let u1 := if scheme ≠ [] && hasPrefix [cSlash] rest then { u0 with omitHost := true } else u0
        match setPath u1 rest with
        | some u => .ok u
        | none => .err

/-- `(*URL).String` (Opaque, User, Fragment empty) -/
def toString (u : URL) : Bytes :=
  let b1 := if u.scheme ≠ [] then u.scheme ++ [cColon] else []
  let b2 :=
    if u.scheme ≠ [] || u.host ≠ [] then
      if u.omitHost && u.host == [] then []
      else (if u.host ≠ [] || u.path ≠ [] then [cSlash, cSlash] else []) ++ escape u.host .host
    else []
  let path := escapedPath u
  let b3 := if path ≠ [] && path.head? ≠ some cSlash && u.host ≠ [] then [cSlash] else []
  let pre := b1 ++ b2 ++ b3
  let b4 := if pre == [] && (cut cSlash path).1.contains cColon then [cDot, cSlash] else []
  pre ++ b4 ++ path ++ (if u.forceQuery || u.rawQuery ≠ [] then cQuest :: u.rawQuery else [])

/-- `(*URL).RequestURI` (Opaque empty) -/
def requestURI (u : URL) : Bytes :=
  let p := escapedPath u
  (if p == [] then [cSlash] else p) ++ (if u.forceQuery || u.rawQuery ≠ [] then cQuest :: u.rawQuery else [])

/-! ## reference resolution -/

/-- loop state of `resolvePath`: `dst` is the builder's content after its leading `/` -/
structure RP where
  dst : Bytes
  first : Bool
deriving Repr, DecidableEq

def resolveStep (st : RP) (elem : Bytes) : RP :=
  if elem == [cDot] then { st with first := false }
  else if elem == [cDot, cDot] then
    match lastIndexOf cSlash st.dst with
    | none => { dst := [], first := true }
    | some i => { st with dst := st.dst.take i }
  else { dst := (if st.first then st.dst else st.dst ++ [cSlash]) ++ elem, first := false }

/-- `resolvePath(base, ref)` -/
def resolvePath (base ref : Bytes) : Bytes :=
  let full :=
    if ref == [] then base
    else if ref.head? ≠ some cSlash then
      (match lastIndexOf cSlash base with
       | none => []
       | some i => base.take (i + 1)) ++ ref
    else ref
  if full == [] then []
  else
    let elems := splitOn cSlash full
    let st := elems.foldl resolveStep { dst := [], first := true }
    let lastElem := elems.getLast?.getD []
    let dst := if lastElem == [cDot] || lastElem == [cDot, cDot] then st.dst ++ [cSlash] else st.dst
    -- r = "/" ++ dst ; drop one of two leading slashes
    if dst.head? == some cSlash then dst else cSlash :: dst

/-- `url.setPath(p)` with the error ignored, as `ResolveReference` does -/
def setPathOrKeep (u : URL) (p : Bytes) : URL := (setPath u p).getD u

/-- `(*URL).ResolveReference` (Opaque, User, Fragment empty on both sides) -/
def resolveReference (u ref : URL) : URL :=
  let url := { ref with scheme := if ref.scheme == [] then u.scheme else ref.scheme }
  if ref.scheme ≠ [] || ref.host ≠ [] then
    setPathOrKeep url (resolvePath (escapedPath ref) [])
  else
    let url := if ref.path == [] && !ref.forceQuery && ref.rawQuery == []
      then { url with rawQuery := u.rawQuery } else url
    setPathOrKeep { url with host := u.host } (resolvePath (escapedPath u) (escapedPath ref))

/-- `(*URL).Parse(ref)` -/
def urlParse (u : URL) (ref : Bytes) : Res URL :=
  match parse ref with
  | .ok r => .ok (resolveReference u r)
  | .err => .err
  | .unmodelled r => .unmodelled r
  | .panic => .panic

/-- `net/http.removeEmptyPort` -/
def removeEmptyPort (host : Bytes) : Bytes :=
  let hasPort := match lastIndexOf cColon host, lastIndexOf cRBrack host with
    | some i, some j => i > j
    | some _, none => true
    | none, _ => false
  if hasPort && host.getLast? == some cColon then host.dropLast else host

end Restli.Url
