import Restli.Lib.Basic
/-! Go's `unicode/utf8`: `DecodeRune` (with U+FFFD, width 1 for anything invalid: overlong
forms, surrogates, values above U+10FFFF, truncated sequences) and `EncodeRune`. -/
namespace Restli.Utf8

def runeError : Nat := 0xFFFD

def isCont (lo hi : Nat) (b : UInt8) : Bool := lo ≤ b.toNat && b.toNat ≤ hi

/-- `utf8.DecodeRune`: (rune, width); width 0 only for empty input -/
def decodeRune : Bytes → Nat × Nat
  | [] => (runeError, 0)
  | b0 :: rest =>
    let x := b0.toNat
    if x < 0x80 then (x, 1)
    else if 0xC2 ≤ x && x ≤ 0xDF then
      match rest with
      | b1 :: _ => if isCont 0x80 0xBF b1 then ((x - 0xC0) * 64 + (b1.toNat - 0x80), 2) else (runeError, 1)
      | _ => (runeError, 1)
    else if 0xE0 ≤ x && x ≤ 0xEF then
      let lo := if x == 0xE0 then 0xA0 else 0x80
      let hi := if x == 0xED then 0x9F else 0xBF
      match rest with
      | b1 :: b2 :: _ =>
        if isCont lo hi b1 && isCont 0x80 0xBF b2 then
          ((x - 0xE0) * 4096 + (b1.toNat - 0x80) * 64 + (b2.toNat - 0x80), 3)
        else (runeError, 1)
      | _ => (runeError, 1)
    else if 0xF0 ≤ x && x ≤ 0xF4 then
      let lo := if x == 0xF0 then 0x90 else 0x80
      let hi := if x == 0xF4 then 0x8F else 0xBF
      match rest with
      | b1 :: b2 :: b3 :: _ =>
        if isCont lo hi b1 && isCont 0x80 0xBF b2 && isCont 0x80 0xBF b3 then
          ((x - 0xF0) * 262144 + (b1.toNat - 0x80) * 4096 + (b2.toNat - 0x80) * 64 + (b3.toNat - 0x80), 4)
        else (runeError, 1)
      | _ => (runeError, 1)
    else (runeError, 1)

/-- `utf8.EncodeRune` / `utf8.AppendRune`: surrogates and out-of-range values encode U+FFFD -/
def encodeRune (r : Nat) : Bytes :=
  let r := if r > 0x10FFFF || (0xD800 ≤ r && r ≤ 0xDFFF) then runeError else r
  if r < 0x80 then [UInt8.ofNat r]
  else if r < 0x800 then [UInt8.ofNat (0xC0 + r / 64), UInt8.ofNat (0x80 + r % 64)]
  else if r < 0x10000 then
    [UInt8.ofNat (0xE0 + r / 4096), UInt8.ofNat (0x80 + (r / 64) % 64), UInt8.ofNat (0x80 + r % 64)]
  else
    [UInt8.ofNat (0xF0 + r / 262144), UInt8.ofNat (0x80 + (r / 4096) % 64),
     UInt8.ofNat (0x80 + (r / 64) % 64), UInt8.ofNat (0x80 + r % 64)]

/-- the runes of a byte string as Go's `for _, r := range s` yields them -/
def runes : Nat → Bytes → List Nat
  | 0, _ => []
  | _, [] => []
  | fuel + 1, b => let (r, w) := decodeRune b; r :: runes fuel (b.drop (max w 1))

def runesOf (b : Bytes) : List Nat := runes b.length b

def validUtf8 (b : Bytes) : Bool :=
  let rec go : Nat → Bytes → Bool
    | 0, b => b.isEmpty
    | _, [] => true
    | fuel + 1, b =>
      let (r, w) := decodeRune b
      if r == runeError && w ≤ 1 then false else go fuel (b.drop w)
  go b.length b

end Restli.Utf8
