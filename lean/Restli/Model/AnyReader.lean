import Restli.Model.TreeReader
/-! The untyped-value reader (`any_reader.go`: `NewInterfaceReaderWithExcludedFields` over a tree of
`map[string]any` / `[]any` / scalars) driving the same generated unmarshalers. It is the tree
reader of `Model/TreeReader.lean` with its own leaf semantics: an untyped value is first laid out
as a document tree (`anyToTree`), then read with `anySem`. Go enumerates a map in no particular
order; the model reads the entries in the order of the list, and the correspondence compares
what does not depend on that order (see `Driver/AnyReader.lean`). -/
namespace Restli.Codec
open Json (JVal)

/-- what `reflect` tells the reader about a Go value (after one pointer dereference) -/
inductive AnyVal where
  /-- untyped `nil` (or a nil pointer): `val()` fails -/
  | nil
  | bool (b : Bool)
  /-- any signed integer kind (`CanInt`), as its `int64` value -/
  | int (v : Int)
  /-- `float64` bit pattern (`CanFloat`; a `float32` is its exact widening) -/
  | float (bits : Nat)
  /-- `string` or `[]byte` (`readString` treats them alike) -/
  | str (b : Bytes)
  /-- a slice of values -/
  | arr (items : List AnyVal)
  /-- a map with string keys -/
  | obj (kvs : List (Bytes × AnyVal))
  /-- anything else: unsigned integers, structs, maps with other keys, channels, … -/
  | other
deriving Repr, Inhabited

/-- leaf tags of the tree layout: `i<decimal>` an integer, `f<bits>` a float, `n` a nil where a
value is required, `x` a value of an unsupported kind -/
def tagInt : UInt8 := 105
def tagFloat : UInt8 := 102
def leafNil : Bytes := [110]
def leafOther : Bytes := [120]

mutual
/-- the document tree of an untyped value. A `nil` map entry is skipped by `ReadMap` like a JSON
`null` member (`.null`); a `nil` anywhere else makes `val()` fail whatever is read (a leaf no
read accepts). -/
def anyToTree (inMap : Bool) : AnyVal → JVal
  | .nil => if inMap then .null else .num leafNil
  | .bool b => .bool b
  | .int v => .num (tagInt :: Strconv.formatInt v)
  | .float b => .num (tagFloat :: Strconv.digitsOfNat b)
  | .str b => .str b
  | .arr items => .arr (anyItems items)
  | .obj kvs => .obj (anyKvs kvs)
  | .other => .num leafOther
def anyItems : List AnyVal → List JVal
  | [] => []
  | x :: xs => anyToTree false x :: anyItems xs
def anyKvs : List (Bytes × AnyVal) → List (Bytes × JVal)
  | [] => []
  | (k, v) :: rest => (k, anyToTree true v) :: anyKvs rest
end

/-- two's complement wrap of an `int64` into `bits` bits: Go's `T(i64)` -/
def wrapInt (bits : Nat) (v : Int) : Int :=
  let m : Int := 2 ^ bits
  let r := v % m
  if r ≥ m / 2 then r - m else r

/-- `T(v.Float())` for an integer type of `bits` bits: truncation toward zero; `none` when the
result is implementation-specific (NaN, infinities, out of range) -/
def floatToInt (bits : Nat) (b : Nat) : Option Int :=
  let d := Strconv.decodeBits Strconv.f64 b
  if d.cls != 0 then none
  else
    let mag : Nat := if d.exp2 ≥ 0 then d.mant * 2 ^ d.exp2.toNat else d.mant / 2 ^ (-d.exp2).toNat
    let v : Int := if d.neg then -(mag : Int) else mag
    if -(2 ^ (bits - 1) : Int) ≤ v ∧ v < 2 ^ (bits - 1) then some v else none

def anyInt (bits : Nat) (mk : Int → Value) (t : JVal) : TRes Value :=
  match t with
  | .str s => (match Strconv.parseInt 64 s with | some v => .ok (mk (wrapInt bits v)) [] | none => .err .syntax)
  | .num (tag :: rest) =>
    if tag == tagInt then
      (match Strconv.parseInt 64 rest with | some v => .ok (mk (wrapInt bits v)) [] | none => .err .syntax)
    else if tag == tagFloat then
      (match floatToInt bits (Strconv.natOfDigits rest 0) with | some v => .ok (mk v) [] | none => .unmodelled)
    else .err .syntax
  | _ => .err .syntax

/-- `T(f64)` / `T(v.Int())` / `T(v.Float())` for `T` = `float32` or `float64` -/
def anyFloat (f : Strconv.FloatFmt) (mk : Nat → Value) (t : JVal) : TRes Value :=
  match t with
  | .str s => (match Strconv.parseFloat Strconv.f64 s with
    | .ok b => .ok (mk (if f.mbits == 52 then b else Strconv.convert Strconv.f64 f b)) []
    | .unmodelled => .unmodelled
    | _ => .err .syntax)
  | .num (tag :: rest) =>
    if tag == tagInt then
      -- an `int64` converted to `T` is the correctly rounded value of its decimal text
      (match Strconv.parseFloat f rest with
      | .ok b => .ok (mk b) []
      | _ => .unmodelled)
    else if tag == tagFloat then
      let b := Strconv.natOfDigits rest 0
      .ok (mk (if f.mbits == 52 then b else Strconv.convert Strconv.f64 f b)) []
    else .err .syntax
  | _ => .err .syntax

def anyPrim (p : Prim) (t : JVal) : TRes Value :=
  match p with
  | .i32 => anyInt 32 .i32 t
  | .i64 => anyInt 64 .i64 t
  | .f32 => anyFloat Strconv.f32 .f32 t
  | .f64 => anyFloat Strconv.f64 .f64 t
  | .bool =>
    (match t with
    | .str s => (match Strconv.parseBool s with | some b => .ok (.bool b) [] | none => .err .syntax)
    | .bool b => .ok (.bool b) []
    | _ => .err .syntax)
  | .str => (match t with | .str b => .ok (.str b) [] | _ => .err .syntax)
  | .bytes =>
    -- `readBytes(a.ReadString())`: the bytes of the string as they are (a `[]byte` value comes
    -- back unchanged; no code-point decoding as in the JSON reader)
    (match t with | .str b => .ok (.bytes b) [] | _ => .err .syntax)

def anySem : LeafSem :=
  { prim := anyPrim
    str := fun t => match t with | .str b => .ok b [] | _ => .err .syntax
    key := some }

/-- `NewInterfaceReaderWithExcludedFields(v, spec, ignore)` + generated `UnmarshalRestLi` -/
def unmarshalAny (env : Env) (tracker : Tracker) (ty : Ty) (v : AnyVal) : TRes Value :=
  treeRead { env := env, tracker := tracker, sem := anySem } true [] ty (anyToTree false v)

end Restli.Codec
