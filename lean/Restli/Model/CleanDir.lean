import Restli.Lib.Basic
import Restli.Gen.Tables
/-! Model of `codegen/utils.CleanTargetDir` (v2/codegen/utils/codefile.go) over an abstract
directory tree. The filesystem calls are assumed to succeed and to behave like POSIX
readdir/unlink/rmdir (trusted base); the one error the code can produce by itself — the
manifest name being a non-empty directory, on which `os.Remove` fails — is modelled.

Symbolic links. `os.ReadDir` reports a symbolic link with `DirEntry.IsDir() = false` whatever it
points to (a directory inside or outside the target, an ancestor, a file, nothing), and the code
asks nothing else about an entry: a link is a non-directory entry. It is therefore a `Node.file`
whose `Leaf` is `.link dest`; like a regular file it is unlinked (`os.Remove` removes the link, not
what it points to) when its NAME carries the generated suffix or is the manifest name, and left
alone otherwise. Nothing in the model ever reads `dest`: links are never followed
(`c20_links_not_followed`). The target path itself is assumed to be a real directory. -/
namespace Restli.CleanDir

abbrev Name := String

/-- what a non-directory entry holds: a regular file (content id) or a symbolic link (the text of
its destination, never resolved by the cleaner) -/
inductive Leaf where
  | data (content : Nat)
  | link (dest : String)
deriving Repr, Inhabited, DecidableEq

/-- numerals denote regular files -/
instance : OfNat Leaf n := ⟨.data n⟩

inductive Node where
  /-- an entry with `DirEntry.IsDir() = false`: regular file or symbolic link -/
  | file (name : Name) (leaf : Leaf)
  | dir (name : Name) (children : List Node)
deriving Repr, Inhabited

def Node.name : Node → Name
  | .file n _ => n
  | .dir n _ => n

/-- which names the cleaner treats specially; instantiated from the regenerated constants
(`Gen` for v2: `.gr.go` / `go-restli-manifest.gr.json`; `GenRoot`: `.gr.go` / `parsed-specs.gr.json`).
The theorems hold for every instance. -/
structure Own where
  /-- `strings.HasSuffix(c.Name(), GeneratedFileSuffix)` -/
  isGen : Name → Bool
  /-- the entry `filepath.Join(targetDir, ManifestFile)` -/
  isManifest : Name → Bool

def ownOf (suffix manifest : String) : Own :=
  { isGen := fun n => suffix.toList.isSuffixOf n.toList, isManifest := fun n => n == manifest }
def ownV2 : Own := ownOf Gen.genSuffix Gen.manifestFile
def ownRoot : Own := ownOf GenRoot.genSuffix GenRoot.manifestFile

/-- `os.Remove(targetDir/ManifestFile)` fails (with something other than not-exist) iff that
entry is a non-empty directory (a symbolic link of that name, even one to a non-empty directory, is
simply unlinked). -/
def manifestBlocked (O : Own) : List Node → Bool
  | [] => false
  | .file _ _ :: rest => manifestBlocked O rest
  | .dir n cs :: rest => (O.isManifest n && !cs.isEmpty) || manifestBlocked O rest

def dropManifest (O : Own) : List Node → List Node
  | [] => []
  | c :: rest => if O.isManifest c.name then dropManifest O rest else c :: dropManifest O rest

/-- result of cleaning one directory: what is left of it (`none` = removed) and whether an
error was returned (in which case the walk stopped where it was). -/
structure R where
  node : Option Node
  err : Bool
deriving Repr

mutual
/-- the exported `CleanTargetDir` on an existing directory; `dot` = the path is literally "." -/
def cleanOuter (O : Own) (dot : Bool) : Node → R
  | .file n c => ⟨some (.file n c), true⟩     -- target is not a directory: ENOTDIR, untouched
  | .dir n cs =>
    if manifestBlocked O cs then ⟨some (.dir n cs), true⟩
    else
      let (cs', e) := cleanChildren O cs
      if e then ⟨some (.dir n cs'), true⟩
      else if cs'.isEmpty && !dot then ⟨none, false⟩
      else ⟨some (.dir n cs'), false⟩
/-- the `for _, c := range children` loop, with the manifest entry of this level already gone -/
def cleanChildren (O : Own) : List Node → List Node × Bool
  | [] => ([], false)
  | .file n c :: rest =>
    if O.isManifest n || O.isGen n then cleanChildren O rest
    else
      let (r, e) := cleanChildren O rest
      (.file n c :: r, e)
  | .dir n cs :: rest =>
    if O.isManifest n then cleanChildren O rest   -- not blocked ⇒ it was empty ⇒ `os.Remove` removed it
    else
      match cleanOuter O false (.dir n cs) with
      | ⟨r, true⟩ => (r.toList ++ dropManifest O rest, true)
      | ⟨r, false⟩ =>
        let (r', e) := cleanChildren O rest
        (r.toList ++ r', e)
end

/-- top-level entry: a missing target is a no-op -/
def clean (O : Own) (dot : Bool) : Option Node → R
  | none => ⟨none, false⟩
  | some t => cleanOuter O dot t

/-- the surroundings of a call: the target and a sibling directory beside it ("outside"), to which
links inside the target may point -/
structure World where
  target : Option Node
  outside : Option Node
deriving Repr

/-- a world after the call, with the error flag -/
structure WR where
  res : R
  outside : Option Node
deriving Repr

/-- `CleanTargetDir(target)` in its surroundings. The function is handed nothing but the target
path and derives every path it touches by `filepath.Join(targetDir, entryName)` from listings it
never resolves links in, so the sibling directory is passed through. -/
def cleanWorld (O : Own) (dot : Bool) (w : World) : WR :=
  ⟨clean O dot w.target, w.outside⟩

end Restli.CleanDir
