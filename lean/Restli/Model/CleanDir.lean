import Restli.Lib.Basic
import Restli.Gen.Tables
/-! Model of `codegen/utils.CleanTargetDir` (v2/codegen/utils/codefile.go) over an abstract
directory tree. The filesystem calls are assumed to succeed and to behave like POSIX
readdir/unlink/rmdir (trusted base); the one error the code can produce by itself — the
manifest name being a non-empty directory, on which `os.Remove` fails — is modelled. -/
namespace Restli.CleanDir

abbrev Name := String

inductive Node where
  | file (name : Name) (content : Nat)
  | dir (name : Name) (children : List Node)
deriving Repr, Inhabited

def Node.name : Node → Name
  | .file n _ => n
  | .dir n _ => n

/-- which names the cleaner treats specially; instantiated from the regenerated constants
(`Gen` for v2: `.gr.go` / `go-restli-manifest.gr.json`; `GenRoot`: `.gr.go` / `parsed-specs.gr.json`).
The theorems hold for every instance. -/
structure Own where
  /-- `strings.HasSuffix(c.Name(), GeneratedFileSuffix)` -/
  isGen : Name → Bool
  /-- the entry `filepath.Join(targetDir, ManifestFile)` -/
  isManifest : Name → Bool

def ownOf (suffix manifest : String) : Own :=
  { isGen := fun n => suffix.toList.isSuffixOf n.toList, isManifest := fun n => n == manifest }
def ownV2 : Own := ownOf Gen.genSuffix Gen.manifestFile
def ownRoot : Own := ownOf GenRoot.genSuffix GenRoot.manifestFile

/-- `os.Remove(targetDir/ManifestFile)` fails (with something other than not-exist) iff that
entry is a non-empty directory. -/
def manifestBlocked (O : Own) : List Node → Bool
  | [] => false
  | .file _ _ :: rest => manifestBlocked O rest
  | .dir n cs :: rest => (O.isManifest n && !cs.isEmpty) || manifestBlocked O rest

def dropManifest (O : Own) : List Node → List Node
  | [] => []
  | c :: rest => if O.isManifest c.name then dropManifest O rest else c :: dropManifest O rest

/-- result of cleaning one directory: what is left of it (`none` = removed) and whether an
error was returned (in which case the walk stopped where it was). -/
structure R where
  node : Option Node
  err : Bool
deriving Repr

mutual
/-- the exported `CleanTargetDir` on an existing directory; `dot` = the path is literally "." -/
def cleanOuter (O : Own) (dot : Bool) : Node → R
  | .file n c => ⟨some (.file n c), true⟩     -- target is not a directory: ENOTDIR, untouched
  | .dir n cs =>
    if manifestBlocked O cs then ⟨some (.dir n cs), true⟩
    else
      let (cs', e) := cleanChildren O cs
      if e then ⟨some (.dir n cs'), true⟩
      else if cs'.isEmpty && !dot then ⟨none, false⟩
      else ⟨some (.dir n cs'), false⟩
/-- the `for _, c := range children` loop, with the manifest entry of this level already gone -/
def cleanChildren (O : Own) : List Node → List Node × Bool
  | [] => ([], false)
  | .file n c :: rest =>
    if O.isManifest n || O.isGen n then cleanChildren O rest
    else
      let (r, e) := cleanChildren O rest
      (.file n c :: r, e)
  | .dir n cs :: rest =>
    if O.isManifest n then cleanChildren O rest   -- not blocked ⇒ it was empty ⇒ `os.Remove` removed it
    else
      match cleanOuter O false (.dir n cs) with
      | ⟨r, true⟩ => (r.toList ++ dropManifest O rest, true)
      | ⟨r, false⟩ =>
        let (r', e) := cleanChildren O rest
        (r.toList ++ r', e)
end

/-- top-level entry: a missing target is a no-op -/
def clean (O : Own) (dot : Bool) : Option Node → R
  | none => ⟨none, false⟩
  | some t => cleanOuter O dot t

end Restli.CleanDir
