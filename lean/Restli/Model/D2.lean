import Restli.Lib.Basic
/-! Model of the D2 announcement tracking and host selection code
(`v2/d2/client.go` `handleUriUpdate`; `v2/d2/serviceUris.go` `copy`, `iterateHostWeights`,
`filterAndChooseHost`, `chooseHost`; the root module's `d2/` copies are textually identical apart
from the import path of the ZooKeeper library, so one model serves both).

What is modelled, and how:

* The model starts from the *decoded* payload class of a `TreeCacheEvent`: `Data == nil`
  (`none`), `json.Unmarshal` returned an error (`malformed`), or a decoded `Uri` whose `Weights`
  map is given as an association list (`uri`). `encoding/json` and `url.Parse` are trusted base;
  the harness builds the real JSON payloads and checks the classes.
* Go maps are association lists with distinct keys; the list order stands for *one* iteration
  order. Every `range` over a map may use a different order, so the two passes of
  `filterAndChooseHost`, and every call of it, receive their own iteration sequence (`Draw.it1`,
  `Draw.it2`) as explicit parameters. Theorems quantify over all of them.
* Weights are **scaled naturals** (`Nat`; the real weight is `w / S` for any common scale `S`,
  the code is scale invariant). The random draw `rng.Float64() ∈ [0,1)` is the rational
  `p / q` (`Draw.p`, `Draw.q`); `randomWeight` is carried multiplied by `q` as an `Int`, so
  `randomWeight -= weight; randomWeight <= 0` is computed exactly. **Not modelled**: float64
  rounding (of the sum in pass one, the product, and the subtractions in pass two, which may
  run in different orders), negative / NaN / Inf weights (the JSON decoder accepts negative
  numbers; the property's quantifier is "weights incl. 0"), `url.URL` values with user info
  (pointer field, never equal as map keys), the unlocked package-level `*rand.Rand` (C17).
* `*serviceUris` pointers: the value-level model `handleUriUpdate` works on snapshot values; the
  heap-level model `handleUriUpdateH` makes allocation and in-place mutation explicit
  (`copy()` allocates a new cell, `delete` / index-assignment mutate the cell they are applied
  to) and is proved to refine the value-level one. -/
namespace Restli.D2

/-- a `url.URL` map key: its scheme and everything else (opaque identity) -/
structure Host where
  scheme : Bytes
  rest : Bytes
deriving DecidableEq, Repr

/-- one `(host, weight)` pair of a `Weights` map; weight is a scaled natural -/
abbrev Entry := Host × Nat

/-- decoded `Uri` (only `Weights` is used by the code under study), in one iteration order -/
structure Uri where
  weights : List Entry
deriving DecidableEq, Repr

inductive Payload where
  /-- `json.Unmarshal(*event.Data, uri)` returned an error -/
  | malformed
  /-- decoded successfully -/
  | uri (u : Uri)
deriving DecidableEq, Repr

/-- `TreeCacheEvent`: `data = none` is `Data == nil` (node deleted) -/
structure Event where
  path : Bytes
  data : Option Payload
deriving DecidableEq, Repr

/-- `map[string]*Uri` -/
abbrev UriMap := List (Bytes × Uri)

/-- `strings.TrimPrefix(s, pre)` -/
def trimPrefix (s pre : Bytes) : Bytes :=
  if pre.isPrefixOf s then s.drop pre.length else s

/-- `m[k]` -/
def mapLookup (k : Bytes) : UriMap → Option Uri
  | [] => none
  | (k', v) :: r => if k' = k then some v else mapLookup k r

/-- `m[k] = v` -/
def mapSet (k : Bytes) (v : Uri) : UriMap → UriMap
  | [] => [(k, v)]
  | (k', v') :: r => if k' = k then (k, v) :: r else (k', v') :: mapSet k v r

/-- `delete(m, k)` -/
def mapDelete (k : Bytes) : UriMap → UriMap
  | [] => []
  | (k', v') :: r => if k' = k then mapDelete k r else (k', v') :: mapDelete k r

/-- `c := make(map…); for k, v := range m { c[k] = v }` -/
def mapCopy (m : UriMap) : UriMap :=
  m.foldl (fun acc e => mapSet e.1 e.2 acc) []

/-- `serviceUris` -/
structure ServiceUris where
  zkPath : Bytes
  uris : UriMap
deriving DecidableEq, Repr

/-- `(*serviceUris).copy` -/
def ServiceUris.copy (s : ServiceUris) : ServiceUris :=
  { zkPath := s.zkPath, uris := mapCopy s.uris }

/-- what `getServiceUris` starts from: `&serviceUris{zkPath: …, uris: make(map[string]*Uri)}` -/
def ServiceUris.init (zkPath : Bytes) : ServiceUris := { zkPath := zkPath, uris := [] }

/-- `(*Client).handleUriUpdate`, on snapshot values. -/
def handleUriUpdate (w : ServiceUris) (e : Event) : ServiceUris :=
  let path := trimPrefix e.path w.zkPath
  if path = [] then w
  else match e.data with
    | none =>
      let w' := w.copy
      { w' with uris := mapDelete path w'.uris }
    | some .malformed => w
    | some (.uri u) =>
      if u.weights.length = 0 then w
      else
        let w' := w.copy
        { w' with uris := mapSet path u w'.uris }

/-- `waitForUriUpdates`: the state after the whole history -/
def runUpdates (w : ServiceUris) (h : List Event) : ServiceUris := h.foldl handleUriUpdate w

/-- every snapshot stored into `c.uris` along the way, oldest first (the initial one included) -/
def snapshots (w : ServiceUris) : List Event → List ServiceUris
  | [] => [w]
  | e :: h => w :: snapshots (handleUriUpdate w e) h

/-! ### Heap-level model: which object is written -/

/-- the heap of `serviceUris` objects (each with its own map); an address is an index -/
structure Heap where
  cells : List ServiceUris
deriving Repr

def Heap.size (H : Heap) : Nat := H.cells.length
def Heap.get? (H : Heap) (a : Nat) : Option ServiceUris := H.cells[a]?
/-- `&serviceUris{…}` -/
def Heap.alloc (H : Heap) (v : ServiceUris) : Heap × Nat := (⟨H.cells ++ [v]⟩, H.cells.length)
/-- in-place mutation of the object at `a` -/
def Heap.modify (H : Heap) (a : Nat) (f : ServiceUris → ServiceUris) : Heap :=
  ⟨H.cells.modify a f⟩

/-- `handleUriUpdate` with pointers: returns the new heap and the returned pointer; `none` is
the nil-dereference panic of `watcher.zkPath` (never happens for an allocated `watcher`). -/
def handleUriUpdateH (H : Heap) (a : Nat) (e : Event) : Option (Heap × Nat) :=
  match H.get? a with
  | none => none
  | some w =>
    let path := trimPrefix e.path w.zkPath
    if path = [] then some (H, a)
    else match e.data with
      | none =>
        let (H1, a1) := H.alloc w.copy                                   -- watcher = watcher.copy()
        some (H1.modify a1 (fun c => { c with uris := mapDelete path c.uris }), a1)  -- delete(watcher.uris, path)
      | some .malformed => some (H, a)
      | some (.uri u) =>
        if u.weights.length = 0 then some (H, a)
        else
          let (H1, a1) := H.alloc w.copy
          some (H1.modify a1 (fun c => { c with uris := mapSet path u c.uris }), a1)  -- watcher.uris[path] = uri

def runUpdatesH (H : Heap) (a : Nat) : List Event → Option (Heap × Nat)
  | [] => some (H, a)
  | e :: h => match handleUriUpdateH H a e with
    | none => none
    | some (H', a') => runUpdatesH H' a' h

/-! ### Host selection -/

/-- `iterateHostWeights` when both map levels are traversed in list order -/
def iterSeq (m : UriMap) : List Entry := m.flatMap (fun kv => kv.2.weights)

/-- first pass of `filterAndChooseHost`: `totalWeight += weight` over the filtered hosts -/
def totalWeight (f : Host → Bool) : List Entry → Nat
  | [] => 0
  | (h, w) :: r => if f h then w + totalWeight f r else totalWeight f r

/-- second pass of `filterAndChooseHost` (as repaired): hosts failing the filter are passed
over; so are hosts with `weight <= 0` when `totalWeight > 0` (`skipZero`); every other host becomes
`lastEligible`, then `randomWeight -= weight; if randomWeight <= 0 { chosenHost = &h; return false }`.
When the loop ends without a choice the result is `lastEligible` (`last`). `rw` is `randomWeight · q`. -/
def chooseLoop (f : Host → Bool) (q : Nat) (skipZero : Bool) : List Entry → Int → Option Host → Option Host
  | [], _, last => last
  | (h, w) :: r, rw, last =>
    if !f h then chooseLoop f q skipZero r rw last
    else if skipZero && w == 0 then chooseLoop f q skipZero r rw last
    else
      let rw' := rw - ((q * w : Nat) : Int)
      if rw' ≤ 0 then some h else chooseLoop f q skipZero r rw' (some h)

/-- the nondeterminism one call of `filterAndChooseHost` consumes: the iteration sequences of its
two passes and the draw `rng.Float64() = p / q` -/
structure Draw where
  it1 : List Entry
  it2 : List Entry
  p : Nat
  q : Nat
deriving Repr

/-- `filterAndChooseHost` -/
def filterAndChooseHost (f : Host → Bool) (d : Draw) : Option Host :=
  let total := totalWeight f d.it1
  chooseLoop f d.q (decide (0 < total)) d.it2 ((d.p * total : Nat) : Int) none

/-- the `for _, scheme := range prioritizedSchemes` loop; the `k`-th call uses `env k` -/
def chooseHostFrom (env : Nat → Draw) : List Bytes → Nat → Option Host
  | [], _ => none
  | s :: rest, k =>
    match filterAndChooseHost (fun h => h.scheme == s) (env k) with
    | some h => some h
    | none => chooseHostFrom env rest (k + 1)

/-- `chooseHost` (`len(prioritizedSchemes) == 0` covers nil and empty alike) -/
def chooseHost (prio : List Bytes) (env : Nat → Draw) : Option Host :=
  if prio.length = 0 then filterAndChooseHost (fun _ => true) (env 0)
  else chooseHostFrom env prio 0

/-- What the Go runtime guarantees about one call's nondeterminism, for a map whose
entries are `es`: each `range` visits every entry exactly once, in some order, and
`rng.Float64()` lies in `[0,1)`. -/
def Draw.Valid (es : List Entry) (d : Draw) : Prop :=
  d.it1.Perm es ∧ d.it2.Perm es ∧ d.p < d.q

/-- Instrumented twin of `chooseLoop`: the *position* in the iteration sequence of the entry
returned (`i` = number of entries already passed). Proved to agree with `chooseLoop`
(`c19_choice_position_agrees`); used only to state where in the sequence the choice falls. -/
def chooseLoopIdx (f : Host → Bool) (q : Nat) (skipZero : Bool) : List Entry → Int → Nat → Option Nat → Option Nat
  | [], _, _, last => last
  | (h, w) :: r, rw, i, last =>
    if !f h then chooseLoopIdx f q skipZero r rw (i + 1) last
    else if skipZero && w == 0 then chooseLoopIdx f q skipZero r rw (i + 1) last
    else
      let rw' := rw - ((q * w : Nat) : Int)
      if rw' ≤ 0 then some i else chooseLoopIdx f q skipZero r rw' (i + 1) (some i)

def filterAndChooseIdx (f : Host → Bool) (d : Draw) : Option Nat :=
  let total := totalWeight f d.it1
  chooseLoopIdx f d.q (decide (0 < total)) d.it2 ((d.p * total : Nat) : Int) 0 none

end Restli.D2
