import Restli.Model.Schema
import Restli.Model.PathSpec
import Restli.Lib.Strconv
/-! Model of the generated marshalers driving `restlicodec.Writer` (generic `WriteMap` /
`WriteArray` with field exclusion and — in v2 — key sorting). The result is a format-independent
document tree; `Model/Render*.lean` turn it into bytes per wire format. -/
namespace Restli.Codec

/-- what a writer is asked to emit -/
inductive Doc where
  | int (v : Int)
  /-- a float64 bit pattern (`WriteFloat32` widens first) -/
  | f64 (bits : Nat)
  | bool (b : Bool)
  | str (b : Bytes)
  | bytes (b : Bytes)
  | obj (kvs : List (Bytes × Doc))
  | arr (items : List Doc)
deriving Repr, Inhabited

inductive EncErr where
  | enum        -- IllegalEnumConstant
  | union       -- "must specify exactly/at most one union member"
  | illTyped    -- the value is not a value of the type (cannot be built in Go)
  | fuel
deriving DecidableEq, Repr

structure EncCfg where
  env : Env
  excl : PathSpec
  /-- v2 sorts map entries by key; the root module emits them in visiting order -/
  sortKeys : Bool

def EncCfg.finish (c : EncCfg) (kvs : List (Bytes × Doc)) : Doc :=
  .obj (if c.sortKeys then sortByKey kvs else kvs)

def Value.lookup (fs : List (Bytes × Value)) (k : Bytes) : Option Value := List.lookup k fs

def encPrim : Prim → Value → Except EncErr Doc
  | .i32, .i32 v => .ok (.int v)
  | .i64, .i64 v => .ok (.int v)
  | .f32, .f32 b => .ok (.f64 (Strconv.convert Strconv.f32 Strconv.f64 b))
  | .f64, .f64 b => .ok (.f64 b)
  | .bool, .bool b => .ok (.bool b)
  | .str, .str b => .ok (.str b)
  | .bytes, .bytes b => .ok (.bytes b)
  | _, _ => .error .illTyped

def countSet (ms : List (Bytes × Value)) (members : List (Bytes × Ty)) : Nat :=
  (members.filter (fun m => (Value.lookup ms m.1).isSome)).length

mutual
/-- `MarshalRestLi` of a value of type `ty` under writer scope `scope` -/
def encode (c : EncCfg) : Nat → List Bytes → Ty → Value → Except EncErr Doc
  | 0, _, _, _ => .error .fuel
  | fuel + 1, scope, ty, v =>
    match ty, v with
    | .prim p, v => encPrim p v
    | .arr t, .arr vs => do
      let items ← encodeItems c fuel (scope ++ [Gen.wildCard]) t vs
      pure (.arr items)
    | .map t, .map es => do
      let kvs ← encodeEntries c fuel scope t es
      pure (c.finish kvs)
    | .ref n, v =>
      match c.env.find n, v with
      | some (.typeref p), v => encPrim p v
      | some (.enum syms), .enum k =>
        if 1 ≤ k ∧ k ≤ syms.length then
          match syms[(k - 1).toNat]? with
          | some s => .ok (.str s)
          | none => .error .enum
        else .error .enum
      | some (.fixed size), .fixed b => if b.length = size then .ok (.bytes b) else .error .illTyped
      | some (.record _ _), .record fs => do
        let kvs ← encodeFields c fuel scope (allFields c.env (includeFuel c.env) n) fs
        pure (c.finish kvs)
      | some (.union hasNull members), .union ms =>
        -- `validateAllMembers`: the members are visited in declaration order; a second set
        -- member, or none for a non-nullable union, is an error
        if countSet ms members > 1 then .error .union
        else if countSet ms members = 0 && !hasNull then .error .union
        else do
          let kvs ← encodeMembers c fuel scope members ms
          pure (c.finish kvs)
      | _, _ => .error .illTyped
    | _, _ => .error .illTyped
/-- record fields in visiting order; an optional/defaulted field is written iff set -/
def encodeFields (c : EncCfg) : Nat → List Bytes → List Field → List (Bytes × Value) →
    Except EncErr (List (Bytes × Doc))
  | 0, _, _, _ => .error .fuel
  | _ + 1, _, [], _ => .ok []
  | fuel + 1, scope, f :: rest, fs =>
    match Value.lookup fs f.name with
    | none =>
      if f.optOrDefault then encodeFields c fuel scope rest fs
      else .error .illTyped       -- a required Go field always holds a value
    | some v => do
      -- the value is marshalled even when the key is excluded (into the no-op writer), so its
      -- errors still surface
      let d ← encode c fuel (scope ++ [f.name]) f.ty v
      let more ← encodeFields c fuel scope rest fs
      if c.excl.matchesB (scope ++ [f.name]) then pure more else pure ((f.name, d) :: more)
def encodeMembers (c : EncCfg) : Nat → List Bytes → List (Bytes × Ty) → List (Bytes × Value) →
    Except EncErr (List (Bytes × Doc))
  | 0, _, _, _ => .error .fuel
  | _ + 1, _, [], _ => .ok []
  | fuel + 1, scope, m :: rest, ms =>
    match Value.lookup ms m.1 with
    | none => encodeMembers c fuel scope rest ms
    | some v => do
      let d ← encode c fuel (scope ++ [m.1]) m.2 v
      let more ← encodeMembers c fuel scope rest ms
      if c.excl.matchesB (scope ++ [m.1]) then pure more else pure ((m.1, d) :: more)
def encodeItems (c : EncCfg) : Nat → List Bytes → Ty → List Value → Except EncErr (List Doc)
  | 0, _, _, _ => .error .fuel
  | _ + 1, _, _, [] => .ok []
  | fuel + 1, scope, t, v :: vs => do
    let d ← encode c fuel scope t v
    let ds ← encodeItems c fuel scope t vs
    pure (d :: ds)
def encodeEntries (c : EncCfg) : Nat → List Bytes → Ty → List (Bytes × Value) →
    Except EncErr (List (Bytes × Doc))
  | 0, _, _, _ => .error .fuel
  | _ + 1, _, _, [] => .ok []
  | fuel + 1, scope, t, (k, v) :: es => do
    let d ← encode c fuel (scope ++ [k]) t v
    let more ← encodeEntries c fuel scope t es
    if c.excl.matchesB (scope ++ [k]) then pure more else pure ((k, d) :: more)
end

end Restli.Codec
