import Restli.Model.Schema
import Restli.Model.PathSpec
import Restli.Lib.Strconv
/-! Model of the generated marshalers driving `restlicodec.Writer` (generic `WriteMap` /
`WriteArray` with field exclusion and — in v2 — key sorting). The result is a format-independent
document tree; `Model/Render*.lean` turn it into bytes per wire format. -/
namespace Restli.Codec

/-- what a writer is asked to emit -/
inductive Doc where
  | int (v : Int)
  /-- a float64 bit pattern (`WriteFloat32` widens first) -/
  | f64 (bits : Nat)
  | bool (b : Bool)
  | str (b : Bytes)
  | bytes (b : Bytes)
  | obj (kvs : List (Bytes × Doc))
  | arr (items : List Doc)
deriving Repr, Inhabited

inductive EncErr where
  | enum        -- IllegalEnumConstant
  | union       -- "must specify exactly/at most one union member"
  | illTyped    -- the value is not a value of the type (cannot be built in Go)
  | fuel
deriving DecidableEq, Repr

structure EncCfg where
  env : Env
  excl : PathSpec
  /-- v2 sorts map entries by key; the root module emits them in visiting order -/
  sortKeys : Bool

def EncCfg.finish (c : EncCfg) (kvs : List (Bytes × Doc)) : Doc :=
  .obj (if c.sortKeys then sortByKey kvs else kvs)

def Value.lookup (fs : List (Bytes × Value)) (k : Bytes) : Option Value := List.lookup k fs

def encPrim : Prim → Value → Except EncErr Doc
  | .i32, .i32 v => .ok (.int v)
  | .i64, .i64 v => .ok (.int v)
  | .f32, .f32 b => .ok (.f64 (Strconv.convert Strconv.f32 Strconv.f64 b))
  | .f64, .f64 b => .ok (.f64 b)
  | .bool, .bool b => .ok (.bool b)
  | .str, .str b => .ok (.str b)
  | .bytes, .bytes b => .ok (.bytes b)
  | _, _ => .error .illTyped

def countSet (ms : List (Bytes × Value)) (members : List (Bytes × Ty)) : Nat :=
  (members.filter (fun m => (Value.lookup ms m.1).isSome)).length

/-- visit a list of keyed values with an element encoder; an entry whose key is excluded is
handed to the encoder all the same (the caller passes `encodeNoop` for such keys) but not emitted -/
def encodeKeyed (excluded : Bytes → Bool) (enc : Bytes → Value → Except EncErr Doc) :
    List (Bytes × Value) → Except EncErr (List (Bytes × Doc))
  | [] => .ok []
  | (k, v) :: rest => do
    let d ← enc k v
    let more ← encodeKeyed excluded enc rest
    if excluded k then pure more else pure ((k, d) :: more)

def encodeList (enc : Value → Except EncErr Doc) : List Value → Except EncErr (List Doc)
  | [] => .ok []
  | v :: vs => do
    let d ← enc v
    let ds ← encodeList enc vs
    pure (d :: ds)

/-- the (name, type, value) triples of the set fields of a record, in visiting order; `none` when
a required field holds no value (impossible for a Go struct) -/
def setFields : List Field → List (Bytes × Value) → Option (List (Bytes × Ty × Value))
  | [], _ => some []
  | f :: rest, fs =>
    match Value.lookup fs f.name with
    | none => if f.optOrDefault then setFields rest fs else none
    | some v => (setFields rest fs).map ((f.name, f.ty, v) :: ·)

def setMembers (members : List (Bytes × Ty)) (ms : List (Bytes × Value)) : List (Bytes × Ty × Value) :=
  members.filterMap (fun m => (Value.lookup ms m.1).map (fun v => (m.1, m.2, v)))

def encodeTyped (excluded : Bytes → Bool) (enc : Bytes → Ty → Value → Except EncErr Doc) :
    List (Bytes × Ty × Value) → Except EncErr (List (Bytes × Doc))
  | [] => .ok []
  | (k, t, v) :: rest => do
    let d ← enc k t v
    let more ← encodeTyped excluded enc rest
    if excluded k then pure more else pure ((k, d) :: more)

/-- marshalling into the no-op writer (what `keyWriter` returns for an excluded key): its
`WriteMap` / `WriteArray` return without running their callbacks, so nothing nested is visited
and the only failure that still surfaces is the one a value raises before touching the writer —
an undeclared enum constant. The document returned is a placeholder that is never emitted. -/
def encodeNoop (env : Env) (ty : Ty) (v : Value) : Except EncErr Doc :=
  match ty, v with
  | .ref n, .enum k =>
    (match env.find n with
    | some (.enum syms) => if 1 ≤ k ∧ k ≤ syms.length then .ok (.obj []) else .error .enum
    | _ => .ok (.obj []))
  | _, _ => .ok (.obj [])

/-- `MarshalRestLi` of a value of type `ty` under writer scope `scope`; `fuel` bounds the nesting
depth only -/
def encode (c : EncCfg) : Nat → List Bytes → Ty → Value → Except EncErr Doc
  | 0, _, _, _ => .error .fuel
  | fuel + 1, scope, ty, v =>
    match ty, v with
    | .prim p, v => encPrim p v
    | .arr t, .arr vs => do
      let items ← encodeList (encode c fuel (scope ++ [Gen.wildCard]) t) vs
      pure (.arr items)
    | .map t, .map es => do
      let kvs ← encodeKeyed (fun k => c.excl.matchesB (scope ++ [k]))
        (fun k v => if c.excl.matchesB (scope ++ [k]) then encodeNoop c.env t v
          else encode c fuel (scope ++ [k]) t v) es
      pure (c.finish kvs)
    | .ref n, v =>
      match c.env.find n, v with
      | some (.typeref p), v => encPrim p v
      | some (.enum syms), .enum k =>
        if 1 ≤ k ∧ k ≤ syms.length then
          match syms[(k - 1).toNat]? with
          | some s => .ok (.str s)
          | none => .error .enum
        else .error .enum
      | some (.fixed size), .fixed b => if b.length = size then .ok (.bytes b) else .error .illTyped
      | some (.record _ _), .record fs =>
        match setFields (allFields c.env (includeFuel c.env) n) fs with
        | none => .error .illTyped       -- a required Go field always holds a value
        | some triples => do
          let kvs ← encodeTyped (fun k => c.excl.matchesB (scope ++ [k]))
            (fun k t v => if c.excl.matchesB (scope ++ [k]) then encodeNoop c.env t v
              else encode c fuel (scope ++ [k]) t v) triples
          pure (c.finish kvs)
      | some (.union hasNull members), .union ms =>
        -- `validateAllMembers`: the members are visited in declaration order; a second set
        -- member, or none for a non-nullable union, is an error
        if countSet ms members > 1 then .error .union
        else if countSet ms members = 0 && !hasNull then .error .union
        else do
          let kvs ← encodeTyped (fun k => c.excl.matchesB (scope ++ [k]))
            (fun k t v => if c.excl.matchesB (scope ++ [k]) then encodeNoop c.env t v
              else encode c fuel (scope ++ [k]) t v) (setMembers members ms)
          pure (c.finish kvs)
      | _, _ => .error .illTyped
    | _, _ => .error .illTyped

end Restli.Codec
