import Restli.Model.Routing
import Restli.Model.HttpUrl
import Restli.Model.Tunnel
import Restli.Model.Patch
import Restli.Model.RenderJson
import Restli.Model.RenderRor2
import Restli.Model.Ror2Reader
import Restli.Model.TreeReader
import Restli.Lib.Sort
/-! # Model.EndToEnd — one call through the generated client, net/http and the generated server

```
Call ──client encode──▶ abstract request (verb, X-RestLi-Method, resource path, query, body)
     ──formatQueryUrl (Model/HttpUrl)──▶ URL ──newRequest + tunnelling (Model/Tunnel)──▶ wire request
     ══net/http (trusted)══▶
     ──DecodeTunnelledQuery (Model/Tunnel)──▶ ──ServeHTTP/receive (Model/Routing)──▶ routed facts
     ──generated UnmarshalResourcePath / DecodeQueryParams / body readers (Model/Ror2Reader,
       TreeReader, Patch)──▶ Invocation seen by the resource
Reply ──Register* adapters + ServeHTTP──▶ wire response ══net/http══▶ ──client decode──▶ Returned
```

Transliterated here (everything else is the existing models, called as they are):
* generated `ResourcePath()` / `UnmarshalResourcePath` (codegen/resources/resource.go),
  generated `EncodeQueryParams` / `DecodeQueryParams` (codegen/types/record_*.go),
  `restlicodec.BuildQueryParams`, `ParseQueryParams`, `batchkeyset.encode`,
* the client functions of restli/{simple,collection,collection_batch_methods,finders,actions}.go and
  `Client.do`, `DoAndUnmarshal`, `IsErrorResponse`, `unmarshalReturnEntityKey`,
* the closures of `registerMethod*`, `registerFinder`, `registerAction` and the `Register*`
  adapters of restli/server.go (status, id headers), the response half of `ServeHTTP`,
* the envelopes of restlidata/…/common/structs.go (`Elements`, `ElementsWithMetadata`,
  `BatchResponse`, `CreatedEntity`, `CreatedAndReturnedEntity`, `BatchEntityUpdateResponse`,
  `MarshalBatchEntities` / `UnmarshalBatchEntities`).

net/http is trusted to carry verb, escaped path, raw query, headers and body unchanged in the
request direction; in the response direction its treatment of header field values is modelled
(`headerOnWire`: CR/LF become spaces, the value is trimmed, a value with a control byte makes the
response unreadable) because the created id travels in a header. -/
namespace Restli.E2E
open Restli Restli.Codec
open Restli.Routing (Method)

def sB (s : String) : Bytes := s.toUTF8.toList

/-- bytes ↔ the routing model's strings: one `Char` per byte (everything routing looks at is ASCII) -/
def strOf (b : Bytes) : String := String.ofList (b.map (fun c => Char.ofNat c.toNat))
def bytesOf (s : String) : Bytes := s.toList.map (fun c => UInt8.ofNat c.toNat)

/-! ## constants of one module generation -/

structure Consts where
  R : Routing.Consts
  T : Tunnel.Consts
  pathSafe : List UInt8
  querySafe : List UInt8
  headerEscapes : List (UInt8 × Bytes)
  sortKeys : Bool
  idHeader : Bytes
  fElements : Bytes
  fValue : Bytes
  fStatus : Bytes
  fId : Bytes
  fLocation : Bytes
  fPaging : Bytes
  fMetadata : Bytes
  fEntity : Bytes
  fEntities : Bytes
  fResults : Bytes
  fStatuses : Bytes
  fErrors : Bytes
  strictBatch : Bool

def constsV2 : Consts where
  R := Routing.constsV2
  T := Tunnel.constsV2
  pathSafe := Gen.pathSafe
  querySafe := Gen.querySafe
  headerEscapes := Gen.headerEscapes
  sortKeys := true
  idHeader := sB Gen.hdrRestliId
  fElements := sB Gen.C02.elementsField
  fValue := sB Gen.C02.valueField
  fStatus := sB Gen.C02.statusField
  fId := sB Gen.C02.idField
  fLocation := sB Gen.C02.locationField
  fPaging := sB Gen.C02.pagingField
  fMetadata := sB Gen.C02.metadataField
  fEntity := sB Gen.C02.entityField
  fEntities := sB Gen.C02.entitiesField
  fResults := sB Gen.batchResultsField
  fStatuses := sB Gen.batchStatusesField
  fErrors := sB Gen.batchErrorsField
  strictBatch := Gen.batchUnknownFieldIsError

def Consts.pathEsc (K : Consts) : Bytes → Bytes := Escape.escapeWith K.pathSafe
def Consts.queryEsc (K : Consts) : Bytes → Bytes := Escape.escapeWith K.querySafe
def Consts.headerEsc (K : Consts) : Bytes → Bytes := Escape.replaceWith K.headerEscapes
def Consts.pFinder (K : Consts) : Bytes := sB K.R.paramFinder
def Consts.pAction (K : Consts) : Bytes := sB K.R.paramAction
def Consts.pIds (K : Consts) : Bytes := sB K.R.paramIds

/-! ## what is called -/

/-- one `resourcePathSegment`: a collection (`key` = the path key's type) or a simple resource -/
structure SegSpec where
  name : Bytes
  key : Option Ty
deriving Repr

structure MethodSpec where
  kind : Method
  /-- finder / action name (empty for the REST methods) -/
  name : Bytes
  onEntity : Bool
  /-- the record standing for the generated params struct (query parameters incl. the paging
  context, or action parameters); `none`: the method has none -/
  params : Option TName
  ret : Option Ty
  metadata : Option Ty
  returnEntity : Bool
deriving Repr

structure ResSpec where
  segs : List SegSpec
  /-- the entity record; `none` for an action set -/
  schema : Option TName
  method : MethodSpec
deriving Repr

inductive Body where
  | none
  | entity (v : Value)
  | patch (p : PU)
  | entities (vs : List Value)
  | ids (ks : List Value)
  | keyed (es : List (Value × Value))
  | keyedPatch (es : List (Value × PU))
deriving Repr

/-- what the caller passes to the generated client method -/
structure Call where
  keys : List Value
  params : Option Value
  body : Body
deriving Repr

structure Created where
  id : Value
  status : Nat
  location : Option Bytes
  entity : Option Value
deriving Repr

structure BatchEntry where
  key : Value
  result : Option Value
  /-- `BatchEntityUpdateResponse.Status` -/
  update : Option Nat
  status : Option Nat
  err : Option Value
deriving Repr

/-- what the resource implementation returns -/
inductive Reply where
  | err (status : Nat) (msg : Bytes)
  | unit
  | entity (v : Value)
  | created (c : Created)
  | createdMany (cs : List Created)
  | elements (vs : List Value) (paging : Option Value) (metadata : Option Value)
  | action (v : Value)
  | batch (es : List BatchEntry)
deriving Repr

structure Cfg where
  threshold : Nat
  /-- the context path, escaped, without trailing slash (`[]`: none): the resolver URL is
  `http://c02.test` + it, the server is `NewPrefixedServer` of it -/
  pfx : Bytes
  /-- the multipart boundary Go would draw -/
  boundary : Bytes
deriving Repr

def tCollMeta : TName := "CollectionMetadata"
def tErrResp : TName := "ErrorResponse"

/-! ## shape of a resource -/

/-- the types of the keys a method at the given level carries, outermost first -/
def keyTys (onEntity : Bool) : List SegSpec → List Ty
  | [] => []
  | [s] => if onEntity then s.key.toList else []
  | s :: rest => s.key.toList ++ keyTys onEntity rest

def lastKeyTy (segs : List SegSpec) : Option Ty := (segs.getLast?).bind (·.key)

def rpathOf (segs : List SegSpec) : List Routing.Seg := segs.map (fun s => (strOf s.name, s.key.isSome))

def isBatchKeyed : Method → Bool
  | .batch_get | .batch_delete | .batch_update | .batch_partial_update => true
  | _ => false

def verbBytes : Method → Bytes
  | .get | .batch_get | .get_all | .finder => sB "GET"
  | .update | .batch_update => sB "PUT"
  | .delete | .batch_delete => sB "DELETE"
  | _ => sB "POST"

/-- `Method.String()` -/
def methodName (C : Routing.Consts) (m : Method) : String := C.methodNames.getD (Method.all.idxOf m) ""

/-! ## client: encoders -/

def encFuel : Nat := 100000

def wcfg (K : Consts) (env : Env) : EncCfg := { env := env, excl := .empty, sortKeys := K.sortKeys }

def toOpt {ε α : Type} : Except ε α → Option α
  | .ok a => some a
  | .error _ => none

/-- `MarshalRestLi` into a ROR2 writer of some flavour, finalised -/
def ror2Text (K : Consts) (env : Env) (esc : Bytes → Bytes) (ty : Ty) (v : Value) : Option Bytes :=
  (toOpt (encode (wcfg K env) encFuel [] ty v)).map (renderRor2 esc)

/-- a key written directly to the path writer (`ResourcePath()`, `CreatedEntity.marshalId`) -/
def pathKeyText (K : Consts) (env : Env) (ty : Ty) (v : Value) : Option Bytes :=
  (toOpt (encode (wcfg K env) encFuel [] ty v)).map (renderRor2Path K.pathEsc)

/-- the path keys on path-flavour writers, outermost first (`none`: a key does not marshal, or the
caller passed fewer keys than the method's level has) -/
def keyTexts (K : Consts) (env : Env) : List Ty → List Value → Option (List Bytes)
  | [], _ => some []
  | ty :: tys, k :: ks =>
    (match pathKeyText K env ty k, keyTexts K env tys ks with
    | some t, some ts => some (t :: ts)
    | _, _ => Option.none)
  | _ :: _, [] => Option.none

/-- the segments of the resource path: each resource name, followed by its key's text when the
segment is keyed at this level -/
def pathSegsB (onEntity : Bool) : List SegSpec → List Bytes → List Bytes
  | [], _ => []
  | [s], ts =>
    (match s.key, onEntity, ts with
    | some _, true, t :: _ => [s.name, t]
    | _, _, _ => [s.name])
  | s :: (s' :: rest), ts =>
    (match s.key, ts with
    | some _, t :: ts' => s.name :: t :: pathSegsB onEntity (s' :: rest) ts'
    | some _, [] => [s.name]
    | Option.none, ts => s.name :: pathSegsB onEntity (s' :: rest) ts)

/-- `RawPathSegment("/name")` / `RawPathSegment("/name/")` + key: every segment preceded by `/` -/
def joinPath (segs : List Bytes) : Bytes := segs.flatMap (fun s => 47 :: s)

/-- generated `ResourcePath()` -/
def pathFrom (K : Consts) (env : Env) (onEntity : Bool) (segs : List SegSpec) (keys : List Value) : Option Bytes :=
  (keyTexts K env (keyTys onEntity segs) keys).map (fun ts => joinPath (pathSegsB onEntity segs ts))

def joinWith (sep : UInt8) : List Bytes → Bytes
  | [] => []
  | [x] => x
  | x :: rest => x ++ sep :: joinWith sep rest

/-- `BuildQueryParams`: entries sorted by parameter name, `name=value` joined by `&` -/
def joinQuery (pairs : List (Bytes × Bytes)) : Bytes :=
  joinWith 38 ((sortByKey pairs).map (fun e => e.1 ++ 61 :: e.2))

/-- generated `MarshalFields` of a params struct on per-parameter query writers -/
def paramPairs (K : Consts) (env : Env) (n : TName) (v : Value) : Option (List (Bytes × Bytes)) :=
  match v with
  | .record fs =>
    (match setFields (allFields env (includeFuel env) n) fs with
    | Option.none => Option.none
    | some triples =>
      (toOpt (encodeTyped (fun _ => false) (fun k t v => encode (wcfg K env) encFuel [k] t v) triples)).map
        (fun kvs => kvs.map (fun e => (e.1, renderRor2 K.queryEsc e.2))))
  | _ => Option.none

def mapM' {α β : Type} (f : α → Option β) : List α → Option (List β)
  | [] => some []
  | a :: as =>
    match f a, mapM' f as with
    | some b, some bs => some (b :: bs)
    | _, _ => Option.none

def bytesLe (a b : Bytes) : Bool := !bytesLt b a

/-- `batchkeyset.encode`: every key on its own query-flavour writer, `sort.Strings`, written raw
into the `ids` array -/
def idsText (K : Consts) (env : Env) (ty : Ty) (ks : List Value) : Option Bytes :=
  (mapM' (ror2Text K env K.queryEsc ty) ks).map
    (fun ts => Gen.listPrefix ++ joinWith 44 (isort bytesLe ts) ++ [41])

def batchKeys : Body → List Value
  | .ids ks => ks
  | .keyed es => es.map (·.1)
  | .keyedPatch es => es.map (·.1)
  | _ => []

/-- the parameters the generated client method hands to the runtime, as name/text pairs before
`BuildQueryParams` sorts and joins them; outer `none`: the client refuses (marshalling error, nil
params); inner `none`: the nil encoder (no `?`). (`QueryParamsString("action=" + name)` and
`QueryParamsString("q=" + name)` are the one-pair cases written without escaping.) -/
def queryPairs (K : Consts) (env : Env) (r : ResSpec) (c : Call) : Option (Option (List (Bytes × Bytes))) :=
  let m := r.method
  let user : Option (List (Bytes × Bytes)) :=
    match m.params, c.params with
    | some n, some v => paramPairs K env n v
    | some _, Option.none => Option.none          -- `NilQueryParams`
    | Option.none, _ => some []
  match m.kind with
  | .action => some (some [(K.pAction, m.name)])
  | .finder =>
    (match m.params with
    | Option.none => some (some [(K.pFinder, m.name)])
    | some _ => user.map (fun ps => some ((K.pFinder, ror2Str K.queryEsc m.name) :: ps)))
  | k =>
    if isBatchKeyed k then
      (match lastKeyTy r.segs with
      | Option.none => Option.none
      | some kt =>
        match idsText K env kt (batchKeys c.body), user with
        | some ids, some ps => some (some ((K.pIds, ids) :: ps))
        | _, _ => Option.none)
    else
      (match m.params with
      | Option.none => some Option.none
      | some _ => user.map some)

/-- the `QueryParamsEncoder`'s output -/
def queryOf (K : Consts) (env : Env) (r : ResSpec) (c : Call) : Option (Option Bytes) :=
  (queryPairs K env r c).map (fun o => o.map joinQuery)

def pencToOpt {α : Type} : Except PEncErr α → Option α
  | .ok a => some a
  | .error _ => Option.none

/-- one entry of `MarshalBatchEntities`: the key on a header-flavour writer -/
def keyedDocs {β : Type} (K : Consts) (env : Env) (kt : Ty) (enc : β → Option Doc) :
    List (Value × β) → Option (List (Bytes × Doc))
  | [] => some []
  | (k, v) :: rest =>
    match ror2Text K env K.headerEsc kt k, enc v, keyedDocs K env kt enc rest with
    | some kt', some d, some more => some ((kt', d) :: more)
    | _, _, _ => Option.none

/-- the request body document; outer `none`: marshalling error; inner `none`: no body -/
def bodyDoc (K : Consts) (env : Env) (r : ResSpec) (c : Call) : Option (Option Doc) :=
  let cfg := wcfg K env
  let entDoc (v : Value) : Option Doc := r.schema.bind (fun n => toOpt (encode cfg encFuel [] (.ref n) v))
  let puDoc (p : PU) : Option Doc := r.schema.bind (fun n => pencToOpt (marshalPU cfg encFuel n p))
  match r.method.kind, c.body with
  | .create, .entity v => (entDoc v).map some
  | .update, .entity v => (entDoc v).map some
  | .partial_update, .patch p => (puDoc p).map some
  | .batch_create, .entities vs =>
    (mapM' entDoc vs).map (fun ds => some (cfg.finish [(K.fElements, .arr ds)]))
  | .batch_update, .keyed es =>
    (lastKeyTy r.segs).bind (fun kt =>
      (keyedDocs K env kt entDoc es).map (fun kvs => some (cfg.finish [(K.fEntities, cfg.finish kvs)])))
  | .batch_partial_update, .keyedPatch es =>
    (lastKeyTy r.segs).bind (fun kt =>
      (keyedDocs K env kt puDoc es).map (fun kvs => some (cfg.finish [(K.fEntities, cfg.finish kvs)])))
  | .action, .none =>
    (match r.method.params, c.params with
    | some n, some v => (toOpt (encode cfg encFuel [] (.ref n) v)).map some
    | Option.none, _ => some (some (cfg.finish []))            -- `EmptyRecord{}`
    | some _, Option.none => Option.none)
  | .get, .none => some Option.none
  | .delete, .none => some Option.none
  | .get_all, .none => some Option.none
  | .finder, .none => some Option.none
  | .batch_get, .ids _ => some Option.none
  | .batch_delete, .ids _ => some Option.none
  | _, _ => Option.none                                           -- not a call of this method

/-- the request before URL formatting -/
structure AbsReq where
  verb : Bytes
  restliMethod : Bytes
  root : Bytes
  rp : Bytes
  query : Option Bytes
  body : Option Bytes
deriving Repr

def clientEncode (K : Consts) (env : Env) (r : ResSpec) (c : Call) : Option AbsReq :=
  match pathFrom K env r.method.onEntity r.segs c.keys, queryOf K env r c, bodyDoc K env r c with
  | some rp, some q, some b =>
    some { verb := verbBytes r.method.kind, restliMethod := sB (methodName K.R r.method.kind),
           root := (r.segs.head?.map (·.name)).getD [], rp := rp, query := q, body := b.map renderJson }
  | _, _, _ => Option.none

/-! ## the wire request -/

inductive Out (α : Type) where
  | ok (a : α)
  /-- the client returns an error without sending anything -/
  | clientRefuses
  | unmodelled (why : String)
  | panic
deriving Repr

def ofUrlRes {α : Type} : Url.Res α → Out α
  | .ok a => .ok a
  | .err => .clientRefuses
  | .unmodelled r => .unmodelled r
  | .panic => .panic

def baseUrlText (cfg : Cfg) : Bytes := sB "http://c02.test" ++ cfg.pfx

/-- `formatQueryUrl` + `newRequest`: what is put on the wire -/
def wireRequest (K : Consts) (cfg : Cfg) (a : AbsReq) : Out Tunnel.Req :=
  match ofUrlRes (Url.parse (baseUrlText cfg)) with
  | .ok host =>
    (match ofUrlRes (HttpUrl.requestUrl host a.root a.rp a.query) with
    | .ok u =>
      ofUrlRes (Tunnel.sentRequest K.T cfg.boundary cfg.threshold (Url.escapedPath u) u.forceQuery u.rawQuery
        a.verb a.restliMethod a.body)
    | .clientRefuses => .clientRefuses | .unmodelled w => .unmodelled w | .panic => .panic)
  | .clientRefuses => .clientRefuses | .unmodelled w => .unmodelled w | .panic => .panic

/-! ## server: routing -/

def verbOfBytes (b : Bytes) : Routing.Verb :=
  if b == sB "GET" then .GET else if b == sB "POST" then .POST else if b == sB "PUT" then .PUT
  else if b == sB "DELETE" then .DELETE else .other

def cutAt (sep : UInt8) : Bytes → Bytes × Bytes
  | [] => ([], [])
  | c :: cs => if c == sep then ([], cs) else let r := cutAt sep cs; (c :: r.1, r.2)

def splitOn (sep : UInt8) : Bytes → List Bytes
  | [] => [[]]
  | c :: cs =>
    match splitOn sep cs with
    | [] => [[]]
    | seg :: rest => if c == sep then [] :: seg :: rest else (c :: seg) :: rest

/-- `ParseQueryParams` (the cutting; validation of the values is routing's `V`): pieces between
`&`, empty ones skipped, each cut at its first `=` -/
def parseQuery (q : Bytes) : List (Bytes × Bytes) :=
  ((splitOn 38 q).filter (fun p => !p.isEmpty)).map (cutAt 61)

/-- the Go map a query becomes: the last occurrence of a name wins -/
def lastOf (name : Bytes) (ps : List (Bytes × Bytes)) : Option Bytes := (ps.reverse.lookup name)

def dedupNames : List (Bytes × Bytes) → List Bytes
  | [] => []
  | (k, _) :: rest => if (dedupNames rest).contains k then dedupNames rest else k :: dedupNames rest

/-- the request as `receive` looks at it, after de-tunnelling -/
def routingReq (K : Consts) (cfg : Cfg) (r : Tunnel.Req) : Option Routing.Req :=
  let pfx := Routing.normalisePrefix (strOf cfg.pfx)
  match Routing.stripPrefix pfx.toList (strOf r.path).toList with
  | Option.none => Option.none
  | some p =>
    some { verb := verbOfBytes r.method,
           headers := [(K.R.methodHeader, strOf (r.header.get K.T.hdrRestliMethod))],
           path := (Routing.splitSlash p).map String.ofList,
           query := (parseQuery r.rawQuery).map (fun e => (strOf e.1, strOf e.2)),
           decodes := Method.all, implOk := true }

/-! ## server: the registered closure's decoding -/

def pathRCfg (env : Env) : RCfg := { env := env, tracker := { excl := .empty, ignore := 0 }, plus := false }
def queryRCfg (env : Env) : RCfg :=
  { env := env, tracker := { excl := .empty, ignore := 0 }, plus := true, query := true }
def jsonTCfg (env : Env) (ignore : Nat) : TCfg := { env := env, tracker := { excl := .empty, ignore := ignore } }

/-- outcome of a decoding step on the server -/
inductive Dec (α : Type) where
  | ok (a : α)
  /-- `newErrorResponsef(…, 400, …)` -/
  | bad
  | unmodelled (why : String)
  | panic
deriving Repr

def Dec.bind {α β : Type} (d : Dec α) (f : α → Dec β) : Dec β :=
  match d with
  | .ok a => f a
  | .bad => .bad
  | .unmodelled w => .unmodelled w
  | .panic => .panic

def ofRes (r : Codec.Res Value) : Dec Value :=
  match r with
  | .ok v s => if s.missing.isEmpty then .ok v else .bad
  | .err _ => .bad
  | .panic => .panic
  | .fuel => .unmodelled "fuel"
  | .unmodelled => .unmodelled "float-syntax"

def ofTRes (r : Option (TRes Value)) : Dec Value :=
  match r with
  | Option.none => .unmodelled "json-nonstrict"
  | some (.ok v _) => .ok v
  | some (.err _) => .bad
  | some .panic => .panic
  | some .unmodelled => .unmodelled "float-syntax"

/-- generated `UnmarshalResourcePath`: the number of entity keys must be the number the method's
level needs; each is read by its own path-flavour reader -/
def decodeKeys (env : Env) : List Ty → List Bytes → Dec (List Value)
  | [], [] => .ok []
  | ty :: tys, seg :: segs =>
    (ofRes (unmarshalRor2 (pathRCfg env) ty seg)).bind (fun v =>
      (decodeKeys env tys segs).bind (fun vs => .ok (v :: vs)))
  | _, _ => .bad

/-- one query parameter read by its `ror2QueryReader` -/
def readParam (env : Env) (name : Bytes) (ty : Ty) (raw : Bytes) : Dec Value :=
  ofRes (readTy (queryRCfg env) (3 * raw.length + 8) [.key name] ty { rest := raw, start := true })

/-- generated `DecodeQueryParams` of a params struct (with the `ids` of the batch methods): every
parameter of the query whose name is a field is read, the others are skipped; a required field that
is absent is an error -/
def decodeParamFields (env : Env) (fields : List Field) (q : List (Bytes × Bytes)) :
    List Bytes → Dec (List (Bytes × Value))
  | [] => .ok []
  | name :: rest =>
    match findField fields name, lastOf name q with
    | some f, some raw =>
      (readParam env name f.ty raw).bind (fun v =>
        (decodeParamFields env fields q rest).bind (fun more => .ok ((name, v) :: more)))
    | _, _ => decodeParamFields env fields q rest

def decodeParams (env : Env) (n : TName) (q : List (Bytes × Bytes)) : Dec Value :=
  let fields := allFields env (includeFuel env) n
  (decodeParamFields env fields q (dedupNames q)).bind (fun fs =>
    if (remainingRequired fields (fs.map (·.1))).isEmpty then
      (match env.find n with
      | some (.record _ own) => .ok (.record (populateDefaults own fs))
      | _ => .bad)
    else .bad)

/-- the `ids` parameter: `ReadArray(reader, UnmarshalRestLi[K])` -/
def decodeIds (K : Consts) (env : Env) (kt : Ty) (q : List (Bytes × Bytes)) : Dec (List Value) :=
  match lastOf K.pIds q with
  | Option.none => .bad                                  -- `ids` is a required field
  | some raw =>
    (readParam env K.pIds (.arr kt) raw).bind (fun v => match v with
      | .arr ks => .ok ks
      | _ => .bad)

def bodyBytes : Tunnel.Body → Bytes
  | .bytes b => b
  | _ => []

/-- `UnmarshalBatchEntities`: every member name is read as a key by a path-flavour reader -/
def decodeKeyed {β : Type} (env : Env) (kt : Ty) (dec : Json.JVal → Dec β) :
    List (Bytes × Json.JVal) → Dec (List (Value × β))
  | [] => .ok []
  | (k, jv) :: rest =>
    match jv with
    | .null => decodeKeyed env kt dec rest               -- null members are skipped by `ReadMap`
    | jv =>
      (ofRes (unmarshalRor2 (pathRCfg env) kt k)).bind (fun kv =>
        (dec jv).bind (fun v => (decodeKeyed env kt dec rest).bind (fun more => .ok ((kv, v) :: more))))

def ofTRes' (r : TRes Value) : Dec Value :=
  match r with
  | .ok v m => if m.isEmpty then .ok v else .bad
  | .err _ => .bad
  | .panic => .panic
  | .unmodelled => .unmodelled "float-syntax"

def ofPRes (r : PRes PU) : Dec PU :=
  match r with
  | .ok v m => if m.isEmpty then .ok v else .bad
  | .err _ => .bad
  | .panic => .panic
  | .fuel => .unmodelled "fuel"
  | .unmodelled => .unmodelled "float-syntax"

/-- the one member `name` of an envelope object (any other member is `NoSuchFieldErr`) -/
def soleMember (name : Bytes) (t : Json.JVal) : Dec Json.JVal :=
  match t with
  | .obj [(k, v)] => if k == name then .ok v else .bad
  | _ => .bad

def decodeArr {β : Type} (dec : Json.JVal → Dec β) : List Json.JVal → Dec (List β)
  | [] => .ok []
  | x :: xs => (dec x).bind (fun v => (decodeArr dec xs).bind (fun vs => .ok (v :: vs)))

/-- what the resource implementation is called with -/
structure Invocation where
  keys : List Value
  params : Option Value
  body : Body
deriving Repr

def parseJson (data : Bytes) : Dec Json.JVal :=
  if data.isEmpty || data == nullLit then .bad
  else match Json.parse data with
    | Option.none => .unmodelled "json-nonstrict"
    | some t => .ok t

/-- the query-parameter half of the closure: the params struct (`none` for `EmptyRecord`; an action's
parameters travel in the body) and, for the batch methods, the `ids` -/
def decodeQuery (K : Consts) (env : Env) (r : ResSpec) (q : List (Bytes × Bytes)) : Dec (Option Value × List Value) :=
  let m := r.method
  let params : Dec (Option Value) :=
    match m.kind, m.params with
    | .action, _ => .ok Option.none
    | _, some n => (decodeParams env n q).bind (fun v => .ok (some v))
    | _, Option.none => .ok Option.none
  let ids : Dec (List Value) :=
    if isBatchKeyed m.kind then
      (match lastKeyTy r.segs with
      | some kt => decodeIds K env kt q
      | Option.none => .bad)
    else .ok []
  params.bind (fun ps => ids.bind (fun idKeys => .ok (ps, idKeys)))

/-- the body half of the closure, given the decoded parameters and ids: the parameters the
implementation receives (an action's come from the body) and the body argument -/
def decodeBody (K : Consts) (env : Env) (r : ResSpec) (ps : Option Value) (idKeys : List Value) (body : Bytes) :
    Dec (Option Value × Body) :=
  let m := r.method
  let inv (b : Body) (p : Option Value := ps) : Dec (Option Value × Body) := .ok (p, b)
  match m.kind with
  | .get | .delete | .get_all | .finder => if body.isEmpty then inv .none else .bad
  | .batch_get | .batch_delete => if body.isEmpty then inv (.ids idKeys) else .bad
  | .create | .update =>
    (match r.schema with
    | some n => (ofTRes (unmarshalJson (jsonTCfg env 0) (.ref n) body)).bind (fun v => inv (.entity v))
    | Option.none => .bad)
  | .partial_update =>
    (match r.schema with
    | some n =>
      (match unmarshalPUJson (jsonTCfg env 1) n body with
      | Option.none => .unmodelled "json-nonstrict"
      | some pr => (ofPRes pr).bind (fun p => inv (.patch p)))
    | Option.none => .bad)
  | .batch_create =>
    (parseJson body).bind (fun t => (soleMember K.fElements t).bind (fun el => match el with
      | .arr xs =>
        (decodeArr (fun x => match r.schema with
          | some n => ofTRes' (treeRead (jsonTCfg env 2) false [.key K.fElements, .idx 0] (.ref n) x)
          | Option.none => .bad) xs).bind (fun vs => inv (.entities vs))
      | _ => .bad))
  | .batch_update =>
    (match lastKeyTy r.segs, r.schema with
    | some kt, some n =>
      (parseJson body).bind (fun t => (soleMember K.fEntities t).bind (fun es => match es with
        | .obj kvs =>
          (decodeKeyed env kt (fun x => ofTRes' (treeRead (jsonTCfg env 2) false [.key K.fEntities, .key []] (.ref n) x)) kvs).bind
            (fun pairs => inv (.keyed pairs))
        | _ => .bad))
    | _, _ => .bad)
  | .batch_partial_update =>
    (match lastKeyTy r.segs, r.schema with
    | some kt, some n =>
      (parseJson body).bind (fun t => (soleMember K.fEntities t).bind (fun es => match es with
        | .obj kvs =>
          (decodeKeyed env kt (fun x => ofPRes (unmarshalPU (jsonTCfg env 3) (body.length + 8) n x)) kvs).bind
            (fun pairs => inv (.keyedPatch pairs))
        | _ => .bad))
    | _, _ => .bad)
  | .action =>
    (match m.params with
    | Option.none => inv .none Option.none                    -- `IsEmptyRecord(params)`: the body is not read
    | some n => (ofTRes (unmarshalJson (jsonTCfg env 0) (.ref n) body)).bind (fun v => inv .none (some v)))
  | .unknown => .bad

/-- the closure registered for the method: path, query parameters, body — in that order -/
def decodeInvocation (K : Consts) (env : Env) (r : ResSpec) (f : Routing.Facts) (req : Tunnel.Req) : Dec Invocation :=
  (decodeKeys env (keyTys r.method.onEntity r.segs) (f.keys.map bytesOf)).bind (fun keys =>
    (decodeQuery K env r (parseQuery req.rawQuery)).bind (fun qp =>
      (decodeBody K env r qp.1 qp.2 (bodyBytes req.body)).bind (fun pb => .ok ⟨keys, pb.1, pb.2⟩)))

/-! ## server: which method, and what it sees -/

inductive Seen where
  /-- the resource method of the call was invoked with these arguments -/
  | invoked (i : Invocation)
  /-- another registered method was invoked -/
  | other (f : Routing.Facts)
  /-- nothing was invoked; the response has this status (`true`: a Rest.li error response) -/
  | rejected (status : Nat) (restliError : Bool)
  | unmodelled (why : String)
  | panic
deriving Repr

def factsMatch (r : ResSpec) (f : Routing.Facts) : Bool :=
  f.method == r.method.kind && f.rpath == rpathOf r.segs &&
  (match r.method.kind with
   | .finder => f.finder == some (strOf r.method.name)
   | .action => f.action == some (strOf r.method.name)
   | _ => true)

/-- the registered closure: decode path, parameters and body, then call the implementation -/
def afterRouting (K : Consts) (env : Env) (r : ResSpec) (f : Routing.Facts) (req : Tunnel.Req) : Seen :=
  match decodeInvocation K env r f req with
  | .ok i => .invoked i
  | .bad => .rejected (K.R.stDecode f.method) true
  | .unmodelled w => .unmodelled w
  | .panic => .panic

/-- `DecodeTunnelledQuery`, `ServeHTTP`, `receive`, the registered closure -/
def serverSees (K : Consts) (env : Env) (roots : List Routing.Node) (cfg : Cfg) (r : ResSpec) (sent : Tunnel.Req) : Seen :=
  match Tunnel.decodeTunnelledQuery K.T sent with
  | .err => .rejected Gen.detunnelErrorStatus false
  | .unmodelled w => .unmodelled w
  | .panic => .panic
  | .ok req =>
    match routingReq K cfg req with
    | Option.none => .rejected (K.R.stRootNotFound) false
    | some rq =>
      match Routing.routeX K.R Routing.validateRor2Input roots rq with
      | .rootNotFound => .rejected K.R.stRootNotFound false
      | .errResp st => .rejected st true
      | .routed f ownKey hasEntity =>
        if !factsMatch r f then .other f
        else if f.method == .action && ownKey != hasEntity then .rejected (K.R.stDecode f.method) true
        else afterRouting K env r f req

/-- the request direction as one function: what the resource side sees of a call -/
def callSeen (K : Consts) (env : Env) (roots : List Routing.Node) (cfg : Cfg) (r : ResSpec) (c : Call) : Seen :=
  match clientEncode K env r c with
  | Option.none => .unmodelled "client-refuses"
  | some a =>
    match wireRequest K cfg a with
    | .ok sent => serverSees K env roots cfg r sent
    | .clientRefuses => .unmodelled "client-refuses"
    | .unmodelled w => .unmodelled w
    | .panic => .panic

/-! ## server: the response -/

structure WireResp where
  status : Nat
  /-- `X-RestLi-Id` as set by the handler -/
  idHeader : Option Bytes
  restliError : Bool
  body : Option Bytes
deriving Repr

def natDoc (n : Nat) : Doc := .int (Int.ofNat n)

/-- `CreatedEntity.MarshalRestLi` / `CreatedAndReturnedEntity.MarshalRestLi` (a batch_create element):
the id on a PATH-flavour writer, written as a string -/
def createdDoc (K : Consts) (env : Env) (kt : Ty) (schema : Option TName) (c : Created) : Option Doc :=
  let cfg := wcfg K env
  match pathKeyText K env kt c.id with
  | Option.none => Option.none
  | some idt =>
    let base : List (Bytes × Doc) := [(K.fId, .str idt)] ++
      (match c.location with | some l => [(K.fLocation, Doc.str l)] | Option.none => []) ++
      [(K.fStatus, natDoc (if c.status == 0 then 201 else c.status))]
    match c.entity, schema with
    | some e, some n =>
      (toOpt (encode cfg encFuel [K.fEntity] (.ref n) e)).map (fun d => cfg.finish ((K.fEntity, d) :: base))
    | _, _ => some (cfg.finish base)

/-- `MarshalBatchEntities` for one of the three maps of a `BatchResponse` -/
def batchMapDoc {β : Type} (K : Consts) (env : Env) (kt : Ty) (pick : BatchEntry → Option β) (enc : β → Option Doc)
    (es : List BatchEntry) : Option Doc :=
  (keyedDocs K env kt enc (es.filterMap (fun e => (pick e).map (fun b => (e.key, b))))).map (wcfg K env).finish

/-- the element type of a collection response: a finder's declared return type, else the entity -/
def elemTy (r : ResSpec) : Option Ty :=
  match r.method.ret with
  | some t => some t
  | Option.none => r.schema.map Ty.ref

/-- `WriteArray(keyWriter("elements"), f.Elements, V.MarshalRestLi)` -/
def encElems (K : Consts) (env : Env) (ty : Ty) (vs : List Value) : Option (List Doc) :=
  mapM' (fun v => toOpt (encode (wcfg K env) encFuel [K.fElements, Gen.wildCard] ty v)) vs

/-- the optional `paging` member -/
def encPaging (K : Consts) (env : Env) (paging : Option Value) : Option (List (Bytes × Doc)) :=
  match paging with
  | Option.none => some []
  | some p => (toOpt (encode (wcfg K env) encFuel [K.fPaging] (.ref tCollMeta) p)).map (fun d => [(K.fPaging, d)])

/-- the `metadata` member of a finder that declares one -/
def encMetadata (K : Consts) (env : Env) (m : MethodSpec) (metadata : Option Value) : Option (List (Bytes × Doc)) :=
  match m.metadata, metadata with
  | some mt, some mv => (toOpt (encode (wcfg K env) encFuel [K.fMetadata] mt mv)).map (fun d => [(K.fMetadata, d)])
  | Option.none, _ => some []
  | some _, Option.none => Option.none

/-- what the `Register*` adapter and `ServeHTTP` make of the resource's reply -/
def serverRespond (K : Consts) (env : Env) (r : ResSpec) (reply : Reply) : Option WireResp :=
  let cfg := wcfg K env
  let m := r.method
  let js (d : Doc) : Option Bytes := some (renderJson d)
  match reply with
  | .err st msg =>
    -- an `*ErrorResponse` passes through every adapter unchanged
    (toOpt (encode cfg encFuel [] (.ref tErrResp)
      (.record [(sB "status", .i32 (Int.ofNat st)), (sB "message", .str msg)]))).map
      (fun d => ⟨st, Option.none, true, js d⟩)
  | .unit => some ⟨K.R.stSuccess m.kind, Option.none, false, Option.none⟩
  | .entity v =>
    r.schema.bind (fun n => (toOpt (encode cfg encFuel [] (.ref n) v)).map (fun d =>
      ⟨if m.kind == .partial_update then 200 else K.R.srvInitialStatus, Option.none, false, js d⟩))
  | .created c =>
    (lastKeyTy r.segs).bind (fun kt =>
      (ror2Text K env K.headerEsc kt c.id).bind (fun idt =>
        let status := if c.status == 0 then 201 else c.status
        match m.returnEntity, c.entity, r.schema with
        | true, some e, some n =>
          (toOpt (encode cfg encFuel [] (.ref n) e)).map (fun d => ⟨status, some idt, false, js d⟩)
        | true, _, _ => Option.none
        | false, _, _ => some ⟨status, some idt, false, Option.none⟩))
  | .createdMany cs =>
    (lastKeyTy r.segs).bind (fun kt =>
      (mapM' (createdDoc K env kt (if m.returnEntity then r.schema else Option.none)) cs).map (fun ds =>
        ⟨K.R.srvInitialStatus, Option.none, false, js (cfg.finish [(K.fElements, .arr ds)])⟩))
  | .elements vs paging metadata =>
    (match elemTy r with
    | Option.none => Option.none
    | some ty =>
      match encElems K env ty vs, encMetadata K env m metadata, encPaging K env paging with
      | some ds, some md, some pg =>
        some ⟨K.R.srvInitialStatus, Option.none, false, js (cfg.finish ((K.fElements, .arr ds) :: md ++ pg))⟩
      | _, _, _ => Option.none)
  | .action v =>
    m.ret.bind (fun ty => (toOpt (encode cfg encFuel [K.fValue] ty v)).map (fun d =>
      ⟨K.R.srvInitialStatus, Option.none, false, js (cfg.finish [(K.fValue, d)])⟩))
  | .batch es =>
    (lastKeyTy r.segs).bind (fun kt =>
      let results : Option Doc :=
        if m.kind == .batch_get then
          batchMapDoc K env kt (·.result) (fun v => r.schema.bind (fun n => toOpt (encode cfg encFuel [] (.ref n) v))) es
        else
          batchMapDoc K env kt (·.update) (fun s => some (cfg.finish [(K.fStatus, natDoc (if s == 0 then 204 else s))])) es
      let statuses := batchMapDoc K env kt (·.status) (fun s => some (natDoc s)) es
      let errors := batchMapDoc K env kt (·.err) (fun v => toOpt (encode cfg encFuel [] (.ref tErrResp) v)) es
      match results, statuses, errors with
      | some rs, some ss, some er =>
        some ⟨K.R.srvInitialStatus, Option.none, false,
          js (cfg.finish [(K.fErrors, er), (K.fResults, rs), (K.fStatuses, ss)])⟩
      | _, _, _ => Option.none)

/-! ## net/http: a header field value on its way to the client -/

/-- `Header.Write`: CR and LF become spaces, then the value is trimmed of spaces and tabs; the
reader rejects the whole response if a value contains a control byte -/
def headerOnWire (v : Bytes) : Option Bytes :=
  let v1 := v.map (fun c => if c == 10 || c == 13 then 32 else c)
  let trim (s : Bytes) : Bytes := s.dropWhile (fun c => c == 32 || c == 9)
  let v2 := (trim (trim v1).reverse).reverse
  if v2.all Mime.validValueByte then some v2 else Option.none

/-! ## client: what the call returns -/

inductive Returned where
  | err (status : Nat) (msg : Option Bytes)
  /-- `*url.Error`: the response could not be read -/
  | transportError
  | noIdHeader
  /-- the response did not decode -/
  | decodeError
  | unexpectedStatus (status : Nat)
  | unit
  | entity (v : Value)
  | created (id : Value) (status : Nat) (entity : Option Value)
  | createdMany (cs : List Created)
  | elements (vs : List Value) (paging : Option Value) (metadata : Option Value)
  | action (v : Value)
  | batch (es : List BatchEntry)
  | unmodelled (why : String)
deriving Repr

def decRet {α : Type} (d : Dec α) (f : α → Returned) : Returned :=
  match d with
  | .ok a => f a
  | .bad => .decodeError
  | .unmodelled w => .unmodelled w
  | .panic => .decodeError

def memberOf (name : Bytes) (kvs : List (Bytes × Json.JVal)) : Option Json.JVal :=
  match kvs.lookup name with
  | some .null => Option.none
  | x => x

def knownOnly (names : List Bytes) (kvs : List (Bytes × Json.JVal)) : Bool :=
  kvs.all (fun e => names.contains e.1 || (match e.2 with | .null => true | _ => false))

def natOfJson (t : Json.JVal) : Dec Nat :=
  match t with
  | .num txt => (match Strconv.parseInt 64 txt with
    | some v => if v ≥ 0 then .ok v.toNat else .bad
    | Option.none => .bad)
  | _ => .bad

/-- `CreatedEntity.UnmarshalRestLi` / `CreatedAndReturnedEntity.UnmarshalRestLi` -/
def decodeCreated (K : Consts) (env : Env) (kt : Ty) (schema : Option TName) (t : Json.JVal) : Dec Created :=
  match t with
  | .obj kvs =>
    if !knownOnly ([K.fId, K.fLocation, K.fStatus] ++ (if schema.isSome then [K.fEntity] else [])) kvs then .bad else
    (match memberOf K.fStatus kvs with
    | Option.none => .bad
    | some st => (natOfJson st).bind (fun status =>
      let idD : Dec Value := match memberOf K.fId kvs with
        | some (.str raw) => ofRes (unmarshalRor2 (pathRCfg env) kt raw)
        | some _ => .bad
        | Option.none => .bad
      idD.bind (fun id =>
        let loc : Dec (Option Bytes) := match memberOf K.fLocation kvs with
          | some (.str l) => .ok (some l)
          | some _ => .bad
          | Option.none => .ok Option.none
        loc.bind (fun l =>
          match schema with
          | Option.none => .ok ⟨id, status, l, Option.none⟩
          | some n =>
            (match memberOf K.fEntity kvs with
            | Option.none => .bad
            | some e => (ofTRes' (treeRead (jsonTCfg env 0) false [.key K.fEntity] (.ref n) e)).bind
                (fun ev => .ok ⟨id, status, l, some ev⟩))))))
  | _ => .bad

/-- one of the three maps of `BatchResponse.UnmarshalWithKeyLocator`: every member name is read as
a key (path flavour) and located among the caller's keys by the key type's equality `keq`; the
caller's own key is what the entry is filed under; a key named twice is an error -/
def decodeBatchMap {β : Type} (env : Env) (kt : Ty) (keq : Value → Value → Bool) (callKeys : List Value)
    (dec : Json.JVal → Dec β) : List Value → List (Bytes × Json.JVal) → Dec (List (Value × β))
  | _, [] => .ok []
  | seen, (k, jv) :: rest =>
    match jv with
    | .null => decodeBatchMap env kt keq callKeys dec seen rest
    | jv =>
      (ofRes (unmarshalRor2 (pathRCfg env) kt k)).bind (fun kv =>
        match callKeys.find? (fun ck => keq ck kv) with
        | Option.none => .bad                                   -- "Unknown key returned by batch method"
        | some orig =>
          if seen.any (fun s => keq s orig) then .bad           -- "returned twice"
          else (dec jv).bind (fun v =>
            (decodeBatchMap env kt keq callKeys dec (orig :: seen) rest).bind (fun more => .ok ((orig, v) :: more))))

def mergeBatch (callKeys : List Value) (keq : Value → Value → Bool)
    (rs : List (Value × Value)) (us : List (Value × Nat)) (ss : List (Value × Nat)) (es : List (Value × Value)) :
    List BatchEntry :=
  callKeys.filterMap (fun k =>
    let pick {β : Type} (l : List (Value × β)) : Option β := (l.find? (fun e => keq e.1 k)).map (·.2)
    let e : BatchEntry := ⟨k, pick rs, pick us, pick ss, pick es⟩
    if e.result.isSome || e.update.isSome || e.status.isSome || e.err.isSome then some e else Option.none)

/-- the generated client method's view of the response; `keq` is the key type's equality as the
batch key set uses it (`Equals`, for a complex key `ComplexKeyEquals`: the key part only) -/
def clientReturns (K : Consts) (env : Env) (keq : Value → Value → Bool) (r : ResSpec) (c : Call) (resp : WireResp) : Returned :=
  let m := r.method
  -- net/http first: the id header (and the Location header, which carries the same text)
  match (match resp.idHeader with
         | Option.none => some Option.none
         | some h => (headerOnWire h).map some) with
  | Option.none => .transportError
  | some idh =>
  let body := resp.body.getD []
  if resp.restliError then
    -- `IsErrorResponse`
    (match (parseJson body) with
    | .ok (.obj kvs) =>
      let st := match memberOf (sB "status") kvs with
        | some t => (match natOfJson t with | .ok n => n | _ => resp.status)
        | Option.none => resp.status
      let msg := match memberOf (sB "message") kvs with
        | some (.str s) => some s
        | _ => Option.none
      .err st msg
    | _ => .err resp.status Option.none)
  else if resp.status / 100 != 2 then .unexpectedStatus resp.status
  else
  let ent (t : Json.JVal) : Dec Value := match r.schema with
    | some n => ofTRes' (treeRead (jsonTCfg env 0) true [] (.ref n) t)
    | Option.none => .bad
  let entBody : Dec Value := (parseJson body).bind ent
  let idOf : Dec Value := match idh, lastKeyTy r.segs with
    | some h, some kt => if h.isEmpty then .bad else ofRes (unmarshalRor2 (pathRCfg env) kt h)
    | _, _ => .bad
  match m.kind with
  | .update | .delete => .unit
  | .partial_update => if m.returnEntity then decRet entBody .entity else .unit
  | .get => decRet entBody .entity
  | .create =>
    (match idh with
    | Option.none => .noIdHeader
    | some h =>
      if h.isEmpty then .noIdHeader
      else if m.returnEntity then decRet entBody (fun e => decRet idOf (fun id => .created id resp.status (some e)))
      else decRet idOf (fun id => .created id resp.status Option.none))
  | .batch_create =>
    (match lastKeyTy r.segs with
    | Option.none => .decodeError
    | some kt =>
      decRet ((parseJson body).bind (fun t => match t with
        | .obj kvs =>
          if !knownOnly [K.fElements, K.fPaging] kvs then .bad else
          (match memberOf K.fElements kvs with
          | some (.arr xs) => decodeArr (decodeCreated K env kt (if m.returnEntity then r.schema else Option.none)) xs
          | _ => .bad)
        | _ => .bad)) .createdMany)
  | .get_all | .finder =>
    decRet ((parseJson body).bind (fun t => match t, elemTy r with
      | .obj kvs, some ty =>
        if !knownOnly ([K.fElements, K.fPaging] ++ (if m.metadata.isSome then [K.fMetadata] else [])) kvs then .bad else
        (match memberOf K.fElements kvs with
        | some (.arr xs) =>
          (decodeArr (fun x => ofTRes' (treeRead (jsonTCfg env 0) false [.key K.fElements, .idx 0] ty x)) xs).bind (fun vs =>
            let pg : Dec (Option Value) := match memberOf K.fPaging kvs with
              | Option.none => .ok Option.none
              | some p => (ofTRes' (treeRead (jsonTCfg env 0) false [.key K.fPaging] (.ref tCollMeta) p)).bind (fun v => .ok (some v))
            pg.bind (fun pv =>
              let md : Dec (Option Value) := match m.metadata, memberOf K.fMetadata kvs with
                | some mt, some x => (ofTRes' (treeRead (jsonTCfg env 0) false [.key K.fMetadata] mt x)).bind (fun v => .ok (some v))
                | some _, Option.none => .ok Option.none
                | Option.none, _ => .ok Option.none
              md.bind (fun mv => .ok (vs, pv, mv))))
        | _ => .bad)
      | _, _ => .bad)) (fun x => .elements x.1 x.2.1 x.2.2)
  | .action =>
    (match m.ret with
    | Option.none => .unit
    | some ty =>
      decRet ((parseJson body).bind (fun t => (soleMember K.fValue t).bind (fun x =>
        ofTRes' (treeRead (jsonTCfg env 0) false [.key K.fValue] ty x)))) .action)
  | .batch_get | .batch_update | .batch_partial_update | .batch_delete =>
    (match lastKeyTy r.segs with
    | Option.none => .decodeError
    | some kt =>
      let callKeys := batchKeys c.body
      let bm {β : Type} (name : Bytes) (kvs : List (Bytes × Json.JVal)) (dec : Json.JVal → Dec β) : Dec (List (Value × β)) :=
        match memberOf name kvs with
        | Option.none => .ok []
        | some (.obj es) => decodeBatchMap env kt keq callKeys dec [] es
        | some _ => .bad
      decRet ((parseJson body).bind (fun t => match t with
        | .obj kvs =>
          if K.strictBatch && !knownOnly [K.fResults, K.fStatuses, K.fErrors] kvs then .bad
          else if (memberOf K.fResults kvs).isNone then .bad
          else
            let rs : Dec (List (Value × Value)) :=
              if m.kind == .batch_get then bm K.fResults kvs ent else .ok []
            let us : Dec (List (Value × Nat)) :=
              if m.kind == .batch_get then .ok []
              else bm K.fResults kvs (fun x => (soleMember K.fStatus x).bind natOfJson)
            rs.bind (fun rs => us.bind (fun us =>
              (bm K.fStatuses kvs natOfJson).bind (fun ss =>
                (bm K.fErrors kvs (fun x => ofTRes' (treeRead (jsonTCfg env 0) true [] (.ref tErrResp) x))).bind (fun es =>
                  .ok (mergeBatch callKeys keq rs us ss es)))))
        | _ => .bad)) .batch)
  | .unknown => .decodeError

/-- the response direction as one function: what the client call returns when the resource replies `reply` -/
def callReturns (K : Consts) (env : Env) (keq : Value → Value → Bool) (r : ResSpec) (c : Call) (reply : Reply) : Returned :=
  match serverRespond K env r reply with
  | Option.none => .unmodelled "server-cannot-marshal"
  | some resp => clientReturns K env keq r c resp

end Restli.E2E
