import Restli.Model.Encode
import Restli.Model.RenderRor2
/-! Two envelopes built on top of the writers: the body of a batch update
(`batchEntities.MarshalRestLi` + `common.MarshalBatchEntities`) and the query string of a record of
parameters (`restlicodec.BuildQueryParams` driven by a generated `MarshalFields`). -/
namespace Restli.Codec

def entitiesKey : Bytes := [101, 110, 116, 105, 116, 105, 101, 115]      -- "entities"

/-- `{"entities": {<key>: <entity>}}`. Every entity is marshalled on `keyWriter(key).SetScope()`:
its exclusion paths start at the entity, whatever the key; the envelope keys themselves are looked
up in the exclusion spec under the scopes `entities` and `entities/<key>`. `entries` are the map's
entries in iteration order with the keys already rendered (ROR2 header text). -/
def marshalBatchEntities (c : EncCfg) (fuel : Nat) (ty : Ty) (entries : List (Bytes × Value)) : Except EncErr Doc :=
  if c.excl.matchesB [entitiesKey] then .ok (c.finish [])
  else
    match encodeKeyed (fun k => c.excl.matchesB [entitiesKey, k])
        (fun k v => if c.excl.matchesB [entitiesKey, k] then encodeNoop c.env ty v else encode c fuel [] ty v)
        entries with
    | .error e => .error e
    | .ok kvs => .ok (c.finish [(entitiesKey, c.finish kvs)])

def joinAmp : List Bytes → Bytes
  | [] => []
  | [x] => x
  | x :: rest => x ++ 38 :: joinAmp rest

/-- `BuildQueryParams(rec.MarshalFields)`: every set field is written by its own query-flavour ROR2
writer (no exclusion spec), the parameters are sorted by name and joined `name=value&…`; names are
written as they are. -/
def buildQueryParams (env : Env) (esc : Bytes → Bytes) (fuel : Nat) (n : TName) (v : Value) : Except EncErr Bytes :=
  match v with
  | .record fs =>
    (match setFields (allFields env (includeFuel env) n) fs with
    | none => .error .illTyped
    | some triples =>
      let c : EncCfg := { env := env, excl := .empty, sortKeys := true }
      match encodeTyped (fun _ => false) (fun k t v => encode c fuel [k] t v) triples with
      | .error e => .error e
      | .ok kvs => .ok (joinAmp ((sortByKey kvs).map (fun e => e.1 ++ 61 :: renderRor2 esc e.2))))
  | _ => .error .illTyped

end Restli.Codec
