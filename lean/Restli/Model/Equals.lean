import Restli.Model.Fnv
/-! # Model of `restli/equals/{generic,comparable,bytes,object}.go` (v2 and root: identical files)

Every helper is the instantiation of four generic functions with an element equality
`equals : T → T → bool`:

* `ComparableX` : `equals = (==)` of a Go `comparable` type (ints, floats, bool, string, enums);
* `ObjectX`     : `equals = left.Equals(right)`;
* `BytesX`      : `equals = bytes.Equal`.

So the model is generic in `eq : α → α → Bool`, and the three families are instances
(`Prim.eq`, a caller-supplied `eq`, `bytesEq`).

Modelling decisions
* **Slices and maps: nil versus empty.** `GoSlice`/`GoMap` keep the distinction (`nil`/`mk []`), the
  helpers only ever use `len` and `range`, which do not see it; the helpers are defined on the
  element list `elems`, so "nil equals empty" is a theorem about the model, not an assumption.
* **Maps** are association lists with distinct keys (`KeysNodup`); list order = iteration order.
  `GenericMap` ranges over `left` and returns at the first mismatch: its verdict is the conjunction,
  which is what `genericMap` computes (the iteration order cannot change a conjunction).
* **Pointers** carry an address: `GenericPointer` first compares the *pointers* (`left != right`)
  and answers `true` without calling `equals` when they are identical — so a pointer to NaN equals
  itself but not a copy of itself. `Ptr.addr` models that; `optEq` is the address-free reading,
  and `genericPointer_eq_optEq` says when the two coincide (reflexive `eq` on the pointee).
* **Floats** are bit patterns; `floatEq32/64` implement IEEE `==` (`NaN ≠ NaN`, `+0 == −0`).
* `right[i]` in `GenericArray` is an index expression: `genericArrayP` makes the bounds test
  explicit (`none` = index-out-of-range panic), `genericArrayP_eq` shows it never fires. -/
namespace Restli.Equals
open Restli

/-! ## IEEE `==` on bit patterns -/

def isNaN32 (b : UInt32) : Bool := (b &&& 0x7F800000) == 0x7F800000 && (b &&& 0x007FFFFF) != 0
def isNaN64 (b : UInt64) : Bool :=
  (b &&& 0x7FF0000000000000) == 0x7FF0000000000000 && (b &&& 0x000FFFFFFFFFFFFF) != 0
def isZero32 (b : UInt32) : Bool := (b &&& 0x7FFFFFFF) == 0
def isZero64 (b : UInt64) : Bool := (b &&& 0x7FFFFFFFFFFFFFFF) == 0

/-- Go `float32 == float32` on bit patterns -/
def floatEq32 (a b : UInt32) : Bool :=
  if isNaN32 a || isNaN32 b then false
  else if isZero32 a && isZero32 b then true
  else a == b

/-- Go `float64 == float64` on bit patterns -/
def floatEq64 (a b : UInt64) : Bool :=
  if isNaN64 a || isNaN64 b then false
  else if isZero64 a && isZero64 b then true
  else a == b

/-! ## Go `comparable` primitives (the `T` of the `Comparable*` helpers and of `primitiveKeySet`) -/

/-- A value of one of Rest.li's comparable primitive types. Integers are kept as their two's
complement bit pattern (what `AddInt32/AddInt64` hash), floats as IEEE bit patterns. -/
inductive Prim where
  | i32 (v : UInt32)
  | i64 (v : UInt64)
  | f32 (bits : UInt32)
  | f64 (bits : UInt64)
  | bool (b : Bool)
  | str (s : Bytes)
deriving Repr, DecidableEq

namespace Prim
/-- Go `==` at one static type. Values of two different types never meet in Go (it does not
type-check); the model answers `false`. -/
def eq : Prim → Prim → Bool
  | .i32 a, .i32 b => a == b
  | .i64 a, .i64 b => a == b
  | .f32 a, .f32 b => floatEq32 a b
  | .f64 a, .f64 b => floatEq64 a b
  | .bool a, .bool b => a == b
  | .str a, .str b => a == b
  | _, _ => false

/-- what generated code does to hash a primitive into a running hash (`h.AddInt32(v)` …) -/
def hashInto (P : Fnv.Params) (h : Fnv.Hash) : Prim → Fnv.Hash
  | .i32 v => Fnv.addUint32 P h v
  | .i64 v => Fnv.addUint64 P h v
  | .f32 b => Fnv.addFloat32 P h b
  | .f64 b => Fnv.addFloat64 P h b
  | .bool b => Fnv.addBool P h b
  | .str s => Fnv.addString P h s

/-- not a NaN: the values on which `==` is reflexive -/
def nanFree : Prim → Bool
  | .f32 b => !isNaN32 b
  | .f64 b => !isNaN64 b
  | _ => true

end Prim

/-- `bytes.Equal` on the element lists (nil and empty are both `[]` here, see `GoSlice`) -/
def bytesEq (l r : Bytes) : Bool := l == r

/-! ## nil-able containers -/

/-- a Go slice value: `nil` or a (possibly empty) backing sequence -/
inductive GoSlice (α : Type) where
  | nil
  | mk (xs : List α)
deriving Repr

/-- what `len` and `range` see -/
def GoSlice.elems {α} : GoSlice α → List α
  | .nil => []
  | .mk xs => xs

/-- a Go `map[string]T` value: `nil` or a (possibly empty) table; list order = iteration order -/
inductive GoMap (α : Type) where
  | nil
  | mk (kvs : List (Bytes × α))
deriving Repr

def GoMap.elems {α} : GoMap α → List (Bytes × α)
  | .nil => []
  | .mk kvs => kvs

/-- keys are pairwise distinct (a Go map cannot hold a key twice) -/
def KeysNodup {α} (m : List (Bytes × α)) : Prop := (m.map Prod.fst).Nodup

/-- `right[k]` : `(rv, ok)` -/
def mapLookup {α} (k : Bytes) : List (Bytes × α) → Option α
  | [] => none
  | (k', v) :: rest => if k' == k then some v else mapLookup k rest

/-- a pointer: address + pointee -/
structure Ptr (α : Type) where
  addr : Nat
  val : α
deriving Repr

/-- two pointers taken from one heap: equal addresses point at the same value -/
def Ptr.Coherent {α} (p q : Ptr α) : Prop := p.addr = q.addr → p.val = q.val

/-! ## The four generic functions of `generic.go` -/

/-- `GenericPointer(left, right, equals)`: `none` is the nil pointer. -/
def genericPointer {α} (eq : α → α → Bool) : Option (Ptr α) → Option (Ptr α) → Bool
  | none, none => true                                   -- left == right (both nil)
  | some p, some q => if p.addr = q.addr then true       -- left == right: `equals` is not called
                      else eq p.val q.val
  | _, _ => false                                        -- exactly one is nil

/-- address-free reading of an optional field: both absent, or both present and equal -/
def optEq {α} (eq : α → α → Bool) : Option α → Option α → Bool
  | none, none => true
  | some a, some b => eq a b
  | _, _ => false

/-- the `for i, l := range left { if !equals(l, right[i]) … }` loop with the index test explicit:
`none` = `right[i]` out of range (panic). -/
def arrayLoopP {α} (eq : α → α → Bool) : List α → List α → Option Bool
  | [], _ => some true
  | _ :: _, [] => none
  | a :: l, b :: r => if !eq a b then some false else arrayLoopP eq l r

/-- `GenericArray` with panics explicit -/
def genericArrayP {α} (eq : α → α → Bool) (l r : List α) : Option Bool :=
  if l.length != r.length then some false else arrayLoopP eq l r

/-- the loop, total version -/
def arrayLoop {α} (eq : α → α → Bool) : List α → List α → Bool
  | [], _ => true
  | _ :: _, [] => false
  | a :: l, b :: r => if !eq a b then false else arrayLoop eq l r

/-- `GenericArray(left, right, equals)` -/
def genericArray {α} (eq : α → α → Bool) (l r : List α) : Bool :=
  if l.length != r.length then false else arrayLoop eq l r

/-- `GenericMap(left, right, equals)` -/
def genericMap {α} (eq : α → α → Bool) (l r : List (Bytes × α)) : Bool :=
  if l.length != r.length then false
  else l.all (fun kv => match mapLookup kv.1 r with
                        | none => false
                        | some rv => eq kv.2 rv)

/-- `GenericArrayPointer` -/
def genericArrayPointer {α} (eq : α → α → Bool) (l r : Option (Ptr (GoSlice α))) : Bool :=
  genericPointer (fun a b => genericArray eq a.elems b.elems) l r

/-- `GenericMapPointer` -/
def genericMapPointer {α} (eq : α → α → Bool) (l r : Option (Ptr (GoMap α))) : Bool :=
  genericPointer (fun a b => genericMap eq a.elems b.elems) l r

/-! ## The exported helpers as instances (names as in Go) -/

def comparablePointer := @genericPointer Prim Prim.eq
def comparableArray (l r : GoSlice Prim) : Bool := genericArray Prim.eq l.elems r.elems
def comparableMap (l r : GoMap Prim) : Bool := genericMap Prim.eq l.elems r.elems
def comparableArrayPointer := @genericArrayPointer Prim Prim.eq
def comparableMapPointer := @genericMapPointer Prim Prim.eq

/-- `equals.Bytes(left, right []byte)` -/
def bytes (l r : GoSlice UInt8) : Bool := bytesEq l.elems r.elems
def bytesPointer (l r : Option (Ptr (GoSlice UInt8))) : Bool := genericPointer bytes l r
def bytesArray (l r : GoSlice (GoSlice UInt8)) : Bool := genericArray bytes l.elems r.elems
def bytesMap (l r : GoMap (GoSlice UInt8)) : Bool := genericMap bytes l.elems r.elems

/-- `ObjectPointer/Array/Map`: `left.Equals(right)` is the parameter `eq` -/
def objectPointer {α} (eq : α → α → Bool) := @genericPointer α eq
def objectArray {α} (eq : α → α → Bool) (l r : GoSlice α) : Bool := genericArray eq l.elems r.elems
def objectMap {α} (eq : α → α → Bool) (l r : GoMap α) : Bool := genericMap eq l.elems r.elems

end Restli.Equals
