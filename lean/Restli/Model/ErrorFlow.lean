import Restli.Model.Routing
/-! Executable model of how the outcome of a resource implementation travels to the calling client
(property C08), on top of the routing model: a request that is routed, whose filters pass and whose
keys, parameters and body decode, reaches the implementation; what the implementation reports then
goes through

* the `Register*` wrapper of the method (v2/restli/server.go, finders.go, actions.go): default
  status written before the call, `createdEntity.Status`, id headers,
* the closure built by `registerMethod` / `registerFinder` / `registerAction`: ordinary errors are
  wrapped by `newErrorResponsef` with the call site's status, `*ErrorResponse` values pass through
  **as the same object**,
* the deferred `recover()` of `receive` (handler.go): a panic inside the closure becomes a 500
  `ErrorResponse` carrying the panic value as message; a nil result without an error (a typed nil
  that `ServeHTTP` could only marshal by dereferencing it) is turned into a 500 there too, and by
  the action closure for an action's nil results,
* the tail of `ServeHTTP` (handler.go): error header, status defaulted once (500), message
  defaulted in a **copy** of the error response, marshalling of the body,
* the client (`restli.Client.Do` → `IsErrorResponse`, errors.go): `*restli.Error` when the error
  header is set (status defaulted from the HTTP status), `*UnexpectedStatusCodeError` for a non-2xx
  without it, a transport error when the connection was dropped.

JSON marshalling of the `ErrorResponse` body and its parsing by the client are the codec's business
(C01/C03): the model carries the `ErrorResponse` value itself over the wire. `http.StatusText` is a
parameter. The root module's copies of these functions are identical (diffed), so one model serves
both, instantiated with the constants regenerated from either module. -/
namespace Restli.ErrorFlow
open Restli.Routing

/-- a `common.ErrorResponse` as far as the server looks at it: the two fields `ServeHTTP` reads and
writes, and everything else (service error code, code, doc url, request id, exception class, stack
trace, detail type, details) as one opaque value -/
structure ErrResp where
  status : Option Nat
  message : Option String
  rest : Nat
deriving DecidableEq, Repr, Inhabited

/-- what a resource implementation can do when it is called -/
inductive ImplOutcome where
  /-- a non-nil result (no result at all for the methods that return only an error) and a nil error -/
  | value
  /-- a nil result (typed nil pointer) and a nil error -/
  | typedNil
  /-- an `*ErrorResponse` -/
  | errResp (e : ErrResp)
  /-- any other error -/
  | otherErr (msg : String)
  | panic (msg : String)
  /-- a result, after setting `ctx.ResponseStatus` (for create: `CreatedEntity.Status`) to `n` -/
  | statusOverride (n : Nat)
deriving DecidableEq, Repr, Inhabited

/-- the `Register*` function a method was registered through -/
inductive Kind where
  | get | create | createWithReturnEntity | delete | update | partialUpdate | partialUpdateWithReturnEntity
  | batchGet | batchCreate | batchDelete | batchUpdate | batchPartialUpdate | getAll
  | finder | action | actionWithResults
deriving DecidableEq, Repr, Inhabited

def Kind.all : List Kind :=
  [.get, .create, .createWithReturnEntity, .delete, .update, .partialUpdate, .partialUpdateWithReturnEntity,
   .batchGet, .batchCreate, .batchDelete, .batchUpdate, .batchPartialUpdate, .getAll, .finder, .action,
   .actionWithResults]

/-- the Rest.li method of a kind -/
def Kind.method : Kind → Method
  | .get => .get | .create | .createWithReturnEntity => .create | .delete => .delete | .update => .update
  | .partialUpdate | .partialUpdateWithReturnEntity => .partial_update
  | .batchGet => .batch_get | .batchCreate => .batch_create | .batchDelete => .batch_delete
  | .batchUpdate => .batch_update | .batchPartialUpdate => .batch_partial_update | .getAll => .get_all
  | .finder => .finder | .action | .actionWithResults => .action

/-- the name of the `Register*` function, as listed in the regenerated tables -/
def Kind.registerFunc : Kind → String
  | .get => "RegisterGet" | .create => "RegisterCreate" | .createWithReturnEntity => "RegisterCreateWithReturnEntity"
  | .delete => "RegisterDelete" | .update => "RegisterUpdate" | .partialUpdate => "RegisterPartialUpdate"
  | .partialUpdateWithReturnEntity => "RegisterPartialUpdateWithReturnEntity"
  | .batchGet => "RegisterBatchGet" | .batchCreate => "RegisterBatchCreate" | .batchDelete => "RegisterBatchDelete"
  | .batchUpdate => "RegisterBatchUpdate" | .batchPartialUpdate => "RegisterBatchPartialUpdate"
  | .getAll => "RegisterGetAll" | .finder => "RegisterFinder" | .action => "RegisterAction"
  | .actionWithResults => "RegisterActionWithResults"

/-- what the implementation's result type is, which decides what "a nil result" can mean -/
inductive ResultShape where
  /-- only an error is returned (`delete`, `update`, `partialUpdate`, `action`) -/
  | errorOnly
  /-- a pointer the wrapper dereferences itself, inside the closure (`*CreatedEntity`) -/
  | derefInWrapper
  /-- a slice the wrapper wraps into an envelope (`[]*CreatedEntity`): nil is an empty list -/
  | sliceWrapped
  /-- a pointer handed on as the response body and marshalled by `ServeHTTP` -/
  | marshalledBody
deriving DecidableEq, Repr

def Kind.shape : Kind → ResultShape
  | .delete | .update | .partialUpdate | .action => .errorOnly
  | .create | .createWithReturnEntity => .derefInWrapper
  | .batchCreate => .sliceWrapped
  | _ => .marshalledBody

/-- `ctx.ResponseStatus` when the implementation is called: `ServeHTTP`'s initial value unless the
`Register*` wrapper assigns another one first -/
def presetStatus (C : Consts) (k : Kind) : Nat :=
  (C.respStatusSet.lookup k.registerFunc).getD C.srvInitialStatus

/-- the response body `ServeHTTP` is handed -/
inductive RespBody where
  | none
  | value
deriving DecidableEq, Repr

/-- an error as it leaves `receive`; `own` = it is the very object the implementation returned -/
structure ErrVal where
  e : ErrResp
  own : Bool
deriving DecidableEq, Repr

/-- what `receive` returns for a request that reached the implementation -/
inductive Received where
  | ok (body : RespBody) (status : Nat)
  | err (e : ErrVal)
deriving DecidableEq, Repr

/-- the status an ordinary error is wrapped with (`newErrorResponsef(err, status, …)`) -/
def wrapStatus (C : Consts) (k : Kind) : Nat := C.stImplFailed k.method

/-- the status of the error response a nil result without an error is turned into
(`receive`; for an action's results: the closure of `registerAction`) -/
def nilResultStatus (C : Consts) (k : Kind) : Nat :=
  if k = .actionWithResults then C.stNilActionResult else C.stNilResult

/-- identity of "the remaining fields" of error responses the library builds itself -/
def libRest : Nat := 0

/-- the closure + the wrapper + the deferred recover of `receive`. `wrapMsg`/`panicMsg` are the
messages the library composes (`"%q failed: %s"`, `fmt.Sprint(r)`); only that they contain the
implementation's text matters, so they are kept symbolic: the implementation's own text. -/
def receiveImpl (C : Consts) (k : Kind) : ImplOutcome → Received
  | .errResp e => .err ⟨e, true⟩                                   -- passes through, same object
  | .otherErr msg => .err ⟨⟨some (wrapStatus C k), some msg, libRest⟩, false⟩
  | .panic msg => .err ⟨⟨some C.recoverStatus, some msg, libRest⟩, false⟩
  | .value =>
    match k.shape with
    | .errorOnly => .ok .none (presetStatus C k)
    | .derefInWrapper =>                                            -- `RegisterCreate` answers without a body
      if k = .createWithReturnEntity then .ok .value (presetStatus C k) else .ok .none (presetStatus C k)
    | .sliceWrapped | .marshalledBody => .ok .value (presetStatus C k)
  | .typedNil =>
    match k.shape with
    | .errorOnly => .ok .none (presetStatus C k)                    -- there is no result to be nil
    | .derefInWrapper =>                                            -- `createdEntity.Id` on nil: panic inside the closure, recovered
      .err ⟨⟨some C.recoverStatus, some "nil pointer dereference", libRest⟩, false⟩
    | .sliceWrapped => .ok .value (presetStatus C k)               -- a nil slice is an empty list
    | .marshalledBody =>                                            -- `isNilPointer(responseBody)` / `isNilPointer(results)`
      .err ⟨⟨some (nilResultStatus C k), some "nil result", libRest⟩, false⟩
  | .statusOverride n =>
    match k.shape with
    | .errorOnly => .ok .none n
    | .derefInWrapper =>
      -- `if createdEntity.Status != 0 { ctx.ResponseStatus = createdEntity.Status }`
      let st := if n = 0 then presetStatus C k else n
      if k = .createWithReturnEntity then .ok .value st else .ok .none st
    | .sliceWrapped | .marshalledBody => .ok .value n

/-- the body on the wire -/
inductive WireBody where
  | empty
  | value
  | error (e : ErrResp)
deriving DecidableEq, Repr

/-- what the client's connection sees -/
inductive Wire where
  | response (status : Nat) (errorHeader : Bool) (body : WireBody)
  /-- a panic escaped `ServeHTTP`: net/http closes the connection without a response -/
  | connectionDropped
deriving DecidableEq, Repr

/-- the tail of `ServeHTTP` (no filters). Returns the wire outcome and, when the error was the
implementation's own object, what that object looks like afterwards. -/
def respondTail (C : Consts) (statusText : Nat → String) : Received → Wire × Option ErrResp
  | .ok .none st => (.response st false .empty, none)
  | .ok .value st => (.response st false .value, none)
  | .err ⟨e, own⟩ =>
    -- `ctx.ResponseStatus = *errRes.Status` or the 500 default, once
    let st := e.status.getD C.srvNilStatus
    -- `withMessage := *errRes; withMessage.Message = StringPointer(http.StatusText(ctx.ResponseStatus))`: a copy
    let body := match e.message with
      | some _ => e
      | none => { e with message := some (statusText st) }
    (.response st true (.error body), if own then some e else none)

/-- request routed, filters passed, everything decoded: implementation called with outcome `o` -/
def serveOutcome (C : Consts) (statusText : Nat → String) (k : Kind) (o : ImplOutcome) : Wire × Option ErrResp :=
  respondTail C statusText (receiveImpl C k o)

/-- what `restli.Client.Do` returns -/
inductive ClientResult where
  | ok (status : Nat)
  /-- `*restli.Error` -/
  | restliError (e : ErrResp)
  /-- `*UnexpectedStatusCodeError` -/
  | unexpectedStatus (status : Nat)
  /-- `*url.Error` from the transport (EOF) -/
  | transportError
deriving DecidableEq, Repr

/-- `IsErrorResponse` -/
def clientView : Wire → ClientResult
  | .connectionDropped => .transportError
  | .response st true (.error e) => .restliError { e with status := some (e.status.getD st) }
  | .response st true _ => .restliError ⟨some st, none, libRest⟩    -- header without a parsable body: not produced by this server
  | .response st false _ => if st / 100 = 2 then .ok st else .unexpectedStatus st

end Restli.ErrorFlow
