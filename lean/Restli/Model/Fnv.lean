import Restli.Lib.Basic
import Restli.Lib.Sort
import Restli.Gen.Tables
/-! # Model of `fnv1a/hasher.go` (v2 and root module: the two files are identical)

A `fnv1a.Hash` is a pointer to a `uint32`; every `Add*` method mutates it in place. The model is
the state-passing version: every `add* P h x` returns the new value of `*h`.

* floats are IEEE bit patterns (`math.Float32bits/Float64bits`), never Lean `Float`; `AddFloat32/64`
  first replace `−0` by `+0` (`if v == 0 { v = 0 }`), so that `==`-equal floats hash alike;
* `int32/int64` are converted exactly like Go's `uint32(v)` / `uint64(v)` (two's complement);
* strings are byte strings; `AddString` is `AddBytes([]byte(v))`;
* `AddMap` is modelled exactly as written: one hash per entry **seeded with 0** (`make([]hash, n)`,
  i.e. `ZeroHash`, not `NewHash`), key bytes first, then the caller's `hasher`; the per-entry hashes
  are sorted ascending (`sort.Slice` on `uint32` — the sorted sequence of a multiset of `uint32`
  is unique, so stability is irrelevant) and folded in with `add`;
* a Go map is an association list whose order stands for the runtime's iteration order;
* nil receivers: every constructor (`ZeroHash`, `NewHash`, `Hash*`) returns a non-nil pointer, a nil
  `*hash` cannot be obtained through the exported API; a nil `Hash` interface value passed to
  `AddMap`/`AddArray` panics in Go at the first `Add` — outside the model (no caller does it).

The constants come from the regenerated tables (`Restli.Gen.fnv*`, `Restli.GenRoot.fnv*`); every
definition is parametrised by `Params`, and no theorem depends on their values. -/
namespace Restli.Fnv

structure Params where
  init : UInt32
  prime : UInt32
  mask : UInt32
deriving Repr, DecidableEq

def paramsV2 : Params :=
  ⟨UInt32.ofNat Restli.Gen.fnvInit, UInt32.ofNat Restli.Gen.fnvPrime, UInt32.ofNat Restli.Gen.fnvMask⟩
def paramsRoot : Params :=
  ⟨UInt32.ofNat Restli.GenRoot.fnvInit, UInt32.ofNat Restli.GenRoot.fnvPrime, UInt32.ofNat Restli.GenRoot.fnvMask⟩

/-- the value behind a `fnv1a.Hash` -/
abbrev Hash := UInt32

/-- `ZeroHash()` = `new(hash)` -/
def zeroHash : Hash := 0
/-- `NewHash()` -/
def newHash (P : Params) : Hash := P.init

/-- `hV ^= x; hV *= multiplier` -/
@[inline] def step (P : Params) (h x : UInt32) : Hash := (h ^^^ x) * P.prime

/-- `(*hash).addUint32`: the four bytes, least significant first, each masked. -/
def addUint32 (P : Params) (h : Hash) (v : UInt32) : Hash :=
  let h := step P h (v &&& P.mask)
  let h := step P h ((v >>> 8) &&& P.mask)
  let h := step P h ((v >>> 16) &&& P.mask)
  step P h ((v >>> 24) &&& P.mask)

/-- `(*hash).addUint64`: `hash(v>>k) & mask` — the conversion `hash(uint64)` truncates to 32 bits. -/
def addUint64 (P : Params) (h : Hash) (v : UInt64) : Hash :=
  let h := step P h (v.toUInt32 &&& P.mask)
  let h := step P h ((v >>> 8).toUInt32 &&& P.mask)
  let h := step P h ((v >>> 16).toUInt32 &&& P.mask)
  let h := step P h ((v >>> 24).toUInt32 &&& P.mask)
  let h := step P h ((v >>> 32).toUInt32 &&& P.mask)
  let h := step P h ((v >>> 40).toUInt32 &&& P.mask)
  let h := step P h ((v >>> 48).toUInt32 &&& P.mask)
  step P h ((v >>> 56).toUInt32 &&& P.mask)

/-- `AddInt32(v)` = `addUint32(uint32(v))` -/
def addInt32 (P : Params) (h : Hash) (v : Int) : Hash := addUint32 P h (UInt32.ofInt v)
/-- `AddInt64(v)` = `addUint64(uint64(v))` -/
def addInt64 (P : Params) (h : Hash) (v : Int) : Hash := addUint64 P h (UInt64.ofInt v)
/-- `if v == 0 { v = 0 }` on a float32 bit pattern: `v == 0` holds exactly for `+0` and `−0`
(all bits but the sign clear), and the constant `0` is `+0` -/
def normZero32 (bits : UInt32) : UInt32 := if (bits &&& 0x7FFFFFFF) == 0 then 0 else bits
/-- the same for float64 -/
def normZero64 (bits : UInt64) : UInt64 := if (bits &&& 0x7FFFFFFFFFFFFFFF) == 0 then 0 else bits
/-- `AddFloat32(v)`: zero normalised (`+0`/`−0` are `==`, they must hash alike), then
`addUint32(math.Float32bits(v))`; argument is the bit pattern -/
def addFloat32 (P : Params) (h : Hash) (bits : UInt32) : Hash := addUint32 P h (normZero32 bits)
/-- `AddFloat64(v)`: zero normalised, then `addUint64(math.Float64bits(v))` -/
def addFloat64 (P : Params) (h : Hash) (bits : UInt64) : Hash := addUint64 P h (normZero64 bits)
/-- `AddBool` -/
def addBool (P : Params) (h : Hash) (v : Bool) : Hash := step P h (if v then 1 else 0)
/-- `AddBytes`: `hV ^= hash(b); hV *= multiplier` per byte (no mask needed, a byte is < 256) -/
def addBytes (P : Params) (h : Hash) (v : Bytes) : Hash := v.foldl (fun h b => step P h b.toUInt32) h
/-- `AddString(v)` = `AddBytes([]byte(v))` -/
def addString (P : Params) (h : Hash) (v : Bytes) : Hash := addBytes P h v
/-- `Add(other)` = `add(other.underlying())` = `addUint32(uint32(other))` -/
def add (P : Params) (h other : Hash) : Hash := addUint32 P h other
/-- `Equals` on hashes -/
def hashEquals (h other : Hash) : Bool := h == other

/-- `AddArray(h, elements, hasher)`; `hasher` is the state-passing form of `func(Hash, T)` -/
def addArray {α} (hasher : Hash → α → Hash) (h : Hash) (elements : List α) : Hash :=
  elements.foldl hasher h

/-- `AddHashableArray`: `hash.Add(t.ComputeHash())` per element -/
def addHashableArray {α} (P : Params) (computeHash : α → Hash) (h : Hash) (elements : List α) : Hash :=
  addArray (fun h t => add P h (computeHash t)) h elements

/-- the per-entry hash of `AddMap`: zero-seeded, key bytes, then the caller's hasher -/
def kvHash {α} (P : Params) (hasher : Hash → α → Hash) (kv : Bytes × α) : Hash :=
  hasher (addString P zeroHash kv.1) kv.2

/-- `sort.Slice(kvHashes, <)` -/
def sortHashes (l : List Hash) : List Hash := isort (fun a b => decide (a ≤ b)) l

/-- `AddMap(h, elements, hasher)` -/
def addMap {α} (P : Params) (hasher : Hash → α → Hash) (h : Hash) (elements : List (Bytes × α)) : Hash :=
  (sortHashes (elements.map (kvHash P hasher))).foldl (add P) h

/-- `AddHashableMap` -/
def addHashableMap {α} (P : Params) (computeHash : α → Hash) (h : Hash) (elements : List (Bytes × α)) : Hash :=
  addMap P (fun h t => add P h (computeHash t)) h elements

def hashInt32 (P : Params) (v : Int) : Hash := addInt32 P P.init v
def hashInt64 (P : Params) (v : Int) : Hash := addInt64 P P.init v
def hashFloat32 (P : Params) (bits : UInt32) : Hash := addFloat32 P P.init bits
def hashFloat64 (P : Params) (bits : UInt64) : Hash := addFloat64 P P.init bits
def hashBool (P : Params) (v : Bool) : Hash := addBool P P.init v
def hashString (P : Params) (v : Bytes) : Hash := addString P P.init v
def hashBytes (P : Params) (v : Bytes) : Hash := addBytes P P.init v

end Restli.Fnv
