import Restli.Model.Schema
import Restli.Model.Equals
import Restli.Model.Fnv
/-! Model of the generated `Equals` and `ComputeHash` of schema-derived types
(`codegen/types/record_equals.go`, `record_hash.go`, `enum.go`, `fixed.go`, `typeref.go`,
`union.go`) over the deep-embedded values: field-wise conjunction through the `equals` helpers,
running hash through the `fnv1a` helpers. -/
namespace Restli.Codec
open Restli.Fnv Restli.Equals

def primEq : Prim → Value → Value → Bool
  | .i32, .i32 a, .i32 b => a == b
  | .i64, .i64 a, .i64 b => a == b
  | .bool, .bool a, .bool b => a == b
  | .str, .str a, .str b => a == b
  | .bytes, .bytes a, .bytes b => a == b
  | .f32, .f32 a, .f32 b => floatEq32 (UInt32.ofNat a) (UInt32.ofNat b)
  | .f64, .f64 a, .f64 b => floatEq64 (UInt64.ofNat a) (UInt64.ofNat b)
  | _, _, _ => false

def primHash (P : Params) (h : Hash) : Prim → Value → Hash
  | .i32, .i32 a => addInt32 P h a
  | .i64, .i64 a => addInt64 P h a
  | .bool, .bool a => addBool P h a
  | .str, .str a => addString P h a
  | .bytes, .bytes a => addBytes P h a
  | .f32, .f32 a => addFloat32 P h (UInt32.ofNat a)
  | .f64, .f64 a => addFloat64 P h (UInt64.ofNat a)
  | _, _ => h

/-- optional presence and value (`*Pointer` helpers / nil checks) -/
def optEqV (eq : Value → Value → Bool) : Option Value → Option Value → Bool
  | none, none => true
  | some a, some b => eq a b
  | _, _ => false

/-- generated `Equals` of a named type, given the equality of field values -/
def namedEq (env : Env) (eqf : Ty → Value → Value → Bool) (n : TName) (a b : Value) : Bool :=
  match env.find n, a, b with
  | some (.typeref p), a, b => primEq p a b
  | some (.enum syms), .enum x, .enum y =>
    -- `c.IsValid() && other.IsValid() && c == other`
    decide (1 ≤ x ∧ x ≤ syms.length) && decide (1 ≤ y ∧ y ≤ syms.length) && x == y
  | some (.fixed _), .fixed x, .fixed y => x == y
  | some (.record _ _), .record xs, .record ys =>
    (allFields env (includeFuel env) n).all (fun fld =>
      optEqV (eqf fld.ty) (xs.lookup fld.name) (ys.lookup fld.name))
  | some (.union _ members), .union xs, .union ys =>
    members.all (fun m => optEqV (eqf m.2) (xs.lookup m.1) (ys.lookup m.1))
  | _, _, _ => false

/-- generated `Equals` at a type -/
def valueEq (env : Env) : Nat → Ty → Value → Value → Bool
  | 0, _, _, _ => false
  | f + 1, ty, a, b =>
    match ty, a, b with
    | .prim p, a, b => primEq p a b
    | .arr t, .arr xs, .arr ys => genericArray (valueEq env f t) xs ys
    | .map t, .map xs, .map ys => genericMap (valueEq env f t) xs ys
    | .ref n, a, b => namedEq env (valueEq env f) n a b
    | _, _, _ => false

/-! ## Equal, and not differing in the sign of a zero

For floats that are `==` the bit patterns differ only when both are zeros of different sign
(`floatEq32_bits` in the proofs); `primEqZ` excludes exactly that case. `valueEqZ` is `valueEq`
with `primEqZ` at the leaves: the premise of "Equal values that do not differ in the sign of a
zero have byte-identical encodings". -/

def primEqZ (p : Prim) (a b : Value) : Bool :=
  primEq p a b &&
    (match a, b with
    | .f32 x, .f32 y => UInt32.ofNat x == UInt32.ofNat y
    | .f64 x, .f64 y => UInt64.ofNat x == UInt64.ofNat y
    | _, _ => true)

def namedEqZ (env : Env) (eqf : Ty → Value → Value → Bool) (n : TName) (a b : Value) : Bool :=
  match env.find n, a, b with
  | some (.typeref p), a, b => primEqZ p a b
  | some (.enum syms), .enum x, .enum y =>
    decide (1 ≤ x ∧ x ≤ syms.length) && decide (1 ≤ y ∧ y ≤ syms.length) && x == y
  | some (.fixed _), .fixed x, .fixed y => x == y
  | some (.record _ _), .record xs, .record ys =>
    (allFields env (includeFuel env) n).all (fun fld =>
      optEqV (eqf fld.ty) (xs.lookup fld.name) (ys.lookup fld.name))
  | some (.union _ members), .union xs, .union ys =>
    members.all (fun m => optEqV (eqf m.2) (xs.lookup m.1) (ys.lookup m.1))
  | _, _, _ => false

def valueEqZ (env : Env) : Nat → Ty → Value → Value → Bool
  | 0, _, _, _ => false
  | f + 1, ty, a, b =>
    match ty, a, b with
    | .prim p, a, b => primEqZ p a b
    | .arr t, .arr xs, .arr ys => genericArray (valueEqZ env f t) xs ys
    | .map t, .map xs, .map ys => genericMap (valueEqZ env f t) xs ys
    | .ref n, a, b => namedEqZ env (valueEqZ env f) n a b
    | _, _, _ => false

/-- one field (or union member) of a struct: hashed if present -/
def hashSlot (hf : Ty → Hash → Value → Hash) (xs : List (Bytes × Value)) (h : Hash) (name : Bytes) (ty : Ty) : Hash :=
  match xs.lookup name with
  | some x => hf ty h x
  | none => h

/-- generated `ComputeHash` of a record: `hash.Add(r.Included.ComputeHash())` per include (the
embedded struct holds its share of the flattened fields `xs`), then the record's own fields. The
recursion is over the include depth only (`g`, as in `allFields`); `hf` hashes a field value. -/
def recHash (env : Env) (P : Params) (hf : Ty → Hash → Value → Hash) : Nat → TName → List (Bytes × Value) → Hash
  | 0, _, _ => P.init
  | g + 1, n, xs =>
    match env.find n with
    | some (.record incs own) =>
      let h0 := incs.foldl (fun h inc => add P h (recHash env P hf g inc xs)) P.init
      own.foldl (fun h fld => hashSlot hf xs h fld.name fld.ty) h0
    | _ => P.init

/-- generated `ComputeHash` of a named type, given how a field value is added to a running hash -/
def namedHash (env : Env) (P : Params) (hf : Ty → Hash → Value → Hash) (n : TName) (v : Value) : Hash :=
  match env.find n, v with
  | some (.typeref p), v => primHash P P.init p v
  | some (.enum syms), .enum x =>
    if 1 ≤ x ∧ x ≤ syms.length then hashInt32 P x else zeroHash
  | some (.fixed _), .fixed b => addBytes P P.init b
  | some (.record _ _), .record xs => recHash env P hf (includeFuel env) n xs
  | some (.union _ members), .union xs =>
    members.foldl (fun h m => hashSlot hf xs h m.1 m.2) P.init
  | _, _ => zeroHash

/-- what the generated code adds to a running hash for a value of a type: primitives through
`h.AddX`, named types through `h.Add(v.ComputeHash())`, collections through `AddArray`/`AddMap` -/
def hashInto (env : Env) (P : Params) : Nat → Ty → Hash → Value → Hash
  | 0, _, h, _ => h
  | f + 1, ty, h, v =>
    match ty, v with
    | .prim p, v => primHash P h p v
    | .arr t, .arr xs => addArray (hashInto env P f t) h xs
    | .map t, .map xs => addMap P (hashInto env P f t) h xs
    | .ref n, v => add P h (namedHash env P (hashInto env P f) n v)
    | _, _ => h

/-- generated `ComputeHash` of a named type -/
def computeHash (env : Env) (P : Params) (f : Nat) (n : TName) (v : Value) : Hash :=
  namedHash env P (hashInto env P f) n v

end Restli.Codec
