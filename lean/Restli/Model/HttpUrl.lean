import Restli.Lib.Url
/-! # Model.HttpUrl — `(*Client).formatQueryUrl` and the URL part of `newRequest`

Transliterated from `v2/restli/http.go`. The root module's `restli/http.go` differs from the v2
copy only in one import path and one comment line (`diff v2/restli/http.go restli/http.go`), and
`hostname_resolver.go`/`types.go` only in import paths, so one model serves both generations.

What is abstracted: `rp.ResourcePath()`, `rp.RootResource()` and `query.EncodeQueryParams()` are
the byte strings they return (their errors return early, before any URL is built); the hostname
resolver is the `url.URL` it returns (`SimpleHostnameResolver` returns its field unchanged).
`query = none` is the Go `nil` encoder. -/
namespace Restli.HttpUrl
open Restli Restli.Url

/-- `strings.TrimPrefix(s, "/")` -/
def trimPrefixSlash (s : Bytes) : Bytes :=
  match s with
  | c :: r => if c == cSlash then r else s
  | [] => []

/-- `strings.TrimSuffix(s, "/")` -/
def trimSuffixSlash (s : Bytes) : Bytes :=
  if s.getLast? == some cSlash then s.dropLast else s

/-- `strings.Index(s, pat)` : index of the FIRST occurrence -/
def indexOf (pat : Bytes) : Bytes → Option Nat
  | [] => if pat.isEmpty then some 0 else none
  | c :: cs =>
    if pat.isPrefixOf (c :: cs) then some 0
    else (indexOf pat cs).map (· + 1)

/-- the context path `formatQueryUrl` derives from the resolver's URL:
`"/" + TrimSuffix(TrimPrefix(hostUrl.EscapedPath(), "/"), "/")` -/
def resolvedPath (hostUrl : URL) : Bytes :=
  cSlash :: trimSuffixSlash (trimPrefixSlash (escapedPath hostUrl))

/-- the `strings.Index` block: cut the context at the FIRST `"/"+root` if that occurrence is a
whole segment. The byte access `resolvedPath[idx+len(root)+1]` is modelled with its bounds test. -/
def stripRoot (resolved root : Bytes) : Res Bytes :=
  match indexOf (cSlash :: root) resolved with
  | none => .ok resolved
  | some idx =>
    if resolved.length == idx + root.length + 1 then .ok (resolved.take idx)
    else match resolved[idx + root.length + 1]? with
      | none => .panic
      | some c => if c == cSlash then .ok (resolved.take idx) else .ok resolved

/-- `path` (`+= "?" + params` when the query encoder is not nil) -/
def queryPath (rp : Bytes) (query : Option Bytes) : Bytes :=
  match query with
  | none => rp
  | some q => rp ++ cQuest :: q

/-- `(*Client).formatQueryUrl` -/
def formatQueryUrl (hostUrl : URL) (root rp : Bytes) (query : Option Bytes) : Res URL :=
  match parse (queryPath rp query) with
  | .ok u =>
    let resolved := resolvedPath hostUrl
    if resolved == [cSlash] then .ok (resolveReference hostUrl u)
    else match stripRoot resolved root with
      | .ok ctx => urlParse hostUrl (ctx ++ requestURI u)
      | .err => .err
      | .unmodelled r => .unmodelled r
      | .panic => .panic
  | .err => .err
  | .unmodelled r => .unmodelled r
  | .panic => .panic

/-- what `http.NewRequestWithContext(ctx, m, u.String(), body)` stores in `req.URL`:
`url.Parse` of the text, then `removeEmptyPort` on the host -/
def httpRequestUrl (text : Bytes) : Res URL :=
  match parse text with
  | .ok r => .ok { r with host := removeEmptyPort r.host }
  | .err => .err
  | .unmodelled r => .unmodelled r
  | .panic => .panic

/-- `req.URL` of `newRequest` when the query is not tunnelled (`QueryTunnellingThreshold = 0`
or a short query; the tunnelled case is `Model/Tunnel.lean`) -/
def requestUrl (hostUrl : URL) (root rp : Bytes) (query : Option Bytes) : Res URL :=
  match formatQueryUrl hostUrl root rp query with
  | .ok u => httpRequestUrl (toString u)
  | .err => .err
  | .unmodelled r => .unmodelled r
  | .panic => .panic

end Restli.HttpUrl
