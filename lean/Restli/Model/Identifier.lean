import Restli.Lib.Basic
import Restli.Gen.Tables
import Restli.Model.Schema
/-! Model of `codegen/utils.ExportedIdentifier` (v2/codegen/utils/codefile.go; the root module's copy is
identical) over bytes, for the ASCII identifier alphabet `[A-Za-z0-9_$]`.

```go
for i, c := range identifier {
    switch {
    case unicode.IsLetter(c): if i == 0 { WriteRune(unicode.ToUpper(c)) } else { WriteRune(c) }
    case unicode.IsNumber(c): if i == 0 { WriteString("Exported_") }; WriteRune(c)
    case c == '_':            if i == 0 { WriteString("Exported") };  WriteRune(c)
    case c == '$':            if i != 0 { WriteRune('_') };           WriteString("DOLLAR_")
    default:                  log.Panicf(...)
    }
}
```

For ASCII input `range` yields one rune per byte and `i == 0` exactly for the first one. A byte ≥ 0x80
starts a multi-byte rune whose class comes from the Unicode tables: that region is not modelled and is
answered `nonAscii` (the driver prints `unmodelled nonascii`). The literals come from the regenerated
tables (`Gen.ident*`), for both module generations. -/
namespace Restli.Ident

structure Params where
  /-- written before a leading digit -/
  digitPrefix : Bytes
  /-- the character of the third case (`_`) -/
  underscoreChar : UInt8
  /-- written before a leading underscore -/
  underscorePrefix : Bytes
  /-- the character of the fourth case (`$`) -/
  dollarChar : UInt8
  /-- written before `dollarWord` when the `$` is not the first character -/
  dollarSep : UInt8
  /-- what a `$` is replaced by -/
  dollarWord : Bytes

def paramsV2 : Params :=
  { digitPrefix := Gen.identDigitPrefix, underscoreChar := Gen.identUnderscoreChar,
    underscorePrefix := Gen.identUnderscorePrefix, dollarChar := Gen.identDollarChar,
    dollarSep := Gen.identDollarSep, dollarWord := Gen.identDollarWord }

def paramsRoot : Params :=
  { digitPrefix := GenRoot.identDigitPrefix, underscoreChar := GenRoot.identUnderscoreChar,
    underscorePrefix := GenRoot.identUnderscorePrefix, dollarChar := GenRoot.identDollarChar,
    dollarSep := GenRoot.identDollarSep, dollarWord := GenRoot.identDollarWord }

def isLower (c : UInt8) : Bool := 97 ≤ c && c ≤ 122
def isUpper (c : UInt8) : Bool := 65 ≤ c && c ≤ 90
/-- `unicode.IsLetter` on ASCII -/
def isLetter (c : UInt8) : Bool := isLower c || isUpper c
/-- `unicode.IsNumber` on ASCII -/
def isDigit (c : UInt8) : Bool := 48 ≤ c && c ≤ 57
/-- `unicode.ToUpper` on ASCII -/
def toUpper (c : UInt8) : UInt8 := if isLower c then c - 32 else c

inductive Step where
  | emit (bs : Bytes)
  | panic
  | nonAscii
deriving DecidableEq, Repr

/-- one iteration of the loop body; `first` is `i == 0` -/
def step (P : Params) (first : Bool) (c : UInt8) : Step :=
  if 128 ≤ c then .nonAscii
  else if isLetter c then .emit [if first then toUpper c else c]
  else if isDigit c then .emit ((if first then P.digitPrefix else []) ++ [c])
  else if c = P.underscoreChar then .emit ((if first then P.underscorePrefix else []) ++ [c])
  else if c = P.dollarChar then .emit ((if first then [] else [P.dollarSep]) ++ P.dollarWord)
  else .panic

inductive Out where
  | ok (s : Bytes)
  | panic
  | nonAscii
deriving DecidableEq, Repr

/-- the loop: remaining input, `i == 0` flag, the builder's content -/
def go (P : Params) : Bool → Bytes → Bytes → Out
  | _, [], acc => .ok acc
  | first, c :: cs, acc =>
    match step P first c with
    | .emit bs => go P false cs (acc ++ bs)
    | .panic => .panic
    | .nonAscii => .nonAscii

def exportedIdentifier (P : Params) (s : Bytes) : Out := go P true s []

/-- `Record.SortedFields` / `sortFields` (codegen/types/record.go): `sort.Slice(fields, Name <)` — Go string
comparison is byte-wise lexicographic, and with pairwise distinct names any correct sort returns the one
ascending arrangement, which is what `sortByKey` computes. Also the order in which `IdentifierSet.Range`
(codegen/utils/identifier.go, keyed by `FullName()`) visits a set. -/
def sortedFields {α : Type} (fields : List (Bytes × α)) : List (Bytes × α) := Codec.sortByKey fields

end Restli.Ident
