import Restli.Lib.Basic
import Restli.Lib.Sort
import Restli.Gen.Tables
import Restli.Model.Equals
/-! # Model of `restli/batchkeyset/{generic,primitive,set}.go` and of
`BatchResponse.UnmarshalWithKeyLocator` (v2: `restlidata/generated/com/linkedin/restli/common/structs.go`,
root: `restlidata/structs.go`) — the key correlation of batch get / update / partial update / delete.

**Identity.** The property is about *which object* a response entry is filed under ("the very key
value the caller supplied, not a re-decoded copy"). A key is therefore a pair of an identity tag
and a content: `Key.id` says which object it is (a caller's key, or a copy freshly decoded from the
response), `Key.val` is what equality, hashing and encoding look at. Nothing in the model ever
inspects `id`; theorems talk about it.

**Parameters, not codecs.** The set is generic in `KeyOps` (`s.equals`, `s.hash(t).MapKey()`), in
`encode` (`MarshalRestLi` into a query-parameter writer; `none` = marshalling error) and in
`decode` (`NewRor2Reader(rawKey)` + `UnmarshalRestLi[K]`; `none` = either fails). The codec side —
that `decode (headerEncode k)` is a key Equal to `k` — belongs to C01/C03 and enters C16's
theorems as the hypothesis that the decoded key is Equal to a stored one.

**Go maps.** `originalKeys map[HashMapKey][]T` is an association list with distinct hashes whose
order stands for the iteration order; the response maps `map[K]V` are association lists under
Go's own key equality `goEq` on `K` (pointer identity for record keys, `==` for primitives); an
entry whose key is already present is refused, so every assignment appends. -/
namespace Restli.KeySet
open Restli

structure Key (α : Type) where
  /-- identity tag — ignored by equality, hashing and encoding -/
  id : Nat
  val : α
deriving Repr, DecidableEq

/-- `genericBatchKeySet.equals` / `.hash` (the latter already through `.MapKey()`) -/
structure KeyOps (α : Type) where
  eq : α → α → Bool
  hash : α → UInt32

/-! ## `genericBatchKeySet` -/

structure GenericSet (α : Type) where
  /-- `originalKeys`; list order = map iteration order -/
  buckets : List (UInt32 × List (Key α))
  keyCount : Nat
deriving Repr, DecidableEq

def GenericSet.empty {α : Type} : GenericSet α := ⟨[], 0⟩

/-- `s.originalKeys[h]` (nil slice when absent) -/
def bucketOf {α : Type} (h : UInt32) : List (UInt32 × List (Key α)) → List (Key α)
  | [] => []
  | (h', b) :: rest => if h' == h then b else bucketOf h rest

/-- `s.originalKeys[h] = b` -/
def setBucket {α : Type} (h : UInt32) (b : List (Key α)) :
    List (UInt32 × List (Key α)) → List (UInt32 × List (Key α))
  | [] => [(h, b)]
  | (h', b') :: rest => if h' == h then (h, b) :: rest else (h', b') :: setBucket h b rest

/-- every key held by the set, in iteration order -/
def GenericSet.allKeys {α : Type} (s : GenericSet α) : List (Key α) := s.buckets.flatMap (·.2)

/-- `AddKey(t)`: `none` = the "Cannot add key twice" error (set unchanged) -/
def addKey {α : Type} (O : KeyOps α) (s : GenericSet α) (t : Key α) : Option (GenericSet α) :=
  let h := O.hash t.val
  let b := bucketOf h s.buckets
  if b.any (fun key => O.eq t.val key.val) then none       -- s.equals(t, key)
  else some ⟨setBucket h (b ++ [t]) s.buckets, s.keyCount + 1⟩

/-- `LocateOriginalKey(key)`: the first member `k` of the probe's bucket with `s.equals(k, key)` -/
def locate {α : Type} (O : KeyOps α) (s : GenericSet α) (key : Key α) : Option (Key α) :=
  (bucketOf (O.hash key.val) s.buckets).find? (fun k => O.eq k.val key.val)

/-- `AddAllKeys(set, keys...)`: stops at the first error; `Sum.inl i` = key number `i` rejected -/
def addAllFrom {α : Type} (add : σ → Key α → Option σ) : Nat → σ → List (Key α) → Nat ⊕ σ
  | _, s, [] => .inr s
  | i, s, t :: ts =>
    match add s t with
    | none => .inl i
    | some s' => addAllFrom add (i + 1) s' ts

def addAll {α : Type} (O : KeyOps α) (ts : List (Key α)) : Nat ⊕ GenericSet α :=
  addAllFrom (addKey O) 0 GenericSet.empty ts

/-! ## encoding the `ids` parameter (`set.go`) -/

/-- `sort.Strings`: byte-wise lexicographic order -/
def bytesLe : Bytes → Bytes → Bool
  | [], _ => true
  | _ :: _, [] => false
  | a :: as, b :: bs => if a < b then true else if a == b then bytesLe as bs else false

/-- `encodeKeys` (+ the marshalling error) followed by `sort.Strings`, i.e. the items written by
`encode` into the `ids` array, in order -/
def encodeIds {α : Type} (encode : α → Option Bytes) (keys : List (Key α)) : Option (List Bytes) :=
  (keys.mapM (fun k => encode k.val)).map (isort bytesLe)

def GenericSet.ids {α : Type} (encode : α → Option Bytes) (s : GenericSet α) : Option (List Bytes) :=
  encodeIds encode s.allKeys

/-! ## `primitiveKeySet` — `map[T]struct{}` under Go's `==` on `T` -/

open Restli.Equals in
/-- `originalKeys map[T]T` (every key mapped to itself): the list is the Go map's entries in
iteration order; Go map lookup compares with `==` (a NaN is never found, so every NaN inserted is
a new entry) -/
structure PrimSet where
  keys : List (Key Prim)
deriving Repr, DecidableEq

open Restli.Equals in
def PrimSet.addKey (s : PrimSet) (t : Key Prim) : Option PrimSet :=
  if s.keys.any (fun k => Prim.eq t.val k.val) then none else some ⟨s.keys ++ [t]⟩

open Restli.Equals in
/-- `LocateOriginalKey(key)`: `originalKey, found = s.originalKeys[key]` — the value stored under the
`==` key, i.e. the key the caller added (`originalKeys` maps every key to itself) -/
def PrimSet.locate (s : PrimSet) (key : Key Prim) : Option (Key Prim) :=
  s.keys.find? (fun k => Prim.eq key.val k.val)

def PrimSet.addAll (ts : List (Key Equals.Prim)) : Nat ⊕ PrimSet :=
  addAllFrom PrimSet.addKey 0 ⟨[]⟩ ts

/-! ## `BatchResponse.UnmarshalWithKeyLocator` -/

inductive ErrClass where
  /-- `NewRor2Reader(rawKey)` or `UnmarshalRestLi[K]` failed -/
  | badKey
  /-- "Unknown key returned by batch method" -/
  | unknownKey
  /-- the entry's value did not decode -/
  | badValue
  /-- `results` (the one required field) absent -/
  | missingResults
  /-- a member that is none of the three fields, where that is an error (v2: `NoSuchFieldErr`) -/
  | noSuchField
  /-- "Key … returned twice in …": the located key already has an entry in this map -/
  | repeatedKey
  /-- "Field … returned twice": results, statuses or errors appears a second time -/
  | repeatedField
deriving Repr, DecidableEq

/-- `LocateOriginalKeyFromReader` with the codec abstracted as `decode` -/
def locateFromReader {α : Type} (decode : Bytes → Option (Key α))
    (loc : Key α → Option (Key α)) (raw : Bytes) : Except ErrClass (Key α) :=
  match decode raw with
  | none => .error .badKey
  | some k =>
    match loc k with
    | some o => .ok o
    | none => .error .unknownKey

/-- the `reader.ReadMap(func(valueReader, rawKey) …)` loop of one of the three fields; an entry is
`(rawKey, value)` with `none` = the value does not decode. Per entry: locate the key, refuse it
when the map already has an entry under an equal key (Go's key equality `goEq` on `K`), decode the
value, assign — to a key that is not present, so the assignment appends. -/
def fillField {α V : Type} (locator : Bytes → Except ErrClass (Key α))
    (goEq : Key α → Key α → Bool) :
    List (Key α × V) → List (Bytes × Option V) → Except ErrClass (List (Key α × V))
  | m, [] => .ok m
  | m, (raw, v) :: rest =>
    match locator raw with
    | .error e => .error e
    | .ok o =>
      if m.any (fun kv => goEq kv.1 o) then .error .repeatedKey
      else
        match v with
        | none => .error .badValue
        | some v => fillField locator goEq (m ++ [(o, v)]) rest

/-- which of the response's fields a JSON member is -/
inductive FieldTag where
  | results | statuses | errors
  /-- any other name: v2 returns `NoSuchFieldErr`, which nothing consumes — the whole response is
  rejected; the root module skips the value -/
  | other
deriving Repr, DecidableEq

structure FieldNames where
  results : String
  statuses : String
  errors : String
  /-- is a member with any other name an error (v2) or skipped (root)? -/
  strict : Bool

def fieldNamesV2 : FieldNames :=
  ⟨Restli.Gen.batchResultsField, Restli.Gen.batchStatusesField, Restli.Gen.batchErrorsField,
   Restli.Gen.batchUnknownFieldIsError⟩
def fieldNamesRoot : FieldNames :=
  ⟨Restli.GenRoot.batchResultsField, Restli.GenRoot.batchStatusesField, Restli.GenRoot.batchErrorsField,
   Restli.GenRoot.batchUnknownFieldIsError⟩

/-- the `switch field` of `UnmarshalWithKeyLocator` -/
def FieldNames.tag (N : FieldNames) (name : String) : FieldTag :=
  if name == N.results then .results
  else if name == N.statuses then .statuses
  else if name == N.errors then .errors
  else .other

/-- `BatchResponse[K,V]`: `none` = nil map (the field never appeared). One payload type `V`
stands for the three value types (entity, status int, `*ErrorResponse`): only the correlation
of entries with keys is modelled. -/
structure BatchResponse (α V : Type) where
  results : Option (List (Key α × V)) := none
  statuses : Option (List (Key α × V)) := none
  errors : Option (List (Key α × V)) := none
deriving Repr, DecidableEq

/-- the `ReadRecord` loop over the document's members in document order; `seen` are the fields
already met (`seenResults/seenStatuses/seenErrors`): a second occurrence is an error. -/
def unmarshalFields {α V : Type} (strict : Bool) (locator : Bytes → Except ErrClass (Key α))
    (goEq : Key α → Key α → Bool) : List FieldTag → BatchResponse α V →
    List (FieldTag × List (Bytes × Option V)) → Except ErrClass (BatchResponse α V)
  | _, b, [] => .ok b
  | seen, b, (tag, entries) :: rest =>
    match tag with
    | .other => if strict then .error .noSuchField else unmarshalFields strict locator goEq seen b rest
    | .results =>
      if seen.contains .results then .error .repeatedField else
      match fillField locator goEq [] entries with
      | .error e => .error e
      | .ok m => unmarshalFields strict locator goEq (.results :: seen) { b with results := some m } rest
    | .statuses =>
      if seen.contains .statuses then .error .repeatedField else
      match fillField locator goEq [] entries with
      | .error e => .error e
      | .ok m => unmarshalFields strict locator goEq (.statuses :: seen) { b with statuses := some m } rest
    | .errors =>
      if seen.contains .errors then .error .repeatedField else
      match fillField locator goEq [] entries with
      | .error e => .error e
      | .ok m => unmarshalFields strict locator goEq (.errors :: seen) { b with errors := some m } rest

/-- `UnmarshalWithKeyLocator(reader, keys)` with `keys != nil`: fields in document order, then
`ReadRecord`'s required-field check (`results`). -/
def unmarshalWithKeyLocator {α V : Type} (strict : Bool) (locator : Bytes → Except ErrClass (Key α))
    (goEq : Key α → Key α → Bool) (doc : List (FieldTag × List (Bytes × Option V))) :
    Except ErrClass (BatchResponse α V) :=
  match unmarshalFields strict locator goEq [] {} doc with
  | .error e => .error e
  | .ok b => if doc.any (fun f => f.1 == .results) then .ok b else .error .missingResults

/-! ## Complex keys (`codegen/types/complexkey.go`) -/

/-- a generated complex key: the embedded key record and the optional `$params` -/
structure ComplexKey (κ π : Type) where
  key : κ
  params : Option π
deriving Repr, DecidableEq

/-- `ComplexKeyEquals(other) = k.Key.Equals(&other.Key)`, `ComputeComplexKeyHash() =
k.Key.ComputeHash()`: the key part only. -/
def complexOps {κ π : Type} (K : KeyOps κ) : KeyOps (ComplexKey κ π) :=
  ⟨fun a b => K.eq a.key b.key, fun a => K.hash a.key⟩

end Restli.KeySet
