/-! Model of `d2/lazymap.LazySyncMap` (v2/d2/lazymap/lazymap.go; the root module's copy is
byte-identical) as a small-step transition system.

Granularity: one step per atomic action of the underlying primitives, in program order —
`sync.Map.LoadOrStore` / `sync.Map.Load` (pc `start`), the user compute `value.v = f()` (pc
`compute`), the owner's raw `sync.Map.Store(key, value.v)` (pc `rawStore`), `value.wg.Done()`
(pc `signal`), `v.wg.Wait(); return v.v` (pc `wait`, enabled only once the placeholder is
done), and the trailing raw `sync.Map.Store` of `LazySyncMap.Store` (pc `finalStore`).
Everything else in the Go code is thread-local and is fused with the preceding atomic step.

Any number of threads (`threads : Nat → Thread`, all but the scheduled ones never move), each
running a *sequence* of operations; a schedule is a list of thread ids, disabled picks (a
finished thread, a thread blocked in `Wait`) are skipped.

Trusted, not modelled: `sync.Map` operations are atomic; `WaitGroup.Wait` returns iff `Done`
was called and `Done` happens-before that return (so the waiter's read of `v.v` sees the
owner's write); the compute function is a total, side-effect-free value (it neither panics nor
re-enters the map).

Ghost state (never read by a transition): `computes`, `placed`, `phOf`, `trace`. -/
namespace Restli.LazyMap

/- Keys, values, placeholder identities (an `*inFlightValue` pointer) and thread ids are all
natural numbers; the binder names `k`, `v`/`fv`, `p`/`q`, `t`/`i` tell which is which. (Plain
`Nat` rather than abbreviations so that `omega` sees the arithmetic facts.) -/

/-- what the underlying `sync.Map` holds for a key -/
inductive Cell where
  | absent
  | infl (p : Nat)      -- an `*inFlightValue`
  | val (v : Nat)       -- anything else
deriving DecidableEq, Repr

/-- `inFlightValue`: `wg` (only "has Done been called") and `v` (`none` = the nil interface it
is allocated with). -/
structure PH where
  done : Bool := false
  v : Option Nat := none
deriving DecidableEq, Repr

/-- one call on the map; `los k fv` is `LoadOrStore(k, f)` with `f` returning `fv`. -/
inductive Op where
  | los (k : Nat) (fv : Nat)
  | load (k : Nat)
  | store (k : Nat) (v : Nat)
deriving DecidableEq, Repr

def Op.key : Op → Nat
  | .los k _ => k | .load k => k | .store k _ => k

def Op.isStore : Op → Bool
  | .store _ _ => true | _ => false

def Op.isLoad : Op → Bool
  | .load _ => true | _ => false

/-- what a call returns. `unit`: `Store`. `missing`: `Load` = `(nil, false)`. `val v`: the
value. `nil`: the content of a placeholder read before it was written (a nil interface
returned as if it were the value) — the observable of a leaked in-flight placeholder. -/
inductive Ret where
  | unit
  | missing
  | val (v : Nat)
  | nil
deriving DecidableEq, Repr

inductive Pc where
  | start                              -- about to do the operation's atomic map access
  | compute (p : Nat)                  -- installed placeholder p: about to run `value.v = f()`
  | rawStore (p : Nat) (v : Nat)       -- about to `m.Store(key, value.v)`
  | signal (p : Nat) (v : Nat)         -- about to `value.wg.Done()` and return
  | wait (q : Nat)                     -- in `v.wg.Wait()` on placeholder q, then `return v.v`
  | finalStore                         -- `Store` only: `!stored`, about to `m.Store(key, value)`
deriving DecidableEq, Repr

/-- ghost: how a completed call obtained its result -/
inductive Via where
  | direct               -- found a plain value / nothing in the map (or, for `Store`, wrote last)
  | own (p : Nat)        -- installed placeholder p itself
  | waited (p : Nat)     -- found placeholder p in the map and waited for it
deriving DecidableEq, Repr

/-- ghost: externally visible events, in the order they happen. `call` coincides with the
operation's first atomic step, `ret` with its last (the tightest real-time order). -/
inductive Ev where
  | call (t : Nat) (op : Op)
  | ret (t : Nat) (op : Op) (r : Ret) (via : Via)
deriving DecidableEq, Repr

structure Thread where
  /-- operations still to run; the head is the current one -/
  todo : List Op
  pc : Pc
  /-- results of the completed operations, oldest first -/
  rets : List Ret
deriving DecidableEq, Repr

structure Sys where
  cell : Nat → Cell
  ph : Nat → PH
  nextPid : Nat
  threads : Nat → Thread
  /-- ghost: how often a *user* compute function ran for the key -/
  computes : Nat → Nat
  /-- ghost: how many placeholders were ever installed for the key -/
  placed : Nat → Nat
  /-- ghost: the placeholder installed for the key (the last one, if there were several) -/
  phOf : Nat → Option Nat
  trace : List Ev

def setCell (s : Sys) (k : Nat) (c : Cell) : Sys :=
  { s with cell := fun k' => if k' = k then c else s.cell k' }

def setPh (s : Sys) (p : Nat) (h : PH) : Sys :=
  { s with ph := fun p' => if p' = p then h else s.ph p' }

def bump (f : Nat → Nat) (k : Nat) : Nat → Nat := fun k' => if k' = k then f k' + 1 else f k'

/-- what a waiter returns: `v.v` -/
def retOfPh (h : PH) : Ret :=
  match h.v with
  | some v => .val v
  | none => .nil

/-- result of one atomic step of one thread: either it moves on inside the operation, or the
operation returns. -/
inductive Next where
  | goto (pc : Pc)
  | fin (r : Ret) (via : Via)
deriving DecidableEq, Repr

/-- One atomic step of a thread that is executing `op` at `pc`. `none`: not enabled (blocked
in `Wait`, or a pc the operation can never reach). The thread record itself is updated by
`step`. -/
def stepOp (s : Sys) (op : Op) (pc : Pc) : Option (Sys × Next) :=
  let k := op.key
  match pc with
  | .start =>
    match op with
    | .load _ =>                                   -- (*sync.Map)(m).Load(key)
      match s.cell k with
      | .absent => some (s, .fin .missing .direct)
      | .infl q => some (s, .goto (.wait q))
      | .val v => some (s, .fin (.val v) .direct)
    | _ =>                                         -- (*sync.Map)(m).LoadOrStore(key, value)
      match s.cell k with
      | .absent =>
        let p := s.nextPid
        some ({ setCell s k (.infl p) with
                nextPid := p + 1, placed := bump s.placed k,
                phOf := fun k' => if k' = k then some p else s.phOf k' }, .goto (.compute p))
      | .infl q => some (s, .goto (.wait q))
      | .val v =>
        if op.isStore then some (s, .goto .finalStore)     -- stored == false
        else some (s, .fin (.val v) .direct)
  | .compute p =>                                  -- value.v = f()
    match op with
    | .los _ fv =>
      some ({ setPh s p { (s.ph p) with v := some fv } with computes := bump s.computes k }, .goto (.rawStore p fv))
    | .store _ v =>                                -- Store's closure: stored = true; return value
      some (setPh s p { (s.ph p) with v := some v }, .goto (.rawStore p v))
    | .load _ => none
  | .rawStore p v =>                               -- (*sync.Map)(m).Store(key, value.v)
    some (setCell s k (.val v), .goto (.signal p v))
  | .signal p v =>                                 -- value.wg.Done(); return value.v
    some (setPh s p { (s.ph p) with done := true },
          .fin (if op.isStore then .unit else .val v) (.own p))
  | .wait q =>                                     -- v.wg.Wait(); return v.v
    if (s.ph q).done then
      if op.isStore then some (s, .goto .finalStore)       -- stored == false
      else some (s, .fin (retOfPh (s.ph q)) (.waited q))
    else none
  | .finalStore =>                                 -- (*sync.Map)(m).Store(key, value)
    match op with
    | .store _ v => some (setCell s k (.val v), .fin .unit .direct)
    | _ => none

/-- the thread record after a step: move on inside the operation, or return (record the
result, drop the operation, stand at the first step of the next one) -/
def advance (t : Thread) (rest : List Op) : Next → Thread
  | .goto pc' => { t with pc := pc' }
  | .fin r _ => { todo := rest, pc := .start, rets := t.rets ++ [r] }

/-- ghost trace after a step: `call` with the operation's first step, `ret` with its last -/
def traceAfter (tr : List Ev) (i : Nat) (op : Op) (pc : Pc) : Next → List Ev
  | .goto _ => if pc = .start then tr ++ [.call i op] else tr
  | .fin r via => (if pc = .start then tr ++ [.call i op] else tr) ++ [.ret i op r via]

/-- One step of thread `i`; `none` if it is finished or blocked. -/
def step (s : Sys) (i : Nat) : Option Sys :=
  match (s.threads i).todo with
  | [] => none
  | op :: rest =>
    match stepOp s op (s.threads i).pc with
    | none => none
    | some (s1, nx) =>
      some { s1 with
        threads := fun j => if j = i then advance (s.threads i) rest nx else s1.threads j,
        trace := traceAfter s1.trace i op (s.threads i).pc nx }

/-- Run a schedule; picks that are not enabled are skipped. -/
def run (s : Sys) : List Nat → Sys
  | [] => s
  | i :: is =>
    match step s i with
    | some s' => run s' is
    | none => run s is

/-- Initial state: empty map, thread `t` is about to run `progs t`. -/
def init (progs : Nat → List Op) : Sys :=
  { cell := fun _ => .absent, ph := fun _ => {}, nextPid := 0,
    threads := fun t => { todo := progs t, pc := .start, rets := [] },
    computes := fun _ => 0, placed := fun _ => 0, phOf := fun _ => none, trace := [] }

/-- finitely many threads given as a list of programs -/
def initL (progs : List (List Op)) : Sys := init (fun t => progs.getD t [])

/-- the states the theorems quantify over -/
def Reachable (s : Sys) : Prop := ∃ progs sched, s = run (init progs) sched

end Restli.LazyMap
