import Restli.Model.Encode
import Restli.Model.Ror2Reader
/-! The value a document denotes for a reader of a given type (`norm`): what every reader of the
library returns for the encoding of `v` — the record's own defaults filled in at every level,
entries in ascending key order, NaN canonical. The round-trip theorems (Proofs/RoundTrip2 on) are
stated with it; the generated `populateLocalDefaultValues` obtains the default of a record, union,
array or map field by reading the schema's literal as such a document, so the defaults a schema
holds are `norm` of its literals (`expandDefaults`). -/
namespace Restli.Codec

/-- reading back a float: the same bits, except that every NaN reads as the canonical NaN -/
def normF (f : Strconv.FloatFmt) (b : Nat) : Nat :=
  if (Strconv.decodeBits f b).cls == 2 then Strconv.nanBits f else b

def normPrim : Prim → Value → Value
  | .f32, .f32 b => .f32 (normF Strconv.f32 b)
  | .f64, .f64 b => .f64 (normF Strconv.f64 b)
  | _, v => v

/-- the value a reader returns for an encoded `v`: own defaults filled in, entries in ascending
key order, NaN canonical -/
def norm (env : Env) : Nat → Ty → Value → Value
  | 0, _, v => v
  | f + 1, ty, v =>
    match ty, v with
    | .prim p, v => normPrim p v
    | .arr t, .arr vs => .arr (vs.map (norm env f t))
    | .map t, .map es => .map (sortByKey (es.map (fun e => (e.1, norm env f t e.2))))
    | .ref n, v =>
      match env.find n, v with
      | some (.typeref p), v => normPrim p v
      | some (.record _ own), .record fs =>
        (match setFields (allFields env (includeFuel env) n) fs with
        | some triples =>
          .record (populateDefaults own (sortByKey (triples.map (fun x => (x.1, norm env f x.2.1 x.2.2)))))
        | none => v)
      | some (.union _ members), .union ms =>
        .union (sortByKey ((setMembers members ms).map (fun x => (x.1, norm env f x.2.1 x.2.2))))
      | _, v => v
    | _, v => v

/-- fuel for the literals of a schema (nesting depth of a default literal) -/
def literalFuel : Nat := 64

/-- a declaration with every default literal replaced by the value it denotes under `env` -/
def expandDecl (env : Env) : Decl → Decl
  | .record incs own =>
    .record incs (own.map fun f => { f with dflt := f.dflt.map (norm env literalFuel f.ty) })
  | d => d

/-- one pass over the schema -/
def expandDefaultsOnce (env : Env) : Env := env.map fun (e : TName × Decl) => (e.1, expandDecl env e.2)

/-- the schema as the generated code holds it: default literals read as documents of their field's
type, so that a record-typed default carries the own defaults of the record it names (and those
the defaults they name, … — one pass per declaration reaches every level) -/
def expandDefaults (env : Env) : Env :=
  (List.range (env.length + 1)).foldl (fun e _ => expandDefaultsOnce e) env

end Restli.Codec
