import Restli.Model.Encode
import Restli.Model.TreeReader
/-! Model of the generated partial-update bindings (`codegen/types/record_partial_update.go`,
`restli/patch/partial_update_utils.go`): `X_PartialUpdate` with its `Delete_Fields`, `Set_Fields`
and nested `*Y_PartialUpdate` members, `CheckFields`, `MarshalRestLiPatch` / `MarshalRestLi`,
`UnmarshalRestLiPatch` / `UnmarshalRestLi`.

A Go partial-update struct of a record (its embedded include structs flattened: field names are
unique across the include closure) is the names whose delete flag is set, the set-pointers that
are non-nil with their values, and the nested partial updates that are non-nil. Only the slots the
generated code reads are modelled (the `Delete_Fields` structs also embed the included records'
`Delete_Fields` structs a second time; nothing reads those copies). -/
namespace Restli.Codec
open Json (JVal)

inductive PU where
  | mk (deletes : List Bytes) (sets : List (Bytes × Value)) (patches : List (Bytes × PU))
deriving Repr, Inhabited

def PU.empty : PU := .mk [] [] []
def PU.deletes : PU → List Bytes | .mk d _ _ => d
def PU.sets : PU → List (Bytes × Value) | .mk _ s _ => s
def PU.patches : PU → List (Bytes × PU) | .mk _ _ p => p

/-- `patch.IllegalPartialUpdateError`, by message -/
inductive PUErr where
  /-- "Cannot delete/update/partial update read-only or create-ony field" -/
  | excluded (field : Bytes)
  /-- "Only one of set/update/partial update can be specified for field" -/
  | conflict (field : Bytes)
  /-- "Field cannot be deleted" (only raised when reading a `$delete` list) -/
  | cannotDelete (field : Bytes)
deriving DecidableEq, Repr

def patchKey : Bytes := [112, 97, 116, 99, 104]                   -- "patch"

/-- `f.Type.Record() != nil`: the field's type is a record (not an array / map / union of them) -/
def recordOf (env : Env) : Ty → Option TName
  | .ref n => (match env.find n with | some (.record _ _) => some n | _ => none)
  | _ => none

structure PUFlags where
  hasDeletes : Bool := false
  hasSets : Bool := false
deriving Repr, DecidableEq

/-- one call of `PartialUpdateFieldChecker.CheckField` -/
def checkField (excluded : Bytes → Bool) (name : Bytes) (d s p : Bool) (fl : PUFlags) : Except PUErr PUFlags :=
  if !(d || s || p) then .ok fl
  else if excluded name then .error (.excluded name)
  else if (d && s) || (d && p) || (s && p) then .error (.conflict name)
  else .ok { hasDeletes := fl.hasDeletes || d, hasSets := fl.hasSets || s }

def PU.isDeleted (pu : PU) (f : Field) : Bool := f.optOrDefault && pu.deletes.contains f.name
def PU.isSet (pu : PU) (f : Field) : Bool := (pu.sets.lookup f.name).isSome
def PU.isPatched (env : Env) (pu : PU) (f : Field) : Bool :=
  (recordOf env f.ty).isSome && (pu.patches.lookup f.name).isSome

def checkFieldsFrom (env : Env) (pu : PU) (excluded : Bytes → Bool) : List Field → PUFlags → Except PUErr PUFlags
  | [], fl => .ok fl
  | f :: rest, fl =>
    match checkField excluded f.name (pu.isDeleted f) (pu.isSet f) (pu.isPatched env f) fl with
    | .error e => .error e
    | .ok fl' => checkFieldsFrom env pu excluded rest fl'

/-- generated `CheckFields`: the included records' fields first (recursively), then the record's
own fields in declaration order; the first offending field is reported -/
def checkFields (env : Env) (n : TName) (pu : PU) (excluded : Bytes → Bool) : Except PUErr PUFlags :=
  checkFieldsFrom env pu excluded (allFields env (includeFuel env) n) {}

def sortFieldsByName (fs : List Field) : List Field := (sortByKey (fs.map (fun f => (f.name, f)))).map (·.2)

/-- the order in which `MarshalDeleteFields` visits the deletable fields / the patchable fields
are visited: each included record's (recursively) first, then the record's own in name order -/
def sortedChain (env : Env) : Nat → TName → List Field
  | 0, _ => []
  | fuel + 1, n =>
    match env.find n with
    | some (.record incs fs) => incs.flatMap (sortedChain env fuel) ++ sortFieldsByName fs
    | _ => []

inductive PEncErr where
  | pu (e : PUErr)
  | enc (e : EncErr)
deriving DecidableEq, Repr

def liftEnc {α : Type} : Except EncErr α → Except PEncErr α
  | .ok a => .ok a
  | .error e => .error (.enc e)

/-- the nested partial updates of `MarshalRestLiPatch`, in visiting order; a key the writer
excludes gets the no-op writer, whose `WriteMap` does not even run its callback -/
def marshalNested (rec : List Bytes → TName → PU → Except PEncErr Doc) (c : EncCfg) (scope : List Bytes)
    (pu : PU) : List Field → Except PEncErr (List (Bytes × Doc))
  | [] => .ok []
  | f :: rest =>
    match recordOf c.env f.ty, pu.patches.lookup f.name with
    | some m, some sub =>
      if c.excl.matchesB (scope ++ [f.name]) then marshalNested rec c scope pu rest
      else
        (match rec (scope ++ [f.name]) m sub with
        | .error e => .error e
        | .ok d =>
          match marshalNested rec c scope pu rest with
          | .error e => .error e
          | .ok more => .ok ((f.name, d) :: more))
    | _, _ => marshalNested rec c scope pu rest

/-- generated `MarshalRestLiPatch` on a (real, not no-op) writer whose scope is `scope` -/
def marshalPatch (c : EncCfg) : Nat → List Bytes → TName → PU → Except PEncErr Doc
  | 0, _, _, _ => .error (.enc .fuel)
  | fuel + 1, scope, n, pu =>
    match checkFields c.env n pu (fun k => c.excl.matchesB (scope ++ [k])) with
    | .error e => .error (.pu e)
    | .ok fl =>
      let chain := sortedChain c.env (includeFuel c.env) n
      let dels : List (Bytes × Doc) :=
        if fl.hasDeletes && !c.excl.matchesB (scope ++ [deleteKey]) then
          [(deleteKey, .arr ((chain.filter (fun f => pu.isDeleted f)).map (fun f => Doc.str f.name)))]
        else []
      let triples := (allFields c.env (includeFuel c.env) n).filterMap
        (fun f => (pu.sets.lookup f.name).map (fun v => (f.name, f.ty, v)))
      let sets : Except PEncErr (List (Bytes × Doc)) :=
        if fl.hasSets && !c.excl.matchesB (scope ++ [setKey]) then
          (match liftEnc (encodeTyped (fun k => c.excl.matchesB (scope ++ [setKey, k]))
              (fun k t v => if c.excl.matchesB (scope ++ [setKey, k]) then encodeNoop c.env t v
                else encode c fuel (scope ++ [setKey, k]) t v) triples) with
          | .error e => .error e
          | .ok kvs => .ok [(setKey, c.finish kvs)])
        else .ok []
      match sets with
      | .error e => .error e
      | .ok sets =>
        match marshalNested (marshalPatch c fuel) c scope pu chain with
        | .error e => .error e
        | .ok subs => .ok (c.finish (dels ++ sets ++ subs))

/-- generated `MarshalRestLi` of a partial update: `{"patch": …}` with the scope reset
(`keyWriter("patch").SetScope()`), so that exclusion paths are relative to the entity. The
envelope key itself is looked up in the exclusion spec at the top scope: if the entity has an
excluded field that is literally named `patch`, the no-op writer is returned and nothing — not
even `CheckFields` — runs. -/
def marshalPU (c : EncCfg) (fuel : Nat) (n : TName) (pu : PU) : Except PEncErr Doc :=
  if c.excl.matchesB [patchKey] then .ok (c.finish [])
  else
    match marshalPatch c fuel [] n pu with
    | .error e => .error e
    | .ok d => .ok (c.finish [(patchKey, d)])

/-! ### reading -/

inductive PDecErr where
  | syntax
  | excluded (path : Bytes)
  | missing (paths : List Bytes)
  | union
  | fixed
  | pu (e : PUErr)
deriving Repr

inductive PRes (α : Type) where
  | ok (v : α) (missing : List Bytes)
  | err (e : PDecErr)
  | panic
  | fuel
  | unmodelled
deriving Repr

def PRes.bind {α β : Type} (r : PRes α) (f : α → List Bytes → PRes β) : PRes β :=
  match r with
  | .ok v m => f v m
  | .err e => .err e
  | .panic => .panic
  | .fuel => .fuel
  | .unmodelled => .unmodelled

/-- a (non-top-level) value read by the ordinary generated unmarshalers -/
def ofTRes {α : Type} : TRes α → PRes α
  | .ok v m => .ok v m
  | .err .syntax => .err .syntax
  | .err (.excluded p) => .err (.excluded p)
  | .err (.missing ps _) => .err (.missing ps)
  | .err .union => .err .union
  | .err .fixed => .err .fixed
  | .panic => .panic
  | .unmodelled => .unmodelled

/-- the loop of `ReadMap`: null members are skipped, then the key is checked against the exclusion
spec, then the callback runs; missing-field reports accumulate -/
def readMapWith {σ : Type} (c : TCfg) (scope : List Seg) (cb : σ → Bytes → JVal → PRes σ) :
    σ → List Bytes → List (Bytes × JVal) → PRes (σ × List Bytes)
  | acc, seen, [] => .ok (acc, seen) []
  | acc, seen, (k0, v) :: rest =>
    match v with
    | .null => readMapWith c scope cb acc seen rest
    | v =>
      match c.sem.key k0 with
      | none => .err .syntax
      | some k =>
        match c.tracker.check (scope ++ [.key k]) with
        | .panic => .panic
        | .yes => .err (.excluded (scopeString (scope ++ [.key k])))
        | .no =>
          (cb acc k v).bind (fun acc' m1 =>
            (readMapWith c scope cb acc' (seen ++ [k]) rest).bind (fun r m2 => .ok r (m1 ++ m2)))

def PU.addDelete (pu : PU) (k : Bytes) : PU :=
  if pu.deletes.contains k then pu else .mk (pu.deletes ++ [k]) pu.sets pu.patches

def setPatch (acc : List (Bytes × PU)) (k : Bytes) (v : PU) : List (Bytes × PU) :=
  if acc.any (·.1 == k) then acc.map (fun e => if e.1 == k then (k, v) else e) else acc ++ [(k, v)]

/-- the `$delete` array: each item is read as a string and handed to `UnmarshalDeleteField` -/
def readDeletes (c : TCfg) (fields : List Field) : PU → List JVal → PRes PU
  | pu, [] => .ok pu []
  | pu, x :: xs =>
    match c.sem.str x with
    | .ok name _ =>
      (match findField fields name with
      | some f => if f.optOrDefault then readDeletes c fields (pu.addDelete name) xs
                  else .err (.pu (.cannotDelete name))
      | none => readDeletes c fields pu xs)        -- `NoSuchFieldErr` is swallowed
    | .err _ => .err .syntax
    | .panic => .panic
    | .unmodelled => .unmodelled

/-- generated `UnmarshalRestLiPatch` into an existing struct `pu`, reader scope `scope` -/
def unmarshalPatch (c : TCfg) : Nat → List Seg → TName → PU → JVal → PRes PU
  | 0, _, _, _, _ => .fuel
  | fuel + 1, scope, n, pu, t =>
    let fields := allFields c.env (includeFuel c.env) n
    let cb : PU → Bytes → JVal → PRes PU := fun pu k v =>
      if k == deleteKey then
        (match v with
        | .arr xs => readDeletes c fields pu xs
        | _ => .err .syntax)
      else if k == setKey then
        (match v with
        | .obj kvs =>
          (readMapWith c (scope ++ [.key setKey]) (fun (pu : PU) k v =>
            match findField fields k with
            | some f =>
              (ofTRes (treeRead c false (scope ++ [.key setKey, .key k]) f.ty v)).bind (fun x m =>
                .ok (.mk pu.deletes (setEntry pu.sets k x) pu.patches) m)
            | none => .ok pu []) pu [] kvs).bind (fun r m => .ok r.1 m)
        | _ => .err .syntax)
      else
        match findField fields k with
        | some f =>
          (match recordOf c.env f.ty with
          | some m =>
            (unmarshalPatch c fuel (scope ++ [.key k]) m PU.empty v).bind (fun sub ms =>
              .ok (.mk pu.deletes pu.sets (setPatch pu.patches k sub)) ms)
          | none => .ok pu [])
        | none => .ok pu []
    match t with
    | .obj kvs =>
      (readMapWith c scope cb pu [] kvs).bind (fun r m =>
        match checkFields c.env n r.1 (fun k => c.tracker.check (scope ++ [.key k]) == .yes) with
        | .error e => .err (.pu e)
        | .ok _ => .ok r.1 m)
    | _ => .err .syntax

/-- generated `UnmarshalRestLi` of a partial update at the top of a document: a record whose only
(required) field is `patch` -/
def unmarshalPU (c : TCfg) (fuel : Nat) (n : TName) (t : JVal) : PRes PU :=
  match t with
  | .obj kvs =>
    (readMapWith c [] (fun (pu : PU) k v =>
      if k == patchKey then unmarshalPatch c fuel [.key patchKey] n pu v else .ok pu []) PU.empty [] kvs).bind
      (fun r m =>
        let missing := m ++
          (if r.2.contains patchKey || c.tracker.check [.key patchKey] == .yes then [] else [patchKey])
        if missing.isEmpty then .ok r.1 [] else .err (.missing missing))
  | _ => .err .syntax

/-- `restlicodec.UnmarshalJSON(data, &pu)` with exclusion; `none` = not strictly valid JSON -/
def unmarshalPUJson (c : TCfg) (n : TName) (data : Bytes) : Option (PRes PU) :=
  if data.isEmpty || data == nullLit then some (.err .syntax)
  else match Json.parse data with
    | none => none
    | some t => some (unmarshalPU c (data.length + 8) n t)

end Restli.Codec
