import Restli.Lib.Basic
import Restli.Gen.Tables
/-! `restlicodec.PathSpec`: `NewPathSpec` (a trie of slash-separated directives) and
`genericMatches`, transliterated. -/
namespace Restli.Codec

inductive PathSpec where
  | node (children : List (Bytes × PathSpec))
deriving Repr, Inhabited

def PathSpec.children : PathSpec → List (Bytes × PathSpec)
  | .node cs => cs

def PathSpec.empty : PathSpec := .node []

def lookupSpec0 (cs : List (Bytes × PathSpec)) (s : Bytes) : Option PathSpec := List.lookup s cs

/-- "$set" and "$delete" -/
def setKey : Bytes := [36, 115, 101, 116]
def deleteKey : Bytes := [36, 100, 101, 108, 101, 116, 101]

/-- insert one directive (already split into segments), as `NewPathSpec` does after the repair:
walking down, an existing leaf means a shorter directive already covers the subtree (stop); the
last segment becomes a leaf, superseding longer directives beneath it. -/
def PathSpec.insert : List Bytes → PathSpec → PathSpec
  | [], p => p
  | [seg], .node cs =>
    match lookupSpec0 cs seg with
    | some (.node []) => .node cs
    | some _ => .node (cs.map (fun e => if e.1 == seg then (seg, PathSpec.node []) else e))
    | none => .node (cs ++ [(seg, .node [])])
  | seg :: s2 :: rest, .node cs =>
    match lookupSpec0 cs seg with
    | some (.node []) => .node cs
    | some sub => .node (cs.map (fun e => if e.1 == seg then (seg, PathSpec.insert (s2 :: rest) sub) else e))
    | none => .node (cs ++ [(seg, PathSpec.insert (s2 :: rest) (.node []))])

/-- `strings.Split(strings.TrimPrefix(s, "/"), "/")` -/
def splitSlash (s : Bytes) : List Bytes :=
  let s := match s with | 47 :: r => r | r => r
  let rec go : Bytes → Bytes → List Bytes
    | [], cur => [cur.reverse]
    | c :: cs, cur => if c == 47 then cur.reverse :: go cs [] else go cs (c :: cur)
  go s []

/-- `NewPathSpec(directives...)` -/
def newPathSpec (directives : List Bytes) : PathSpec :=
  directives.foldl (fun p d => PathSpec.insert (splitSlash d) p) .empty

/-- three-valued result: Go's `genericMatches` indexes `path[0]` and panics on an empty path -/
inductive MatchRes where
  | yes | no | panic
deriving DecidableEq, Repr

def MatchRes.or (a : MatchRes) (b : Unit → MatchRes) : MatchRes :=
  match a with
  | .yes => .yes
  | .panic => .panic
  | .no => b ()

def lookupSpec (cs : List (Bytes × PathSpec)) (s : Bytes) : Option PathSpec := List.lookup s cs

/-- `genericMatches(p, path, extract)` on the already-extracted path -/
def gmatches : PathSpec → List Bytes → MatchRes
  | .node cs, path =>
    if cs.isEmpty then .no
    else match path with
      | [] => .panic
      | [p0] =>
        if p0 == setKey || p0 == deleteKey then .no
        else
          let m (s : Bytes) : MatchRes :=
            match lookupSpec cs s with
            | none => .no
            | some (.node sub) => if sub.isEmpty then .yes else .no
          (m Gen.wildCard).or (fun _ => m p0)
      | p0 :: p1 :: rest =>
        if p0 == setKey || p0 == deleteKey then
          -- `path = path[1:]; p0 = extract(path[0])` (after the repair): `p1` is what is matched
          let m (s : Bytes) : MatchRes :=
            match lookupSpec cs s with
            | none => .no
            | some (.node sub) =>
              if sub.isEmpty then .yes
              else if rest.isEmpty then .no
              else gmatches (.node sub) rest
          (m Gen.wildCard).or (fun _ => m p1)
        else
          let m (s : Bytes) : MatchRes :=
            match lookupSpec cs s with
            | none => .no
            | some (.node sub) =>
              if sub.isEmpty then .yes
              else gmatches (.node sub) (p1 :: rest)
          (m Gen.wildCard).or (fun _ => m p0)

/-- `PathSpec.Matches(path)` as the writers use it: a panic cannot occur there because the scope
is never empty when it is consulted; the boolean view treats it as `false`. -/
def PathSpec.matchesB (p : PathSpec) (path : List Bytes) : Bool := gmatches p path == .yes

end Restli.Codec
