import Restli.Model.Ror2Reader
/-! Query parameters on the reading side: `ParseQueryParams` (`query_reader.go`) and the generated
`DecodeQueryParams` (`QueryParamsReader.ReadRecord` driving the record's `UnmarshalField`, every
parameter read by its own query-flavour ROR2 reader). Go enumerates the parameter map in no
particular order; the model reads the parameters in the order of first appearance. -/
namespace Restli.Codec

def splitOn (sep : UInt8) (s : Bytes) : List Bytes :=
  let rec go : Bytes → Bytes → List Bytes
    | [], cur => [cur.reverse]
    | c :: cs, cur => if c == sep then cur.reverse :: go cs [] else go cs (c :: cur)
  go s []

/-- `strings.Cut(s, sep)` for a one-byte separator -/
def cutAt (sep : UInt8) : Bytes → Bytes × Bytes
  | [] => ([], [])
  | c :: cs => if c == sep then ([], cs) else let (a, b) := cutAt sep cs; (c :: a, b)

/-- `m[key] = …`: a repeated parameter name keeps its place and takes the later value -/
def setRaw (m : List (Bytes × Bytes)) (k v : Bytes) : List (Bytes × Bytes) :=
  if m.any (·.1 == k) then m.map (fun e => if e.1 == k then (k, v) else e) else m ++ [(k, v)]

/-- `ParseQueryParams(query)`: `none` = a value does not pass `ValidateRor2Input` -/
def parseQueryParams (q : Bytes) : Option (List (Bytes × Bytes)) :=
  (splitOn 38 q).foldl (fun acc piece =>
    match acc with
    | none => none
    | some m =>
      if piece.isEmpty then some m
      else
        let (k, v) := cutAt 61 piece
        if !validateRor2 v then none else some (setRaw m k v)) (some [])

/-- the reader `ParseQueryParams` builds for one parameter -/
def qpCfg (env : Env) : RCfg :=
  { env := env, tracker := { excl := .empty, ignore := 0 }, plus := true, query := true }

/-- the loop of `QueryParamsReader.ReadRecord` with the generated callback: a known field is read
by its type from the parameter's own reader (scope = the parameter name), an unknown parameter is
skipped; either way the name counts as seen and the reader's missing fields are collected -/
def qpLoop (env : Env) (fields : List Field) :
    List (Bytes × Bytes) → List (Bytes × Value) → List Bytes → List Bytes →
      Res (List (Bytes × Value) × List Bytes × List Bytes)
  | [], acc, seen, miss => .ok (acc, seen, miss) { rest := [], start := false }
  | (k, raw) :: rest, acc, seen, miss =>
    match findField fields k with
    | some f =>
      (match readTy (qpCfg env) (3 * raw.length + 8) [.key k] f.ty { rest := raw, start := true } with
      | .ok v s => qpLoop env fields rest (setEntry acc k v) (seen ++ [k]) (miss ++ s.missing)
      | .err e => .err e | .panic => .panic | .fuel => .fuel | .unmodelled => .unmodelled)
    | none =>
      (match skip { rest := raw, start := true } with
      | .ok _ _ => qpLoop env fields rest acc (seen ++ [k]) miss
      | .err e => .err e | .panic => .panic | .fuel => .fuel | .unmodelled => .unmodelled)

/-- generated `DecodeQueryParams` of record `n` on parsed parameters: the loop, then the required
fields that no parameter named (no exclusion spec, empty scope), one error for everything missing,
otherwise the record with its own defaults populated -/
def decodeQueryParams (env : Env) (n : TName) (params : List (Bytes × Bytes)) : Res Value :=
  match env.find n with
  | some (.record _ own) =>
    let fields := allFields env (includeFuel env) n
    (match qpLoop env fields params [] [] [] with
    | .ok (acc, seen, miss) s =>
      (match finishRecord env { excl := .empty, ignore := 0 } [] true fields own acc seen miss with
      | .panic => .panic
      | .missingErr ps v => .err (.missing ps v)
      | .ok v _ => .ok v s)
    | .err e => .err e | .panic => .panic | .fuel => .fuel | .unmodelled => .unmodelled)
  | _ => .err .syntax

/-- `UnmarshalQueryParamsDecoder(query)` -/
def unmarshalQuery (env : Env) (n : TName) (q : Bytes) : Res Value :=
  match parseQueryParams q with
  | none => .err .syntax
  | some params => decodeQueryParams env n params

end Restli.Codec
