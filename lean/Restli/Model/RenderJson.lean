import Restli.Model.Encode
import Restli.Model.RenderRor2
import Restli.Lib.JsonText
/-! `compactJsonWriter` and `prettyJsonWriter`: how a document tree is written as JSON (after the
repairs: keys go through the string escaper; bytes are one code point per byte). -/
namespace Restli.Codec

/-- `WriteBytes`: one code point (U+0000–U+00FF) per byte, then the string escaper -/
def latin1 (b : Bytes) : Bytes := b.flatMap (fun c => Utf8.encodeRune c.toNat)

def jsonFloat (bits : Nat) : Bytes :=
  let d := Strconv.decodeBits Strconv.f64 bits
  if d.cls == 2 then Json.jsonString nanB
  else if d.cls == 1 then Json.jsonString (if d.neg then 45 :: infinityB else infinityB)
  else Strconv.formatFloat64 bits

def jsonLeaf : Doc → Option Bytes
  | .int v => some (Strconv.formatInt v)
  | .f64 b => some (jsonFloat b)
  | .bool b => some (if b then trueB else falseB)
  | .str b => some (Json.jsonString b)
  | .bytes b => some (Json.jsonString (latin1 b))
  | _ => none

mutual
def renderJson : Doc → Bytes
  | .obj kvs => 123 :: (renderJsonKvs kvs ++ [125])
  | .arr items => 91 :: (renderJsonItems items ++ [93])
  | .int v => Strconv.formatInt v
  | .f64 b => jsonFloat b
  | .bool b => if b then trueB else falseB
  | .str b => Json.jsonString b
  | .bytes b => Json.jsonString (latin1 b)
def renderJsonKvs : List (Bytes × Doc) → Bytes
  | [] => []
  | [(k, v)] => Json.jsonString k ++ 58 :: renderJson v
  | (k, v) :: rest => Json.jsonString k ++ 58 :: renderJson v ++ 44 :: renderJsonKvs rest
def renderJsonItems : List Doc → Bytes
  | [] => []
  | [v] => renderJson v
  | v :: rest => renderJson v ++ 44 :: renderJsonItems rest
end

def ind (n : Nat) : Bytes := List.replicate (2 * n) 32

mutual
/-- pretty writer at indent level `n` -/
def renderPretty (n : Nat) : Doc → Bytes
  -- `writeEmptyMap`/`writeEmptyArray` are the embedded compact writer's: no line breaks
  | .obj [] => [123, 125]
  | .obj kvs => [123, 10] ++ renderPrettyKvs n kvs ++ [10] ++ ind n ++ [125]
  | .arr [] => [91, 93]
  | .arr items => [91, 10] ++ ind (n + 1) ++ renderPrettyItems n items ++ [10] ++ ind n ++ [93]
  | .int v => Strconv.formatInt v
  | .f64 b => jsonFloat b
  | .bool b => if b then trueB else falseB
  | .str b => Json.jsonString b
  | .bytes b => Json.jsonString (latin1 b)
def renderPrettyKvs (n : Nat) : List (Bytes × Doc) → Bytes
  | [] => []
  | [(k, v)] => ind (n + 1) ++ Json.jsonString k ++ [58, 32] ++ renderPretty (n + 1) v
  | (k, v) :: rest =>
    ind (n + 1) ++ Json.jsonString k ++ [58, 32] ++ renderPretty (n + 1) v ++ [44, 10] ++ renderPrettyKvs n rest
def renderPrettyItems (n : Nat) : List Doc → Bytes
  | [] => []
  | [v] => renderPretty (n + 1) v
  | v :: rest => renderPretty (n + 1) v ++ [44, 10] ++ ind (n + 1) ++ renderPrettyItems n rest
end

end Restli.Codec
