import Restli.Model.Encode
import Restli.Lib.Escape
/-! `ror2Writer`: how a document tree is written in the ROR2 flavours (after the repairs:
float text and map keys go through the flavour's string escaper). -/
namespace Restli.Codec

def trueB : Bytes := [116, 114, 117, 101]
def falseB : Bytes := [102, 97, 108, 115, 101]
def infinityB : Bytes := [73, 110, 102, 105, 110, 105, 116, 121]
def nanB : Bytes := [78, 97, 78]

/-- `WriteString` -/
def ror2Str (esc : Bytes → Bytes) (b : Bytes) : Bytes :=
  if b.isEmpty then Gen.emptyMarker else esc b

/-- `WriteFloat64` -/
def ror2Float (esc : Bytes → Bytes) (bits : Nat) : Bytes :=
  let d := Strconv.decodeBits Strconv.f64 bits
  if d.cls == 2 then nanB
  else if d.cls == 1 then (if d.neg then 45 :: infinityB else infinityB)
  else esc (Strconv.formatFloat64 bits)

mutual
def renderRor2 (esc : Bytes → Bytes) : Doc → Bytes
  | .int v => Strconv.formatInt v
  | .f64 b => ror2Float esc b
  | .bool b => if b then trueB else falseB
  | .str b => ror2Str esc b
  | .bytes b => ror2Str esc b
  | .obj kvs => 40 :: (renderRor2Kvs esc kvs ++ [41])
  | .arr items => Gen.listPrefix ++ (renderRor2Items esc items ++ [41])
def renderRor2Kvs (esc : Bytes → Bytes) : List (Bytes × Doc) → Bytes
  | [] => []
  | [(k, v)] => ror2Str esc k ++ 58 :: renderRor2 esc v
  | (k, v) :: rest => ror2Str esc k ++ 58 :: renderRor2 esc v ++ 44 :: renderRor2Kvs esc rest
def renderRor2Items (esc : Bytes → Bytes) : List Doc → Bytes
  | [] => []
  | [v] => renderRor2 esc v
  | v :: rest => renderRor2 esc v ++ 44 :: renderRor2Items esc rest
end

/-- what `ror2PathWriter` writes for a value handed to it directly (an entity key in a resource
path): a string or bytes value that is exactly `.` or `..` would be a dot segment and is written
`%2E` / `%2E%2E` (`ror2PathWriter.WriteString`); everything else — and every string nested in a map
or array — as the underlying writer does -/
def renderRor2Path (esc : Bytes → Bytes) : Doc → Bytes
  | .str b => if b == [46] then [37, 50, 69] else if b == [46, 46] then [37, 50, 69, 37, 50, 69] else ror2Str esc b
  | .bytes b => if b == [46] then [37, 50, 69] else if b == [46, 46] then [37, 50, 69, 37, 50, 69] else ror2Str esc b
  | d => renderRor2 esc d

end Restli.Codec
