import Restli.Model.Schema
import Restli.Model.PathSpec
import Restli.Lib.Strconv
import Restli.Lib.Escape
/-! `restlicodec.ror2Reader` (v2/restlicodec/ror2_reader.go, with the tracker of
missing_fields.go) as a cursor machine, and the generated unmarshalers driving it, as one typed
interpreter over the deep-embedded schema.

The cursor `(data, pos)` is represented by the remaining suffix `rest = data[pos:]` plus the flag
`start` (Go's `pos == 0`). Every Go index `u.data[u.pos]` is written as a match on `rest` whose
`[]` branch is `.panic`: "never panics" is then a theorem about the guards in the code, not a
property of the representation. -/
namespace Restli.Codec

inductive DecErr where
  | syntax                    -- malformed document / primitive text
  | excluded (path : Bytes)   -- ExcludedFieldError
  /-- MissingRequiredFieldsError (paths, to be sorted for comparison) with the partially filled
  value that the caller still holds -/
  | missing (paths : List Bytes) (partialValue : Value)
  | union                     -- "must specify exactly/at most one union member"
  | fixed                     -- wrong size
deriving Repr

/-- one segment of the deserialization scope -/
inductive Seg where
  | key (k : Bytes)
  | idx (i : Nat)
deriving DecidableEq, Repr

def Seg.extract : Seg → Bytes
  | .key k => k
  | .idx _ => Gen.wildCard

/-- `scopeString`: segments joined by '.', array segments `[i]` attached without a dot -/
def scopeString : List Seg → Bytes
  | [] => []
  | s :: rest =>
    let one : Seg → Bytes
      | .key k => k
      | .idx i => [91] ++ Strconv.digitsOfNat i ++ [93]
    rest.foldl (fun acc p => match p with
      | .key k => acc ++ [46] ++ k
      | .idx i => acc ++ one (.idx i)) (one s)

structure Tracker where
  excl : PathSpec
  ignore : Nat

/-- `enterMapScope` on the scope that already includes the new key: `none` = no error,
`some true` = excluded, `some false` = `genericMatches` panicked (empty path slice) -/
def Tracker.check (t : Tracker) (scope : List Seg) : MatchRes :=
  if scope.length ≤ t.ignore then .no
  else gmatches t.excl ((scope.drop t.ignore).map Seg.extract)

structure RS where
  rest : Bytes
  start : Bool
  missing : List Bytes := []
deriving Repr

inductive Res (α : Type) where
  | ok (v : α) (s : RS)
  | err (e : DecErr)
  | panic
  | fuel
  | unmodelled       -- third-party input region the model declines (hex floats …)
deriving Repr

def RS.adv (s : RS) (rest' : Bytes) : RS :=
  { s with rest := rest', start := s.start && rest'.length == s.rest.length }

def isDelim (c : UInt8) : Bool := c == 44 || c == 41

def scanPrim : Bytes → Bytes × Bytes
  | [] => ([], [])
  | c :: cs => if isDelim c then ([], c :: cs) else
      let (t, r) := scanPrim cs
      (c :: t, r)

def hasBad (t : Bytes) : Bool := t.any (fun c => c == 40 || c == 44 || c == 41)

/-- `unsafeReadPrimitiveFieldValue`: the raw token -/
def readPrimTok (s : RS) : Res Bytes :=
  if s.start then
    if hasBad s.rest then .err .syntax else .ok s.rest (s.adv [])
  else
    let (t, r) := scanPrim s.rest
    if r.isEmpty then .err .syntax
    else if hasBad t then .err .syntax else .ok t (s.adv r)

structure RCfg where
  env : Env
  tracker : Tracker
  /-- `url.PathUnescape` (false) or `url.QueryUnescape` (true) -/
  plus : Bool
  /-- a per-parameter `ror2QueryReader`: `atInputStart()` is always false for `ReadRecord` -/
  query : Bool := false

def RCfg.decode (c : RCfg) (t : Bytes) : Option Bytes := Escape.unescape c.plus t

/-- result of interpreting one primitive token -/
inductive TokRes (α : Type) where
  | ok (v : α)
  | err
  | unmodelled
deriving Repr

/-- `ReadString` on the raw token: empty is an error, `''` is the empty string, anything else is
percent-decoded -/
def tokString (plus : Bool) (t : Bytes) : Option Bytes :=
  if t.isEmpty then none
  else if t == Gen.emptyMarker then some []
  else Escape.unescape plus t

/-- `ReadInt32` … `ReadBytes` on the raw token: percent-decode, then `strconv` -/
def tokPrim (plus : Bool) (p : Prim) (t : Bytes) : TokRes Value :=
  match p with
  | .str => match tokString plus t with | some b => .ok (.str b) | none => .err
  | .bytes => match tokString plus t with | some b => .ok (.bytes b) | none => .err
  | p =>
    match Escape.unescape plus t with
    | none => .err
    | some d =>
      match p with
      | .i32 => match Strconv.parseInt 32 d with | some v => .ok (.i32 v) | none => .err
      | .i64 => match Strconv.parseInt 64 d with | some v => .ok (.i64 v) | none => .err
      | .bool => match Strconv.parseBool d with | some v => .ok (.bool v) | none => .err
      | .f32 => match Strconv.parseFloat Strconv.f32 d with
        | .ok b => .ok (.f32 b) | .unmodelled => .unmodelled | _ => .err
      | .f64 => match Strconv.parseFloat Strconv.f64 d with
        | .ok b => .ok (.f64 b) | .unmodelled => .unmodelled | _ => .err
      | _ => .err

/-- `ReadString` -/
def readString (c : RCfg) (s : RS) : Res Bytes :=
  match readPrimTok s with
  | .ok t s' =>
    (match tokString c.plus t with
    | some b => .ok b s'
    | none => .err .syntax)
  | .err e => .err e | .panic => .panic | .fuel => .fuel | .unmodelled => .unmodelled

def readPrim (c : RCfg) (p : Prim) (s : RS) : Res Value :=
  match readPrimTok s with
  | .ok t s' =>
    (match tokPrim c.plus p t with
    | .ok v => .ok v s'
    | .err => .err .syntax
    | .unmodelled => .unmodelled)
  | .err e => .err e | .panic => .panic | .fuel => .fuel | .unmodelled => .unmodelled

def atMap (s : RS) : Bool := s.rest.head? == some 40
def atArray (s : RS) : Bool := Gen.listPrefix.isPrefixOf s.rest && s.rest.length > Gen.listPrefix.length

/-- the scan loop of `Skip` after its `pos == 0` shortcut: returns the suffix at which it stops -/
def skipScan (inMapOrArray : Bool) : Nat → Bytes → Option Bytes
  | _, [] => none
  | parens, c :: cs =>
    if c == 40 then
      if !inMapOrArray then none else skipScan inMapOrArray (parens + 1) cs
    else if c == 44 then
      if !inMapOrArray || parens == 0 then some (c :: cs) else skipScan inMapOrArray parens cs
    else if c == 41 then
      if !inMapOrArray || parens == 0 then some (c :: cs) else skipScan inMapOrArray (parens - 1) cs
    else skipScan inMapOrArray parens cs

/-- `Skip` -/
def skip (s : RS) : Res Unit :=
  if s.start then .ok () (s.adv [])
  else match skipScan (atArray s || atMap s) 0 s.rest with
    | some r => .ok () (s.adv r)
    | none => .err .syntax

/-- `readFieldName` (after the bounds-check repair): `)` | name followed by ':' -/
inductive FieldName where
  | close
  | name (n : Bytes) (after : Bytes)
  | bad
  | panic

def scanName : Bytes → Option (Bytes × Bytes)
  | [] => none
  | c :: cs =>
    if c == 58 then some ([], cs)
    else if c == 44 || c == 41 then none
    else match scanName cs with
      | some (n, r) => some (c :: n, r)
      | none => none

def readFieldName (rest : Bytes) : FieldName :=
  match rest with
  | [] => .bad                                  -- `u.pos >= len(u.data)`: unclosed
  | c :: cs =>
    if c == 41 then .close
    else match scanName (c :: cs) with
      | none => .bad
      | some (n, after) => if n.isEmpty then .bad else .name n after

/-- what the callback passed to `ReadMap` does with a field -/
inductive MapMode where
  | record (fields : List Field)
  | mapOf (t : Ty)
  | union (members : List (Bytes × Ty))

def setEntry (acc : List (Bytes × Value)) (k : Bytes) (v : Value) : List (Bytes × Value) :=
  if acc.any (·.1 == k) then acc.map (fun e => if e.1 == k then (k, v) else e) else acc ++ [(k, v)]

def findField (fs : List Field) (k : Bytes) : Option Field := fs.find? (·.name == k)

/-- defaults of a record's own fields (`populateLocalDefaultValues`): set where still unset -/
def populateDefaults (own : List Field) (fs : List (Bytes × Value)) : List (Bytes × Value) :=
  own.foldl (fun acc f => match f.dflt with
    | some d => if acc.any (·.1 == f.name) then acc else acc ++ [(f.name, d)]
    | none => acc) fs

/-- outcome of `readRecord`'s epilogue -/
inductive RecFin where
  | ok (v : Value) (missing : List Bytes)
  | missingErr (paths : List Bytes) (partialValue : Value)
  | panic

/-- the epilogue of `readRecord` + the generated `populateLocalDefaultValues`, shared by every
reader: record the required fields that were not seen (unless excluded), fail at the top level if
anything is missing, otherwise fill the record's own defaults. `fs` are the fields read, `seen`
the keys the callback was invoked with, `missing₀` what nested records recorded so far. -/
def remainingRequired (fields : List Field) (seen : List Bytes) : List Bytes :=
  ((fields.filter (fun f => !f.optOrDefault)).map (·.name)).filter (fun r => !seen.contains r)

/-- `recordMissingRequiredFields`: the missing list after this record (excluded required fields
are not reported) -/
def missingAfter (tracker : Tracker) (scope : List Seg) (fields : List Field) (seen : List Bytes)
    (missing₀ : List Bytes) : List Bytes :=
  let prefix_ := let sc := scopeString scope; if sc.isEmpty then sc else sc ++ [46]
  missing₀ ++ ((remainingRequired fields seen).filter
    (fun r => tracker.check (scope ++ [.key r]) != .yes)).map (prefix_ ++ ·)

def finishPanics (tracker : Tracker) (scope : List Seg) (fields : List Field) (seen : List Bytes) : Bool :=
  (remainingRequired fields seen).any (fun r => tracker.check (scope ++ [.key r]) == .panic)

def finishRecord (env : Env) (tracker : Tracker) (scope : List Seg) (top : Bool)
    (fields own : List Field) (fs : List (Bytes × Value)) (seen : List Bytes) (missing₀ : List Bytes) : RecFin :=
  if finishPanics tracker scope fields seen then .panic
  else if top && !(missingAfter tracker scope fields seen missing₀).isEmpty then
    .missingErr (missingAfter tracker scope fields seen missing₀) (.record (fillRequired env fields fs))
  else .ok (.record (populateDefaults own (fillRequired env fields fs)))
    (missingAfter tracker scope fields seen missing₀)

mutual
/-- the generated `UnmarshalRestLi` for a value of type `ty` -/
def readTy (c : RCfg) : Nat → List Seg → Ty → RS → Res Value
  | 0, _, _, _ => .fuel
  | fuel + 1, scope, ty, s =>
    match ty with
    | .prim p => readPrim c p s
    | .arr t => readArray c fuel scope t s
    | .map t =>
      (match readMap c fuel scope (.mapOf t) s with
      | .ok (es, _) s' => .ok (.map es) s'
      | .err e => .err e | .panic => .panic | .fuel => .fuel | .unmodelled => .unmodelled)
    | .ref n =>
      match c.env.find n with
      | some (.typeref p) => readPrim c p s
      | some (.enum syms) =>
        (match readString c s with
        | .ok b s' => .ok (.enum (match syms.idxOf? b with | some i => (i : Int) + 1 | none => 0)) s'
        | .err e => .err e | .panic => .panic | .fuel => .fuel | .unmodelled => .unmodelled)
      | some (.fixed size) =>
        (match readString c s with
        | .ok b s' => if b.length = size then .ok (.fixed b) s' else .err .fixed
        | .err e => .err e | .panic => .panic | .fuel => .fuel | .unmodelled => .unmodelled)
      | some (.record _ own) =>
        -- `readRecord`: remember whether we are at the start of the input, read the map,
        -- record the required fields that were not seen, check at the top level only
        let atStart := s.start && !c.query
        let fields := allFields c.env (includeFuel c.env) n
        (match readMap c fuel scope (.record fields) s with
        | .ok (fs, seen) s' =>
          (match finishRecord c.env c.tracker scope atStart fields own fs seen s'.missing with
          | .panic => .panic
          | .missingErr ps v => .err (.missing ps v)
          | .ok v m => .ok v { s' with missing := m })
        | .err e => .err e | .panic => .panic | .fuel => .fuel | .unmodelled => .unmodelled)
      | some (.union hasNull members) =>
        (match readMap c fuel scope (.union members) s with
        | .ok (ms, seen) s' =>
          if !hasNull && seen.isEmpty then .err .union else .ok (.union ms) s'
        | .err e => .err e | .panic => .panic | .fuel => .fuel | .unmodelled => .unmodelled)
      | none => .err .syntax
/-- `ReadMap`: returns the accumulated entries and the list of keys the callback was called with -/
def readMap (c : RCfg) : Nat → List Seg → MapMode → RS → Res (List (Bytes × Value) × List Bytes)
  | 0, _, _, _ => .fuel
  | fuel + 1, scope, mode, s =>
    if !atMap s then .err .syntax
    else readMapLoop c fuel scope mode [] [] (s.adv (s.rest.drop 1))
def readMapLoop (c : RCfg) : Nat → List Seg → MapMode → List (Bytes × Value) → List Bytes → RS →
    Res (List (Bytes × Value) × List Bytes)
  | 0, _, _, _, _, _ => .fuel
  | fuel + 1, scope, mode, acc, seen, s =>
    match readFieldName s.rest with
    | .bad => .err .syntax
    | .panic => .panic
    | .close => .ok (acc, seen) (s.adv (s.rest.drop 1))
    | .name raw after =>
      -- the field name is decoded like a string value ('' is the empty key)
      match (if raw == Gen.emptyMarker then some [] else c.decode raw) with
      | none => .err .syntax
      | some k =>
        let scope' := scope ++ [.key k]
        match c.tracker.check scope' with
        | .panic => .panic
        | .yes => .err (.excluded (scopeString scope'))
        | .no =>
          let s1 := s.adv after
          match readMapCallback c fuel scope' mode acc seen k s1 with
          | .ok acc' s2 =>
            -- `if u.pos >= len(u.data)` (repair), then `switch u.data[u.pos]`
            (match s2.rest with
            | [] => .err .syntax
            | d :: r2 =>
              if d == 44 then readMapLoop c fuel scope mode acc' (seen ++ [k]) (s2.adv r2)
              else if d == 41 then .ok (acc', seen ++ [k]) (s2.adv r2)
              else .err .syntax)
          | .err e => .err e | .panic => .panic | .fuel => .fuel | .unmodelled => .unmodelled
/-- the callback the generated code passes to `ReadMap`, per kind of map-shaped value -/
def readMapCallback (c : RCfg) : Nat → List Seg → MapMode → List (Bytes × Value) → List Bytes → Bytes → RS →
    Res (List (Bytes × Value))
  | 0, _, _, _, _, _, _ => .fuel
  | fuel + 1, scope', mode, acc, seen, k, s1 =>
    match mode with
    | .record fields =>
      (match findField fields k with
      | some f =>
        (match readTy c fuel scope' f.ty s1 with
        | .ok v s2 => .ok (setEntry acc k v) s2
        | .err e => .err e | .panic => .panic | .fuel => .fuel | .unmodelled => .unmodelled)
      | none =>
        (match skip s1 with
        | .ok _ s2 => .ok acc s2
        | .err e => .err e | .panic => .panic | .fuel => .fuel | .unmodelled => .unmodelled))
    | .mapOf t =>
      (match readTy c fuel scope' t s1 with
      | .ok v s2 => .ok (setEntry acc k v) s2
      | .err e => .err e | .panic => .panic | .fuel => .fuel | .unmodelled => .unmodelled)
    | .union members =>
      if !seen.isEmpty then .err .union
      else match members.lookup k with
        | some t =>
          (match readTy c fuel scope' t s1 with
          | .ok v s2 => .ok (setEntry acc k v) s2
          | .err e => .err e | .panic => .panic | .fuel => .fuel | .unmodelled => .unmodelled)
        | none => .err .union      -- `default:` of the generated switch: unknown member
/-- `ReadArray` with the generated element reader -/
def readArray (c : RCfg) : Nat → List Seg → Ty → RS → Res Value
  | 0, _, _, _ => .fuel
  | fuel + 1, scope, t, s =>
    if !atArray s then .err .syntax
    else
      let s1 := s.adv (s.rest.drop Gen.listPrefix.length)
      match s1.rest with
      | [] => .panic                      -- `u.data[u.pos]`; excluded by `atArray`
      | d :: r =>
        if d == 41 then .ok (.arr []) (s1.adv r)
        else match readArrayLoop c fuel scope t 0 s1 with
          | .ok vs s2 => .ok (.arr vs) s2
          | .err e => .err e | .panic => .panic | .fuel => .fuel | .unmodelled => .unmodelled
def readArrayLoop (c : RCfg) : Nat → List Seg → Ty → Nat → RS → Res (List Value)
  | 0, _, _, _, _ => .fuel
  | fuel + 1, scope, t, index, s =>
    match readTy c fuel (scope ++ [.idx index]) t s with
    | .ok v s2 =>
      (match s2.rest with
      | [] => .err .syntax
      | d :: r2 =>
        if d == 44 then
          (match readArrayLoop c fuel scope t (index + 1) (s2.adv r2) with
          | .ok vs s3 => .ok (v :: vs) s3
          | .err e => .err e | .panic => .panic | .fuel => .fuel | .unmodelled => .unmodelled)
        else if d == 41 then .ok [v] (s2.adv r2)
        else .err .syntax)
    | .err e => .err e | .panic => .panic | .fuel => .fuel | .unmodelled => .unmodelled
end

/-- `ValidateRor2Input`: only an excess of ')' is rejected -/
def validateRor2 (data : Bytes) : Bool :=
  let rec go : Nat → Bytes → Bool
    | _, [] => true
    | n, c :: cs =>
      if c == 40 then go (n + 1) cs
      else if c == 41 then (if n == 0 then false else go (n - 1) cs)
      else go n cs
  go 0 data

/-- `NewRor2ReaderWithExcludedFields(data, spec, ignore)` + generated `UnmarshalRestLi` -/
def unmarshalRor2 (c : RCfg) (ty : Ty) (data : Bytes) : Res Value :=
  if !validateRor2 data then .err .syntax
  else readTy c (3 * data.length + 8) [] ty { rest := data, start := true }

end Restli.Codec
