import Restli.Model.TreeReader
/-! ROR2 documents as trees of raw tokens, the reader-independent view of what the cursor reader
consumes: leaves are undecoded primitive tokens, object keys are raw (still escaped) key tokens.
`renderRaw` writes such a tree in ROR2 syntax; `ror2Sem` reads a leaf token the way
`ror2Reader`'s primitive readers do. The bridge theorem (Proofs/Ror2Bridge.lean) says that the
cursor reader on `renderRaw t` behaves exactly like the tree reader `treeRead` on `t`. -/
namespace Restli.Codec
open Json (JVal)

mutual
def renderRaw : JVal → Bytes
  | .str tok => tok
  | .obj kvs => 40 :: (renderRawKvs kvs ++ [41])
  | .arr xs => Gen.listPrefix ++ (renderRawItems xs ++ [41])
  | _ => []
def renderRawKvs : List (Bytes × JVal) → Bytes
  | [] => []
  | [(k, v)] => k ++ 58 :: renderRaw v
  | (k, v) :: rest => k ++ 58 :: renderRaw v ++ 44 :: renderRawKvs rest
def renderRawItems : List JVal → Bytes
  | [] => []
  | [v] => renderRaw v
  | v :: rest => renderRaw v ++ 44 :: renderRawItems rest
end

/-- a primitive token: non-empty, free of the bytes that end or nest a value -/
def tokClean (t : Bytes) : Prop := t ≠ [] ∧ ∀ c ∈ t, c ≠ 40 ∧ c ≠ 41 ∧ c ≠ 44
/-- a raw key token: additionally free of ':' -/
def keyClean (k : Bytes) : Prop := k ≠ [] ∧ ∀ c ∈ k, c ≠ 40 ∧ c ≠ 41 ∧ c ≠ 44 ∧ c ≠ 58

mutual
def RawWF : JVal → Prop
  | .str tok => tokClean tok
  | .obj kvs => RawWFKvs kvs
  | .arr xs => RawWFItems xs
  | _ => False
def RawWFKvs : List (Bytes × JVal) → Prop
  | [] => True
  | (k, v) :: rest => keyClean k ∧ RawWF v ∧ RawWFKvs rest
def RawWFItems : List JVal → Prop
  | [] => True
  | v :: rest => RawWF v ∧ RawWFItems rest
end

/-- decode the raw keys of a tree (what `ReadMap` does with each field name); `none` if some key
is not validly escaped -/
def decodeKey (plus : Bool) (raw : Bytes) : Option Bytes :=
  if raw == Gen.emptyMarker then some [] else Escape.unescape plus raw

def liftTok (r : TokRes Value) : TRes Value :=
  match r with
  | .ok v => .ok v []
  | .err => .err .syntax
  | .unmodelled => .unmodelled

/-- leaf semantics of the ROR2 readers -/
def ror2Sem (plus : Bool) : LeafSem :=
  { prim := fun p t => match t with
      | .str tok => liftTok (tokPrim plus p tok)
      | _ => .err .syntax
    str := fun t => match t with
      | .str tok => (match tokString plus tok with | some b => .ok b [] | none => .err .syntax)
      | _ => .err .syntax
    key := decodeKey plus }

/-- the tree-reader configuration that corresponds to a cursor-reader configuration -/
def tcOf (rc : RCfg) : TCfg := { env := rc.env, tracker := rc.tracker, sem := ror2Sem rc.plus }

/-- a tree-reader result as a cursor-reader result that stops at state `s` -/
def liftT {α : Type} (r : TRes α) (s : RS) : Res α :=
  match r with
  | .ok v ms => .ok v { s with missing := s.missing ++ ms }
  | .err e => .err e
  | .panic => .panic
  | .unmodelled => .unmodelled

mutual
/-- fuel that certainly suffices for the cursor reader on the rendering of a tree -/
def needT : JVal → Nat
  | .obj kvs => 4 + needKvs kvs
  | .arr xs => 4 + needItems xs
  | _ => 2
def needKvs : List (Bytes × JVal) → Nat
  | [] => 1
  | (_, v) :: rest => needT v + 3 + needKvs rest
def needItems : List JVal → Nat
  | [] => 1
  | v :: rest => needT v + 3 + needItems rest
end

end Restli.Codec
