import Restli.Model.RoutingTypes
import Restli.Gen.Tables
/-! Executable model of the server-side routing of `restli` (v2/restli/handler.go, http.go,
server.go, finders.go, actions.go; the root module's copies differ only in import paths and in
the absence of `RegisterPartialUpdateWithReturnEntity`, so one model serves both, instantiated with
the constants regenerated from either module).

What is transliterated, function by function:

* `MethodNameMapping`            → `nameMapping`
* `(*pathNode).receive`          → `walk` (segment walk), `resolve` (header / inference switch /
                                   entity-presence validation / simple-resource branch / finder,
                                   action, method lookup), `runPre` + `runHandler` (filters, closure)
* `(*rootNode).ServeHTTP`        → `serveSegs` (root lookup, post filters, response assembly) and
                                   `serveHTTP` (RawPath/Path choice, prefix test, `strings.Split`)
* `NewPrefixedServer`, `NewServer` → `newPrefixedServer`, `newServer`
* `(*pathNode).subNode`, `registerMethod`/`registerFinder`/`registerAction` → `register`
* `(*rootNode).Handler`, `clone` → `Server.handler`, `cloneNode`
* `(*rootNode).AddToMux`         → `addToMux`; `http.ServeMux` itself is third-party: `Mux.serve`
                                   is a small reference model of it (exact / subtree patterns and the
                                   clean-path redirect), validated by correspondence only.

Entity keys and query values are opaque to routing; the only thing it asks about them is
`restlicodec.ValidateRor2Input`, which enters as the parameter `V`. -/
namespace Restli.Routing

/-- the constants of one module generation, regenerated from source (`Gen.Routing` / `GenRoot.Routing`) -/
structure Consts where
  methodConsts : List String
  methodNames : List String
  mappingFirst : String
  mappingLast : String
  methodHeader : String
  protocolVersionHeader : String
  protocolVersion : String
  errorResponseHeader : String
  errorHeaderValue : String
  paramFinder : String
  paramAction : String
  paramIds : String
  errStatuses : List (String × Nat)
  srvNotFoundCalls : Nat
  srvErrorStatuses : List Nat
  srvInitialStatus : Nat
  srvNilStatus : Nat
  recoverStatus : Nat
  prefixIsLiteral : Bool
  prefixLiteral : String
  muxPatterns : List Bool
  respStatusSet : List (String × Nat)
deriving Repr

def constsV2 : Consts where
  methodConsts := Gen.Routing.methodConsts
  methodNames := Gen.Routing.methodNames
  mappingFirst := Gen.Routing.mappingFirst
  mappingLast := Gen.Routing.mappingLast
  methodHeader := Gen.Routing.methodHeader
  protocolVersionHeader := Gen.Routing.protocolVersionHeader
  protocolVersion := Gen.Routing.protocolVersion
  errorResponseHeader := Gen.Routing.errorResponseHeader
  errorHeaderValue := Gen.Routing.errorHeaderValue
  paramFinder := Gen.Routing.paramFinder
  paramAction := Gen.Routing.paramAction
  paramIds := Gen.Routing.paramIds
  errStatuses := Gen.Routing.errStatuses
  srvNotFoundCalls := Gen.Routing.srvNotFoundCalls
  srvErrorStatuses := Gen.Routing.srvErrorStatuses
  srvInitialStatus := Gen.Routing.srvInitialStatus
  srvNilStatus := Gen.Routing.srvNilStatus
  recoverStatus := Gen.Routing.recoverStatus
  prefixIsLiteral := Gen.Routing.prefixIsLiteral
  prefixLiteral := Gen.Routing.prefixLiteral
  muxPatterns := Gen.Routing.muxPatterns
  respStatusSet := Gen.Routing.respStatusSet

def constsRoot : Consts where
  methodConsts := GenRoot.Routing.methodConsts
  methodNames := GenRoot.Routing.methodNames
  mappingFirst := GenRoot.Routing.mappingFirst
  mappingLast := GenRoot.Routing.mappingLast
  methodHeader := GenRoot.Routing.methodHeader
  protocolVersionHeader := GenRoot.Routing.protocolVersionHeader
  protocolVersion := GenRoot.Routing.protocolVersion
  errorResponseHeader := GenRoot.Routing.errorResponseHeader
  errorHeaderValue := GenRoot.Routing.errorHeaderValue
  paramFinder := GenRoot.Routing.paramFinder
  paramAction := GenRoot.Routing.paramAction
  paramIds := GenRoot.Routing.paramIds
  errStatuses := GenRoot.Routing.errStatuses
  srvNotFoundCalls := GenRoot.Routing.srvNotFoundCalls
  srvErrorStatuses := GenRoot.Routing.srvErrorStatuses
  srvInitialStatus := GenRoot.Routing.srvInitialStatus
  srvNilStatus := GenRoot.Routing.srvNilStatus
  recoverStatus := GenRoot.Routing.recoverStatus
  prefixIsLiteral := GenRoot.Routing.prefixIsLiteral
  prefixLiteral := GenRoot.Routing.prefixLiteral
  muxPatterns := GenRoot.Routing.muxPatterns
  respStatusSet := GenRoot.Routing.respStatusSet

/-! ## Statuses, looked up in the regenerated table by call site (`<func>: <format>`).
A call site that has disappeared yields status 0, which no theorem tolerates. -/

def Consts.st (C : Consts) (site : String) : Nat := (C.errStatuses.lookup site).getD 0

def Consts.stInvalidSegment (C : Consts) := C.st "receive: Invalid path segment %q: %s"
def Consts.stUnknownSub (C : Consts) := C.st "receive: Unknown sub resource: %q"
def Consts.stInvalidQuery (C : Consts) := C.st "receive: Invalid query: %s"
def Consts.stNilResult (C : Consts) := C.st "receive: %q returned a nil result and no error"
def Consts.stNilActionResult (C : Consts) := C.st "registerAction: Action %q returned a nil result and no error"
def Consts.stPostNeedsHeader (C : Consts) := C.st "receive: Header %q is required for POST requests"
def Consts.stNoEntity (C : Consts) := C.st "receive: No entity provided for %q method"
def Consts.stEntityForbidden (C : Consts) := C.st "receive: Cannot provide an entity for %q"
def Consts.stEntityOnSimple (C : Consts) := C.st "receive: Cannot provide an entity for simple resources"
def Consts.stNoFinder (C : Consts) := C.st "receive: Finder %q not defined on %q"
def Consts.stNoAction (C : Consts) := C.st "receive: Action %q not defined on %q"
def Consts.stNoMethod (C : Consts) := C.st "receive: %q not defined on %q"
/-- `http.NotFound` -/
def Consts.stRootNotFound (_ : Consts) : Nat := 404
/-- the `http.Error(res, err.Error(), http.StatusInternalServerError)` branch of `ServeHTTP`
(second `http.Error` call; the first one is the tunnelling error) -/
def Consts.stPlainError (C : Consts) : Nat := C.srvErrorStatuses.getD 1 0

/-- the decode failures of the three closure kinds (`registerMethod` + `WithBody`/`WithNoBody`,
`registerFinder`, `registerAction`). The model does not say *which* decoding step failed, so it
needs them to be one status per kind: `decodeUniform` checks that on the regenerated table. -/
def Consts.methodDecodeSites : List String :=
  ["registerMethod: Invalid path for %q: %s", "registerMethod: Invalid query params for %q: %s",
   "registerMethodWithNoBody: %q does not take a body", "registerMethodWithBody: Invalid request body for %q: %s"]
def Consts.finderDecodeSites : List String :=
  ["registerFinder: Invalid path for finder %q: %s", "registerFinder: Invalid query params for finder %q: %s",
   "registerFinder: Finders do not accept request bodies"]
def Consts.actionDecodeSites : List String :=
  ["registerAction: Invalid path for action %q: %s", "registerAction: Invalid arguments for action %q: %s"]

def Consts.decodeUniform (C : Consts) : Bool :=
  (Consts.methodDecodeSites.all fun s => C.st s == C.st "registerMethod: Invalid path for %q: %s") &&
  (Consts.finderDecodeSites.all fun s => C.st s == C.st "registerFinder: Invalid path for finder %q: %s") &&
  (Consts.actionDecodeSites.all fun s => C.st s == C.st "registerAction: Invalid path for action %q: %s")

def Consts.stDecode (C : Consts) (m : Method) : Nat :=
  match m with
  | .finder => C.st "registerFinder: Invalid path for finder %q: %s"
  | .action => C.st "registerAction: Invalid path for action %q: %s"
  | _ => C.st "registerMethod: Invalid path for %q: %s"

/-- an ordinary error returned by the resource implementation -/
def Consts.stImplFailed (C : Consts) (m : Method) : Nat :=
  match m with
  | .finder => C.st "registerFinder: Finder %q failed: %s"
  | .action => C.st "registerAction: Action %q failed: %s"
  | _ => C.st "registerMethod: %q failed: %s"

/-- the status a successful call answers with: `ResponseStatus` starts at `srvInitialStatus` and the
`Register*` wrapper of some methods overwrites it before calling the implementation (the harness and
the generated code register create/delete/update/partial_update through the plain variants). -/
def Consts.stSuccess (C : Consts) (m : Method) : Nat :=
  let viaReg (f : String) := (C.respStatusSet.lookup f).getD C.srvInitialStatus
  match m with
  | .create => viaReg "RegisterCreate"
  | .delete => viaReg "RegisterDelete"
  | .update => viaReg "RegisterUpdate"
  | .partial_update => viaReg "RegisterPartialUpdate"
  | _ => C.srvInitialStatus

/-! ## `MethodNameMapping` -/

def Method.ofIndex (i : Nat) : Method := Method.all.getD i .unknown

/-- the entries the loop `for m := first; m <= last; m++ { mapping[m.String()] = m }` writes, in order -/
def mappingEntries (C : Consts) : List (String × Method) :=
  let lo := C.methodConsts.idxOf C.mappingFirst
  let hi := C.methodConsts.idxOf C.mappingLast
  ((List.range (hi + 1)).drop lo).map fun i => (C.methodNames.getD i "", Method.ofIndex i)

/-- `MethodNameMapping[s]`: the zero value `Method_Unknown` for a missing key -/
def nameMapping (C : Consts) (s : String) : Method := (lookupLast s (mappingEntries C)).getD .unknown

/-! ## `restlicodec.ValidateRor2Input`

The routing theorems hold for every validator `V`; this transliteration (parentheses never close
more than were opened) is what the driver instantiates `V` with, so that correspondence runs with
the real validator on both sides. -/

def validateFrom : Nat → List Char → Bool
  | _, [] => true
  | parens, c :: cs =>
    if c = '(' then validateFrom (parens + 1) cs
    else if c = ')' then (if parens = 0 then false else validateFrom (parens - 1) cs)
    else validateFrom parens cs

def validateRor2Input (s : String) : Bool := validateFrom 0 s.toList

/-! ## `receive`, first half: the segment walk -/

inductive Located where
  /-- the walk ended on node `n`; `rpath`/`keys` are `pathSegments`/`entitySegments` including `n`'s own -/
  | found (n : Node) (rpath : List Seg) (keys : List String) (hasEntity : Bool)
  /-- `newErrorResponsef(…, status, …)` -/
  | err (status : Nat)
deriving Repr

/-- `p.receive(ctx, pathSegments, entitySegments, remainingSegments)` up to the point where no
segments remain. `remaining[0]` is `p`'s own name (already used by the caller for the map lookup and
not looked at again). -/
def walk (C : Consts) (V : String → Bool) : Node → List Seg → List String → List String → Located
  | p, rpath, keys, [] => .found p (rpath ++ [p.seg]) keys false      -- `len(remainingSegments) >= 1` false
  | p, rpath, keys, _ :: rest =>
    if p.isCollection then
      match rest with
      | [] => .found p (rpath ++ [p.seg]) keys false
      | k :: rest2 =>
        if !V k then .err C.stInvalidSegment
        else match rest2 with
          | [] => .found p (rpath ++ [p.seg]) (keys ++ [k]) true
          | s :: _ =>
            match findSub s p.subs with
            | some sub => walk C V sub (rpath ++ [p.seg]) (keys ++ [k]) rest2
            | none => .err C.stUnknownSub
    else
      match rest with
      | [] => .found p (rpath ++ [p.seg]) keys false
      | s :: _ =>
        match findSub s p.subs with
        | some sub => walk C V sub (rpath ++ [p.seg]) keys rest
        | none => .err C.stUnknownSub

/-! ## `receive`, second half: which method -/

inductive Resolved where
  /-- a handler was found; `ownKey` = the closure's path decoder reads this node's own entity key
  (meaningful for actions only; for the other methods entity presence was validated) -/
  | ok (f : Facts) (ownKey : Bool)
  /-- `newErrorResponsef(…, status, …)` -/
  | errResp (status : Nat)
deriving Repr

/-- `case Method_get, Method_delete, Method_update, Method_partial_update: if !hasEntity` -/
def needsEntity : Method → Bool
  | .get | .delete | .update | .partial_update => true
  | _ => false

/-- `case Method_finder, Method_create, Method_batch_get, …, Method_get_all: if hasEntity` -/
def forbidsEntity : Method → Bool
  | .finder | .create | .batch_get | .batch_create | .batch_delete | .batch_update
  | .batch_partial_update | .get_all => true
  | _ => false

/-- the `switch httpMethod` executed when the header named no method (collection resources).
`none` = the POST branch's early return. -/
def inferMethod (verb : Verb) (hasEntity : Bool) (finder : String) (hasIds : Bool) (m0 : Method) : Option Method :=
  match verb with
  | .GET => some (if hasEntity then .get else if finder != "" then .finder else if hasIds then .batch_get else .get_all)
  | .POST => none
  | .DELETE => some (if hasIds then .batch_delete else .delete)
  | .PUT => some (if hasIds then .batch_update else .update)
  | .other => some m0

/-- the `else` branch: simple resources; the header's method survives only for other verbs -/
def simpleMethod (verb : Verb) (action : String) (m0 : Method) : Method :=
  match verb with
  | .GET => .get
  | .PUT => .update
  | .DELETE => .delete
  | .POST => if action != "" then .action else .partial_update
  | .other => m0

/-- `switch restLiMethod { case Method_get, …: if !hasEntity …; case Method_finder, …: if hasEntity … }` -/
def checkEntity (C : Consts) (m : Method) (hasEntity : Bool) : Except Nat Method :=
  if needsEntity m && !hasEntity then .error C.stNoEntity
  else if forbidsEntity m && hasEntity then .error C.stEntityForbidden
  else .ok m

/-- `h = p.finders[finder]` / `p.actions[action]` / `p.methods[restLiMethod]`, and the context facts -/
def lookupHandler (C : Consts) (n : Node) (rpath : List Seg) (keys : List String) (hasEntity : Bool)
    (m : Method) (finder action : String) : Resolved :=
  if m = .finder then
    if n.finders.contains finder then .ok ⟨m, rpath, keys, some finder, none⟩ hasEntity
    else .errResp C.stNoFinder
  else if m = .action then
    match n.actions.lookup action with
    | some onEntity => .ok ⟨m, rpath, keys, none, some action⟩ onEntity
    | none => .errResp C.stNoAction
  else if n.methods.contains m then .ok ⟨m, rpath, keys, none, none⟩ hasEntity
  else .errResp C.stNoMethod

/-- what `receive` does with the method it settled on (or the error it stopped with) -/
def finish (C : Consts) (n : Node) (rpath : List Seg) (keys : List String) (hasEntity : Bool)
    (finder action : String) : Except Nat Method → Resolved
  | .error s => .errResp s
  | .ok m => lookupHandler C n rpath keys hasEntity m finder action

/-- the body of `receive` after the query has been parsed: `m0` is `MethodNameMapping[header]`,
`finder`/`action` the values of the reserved parameters ("" when absent), `hasIds` whether `ids` is there -/
def resolveWith (C : Consts) (n : Node) (rpath : List Seg) (keys : List String) (hasEntity : Bool)
    (verb : Verb) (m0 : Method) (finder action : String) (hasIds : Bool) : Resolved :=
  finish C n rpath keys hasEntity finder action <|
    if n.isCollection then
      if m0 = .unknown then
        match inferMethod verb hasEntity finder hasIds m0 with
        | some m => checkEntity C m hasEntity
        | none => .error C.stPostNeedsHeader
      else checkEntity C m0 hasEntity
    else
      if hasEntity then .error C.stEntityOnSimple else .ok (simpleMethod verb action m0)

def resolve (C : Consts) (V : String → Bool) (n : Node) (rpath : List Seg) (keys : List String)
    (hasEntity : Bool) (req : Req) : Resolved :=
  let m0 := nameMapping C ((req.headers.lookup C.methodHeader).getD "")
  if !(req.query.all fun kv => V kv.2) then .errResp C.stInvalidQuery else   -- `ParseQueryParams` failed
  resolveWith C n rpath keys hasEntity req.verb m0
    ((lookupLast C.paramFinder req.query).getD "") ((lookupLast C.paramAction req.query).getD "")
    (lookupLast C.paramIds req.query).isSome

/-! ## `ServeHTTP` + `receive` as one routing decision -/

inductive RouteX where
  | routed (f : Facts) (ownKey : Bool) (hasEntity : Bool)
  /-- `http.NotFound` before anything else: no Rest.li header at all -/
  | rootNotFound
  | errResp (status : Nat)
deriving Repr

/-- root lookup (`r.subNodes[segments[0]]`), walk, resolve -/
def routeX (C : Consts) (V : String → Bool) (roots : List Node) (req : Req) : RouteX :=
  match req.path with
  | [] => .rootNotFound                                  -- `len(segments) == 0`
  | s :: _ =>
    match findSub s roots with
    | none => .rootNotFound
    | some sub =>
      match walk C V sub [] [] req.path with
      | .err st => .errResp st
      | .found n rpath keys hasEntity =>
        match resolve C V n rpath keys hasEntity req with
        | .ok f ownKey => .routed f ownKey hasEntity
        | .errResp st => .errResp st

/-- the decision, with the response detail erased -/
def route (C : Consts) (V : String → Bool) (roots : List Node) (req : Req) : Decision :=
  match routeX C V roots req with
  | .routed f _ _ => .routed f
  | .rootNotFound => .reject C.stRootNotFound
  | .errResp st => .reject st

/-! ## filters and the registered closure -/

inductive Fail where
  /-- an ordinary `error`: `http.Error(…, 500)` -/
  | plain
  /-- an `*ErrorResponse` with this status -/
  | errResp (status : Nat)
deriving DecidableEq, Repr

/-- `for _, f := range p.rootNode.filters { newCtx, err = f.PreRequest(ctx.Request) … }` -/
def runPre (f : Facts) : List FilterKind → Nat → List Nat → List Event × List Nat × Option Fail
  | [], _, seen => ([], seen, none)
  | k :: rest, i, seen =>
    let ev := Event.pre i f seen
    match k with
    | .failPre => ([ev], seen, some .plain)
    | .failPreER st => ([ev], seen, some (.errResp st))
    | .ctx =>
      let (es, s, r) := runPre f rest (i + 1) (seen ++ [i])
      (ev :: es, s, r)
    | _ =>
      let (es, s, r) := runPre f rest (i + 1) seen
      (ev :: es, s, r)

/-- `for i := len(r.filters) - 1; i >= 0; i-- { err = r.filters[i].PostRequest(…); if err != nil { break } }`,
given the filters in reverse order paired with their indices -/
def runPostRev (seen : List Nat) : List (Nat × FilterKind) → List Event × Option Fail
  | [] => ([], none)
  | (i, k) :: rest =>
    let ev := Event.post i seen
    if k = .failPost then ([ev], some .plain)
    else
      let (es, r) := runPostRev seen rest
      (ev :: es, r)

def indexed {α} : List α → Nat → List (Nat × α)
  | [], _ => []
  | a :: rest, i => (i, a) :: indexed rest (i + 1)

def runPost (filters : List FilterKind) (seen : List Nat) : List Event × Option Fail :=
  runPostRev seen (indexed filters 0).reverse

/-- `h(ctx, segmentReaders(entitySegments), body)`: the closure built by `registerMethod*`,
`registerFinder`, `registerAction`. The generated path decoder compares the number of entity keys it
is handed with the number its method level needs: an entity-level action without a key, or a
resource-level action with one, fails to decode like any other undecodable path (`receive` itself
does not check entity presence for actions, so the filters have run by then). -/
def runHandler (C : Consts) (f : Facts) (ownKey hasEntity : Bool) (req : Req) (seen : List Nat) :
    List Event × Option Fail × Nat :=
  if f.method = .action && ownKey != hasEntity then ([], some (.errResp (C.stDecode f.method)), 0)
  else if !req.decodes.contains f.method then ([], some (.errResp (C.stDecode f.method)), 0)
  else if !req.implOk then ([.invoke f seen], some (.errResp (C.stImplFailed f.method)), 0)
  else ([.invoke f seen], none, C.stSuccess f.method)

/-- the response `ServeHTTP` writes for each way a request can end -/
def respond (C : Consts) (events : List Event) : Option Fail → Nat → Outcome
  | none, st => ⟨st, [(C.protocolVersionHeader, C.protocolVersion)], events⟩
  | some .plain, _ => ⟨C.stPlainError, [(C.protocolVersionHeader, C.protocolVersion)], events⟩
  | some (.errResp st), _ =>
    ⟨st, [(C.protocolVersionHeader, C.protocolVersion), (C.errorResponseHeader, C.errorHeaderValue)], events⟩

/-- a handler value: what `Handler()` returns -/
structure Handler where
  pfx : String
  filters : List FilterKind
  roots : List Node
deriving Repr

/-- `ServeHTTP` from the split path on -/
def serveSegs (C : Consts) (V : String → Bool) (h : Handler) (req : Req) : Outcome :=
  match routeX C V h.roots req with
  | .rootNotFound => ⟨C.stRootNotFound, [], []⟩
  | .errResp st => respond C [] (some (.errResp st)) 0
  | .routed f ownKey hasEntity =>
    match runPre f h.filters 0 [] with
    | (pre, _, some e) => respond C pre (some e) 0
    | (pre, seen, none) =>
      match runHandler C f ownKey hasEntity req seen with
      | (evs, some e, _) => respond C (pre ++ evs) (some e) 0
      | (evs, none, st) =>
        match runPost h.filters seen with
        | (post, some e) => respond C (pre ++ evs ++ post) (some e) 0
        | (post, none) => respond C (pre ++ evs ++ post) none st

/-! ## the string level: `RawPath`/`Path`, prefix, `strings.Split` -/

/-- `strings.Split(s, "/")` on characters -/
def splitSlash : List Char → List (List Char)
  | [] => [[]]
  | c :: cs =>
    match splitSlash cs with
    | [] => [[]]                                   -- unreachable: the result is never empty
    | seg :: rest => if c = '/' then [] :: seg :: rest else (c :: seg) :: rest

def joinSlash : List String → List Char
  | [] => []
  | [s] => s.toList
  | s :: rest => s.toList ++ '/' :: joinSlash rest

/-- `strings.HasPrefix` / `strings.TrimPrefix` -/
def stripPrefix : List Char → List Char → Option (List Char)
  | [], s => some s
  | _ :: _, [] => none
  | p :: ps, c :: cs => if p = c then stripPrefix ps cs else none

/-- the request as `net/http` hands it over: `URL.EscapedPath()` (the path as sent: `RawPath` when it
is a valid encoding of `Path`, else `Path` re-escaped — `net/url`'s business), `URL.Path` (which
`http.ServeMux` matches on) and everything else -/
structure RawReq where
  escapedPath : String
  urlPath : String
  rest : Req
deriving Repr

def serveHTTP (C : Consts) (V : String → Bool) (h : Handler) (raw : RawReq) : Outcome :=
  match stripPrefix h.pfx.toList raw.escapedPath.toList with
  | none => ⟨C.stRootNotFound, [], []⟩
  | some p => serveSegs C V h { raw.rest with path := (splitSlash p).map String.ofList }

/-! ## servers: construction, registration, `Handler()`, `AddToMux` -/

/-- the registration-time object (`*rootNode` as returned by `NewServer`): the root `pathNode` has an
empty segment and its own (never consulted) handler maps; the root resources are its `subNodes` -/
structure Server where
  pfx : String
  filters : List FilterKind
  root : Node
deriving Repr

def Server.roots (s : Server) : List Node := s.root.subs

/-- the prefix computation at the top of `NewPrefixedServer` -/
def normalisePrefix (p : String) : String :=
  let p := if p = "" then "/" else p
  if p.toList.getLast? = some '/' then p else p ++ "/"

/-- `NewPrefixedServer`: what ends up in `rootNode.prefix` is read off the source by the extractor
(the normalised prefix; a literal there would mean the computed prefix is discarded). -/
def newPrefixedServer (C : Consts) (p : String) (filters : List FilterKind) : Server :=
  { pfx := if C.prefixIsLiteral then C.prefixLiteral else normalisePrefix p, filters := filters,
    root := .mk "" false [] [] [] [] }

def newServer (C : Consts) (filters : List FilterKind) : Server := newPrefixedServer C "/" filters

/-- what one `Register*` call adds -/
inductive Reg where
  | method (m : Method)
  | finder (name : String)
  | action (name : String) (onEntity : Bool)
deriving DecidableEq, Repr

/-- add the handler to a node: `log.Panicf("Cannot register … twice")` on a duplicate -/
def Node.add (n : Node) : Reg → Option Node
  | .method m => if n.methods.contains m then none
      else some (.mk n.name n.isCollection (n.methods ++ [m]) n.finders n.actions n.subs)
  | .finder f => if n.finders.contains f then none
      else some (.mk n.name n.isCollection n.methods (n.finders ++ [f]) n.actions n.subs)
  | .action a e => if (n.actions.lookup a).isSome then none
      else some (.mk n.name n.isCollection n.methods n.finders (n.actions ++ [(a, e)]) n.subs)

def Node.withSubs (n : Node) (subs : List Node) : Node :=
  .mk n.name n.isCollection n.methods n.finders n.actions subs

/-- replace the first node called `name` (the map entry) -/
def replaceSub (name : String) (n' : Node) : List Node → List Node
  | [] => []
  | n :: rest => if n.name == name then n' :: rest else n :: replaceSub name n' rest

/-- `p := s.subNode(segments)` followed by the duplicate test and the map insertion, starting at
node `n`. Returns the new node and whether the call panicked ("Inconsistent isCollection", or a
duplicate handler); nodes created on the way to the panic stay, as in the Go code. An empty segment
list addresses `n` itself (for the root: maps that `receive` never consults). -/
def registerAt (n : Node) : List Seg → Reg → Node × Bool
  | [], r =>
    match n.add r with
    | none => (n, true)
    | some n' => (n', false)
  | (name, isColl) :: rest, r =>
    let (subs1, child) : List Node × Node := match findSub name n.subs with
      | some c => (n.subs, c)
      | none => let c := Node.mk name isColl [] [] [] []; (n.subs ++ [c], c)
    if child.isCollection != isColl then (n.withSubs subs1, true)
    else
      let (child', panicked) := registerAt child rest r
      (n.withSubs (replaceSub name child' subs1), panicked)

def Server.register (s : Server) (segs : List Seg) (r : Reg) : Server × Bool :=
  let (root, panicked) := registerAt s.root segs r
  ({ s with root := root }, panicked)

/-- `(*pathNode).clone`: fresh maps, recursively -/
def cloneNode : Node → Node
  | .mk n c ms fs as subs => .mk n c ms fs as (cloneNodes subs)
where cloneNodes : List Node → List Node
  | [] => []
  | n :: rest => cloneNode n :: cloneNodes rest

/-- `Handler()`: a snapshot. In this value model a snapshot cannot be affected by later
registrations by construction; that the Go `clone` really shares no map with the server is checked
by the harness on the real objects (registering after `Handler()` and replaying). -/
def Server.handler (s : Server) : Handler :=
  { pfx := s.pfx, filters := s.filters, roots := cloneNode.cloneNodes s.roots }

/-! ### `AddToMux` and a reference model of `http.ServeMux` -/

structure Mux where
  /-- (pattern path segments, subtree?) — a pattern ending in `/` matches every path below it -/
  patterns : List (List String × Bool)
  handler : Handler
deriving Repr

/-- `h := r.Handler(); for rootResource := range r.subNodes { mux.Handle(r.prefix+rootResource, h);
mux.Handle(r.prefix+rootResource+"/", h) }` — one pattern per `mux.Handle` call in the source
(`muxPatterns`, regenerated). Only prefixes made of `/`-separated segments are representable. -/
def addToMux (C : Consts) (s : Server) : Mux :=
  let pre := ((splitSlash s.pfx.toList).map String.ofList).filter (· != "")
  { patterns := s.roots.flatMap fun n => C.muxPatterns.map fun subtree => (pre ++ [n.name], subtree),
    handler := s.handler }

inductive MuxResult where
  /-- `ServeMux` redirects to the cleaned path (or from `/tree` to `/tree/`) -/
  | redirect
  /-- `ServeMux`'s own "404 page not found" -/
  | notFound
  | handled (o : Outcome)
  /-- path shapes this reference model does not cover (`.` / `..` segments) -/
  | unmodelled
deriving Repr

def isPrefixSegs : List String → List String → Bool
  | [], _ => true
  | _ :: _, [] => false
  | a :: as, b :: bs => a == b && isPrefixSegs as bs

/-- `ServeMux.ServeHTTP` for a request whose URL path is `/` followed by `segs` joined with `/`:
redirect when cleaning the path would change it (an empty segment anywhere but at the end); an
exact pattern matches the whole path; a subtree pattern `/tree/` matches every path below it, and
`/tree` itself is redirected to `/tree/` unless it has its own exact pattern. -/
def Mux.serve (C : Consts) (V : String → Bool) (m : Mux) (raw : RawReq) : MuxResult :=
  match stripPrefix ['/'] raw.urlPath.toList with
  | none => .unmodelled
  | some p =>
    let segs := (splitSlash p).map String.ofList
    if segs.any (fun s => s == "." || s == "..") then .unmodelled
    else if segs.dropLast.any (· == "") then .redirect
    else if m.patterns.any (fun (pat, subtree) => !subtree && pat == segs) then .handled (serveHTTP C V m.handler raw)
    else if m.patterns.any (fun (pat, subtree) => subtree && pat == segs) then .redirect
    else if m.patterns.any (fun (pat, subtree) => subtree && isPrefixSegs pat segs) then .handled (serveHTTP C V m.handler raw)
    else .notFound

end Restli.Routing
