import Restli.Lib.Basic
/-! Data shared by the routing model (`Model/Routing.lean`) and the routing specification
(`Spec/Routing.lean`): resource trees, requests, decisions, observable outcomes. Data only —
no behaviour lives here, so that Model and Spec share no definitions that decide anything. -/
namespace Restli.Routing

/-- `restli.Method` (v2/restli/http.go), in iota order. -/
inductive Method where
  | unknown | get | create | delete | update | partial_update
  | batch_get | batch_create | batch_delete | batch_update | batch_partial_update
  | get_all | action | finder
deriving DecidableEq, Repr, Inhabited

/-- all methods, in the order of the Go `iota` block -/
def Method.all : List Method :=
  [.unknown, .get, .create, .delete, .update, .partial_update, .batch_get, .batch_create,
   .batch_delete, .batch_update, .batch_partial_update, .get_all, .action, .finder]

/-- `http.Request.Method`; everything that is not one of the four verbs the protocol uses is `other` -/
inductive Verb where
  | GET | POST | PUT | DELETE | other
deriving DecidableEq, Repr, Inhabited

/-- `ResourcePathSegment{name, isCollection}` -/
abbrev Seg := String × Bool

/-- `pathNode`. `subs` stands for the `subNodes` map: the key of every entry is the entry's own
name (that is how `subNode`/`newSubNode` populate it), so a list of nodes looked up by name, first
match, represents it. `methods`/`finders`/`actions` are the key sets of the three handler maps; an
action carries the one fact about its registered closure that matters to the outcome: whether its
resource-path decoder reads this node's own entity key (entity-level action) or not (resource-level). -/
inductive Node where
  | mk (name : String) (isCollection : Bool) (methods : List Method) (finders : List String)
       (actions : List (String × Bool)) (subs : List Node)
deriving Repr, Inhabited

namespace Node
def name : Node → String | .mk n _ _ _ _ _ => n
def isCollection : Node → Bool | .mk _ c _ _ _ _ => c
def methods : Node → List Method | .mk _ _ m _ _ _ => m
def finders : Node → List String | .mk _ _ _ f _ _ => f
def actions : Node → List (String × Bool) | .mk _ _ _ _ a _ => a
def subs : Node → List Node | .mk _ _ _ _ _ s => s
def seg (n : Node) : Seg := (n.name, n.isCollection)
end Node

/-- what a `Filter` does (the harness' three kinds plus where a failing one fails) -/
inductive FilterKind where
  /-- `PreRequest` returns `(nil, nil)`, `PostRequest` returns nil -/
  | pass
  /-- `PreRequest` returns a context derived from the request's, with one more value -/
  | ctx
  /-- `PreRequest` returns an ordinary error -/
  | failPre
  /-- `PreRequest` returns an `*ErrorResponse` with this status -/
  | failPreER (status : Nat)
  /-- `PostRequest` returns an ordinary error -/
  | failPost
deriving DecidableEq, Repr, Inhabited

/-- A request as `ServeHTTP` sees it after `DecodeTunnelledQuery` (tunnelling is modelled elsewhere),
with the path already split at `/` (the split itself is `splitSlash`, see `serveHTTP`).
`query` is the raw query as `key=value` pairs in order. The last two fields are facts about code the
routing layer calls but does not look into: for which method kinds the registered closure's decoding
of keys, parameters and body succeeds on this request, and whether the resource implementation
succeeds. -/
structure Req where
  verb : Verb
  headers : List (String × String)
  path : List String
  query : List (String × String)
  decodes : List Method
  implOk : Bool
deriving Repr, Inhabited

/-- the facts a routed request carries in its context: `GetMethodFromContext`,
`GetResourcePathSegmentsFromContext`, `GetEntitySegmentsFromContext`, finder / action name -/
structure Facts where
  method : Method
  rpath : List Seg
  keys : List String
  finder : Option String
  action : Option String
deriving DecidableEq, Repr, Inhabited

/-- the routing decision: one method of one resource, or a refusal with a status -/
inductive Decision where
  | routed (f : Facts)
  | reject (status : Nat)
deriving DecidableEq, Repr, Inhabited

/-- what the harness observes besides the response: filter calls and the resource call, in order.
`seen` = indices of the context-adding filters whose value is visible at that point. -/
inductive Event where
  | pre (i : Nat) (f : Facts) (seen : List Nat)
  | invoke (f : Facts) (seen : List Nat)
  | post (i : Nat) (seen : List Nat)
deriving DecidableEq, Repr, Inhabited

structure Outcome where
  status : Nat
  /-- response headers set by the handler itself, in the order it sets them -/
  headers : List (String × String)
  events : List Event
deriving DecidableEq, Repr, Inhabited

/-- last binding of a key: a Go map filled by successive assignments -/
def lookupLast {α} (k : String) : List (String × α) → Option α
  | [] => none
  | (k', v) :: rest =>
    match lookupLast k rest with
    | some w => some w
    | none => if k' == k then some v else none

/-- `subNodes[name]` -/
def findSub (name : String) : List Node → Option Node
  | [] => none
  | n :: rest => if n.name == name then some n else findSub name rest

end Restli.Routing
