import Restli.Lib.Basic
/-! Deep embedding of Pegasus schemas and of the values of the generated Go types.

A Go struct generated for a record is modelled by the list of its *set* fields keyed by wire
name (embedded include structs flattened); optional and defaulted fields are pointers in Go and
are simply absent here when nil. Floats are IEEE bit patterns. -/
namespace Restli.Codec

abbrev TName := String

inductive Prim where
  | i32 | i64 | f32 | f64 | bool | str | bytes
deriving DecidableEq, Repr, Inhabited

inductive Ty where
  | prim (p : Prim)
  | ref (n : TName)
  | arr (t : Ty)
  | map (t : Ty)
deriving DecidableEq, Repr, Inhabited

inductive Value where
  | i32 (v : Int)
  | i64 (v : Int)
  | f32 (bits : Nat)
  | f64 (bits : Nat)
  | bool (b : Bool)
  | str (b : Bytes)
  | bytes (b : Bytes)
  /-- the Go `int32` constant: 0 is the `$UNKNOWN` value, 1…n the declared symbols -/
  | enum (c : Int)
  | fixed (b : Bytes)
  /-- set fields by wire name, includes flattened -/
  | record (fs : List (Bytes × Value))
  /-- set members by alias (a valid union has exactly one, a nullable one at most one) -/
  | union (ms : List (Bytes × Value))
  | arr (vs : List Value)
  | map (es : List (Bytes × Value))
deriving Repr, Inhabited

structure Field where
  name : Bytes
  ty : Ty
  optional : Bool
  dflt : Option Value
deriving Repr, Inhabited

def Field.optOrDefault (f : Field) : Bool := f.optional || f.dflt.isSome

inductive Decl where
  | enum (symbols : List Bytes)
  | fixed (size : Nat)
  | typeref (p : Prim)
  | record (includes : List TName) (fields : List Field)
  | union (hasNull : Bool) (members : List (Bytes × Ty))
deriving Repr, Inhabited

abbrev Env := List (TName × Decl)

def Env.find (env : Env) (n : TName) : Option Decl := List.lookup n env

/-- byte-wise lexicographic `<` on strings (Go's string comparison) -/
def bytesLt : Bytes → Bytes → Bool
  | [], [] => false
  | [], _ :: _ => true
  | _ :: _, [] => false
  | a :: as, b :: bs => if a < b then true else if b < a then false else bytesLt as bs

/-- insertion of an entry into a key-sorted association list -/
def insertByKey {α : Type} (e : Bytes × α) : List (Bytes × α) → List (Bytes × α)
  | [] => [e]
  | x :: xs => if bytesLt e.1 x.1 then e :: x :: xs else x :: insertByKey e xs

/-- sort entries by key, ascending byte order (what `sort.Slice(entries, key <)` yields when the
keys are distinct) -/
def sortByKey {α : Type} : List (Bytes × α) → List (Bytes × α)
  | [] => []
  | x :: xs => insertByKey x (sortByKey xs)

/-- all fields of a record in the order the generated `MarshalFields`/`UnmarshalField` visit
them: included records first (recursively), then the record's own fields. Fuel bounds include
depth (well-formed schemas have acyclic includes). -/
def allFields (env : Env) : Nat → TName → List Field
  | 0, _ => []
  | fuel + 1, n =>
    match env.find n with
    | some (.record incs fs) => incs.flatMap (allFields env fuel) ++ fs
    | _ => []

/-- the generated `XRequiredFields`: includes' required fields, then own non-optional,
non-defaulted fields -/
def requiredFields (env : Env) (fuel : Nat) (n : TName) : List Bytes :=
  ((allFields env fuel n).filter (fun f => !f.optOrDefault)).map (·.name)

def includeFuel (env : Env) : Nat := env.length + 1

def zeroPrim : Prim → Value
  | .i32 => .i32 0 | .i64 => .i64 0 | .f32 => .f32 0 | .f64 => .f64 0
  | .bool => .bool false | .str => .str [] | .bytes => .bytes []

/-- the Go zero value of the generated type: what a required field holds when the document did
not carry it (optional and defaulted fields are nil pointers, i.e. absent) -/
def zeroValue (env : Env) : Nat → Ty → Value
  | 0, _ => .record []
  | _ + 1, .prim p => zeroPrim p
  | _ + 1, .arr _ => .arr []
  | _ + 1, .map _ => .map []
  | fuel + 1, .ref n =>
    match env.find n with
    | some (.typeref p) => zeroPrim p
    | some (.enum _) => .enum 0
    | some (.fixed size) => .fixed (List.replicate size 0)
    | some (.union _ _) => .union []
    | some (.record _ _) =>
      .record (((allFields env (includeFuel env) n).filter (fun f => !f.optOrDefault)).map
        (fun f => (f.name, zeroValue env fuel f.ty)))
    | none => .record []

/-- required fields the document did not carry hold their zero value in the Go struct -/
def fillRequired (env : Env) (fields : List Field) (fs : List (Bytes × Value)) : List (Bytes × Value) :=
  fields.foldl (fun acc f =>
    if f.optOrDefault || acc.any (·.1 == f.name) then acc
    else acc ++ [(f.name, zeroValue env (includeFuel env) f.ty)]) fs

end Restli.Codec
