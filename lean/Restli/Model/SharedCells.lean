import Restli.Gen.Tables
/-!
# Shared cells and interleavings (property C17)

What this file is: a small-step *interleaving* semantics. A system is one shared state plus a list
of threads; a thread is the list of atomic actions it still has to perform plus its request-local
state; a schedule is the list of thread indices that are given the next step.

What it is not: a model of the Go memory model. A data race is a property of the compiled program;
nothing here exhibits one. Here every access to a shared cell is one atomic step (sequential
consistency), and the question asked is which cells the steps of a request *write*.

The first half is generic in the shared state `S` and the request-local state `L`. The second half
instantiates it with the cells go-restli requests touch and with the programs (sequences of accesses)
of the current code:

* the routing tree (`rootNode`/`pathNode` maps) — read by `ServeHTTP`/`receive`, frozen by `Handler()`;
* the custom-typeref adapter registry (`sync.Map`) — `Load` / `LoadOrStore`, each one atomic step;
* error objects owned by resource code (a resource may return the *same* `*ErrorResponse` to many
  requests) — read by the error branch of `ServeHTTP`, and, in the current code, **written** there
  (`errRes.Message = …`, DESIGN §7 F8);
* the D2 snapshot cell (`c.uris.Load/Store` of an immutable `*serviceUris`; copy-on-write);
* the state of the package-level `*rand.Rand` in `d2/serviceUris.go` — until /repo commit 08c3f03
  `rng.Float64()` ran without a lock (DESIGN §7 F16): a read step followed by a write step
  (`aRngRead`, `aRngWrite`); since then every draw goes through `randomFloat64()` under `rngLock`: one
  atomic read-modify-write (`aRngDrawLocked`). Which of the two describes /repo now is regenerated
  from the source (`Consts.rngUnlocked`, `resolveNow`).
-/
namespace Restli.SharedCells

universe u v

/-! ## Generic machine -/

/-- one atomic step: may read and write the shared state and the thread's own local state -/
structure Action (S : Type u) (L : Type v) where
  step : S → L → S × L

/-- a request in flight: the atomic actions still to do, and its request-local state -/
structure Thread (S : Type u) (L : Type v) where
  todo : List (Action S L)
  loc : L

structure Sys (S : Type u) (L : Type v) where
  shared : S
  threads : List (Thread S L)

/-- the scheduler's choices: which thread performs the next atomic step -/
abbrev Schedule := List Nat

variable {S : Type u} {L : Type v}

/-- a thread performs its next action against shared state `s` (a finished thread stutters) -/
def stepThread (s : S) (t : Thread S L) : S × Thread S L :=
  match t.todo with
  | [] => (s, t)
  | a :: rest => ((a.step s t.loc).1, ⟨rest, (a.step s t.loc).2⟩)

/-- thread `i` is scheduled (an index naming no thread stutters) -/
def stepSys (sys : Sys S L) (i : Nat) : Sys S L :=
  match sys.threads[i]? with
  | none => sys
  | some t => ⟨(stepThread sys.shared t).1, sys.threads.set i (stepThread sys.shared t).2⟩

def run (sys : Sys S L) : Schedule → Sys S L
  | [] => sys
  | i :: rest => run (stepSys sys i) rest

/-- `k` steps of one thread with nobody else running -/
def advance (s : S) (t : Thread S L) : Nat → S × Thread S L
  | 0 => (s, t)
  | k + 1 => advance (stepThread s t).1 (stepThread s t).2 k

/-- the serial outcome: the thread runs to completion alone -/
def runAlone (s : S) (t : Thread S L) : S × Thread S L := advance s t t.todo.length

/-- `a` does not change the shared state `s0`, whatever local state satisfying `I` it is run from,
and keeps `I` (an invariant of request-local states; `fun _ => True` when none is needed) -/
def ReadOnlyAt (s0 : S) (I : L → Prop) (a : Action S L) : Prop :=
  ∀ l, I l → (a.step s0 l).1 = s0 ∧ I (a.step s0 l).2

/-- a schedule is complete for a system when every thread got at least as many steps as it has actions -/
def Complete (sys : Sys S L) (sched : Schedule) : Prop :=
  ∀ i t, sys.threads[i]? = some t → t.todo.length ≤ sched.count i

/-! ## The cells -/

/-- constants of one module generation (regenerated from `handler.go` by tools/extract) -/
structure Consts where
  initialStatus : Nat   -- `ResponseStatus: http.StatusOK` in the fresh RequestContext
  nilStatus : Nat       -- status used when `errRes.Status == nil`
  recoverStatus : Nat   -- status of the error object built by `recover()` in `receive`
  undefinedStatus : Nat -- `newErrorResponsef(nil, …, "%q not defined on %q")` in `receive`
  failedStatus : Nat    -- `newErrorResponsef(err, …, "%q failed: %s")` in `registerMethod`
  /-- `ServeHTTP`'s error branch assigns to a field of the object the resource returned
  (`errRes.Message = …`; DESIGN §7 F8). Regenerated from the AST of `handler.go`. -/
  storesThroughPointer : Bool
  /-- some call on the package-level `rng` of package d2 is not preceded by a `Lock()` in its
  function (DESIGN §7 F16). Regenerated from the AST of `d2/*.go`. -/
  rngUnlocked : Bool
deriving Repr, DecidableEq

def constsV2 : Consts :=
  ⟨Gen.Routing.srvInitialStatus, Gen.Routing.srvNilStatus, Gen.Routing.recoverStatus,
   (Gen.Routing.errStatuses.lookup "receive: %q not defined on %q").getD 0,
   (Gen.Routing.errStatuses.lookup "registerMethod: %q failed: %s").getD 0,
   Gen.C17.errBranchStoresThroughPointer, Gen.C17.rngDrawUnlocked⟩
def constsRoot : Consts :=
  ⟨GenRoot.Routing.srvInitialStatus, GenRoot.Routing.srvNilStatus, GenRoot.Routing.recoverStatus,
   (GenRoot.Routing.errStatuses.lookup "receive: %q not defined on %q").getD 0,
   (GenRoot.Routing.errStatuses.lookup "registerMethod: %q failed: %s").getD 0,
   GenRoot.C17.errBranchStoresThroughPointer, GenRoot.C17.rngDrawUnlocked⟩

/-- an error message: `http.StatusText(code)` filled in by the library, or a text chosen by someone else -/
inductive Msg
  | statusText (code : Nat)
  | custom (id : Nat)
deriving Repr, DecidableEq

/-- a `*common.ErrorResponse`: `Status *int32`, `Message *string` (other fields are never touched) -/
structure ErrObj where
  status : Option Nat
  message : Option Msg
deriving Repr, DecidableEq

structure Shared where
  /-- routing tree: root resource ↦ method ids registered under it -/
  tree : List (Nat × List Nat)
  /-- adapter registry: type id ↦ adapter id -/
  registry : List (Nat × Nat)
  /-- error objects owned by resource code, addressed by index (their "pointer") -/
  errs : List ErrObj
  /-- the current D2 snapshot: (host id, weight) pairs; replaced wholesale, never edited -/
  snapshot : List (Nat × Nat)
  /-- position of the package-level random source in its stream -/
  rng : Nat
deriving Repr, DecidableEq

/-- where the `*ErrorResponse` a request ended up with lives -/
inductive ErrRef
  | fresh (e : ErrObj)     -- allocated for this request (library-built, or `&ErrorResponse{…}` in the resource)
  | shared (idx : Nat)     -- a pointer to an object that outlives the request
deriving Repr, DecidableEq

/-- what the resource implementation does when invoked -/
inductive Impl
  | ok (body : Nat)
  | errFresh (e : ErrObj)
  | errShared (idx : Nat)
  | errPlain               -- a non-ErrorResponse error: wrapped into a fresh 500 by `registerMethod`
  | panic                  -- recovered in `receive`: fresh object with `recoverStatus`
deriving Repr, DecidableEq

structure Req where
  resource : Nat
  method : Nat
  key : Nat
  param : Nat
  impl : Impl
deriving Repr, DecidableEq

inductive Body
  | none
  | entity (body key param : Nat)                 -- echoes the request's own key and parameter
  | error (status : Option Nat) (message : Option Msg)
deriving Repr, DecidableEq

/-- request-local state (everything a goroutine holds in its own frames / its own RequestContext) -/
structure Local where
  -- ServeHTTP
  notFound : Bool := false         -- `http.NotFound` (no Rest.li envelope)
  err : Option ErrRef := none
  status : Nat := 0                -- ctx.ResponseStatus
  errHeader : Bool := false
  needFill : Bool := false         -- the test `errRes.Message == nil` came out true
  fillText : Option Nat := none    -- `*errRes.Status` as read for `http.StatusText`
  crashed : Bool := false          -- panic outside `recover` (nil `Status` dereferenced): connection dropped
  wrote : Bool := false            -- this request stored into an `ErrorResponse`
  mStatus : Option Nat := none     -- what MarshalRestLi read
  body : Body := .none
  -- adapter registry
  adapter : Option (Option Nat) := none
  regPanic : Bool := false         -- "Cannot register custom typeref … more than once"
  -- D2
  snap : Option (List (Nat × Nat)) := none
  draw : Option Nat := none
  host : Option (Option Nat) := none
deriving Repr, DecidableEq

abbrev Act := Action Shared Local

def getErr (s : Shared) (l : Local) : Option ErrObj :=
  match l.err with
  | none => none
  | some (.fresh e) => some e
  | some (.shared i) => s.errs[i]?

/-- store `m` into the `Message` field of the error object `l.err` points to -/
def setErrMessage (s : Shared) (l : Local) (m : Msg) : Shared × Local :=
  match l.err with
  | none => (s, l)
  | some (.fresh e) => (s, { l with err := some (.fresh { e with message := some m }), wrote := true })
  | some (.shared i) =>
    match s.errs[i]? with
    | none => (s, l)
    | some e => ({ s with errs := s.errs.set i { e with message := some m } }, { l with wrote := true })

/-- an action that is skipped once the request has been answered or has crashed -/
def guarded (f : Shared → Local → Shared × Local) : Act :=
  ⟨fun s l => if l.notFound || l.crashed then (s, l) else f s l⟩

/-! ### `ServeHTTP` as a sequence of accesses -/

/-- `r.subNodes[segments[0]]`, `receive`'s walk and the method-table lookup: reads of the tree -/
def aRoute (C : Consts) (q : Req) : Act :=
  guarded fun s l =>
    match s.tree.lookup q.resource with
    | none => (s, { l with notFound := true })
    | some ms =>
      if ms.contains q.method then (s, { l with status := C.initialStatus })
      else (s, { l with status := C.initialStatus,
                        err := some (.fresh ⟨some C.undefinedStatus, some (.custom 0)⟩) })   -- "%q not defined on %q"

/-- the resource implementation runs (request-local; a panic is recovered into a fresh object) -/
def aInvoke (C : Consts) (q : Req) : Act :=
  guarded fun s l =>
    if l.err.isSome then (s, l) else
    match q.impl with
    | .ok b => (s, { l with body := .entity b q.key q.param })
    | .errFresh e => (s, { l with err := some (.fresh e) })
    | .errShared i => (s, { l with err := some (.shared i) })
    | .errPlain => (s, { l with err := some (.fresh ⟨some C.failedStatus, some (.custom 1)⟩) })
    | .panic => (s, { l with err := some (.fresh ⟨some C.recoverStatus, some (.custom 2)⟩) })

/-- REPAIRED code only: `cp := *errRes` — the error object is copied before defaults are filled in -/
def aCopyErr : Act :=
  guarded fun s l =>
    match getErr s l with
    | none => (s, l)
    | some e => (s, { l with err := some (.fresh e) })

/-- `if errRes.Status != nil { ctx.ResponseStatus = int(*errRes.Status) } else { … = 500 }` -/
def aReadStatus (C : Consts) : Act :=
  guarded fun s l =>
    match getErr s l with
    | none => (s, l)
    | some e => (s, { l with errHeader := true, status := e.status.getD C.nilStatus })

/-- `if errRes.Message == nil` -/
def aTestMessage : Act :=
  guarded fun s l =>
    match getErr s l with
    | none => (s, l)
    | some e => (s, { l with needFill := e.message.isNone })

/-- `http.StatusText(int(*errRes.Status))`: a second read of `Status`; the current code dereferences
it without a nil test (`fixed = false`), the repaired code falls back to `nilStatus` -/
def aFillRead (C : Consts) (fixed : Bool) : Act :=
  guarded fun s l =>
    if !l.needFill then (s, l) else
    match getErr s l with
    | none => (s, l)
    | some e =>
      match e.status with
      | some c => (s, { l with fillText := some c })
      | none => if fixed then (s, { l with fillText := some C.nilStatus }) else (s, { l with crashed := true })

/-- the same store when it can only reach a request-local object (`cp := *errRes; cp.Message = …`) -/
def setLocalErrMessage (l : Local) (m : Msg) : Local :=
  match l.err with
  | some (.fresh e) => { l with err := some (.fresh { e with message := some m }), wrote := true }
  | _ => l

/-- `errRes.Message = StringPointer(…)`: in the current code (`fixed = false`) a store into whatever
object `errRes` points to; in the repaired code a store into the local copy -/
def aFillWrite (fixed : Bool) : Act :=
  guarded fun s l =>
    match l.needFill, l.fillText with
    | true, some c => if fixed then (s, setLocalErrMessage l (.statusText c)) else setErrMessage s l (.statusText c)
    | _, _ => (s, l)

/-- `responseBody.MarshalRestLi(w)`, first field -/
def aMarshalStatus : Act :=
  guarded fun s l =>
    match getErr s l with
    | none => (s, l)
    | some e => (s, { l with mStatus := e.status })

/-- `responseBody.MarshalRestLi(w)`, second field; the body is complete -/
def aMarshalMessage : Act :=
  guarded fun s l =>
    match getErr s l with
    | none => (s, l)
    | some e => (s, { l with body := .error l.mStatus e.message })

/-- the accesses of one `ServeHTTP` call. `fixed = false`: the error branch stores the default
message through the pointer it was given (the code before /repo commit bf479cd); `fixed = true`: it
completes a copy. Which of the two describes /repo NOW is `Consts.storesThroughPointer`, see `serveNow`. -/
def serveProg (C : Consts) (fixed : Bool) (q : Req) : List Act :=
  [aRoute C q, aInvoke C q] ++ (if fixed then [aCopyErr] else []) ++
  [aReadStatus C, aTestMessage, aFillRead C fixed, aFillWrite fixed, aMarshalStatus, aMarshalMessage]

/-- `ServeHTTP` as it is in /repo now (switch regenerated from the source on every check) -/
def serveNow (C : Consts) (q : Req) : List Act := serveProg C (!C.storesThroughPointer) q

/-! ### adapter registry (`sync.Map`) -/

/-- `customTyperefAdapters.Load(t)` -/
def aLoadAdapter (ty : Nat) : Act :=
  ⟨fun s l => (s, { l with adapter := some (s.registry.lookup ty) })⟩

/-- `customTyperefAdapters.LoadOrStore(t, a)` followed by the panic when it was loaded -/
def aLoadOrStore (ty ad : Nat) : Act :=
  ⟨fun s l =>
    match s.registry.lookup ty with
    | some _ => (s, { l with regPanic := true })
    | none => ({ s with registry := (ty, ad) :: s.registry }, l)⟩

def loadProg (ty : Nat) : List Act := [aLoadAdapter ty]
def registerProg (ty ad : Nat) : List Act := [aLoadOrStore ty ad]

/-! ### D2 resolver -/

/-- `filterAndChooseHost`'s second pass for a draw `r < total` -/
def pick : List (Nat × Nat) → Nat → Option Nat
  | [], _ => none
  | (h, w) :: rest, r => if r < w then some h else pick rest (r - w)

def totalWeight (hs : List (Nat × Nat)) : Nat := (hs.map (·.2)).foldl (· + ·) 0

/-- the host chosen from snapshot `hs` with the `d`-th value of the random stream -/
def choose (hs : List (Nat × Nat)) (d : Nat) : Option Nat :=
  if totalWeight hs = 0 then none else pick hs (d % totalWeight hs)

/-- `c.uris.Load(cluster)` (inside `getServiceUris`) -/
def aLoadSnapshot : Act := ⟨fun s l => (s, { l with snap := some s.snapshot })⟩

/-- `rng.Float64()`, first half: read the generator state -/
def aRngRead : Act := ⟨fun s l => (s, { l with draw := some s.rng })⟩

/-- `rng.Float64()`, second half: write back the state computed from what was read -/
def aRngWrite : Act :=
  ⟨fun s l => match l.draw with
    | none => (s, l)
    | some d => ({ s with rng := d + 1 }, l)⟩

/-- REPAIRED code only: the draw under a mutex — one atomic read-modify-write -/
def aRngDrawLocked : Act := ⟨fun s l => ({ s with rng := s.rng + 1 }, { l with draw := some s.rng })⟩

def aChoose : Act :=
  ⟨fun s l => match l.snap, l.draw with
    | some hs, some d => (s, { l with host := some (choose hs d) })
    | _, _ => (s, l)⟩

/-- `ResolveHostnameAndContextForQuery`. `locked = false`: `rng.Float64()` on the shared generator
without a lock; `locked = true`: the draw is one atomic step. -/
def resolveProg (locked : Bool) : List Act :=
  [aLoadSnapshot] ++ (if locked then [aRngDrawLocked] else [aRngRead, aRngWrite]) ++ [aChoose]

/-- the resolver as it is in /repo now (switch regenerated from the source on every check) -/
def resolveNow (C : Consts) : List Act := resolveProg (!C.rngUnlocked)

/-- `waitForUriUpdates`: `uri := c.uris.Load(…); c.uris.Store(…, handleUriUpdate(uri, e))` where
`handleUriUpdate` builds a *new* snapshot from a copy (here: `f` applied to the loaded value) -/
def updateProg (f : List (Nat × Nat) → List (Nat × Nat)) : List Act :=
  [aLoadSnapshot,
   ⟨fun s l => match l.snap with
      | none => (s, l)
      | some hs => ({ s with snapshot := f hs }, l)⟩]

/-- a system of fresh threads, one per program -/
def mkSys (s : Shared) (progs : List (List Act)) : Sys Shared Local :=
  ⟨s, progs.map fun p => ⟨p, {}⟩⟩

/-- what a client of request `i` sees, once its thread is finished -/
def outcomes (sys : Sys Shared Local) : List Local := sys.threads.map (·.loc)

/-- the schedule that runs the threads one after the other in the given order -/
def serialSchedule (sys : Sys S L) (order : List Nat) : Schedule :=
  order.flatMap fun i => List.replicate ((sys.threads[i]?.map (·.todo.length)).getD 0) i

end Restli.SharedCells
