import Restli.Model.Ror2Reader
import Restli.Lib.JsonText
/-! The generated unmarshalers over a *parsed* document: the reader of `json_reader.go` walking a
strictly valid JSON value, with the same tracker and the same generated callbacks as the ROR2
cursor reader. Documents the strict parser rejects are outside this model (declined by the
driver); what the real lexer does with them is judged by the direct oracle only. -/
namespace Restli.Codec
open Json (JVal)

inductive TRes (α : Type) where
  | ok (v : α) (missing : List Bytes)
  | err (e : DecErr)
  | panic
  | unmodelled
deriving Repr

/-- JSON primitives (`lexer.Int32`, `lexer.String`, `JsonNumber().Float64()`, …) -/
def jsonPrim (p : Prim) (t : JVal) : TRes Value :=
  match p, t with
  | .i32, .num txt => (match Strconv.parseInt 32 txt with | some v => .ok (.i32 v) [] | none => .err .syntax)
  | .i64, .num txt => (match Strconv.parseInt 64 txt with | some v => .ok (.i64 v) [] | none => .err .syntax)
  | .bool, .bool b => .ok (.bool b) []
  | .str, .str b => .ok (.str b) []
  | .bytes, .str b =>
    -- one byte per code point, none above U+00FF
    let rs := Utf8.runesOf b
    if rs.all (· ≤ 0xFF) then .ok (.bytes (rs.map UInt8.ofNat)) [] else .err .syntax
  | .f64, .num txt => (match Strconv.parseFloat Strconv.f64 txt with
    | .ok b => .ok (.f64 b) [] | .unmodelled => .unmodelled | _ => .err .syntax)
  | .f64, .str txt => (match Strconv.parseFloat Strconv.f64 txt with
    | .ok b => .ok (.f64 b) [] | .unmodelled => .unmodelled | _ => .err .syntax)
  | .f32, .num txt => (match Strconv.parseFloat Strconv.f64 txt with
    | .ok b => .ok (.f32 (Strconv.convert Strconv.f64 Strconv.f32 b)) [] | .unmodelled => .unmodelled | _ => .err .syntax)
  | .f32, .str txt => (match Strconv.parseFloat Strconv.f64 txt with
    | .ok b => .ok (.f32 (Strconv.convert Strconv.f64 Strconv.f32 b)) [] | .unmodelled => .unmodelled | _ => .err .syntax)
  | _, _ => .err .syntax

/-- how a leaf of the parsed document is read as a primitive: the only place where the wire
formats differ once a document has been parsed (JSON: typed tokens; ROR2: raw tokens that are
percent-decoded and parsed according to the expected type) -/
structure LeafSem where
  prim : Prim → JVal → TRes Value
  /-- `ReadString` (enum symbols) -/
  str : JVal → TRes Bytes
  /-- how a member name of the parsed document becomes the field name handed to the callback
  (JSON: the parser already unescaped it; ROR2: the raw key token is percent-decoded) -/
  key : Bytes → Option Bytes

def jsonSem : LeafSem :=
  { prim := jsonPrim
    str := fun t => match t with | .str b => .ok b [] | _ => .err .syntax
    key := some }

structure TCfg where
  env : Env
  tracker : Tracker
  sem : LeafSem := jsonSem

def bindT {α β : Type} (r : TRes α) (f : α → List Bytes → TRes β) : TRes β :=
  match r with
  | .ok v m => f v m
  | .err e => .err e
  | .panic => .panic
  | .unmodelled => .unmodelled

/-- the callback the generated code passes to `ReadMap`, given how to read the member's value
as a value of a type -/
def treeCallbackWith (rd : Ty → TRes Value) (mode : MapMode) (acc : List (Bytes × Value))
    (seen : List Bytes) (k : Bytes) : TRes (List (Bytes × Value)) :=
  match mode with
  | .record fields =>
    (match findField fields k with
    | some f => bindT (rd f.ty) (fun x m => .ok (setEntry acc k x) m)
    | none => .ok acc [])
  | .mapOf ty => bindT (rd ty) (fun x m => .ok (setEntry acc k x) m)
  | .union members =>
    if !seen.isEmpty then .err .union
    else match members.lookup k with
      | some ty => bindT (rd ty) (fun x m => .ok (setEntry acc k x) m)
      | none => .err .union      -- `default:` of the generated switch: unknown member

mutual
/-- generated `UnmarshalRestLi` on a parsed JSON value; `top` = the reader is at the input start -/
def treeRead (c : TCfg) (top : Bool) (scope : List Seg) : Ty → JVal → TRes Value
  | .prim p, t => c.sem.prim p t
  | .arr ty, t =>
    (match t with
    | .null => .ok (.arr []) []
    | .arr xs => bindT (treeReadItems c scope ty 0 xs) (fun vs m => .ok (.arr vs) m)
    | _ => .err .syntax)
  | .map ty, t =>
    (match t with
    | .null => .ok (.map []) []
    | .obj kvs => bindT (treeReadEntries c scope (.mapOf ty) [] [] kvs) (fun r m => .ok (.map r.1) m)
    | _ => .err .syntax)
  | .ref n, t =>
    match c.env.find n with
    | some (.typeref p) => c.sem.prim p t
    | some (.enum syms) =>
      bindT (c.sem.str t) (fun b m =>
        .ok (.enum (match syms.idxOf? b with | some i => (i : Int) + 1 | none => 0)) m)
    | some (.fixed size) =>
      bindT (c.sem.prim .bytes t) (fun v m => match v with
        | .bytes b => if b.length = size then .ok (.fixed b) m else .err .fixed
        | _ => .err .syntax)
    | some (.record _ own) =>
      let fields := allFields c.env (includeFuel c.env) n
      let body : TRes (List (Bytes × Value) × List Bytes) :=
        match t with
        | .null => .ok ([], []) []
        | .obj kvs => treeReadEntries c scope (.record fields) [] [] kvs
        | _ => .err .syntax
      bindT body (fun r m =>
        match finishRecord c.env c.tracker scope top fields own r.1 r.2 m with
        | .panic => .panic
        | .missingErr ps v => .err (.missing ps v)
        | .ok v m' => .ok v m')
    | some (.union hasNull members) =>
      let body : TRes (List (Bytes × Value) × List Bytes) :=
        match t with
        | .null => .ok ([], []) []
        | .obj kvs => treeReadEntries c scope (.union members) [] [] kvs
        | _ => .err .syntax
      bindT body (fun r m =>
        if !hasNull && r.2.isEmpty then .err .union else .ok (.union r.1) m)
    | none => .err .syntax
/-- the loop of `ReadMap` over the members of an object; null-valued members are skipped before
the callback (and before the exclusion check) -/
def treeReadEntries (c : TCfg) (scope : List Seg) (mode : MapMode) (acc : List (Bytes × Value))
    (seen : List Bytes) : List (Bytes × JVal) → TRes (List (Bytes × Value) × List Bytes)
  | [] => .ok (acc, seen) []
  | (k0, v) :: rest =>
    match v with
    | .null => treeReadEntries c scope mode acc seen rest
    | v =>
      match c.sem.key k0 with
      | none => .err .syntax
      | some k =>
      let scope' := scope ++ [.key k]
      match c.tracker.check scope' with
      | .panic => .panic
      | .yes => .err (.excluded (scopeString scope'))
      | .no =>
        bindT (treeCallbackWith (fun ty => treeRead c false scope' ty v) mode acc seen k) (fun acc' m1 =>
          bindT (treeReadEntries c scope mode acc' (seen ++ [k]) rest) (fun res m2 => .ok res (m1 ++ m2)))
def treeReadItems (c : TCfg) (scope : List Seg) (ty : Ty) (index : Nat) : List JVal → TRes (List Value)
  | [] => .ok [] []
  | x :: xs =>
    bindT (treeRead c false (scope ++ [.idx index]) ty x) (fun v m1 =>
      bindT (treeReadItems c scope ty (index + 1) xs) (fun vs m2 => .ok (v :: vs) (m1 ++ m2)))
end

def nullLit : Bytes := [110, 117, 108, 108]

/-- `NewJsonReaderWithExcludedFields(data, spec, ignore)` + generated `UnmarshalRestLi`.
`none` = the document is not strictly valid JSON: outside the model. -/
def unmarshalJson (c : TCfg) (ty : Ty) (data : Bytes) : Option (TRes Value) :=
  if data.isEmpty || data == nullLit then some (.err .syntax)      -- NullJSON
  else match Json.parse data with
    | none => none
    | some t => some (treeRead c true [] ty t)

end Restli.Codec
