import Restli.Lib.Multipart
import Restli.Gen.Tables
/-! # Model.Tunnel — query tunnelling (`restli/tunnelling.go`, the tunnelling block of `newRequest`
in `restli/http.go`, the de-tunnelling call site in `rootNode.ServeHTTP` of `restli/handler.go`)

`tunnelling.go` is byte-identical in the v2 and root modules; `http.go` / `handler.go` differ in
import paths only. The model is parametrised by the constants (`Consts`), instantiated from the
tables regenerated from each module (`constsV2`, `constsRoot`).

The random multipart boundary Go draws (`multipart.NewWriter`) is a parameter `b`.
What is abstracted: reading `req.Body` never fails; the request the client builds reaches the
handler with method, target, headers and body unchanged (net/http — trusted, exercised by the
harness through `Request.Write` / `http.ReadRequest`). -/
namespace Restli.Tunnel
open Restli Restli.Url Restli.Mime

def strB (s : String) : Bytes := s.toUTF8.toList

/-- the constants of `restli/http.go` the tunnelling code uses -/
structure Consts where
  hdrOverride : Bytes
  hdrContentType : Bytes
  ctMultipart : Bytes
  boundaryParam : Bytes
  ctJson : Bytes
  ctForm : Bytes
  hdrRestliMethod : Bytes
  hdrProtocolVersion : Bytes
  protocolVersion : Bytes
deriving Repr, DecidableEq

def constsV2 : Consts :=
  { hdrOverride := strB Gen.hdrMethodOverride, hdrContentType := strB Gen.hdrContentType,
    ctMultipart := strB Gen.ctMultipartMixed, boundaryParam := strB Gen.mpBoundaryParam,
    ctJson := strB Gen.ctApplicationJson, ctForm := strB Gen.ctFormUrlEncoded,
    hdrRestliMethod := strB Gen.hdrRestliMethod, hdrProtocolVersion := strB Gen.hdrRestliProtocolVersion,
    protocolVersion := strB Gen.httpProtocolVersion }

def constsRoot : Consts :=
  { hdrOverride := strB GenRoot.hdrMethodOverride, hdrContentType := strB GenRoot.hdrContentType,
    ctMultipart := strB GenRoot.ctMultipartMixed, boundaryParam := strB GenRoot.mpBoundaryParam,
    ctJson := strB GenRoot.ctApplicationJson, ctForm := strB GenRoot.ctFormUrlEncoded,
    hdrRestliMethod := strB GenRoot.hdrRestliMethod, hdrProtocolVersion := strB GenRoot.hdrRestliProtocolVersion,
    protocolVersion := strB GenRoot.httpProtocolVersion }

/-- `http.MethodPost` -/
def methodPost : Bytes := strB "POST"
def hdrAccept : Bytes := strB "Accept"

/-- `req.Body` -/
inductive Body where
  | nil                  -- Go nil
  | noBody               -- http.NoBody
  | bytes (b : Bytes)    -- a reader that yields b
deriving Repr, DecidableEq

/-- the parts of an `*http.Request` that tunnelling reads or writes -/
structure Req where
  method : Bytes
  /-- `req.URL.EscapedPath()`; never touched -/
  path : Bytes
  forceQuery : Bool
  rawQuery : Bytes
  header : Hdr
  body : Body
  requestURI : Bytes
deriving Repr, DecidableEq

/-- `req.URL.RequestURI()` (no opaque part) -/
def urlRequestURI (path : Bytes) (forceQuery : Bool) (rawQuery : Bytes) : Bytes :=
  (if path.isEmpty then [cSlash] else path) ++ (if forceQuery || !rawQuery.isEmpty then cQuest :: rawQuery else [])

/-! ## `EncodeTunnelledQuery` -/

/-- `EncodeTunnelledQuery(httpMethod, query, body)` with the writer's boundary `b`: (newBody, headers).
`body = none` is a nil slice. -/
def encodeTunnelledQuery (K : Consts) (b : Bytes) (httpMethod query : Bytes) (body : Option Bytes) :
    Res (Bytes × Hdr) :=
  let h0 : Hdr := Hdr.add [] K.hdrOverride httpMethod
  let bodyBytes := body.getD []
  if !bodyBytes.isEmpty then
    let newBody := writeParts b
      [{ key := K.hdrContentType, value := K.ctForm, content := query },
       { key := K.hdrContentType, value := K.ctJson, content := bodyBytes }]
    match formatMediaType1 K.ctMultipart K.boundaryParam b with
    | .ok ct => .ok (newBody, h0.add K.hdrContentType ct)
    | .err => .err
    | .unmodelled r => .unmodelled r
    | .panic => .panic
  else .ok (query, h0.add K.hdrContentType K.ctForm)

/-! ## `DecodeTunnelledQuery` -/

/-- the closure `getAndDeleteHeader` -/
def getAndDelete (h : Hdr) (k : Bytes) : Bytes × Hdr :=
  let v := h.get k
  if v.isEmpty then ([], h) else (v, h.del k)

/-- the `for { part, err := r.NextPart() … }` loop over what the multipart reader yields -/
def applyParts (K : Consts) : Parts → Bytes → Body → Hdr → Res (Bytes × Body × Hdr)
  | .eof, q, body, h => .ok (q, body, h)
  | .err, _, _, _ => .err
  | .unmodelled r, _, _, _ => .unmodelled r
  | .truncated ph, _, _, _ =>
    -- a query part's read error is ignored, the next NextPart fails; a body part's read error is returned;
    -- an unknown part type is an error: an error in every case
    let _ := ph
    .err
  | .part ph content rest, q, body, h =>
    let ct := partHeaderGet ph K.hdrContentType
    if ct == K.ctForm then applyParts K rest content body h
    else if ct == K.ctJson then applyParts K rest q (.bytes content) (h.set K.hdrContentType K.ctJson)
    else .err

/-- `DecodeTunnelledQuery(req)`: `.err` is a returned error, `.ok r` the mutated request -/
def decodeTunnelledQuery (K : Consts) (req : Req) : Res Req :=
  let gd := getAndDelete req.header K.hdrOverride
  let tunnelledMethod := gd.1
  let req := { req with header := gd.2 }
  if req.method != methodPost || tunnelledMethod.isEmpty then .ok req
  else
    let req := { req with method := tunnelledMethod }
    if !req.rawQuery.isEmpty then .err
    else
      -- io.Copy(body, req.Body); req.Body.Close(); req.Body = nil
      match (match req.body with
             | .nil => (none : Option Bytes)
             | .noBody => some []
             | .bytes b => some b) with
      | none => .panic            -- nil Body: io.Copy dereferences a nil reader
      | some data =>
        let req := { req with body := .nil }
        let gc := getAndDelete req.header K.hdrContentType
        let req := { req with header := gc.2 }
        match parseMediaType gc.1 with
        | .unmodelled r => .unmodelled r
        | .err => .err
        | .panic => .panic
        | .ok (mediaType, params) =>
          if mediaType == K.ctForm then
            .ok { req with rawQuery := data, requestURI := urlRequestURI req.path req.forceQuery data,
                           body := .noBody }
          else if mediaType == K.ctMultipart then
            match applyParts K (readParts ((params.lookup K.boundaryParam).getD []) data) req.rawQuery req.body req.header with
            | .ok (q, body, h) =>
              if q.isEmpty then .err
              else if body == .nil then .err
              else .ok { req with rawQuery := q, body := body, header := h,
                                  requestURI := urlRequestURI req.path req.forceQuery q }
            | .err => .err
            | .unmodelled r => .unmodelled r
            | .panic => .panic
          else .err       -- default: an unsupported (or missing, or unparsable: mediaType "") outer Content-Type

/-! ## the de-tunnelling call site in `rootNode.ServeHTTP` -/

inductive SiteOutcome where
  /-- `http.Error(res, err.Error(), status)`; routing (`sub.receive`) is not reached -/
  | respond (status : Nat)
  /-- the request `sub.receive` gets -/
  | routed (req : Req)
  | panicked
  | unmodelled (region : String)
deriving Repr, DecidableEq

/-- `err := DecodeTunnelledQuery(req); if err != nil { http.Error(…, errStatus); return }` -/
def detunnelSite (K : Consts) (errStatus : Nat) (req : Req) : SiteOutcome :=
  match decodeTunnelledQuery K req with
  | .ok r => .routed r
  | .err => .respond errStatus
  | .panic => .panicked
  | .unmodelled r => .unmodelled r

/-! ## the client side: the tunnelling block of `newRequest` -/

/-- `c.QueryTunnellingThreshold > 0 && len(u.RawQuery) > c.QueryTunnellingThreshold` -/
def shouldTunnel (threshold : Nat) (rawQuery : Bytes) : Bool :=
  threshold > 0 && rawQuery.length > threshold

/-- `req.Header[k] = v` for every entry of `headers` -/
def assignAll (h : Hdr) (extra : Hdr) : Hdr :=
  extra.foldl (fun acc kv => acc.filter (fun x => x.1 != kv.1) ++ [kv]) h

/-- The request `newRequest` builds, as the server-side handler receives it: `path` and `rawQuery`
are those of the URL `formatQueryUrl` returned (`fq` its ForceQuery), `httpMethod`/`restliMethod`
the verb and `X-RestLi-Method` value, `contents = none` a nil Marshaler (`some x` the marshalled
bytes). An absent or empty body arrives as `http.NoBody`. -/
def sentRequest (K : Consts) (b : Bytes) (threshold : Nat) (path : Bytes) (fq : Bool) (rawQuery : Bytes)
    (httpMethod restliMethod : Bytes) (contents : Option Bytes) : Res Req :=
  let headers0 : Hdr := if contents.isSome then Hdr.set [] K.hdrContentType K.ctJson else []
  let base : Hdr :=
    ((Hdr.set [] K.hdrProtocolVersion K.protocolVersion).set K.hdrRestliMethod restliMethod).set hdrAccept K.ctJson
  let mk (m q : Bytes) (fq : Bool) (body : Option Bytes) (headers : Hdr) : Req :=
    { method := m, path := path, forceQuery := fq, rawQuery := q, header := assignAll base headers,
      body := (match body with
               | none => Body.noBody
               | some x => if x.isEmpty then Body.noBody else Body.bytes x),
      requestURI := urlRequestURI path fq q }
  if shouldTunnel threshold rawQuery then
    match encodeTunnelledQuery K b httpMethod rawQuery contents with
    | .ok (newBody, th) =>
      -- for k := range tunnelHeaders { headers.Set(k, tunnelHeaders.Get(k)) }
      let headers := th.foldl (fun acc kv => acc.set kv.1 (th.get kv.1)) headers0
      .ok (mk methodPost [] fq (some newBody) headers)
    | .err => .err
    | .unmodelled r => .unmodelled r
    | .panic => .panic
  else .ok (mk httpMethod rawQuery fq contents headers0)

end Restli.Tunnel
