import Restli.Model.AnyReader
import Restli.Proofs.MissingSpec
import Restli.Proofs.NoPanic
/-! The tree reader (JSON reader on a parsed document, untyped reader on a Go value) never takes a
panic branch, whatever the leaves say short of panicking themselves; and the untyped reader's
leaves are clean (they report no missing fields), so everything proved about the tree reader for an
arbitrary clean leaf semantics holds for it. -/
namespace Restli.Codec
open Json (JVal)

/-! ## the untyped reader's leaves -/

theorem anyInt_clean (bits : Nat) (mk : Int → Value) (t : JVal) (v : Value) (m : List Bytes)
    (h : anyInt bits mk t = .ok v m) : m = [] := by
  unfold anyInt at h
  repeat' split at h
  all_goals first
    | (cases h; done)
    | (simp only [TRes.ok.injEq] at h; exact h.2.symm)

theorem anyFloat_clean (f : Strconv.FloatFmt) (mk : Nat → Value) (t : JVal) (v : Value) (m : List Bytes)
    (h : anyFloat f mk t = .ok v m) : m = [] := by
  unfold anyFloat at h
  repeat' split at h
  all_goals first
    | (cases h; done)
    | (simp only [TRes.ok.injEq] at h; exact h.2.symm)

theorem anySem_clean : SemClean anySem where
  prim := by
    intro p t v m h
    simp only [anySem, anyPrim] at h
    cases p <;> simp only at h
    · exact anyInt_clean _ _ _ _ _ h
    · exact anyInt_clean _ _ _ _ _ h
    · exact anyFloat_clean _ _ _ _ _ h
    · exact anyFloat_clean _ _ _ _ _ h
    all_goals
      repeat' split at h
      all_goals first
        | (cases h; done)
        | (simp only [TRes.ok.injEq] at h; exact h.2.symm)
  str := by
    intro t b m h
    simp only [anySem] at h
    split at h
    · simp only [TRes.ok.injEq] at h; exact h.2.symm
    · cases h

theorem anyInt_ne_panic (bits : Nat) (mk : Int → Value) (t : JVal) : anyInt bits mk t ≠ .panic := by
  unfold anyInt
  repeat' split
  all_goals simp

theorem anyFloat_ne_panic (f : Strconv.FloatFmt) (mk : Nat → Value) (t : JVal) : anyFloat f mk t ≠ .panic := by
  unfold anyFloat
  repeat' split
  all_goals simp

theorem anyPrim_ne_panic (p : Prim) (t : JVal) : anyPrim p t ≠ .panic := by
  cases p <;> simp only [anyPrim]
  · exact anyInt_ne_panic _ _ _
  · exact anyInt_ne_panic _ _ _
  · exact anyFloat_ne_panic _ _ _
  · exact anyFloat_ne_panic _ _ _
  all_goals
    repeat' split
    all_goals simp

theorem jsonPrim_ne_panic (p : Prim) (t : JVal) : jsonPrim p t ≠ .panic := by
  unfold jsonPrim
  repeat' split
  all_goals first
    | (simp; done)
    | (simp only []; split <;> simp)

/-! ## the tree reader never panics -/

/-- leaves that do not panic themselves -/
structure SemNoPanic (sem : LeafSem) : Prop where
  prim : ∀ p t, sem.prim p t ≠ .panic
  str : ∀ t, sem.str t ≠ .panic

theorem jsonSem_noPanic : SemNoPanic jsonSem where
  prim := jsonPrim_ne_panic
  str := by intro t; simp only [jsonSem]; split <;> simp

theorem anySem_noPanic : SemNoPanic anySem where
  prim := anyPrim_ne_panic
  str := by intro t; simp only [anySem]; split <;> simp

theorem bindT_ne_panic {α β : Type} (r : TRes α) (f : α → List Bytes → TRes β)
    (hr : r ≠ .panic) (hf : ∀ v m, r = .ok v m → f v m ≠ .panic) : bindT r f ≠ .panic := by
  cases r with
  | ok v m => exact hf v m rfl
  | err e => simp [bindT]
  | panic => exact absurd rfl hr
  | unmodelled => simp [bindT]

theorem callback_ne_panic (rd : Ty → TRes Value) (hrd : ∀ ty, rd ty ≠ .panic) (mode : MapMode)
    (acc : List (Bytes × Value)) (seen : List Bytes) (k : Bytes) :
    treeCallbackWith rd mode acc seen k ≠ .panic := by
  unfold treeCallbackWith
  split
  · split
    · exact bindT_ne_panic _ _ (hrd _) (fun _ _ _ => by simp)
    · simp
  · exact bindT_ne_panic _ _ (hrd _) (fun _ _ _ => by simp)
  · split
    · simp
    · split
      · exact bindT_ne_panic _ _ (hrd _) (fun _ _ _ => by simp)
      · simp

theorem entries_step_ne_panic (c : TCfg) (k0 : Bytes) (v : JVal) (rest : List (Bytes × JVal)) (hv : v ≠ .null)
    (scope : List Seg) (mode : MapMode) (acc : List (Bytes × Value)) (seen : List Bytes)
    (ihv : ∀ sc ty, treeRead c false sc ty v ≠ .panic)
    (ihr : ∀ sc md a sn, treeReadEntries c sc md a sn rest ≠ .panic) :
    treeReadEntries c scope mode acc seen ((k0, v) :: rest) ≠ .panic := by
  rw [treeReadEntries_cons c scope mode acc seen k0 v rest hv]
  split
  · simp
  · next k _ =>
    have htc := tracker_check_ne_panic c.tracker scope (.key k)
    split
    · next h => exact absurd h htc
    · simp
    · refine bindT_ne_panic _ _ ?_ (fun acc' m1 _ => ?_)
      · exact callback_ne_panic _ (fun ty => ihv _ ty) _ _ _ _
      · exact bindT_ne_panic _ _ (ihr scope mode acc' _) (fun _ _ _ => by simp)

mutual
theorem treeRead_ne_panic (c : TCfg) (hs : SemNoPanic c.sem) :
    (t : JVal) → ∀ (top : Bool) (scope : List Seg) (ty : Ty), treeRead c top scope ty t ≠ .panic
  | t, top, scope, .prim p => by simp only [treeRead]; exact hs.prim p t
  | .null, top, scope, .arr ty => by simp [treeRead]
  | .bool _, top, scope, .arr ty => by simp [treeRead]
  | .num _, top, scope, .arr ty => by simp [treeRead]
  | .str _, top, scope, .arr ty => by simp [treeRead]
  | .obj _, top, scope, .arr ty => by simp [treeRead]
  | .arr xs, top, scope, .arr ty => by
    simp only [treeRead]
    exact bindT_ne_panic _ _ (treeReadItems_ne_panic c hs xs scope ty 0) (fun _ _ _ => by simp)
  | .null, top, scope, .map ty => by simp [treeRead]
  | .bool _, top, scope, .map ty => by simp [treeRead]
  | .num _, top, scope, .map ty => by simp [treeRead]
  | .str _, top, scope, .map ty => by simp [treeRead]
  | .arr _, top, scope, .map ty => by simp [treeRead]
  | .obj kvs, top, scope, .map ty => by
    simp only [treeRead]
    exact bindT_ne_panic _ _ (treeReadEntries_ne_panic c hs kvs scope _ _ _) (fun _ _ _ => by simp)
  | t, top, scope, .ref n => by
    simp only [treeRead]
    cases hfind : c.env.find n with
    | none => simp
    | some decl =>
      cases decl with
      | typeref p => exact hs.prim p t
      | enum syms => exact bindT_ne_panic _ _ (hs.str t) (fun _ _ _ => by simp)
      | fixed size =>
        refine bindT_ne_panic _ _ (hs.prim _ t) (fun v m _ => ?_)
        split
        · split <;> simp
        · simp
      | record incs own =>
        refine bindT_ne_panic _ _ ?_ (fun r m _ => ?_)
        · cases t with
          | obj kvs => exact treeReadEntries_ne_panic c hs kvs scope _ _ _
          | null => simp
          | bool _ => simp
          | num _ => simp
          | str _ => simp
          | arr _ => simp
        · have := finishRecord_ne_panic c.env c.tracker scope top
            (allFields c.env (includeFuel c.env) n) own r.1 r.2 m
          split
          · next h => exact absurd h this
          · simp
          · simp
      | union hasNull members =>
        refine bindT_ne_panic _ _ ?_ (fun r m _ => ?_)
        · cases t with
          | obj kvs => exact treeReadEntries_ne_panic c hs kvs scope _ _ _
          | null => simp
          | bool _ => simp
          | num _ => simp
          | str _ => simp
          | arr _ => simp
        · split <;> simp
theorem treeReadEntries_ne_panic (c : TCfg) (hs : SemNoPanic c.sem) :
    (kvs : List (Bytes × JVal)) → ∀ (scope : List Seg) (mode : MapMode) (acc : List (Bytes × Value))
      (seen : List Bytes), treeReadEntries c scope mode acc seen kvs ≠ .panic
  | [], scope, mode, acc, seen => by simp [treeReadEntries]
  | (k0, .null) :: rest, scope, mode, acc, seen => by
    simp only [treeReadEntries]
    exact treeReadEntries_ne_panic c hs rest scope mode acc seen
  | (k0, .bool b) :: rest, scope, mode, acc, seen =>
    entries_step_ne_panic c k0 (.bool b) rest (by simp) scope mode acc seen
      (fun sc ty => treeRead_ne_panic c hs (.bool b) false sc ty)
      (fun sc md a sn => treeReadEntries_ne_panic c hs rest sc md a sn)
  | (k0, .num x) :: rest, scope, mode, acc, seen =>
    entries_step_ne_panic c k0 (.num x) rest (by simp) scope mode acc seen
      (fun sc ty => treeRead_ne_panic c hs (.num x) false sc ty)
      (fun sc md a sn => treeReadEntries_ne_panic c hs rest sc md a sn)
  | (k0, .str x) :: rest, scope, mode, acc, seen =>
    entries_step_ne_panic c k0 (.str x) rest (by simp) scope mode acc seen
      (fun sc ty => treeRead_ne_panic c hs (.str x) false sc ty)
      (fun sc md a sn => treeReadEntries_ne_panic c hs rest sc md a sn)
  | (k0, .arr xs) :: rest, scope, mode, acc, seen =>
    entries_step_ne_panic c k0 (.arr xs) rest (by simp) scope mode acc seen
      (fun sc ty => treeRead_ne_panic c hs (.arr xs) false sc ty)
      (fun sc md a sn => treeReadEntries_ne_panic c hs rest sc md a sn)
  | (k0, .obj kvs) :: rest, scope, mode, acc, seen =>
    entries_step_ne_panic c k0 (.obj kvs) rest (by simp) scope mode acc seen
      (fun sc ty => treeRead_ne_panic c hs (.obj kvs) false sc ty)
      (fun sc md a sn => treeReadEntries_ne_panic c hs rest sc md a sn)
theorem treeReadItems_ne_panic (c : TCfg) (hs : SemNoPanic c.sem) :
    (xs : List JVal) → ∀ (scope : List Seg) (ty : Ty) (idx : Nat), treeReadItems c scope ty idx xs ≠ .panic
  | [], scope, ty, idx => by simp [treeReadItems]
  | x :: xs, scope, ty, idx => by
    simp only [treeReadItems]
    refine bindT_ne_panic _ _ (treeRead_ne_panic c hs x false _ ty) (fun v m1 _ => ?_)
    exact bindT_ne_panic _ _ (treeReadItems_ne_panic c hs xs scope ty (idx + 1)) (fun _ _ _ => by simp)
end

/-- the untyped reader model never takes a panic branch: any Go value, any schema, any type, any
exclusion spec and ignore count -/
theorem unmarshalAny_ne_panic (env : Env) (tr : Tracker) (ty : Ty) (v : AnyVal) :
    unmarshalAny env tr ty v ≠ .panic :=
  treeRead_ne_panic _ anySem_noPanic _ _ _ _

/-- nor does the JSON reader model on any document the strict parser accepts -/
theorem unmarshalJson_ne_panic (c : TCfg) (hc : c.sem = jsonSem) (ty : Ty) (data : Bytes) :
    unmarshalJson c ty data ≠ some .panic := by
  unfold unmarshalJson
  split
  · simp
  · split
    · simp
    · next t _ =>
      simp only [ne_eq, Option.some.injEq]
      exact treeRead_ne_panic c (hc ▸ jsonSem_noPanic) t true [] ty

end Restli.Codec
