import Restli.Spec.CleanDir
namespace Restli.CleanDir

theorem manifestBlocked_cons_false (O : Own) {c : Node} {rest : List Node}
    (h : manifestBlocked O (c :: rest) = false) : manifestBlocked O rest = false := by
  cases c with
  | file n k => simpa [manifestBlocked] using h
  | dir n cs => simp [manifestBlocked] at h; exact h.2

theorem pruneRoot_false_eq_prune (O : Own) (n : Name) (cs : List Node) :
    pruneRoot O false (.dir n cs) = prune O (.dir n cs) := by
  simp [pruneRoot, prune]

mutual
theorem cleanOuter_eq_prune (O : Own) : (t : Node) → (dot : Bool) → noBlock O t = true →
    (∃ n cs, t = .dir n cs) → cleanOuter O dot t = ⟨pruneRoot O dot t, false⟩
  | .file n c, _, _, h => by obtain ⟨n', cs, h⟩ := h; cases h
  | .dir n cs, dot, hb, _ => by
    simp only [noBlock, Bool.and_eq_true, Bool.not_eq_eq_eq_not, Bool.not_true] at hb
    have hc := cleanChildren_eq_pruneL O cs hb.2 hb.1
    simp only [cleanOuter, hb.1, Bool.false_eq_true, ↓reduceIte, hc, pruneRoot]
    split <;> simp_all
theorem cleanChildren_eq_pruneL (O : Own) : (cs : List Node) → noBlockL O cs = true →
    manifestBlocked O cs = false → cleanChildren O cs = (pruneL O cs, false)
  | [], _, _ => by simp [cleanChildren, pruneL]
  | .file n c :: rest, hb, hm => by
    simp only [noBlockL, noBlock, Bool.true_and] at hb
    have ih := cleanChildren_eq_pruneL O rest hb (manifestBlocked_cons_false O hm)
    simp only [cleanChildren, pruneL, prune, owned]
    by_cases h : (O.isManifest n || O.isGen n) = true
    · have h' : (O.isGen n || O.isManifest n) = true := by rw [Bool.or_comm]; exact h
      simp [h, h', ih]
    · have h' : (O.isGen n || O.isManifest n) = false := by
        rw [Bool.or_comm]; simpa using h
      simp only [Bool.not_eq_true] at h
      simp [h, h', ih]
  | .dir n cs :: rest, hb, hm => by
    simp only [noBlockL, Bool.and_eq_true] at hb
    have ih := cleanChildren_eq_pruneL O rest hb.2 (manifestBlocked_cons_false O hm)
    by_cases hman : O.isManifest n = true
    · -- not blocked, so the directory is empty
      have hcs : cs = [] := by
        simp only [manifestBlocked, hman, Bool.true_and, Bool.or_eq_false_iff] at hm
        simpa using hm.1
      subst hcs
      simp [cleanChildren, hman, ih, pruneL, prune]
    · simp only [Bool.not_eq_true] at hman
      have ho := cleanOuter_eq_prune O (.dir n cs) false hb.1 ⟨n, cs, rfl⟩
      simp only [cleanChildren, hman, Bool.false_eq_true, ↓reduceIte, ho, ih, pruneL,
        pruneRoot_false_eq_prune O]
end

end Restli.CleanDir

namespace Restli.CleanDir

theorem filesL_append (a b : List Node) : filesL (a ++ b) = filesL a ++ filesL b := by
  induction a with
  | nil => simp [filesL]
  | cons x xs ih => simp [filesL, ih]

theorem filesL_toList (o : Option Node) : filesL o.toList = filesO o := by
  cases o <;> simp [filesL, filesO]

theorem mem_filesL_dropManifest_of_foreign (O : Own) (rest : List Node) (f : FileAt)
    (hm : manifestBlocked O rest = false) (hf : f ∈ filesL rest) (ho : owned O f.name = false) :
    f ∈ filesL (dropManifest O rest) := by
  induction rest with
  | nil => simp [filesL] at hf
  | cons c rest ih =>
    have hm' := manifestBlocked_cons_false O hm
    simp only [filesL, List.mem_append] at hf
    simp only [dropManifest]
    cases c with
    | file n k =>
      rcases hf with hf | hf
      · simp only [files, List.mem_singleton] at hf
        subst hf
        simp only [owned, Bool.or_eq_false_iff] at ho
        simp [Node.name, ho.2, filesL, files]
      · have := ih hm' hf
        split <;> simp [filesL, this]
    | dir n cs =>
      by_cases hman : O.isManifest n = true
      · have hcs : cs = [] := by
          simp only [manifestBlocked, hman, Bool.true_and, Bool.or_eq_false_iff] at hm
          simpa using hm.1
        subst hcs
        rcases hf with hf | hf
        · simp [files, filesL] at hf
        · simpa [Node.name, hman] using ih hm' hf
      · simp only [Bool.not_eq_true] at hman
        simp only [Node.name, hman, Bool.false_eq_true, ↓reduceIte, filesL, List.mem_append]
        rcases hf with hf | hf
        · exact Or.inl hf
        · exact Or.inr (ih hm' hf)

theorem filesL_dropManifest_subset (O : Own) (rest : List Node) (f : FileAt)
    (hf : f ∈ filesL (dropManifest O rest)) : f ∈ filesL rest := by
  induction rest with
  | nil => simpa [dropManifest] using hf
  | cons c rest ih =>
    simp only [dropManifest] at hf
    simp only [filesL, List.mem_append]
    split at hf
    · exact Or.inr (ih hf)
    · simp only [filesL, List.mem_append] at hf
      rcases hf with hf | hf
      · exact Or.inl hf
      · exact Or.inr (ih hf)

mutual
theorem foreign_kept_outer (O : Own) : (t : Node) → (dot : Bool) → (f : FileAt) → f ∈ files t →
    owned O f.name = false → f ∈ filesO (cleanOuter O dot t).node
  | .file n c, _, f, hf, _ => by simpa [cleanOuter, filesO] using hf
  | .dir n cs, dot, f, hf, ho => by
    simp only [cleanOuter]
    by_cases hb : manifestBlocked O cs = true
    · simpa [hb, filesO] using hf
    · simp only [Bool.not_eq_true] at hb
      simp only [files, List.mem_map] at hf
      obtain ⟨g, hg, rfl⟩ := hf
      have hk := foreign_kept_children O cs g hb hg (by simpa [FileAt.under] using ho)
      simp only [hb, Bool.false_eq_true, ↓reduceIte]
      cases hcc : cleanChildren O cs with
      | mk cs' e =>
        rw [hcc] at hk
        simp only at hk ⊢
        have hne : cs'.isEmpty = false := by
          cases cs' with
          | nil => simp [filesL] at hk
          | cons _ _ => rfl
        cases e <;> simp [hne, filesO, files] <;> exact ⟨g, hk, rfl⟩
theorem foreign_kept_children (O : Own) : (cs : List Node) → (f : FileAt) →
    manifestBlocked O cs = false → f ∈ filesL cs → owned O f.name = false →
    f ∈ filesL (cleanChildren O cs).1
  | [], f, _, hf, _ => by simp [filesL] at hf
  | .file n c :: rest, f, hm, hf, ho => by
    have hm' := manifestBlocked_cons_false O hm
    simp only [filesL, List.mem_append] at hf
    simp only [cleanChildren]
    rcases hf with hf | hf
    · simp only [files, List.mem_singleton] at hf
      subst hf
      simp only [owned, Bool.or_eq_false_iff] at ho
      simp [ho.1, ho.2, filesL, files]
    · have ih := foreign_kept_children O rest f hm' hf ho
      split
      · exact ih
      · simp [filesL, ih]
  | .dir n cs :: rest, f, hm, hf, ho => by
    have hm' := manifestBlocked_cons_false O hm
    simp only [filesL, List.mem_append] at hf
    simp only [cleanChildren]
    by_cases hman : O.isManifest n = true
    · have hcs : cs = [] := by
        simp only [manifestBlocked, hman, Bool.true_and, Bool.or_eq_false_iff] at hm
        simpa using hm.1
      subst hcs
      rcases hf with hf | hf
      · simp [files, filesL] at hf
      · simpa [hman] using foreign_kept_children O rest f hm' hf ho
    · simp only [Bool.not_eq_true] at hman
      simp only [hman, Bool.false_eq_true, ↓reduceIte]
      cases hco : cleanOuter O false (.dir n cs) with
      | mk r e =>
        cases e with
        | true =>
          simp only [filesL_append, filesL_toList, List.mem_append]
          rcases hf with hf | hf
          · have := foreign_kept_outer O (.dir n cs) false f hf ho
            rw [hco] at this; exact Or.inl this
          · exact Or.inr (mem_filesL_dropManifest_of_foreign O rest f hm' hf ho)
        | false =>
          simp only [filesL_append, filesL_toList, List.mem_append]
          rcases hf with hf | hf
          · have := foreign_kept_outer O (.dir n cs) false f hf ho
            rw [hco] at this; exact Or.inl this
          · exact Or.inr (foreign_kept_children O rest f hm' hf ho)
end

mutual
theorem nothing_created_outer (O : Own) : (t : Node) → (dot : Bool) → (f : FileAt) →
    f ∈ filesO (cleanOuter O dot t).node → f ∈ files t
  | .file n c, _, f, hf => by simpa [cleanOuter, filesO] using hf
  | .dir n cs, dot, f, hf => by
    simp only [cleanOuter] at hf
    by_cases hb : manifestBlocked O cs = true
    · simpa [hb, filesO] using hf
    · simp only [Bool.not_eq_true] at hb
      simp only [hb, Bool.false_eq_true, ↓reduceIte] at hf
      cases hcc : cleanChildren O cs with
      | mk cs' e =>
        rw [hcc] at hf
        have key : ∀ g, g ∈ filesL cs' → g ∈ filesL cs := by
          intro g hg
          have := nothing_created_children O cs g (by rw [hcc]; exact hg)
          exact this
        simp only at hf
        split at hf
        · simp only [filesO, files, List.mem_map] at hf
          obtain ⟨g, hg, rfl⟩ := hf
          simp only [files, List.mem_map]; exact ⟨g, key g hg, rfl⟩
        · split at hf
          · simp [filesO] at hf
          · simp only [filesO, files, List.mem_map] at hf
            obtain ⟨g, hg, rfl⟩ := hf
            simp only [files, List.mem_map]; exact ⟨g, key g hg, rfl⟩
theorem nothing_created_children (O : Own) : (cs : List Node) → (f : FileAt) →
    f ∈ filesL (cleanChildren O cs).1 → f ∈ filesL cs
  | [], f, hf => by simpa [cleanChildren] using hf
  | .file n c :: rest, f, hf => by
    simp only [cleanChildren] at hf
    simp only [filesL, List.mem_append]
    split at hf
    · exact Or.inr (nothing_created_children O rest f hf)
    · simp only [filesL, List.mem_append] at hf
      rcases hf with hf | hf
      · exact Or.inl hf
      · exact Or.inr (nothing_created_children O rest f hf)
  | .dir n cs :: rest, f, hf => by
    simp only [cleanChildren] at hf
    simp only [filesL, List.mem_append]
    split at hf
    · exact Or.inr (nothing_created_children O rest f hf)
    · cases hco : cleanOuter O false (.dir n cs) with
      | mk r e =>
        rw [hco] at hf
        have ho : ∀ g, g ∈ filesO r → g ∈ files (.dir n cs) := by
          intro g hg
          have := nothing_created_outer O (.dir n cs) false g (by rw [hco]; exact hg)
          exact this
        cases e with
        | true =>
          simp only [filesL_append, filesL_toList, List.mem_append] at hf
          rcases hf with hf | hf
          · exact Or.inl (ho f hf)
          · exact Or.inr (filesL_dropManifest_subset O rest f hf)
        | false =>
          simp only [filesL_append, filesL_toList, List.mem_append] at hf
          rcases hf with hf | hf
          · exact Or.inl (ho f hf)
          · exact Or.inr (nothing_created_children O rest f hf)
end

end Restli.CleanDir

namespace Restli.CleanDir

theorem pruneL_append (O : Own) (a b : List Node) : pruneL O (a ++ b) = pruneL O a ++ pruneL O b := by
  induction a with
  | nil => simp [pruneL]
  | cons x xs ih => simp [pruneL, ih]

mutual
theorem prune_fix (O : Own) : (t t' : Node) → prune O t = some t' → prune O t' = some t'
  | .file n c, t', h => by
    simp only [prune] at h
    split at h
    · cases h
    · next ho => cases h; simp [prune, ho]
  | .dir n cs, t', h => by
    simp only [prune] at h
    split at h
    · cases h
    · next hne =>
      cases h
      simp only [prune, pruneL_idem O cs, hne]
      simp
theorem pruneL_idem (O : Own) : (cs : List Node) → pruneL O (pruneL O cs) = pruneL O cs
  | [] => by simp [pruneL]
  | c :: rest => by
    simp only [pruneL, pruneL_append O, pruneL_idem O rest]
    cases h : prune O c with
    | none => simp [pruneL]
    | some t' => simp [pruneL, prune_fix O c t' h]
end

theorem manifestBlocked_append (O : Own) (a b : List Node) :
    manifestBlocked O (a ++ b) = (manifestBlocked O a || manifestBlocked O b) := by
  induction a with
  | nil => simp [manifestBlocked]
  | cons x xs ih =>
    cases x with
    | file n c => simp [manifestBlocked, ih]
    | dir n cs => simp [manifestBlocked, ih, Bool.or_assoc]

theorem manifestBlocked_pruneL (O : Own) (cs : List Node) (h : manifestBlocked O cs = false) :
    manifestBlocked O (pruneL O cs) = false := by
  induction cs with
  | nil => simp [pruneL, manifestBlocked]
  | cons c rest ih =>
    have ih' := ih (manifestBlocked_cons_false O h)
    simp only [pruneL, manifestBlocked_append O, ih', Bool.or_false]
    cases c with
    | file n k =>
      simp only [prune]; split <;> simp [manifestBlocked]
    | dir n cs0 =>
      simp only [prune]
      split
      · simp [manifestBlocked]
      · next hne =>
        simp only [manifestBlocked, Bool.or_eq_false_iff] at h
        by_cases hman : O.isManifest n = true
        · have : cs0 = [] := by simpa [hman] using h.1
          subst this
          simp [pruneL] at hne
        · simp only [Bool.not_eq_true] at hman
          simp [manifestBlocked, hman]

theorem noBlockL_append (O : Own) (a b : List Node) : noBlockL O (a ++ b) = (noBlockL O a && noBlockL O b) := by
  induction a with
  | nil => simp [noBlockL]
  | cons x xs ih => simp [noBlockL, ih, Bool.and_assoc]

mutual
theorem noBlock_prune (O : Own) : (t t' : Node) → noBlock O t = true → prune O t = some t' → noBlock O t' = true
  | .file n c, t', _, h => by
    simp only [prune] at h
    split at h
    · cases h
    · cases h; simp [noBlock]
  | .dir n cs, t', hb, h => by
    simp only [prune] at h
    split at h
    · cases h
    · cases h
      simp only [noBlock, Bool.and_eq_true, Bool.not_eq_eq_eq_not, Bool.not_true] at hb ⊢
      exact ⟨manifestBlocked_pruneL O cs hb.1, noBlockL_pruneL O cs hb.2⟩
theorem noBlockL_pruneL (O : Own) : (cs : List Node) → noBlockL O cs = true → noBlockL O (pruneL O cs) = true
  | [], _ => by simp [pruneL, noBlockL]
  | c :: rest, hb => by
    simp only [noBlockL, Bool.and_eq_true] at hb
    simp only [pruneL, noBlockL_append O, Bool.and_eq_true]
    refine ⟨?_, noBlockL_pruneL O rest hb.2⟩
    cases h : prune O c with
    | none => simp [noBlockL]
    | some t' => simp [noBlockL, noBlock_prune O c t' hb.1 h]
end

/- after pruning no owned file is left -/
mutual
theorem prune_no_owned (O : Own) : (t t' : Node) → prune O t = some t' → ∀ f ∈ files t', owned O f.name = false
  | .file n c, t', h => by
    simp only [prune] at h
    split at h
    · cases h
    · next ho => cases h; intro f hf; simp only [files, List.mem_singleton] at hf; subst hf; simpa using ho
  | .dir n cs, t', h => by
    simp only [prune] at h
    split at h
    · cases h
    · cases h
      intro f hf
      simp only [files, List.mem_map] at hf
      obtain ⟨g, hg, rfl⟩ := hf
      simpa [FileAt.under] using pruneL_no_owned O cs g hg
theorem pruneL_no_owned (O : Own) : (cs : List Node) → ∀ f ∈ filesL (pruneL O cs), owned O f.name = false
  | [] => by simp [pruneL, filesL]
  | c :: rest => by
    intro f hf
    simp only [pruneL, filesL_append, filesL_toList, List.mem_append] at hf
    rcases hf with hf | hf
    · cases h : prune O c with
      | none => simp [h, filesO] at hf
      | some t' => rw [h] at hf; exact prune_no_owned O c t' h f hf
    · exact pruneL_no_owned O rest f hf
end

/- every directory left by pruning (below the root) contains a file somewhere beneath it -/
mutual
theorem prune_has_file (O : Own) : (t t' : Node) → prune O t = some t' → files t' ≠ []
  | .file n c, t', h => by
    simp only [prune] at h
    split at h
    · cases h
    · cases h; simp [files]
  | .dir n cs, t', h => by
    simp only [prune] at h
    split at h
    · cases h
    · next hne =>
      cases h
      simp only [files, ne_eq, List.map_eq_nil_iff]
      exact pruneL_has_file O cs (by simpa using hne)
theorem pruneL_has_file (O : Own) : (cs : List Node) → pruneL O cs ≠ [] → filesL (pruneL O cs) ≠ []
  | [], h => by simp [pruneL] at h
  | c :: rest, h => by
    simp only [pruneL, filesL_append, filesL_toList]
    cases hc : prune O c with
    | none =>
      simp only [pruneL, hc, Option.toList_none, List.nil_append] at h
      simpa [filesO] using pruneL_has_file O rest h
    | some t' =>
      have := prune_has_file O c t' hc
      simp [filesO, this]
end

end Restli.CleanDir

/-! Links are never followed: cleaning commutes with rewriting link destinations. -/
namespace Restli.CleanDir

theorem retarget_name (g : String → String) (c : Node) : (retarget g c).name = c.name := by
  cases c <;> simp [retarget, Node.name]

theorem retargetL_isEmpty (g : String → String) (cs : List Node) :
    (retargetL g cs).isEmpty = cs.isEmpty := by
  cases cs <;> simp [retargetL]

theorem retargetL_append (g : String → String) (a b : List Node) :
    retargetL g (a ++ b) = retargetL g a ++ retargetL g b := by
  induction a with
  | nil => simp [retargetL]
  | cons x xs ih => simp [retargetL, ih]

theorem retargetL_toList (g : String → String) (o : Option Node) :
    retargetL g o.toList = (o.map (retarget g)).toList := by
  cases o <;> simp [retargetL]

theorem manifestBlocked_retargetL (O : Own) (g : String → String) (cs : List Node) :
    manifestBlocked O (retargetL g cs) = manifestBlocked O cs := by
  induction cs with
  | nil => simp [retargetL]
  | cons c rest ih =>
    cases c with
    | file n l => simp [retargetL, retarget, manifestBlocked, ih]
    | dir n cs0 => simp [retargetL, retarget, manifestBlocked, ih, retargetL_isEmpty]

theorem dropManifest_retargetL (O : Own) (g : String → String) (cs : List Node) :
    dropManifest O (retargetL g cs) = retargetL g (dropManifest O cs) := by
  induction cs with
  | nil => simp [retargetL, dropManifest]
  | cons c rest ih =>
    simp only [retargetL, dropManifest, retarget_name, ih]
    split <;> simp [retargetL]

mutual
theorem cleanOuter_retarget (O : Own) (g : String → String) : (t : Node) → (dot : Bool) →
    cleanOuter O dot (retarget g t) =
      ⟨(cleanOuter O dot t).node.map (retarget g), (cleanOuter O dot t).err⟩
  | .file n l, _ => by simp [cleanOuter, retarget]
  | .dir n cs, dot => by
    have hc := cleanChildren_retarget O g cs
    simp only [retarget, cleanOuter, manifestBlocked_retargetL, hc]
    by_cases hb : manifestBlocked O cs = true
    · simp [hb, retarget]
    · simp only [Bool.not_eq_true] at hb
      simp only [hb, Bool.false_eq_true, ↓reduceIte]
      cases hcc : cleanChildren O cs with
      | mk cs' e =>
        simp only [retargetL_isEmpty]
        cases e with
        | true => simp [retarget]
        | false =>
          simp only [Bool.false_eq_true, ↓reduceIte]
          split <;> simp [retarget]
theorem cleanChildren_retarget (O : Own) (g : String → String) : (cs : List Node) →
    cleanChildren O (retargetL g cs) = (retargetL g (cleanChildren O cs).1, (cleanChildren O cs).2)
  | [] => by simp [cleanChildren, retargetL]
  | .file n l :: rest => by
    have ih := cleanChildren_retarget O g rest
    simp only [retargetL, retarget, cleanChildren, ih]
    split <;> simp [retargetL, retarget]
  | .dir n cs :: rest => by
    have ih := cleanChildren_retarget O g rest
    have ho := cleanOuter_retarget O g (.dir n cs) false
    simp only [retarget] at ho
    simp only [retargetL, retarget, cleanChildren, ih, ho]
    split
    · rfl
    · cases hco : cleanOuter O false (.dir n cs) with
      | mk r e =>
        cases e with
        | true => simp [retargetL_append, retargetL_toList, dropManifest_retargetL]
        | false => simp [retargetL_append, retargetL_toList]
end

end Restli.CleanDir
