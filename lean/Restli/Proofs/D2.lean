import Restli.Model.D2
import Restli.Spec.D2
/-! Helper lemmas for C19 (no property statements here). -/
namespace Restli.D2

/-! ### association-list maps -/

def keys (m : UriMap) : List Bytes := m.map Prod.fst

theorem mapLookup_mapSet (k k' : Bytes) (v : Uri) (m : UriMap) :
    mapLookup k' (mapSet k v m) = if k' = k then some v else mapLookup k' m := by
  induction m with
  | nil =>
    simp only [mapSet, mapLookup]
    by_cases h : k' = k
    · simp [h]
    · have : ¬ k = k' := fun e => h e.symm
      simp [h, this]
  | cons kv r ih =>
    obtain ⟨k0, v0⟩ := kv
    simp only [mapSet]
    by_cases h0 : k0 = k
    · subst h0
      simp only [if_true, mapLookup]
      by_cases h : k' = k0
      · have : k0 = k' := h.symm
        simp [h]
      · have : ¬ k0 = k' := fun e => h e.symm
        simp [h, this]
    · simp only [h0, if_false, mapLookup]
      by_cases h1 : k0 = k'
      · subst h1
        simp [h0]
      · simp [h1, ih]

theorem mapLookup_mapDelete (k k' : Bytes) (m : UriMap) :
    mapLookup k' (mapDelete k m) = if k' = k then none else mapLookup k' m := by
  induction m with
  | nil => simp [mapDelete, mapLookup]
  | cons kv r ih =>
    obtain ⟨k0, v0⟩ := kv
    simp only [mapDelete]
    by_cases h0 : k0 = k
    · subst h0
      simp only [if_true, ih, mapLookup]
      by_cases h : k' = k0
      · simp [h]
      · have : ¬ k0 = k' := fun e => h e.symm
        simp [h, this]
    · simp only [h0, if_false, mapLookup, ih]
      by_cases h1 : k0 = k'
      · subst h1
        simp [h0]
      · simp [h1]

theorem mapSet_not_mem (k : Bytes) (v : Uri) (m : UriMap) (h : k ∉ keys m) :
    mapSet k v m = m ++ [(k, v)] := by
  induction m with
  | nil => rfl
  | cons kv r ih =>
    obtain ⟨k0, v0⟩ := kv
    simp only [keys, List.map_cons, List.mem_cons, not_or] at h
    have h0 : ¬ k0 = k := fun e => h.1 e.symm
    simp only [mapSet, h0, if_false, List.cons_append]
    rw [ih h.2]

theorem keys_mapSet_mem (k : Bytes) (v : Uri) (m : UriMap) (h : k ∈ keys m) :
    keys (mapSet k v m) = keys m := by
  induction m with
  | nil => simp [keys] at h
  | cons kv r ih =>
    obtain ⟨k0, v0⟩ := kv
    simp only [mapSet]
    by_cases h0 : k0 = k
    · simp [h0, keys]
    · simp only [keys, List.map_cons, List.mem_cons] at h
      have : k ∈ keys r := by
        rcases h with h | h
        · exact absurd h.symm h0
        · exact h
      simp only [h0, if_false, keys, List.map_cons]
      have := ih this
      simp only [keys] at this
      rw [this]

theorem keys_mapSet_nodup (k : Bytes) (v : Uri) (m : UriMap) (h : (keys m).Nodup) :
    (keys (mapSet k v m)).Nodup := by
  by_cases hk : k ∈ keys m
  · rw [keys_mapSet_mem k v m hk]; exact h
  · rw [mapSet_not_mem k v m hk]
    simp only [keys, List.map_append, List.map_cons, List.map_nil]
    rw [List.nodup_append]
    refine ⟨h, by simp, ?_⟩
    intro a ha b hb
    simp only [List.mem_cons, List.not_mem_nil, or_false] at hb
    subst hb
    intro e; subst e; exact hk ha

theorem keys_mapDelete_sublist (k : Bytes) (m : UriMap) : (keys (mapDelete k m)).Sublist (keys m) := by
  induction m with
  | nil => simp [mapDelete, keys]
  | cons kv r ih =>
    obtain ⟨k0, v0⟩ := kv
    simp only [mapDelete]
    by_cases h0 : k0 = k
    · simp only [h0, if_true, keys, List.map_cons]
      exact List.Sublist.cons _ ih
    · simp only [h0, if_false, keys, List.map_cons]
      exact List.Sublist.cons_cons _ ih

theorem keys_mapDelete_nodup (k : Bytes) (m : UriMap) (h : (keys m).Nodup) :
    (keys (mapDelete k m)).Nodup :=
  (keys_mapDelete_sublist k m).nodup h

theorem foldl_mapSet_append (m acc : UriMap) (hm : (keys m).Nodup)
    (hd : ∀ k ∈ keys m, k ∉ keys acc) :
    m.foldl (fun acc e => mapSet e.1 e.2 acc) acc = acc ++ m := by
  induction m generalizing acc with
  | nil => simp
  | cons kv r ih =>
    obtain ⟨k0, v0⟩ := kv
    simp only [List.foldl_cons]
    have h0 : k0 ∉ keys acc := hd k0 (by simp [keys])
    rw [mapSet_not_mem k0 v0 acc h0]
    simp only [keys, List.map_cons, List.nodup_cons] at hm
    rw [ih (acc ++ [(k0, v0)]) hm.2]
    · simp
    · intro k hk
      simp only [keys, List.map_append, List.map_cons, List.map_nil, List.mem_append,
        List.mem_cons, List.not_mem_nil, or_false, not_or]
      refine ⟨hd k (by simp only [keys, List.map_cons, List.mem_cons]; exact Or.inr hk), ?_⟩
      intro e; subst e; exact hm.1 hk

theorem mapCopy_eq (m : UriMap) (hm : (keys m).Nodup) : mapCopy m = m := by
  simp only [mapCopy]
  rw [foldl_mapSet_append m [] hm (by simp [keys])]
  simp

theorem mem_iff_mapLookup (m : UriMap) (hm : (keys m).Nodup) (k : Bytes) (v : Uri) :
    (k, v) ∈ m ↔ mapLookup k m = some v := by
  induction m with
  | nil => simp [mapLookup]
  | cons kv r ih =>
    obtain ⟨k0, v0⟩ := kv
    simp only [keys, List.map_cons, List.nodup_cons] at hm
    simp only [mapLookup, List.mem_cons, Prod.mk.injEq]
    by_cases h0 : k0 = k
    · subst h0
      simp only [if_true, Option.some.injEq, true_and]
      constructor
      · rintro (h | h)
        · exact h.symm
        · exact absurd (List.mem_map_of_mem (f := Prod.fst) h) hm.1
      · intro h; exact Or.inl h.symm
    · have : ¬ k = k0 := fun e => h0 e.symm
      simp only [h0, if_false, this, false_and, false_or]
      exact ih hm.2

/-! ### `handleUriUpdate` on values -/

/-- Go-map well-formedness of a snapshot -/
def Inv (w : ServiceUris) : Prop := (keys w.uris).Nodup

theorem copy_eq (w : ServiceUris) (h : Inv w) : w.copy = w := by
  cases w with
  | mk z u => simp only [ServiceUris.copy, mapCopy_eq u h]

theorem handle_zkPath (w : ServiceUris) (e : Event) : (handleUriUpdate w e).zkPath = w.zkPath := by
  simp only [handleUriUpdate]
  split
  · rfl
  · split
    · rfl
    · rfl
    · split <;> rfl

theorem handle_inv (w : ServiceUris) (e : Event) (h : Inv w) : Inv (handleUriUpdate w e) := by
  simp only [handleUriUpdate, copy_eq w h]
  split
  · exact h
  · split
    · exact keys_mapDelete_nodup _ _ h
    · exact h
    · split
      · exact h
      · exact keys_mapSet_nodup _ _ _ h

theorem relPath?_eq (zk p : Bytes) :
    (Spec.relPath? zk p).getD p = trimPrefix p zk := by
  have key : ∀ (zk p : Bytes), Spec.relPath? zk p = if zk.isPrefixOf p then some (p.drop zk.length) else none := by
    intro zk
    induction zk with
    | nil => intro p; simp [Spec.relPath?]
    | cons z zs ih =>
      intro p
      cases p with
      | nil => simp [Spec.relPath?]
      | cons c cs =>
        simp only [Spec.relPath?, List.isPrefixOf, List.length_cons, List.drop_succ_cons]
        by_cases hzc : z = c
        · subst hzc; simp [ih]
        · simp [hzc]
  rw [key]
  simp only [trimPrefix]
  split <;> simp

/-- one step, seen through `mapLookup`, for a well-formed snapshot -/
theorem lookup_handle (w : ServiceUris) (e : Event) (h : Inv w) (n : Bytes) :
    mapLookup n (handleUriUpdate w e).uris =
      match Spec.readEvent w.zkPath e with
      | none => mapLookup n w.uris
      | some ev =>
        if ev.node = n then
          match ev.change with
          | .announce a => some a
          | .delete => none
          | .malformed => mapLookup n w.uris
          | .weightless => mapLookup n w.uris
        else mapLookup n w.uris := by
  simp only [handleUriUpdate, copy_eq w h, Spec.readEvent, relPath?_eq]
  by_cases hp : trimPrefix e.path w.zkPath = []
  · simp [hp]
  · simp only [hp, if_false]
    cases hd : e.data with
    | none =>
      simp only [mapLookup_mapDelete]
      by_cases hn : n = trimPrefix e.path w.zkPath
      · simp [hn]
      · have : ¬ trimPrefix e.path w.zkPath = n := fun e => hn e.symm
        simp [hn, this]
    | some pl =>
      cases pl with
      | malformed => simp
      | uri u =>
        by_cases hw : u.weights = []
        · simp [hw]
        · have hl : ¬ u.weights.length = 0 := by
            intro h0; exact hw (List.eq_nil_of_length_eq_zero h0)
          simp only [hl, if_false, hw, mapLookup_mapSet]
          by_cases hn : n = trimPrefix e.path w.zkPath
          · simp [hn]
          · have : ¬ trimPrefix e.path w.zkPath = n := fun e => hn e.symm
            simp [hn, this]

theorem run_inv (w : ServiceUris) (h : List Event) (hi : Inv w) : Inv (runUpdates w h) := by
  induction h generalizing w with
  | nil => exact hi
  | cons e r ih => exact ih _ (handle_inv w e hi)

theorem run_zkPath (w : ServiceUris) (h : List Event) : (runUpdates w h).zkPath = w.zkPath := by
  induction h generalizing w with
  | nil => rfl
  | cons e r ih =>
    simp only [runUpdates, List.foldl_cons] at ih ⊢
    rw [ih, handle_zkPath]

theorem run_snoc (w : ServiceUris) (h : List Event) (e : Event) :
    runUpdates w (h ++ [e]) = handleUriUpdate (runUpdates w h) e := by
  simp [runUpdates, List.foldl_append]

/-- induction on a list from the right -/
theorem snoc_induction {α : Type} {P : List α → Prop} (hnil : P [])
    (hsnoc : ∀ l a, P l → P (l ++ [a])) : ∀ l, P l := by
  intro l
  have : ∀ r : List α, P r.reverse := by
    intro r
    induction r with
    | nil => exact hnil
    | cons a r ih => rw [List.reverse_cons]; exact hsnoc _ _ ih
  have h := this l.reverse
  rwa [List.reverse_reverse] at h

theorem lookup_run (zk : Bytes) (w : ServiceUris) (hw : Inv w) (hz : w.zkPath = zk) (hempty : w.uris = [])
    (h : List Event) (n : Bytes) :
    mapLookup n (runUpdates w h).uris = Spec.lastValid n (Spec.readHistory zk h) := by
  induction h using snoc_induction with
  | hnil => simp [runUpdates, hempty, mapLookup, Spec.lastValid, Spec.readHistory, Spec.lastValidRev]
  | hsnoc l e ih =>
    rw [run_snoc, lookup_handle _ _ (run_inv w l hw), run_zkPath, hz]
    simp only [Spec.lastValid, Spec.readHistory, List.filterMap_append, List.filterMap_cons,
      List.filterMap_nil] at ih ⊢
    cases hre : Spec.readEvent zk e with
    | none => simp [ih]
    | some ev =>
      simp only [List.reverse_append, List.reverse_cons, List.reverse_nil, List.nil_append,
        List.cons_append, Spec.lastValidRev]
      by_cases hn : ev.node = n
      · simp only [hn, if_true]
        cases ev.change <;> simp [ih]
      · simp [hn, ih]

/-! ### snapshots as values -/

theorem snapshots_length (w : ServiceUris) (h : List Event) : (snapshots w h).length = h.length + 1 := by
  induction h generalizing w with
  | nil => rfl
  | cons e r ih => simp [snapshots, ih]

theorem snapshots_getElem? (w : ServiceUris) (h : List Event) (i : Nat) (hi : i ≤ h.length) :
    (snapshots w h)[i]? = some (runUpdates w (h.take i)) := by
  induction h generalizing w i with
  | nil =>
    have : i = 0 := by simpa using hi
    subst this; rfl
  | cons e r ih =>
    cases i with
    | zero => rfl
    | succ j =>
      simp only [snapshots, List.getElem?_cons_succ, List.take_succ_cons, runUpdates, List.foldl_cons]
      exact ih _ j (by simpa using hi)

theorem snapshots_append (w : ServiceUris) (h h' : List Event) :
    (snapshots w (h ++ h')).take (h.length + 1) = snapshots w h := by
  induction h generalizing w with
  | nil => cases h' <;> simp [snapshots]
  | cons e r ih => simp only [List.cons_append, snapshots, List.length_cons, List.take_succ_cons, ih]

/-! ### the heap-level model -/

theorem handleH_spec (H : Heap) (a : Nat) (e : Event) (w : ServiceUris) (hg : H.get? a = some w) :
    ∃ H' a', handleUriUpdateH H a e = some (H', a') ∧ H'.get? a' = some (handleUriUpdate w e) ∧
      H.size ≤ H'.size ∧ ∀ b, b < H.size → H'.get? b = H.get? b := by
  have alloc_mod : ∀ (f : ServiceUris → ServiceUris),
      ((H.alloc w.copy).1.modify (H.alloc w.copy).2 f).get? (H.alloc w.copy).2 = some (f w.copy) ∧
      H.size ≤ ((H.alloc w.copy).1.modify (H.alloc w.copy).2 f).size ∧
      ∀ b, b < H.size → ((H.alloc w.copy).1.modify (H.alloc w.copy).2 f).get? b = H.get? b := by
    intro f
    simp only [Heap.alloc, Heap.modify, Heap.get?, Heap.size, List.getElem?_modify,
      List.length_modify, List.length_append, List.length_cons, List.length_nil]
    refine ⟨by simp, by omega, ?_⟩
    intro b hb
    have : ¬ H.cells.length = b := by omega
    simp [this, List.getElem?_append_left hb]
  simp only [handleUriUpdateH, hg, handleUriUpdate]
  by_cases hp : trimPrefix e.path w.zkPath = []
  · exact ⟨H, a, by simp [hp], by simp [hp, hg], Nat.le_refl _, fun _ _ => rfl⟩
  · simp only [hp, if_false]
    cases hd : e.data with
    | none =>
      obtain ⟨h1, h2, h3⟩ := alloc_mod (fun c => { c with uris := mapDelete (trimPrefix e.path w.zkPath) c.uris })
      exact ⟨_, _, rfl, h1, h2, h3⟩
    | some pl =>
      cases pl with
      | malformed => exact ⟨H, a, rfl, hg, Nat.le_refl _, fun _ _ => rfl⟩
      | uri u =>
        by_cases hl : u.weights.length = 0
        · exact ⟨H, a, by simp [hl], by simp [hl, hg], Nat.le_refl _, fun _ _ => rfl⟩
        · obtain ⟨h1, h2, h3⟩ := alloc_mod (fun c => { c with uris := mapSet (trimPrefix e.path w.zkPath) u c.uris })
          refine ⟨_, (H.alloc w.copy).2, by simp only [hl, if_false], by simp only [hl, if_false]; exact h1, h2, h3⟩

theorem runH_spec (H : Heap) (a : Nat) (h : List Event) (w : ServiceUris) (hg : H.get? a = some w) :
    ∃ H' a', runUpdatesH H a h = some (H', a') ∧ H'.get? a' = some (runUpdates w h) ∧
      H.size ≤ H'.size ∧ ∀ b, b < H.size → H'.get? b = H.get? b := by
  induction h generalizing H a w with
  | nil => exact ⟨H, a, rfl, hg, Nat.le_refl _, fun _ _ => rfl⟩
  | cons e r ih =>
    obtain ⟨H1, a1, h1, g1, s1, f1⟩ := handleH_spec H a e w hg
    obtain ⟨H2, a2, h2, g2, s2, f2⟩ := ih H1 a1 (handleUriUpdate w e) g1
    refine ⟨H2, a2, ?_, ?_, Nat.le_trans s1 s2, ?_⟩
    · simp only [runUpdatesH, h1, h2]
    · simpa [runUpdates] using g2
    · intro b hb
      rw [f2 b (Nat.lt_of_lt_of_le hb s1), f1 b hb]

theorem runH_append (H : Heap) (a : Nat) (h h' : List Event) :
    runUpdatesH H a (h ++ h') =
      match runUpdatesH H a h with
      | none => none
      | some (H', a') => runUpdatesH H' a' h' := by
  induction h generalizing H a with
  | nil => simp [runUpdatesH]
  | cons e r ih =>
    simp only [List.cons_append, runUpdatesH]
    cases handleUriUpdateH H a e with
    | none => rfl
    | some p => obtain ⟨H1, a1⟩ := p; exact ih H1 a1

/-! ### which entries resolution sees -/

theorem mem_iterSeq (m : UriMap) (hm : (keys m).Nodup) (e : Entry) :
    e ∈ iterSeq m ↔ ∃ n u, mapLookup n m = some u ∧ e ∈ u.weights := by
  simp only [iterSeq, List.mem_flatMap]
  constructor
  · rintro ⟨⟨k, u⟩, hkv, he⟩
    exact ⟨k, u, (mem_iff_mapLookup m hm k u).1 hkv, he⟩
  · rintro ⟨n, u, hl, he⟩
    exact ⟨(n, u), (mem_iff_mapLookup m hm n u).2 hl, he⟩

/-! ### selection: the two passes -/

theorem totalWeight_eq_weightOf (f : Host → Bool) (es : List Entry) :
    totalWeight f es = Spec.weightOf f es := by
  induction es with
  | nil => rfl
  | cons e r ih =>
    obtain ⟨h, w⟩ := e
    simp only [totalWeight, Spec.weightOf, List.filter_cons] at ih ⊢
    by_cases hf : f h = true
    · simp [hf, ih]
    · simp [hf, ih]

theorem totalWeight_perm (f : Host → Bool) {a b : List Entry} (h : a.Perm b) :
    totalWeight f a = totalWeight f b := by
  rw [totalWeight_eq_weightOf, totalWeight_eq_weightOf]
  exact ((h.filter _).map _).sum_nat

theorem totalWeight_zero_of_none (f : Host → Bool) (es : List Entry)
    (h : ∀ e ∈ es, f e.1 = false) : totalWeight f es = 0 := by
  induction es with
  | nil => rfl
  | cons e r ih =>
    obtain ⟨h0, w⟩ := e
    have := h (h0, w) (by simp)
    simp only at this
    simp only [totalWeight, this]
    exact ih (fun e he => h e (List.mem_cons_of_mem _ he))

theorem exists_of_totalWeight_pos (f : Host → Bool) (es : List Entry) (h : 0 < totalWeight f es) :
    ∃ e ∈ es, f e.1 = true ∧ 0 < e.2 := by
  induction es with
  | nil => simp [totalWeight] at h
  | cons e r ih =>
    obtain ⟨h0, w⟩ := e
    simp only [totalWeight] at h
    by_cases hf : f h0 = true
    · simp only [hf, if_true] at h
      by_cases hw : 0 < w
      · exact ⟨(h0, w), by simp, hf, hw⟩
      · obtain ⟨e, he, h1, h2⟩ := ih (by omega)
        exact ⟨e, List.mem_cons_of_mem _ he, h1, h2⟩
    · simp only [hf] at h
      obtain ⟨e, he, h1, h2⟩ := ih h
      exact ⟨e, List.mem_cons_of_mem _ he, h1, h2⟩

theorem totalWeight_pos_of_exists (f : Host → Bool) (es : List Entry)
    (h : ∃ e ∈ es, f e.1 = true ∧ 0 < e.2) : 0 < totalWeight f es := by
  induction es with
  | nil => simp at h
  | cons e r ih =>
    obtain ⟨h0, w⟩ := e
    obtain ⟨e', he', h1, h2⟩ := h
    simp only [totalWeight]
    rcases List.mem_cons.1 he' with heq | hin
    · subst heq
      simp only at h1 h2
      simp only [h1, if_true]; omega
    · have := ih ⟨e', hin, h1, h2⟩
      split <;> omega

/-! ### selection: the repaired second pass

The loop is analysed through three small pieces over an entry predicate `g` ("this entry is
visited"): `gTotal` (weight of the visited entries), `coreIdx` (where `randomWeight` first drops
to `<= 0`, if anywhere) and `lastIdx` (the last visited entry: the fall-back). -/

/-- the entries the second pass does not pass over -/
def visits (f : Host → Bool) (skipZero : Bool) (e : Entry) : Bool :=
  f e.1 && !(skipZero && e.2 == 0)

def gTotal (g : Entry → Bool) : List Entry → Nat
  | [] => 0
  | e :: r => if g e then e.2 + gTotal g r else gTotal g r

def coreIdx (g : Entry → Bool) (q : Nat) : List Entry → Int → Option Nat
  | [], _ => none
  | e :: r, rw =>
    if g e then
      if rw - ((q * e.2 : Nat) : Int) ≤ 0 then some 0
      else (coreIdx g q r (rw - ((q * e.2 : Nat) : Int))).map (· + 1)
    else (coreIdx g q r rw).map (· + 1)

def lastIdx (g : Entry → Bool) : List Entry → Option Nat
  | [] => none
  | e :: r =>
    match lastIdx g r with
    | some j => some (j + 1)
    | none => if g e then some 0 else none

theorem gTotal_visits (f : Host → Bool) (s : Bool) (es : List Entry) :
    gTotal (visits f s) es = totalWeight f es := by
  induction es with
  | nil => rfl
  | cons e r ih =>
    obtain ⟨h, w⟩ := e
    simp only [gTotal, totalWeight, visits, ih]
    cases f h <;> cases s <;> by_cases hw : w = 0 <;> simp [hw]

theorem gTotal_zero_of_none (g : Entry → Bool) (es : List Entry) (h : ∀ e ∈ es, g e = false) :
    gTotal g es = 0 := by
  induction es with
  | nil => rfl
  | cons e r ih =>
    simp only [gTotal, h e (by simp)]
    exact ih (fun e he => h e (List.mem_cons_of_mem _ he))

theorem exists_of_gTotal_pos (g : Entry → Bool) (es : List Entry) (h : 0 < gTotal g es) :
    ∃ e ∈ es, g e = true := by
  induction es with
  | nil => simp [gTotal] at h
  | cons e r ih =>
    simp only [gTotal] at h
    by_cases hg : g e = true
    · exact ⟨e, by simp, hg⟩
    · simp only [hg] at h
      obtain ⟨e', he', h1⟩ := ih h
      exact ⟨e', List.mem_cons_of_mem _ he', h1⟩

theorem coreIdx_some (g : Entry → Bool) (q : Nat) :
    ∀ (it : List Entry) (rw : Int) (j : Nat), coreIdx g q it rw = some j →
      ∃ e, it[j]? = some e ∧ g e = true
  | [], _, _, hc => by simp [coreIdx] at hc
  | e :: r, rw, j, hc => by
    simp only [coreIdx] at hc
    by_cases hg : g e = true
    · simp only [hg, if_true] at hc
      by_cases hs : rw - ((q * e.2 : Nat) : Int) ≤ 0
      · rw [if_pos hs] at hc
        simp only [Option.some.injEq] at hc
        subst hc
        exact ⟨e, rfl, hg⟩
      · rw [if_neg hs] at hc
        cases hx : coreIdx g q r (rw - ((q * e.2 : Nat) : Int)) with
        | none => rw [hx] at hc; exact absurd hc (by simp)
        | some k =>
          rw [hx] at hc
          simp only [Option.map_some, Option.some.injEq] at hc
          subst hc
          obtain ⟨e', h1, h2⟩ := coreIdx_some g q r _ k hx
          exact ⟨e', by simpa using h1, h2⟩
    · have hg' : g e = false := by simpa using hg
      simp only [hg', Bool.false_eq_true, if_false] at hc
      cases hx : coreIdx g q r rw with
      | none => rw [hx] at hc; exact absurd hc (by simp)
      | some k =>
        rw [hx] at hc
        simp only [Option.map_some, Option.some.injEq] at hc
        subst hc
        obtain ⟨e', h1, h2⟩ := coreIdx_some g q r _ k hx
        exact ⟨e', by simpa using h1, h2⟩

theorem coreIdx_ne_none_of_le (g : Entry → Bool) (q : Nat) :
    ∀ (it : List Entry) (rw : Int), rw ≤ ((q * gTotal g it : Nat) : Int) →
      (∃ e ∈ it, g e = true) → coreIdx g q it rw ≠ none
  | [], _, _, he => by simp at he
  | e :: r, rw, hle, he => by
    simp only [coreIdx, gTotal] at hle ⊢
    by_cases hg : g e = true
    · simp only [hg, if_true] at hle ⊢
      rw [Nat.mul_add] at hle
      by_cases hs : rw - ((q * e.2 : Nat) : Int) ≤ 0
      · rw [if_pos hs]; simp
      · rw [if_neg hs]
        have hle' : rw - ((q * e.2 : Nat) : Int) ≤ ((q * gTotal g r : Nat) : Int) := by omega
        have hpos : 0 < gTotal g r := by
          apply Nat.pos_of_ne_zero
          intro h0
          rw [h0] at hle'
          simp only [Nat.mul_zero] at hle'
          omega
        have := coreIdx_ne_none_of_le g q r _ hle' (exists_of_gTotal_pos g r hpos)
        cases hx : coreIdx g q r (rw - ((q * e.2 : Nat) : Int)) with
        | none => exact absurd hx this
        | some k => simp
    · have hg' : g e = false := by simpa using hg
      simp only [hg', Bool.false_eq_true, if_false] at hle ⊢
      obtain ⟨e', hin, h1⟩ := he
      rcases List.mem_cons.1 hin with heq | hin'
      · subst heq; rw [hg'] at h1; exact absurd h1 (by simp)
      · have := coreIdx_ne_none_of_le g q r rw hle ⟨e', hin', h1⟩
        cases hx : coreIdx g q r rw with
        | none => exact absurd hx this
        | some k => simp

theorem coreIdx_none_of_no_eligible (g : Entry → Bool) (q : Nat) :
    ∀ (it : List Entry) (rw : Int), (∀ e ∈ it, g e = false) → coreIdx g q it rw = none
  | [], _, _ => rfl
  | e :: r, rw, hn => by
    simp only [coreIdx, hn e (by simp), Bool.false_eq_true, if_false]
    rw [coreIdx_none_of_no_eligible g q r rw (fun e he => hn e (List.mem_cons_of_mem _ he))]
    rfl

theorem lastIdx_some (g : Entry → Bool) :
    ∀ (it : List Entry) (j : Nat), lastIdx g it = some j → ∃ e, it[j]? = some e ∧ g e = true
  | [], _, hc => by simp [lastIdx] at hc
  | e :: r, j, hc => by
    simp only [lastIdx] at hc
    cases hx : lastIdx g r with
    | some k =>
      simp only [hx, Option.some.injEq] at hc
      subst hc
      obtain ⟨e', h1, h2⟩ := lastIdx_some g r k hx
      exact ⟨e', by simpa using h1, h2⟩
    | none =>
      simp only [hx] at hc
      by_cases hg : g e = true
      · simp only [hg, if_true, Option.some.injEq] at hc
        subst hc
        exact ⟨e, rfl, hg⟩
      · simp [hg] at hc

theorem lastIdx_none_iff (g : Entry → Bool) (it : List Entry) :
    lastIdx g it = none ↔ ∀ e ∈ it, g e = false := by
  induction it with
  | nil => simp [lastIdx]
  | cons e r ih =>
    simp only [lastIdx]
    cases hx : lastIdx g r with
    | some k =>
      simp only [reduceCtorEq, false_iff]
      intro hall
      have := ih.2 (fun e he => hall e (List.mem_cons_of_mem _ he))
      rw [hx] at this; exact absurd this (by simp)
    | none =>
      have hr := ih.1 hx
      by_cases hg : g e = true
      · simp only [hg, if_true, reduceCtorEq, false_iff]
        intro hall
        have := hall e (by simp)
        rw [hg] at this; exact absurd this (by simp)
      · have hg' : g e = false := by simpa using hg
        simp only [hg', Bool.false_eq_true, if_false, true_iff]
        intro e' he'
        rcases List.mem_cons.1 he' with heq | hin
        · subst heq; exact hg'
        · exact hr e' hin

/-- the position-returning twin, decomposed -/
theorem chooseLoopIdx_decomp (f : Host → Bool) (q : Nat) (s : Bool) :
    ∀ (it : List Entry) (rw : Int) (i : Nat) (last : Option Nat),
      chooseLoopIdx f q s it rw i last =
        match coreIdx (visits f s) q it rw with
        | some j => some (i + j)
        | none => match lastIdx (visits f s) it with
          | some j => some (i + j)
          | none => last
  | [], _, _, _ => rfl
  | (h, w) :: r, rw, i, last => by
    have key : (!f h) = false ∧ (s && w == 0) = false ↔ visits f s (h, w) = true := by
      simp only [visits]
      cases f h <;> cases s <;> cases (w == 0) <;> simp
    by_cases hg : visits f s (h, w) = true
    · obtain ⟨h1, h2⟩ := key.2 hg
      simp only [chooseLoopIdx, coreIdx, lastIdx, h1, h2, hg, Bool.false_eq_true, if_false, if_true]
      by_cases hs : rw - ((q * w : Nat) : Int) ≤ 0
      · rw [if_pos hs, if_pos hs]; simp
      · rw [if_neg hs, if_neg hs, chooseLoopIdx_decomp f q s r _ (i + 1) (some i)]
        cases coreIdx (visits f s) q r (rw - ((q * w : Nat) : Int)) with
        | some j => simp only [Option.map_some]; congr 1; omega
        | none =>
          simp only [Option.map_none]
          cases lastIdx (visits f s) r with
          | some j => simp only; congr 1; omega
          | none => simp
    · have hg' : visits f s (h, w) = false := by simpa using hg
      have hskip : chooseLoopIdx f q s ((h, w) :: r) rw i last = chooseLoopIdx f q s r rw (i + 1) last := by
        simp only [chooseLoopIdx]
        simp only [visits] at hg'
        cases hf : f h
        · simp
        · rw [hf] at hg'
          have : (s && w == 0) = true := by simpa using hg'
          simp [this]
      rw [hskip, chooseLoopIdx_decomp f q s r rw (i + 1) last]
      simp only [coreIdx, lastIdx, hg', Bool.false_eq_true, if_false]
      cases coreIdx (visits f s) q r rw with
      | some j => simp only [Option.map_some]; congr 1; omega
      | none =>
        simp only [Option.map_none]
        cases lastIdx (visits f s) r with
        | some j => simp only; congr 1; omega
        | none => simp

/-- the as-written loop, decomposed the same way -/
theorem chooseLoop_decomp (f : Host → Bool) (q : Nat) (s : Bool) :
    ∀ (it : List Entry) (rw : Int) (last : Option Host),
      chooseLoop f q s it rw last =
        match coreIdx (visits f s) q it rw with
        | some j => it[j]?.map Prod.fst
        | none => match lastIdx (visits f s) it with
          | some j => it[j]?.map Prod.fst
          | none => last
  | [], _, _ => rfl
  | (h, w) :: r, rw, last => by
    have key : (!f h) = false ∧ (s && w == 0) = false ↔ visits f s (h, w) = true := by
      simp only [visits]
      cases f h <;> cases s <;> cases (w == 0) <;> simp
    by_cases hg : visits f s (h, w) = true
    · obtain ⟨h1, h2⟩ := key.2 hg
      simp only [chooseLoop, coreIdx, lastIdx, h1, h2, hg, Bool.false_eq_true, if_false, if_true]
      by_cases hs : rw - ((q * w : Nat) : Int) ≤ 0
      · rw [if_pos hs, if_pos hs]; simp
      · rw [if_neg hs, if_neg hs, chooseLoop_decomp f q s r _ (some h)]
        cases coreIdx (visits f s) q r (rw - ((q * w : Nat) : Int)) with
        | some j => simp
        | none =>
          simp only [Option.map_none]
          cases lastIdx (visits f s) r with
          | some j => simp
          | none => simp
    · have hg' : visits f s (h, w) = false := by simpa using hg
      have hskip : chooseLoop f q s ((h, w) :: r) rw last = chooseLoop f q s r rw last := by
        simp only [chooseLoop]
        simp only [visits] at hg'
        cases hf : f h
        · simp
        · rw [hf] at hg'
          have : (s && w == 0) = true := by simpa using hg'
          simp [this]
      rw [hskip, chooseLoop_decomp f q s r rw last]
      simp only [coreIdx, lastIdx, hg', Bool.false_eq_true, if_false]
      cases coreIdx (visits f s) q r rw with
      | some j => simp
      | none =>
        simp only [Option.map_none]
        cases lastIdx (visits f s) r with
        | some j => simp
        | none => simp

/-- the loop and its position-returning twin agree -/
theorem chooseLoop_eq_idx (f : Host → Bool) (q : Nat) (s : Bool) (it : List Entry) (rw : Int) :
    chooseLoop f q s it rw none = (chooseLoopIdx f q s it rw 0 none).bind (fun j => it[j]?.map Prod.fst) := by
  rw [chooseLoop_decomp, chooseLoopIdx_decomp]
  cases coreIdx (visits f s) q it rw with
  | some j => simp
  | none =>
    cases lastIdx (visits f s) it with
    | some j => simp
    | none => simp

/-- what the loop returns is a visited entry; nothing is returned iff nothing is visited -/
theorem chooseLoop_some (f : Host → Bool) (q : Nat) (s : Bool) (it : List Entry) (rw : Int) (h : Host)
    (hc : chooseLoop f q s it rw none = some h) : ∃ w, (h, w) ∈ it ∧ visits f s (h, w) = true := by
  rw [chooseLoop_decomp] at hc
  have fin : ∀ (j : Nat) (e : Entry), it[j]? = some e → visits f s e = true → it[j]?.map Prod.fst = some h →
      ∃ w, (h, w) ∈ it ∧ visits f s (h, w) = true := by
    intro j e h1 h2 h3
    rw [h1] at h3
    simp only [Option.map_some, Option.some.injEq] at h3
    obtain ⟨h', w⟩ := e
    simp only at h3; subst h3
    exact ⟨w, List.mem_of_getElem? h1, h2⟩
  cases hx : coreIdx (visits f s) q it rw with
  | some j =>
    simp only [hx] at hc
    obtain ⟨e, h1, h2⟩ := coreIdx_some _ q it rw j hx
    exact fin j e h1 h2 hc
  | none =>
    simp only [hx] at hc
    cases hy : lastIdx (visits f s) it with
    | some j =>
      simp only [hy] at hc
      obtain ⟨e, h1, h2⟩ := lastIdx_some _ it j hy
      exact fin j e h1 h2 hc
    | none => simp only [hy] at hc; exact absurd hc (by simp)

theorem chooseLoop_none_iff (f : Host → Bool) (q : Nat) (s : Bool) (it : List Entry) (rw : Int) :
    chooseLoop f q s it rw none = none ↔ ∀ e ∈ it, visits f s e = false := by
  rw [chooseLoop_decomp]
  constructor
  · intro hc
    cases hx : coreIdx (visits f s) q it rw with
    | some j =>
      obtain ⟨e, h1, _⟩ := coreIdx_some _ q it rw j hx
      simp only [hx, h1] at hc
      exact absurd hc (by simp)
    | none =>
      simp only [hx] at hc
      cases hy : lastIdx (visits f s) it with
      | some j =>
        obtain ⟨e, h1, _⟩ := lastIdx_some _ it j hy
        simp only [hy, h1] at hc
        exact absurd hc (by simp)
      | none => exact (lastIdx_none_iff _ it).1 hy
  · intro hall
    rw [coreIdx_none_of_no_eligible _ q it rw hall, (lastIdx_none_iff _ it).2 hall]

/-- where `randomWeight` first drops to `<= 0` -/
theorem coreIdx_at (g : Entry → Bool) (q : Nat) (e : Entry) (post : List Entry) :
    ∀ (pre : List Entry) (rw : Int),
      coreIdx g q (pre ++ e :: post) rw = some pre.length ↔
        (g e = true ∧ rw ≤ ((q * (gTotal g pre + e.2) : Nat) : Int) ∧
          (((q * gTotal g pre : Nat) : Int) < rw ∨ ∀ x ∈ pre, g x = false))
  | [], rw => by
    simp only [List.nil_append, coreIdx, List.length_nil, gTotal, Nat.zero_add, Nat.mul_zero]
    by_cases hg : g e = true
    · simp only [hg, if_true, true_and]
      by_cases hs : rw - ((q * e.2 : Nat) : Int) ≤ 0
      · rw [if_pos hs]
        simp only [true_iff]
        exact ⟨by omega, Or.inr (by simp)⟩
      · rw [if_neg hs]
        constructor
        · intro hc
          cases hx : coreIdx g q post (rw - ((q * e.2 : Nat) : Int)) with
          | none => simp at hc
          | some j => simp at hc
        · intro hc; omega
    · have hg' : g e = false := by simpa using hg
      simp only [hg', Bool.false_eq_true, if_false, false_and, iff_false]
      intro hc
      cases hx : coreIdx g q post rw with
      | none => simp [hx] at hc
      | some j => simp [hx] at hc
  | e0 :: pre, rw => by
    simp only [List.cons_append, coreIdx, List.length_cons, gTotal]
    have hmap : ∀ o : Option Nat, (o.map (· + 1) = some (pre.length + 1)) ↔ o = some pre.length := by
      intro o; cases o <;> simp
    by_cases hg0 : g e0 = true
    · simp only [hg0, if_true]
      by_cases hs : rw - ((q * e0.2 : Nat) : Int) ≤ 0
      · rw [if_pos hs]
        constructor
        · intro hc; simp at hc
        · rintro ⟨_, _, hlt | hall⟩
          · rw [Nat.mul_add] at hlt; omega
          · have := hall e0 (by simp)
            rw [hg0] at this; exact absurd this (by simp)
      · rw [if_neg hs, hmap, coreIdx_at g q e post pre (rw - ((q * e0.2 : Nat) : Int))]
        have e1 : q * (e0.2 + gTotal g pre + e.2) = q * e0.2 + q * (gTotal g pre + e.2) := by
          rw [Nat.add_assoc, Nat.mul_add]
        have e2 : q * (e0.2 + gTotal g pre) = q * e0.2 + q * gTotal g pre := Nat.mul_add _ _ _
        rw [e1, e2]
        constructor
        · rintro ⟨h1, h2, h3⟩
          refine ⟨h1, by omega, Or.inl ?_⟩
          rcases h3 with h3 | h3
          · omega
          · rw [gTotal_zero_of_none g pre h3]; simp only [Nat.mul_zero]; omega
        · rintro ⟨h1, h2, h3⟩
          refine ⟨h1, by omega, Or.inl ?_⟩
          rcases h3 with h3 | h3
          · omega
          · have := h3 e0 (by simp)
            rw [hg0] at this; exact absurd this (by simp)
    · have hg0' : g e0 = false := by simpa using hg0
      simp only [hg0', Bool.false_eq_true, if_false]
      rw [hmap, coreIdx_at g q e post pre rw]
      constructor
      · rintro ⟨h1, h2, h3⟩
        refine ⟨h1, h2, ?_⟩
        rcases h3 with h3 | h3
        · exact Or.inl h3
        · refine Or.inr ?_
          intro x hx
          rcases List.mem_cons.1 hx with heq | hin
          · subst heq; exact hg0'
          · exact h3 x hin
      · rintro ⟨h1, h2, h3⟩
        refine ⟨h1, h2, ?_⟩
        rcases h3 with h3 | h3
        · exact Or.inl h3
        · exact Or.inr (fun x hx => h3 x (List.mem_cons_of_mem _ hx))

/-! ### selection: one call of `filterAndChooseHost`, then `chooseHost` -/

/-- with exact arithmetic and a draw below 1 the fall-back is never needed: the twin stops where
`randomWeight` first drops to `<= 0` -/
theorem filterAndChooseIdx_eq_core (f : Host → Bool) (es : List Entry) (d : Draw) (hv : d.Valid es) :
    filterAndChooseIdx f d =
      coreIdx (visits f (decide (0 < totalWeight f es))) d.q d.it2 ((d.p * totalWeight f es : Nat) : Int) := by
  obtain ⟨h1, h2, hpq⟩ := hv
  simp only [filterAndChooseIdx, chooseLoopIdx_decomp, totalWeight_perm f h1, Nat.zero_add]
  cases hx : coreIdx (visits f (decide (0 < totalWeight f es))) d.q d.it2 ((d.p * totalWeight f es : Nat) : Int) with
  | some j => rfl
  | none =>
    cases hy : lastIdx (visits f (decide (0 < totalWeight f es))) d.it2 with
    | none => rfl
    | some j =>
      exfalso
      obtain ⟨e, he1, he2⟩ := lastIdx_some _ d.it2 j hy
      have hle : ((d.p * totalWeight f es : Nat) : Int) ≤
          ((d.q * gTotal (visits f (decide (0 < totalWeight f es))) d.it2 : Nat) : Int) := by
        rw [gTotal_visits, totalWeight_perm f h2]
        have := Nat.mul_le_mul_right (totalWeight f es) (Nat.le_of_lt hpq)
        omega
      exact coreIdx_ne_none_of_le _ d.q d.it2 _ hle ⟨e, List.mem_of_getElem? he1, he2⟩ hx

theorem filter_none_iff (f : Host → Bool) (es : List Entry) (d : Draw) (hv : d.Valid es) :
    filterAndChooseHost f d = none ↔ ∀ e ∈ es, f e.1 = false := by
  obtain ⟨h1, h2, _⟩ := hv
  simp only [filterAndChooseHost, chooseLoop_none_iff, totalWeight_perm f h1]
  constructor
  · intro hn e he
    cases hfe : f e.1 with
    | false => rfl
    | true =>
      exfalso
      by_cases hT : 0 < totalWeight f es
      · obtain ⟨e', he', hf', hw'⟩ := exists_of_totalWeight_pos f es hT
        have := hn e' (h2.mem_iff.2 he')
        simp only [visits, hf', Bool.true_and, Bool.not_eq_false', Bool.and_eq_true, decide_eq_true_eq,
          beq_iff_eq] at this
        omega
      · have := hn e (h2.mem_iff.2 he)
        simp [visits, hfe, hT] at this
  · intro hall e he
    simp [visits, hall e (h2.mem_iff.1 he)]

/-- a returned host was visited: it passes the filter, and carries positive weight whenever the
eligible total is positive -/
theorem filter_some_mem (f : Host → Bool) (es : List Entry) (d : Draw) (hv : d.Valid es) (h : Host)
    (hc : filterAndChooseHost f d = some h) :
    ∃ w, (h, w) ∈ es ∧ f h = true ∧ (0 < totalWeight f es → 0 < w) := by
  simp only [filterAndChooseHost, totalWeight_perm f hv.1] at hc
  obtain ⟨w, hw, hvis⟩ := chooseLoop_some f d.q _ d.it2 _ h hc
  refine ⟨w, hv.2.1.mem_iff.1 hw, ?_, ?_⟩
  · simp only [visits, Bool.and_eq_true] at hvis; exact hvis.1
  · intro hT
    simp only [visits, hT, decide_true, Bool.true_and, Bool.and_eq_true, Bool.not_eq_eq_eq_not,
      Bool.not_true, beq_eq_false_iff_ne, ne_eq] at hvis
    omega

theorem any_hasScheme (s : Bytes) (es : List Entry) :
    es.any (Spec.hasScheme s) = true ↔ ∃ e ∈ es, (fun h : Host => h.scheme == s) e.1 = true := by
  simp [List.any_eq_true, Spec.hasScheme]

theorem topScheme_cons (s0 : Bytes) (rest : List Bytes) (es : List Entry) :
    Spec.topScheme (s0 :: rest) es =
      if es.any (Spec.hasScheme s0) then some s0 else Spec.topScheme rest es := by
  simp only [Spec.topScheme, List.find?_cons]
  cases es.any (Spec.hasScheme s0) <;> simp

theorem chooseHostFrom_none (es : List Entry) (env : Nat → Draw) (hv : ∀ k, (env k).Valid es) :
    ∀ (prio : List Bytes) (k : Nat), Spec.topScheme prio es = none → chooseHostFrom env prio k = none
  | [], _, _ => rfl
  | s0 :: rest, k, ht => by
    rw [topScheme_cons] at ht
    cases hany : es.any (Spec.hasScheme s0) with
    | true => simp [hany] at ht
    | false =>
      simp only [hany, Bool.false_eq_true, if_false] at ht
      have hnone : filterAndChooseHost (fun h => h.scheme == s0) (env k) = none := by
        rw [filter_none_iff _ es _ (hv k)]
        intro e he
        cases hfe : (e.1.scheme == s0) with
        | false => rfl
        | true =>
          have : es.any (Spec.hasScheme s0) = true := (any_hasScheme s0 es).2 ⟨e, he, hfe⟩
          rw [hany] at this; exact absurd this (by simp)
      simp only [chooseHostFrom, hnone]
      exact chooseHostFrom_none es env hv rest (k + 1) ht

theorem chooseHostFrom_some (es : List Entry) (env : Nat → Draw) (hv : ∀ k, (env k).Valid es) (s : Bytes) :
    ∀ (prio : List Bytes) (k : Nat), Spec.topScheme prio es = some s →
      ∃ j, chooseHostFrom env prio k = filterAndChooseHost (fun h => h.scheme == s) (env j)
  | [], _, ht => by simp [Spec.topScheme] at ht
  | s0 :: rest, k, ht => by
    rw [topScheme_cons] at ht
    cases hany : es.any (Spec.hasScheme s0) with
    | true =>
      simp only [hany, if_true, Option.some.injEq] at ht
      subst ht
      refine ⟨k, ?_⟩
      simp only [chooseHostFrom]
      cases hc : filterAndChooseHost (fun h => h.scheme == s0) (env k) with
      | some h => rfl
      | none =>
        exfalso
        rw [filter_none_iff _ es _ (hv k)] at hc
        obtain ⟨e, he, hfe⟩ := (any_hasScheme s0 es).1 hany
        have hfe' : (e.1.scheme == s0) = true := hfe
        rw [hc e he] at hfe'; exact absurd hfe' (by simp)
    | false =>
      simp only [hany, Bool.false_eq_true, if_false] at ht
      have hnone : filterAndChooseHost (fun h => h.scheme == s0) (env k) = none := by
        rw [filter_none_iff _ es _ (hv k)]
        intro e he
        cases hfe : (e.1.scheme == s0) with
        | false => rfl
        | true =>
          have : es.any (Spec.hasScheme s0) = true := (any_hasScheme s0 es).2 ⟨e, he, hfe⟩
          rw [hany] at this; exact absurd this (by simp)
      simp only [chooseHostFrom, hnone]
      exact chooseHostFrom_some es env hv s rest (k + 1) ht

theorem topScheme_some_any (prio : List Bytes) (es : List Entry) (s : Bytes)
    (h : Spec.topScheme prio es = some s) : s ∈ prio ∧ es.any (Spec.hasScheme s) = true := by
  simp only [Spec.topScheme] at h
  exact ⟨List.mem_of_find?_eq_some h, List.find?_some (p := fun s => es.any (Spec.hasScheme s)) h⟩

/-- `chooseHost` is one call of `filterAndChooseHost` with the filter the specification names -/
theorem chooseHost_reduces (es : List Entry) (env : Nat → Draw) (hv : ∀ k, (env k).Valid es)
    (prio : List Bytes) :
    (prio = [] ∧ chooseHost prio env = filterAndChooseHost (fun _ => true) (env 0)) ∨
    (prio ≠ [] ∧ Spec.topScheme prio es = none ∧ chooseHost prio env = none) ∨
    (prio ≠ [] ∧ ∃ s j, Spec.topScheme prio es = some s ∧
      chooseHost prio env = filterAndChooseHost (fun h => h.scheme == s) (env j)) := by
  cases prio with
  | nil => left; exact ⟨rfl, by simp [chooseHost]⟩
  | cons s0 rest =>
    right
    have hne : (s0 :: rest) ≠ [] := by simp
    have hch : chooseHost (s0 :: rest) env = chooseHostFrom env (s0 :: rest) 0 := by
      simp [chooseHost]
    cases ht : Spec.topScheme (s0 :: rest) es with
    | none => left; exact ⟨hne, rfl, by rw [hch]; exact chooseHostFrom_none es env hv _ 0 ht⟩
    | some s =>
      right
      obtain ⟨j, hj⟩ := chooseHostFrom_some es env hv s _ 0 ht
      exact ⟨hne, s, j, rfl, by rw [hch]; exact hj⟩

/-- a host that occurs once in the iteration sequence is found only at its own position -/
theorem getElem?_split_unique (pre post : List Entry) (h : Host) (w : Nat)
    (huniq : ∀ e ∈ pre ++ post, e.1 ≠ h) (j : Nat)
    (hj : ((pre ++ (h, w) :: post)[j]?).map Prod.fst = some h) : j = pre.length := by
  rcases Nat.lt_trichotomy j pre.length with hlt | heq | hgt
  · exfalso
    rw [List.getElem?_append_left hlt] at hj
    cases hx : pre[j]? with
    | none => simp [hx] at hj
    | some e =>
      simp only [hx, Option.map_some, Option.some.injEq] at hj
      exact huniq e (List.mem_append_left _ (List.mem_of_getElem? hx)) hj
  · exact heq
  · exfalso
    rw [List.getElem?_append_right (Nat.le_of_lt hgt)] at hj
    obtain ⟨k, hk⟩ : ∃ k, j - pre.length = k + 1 := ⟨j - pre.length - 1, by omega⟩
    rw [hk, List.getElem?_cons_succ] at hj
    cases hx : post[k]? with
    | none => simp [hx] at hj
    | some e =>
      simp only [hx, Option.map_some, Option.some.injEq] at hj
      exact huniq e (List.mem_append_right _ (List.mem_of_getElem? hx)) hj

end Restli.D2
