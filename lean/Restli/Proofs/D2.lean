import Restli.Model.D2
import Restli.Spec.D2
/-! Helper lemmas for C19 (no property statements here). -/
namespace Restli.D2

/-! ### association-list maps -/

def keys (m : UriMap) : List Bytes := m.map Prod.fst

theorem mapLookup_mapSet (k k' : Bytes) (v : Uri) (m : UriMap) :
    mapLookup k' (mapSet k v m) = if k' = k then some v else mapLookup k' m := by
  induction m with
  | nil =>
    simp only [mapSet, mapLookup]
    by_cases h : k' = k
    · simp [h]
    · have : ¬ k = k' := fun e => h e.symm
      simp [h, this]
  | cons kv r ih =>
    obtain ⟨k0, v0⟩ := kv
    simp only [mapSet]
    by_cases h0 : k0 = k
    · subst h0
      simp only [if_true, mapLookup]
      by_cases h : k' = k0
      · have : k0 = k' := h.symm
        simp [h]
      · have : ¬ k0 = k' := fun e => h e.symm
        simp [h, this]
    · simp only [h0, if_false, mapLookup]
      by_cases h1 : k0 = k'
      · subst h1
        simp [h0]
      · simp [h1, ih]

theorem mapLookup_mapDelete (k k' : Bytes) (m : UriMap) :
    mapLookup k' (mapDelete k m) = if k' = k then none else mapLookup k' m := by
  induction m with
  | nil => simp [mapDelete, mapLookup]
  | cons kv r ih =>
    obtain ⟨k0, v0⟩ := kv
    simp only [mapDelete]
    by_cases h0 : k0 = k
    · subst h0
      simp only [if_true, ih, mapLookup]
      by_cases h : k' = k0
      · simp [h]
      · have : ¬ k0 = k' := fun e => h e.symm
        simp [h, this]
    · simp only [h0, if_false, mapLookup, ih]
      by_cases h1 : k0 = k'
      · subst h1
        simp [h0]
      · simp [h1]

theorem mapSet_not_mem (k : Bytes) (v : Uri) (m : UriMap) (h : k ∉ keys m) :
    mapSet k v m = m ++ [(k, v)] := by
  induction m with
  | nil => rfl
  | cons kv r ih =>
    obtain ⟨k0, v0⟩ := kv
    simp only [keys, List.map_cons, List.mem_cons, not_or] at h
    have h0 : ¬ k0 = k := fun e => h.1 e.symm
    simp only [mapSet, h0, if_false, List.cons_append]
    rw [ih h.2]

theorem keys_mapSet_mem (k : Bytes) (v : Uri) (m : UriMap) (h : k ∈ keys m) :
    keys (mapSet k v m) = keys m := by
  induction m with
  | nil => simp [keys] at h
  | cons kv r ih =>
    obtain ⟨k0, v0⟩ := kv
    simp only [mapSet]
    by_cases h0 : k0 = k
    · simp [h0, keys]
    · simp only [keys, List.map_cons, List.mem_cons] at h
      have : k ∈ keys r := by
        rcases h with h | h
        · exact absurd h.symm h0
        · exact h
      simp only [h0, if_false, keys, List.map_cons]
      have := ih this
      simp only [keys] at this
      rw [this]

theorem keys_mapSet_nodup (k : Bytes) (v : Uri) (m : UriMap) (h : (keys m).Nodup) :
    (keys (mapSet k v m)).Nodup := by
  by_cases hk : k ∈ keys m
  · rw [keys_mapSet_mem k v m hk]; exact h
  · rw [mapSet_not_mem k v m hk]
    simp only [keys, List.map_append, List.map_cons, List.map_nil]
    rw [List.nodup_append]
    refine ⟨h, by simp, ?_⟩
    intro a ha b hb
    simp only [List.mem_cons, List.not_mem_nil, or_false] at hb
    subst hb
    intro e; subst e; exact hk ha

theorem keys_mapDelete_sublist (k : Bytes) (m : UriMap) : (keys (mapDelete k m)).Sublist (keys m) := by
  induction m with
  | nil => simp [mapDelete, keys]
  | cons kv r ih =>
    obtain ⟨k0, v0⟩ := kv
    simp only [mapDelete]
    by_cases h0 : k0 = k
    · simp only [h0, if_true, keys, List.map_cons]
      exact List.Sublist.cons _ ih
    · simp only [h0, if_false, keys, List.map_cons]
      exact List.Sublist.cons_cons _ ih

theorem keys_mapDelete_nodup (k : Bytes) (m : UriMap) (h : (keys m).Nodup) :
    (keys (mapDelete k m)).Nodup :=
  (keys_mapDelete_sublist k m).nodup h

theorem foldl_mapSet_append (m acc : UriMap) (hm : (keys m).Nodup)
    (hd : ∀ k ∈ keys m, k ∉ keys acc) :
    m.foldl (fun acc e => mapSet e.1 e.2 acc) acc = acc ++ m := by
  induction m generalizing acc with
  | nil => simp
  | cons kv r ih =>
    obtain ⟨k0, v0⟩ := kv
    simp only [List.foldl_cons]
    have h0 : k0 ∉ keys acc := hd k0 (by simp [keys])
    rw [mapSet_not_mem k0 v0 acc h0]
    simp only [keys, List.map_cons, List.nodup_cons] at hm
    rw [ih (acc ++ [(k0, v0)]) hm.2]
    · simp
    · intro k hk
      simp only [keys, List.map_append, List.map_cons, List.map_nil, List.mem_append,
        List.mem_cons, List.not_mem_nil, or_false, not_or]
      refine ⟨hd k (by simp only [keys, List.map_cons, List.mem_cons]; exact Or.inr hk), ?_⟩
      intro e; subst e; exact hm.1 hk

theorem mapCopy_eq (m : UriMap) (hm : (keys m).Nodup) : mapCopy m = m := by
  simp only [mapCopy]
  rw [foldl_mapSet_append m [] hm (by simp [keys])]
  simp

theorem mem_iff_mapLookup (m : UriMap) (hm : (keys m).Nodup) (k : Bytes) (v : Uri) :
    (k, v) ∈ m ↔ mapLookup k m = some v := by
  induction m with
  | nil => simp [mapLookup]
  | cons kv r ih =>
    obtain ⟨k0, v0⟩ := kv
    simp only [keys, List.map_cons, List.nodup_cons] at hm
    simp only [mapLookup, List.mem_cons, Prod.mk.injEq]
    by_cases h0 : k0 = k
    · subst h0
      simp only [if_true, Option.some.injEq, true_and]
      constructor
      · rintro (h | h)
        · exact h.symm
        · exact absurd (List.mem_map_of_mem (f := Prod.fst) h) hm.1
      · intro h; exact Or.inl h.symm
    · have : ¬ k = k0 := fun e => h0 e.symm
      simp only [h0, if_false, this, false_and, false_or]
      exact ih hm.2

/-! ### `handleUriUpdate` on values -/

/-- Go-map well-formedness of a snapshot -/
def Inv (w : ServiceUris) : Prop := (keys w.uris).Nodup

theorem copy_eq (w : ServiceUris) (h : Inv w) : w.copy = w := by
  cases w with
  | mk z u => simp only [ServiceUris.copy, mapCopy_eq u h]

theorem handle_zkPath (w : ServiceUris) (e : Event) : (handleUriUpdate w e).zkPath = w.zkPath := by
  simp only [handleUriUpdate]
  split
  · rfl
  · split
    · rfl
    · rfl
    · split <;> rfl

theorem handle_inv (w : ServiceUris) (e : Event) (h : Inv w) : Inv (handleUriUpdate w e) := by
  simp only [handleUriUpdate, copy_eq w h]
  split
  · exact h
  · split
    · exact keys_mapDelete_nodup _ _ h
    · exact h
    · split
      · exact h
      · exact keys_mapSet_nodup _ _ _ h

theorem relPath?_eq (zk p : Bytes) :
    (Spec.relPath? zk p).getD p = trimPrefix p zk := by
  have key : ∀ (zk p : Bytes), Spec.relPath? zk p = if zk.isPrefixOf p then some (p.drop zk.length) else none := by
    intro zk
    induction zk with
    | nil => intro p; simp [Spec.relPath?]
    | cons z zs ih =>
      intro p
      cases p with
      | nil => simp [Spec.relPath?]
      | cons c cs =>
        simp only [Spec.relPath?, List.isPrefixOf, List.length_cons, List.drop_succ_cons]
        by_cases hzc : z = c
        · subst hzc; simp [ih]
        · simp [hzc]
  rw [key]
  simp only [trimPrefix]
  split <;> simp

/-- one step, seen through `mapLookup`, for a well-formed snapshot -/
theorem lookup_handle (w : ServiceUris) (e : Event) (h : Inv w) (n : Bytes) :
    mapLookup n (handleUriUpdate w e).uris =
      match Spec.readEvent w.zkPath e with
      | none => mapLookup n w.uris
      | some ev =>
        if ev.node = n then
          match ev.change with
          | .announce a => some a
          | .delete => none
          | .malformed => mapLookup n w.uris
          | .weightless => mapLookup n w.uris
        else mapLookup n w.uris := by
  simp only [handleUriUpdate, copy_eq w h, Spec.readEvent, relPath?_eq]
  by_cases hp : trimPrefix e.path w.zkPath = []
  · simp [hp]
  · simp only [hp, if_false]
    cases hd : e.data with
    | none =>
      simp only [mapLookup_mapDelete]
      by_cases hn : n = trimPrefix e.path w.zkPath
      · simp [hn]
      · have : ¬ trimPrefix e.path w.zkPath = n := fun e => hn e.symm
        simp [hn, this]
    | some pl =>
      cases pl with
      | malformed => simp
      | uri u =>
        by_cases hw : u.weights = []
        · simp [hw]
        · have hl : ¬ u.weights.length = 0 := by
            intro h0; exact hw (List.eq_nil_of_length_eq_zero h0)
          simp only [hl, if_false, hw, mapLookup_mapSet]
          by_cases hn : n = trimPrefix e.path w.zkPath
          · simp [hn]
          · have : ¬ trimPrefix e.path w.zkPath = n := fun e => hn e.symm
            simp [hn, this]

theorem run_inv (w : ServiceUris) (h : List Event) (hi : Inv w) : Inv (runUpdates w h) := by
  induction h generalizing w with
  | nil => exact hi
  | cons e r ih => exact ih _ (handle_inv w e hi)

theorem run_zkPath (w : ServiceUris) (h : List Event) : (runUpdates w h).zkPath = w.zkPath := by
  induction h generalizing w with
  | nil => rfl
  | cons e r ih =>
    simp only [runUpdates, List.foldl_cons] at ih ⊢
    rw [ih, handle_zkPath]

theorem run_snoc (w : ServiceUris) (h : List Event) (e : Event) :
    runUpdates w (h ++ [e]) = handleUriUpdate (runUpdates w h) e := by
  simp [runUpdates, List.foldl_append]

/-- induction on a list from the right -/
theorem snoc_induction {α : Type} {P : List α → Prop} (hnil : P [])
    (hsnoc : ∀ l a, P l → P (l ++ [a])) : ∀ l, P l := by
  intro l
  have : ∀ r : List α, P r.reverse := by
    intro r
    induction r with
    | nil => exact hnil
    | cons a r ih => rw [List.reverse_cons]; exact hsnoc _ _ ih
  have h := this l.reverse
  rwa [List.reverse_reverse] at h

theorem lookup_run (zk : Bytes) (w : ServiceUris) (hw : Inv w) (hz : w.zkPath = zk) (hempty : w.uris = [])
    (h : List Event) (n : Bytes) :
    mapLookup n (runUpdates w h).uris = Spec.lastValid n (Spec.readHistory zk h) := by
  induction h using snoc_induction with
  | hnil => simp [runUpdates, hempty, mapLookup, Spec.lastValid, Spec.readHistory, Spec.lastValidRev]
  | hsnoc l e ih =>
    rw [run_snoc, lookup_handle _ _ (run_inv w l hw), run_zkPath, hz]
    simp only [Spec.lastValid, Spec.readHistory, List.filterMap_append, List.filterMap_cons,
      List.filterMap_nil] at ih ⊢
    cases hre : Spec.readEvent zk e with
    | none => simp [ih]
    | some ev =>
      simp only [List.reverse_append, List.reverse_cons, List.reverse_nil, List.nil_append,
        List.cons_append, Spec.lastValidRev]
      by_cases hn : ev.node = n
      · simp only [hn, if_true]
        cases ev.change <;> simp [ih]
      · simp [hn, ih]

/-! ### snapshots as values -/

theorem snapshots_length (w : ServiceUris) (h : List Event) : (snapshots w h).length = h.length + 1 := by
  induction h generalizing w with
  | nil => rfl
  | cons e r ih => simp [snapshots, ih]

theorem snapshots_getElem? (w : ServiceUris) (h : List Event) (i : Nat) (hi : i ≤ h.length) :
    (snapshots w h)[i]? = some (runUpdates w (h.take i)) := by
  induction h generalizing w i with
  | nil =>
    have : i = 0 := by simpa using hi
    subst this; rfl
  | cons e r ih =>
    cases i with
    | zero => rfl
    | succ j =>
      simp only [snapshots, List.getElem?_cons_succ, List.take_succ_cons, runUpdates, List.foldl_cons]
      exact ih _ j (by simpa using hi)

theorem snapshots_append (w : ServiceUris) (h h' : List Event) :
    (snapshots w (h ++ h')).take (h.length + 1) = snapshots w h := by
  induction h generalizing w with
  | nil => cases h' <;> simp [snapshots]
  | cons e r ih => simp only [List.cons_append, snapshots, List.length_cons, List.take_succ_cons, ih]

/-! ### the heap-level model -/

theorem handleH_spec (H : Heap) (a : Nat) (e : Event) (w : ServiceUris) (hg : H.get? a = some w) :
    ∃ H' a', handleUriUpdateH H a e = some (H', a') ∧ H'.get? a' = some (handleUriUpdate w e) ∧
      H.size ≤ H'.size ∧ ∀ b, b < H.size → H'.get? b = H.get? b := by
  have alloc_mod : ∀ (f : ServiceUris → ServiceUris),
      ((H.alloc w.copy).1.modify (H.alloc w.copy).2 f).get? (H.alloc w.copy).2 = some (f w.copy) ∧
      H.size ≤ ((H.alloc w.copy).1.modify (H.alloc w.copy).2 f).size ∧
      ∀ b, b < H.size → ((H.alloc w.copy).1.modify (H.alloc w.copy).2 f).get? b = H.get? b := by
    intro f
    simp only [Heap.alloc, Heap.modify, Heap.get?, Heap.size, List.getElem?_modify,
      List.length_modify, List.length_append, List.length_cons, List.length_nil]
    refine ⟨by simp, by omega, ?_⟩
    intro b hb
    have : ¬ H.cells.length = b := by omega
    simp [this, List.getElem?_append_left hb]
  simp only [handleUriUpdateH, hg, handleUriUpdate]
  by_cases hp : trimPrefix e.path w.zkPath = []
  · exact ⟨H, a, by simp [hp], by simp [hp, hg], Nat.le_refl _, fun _ _ => rfl⟩
  · simp only [hp, if_false]
    cases hd : e.data with
    | none =>
      obtain ⟨h1, h2, h3⟩ := alloc_mod (fun c => { c with uris := mapDelete (trimPrefix e.path w.zkPath) c.uris })
      exact ⟨_, _, rfl, h1, h2, h3⟩
    | some pl =>
      cases pl with
      | malformed => exact ⟨H, a, rfl, hg, Nat.le_refl _, fun _ _ => rfl⟩
      | uri u =>
        by_cases hl : u.weights.length = 0
        · exact ⟨H, a, by simp [hl], by simp [hl, hg], Nat.le_refl _, fun _ _ => rfl⟩
        · obtain ⟨h1, h2, h3⟩ := alloc_mod (fun c => { c with uris := mapSet (trimPrefix e.path w.zkPath) u c.uris })
          refine ⟨_, (H.alloc w.copy).2, by simp only [hl, if_false], by simp only [hl, if_false]; exact h1, h2, h3⟩

theorem runH_spec (H : Heap) (a : Nat) (h : List Event) (w : ServiceUris) (hg : H.get? a = some w) :
    ∃ H' a', runUpdatesH H a h = some (H', a') ∧ H'.get? a' = some (runUpdates w h) ∧
      H.size ≤ H'.size ∧ ∀ b, b < H.size → H'.get? b = H.get? b := by
  induction h generalizing H a w with
  | nil => exact ⟨H, a, rfl, hg, Nat.le_refl _, fun _ _ => rfl⟩
  | cons e r ih =>
    obtain ⟨H1, a1, h1, g1, s1, f1⟩ := handleH_spec H a e w hg
    obtain ⟨H2, a2, h2, g2, s2, f2⟩ := ih H1 a1 (handleUriUpdate w e) g1
    refine ⟨H2, a2, ?_, ?_, Nat.le_trans s1 s2, ?_⟩
    · simp only [runUpdatesH, h1, h2]
    · simpa [runUpdates] using g2
    · intro b hb
      rw [f2 b (Nat.lt_of_lt_of_le hb s1), f1 b hb]

theorem runH_append (H : Heap) (a : Nat) (h h' : List Event) :
    runUpdatesH H a (h ++ h') =
      match runUpdatesH H a h with
      | none => none
      | some (H', a') => runUpdatesH H' a' h' := by
  induction h generalizing H a with
  | nil => simp [runUpdatesH]
  | cons e r ih =>
    simp only [List.cons_append, runUpdatesH]
    cases handleUriUpdateH H a e with
    | none => rfl
    | some p => obtain ⟨H1, a1⟩ := p; exact ih H1 a1

/-! ### which entries resolution sees -/

theorem mem_iterSeq (m : UriMap) (hm : (keys m).Nodup) (e : Entry) :
    e ∈ iterSeq m ↔ ∃ n u, mapLookup n m = some u ∧ e ∈ u.weights := by
  simp only [iterSeq, List.mem_flatMap]
  constructor
  · rintro ⟨⟨k, u⟩, hkv, he⟩
    exact ⟨k, u, (mem_iff_mapLookup m hm k u).1 hkv, he⟩
  · rintro ⟨n, u, hl, he⟩
    exact ⟨(n, u), (mem_iff_mapLookup m hm n u).2 hl, he⟩

/-! ### selection: the two passes -/

theorem totalWeight_eq_weightOf (f : Host → Bool) (es : List Entry) :
    totalWeight f es = Spec.weightOf f es := by
  induction es with
  | nil => rfl
  | cons e r ih =>
    obtain ⟨h, w⟩ := e
    simp only [totalWeight, Spec.weightOf, List.filter_cons] at ih ⊢
    by_cases hf : f h = true
    · simp [hf, ih]
    · simp [hf, ih]

theorem totalWeight_perm (f : Host → Bool) {a b : List Entry} (h : a.Perm b) :
    totalWeight f a = totalWeight f b := by
  rw [totalWeight_eq_weightOf, totalWeight_eq_weightOf]
  exact ((h.filter _).map _).sum_nat

theorem totalWeight_zero_of_none (f : Host → Bool) (es : List Entry)
    (h : ∀ e ∈ es, f e.1 = false) : totalWeight f es = 0 := by
  induction es with
  | nil => rfl
  | cons e r ih =>
    obtain ⟨h0, w⟩ := e
    have := h (h0, w) (by simp)
    simp only at this
    simp only [totalWeight, this]
    exact ih (fun e he => h e (List.mem_cons_of_mem _ he))

theorem exists_of_totalWeight_pos (f : Host → Bool) (es : List Entry) (h : 0 < totalWeight f es) :
    ∃ e ∈ es, f e.1 = true ∧ 0 < e.2 := by
  induction es with
  | nil => simp [totalWeight] at h
  | cons e r ih =>
    obtain ⟨h0, w⟩ := e
    simp only [totalWeight] at h
    by_cases hf : f h0 = true
    · simp only [hf, if_true] at h
      by_cases hw : 0 < w
      · exact ⟨(h0, w), by simp, hf, hw⟩
      · obtain ⟨e, he, h1, h2⟩ := ih (by omega)
        exact ⟨e, List.mem_cons_of_mem _ he, h1, h2⟩
    · simp only [hf] at h
      obtain ⟨e, he, h1, h2⟩ := ih h
      exact ⟨e, List.mem_cons_of_mem _ he, h1, h2⟩

theorem totalWeight_pos_of_exists (f : Host → Bool) (es : List Entry)
    (h : ∃ e ∈ es, f e.1 = true ∧ 0 < e.2) : 0 < totalWeight f es := by
  induction es with
  | nil => simp at h
  | cons e r ih =>
    obtain ⟨h0, w⟩ := e
    obtain ⟨e', he', h1, h2⟩ := h
    simp only [totalWeight]
    rcases List.mem_cons.1 he' with heq | hin
    · subst heq
      simp only at h1 h2
      simp only [h1, if_true]; omega
    · have := ih ⟨e', hin, h1, h2⟩
      split <;> omega

theorem chooseLoop_mem (f : Host → Bool) (q : Nat) :
    ∀ (it : List Entry) (rw : Int) (h : Host), chooseLoop f q it rw = some h →
      ∃ w, (h, w) ∈ it ∧ f h = true
  | [], _, _, hc => by simp [chooseLoop] at hc
  | (h0, w0) :: r, rw, h, hc => by
    simp only [chooseLoop] at hc
    by_cases hf : f h0 = true
    · simp only [hf, if_true] at hc
      by_cases hs : rw - ((q * w0 : Nat) : Int) ≤ 0
      · simp only [hs, if_true, Option.some.injEq] at hc
        subst hc
        exact ⟨w0, by simp, hf⟩
      · simp only [hs, if_false] at hc
        obtain ⟨w, hw, hfh⟩ := chooseLoop_mem f q r _ h hc
        exact ⟨w, List.mem_cons_of_mem _ hw, hfh⟩
    · simp only [hf] at hc
      obtain ⟨w, hw, hfh⟩ := chooseLoop_mem f q r _ h hc
      exact ⟨w, List.mem_cons_of_mem _ hw, hfh⟩

theorem chooseLoop_none_of_gt (f : Host → Bool) (q : Nat) :
    ∀ (it : List Entry) (rw : Int), ((q * totalWeight f it : Nat) : Int) < rw →
      chooseLoop f q it rw = none
  | [], _, _ => rfl
  | (h0, w0) :: r, rw, hgt => by
    simp only [chooseLoop, totalWeight] at hgt ⊢
    by_cases hf : f h0 = true
    · simp only [hf, if_true] at hgt ⊢
      rw [Nat.mul_add] at hgt
      have hs : ¬ (rw - ((q * w0 : Nat) : Int) ≤ 0) := by omega
      simp only [hs, if_false]
      exact chooseLoop_none_of_gt f q r _ (by omega)
    · simp only [hf] at hgt ⊢
      exact chooseLoop_none_of_gt f q r rw hgt

theorem chooseLoop_none_of_no_eligible (f : Host → Bool) (q : Nat) :
    ∀ (it : List Entry) (rw : Int), (∀ e ∈ it, f e.1 = false) → chooseLoop f q it rw = none
  | [], _, _ => rfl
  | (h0, w0) :: r, rw, hn => by
    have h0f : f h0 = false := hn (h0, w0) (by simp)
    simp only [chooseLoop, h0f]
    exact chooseLoop_none_of_no_eligible f q r rw (fun e he => hn e (List.mem_cons_of_mem _ he))

theorem chooseLoop_some_of_le (f : Host → Bool) (q : Nat) :
    ∀ (it : List Entry) (rw : Int), rw ≤ ((q * totalWeight f it : Nat) : Int) →
      (∃ e ∈ it, f e.1 = true) → chooseLoop f q it rw ≠ none
  | [], _, _, he => by simp at he
  | (h0, w0) :: r, rw, hle, he => by
    simp only [chooseLoop, totalWeight] at hle ⊢
    by_cases hf : f h0 = true
    · simp only [hf, if_true] at hle ⊢
      rw [Nat.mul_add] at hle
      by_cases hs : rw - ((q * w0 : Nat) : Int) ≤ 0
      · rw [if_pos hs]; simp
      · simp only [hs, if_false]
        have hle' : rw - ((q * w0 : Nat) : Int) ≤ ((q * totalWeight f r : Nat) : Int) := by omega
        have hpos : 0 < totalWeight f r := by
          apply Nat.pos_of_ne_zero
          intro h0
          rw [h0] at hle'
          simp only [Nat.mul_zero] at hle'
          omega
        obtain ⟨e, hin, h1, _⟩ := exists_of_totalWeight_pos f r hpos
        exact chooseLoop_some_of_le f q r _ hle' ⟨e, hin, h1⟩
    · simp only [hf] at hle ⊢
      obtain ⟨e, hin, h1⟩ := he
      rcases List.mem_cons.1 hin with heq | hin'
      · subst heq; exact absurd h1 hf
      · exact chooseLoop_some_of_le f q r rw hle ⟨e, hin', h1⟩

theorem chooseLoop_pos (f : Host → Bool) (q : Nat) :
    ∀ (it : List Entry) (rw : Int) (h : Host), 0 < rw → chooseLoop f q it rw = some h →
      ∃ w, (h, w) ∈ it ∧ f h = true ∧ 0 < w
  | [], _, _, _, hc => by simp [chooseLoop] at hc
  | (h0, w0) :: r, rw, h, hpos, hc => by
    simp only [chooseLoop] at hc
    by_cases hf : f h0 = true
    · simp only [hf, if_true] at hc
      by_cases hs : rw - ((q * w0 : Nat) : Int) ≤ 0
      · simp only [hs, if_true, Option.some.injEq] at hc
        subst hc
        refine ⟨w0, by simp, hf, ?_⟩
        apply Nat.pos_of_ne_zero
        intro hz
        rw [hz] at hs
        simp only [Nat.mul_zero] at hs
        omega
      · simp only [hs, if_false] at hc
        obtain ⟨w, hw, hfh, hwp⟩ := chooseLoop_pos f q r _ h (by omega) hc
        exact ⟨w, List.mem_cons_of_mem _ hw, hfh, hwp⟩
    · simp only [hf] at hc
      obtain ⟨w, hw, hfh, hwp⟩ := chooseLoop_pos f q r _ h hpos hc
      exact ⟨w, List.mem_cons_of_mem _ hw, hfh, hwp⟩

/-- the loop and its position-returning twin agree -/
theorem chooseLoop_eq_idx (f : Host → Bool) (q : Nat) :
    ∀ (it : List Entry) (rw : Int),
      chooseLoop f q it rw = (chooseLoopIdx f q it rw).bind (fun j => it[j]?.map Prod.fst)
  | [], _ => rfl
  | (h0, w0) :: r, rw => by
    simp only [chooseLoop, chooseLoopIdx]
    by_cases hf : f h0 = true
    · simp only [hf, if_true]
      by_cases hs : rw - ((q * w0 : Nat) : Int) ≤ 0
      · rw [if_pos hs, if_pos hs]; simp
      · simp only [hs, if_false]
        rw [chooseLoop_eq_idx f q r]
        cases chooseLoopIdx f q r (rw - ((q * w0 : Nat) : Int)) <;> simp
    · have hf' : f h0 = false := by simpa using hf
      simp only [hf', Bool.false_eq_true, if_false]
      rw [chooseLoop_eq_idx f q r]
      cases chooseLoopIdx f q r rw <;> simp

/-- where the loop stops -/
theorem chooseLoopIdx_at (f : Host → Bool) (q : Nat) (h : Host) (w : Nat) (post : List Entry) :
    ∀ (pre : List Entry) (rw : Int),
      chooseLoopIdx f q (pre ++ (h, w) :: post) rw = some pre.length ↔
        (f h = true ∧ rw ≤ ((q * (totalWeight f pre + w) : Nat) : Int) ∧
          (((q * totalWeight f pre : Nat) : Int) < rw ∨ ∀ e ∈ pre, f e.1 = false))
  | [], rw => by
    simp only [List.nil_append, chooseLoopIdx, List.length_nil, totalWeight, Nat.zero_add,
      Nat.mul_zero]
    by_cases hf : f h = true
    · simp only [hf, if_true, true_and]
      by_cases hs : rw - ((q * w : Nat) : Int) ≤ 0
      · simp only [hs, if_true, true_iff]
        exact ⟨by omega, Or.inr (by simp)⟩
      · simp only [hs, if_false]
        constructor
        · intro hc
          cases hx : chooseLoopIdx f q post (rw - ((q * w : Nat) : Int)) with
          | none => simp at hc
          | some j => simp at hc
        · intro hc; omega
    · simp only [hf]
      constructor
      · intro hc
        cases hx : chooseLoopIdx f q post rw with
        | none => simp [hx] at hc
        | some j => simp [hx] at hc
      · intro hc; exact absurd hc.1 (by simp)
  | (h0, w0) :: pre, rw => by
    simp only [List.cons_append, chooseLoopIdx, List.length_cons, totalWeight]
    by_cases hf0 : f h0 = true
    · simp only [hf0, if_true]
      by_cases hs : rw - ((q * w0 : Nat) : Int) ≤ 0
      · simp only [hs, if_true]
        constructor
        · intro hc; simp at hc
        · rintro ⟨_, _, hlt | hall⟩
          · rw [Nat.mul_add] at hlt; omega
          · have := hall (h0, w0) (by simp)
            simp only at this
            rw [hf0] at this; exact absurd this (by simp)
      · simp only [hs, if_false]
        have ih := chooseLoopIdx_at f q h w post pre (rw - ((q * w0 : Nat) : Int))
        have hmap : ∀ o : Option Nat, (o.map (· + 1) = some (pre.length + 1)) ↔ o = some pre.length := by
          intro o; cases o <;> simp
        rw [hmap, ih]
        have e1 : q * (w0 + totalWeight f pre + w) = q * w0 + q * (totalWeight f pre + w) := by
          rw [Nat.add_assoc, Nat.mul_add]
        have e2 : q * (w0 + totalWeight f pre) = q * w0 + q * totalWeight f pre := Nat.mul_add _ _ _
        rw [e1, e2]
        constructor
        · rintro ⟨h1, h2, h3⟩
          refine ⟨h1, by omega, Or.inl ?_⟩
          rcases h3 with h3 | h3
          · omega
          · rw [totalWeight_zero_of_none f pre h3]; simp only [Nat.mul_zero]; omega
        · rintro ⟨h1, h2, h3⟩
          refine ⟨h1, by omega, Or.inl ?_⟩
          rcases h3 with h3 | h3
          · omega
          · have := h3 (h0, w0) (by simp)
            simp only at this
            rw [hf0] at this; exact absurd this (by simp)
    · have hf0' : f h0 = false := by simpa using hf0
      simp only [hf0', Bool.false_eq_true, if_false]
      have ih := chooseLoopIdx_at f q h w post pre rw
      have hmap : ∀ o : Option Nat, (o.map (· + 1) = some (pre.length + 1)) ↔ o = some pre.length := by
        intro o; cases o <;> simp
      rw [hmap, ih]
      constructor
      · rintro ⟨h1, h2, h3⟩
        refine ⟨h1, h2, ?_⟩
        rcases h3 with h3 | h3
        · exact Or.inl h3
        · refine Or.inr ?_
          intro e he
          rcases List.mem_cons.1 he with heq | hin
          · subst heq; exact hf0'
          · exact h3 e hin
      · rintro ⟨h1, h2, h3⟩
        refine ⟨h1, h2, ?_⟩
        rcases h3 with h3 | h3
        · exact Or.inl h3
        · exact Or.inr (fun e he => h3 e (List.mem_cons_of_mem _ he))

/-! ### selection: one call of `filterAndChooseHost`, then `chooseHost` -/

theorem filter_none_iff (f : Host → Bool) (es : List Entry) (d : Draw) (hv : d.Valid es) :
    filterAndChooseHost f d = none ↔ ∀ e ∈ es, f e.1 = false := by
  obtain ⟨h1, h2, hpq⟩ := hv
  simp only [filterAndChooseHost]
  rw [totalWeight_perm f h1, ← totalWeight_perm f h2]
  constructor
  · intro hn e he
    cases hfe : f e.1 with
    | false => rfl
    | true =>
      exfalso
      have hle : ((d.p * totalWeight f d.it2 : Nat) : Int) ≤ ((d.q * totalWeight f d.it2 : Nat) : Int) := by
        have := Nat.mul_le_mul_right (totalWeight f d.it2) (Nat.le_of_lt hpq)
        omega
      exact chooseLoop_some_of_le f d.q d.it2 _ hle ⟨e, h2.mem_iff.2 he, hfe⟩ hn
  · intro hall
    exact chooseLoop_none_of_no_eligible f d.q d.it2 _ (fun e he => hall e (h2.mem_iff.1 he))

theorem filter_some_mem (f : Host → Bool) (es : List Entry) (d : Draw) (hv : d.Valid es) (h : Host)
    (hc : filterAndChooseHost f d = some h) : ∃ w, (h, w) ∈ es ∧ f h = true := by
  obtain ⟨w, hw, hf⟩ := chooseLoop_mem f d.q d.it2 _ h hc
  exact ⟨w, hv.2.1.mem_iff.1 hw, hf⟩

theorem filter_some_pos (f : Host → Bool) (es : List Entry) (d : Draw) (hv : d.Valid es) (h : Host)
    (hp : 0 < d.p) (hex : ∃ e ∈ es, f e.1 = true ∧ 0 < e.2)
    (hc : filterAndChooseHost f d = some h) : ∃ w, (h, w) ∈ es ∧ f h = true ∧ 0 < w := by
  have hT : 0 < totalWeight f d.it1 := by
    rw [totalWeight_perm f hv.1]
    exact totalWeight_pos_of_exists f es hex
  have hrw : (0 : Int) < ((d.p * totalWeight f d.it1 : Nat) : Int) := by
    have := Nat.mul_pos hp hT
    omega
  obtain ⟨w, hw, hf, hwp⟩ := chooseLoop_pos f d.q d.it2 _ h hrw hc
  exact ⟨w, hv.2.1.mem_iff.1 hw, hf, hwp⟩

theorem any_hasScheme (s : Bytes) (es : List Entry) :
    es.any (Spec.hasScheme s) = true ↔ ∃ e ∈ es, (fun h : Host => h.scheme == s) e.1 = true := by
  simp [List.any_eq_true, Spec.hasScheme]

theorem topScheme_cons (s0 : Bytes) (rest : List Bytes) (es : List Entry) :
    Spec.topScheme (s0 :: rest) es =
      if es.any (Spec.hasScheme s0) then some s0 else Spec.topScheme rest es := by
  simp only [Spec.topScheme, List.find?_cons]
  cases es.any (Spec.hasScheme s0) <;> simp

theorem chooseHostFrom_none (es : List Entry) (env : Nat → Draw) (hv : ∀ k, (env k).Valid es) :
    ∀ (prio : List Bytes) (k : Nat), Spec.topScheme prio es = none → chooseHostFrom env prio k = none
  | [], _, _ => rfl
  | s0 :: rest, k, ht => by
    rw [topScheme_cons] at ht
    cases hany : es.any (Spec.hasScheme s0) with
    | true => simp [hany] at ht
    | false =>
      simp only [hany, Bool.false_eq_true, if_false] at ht
      have hnone : filterAndChooseHost (fun h => h.scheme == s0) (env k) = none := by
        rw [filter_none_iff _ es _ (hv k)]
        intro e he
        cases hfe : (e.1.scheme == s0) with
        | false => rfl
        | true =>
          have : es.any (Spec.hasScheme s0) = true := (any_hasScheme s0 es).2 ⟨e, he, hfe⟩
          rw [hany] at this; exact absurd this (by simp)
      simp only [chooseHostFrom, hnone]
      exact chooseHostFrom_none es env hv rest (k + 1) ht

theorem chooseHostFrom_some (es : List Entry) (env : Nat → Draw) (hv : ∀ k, (env k).Valid es) (s : Bytes) :
    ∀ (prio : List Bytes) (k : Nat), Spec.topScheme prio es = some s →
      ∃ j, chooseHostFrom env prio k = filterAndChooseHost (fun h => h.scheme == s) (env j)
  | [], _, ht => by simp [Spec.topScheme] at ht
  | s0 :: rest, k, ht => by
    rw [topScheme_cons] at ht
    cases hany : es.any (Spec.hasScheme s0) with
    | true =>
      simp only [hany, if_true, Option.some.injEq] at ht
      subst ht
      refine ⟨k, ?_⟩
      simp only [chooseHostFrom]
      cases hc : filterAndChooseHost (fun h => h.scheme == s0) (env k) with
      | some h => rfl
      | none =>
        exfalso
        rw [filter_none_iff _ es _ (hv k)] at hc
        obtain ⟨e, he, hfe⟩ := (any_hasScheme s0 es).1 hany
        have hfe' : (e.1.scheme == s0) = true := hfe
        rw [hc e he] at hfe'; exact absurd hfe' (by simp)
    | false =>
      simp only [hany, Bool.false_eq_true, if_false] at ht
      have hnone : filterAndChooseHost (fun h => h.scheme == s0) (env k) = none := by
        rw [filter_none_iff _ es _ (hv k)]
        intro e he
        cases hfe : (e.1.scheme == s0) with
        | false => rfl
        | true =>
          have : es.any (Spec.hasScheme s0) = true := (any_hasScheme s0 es).2 ⟨e, he, hfe⟩
          rw [hany] at this; exact absurd this (by simp)
      simp only [chooseHostFrom, hnone]
      exact chooseHostFrom_some es env hv s rest (k + 1) ht

theorem topScheme_some_any (prio : List Bytes) (es : List Entry) (s : Bytes)
    (h : Spec.topScheme prio es = some s) : s ∈ prio ∧ es.any (Spec.hasScheme s) = true := by
  simp only [Spec.topScheme] at h
  exact ⟨List.mem_of_find?_eq_some h, List.find?_some (p := fun s => es.any (Spec.hasScheme s)) h⟩

/-- `chooseHost` is one call of `filterAndChooseHost` with the filter the specification names -/
theorem chooseHost_reduces (es : List Entry) (env : Nat → Draw) (hv : ∀ k, (env k).Valid es)
    (prio : List Bytes) :
    (prio = [] ∧ chooseHost prio env = filterAndChooseHost (fun _ => true) (env 0)) ∨
    (prio ≠ [] ∧ Spec.topScheme prio es = none ∧ chooseHost prio env = none) ∨
    (prio ≠ [] ∧ ∃ s j, Spec.topScheme prio es = some s ∧
      chooseHost prio env = filterAndChooseHost (fun h => h.scheme == s) (env j)) := by
  cases prio with
  | nil => left; exact ⟨rfl, by simp [chooseHost]⟩
  | cons s0 rest =>
    right
    have hne : (s0 :: rest) ≠ [] := by simp
    have hch : chooseHost (s0 :: rest) env = chooseHostFrom env (s0 :: rest) 0 := by
      simp [chooseHost]
    cases ht : Spec.topScheme (s0 :: rest) es with
    | none => left; exact ⟨hne, rfl, by rw [hch]; exact chooseHostFrom_none es env hv _ 0 ht⟩
    | some s =>
      right
      obtain ⟨j, hj⟩ := chooseHostFrom_some es env hv s _ 0 ht
      exact ⟨hne, s, j, rfl, by rw [hch]; exact hj⟩

/-- a host that occurs once in the iteration sequence is found only at its own position -/
theorem getElem?_split_unique (pre post : List Entry) (h : Host) (w : Nat)
    (huniq : ∀ e ∈ pre ++ post, e.1 ≠ h) (j : Nat)
    (hj : ((pre ++ (h, w) :: post)[j]?).map Prod.fst = some h) : j = pre.length := by
  rcases Nat.lt_trichotomy j pre.length with hlt | heq | hgt
  · exfalso
    rw [List.getElem?_append_left hlt] at hj
    cases hx : pre[j]? with
    | none => simp [hx] at hj
    | some e =>
      simp only [hx, Option.map_some, Option.some.injEq] at hj
      exact huniq e (List.mem_append_left _ (List.mem_of_getElem? hx)) hj
  · exact heq
  · exfalso
    rw [List.getElem?_append_right (Nat.le_of_lt hgt)] at hj
    obtain ⟨k, hk⟩ : ∃ k, j - pre.length = k + 1 := ⟨j - pre.length - 1, by omega⟩
    rw [hk, List.getElem?_cons_succ] at hj
    cases hx : post[k]? with
    | none => simp [hx] at hj
    | some e =>
      simp only [hx, Option.map_some, Option.some.injEq] at hj
      exact huniq e (List.mem_append_right _ (List.mem_of_getElem? hx)) hj

end Restli.D2
