import Restli.Model.D2
import Restli.Spec.D2
/-! Helper lemmas for C19 (no property statements here). -/
namespace Restli.D2

/-! ### association-list maps -/

def keys (m : UriMap) : List Bytes := m.map Prod.fst

theorem mapLookup_mapSet (k k' : Bytes) (v : Uri) (m : UriMap) :
    mapLookup k' (mapSet k v m) = if k' = k then some v else mapLookup k' m := by
  induction m with
  | nil =>
    simp only [mapSet, mapLookup]
    by_cases h : k' = k
    · simp [h]
    · have : ¬ k = k' := fun e => h e.symm
      simp [h, this]
  | cons kv r ih =>
    obtain ⟨k0, v0⟩ := kv
    simp only [mapSet]
    by_cases h0 : k0 = k
    · subst h0
      simp only [if_true, mapLookup]
      by_cases h : k' = k0
      · have : k0 = k' := h.symm
        simp [h]
      · have : ¬ k0 = k' := fun e => h e.symm
        simp [h, this]
    · simp only [h0, if_false, mapLookup]
      by_cases h1 : k0 = k'
      · subst h1
        simp [h0]
      · simp [h1, ih]

theorem mapLookup_mapDelete (k k' : Bytes) (m : UriMap) :
    mapLookup k' (mapDelete k m) = if k' = k then none else mapLookup k' m := by
  induction m with
  | nil => simp [mapDelete, mapLookup]
  | cons kv r ih =>
    obtain ⟨k0, v0⟩ := kv
    simp only [mapDelete]
    by_cases h0 : k0 = k
    · subst h0
      simp only [if_true, ih, mapLookup]
      by_cases h : k' = k0
      · simp [h]
      · have : ¬ k0 = k' := fun e => h e.symm
        simp [h, this]
    · simp only [h0, if_false, mapLookup, ih]
      by_cases h1 : k0 = k'
      · subst h1
        simp [h0]
      · simp [h1]

theorem mapSet_not_mem (k : Bytes) (v : Uri) (m : UriMap) (h : k ∉ keys m) :
    mapSet k v m = m ++ [(k, v)] := by
  induction m with
  | nil => rfl
  | cons kv r ih =>
    obtain ⟨k0, v0⟩ := kv
    simp only [keys, List.map_cons, List.mem_cons, not_or] at h
    have h0 : ¬ k0 = k := fun e => h.1 e.symm
    simp only [mapSet, h0, if_false, List.cons_append]
    rw [ih h.2]

theorem keys_mapSet_mem (k : Bytes) (v : Uri) (m : UriMap) (h : k ∈ keys m) :
    keys (mapSet k v m) = keys m := by
  induction m with
  | nil => simp [keys] at h
  | cons kv r ih =>
    obtain ⟨k0, v0⟩ := kv
    simp only [mapSet]
    by_cases h0 : k0 = k
    · simp [h0, keys]
    · simp only [keys, List.map_cons, List.mem_cons] at h
      have : k ∈ keys r := by
        rcases h with h | h
        · exact absurd h.symm h0
        · exact h
      simp only [h0, if_false, keys, List.map_cons]
      have := ih this
      simp only [keys] at this
      rw [this]

theorem keys_mapSet_nodup (k : Bytes) (v : Uri) (m : UriMap) (h : (keys m).Nodup) :
    (keys (mapSet k v m)).Nodup := by
  by_cases hk : k ∈ keys m
  · rw [keys_mapSet_mem k v m hk]; exact h
  · rw [mapSet_not_mem k v m hk]
    simp only [keys, List.map_append, List.map_cons, List.map_nil]
    rw [List.nodup_append]
    refine ⟨h, by simp, ?_⟩
    intro a ha b hb
    simp only [List.mem_cons, List.not_mem_nil, or_false] at hb
    subst hb
    intro e; subst e; exact hk ha

theorem keys_mapDelete_sublist (k : Bytes) (m : UriMap) : (keys (mapDelete k m)).Sublist (keys m) := by
  induction m with
  | nil => simp [mapDelete, keys]
  | cons kv r ih =>
    obtain ⟨k0, v0⟩ := kv
    simp only [mapDelete]
    by_cases h0 : k0 = k
    · simp only [h0, if_true, keys, List.map_cons]
      exact List.Sublist.cons _ ih
    · simp only [h0, if_false, keys, List.map_cons]
      exact List.Sublist.cons_cons _ ih

theorem keys_mapDelete_nodup (k : Bytes) (m : UriMap) (h : (keys m).Nodup) :
    (keys (mapDelete k m)).Nodup :=
  (keys_mapDelete_sublist k m).nodup h

theorem foldl_mapSet_append (m acc : UriMap) (hm : (keys m).Nodup)
    (hd : ∀ k ∈ keys m, k ∉ keys acc) :
    m.foldl (fun acc e => mapSet e.1 e.2 acc) acc = acc ++ m := by
  induction m generalizing acc with
  | nil => simp
  | cons kv r ih =>
    obtain ⟨k0, v0⟩ := kv
    simp only [List.foldl_cons]
    have h0 : k0 ∉ keys acc := hd k0 (by simp [keys])
    rw [mapSet_not_mem k0 v0 acc h0]
    simp only [keys, List.map_cons, List.nodup_cons] at hm
    rw [ih (acc ++ [(k0, v0)]) hm.2]
    · simp
    · intro k hk
      simp only [keys, List.map_append, List.map_cons, List.map_nil, List.mem_append,
        List.mem_cons, List.not_mem_nil, or_false, not_or]
      refine ⟨hd k (by simp only [keys, List.map_cons, List.mem_cons]; exact Or.inr hk), ?_⟩
      intro e; subst e; exact hm.1 hk

theorem mapCopy_eq (m : UriMap) (hm : (keys m).Nodup) : mapCopy m = m := by
  simp only [mapCopy]
  rw [foldl_mapSet_append m [] hm (by simp [keys])]
  simp

theorem mem_iff_mapLookup (m : UriMap) (hm : (keys m).Nodup) (k : Bytes) (v : Uri) :
    (k, v) ∈ m ↔ mapLookup k m = some v := by
  induction m with
  | nil => simp [mapLookup]
  | cons kv r ih =>
    obtain ⟨k0, v0⟩ := kv
    simp only [keys, List.map_cons, List.nodup_cons] at hm
    simp only [mapLookup, List.mem_cons, Prod.mk.injEq]
    by_cases h0 : k0 = k
    · subst h0
      simp only [if_true, Option.some.injEq, true_and]
      constructor
      · rintro (h | h)
        · exact h.symm
        · exact absurd (List.mem_map_of_mem (f := Prod.fst) h) hm.1
      · intro h; exact Or.inl h.symm
    · have : ¬ k = k0 := fun e => h0 e.symm
      simp only [h0, if_false, this, false_and, false_or]
      exact ih hm.2

/-! ### `handleUriUpdate` on values -/

/-- Go-map well-formedness of a snapshot -/
def Inv (w : ServiceUris) : Prop := (keys w.uris).Nodup

theorem copy_eq (w : ServiceUris) (h : Inv w) : w.copy = w := by
  cases w with
  | mk z u => simp only [ServiceUris.copy, mapCopy_eq u h]

theorem handle_zkPath (w : ServiceUris) (e : Event) : (handleUriUpdate w e).zkPath = w.zkPath := by
  simp only [handleUriUpdate]
  split
  · rfl
  · split
    · rfl
    · rfl
    · split <;> rfl

theorem handle_inv (w : ServiceUris) (e : Event) (h : Inv w) : Inv (handleUriUpdate w e) := by
  simp only [handleUriUpdate, copy_eq w h]
  split
  · exact h
  · split
    · exact keys_mapDelete_nodup _ _ h
    · exact h
    · split
      · exact h
      · exact keys_mapSet_nodup _ _ _ h

theorem relPath?_eq (zk p : Bytes) :
    (Spec.relPath? zk p).getD p = trimPrefix p zk := by
  have key : ∀ (zk p : Bytes), Spec.relPath? zk p = if zk.isPrefixOf p then some (p.drop zk.length) else none := by
    intro zk
    induction zk with
    | nil => intro p; simp [Spec.relPath?]
    | cons z zs ih =>
      intro p
      cases p with
      | nil => simp [Spec.relPath?]
      | cons c cs =>
        simp only [Spec.relPath?, List.isPrefixOf, List.length_cons, List.drop_succ_cons]
        by_cases hzc : z = c
        · subst hzc; simp [ih]
        · simp [hzc]
  rw [key]
  simp only [trimPrefix]
  split <;> simp

/-- one step, seen through `mapLookup`, for a well-formed snapshot -/
theorem lookup_handle (w : ServiceUris) (e : Event) (h : Inv w) (n : Bytes) :
    mapLookup n (handleUriUpdate w e).uris =
      match Spec.readEvent w.zkPath e with
      | none => mapLookup n w.uris
      | some ev =>
        if ev.node = n then
          match ev.change with
          | .announce a => some a
          | .delete => none
          | .malformed => mapLookup n w.uris
          | .weightless => mapLookup n w.uris
        else mapLookup n w.uris := by
  simp only [handleUriUpdate, copy_eq w h, Spec.readEvent, relPath?_eq]
  by_cases hp : trimPrefix e.path w.zkPath = []
  · simp [hp]
  · simp only [hp, if_false]
    cases hd : e.data with
    | none =>
      simp only [mapLookup_mapDelete]
      by_cases hn : n = trimPrefix e.path w.zkPath
      · simp [hn]
      · have : ¬ trimPrefix e.path w.zkPath = n := fun e => hn e.symm
        simp [hn, this]
    | some pl =>
      cases pl with
      | malformed => simp
      | uri u =>
        by_cases hw : u.weights = []
        · simp [hw]
        · have hl : ¬ u.weights.length = 0 := by
            intro h0; exact hw (List.eq_nil_of_length_eq_zero h0)
          simp only [hl, if_false, hw, mapLookup_mapSet]
          by_cases hn : n = trimPrefix e.path w.zkPath
          · simp [hn]
          · have : ¬ trimPrefix e.path w.zkPath = n := fun e => hn e.symm
            simp [hn, this]

theorem run_inv (w : ServiceUris) (h : List Event) (hi : Inv w) : Inv (runUpdates w h) := by
  induction h generalizing w with
  | nil => exact hi
  | cons e r ih => exact ih _ (handle_inv w e hi)

theorem run_zkPath (w : ServiceUris) (h : List Event) : (runUpdates w h).zkPath = w.zkPath := by
  induction h generalizing w with
  | nil => rfl
  | cons e r ih =>
    simp only [runUpdates, List.foldl_cons] at ih ⊢
    rw [ih, handle_zkPath]

theorem run_snoc (w : ServiceUris) (h : List Event) (e : Event) :
    runUpdates w (h ++ [e]) = handleUriUpdate (runUpdates w h) e := by
  simp [runUpdates, List.foldl_append]

/-- induction on a list from the right -/
theorem snoc_induction {α : Type} {P : List α → Prop} (hnil : P [])
    (hsnoc : ∀ l a, P l → P (l ++ [a])) : ∀ l, P l := by
  intro l
  have : ∀ r : List α, P r.reverse := by
    intro r
    induction r with
    | nil => exact hnil
    | cons a r ih => rw [List.reverse_cons]; exact hsnoc _ _ ih
  have h := this l.reverse
  rwa [List.reverse_reverse] at h

theorem lookup_run (zk : Bytes) (w : ServiceUris) (hw : Inv w) (hz : w.zkPath = zk) (hempty : w.uris = [])
    (h : List Event) (n : Bytes) :
    mapLookup n (runUpdates w h).uris = Spec.lastValid n (Spec.readHistory zk h) := by
  induction h using snoc_induction with
  | hnil => simp [runUpdates, hempty, mapLookup, Spec.lastValid, Spec.readHistory, Spec.lastValidRev]
  | hsnoc l e ih =>
    rw [run_snoc, lookup_handle _ _ (run_inv w l hw), run_zkPath, hz]
    simp only [Spec.lastValid, Spec.readHistory, List.filterMap_append, List.filterMap_cons,
      List.filterMap_nil] at ih ⊢
    cases hre : Spec.readEvent zk e with
    | none => simp [ih]
    | some ev =>
      simp only [List.reverse_append, List.reverse_cons, List.reverse_nil, List.nil_append,
        List.cons_append, Spec.lastValidRev]
      by_cases hn : ev.node = n
      · simp only [hn, if_true]
        cases ev.change <;> simp [ih]
      · simp [hn, ih]

end Restli.D2
