import Restli.Lib.Strconv
/-! `strconv.ParseInt(strconv.FormatInt(v, 10), 10, bits) = v` for every in-range integer, and
the text `FormatInt` produces consists of an optional '-' and decimal digits only. -/
namespace Restli.Strconv

theorem natOfDigits_append (xs : Bytes) (c : UInt8) (acc : Nat) :
    natOfDigits (xs ++ [c]) acc = natOfDigits xs acc * 10 + (c.toNat - 48) := by
  induction xs generalizing acc with
  | nil => simp [natOfDigits]
  | cons x xs ih => simp [natOfDigits, ih]

theorem digit_toNat (d : Nat) (h : d < 10) : (UInt8.ofNat (48 + d)).toNat - 48 = d := by
  have : (UInt8.ofNat (48 + d)).toNat = 48 + d := by
    rw [UInt8.toNat_ofNat']; omega
  omega

theorem digit_isDigit (d : Nat) (h : d < 10) : isDigit (UInt8.ofNat (48 + d)) = true := by
  have h1 : (UInt8.ofNat (48 + d)).toNat = 48 + d := by rw [UInt8.toNat_ofNat']; omega
  simp only [isDigit, Bool.and_eq_true, decide_eq_true_eq]
  constructor
  · show (48 : UInt8) ≤ _
    rw [UInt8.le_iff_toNat_le, h1]; decide +revert
  · rw [UInt8.le_iff_toNat_le, h1]; simp; omega

theorem natOfDigits_digitsOfNat : ∀ n : Nat, natOfDigits (digitsOfNat n) 0 = n := by
  intro n
  induction n using Nat.strongRecOn with
  | _ n ih =>
    rw [digitsOfNat]
    split
    · next h =>
      simp only [natOfDigits, Nat.zero_mul, Nat.zero_add]
      exact digit_toNat n h
    · next h =>
      rw [natOfDigits_append, ih (n / 10) (by omega), digit_toNat (n % 10) (by omega)]
      omega

theorem digitsOfNat_all_digits : ∀ n : Nat, ∀ c ∈ digitsOfNat n, isDigit c = true := by
  intro n
  induction n using Nat.strongRecOn with
  | _ n ih =>
    intro c hc
    rw [digitsOfNat] at hc
    split at hc
    · next h =>
      rw [List.mem_singleton] at hc; subst hc; exact digit_isDigit n h
    · next h =>
      rcases List.mem_append.1 hc with hc | hc
      · exact ih (n / 10) (by omega) c hc
      · rw [List.mem_singleton] at hc; subst hc; exact digit_isDigit (n % 10) (by omega)

theorem digitsOfNat_ne_nil (n : Nat) : digitsOfNat n ≠ [] := by
  rw [digitsOfNat]; split <;> simp

theorem digitsOfNat_head (n : Nat) : ∃ c cs, digitsOfNat n = c :: cs ∧ isDigit c = true := by
  cases h : digitsOfNat n with
  | nil => exact absurd h (digitsOfNat_ne_nil n)
  | cons c cs => exact ⟨c, cs, rfl, digitsOfNat_all_digits n c (by rw [h]; simp)⟩

theorem isDigit_ne_sign (c : UInt8) (h : isDigit c = true) : c ≠ 43 ∧ c ≠ 45 := by
  simp only [isDigit, Bool.and_eq_true, decide_eq_true_eq] at h
  constructor <;> (intro hc; subst hc; revert h; decide)

/-- `ParseInt(FormatInt(v)) = v` for every integer representable in `bits` bits -/
theorem parseInt_formatInt (bits : Nat) (v : Int)
    (hlo : -((2 ^ (bits - 1) : Nat) : Int) ≤ v) (hhi : v < ((2 ^ (bits - 1) : Nat) : Int)) :
    parseInt bits (formatInt v) = some v := by
  unfold formatInt
  by_cases hneg : v < 0
  · simp only [hneg, ↓reduceIte, parseInt, splitSign]
    have hall := digitsOfNat_all_digits v.natAbs
    have hne := digitsOfNat_ne_nil v.natAbs
    have hemp : (digitsOfNat v.natAbs).isEmpty = false := by
      cases h : digitsOfNat v.natAbs <;> simp_all
    have hall' : (digitsOfNat v.natAbs).all isDigit = true := by
      simp only [List.all_eq_true]; exact hall
    simp only [hemp, hall', Bool.false_or, Bool.not_true, Bool.false_eq_true, ↓reduceIte,
      natOfDigits_digitsOfNat]
    have : v.natAbs ≤ 2 ^ (bits - 1) := by omega
    simp only [this, ↓reduceIte, Option.some.injEq]
    omega
  · simp only [hneg, ↓reduceIte]
    obtain ⟨c, cs, hcs, hd⟩ := digitsOfNat_head v.natAbs
    have hs := isDigit_ne_sign c hd
    have hall' : (digitsOfNat v.natAbs).all isDigit = true := by
      simp only [List.all_eq_true]; exact digitsOfNat_all_digits v.natAbs
    have hnat := natOfDigits_digitsOfNat v.natAbs
    rw [hcs] at hall' hnat ⊢
    unfold parseInt
    have hsplit : splitSign (c :: cs) = (false, c :: cs) := by
      unfold splitSign
      split
      · next heq => cases heq; exact absurd rfl hs.1
      · next heq => cases heq; exact absurd rfl hs.2
      · rfl
    rw [hsplit]
    simp only [List.isEmpty_cons, hall', Bool.not_true, Bool.or_self, Bool.false_eq_true, ↓reduceIte, hnat]
    have : v.natAbs < 2 ^ (bits - 1) := by omega
    simp only [this, ↓reduceIte, Option.some.injEq]
    omega

/-- the text of an integer contains no byte that could end, nest or escape a ROR2 token -/
theorem formatInt_clean (v : Int) : formatInt v ≠ [] ∧ ∀ c ∈ formatInt v, isDigit c = true ∨ c = 45 := by
  unfold formatInt
  split
  · exact ⟨by simp, fun c hc => by
      rcases List.mem_cons.1 hc with rfl | hc
      · exact Or.inr rfl
      · exact Or.inl (digitsOfNat_all_digits _ c hc)⟩
  · exact ⟨digitsOfNat_ne_nil _, fun c hc => Or.inl (digitsOfNat_all_digits _ c hc)⟩

end Restli.Strconv
