import Restli.Model.Encode
/-! The depth budget of the writer model is an artefact (the Go writer recurses over the value):
a document produced at some budget is produced at every larger one, so "the encoding of `v`" is
one document, whatever budget the round-trip and determinism theorems are instantiated at. -/
namespace Restli.Codec
open Restli

theorem encodeList_ok_mono (enc enc' : Value → Except EncErr Doc) :
    ∀ (vs : List Value) (ds : List Doc), (∀ v ∈ vs, ∀ d, enc v = .ok d → enc' v = .ok d) →
      encodeList enc vs = .ok ds → encodeList enc' vs = .ok ds
  | [], ds, _, h => by simpa [encodeList] using h
  | v :: rest, ds, hm, h => by
    simp only [encodeList] at h ⊢
    cases hv : enc v with
    | error e => simp [hv, bind, Except.bind] at h
    | ok d =>
      rw [hm v List.mem_cons_self d hv]
      simp only [hv, bind, Except.bind] at h ⊢
      cases hr : encodeList enc rest with
      | error e => simp [hr] at h
      | ok dr =>
        rw [encodeList_ok_mono enc enc' rest dr (fun x hx => hm x (List.mem_cons_of_mem _ hx)) hr]
        simpa [hr] using h

theorem encodeKeyed_ok_mono (excluded : Bytes → Bool) (enc enc' : Bytes → Value → Except EncErr Doc) :
    ∀ (es : List (Bytes × Value)) (kvs : List (Bytes × Doc)),
      (∀ e ∈ es, ∀ d, enc e.1 e.2 = .ok d → enc' e.1 e.2 = .ok d) →
      encodeKeyed excluded enc es = .ok kvs → encodeKeyed excluded enc' es = .ok kvs
  | [], kvs, _, h => by simpa [encodeKeyed] using h
  | (k, v) :: rest, kvs, hm, h => by
    simp only [encodeKeyed] at h ⊢
    cases hv : enc k v with
    | error e => simp [hv, bind, Except.bind] at h
    | ok d =>
      rw [hm (k, v) List.mem_cons_self d hv]
      simp only [hv, bind, Except.bind] at h ⊢
      cases hr : encodeKeyed excluded enc rest with
      | error e => simp [hr] at h
      | ok dr =>
        rw [encodeKeyed_ok_mono excluded enc enc' rest dr (fun x hx => hm x (List.mem_cons_of_mem _ hx)) hr]
        simpa [hr] using h

theorem encodeTyped_ok_mono (excluded : Bytes → Bool) (enc enc' : Bytes → Ty → Value → Except EncErr Doc) :
    ∀ (es : List (Bytes × Ty × Value)) (kvs : List (Bytes × Doc)),
      (∀ e ∈ es, ∀ d, enc e.1 e.2.1 e.2.2 = .ok d → enc' e.1 e.2.1 e.2.2 = .ok d) →
      encodeTyped excluded enc es = .ok kvs → encodeTyped excluded enc' es = .ok kvs
  | [], kvs, _, h => by simpa [encodeTyped] using h
  | (k, t, v) :: rest, kvs, hm, h => by
    simp only [encodeTyped] at h ⊢
    cases hv : enc k t v with
    | error e => simp [hv, bind, Except.bind] at h
    | ok d =>
      rw [hm (k, t, v) List.mem_cons_self d hv]
      simp only [hv, bind, Except.bind] at h ⊢
      cases hr : encodeTyped excluded enc rest with
      | error e => simp [hr] at h
      | ok dr =>
        rw [encodeTyped_ok_mono excluded enc enc' rest dr (fun x hx => hm x (List.mem_cons_of_mem _ hx)) hr]
        simpa [hr] using h


def EncFuelStep (c : EncCfg) (f : Nat) : Prop :=
  ∀ scope ty v d, encode c f scope ty v = .ok d → encode c (f + 1) scope ty v = .ok d

/-- one more unit of budget gives the same document -/
theorem encode_fuel_step (c : EncCfg) : ∀ f, EncFuelStep c f
  | 0 => by intro scope ty v d h; simp [encode] at h
  | f + 1 => by
    have ih := encode_fuel_step c f
    have hsel : ∀ (scope : List Bytes) (k : Bytes) (t : Ty) (v : Value) (d : Doc),
        (if c.excl.matchesB (scope ++ [k]) then encodeNoop c.env t v else encode c f (scope ++ [k]) t v) = .ok d →
        (if c.excl.matchesB (scope ++ [k]) then encodeNoop c.env t v else encode c (f + 1) (scope ++ [k]) t v) = .ok d := by
      intro scope k t v d h
      by_cases hx : c.excl.matchesB (scope ++ [k]) = true
      · simpa [hx] using h
      · simp only [hx] at h ⊢
        exact ih _ _ _ _ h
    intro scope ty v d h
    unfold encode at h
    split at h
    · rw [encode]; exact h
    · next t vs =>
      rw [encode]
      cases hl : encodeList (encode c f (scope ++ [Gen.wildCard]) t) vs with
      | error e => simp [hl, bind, Except.bind] at h
      | ok ds =>
        rw [encodeList_ok_mono _ (encode c (f + 1) (scope ++ [Gen.wildCard]) t) vs ds
          (fun v _ d hd => ih _ _ _ _ hd) hl]
        simpa [hl] using h
    · next t es =>
      rw [encode]
      cases hl : encodeKeyed (fun k => c.excl.matchesB (scope ++ [k]))
          (fun k v => if c.excl.matchesB (scope ++ [k]) then encodeNoop c.env t v
            else encode c f (scope ++ [k]) t v) es with
      | error e => simp [hl, bind, Except.bind] at h
      | ok kvs =>
        rw [encodeKeyed_ok_mono _ _ (fun k v => if c.excl.matchesB (scope ++ [k]) then encodeNoop c.env t v
            else encode c (f + 1) (scope ++ [k]) t v) es kvs (fun e _ d hd => hsel scope e.1 t e.2 d hd) hl]
        simpa [hl] using h
    · rw [encode.eq_def]
      dsimp only
      split at h
      · exact h
      · exact h
      · exact h
      · rename_i hfind
        split at h
        · cases h
        · rename_i triples hset
          cases hl : encodeTyped (fun k => c.excl.matchesB (scope ++ [k]))
              (fun k t v => if c.excl.matchesB (scope ++ [k]) then encodeNoop c.env t v
                else encode c f (scope ++ [k]) t v) triples with
          | error e => simp [hl, bind, Except.bind] at h
          | ok kvs =>
            rw [encodeTyped_ok_mono _ _ (fun k t v => if c.excl.matchesB (scope ++ [k]) then encodeNoop c.env t v
                else encode c (f + 1) (scope ++ [k]) t v) triples kvs
                (fun e _ d hd => hsel scope e.1 e.2.1 e.2.2 d hd) hl]
            simpa [hl] using h
      · rename_i hasNull members ms hfind
        split at h
        · cases h
        · rename_i h1
          split at h
          · cases h
          · rename_i h2
            simp only [h1, h2, ↓reduceIte]
            cases hl : encodeTyped (fun k => c.excl.matchesB (scope ++ [k]))
                (fun k t v => if c.excl.matchesB (scope ++ [k]) then encodeNoop c.env t v
                  else encode c f (scope ++ [k]) t v) (setMembers members ms) with
            | error e => simp [hl, bind, Except.bind] at h
            | ok kvs =>
              rw [encodeTyped_ok_mono _ _ (fun k t v => if c.excl.matchesB (scope ++ [k]) then encodeNoop c.env t v
                  else encode c (f + 1) (scope ++ [k]) t v) (setMembers members ms) kvs
                  (fun e _ d hd => hsel scope e.1 e.2.1 e.2.2 d hd) hl]
              simpa [hl] using h
      · cases h
    · cases h

/-- any larger budget gives the same document -/
theorem encode_fuel_mono (c : EncCfg) (f g : Nat) (hfg : f ≤ g) (scope : List Bytes) (ty : Ty) (v : Value)
    (d : Doc) (h : encode c f scope ty v = .ok d) : encode c g scope ty v = .ok d := by
  induction hfg with
  | refl => exact h
  | step _ ih => exact encode_fuel_step c _ scope ty v d ih

end Restli.Codec
