import Restli.Proofs.SortKeys
import Restli.Model.Encode
/-! `encodeKeyed` (the writer's `WriteMap` loop) under a permutation of the entries. -/
namespace Restli.Codec

theorem encodeKeyed_perm (excluded : Bytes → Bool) (enc : Bytes → Value → Except EncErr Doc)
    (l₁ l₂ : List (Bytes × Value)) (hp : l₁.Perm l₂) :
    ∀ r₁, encodeKeyed excluded enc l₁ = .ok r₁ → ∃ r₂, encodeKeyed excluded enc l₂ = .ok r₂ ∧ r₁.Perm r₂ := by
  induction hp with
  | nil => intro r h; exact ⟨r, h, List.Perm.refl _⟩
  | cons x hp ih =>
    obtain ⟨k, v⟩ := x
    intro r h
    simp only [encodeKeyed, bind, Except.bind] at h ⊢
    cases hd : enc k v with
    | error e => simp [hd] at h
    | ok d =>
      simp only [hd] at h ⊢
      rename_i la lb
      cases hm : encodeKeyed excluded enc la with
      | error e => simp [hm] at h
      | ok more =>
        simp only [hm] at h
        obtain ⟨more2, h2, hperm⟩ := ih more hm
        simp only [h2]
        by_cases hx : excluded k = true
        · simp only [hx, ↓reduceIte, pure, Except.pure, Except.ok.injEq] at h ⊢
          subst h; exact ⟨more2, rfl, hperm⟩
        · simp only [hx, Bool.false_eq_true, ↓reduceIte, pure, Except.pure, Except.ok.injEq] at h ⊢
          subst h; exact ⟨(k, d) :: more2, rfl, hperm.cons _⟩
  | swap x y l =>
    obtain ⟨k1, v1⟩ := x
    obtain ⟨k2, v2⟩ := y
    intro r h
    simp only [encodeKeyed, bind, Except.bind] at h ⊢
    cases hd2 : enc k2 v2 with
    | error e => simp [hd2] at h
    | ok d2 =>
      cases hd1 : enc k1 v1 with
      | error e => simp [hd2, hd1] at h
      | ok d1 =>
        cases hm : encodeKeyed excluded enc l with
        | error e => simp [hd2, hd1, hm] at h
        | ok more =>
          simp only [hd2, hd1, hm] at h ⊢
          by_cases hx1 : excluded k1 = true <;> by_cases hx2 : excluded k2 = true <;>
            simp only [hx1, hx2, Bool.false_eq_true, ↓reduceIte, pure, Except.pure, Except.ok.injEq] at h ⊢ <;>
            subst h
          · exact ⟨_, rfl, List.Perm.refl _⟩
          · exact ⟨_, rfl, List.Perm.refl _⟩
          · exact ⟨_, rfl, List.Perm.refl _⟩
          · exact ⟨_, rfl, List.Perm.swap _ _ _⟩
  | trans _ _ ih1 ih2 =>
    intro r h
    obtain ⟨r2, h2, p2⟩ := ih1 r h
    obtain ⟨r3, h3, p3⟩ := ih2 r2 h2
    exact ⟨r3, h3, p2.trans p3⟩

theorem encodeKeyed_keys (excluded : Bytes → Bool) (enc : Bytes → Value → Except EncErr Doc) :
    ∀ (l : List (Bytes × Value)) r, encodeKeyed excluded enc l = .ok r →
      (r.map (·.1)).Sublist (l.map (·.1)) := by
  intro l
  induction l with
  | nil => intro r h; simp [encodeKeyed] at h; subst h; simp
  | cons x xs ih =>
    obtain ⟨k, v⟩ := x
    intro r h
    simp only [encodeKeyed, bind, Except.bind] at h
    cases hd : enc k v with
    | error e => simp [hd] at h
    | ok d =>
      cases hm : encodeKeyed excluded enc xs with
      | error e => simp [hd, hm] at h
      | ok more =>
        simp only [hd, hm] at h
        by_cases hx : excluded k = true
        · simp only [hx, ↓reduceIte, pure, Except.pure, Except.ok.injEq] at h
          subst h; exact (ih more hm).cons _
        · simp only [hx, Bool.false_eq_true, ↓reduceIte, pure, Except.pure, Except.ok.injEq] at h
          subst h; simpa using (ih more hm).cons_cons k

end Restli.Codec
