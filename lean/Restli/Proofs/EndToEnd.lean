import Restli.Model.EndToEnd
import Restli.Proofs.Routing
import Restli.Proofs.Tunnel
import Restli.Proofs.SortKeys
import Restli.Proofs.RoundTripJson
import Restli.Proofs.JsonDoc
import Restli.Spec.HttpUrl
/-! Helper lemmas for C02 (end-to-end call fidelity). Property theorems: `Props/C02.lean`. -/
namespace Restli.E2E
open Restli Restli.Codec
open Restli.Routing (Method)

/-! ## the query string: `BuildQueryParams` then `ParseQueryParams` -/

theorem splitOn_ne_nil (sep : UInt8) : ∀ s, splitOn sep s ≠ []
  | [] => by simp [splitOn]
  | c :: cs => by
    simp only [splitOn]
    split
    · simp
    · split <;> simp

theorem splitOn_noSep (sep : UInt8) : ∀ (x : Bytes), (∀ c ∈ x, c ≠ sep) → splitOn sep x = [x]
  | [], _ => by simp [splitOn]
  | c :: cs, h => by
    have hc : (c == sep) = false := beq_eq_false_iff_ne.mpr (h c (List.mem_cons_self ..))
    have ih := splitOn_noSep sep cs (fun d hd => h d (List.mem_cons_of_mem _ hd))
    simp [splitOn, ih, hc]

theorem splitOn_append (sep : UInt8) : ∀ (x : Bytes) (rest : Bytes), (∀ c ∈ x, c ≠ sep) →
    splitOn sep (x ++ sep :: rest) = x :: splitOn sep rest
  | [], rest, _ => by
    have := splitOn_ne_nil sep rest
    cases h : splitOn sep rest with
    | nil => exact absurd h this
    | cons a b => simp [splitOn, h]
  | c :: cs, rest, h => by
    have hc : (c == sep) = false := beq_eq_false_iff_ne.mpr (h c (List.mem_cons_self ..))
    have ih := splitOn_append sep cs rest (fun d hd => h d (List.mem_cons_of_mem _ hd))
    simp only [List.cons_append, splitOn, ih, hc]
    simp

theorem splitOn_joinWith (sep : UInt8) : ∀ (xs : List Bytes), xs ≠ [] → (∀ x ∈ xs, ∀ c ∈ x, c ≠ sep) →
    splitOn sep (joinWith sep xs) = xs
  | [], h, _ => absurd rfl h
  | [x], _, h => by simpa [joinWith] using splitOn_noSep sep x (h x (List.mem_singleton.2 rfl))
  | x :: y :: rest, _, h => by
    have ih := splitOn_joinWith sep (y :: rest) (by simp) (fun z hz => h z (List.mem_cons_of_mem _ hz))
    simp only [joinWith]
    rw [splitOn_append sep x _ (h x (List.mem_cons_self ..)), ih]

theorem cutAt_append (sep : UInt8) : ∀ (k v : Bytes), (∀ c ∈ k, c ≠ sep) → cutAt sep (k ++ sep :: v) = (k, v)
  | [], v, _ => by simp [cutAt]
  | c :: cs, v, h => by
    have hc : (c == sep) = false := beq_eq_false_iff_ne.mpr (h c (List.mem_cons_self ..))
    have ih := cutAt_append sep cs v (fun d hd => h d (List.mem_cons_of_mem _ hd))
    simp [cutAt, hc, ih]

/-- a name/value pair that can be told apart again: the name is non-empty and free of `&` and `=`,
the value is free of `&` -/
def PairClean (e : Bytes × Bytes) : Prop := e.1 ≠ [] ∧ (∀ c ∈ e.1, c ≠ 38 ∧ c ≠ 61) ∧ (∀ c ∈ e.2, c ≠ 38)

instance (e : Bytes × Bytes) : Decidable (PairClean e) := by unfold PairClean; infer_instance

/-- `ParseQueryParams` cuts what was joined with `&` and `=` into the pairs that were joined -/
theorem parseQuery_join (ps : List (Bytes × Bytes)) (h : ∀ e ∈ ps, PairClean e) :
    parseQuery (joinWith 38 (ps.map (fun e => e.1 ++ 61 :: e.2))) = ps := by
  cases ps with
  | nil => simp [parseQuery, joinWith, splitOn]
  | cons p rest =>
    have hsep : ∀ x ∈ (p :: rest).map (fun e => e.1 ++ 61 :: e.2), ∀ c ∈ x, c ≠ 38 := by
      intro x hx c hc
      obtain ⟨e, he, rfl⟩ := List.mem_map.1 hx
      obtain ⟨_, h1, h2⟩ := h e he
      rcases List.mem_append.1 hc with hc | hc
      · exact (h1 c hc).1
      · rcases List.mem_cons.1 hc with rfl | hc
        · decide
        · exact h2 c hc
    rw [parseQuery, splitOn_joinWith 38 _ (by simp) hsep]
    have hfilter : ((p :: rest).map (fun e => e.1 ++ 61 :: e.2)).filter (fun x => !x.isEmpty) =
        (p :: rest).map (fun e => e.1 ++ 61 :: e.2) := by
      apply List.filter_eq_self.2
      intro x hx
      obtain ⟨e, _, rfl⟩ := List.mem_map.1 hx
      cases e.1 <;> simp
    rw [hfilter, List.map_map]
    have : ∀ (l : List (Bytes × Bytes)), (∀ e ∈ l, PairClean e) →
        l.map (cutAt 61 ∘ fun e => e.1 ++ 61 :: e.2) = l := by
      intro l hl
      induction l with
      | nil => rfl
      | cons e es ih =>
        have he := hl e (List.mem_cons_self ..)
        simp only [List.map_cons, Function.comp]
        rw [cutAt_append 61 e.1 e.2 (fun c hc => (he.2.1 c hc).2), ih (fun x hx => hl x (List.mem_cons_of_mem _ hx))]
    exact this _ h

/-- …and the sorted join of `BuildQueryParams` is cut into the sorted pairs -/
theorem parseQuery_joinQuery (ps : List (Bytes × Bytes)) (h : ∀ e ∈ ps, PairClean e) :
    parseQuery (joinQuery ps) = sortByKey ps :=
  parseQuery_join (sortByKey ps) (fun e he => h e ((mem_sortByKey ps e).1 he))

/-! ## which resource a path names: the registered tree against a resource description -/

open Restli.Routing in
/-- the node reached from `n` by following the remaining segments (names, collection or not) -/
def descend : Node → List SegSpec → Option Node
  | n, [] => some n
  | n, s :: rest =>
    match findSub (strOf s.name) n.subs with
    | some sub => if sub.isCollection == s.key.isSome then descend sub rest else Option.none
    | Option.none => Option.none

open Restli.Routing in
/-- the node a resource's segments lead to in the registered tree -/
def nodeFor (roots : List Node) : List SegSpec → Option Node
  | [] => Option.none
  | s :: rest =>
    match findSub (strOf s.name) roots with
    | some n => if n.isCollection == s.key.isSome then descend n rest else Option.none
    | Option.none => Option.none

/-- the path segments below the first resource name, given the texts of the keys -/
def restStrs (onEntity : Bool) : List SegSpec → List String → List String
  | [], _ => []
  | [s], ks =>
    (match s.key, onEntity, ks with
    | some _, true, k :: _ => [k]
    | _, _, _ => [])
  | s :: (s' :: rest), ks =>
    (match s.key, ks with
    | some _, k :: ks' => k :: strOf s'.name :: restStrs onEntity (s' :: rest) ks'
    | some _, [] => []
    | Option.none, ks => strOf s'.name :: restStrs onEntity (s' :: rest) ks)

def pathStrs (onEntity : Bool) (segs : List SegSpec) (ks : List String) : List String :=
  match segs with
  | [] => []
  | s :: _ => strOf s.name :: restStrs onEntity segs ks

/-- does the resource's last segment carry a key at this level? -/
def hasKeyAt (onEntity : Bool) (segs : List SegSpec) : Bool :=
  onEntity && ((segs.getLast?).bind (·.key)).isSome

theorem findSub_name (name : String) : ∀ (l : List Routing.Node) (n : Routing.Node),
    Routing.findSub name l = some n → n.name = name
  | [], _, h => by simp [Routing.findSub] at h
  | m :: rest, n, h => by
    simp only [Routing.findSub] at h
    split at h
    · next hm => cases h; simpa using hm
    · exact findSub_name name rest n h

open Restli.Routing Restli.Routing.Spec in
/-- the specification's `locateAt` on the path of a call: the node the segments lead to, the
resource path of the description, the key texts in order, and whether the last one is the
resource's own key -/
theorem locateAt_restStrs (onEntity : Bool) : ∀ (segs : List SegSpec) (n node : Node) (ks : List String) (s : SegSpec)
    (_ : n.name = strOf s.name) (_ : n.isCollection = s.key.isSome)
    (_ : descend n segs = some node) (_ : ks.length = (keyTys onEntity (s :: segs)).length),
    locateAt n (restStrs onEntity (s :: segs) ks) =
      some ⟨node, rpathOf (s :: segs), ks, hasKeyAt onEntity (s :: segs)⟩
  | [], n, node, ks, s, hn, hc, hd, hl => by
    simp only [descend, Option.some.injEq] at hd
    subst hd
    cases hk : s.key with
    | none =>
      simp only [keyTys, hk, Option.toList, List.length_nil, ite_self] at hl
      have : ks = [] := List.eq_nil_of_length_eq_zero hl
      subst this
      simp [restStrs, hk, locateAt, rpathOf, hasKeyAt, Node.seg, hn, hc]
    | some ty =>
      cases onEntity with
      | false =>
        simp only [keyTys, Bool.false_eq_true, if_false, List.length_nil] at hl
        have : ks = [] := List.eq_nil_of_length_eq_zero hl
        subst this
        simp [restStrs, hk, locateAt, rpathOf, hasKeyAt, Node.seg, hn, hc]
      | true =>
        simp only [keyTys, hk, if_true, Option.toList, List.length_singleton] at hl
        match ks, hl with
        | [k], _ =>
          have hcoll : n.isCollection = true := by rw [hc, hk]; rfl
          simp [restStrs, hk, locateAt, hcoll, rpathOf, hasKeyAt, Node.seg, hn]
  | s' :: rest, n, node, ks, s, hn, hc, hd, hl => by
    simp only [descend] at hd
    cases hf : findSub (strOf s'.name) n.subs with
    | none => simp [hf] at hd
    | some sub =>
      simp only [hf] at hd
      split at hd
      · next hsub =>
        have hsubn := findSub_name _ _ _ hf
        have hsubc : sub.isCollection = s'.key.isSome := by simpa using hsub
        cases hk : s.key with
        | none =>
          have hcoll : n.isCollection = false := by rw [hc, hk]; rfl
          have hl' : ks.length = (keyTys onEntity (s' :: rest)).length := by
            simpa [keyTys, hk] using hl
          have ih := locateAt_restStrs onEntity rest sub node ks s' hsubn hsubc hd hl'
          simp only [restStrs, hk]
          rw [locateAt.eq_def]
          simp only [hcoll, Bool.false_eq_true, if_false, hf, Option.bind_some, ih, Option.map_some, Target.under]
          simp [rpathOf, Node.seg, hn, hcoll, hk, hasKeyAt]
        | some ty =>
          have hcoll : n.isCollection = true := by rw [hc, hk]; rfl
          match ks with
          | [] => simp [keyTys, hk] at hl
          | k :: ks' =>
            have hl' : ks'.length = (keyTys onEntity (s' :: rest)).length := by
              simpa [keyTys, hk] using hl
            have ih := locateAt_restStrs onEntity rest sub node ks' s' hsubn hsubc hd hl'
            simp only [restStrs, hk]
            rw [locateAt.eq_def]
            simp only [hcoll, if_true, hf, Option.bind_some, ih, Option.map_some, Target.under]
            simp [rpathOf, Node.seg, hn, hcoll, hk, hasKeyAt]
      · cases hd

open Restli.Routing Restli.Routing.Spec in
theorem locate_pathStrs (roots : List Node) (onEntity : Bool) (segs : List SegSpec) (node : Node) (ks : List String)
    (hnode : nodeFor roots segs = some node) (hl : ks.length = (keyTys onEntity segs).length) :
    locate roots (pathStrs onEntity segs ks) = some ⟨node, rpathOf segs, ks, hasKeyAt onEntity segs⟩ := by
  cases segs with
  | nil => simp [nodeFor] at hnode
  | cons s rest =>
    simp only [nodeFor] at hnode
    cases hf : findSub (strOf s.name) roots with
    | none => simp [hf] at hnode
    | some n =>
      simp only [hf] at hnode
      split at hnode
      · next hc =>
        have hc' : n.isCollection = s.key.isSome := by simpa using hc
        simp only [pathStrs, locate, hf, Option.bind_some]
        exact locateAt_restStrs onEntity rest n node ks s (findSub_name _ _ _ hf) hc' hnode hl
      · cases hnode

/-! ## bytes and the routing model's strings -/

/-- the character a byte stands for in the routing model's strings -/
def ch (c : UInt8) : Char := Char.ofNat c.toNat

theorem strOf_toList (b : Bytes) : (strOf b).toList = b.map ch := by
  simp [strOf, ch]

theorem ch_toNat : ∀ c : UInt8, UInt8.ofNat (ch c).toNat = c := by
  intro c
  have := Url.byte_forall (fun c => UInt8.ofNat (ch c).toNat == c) (by decide +kernel) c
  simpa using this

theorem bytesOf_strOf (b : Bytes) : bytesOf (strOf b) = b := by
  simp only [bytesOf, strOf_toList, List.map_map]
  induction b with
  | nil => rfl
  | cons c cs ih => simp only [List.map_cons, Function.comp, ch_toNat, ih]

theorem ch_slash : ∀ c : UInt8, (ch c == '/') = (c == 47) := by
  intro c
  have := Url.byte_forall (fun c => (ch c == '/') == (c == 47)) (by decide +kernel) c
  simpa using this

theorem noSlash_strOf (b : Bytes) (h : ∀ c ∈ b, c ≠ 47) : Routing.noSlash (strOf b) = true := by
  simp only [Routing.noSlash, strOf_toList, Bool.not_eq_eq_eq_not, Bool.not_true]
  induction b with
  | nil => rfl
  | cons c cs ih =>
    have hc : (c == 47) = false := beq_eq_false_iff_ne.mpr (h c (List.mem_cons_self ..))
    have hne : ch c ≠ '/' := by
      intro e
      have h2 := ch_slash c
      rw [hc, e] at h2
      exact absurd h2 (by decide)
    have hc' : ('/' == ch c) = false := beq_eq_false_iff_ne.mpr (Ne.symm hne)
    simp only [List.map_cons, List.contains_cons, hc', Bool.false_or]
    exact ih (fun d hd => h d (List.mem_cons_of_mem _ hd))

theorem strOf_append (a b : Bytes) : strOf (a ++ b) = strOf a ++ strOf b := by
  apply String.ext
  simp [strOf_toList]

/-- the characters of a resource path are `/` followed by its segments joined with `/` -/
theorem joinPath_chars : ∀ (segs : List Bytes), segs ≠ [] →
    (joinPath segs).map ch = '/' :: Routing.joinSlash (segs.map strOf)
  | [], h => absurd rfl h
  | [s], _ => by simp [joinPath, Routing.joinSlash, strOf_toList, ch]
  | s :: s2 :: rest, _ => by
    have ih := joinPath_chars (s2 :: rest) (by simp)
    have : joinPath (s :: s2 :: rest) = 47 :: s ++ joinPath (s2 :: rest) := by simp [joinPath]
    rw [this, List.map_append, ih]
    simp [Routing.joinSlash, strOf_toList, ch]

/-- `strings.Split` of the request path below the prefix gives the path's segments -/
theorem split_joinPath (segs : List Bytes) (hne : segs ≠ []) (hs : ∀ s ∈ segs, ∀ c ∈ s, c ≠ 47) :
    ∃ rest, (joinPath segs).map ch = '/' :: rest ∧
      (Routing.splitSlash rest).map String.ofList = segs.map strOf := by
  refine ⟨_, joinPath_chars segs hne, ?_⟩
  apply Routing.splitSlash_joinSlash
  · simpa using hne
  · simp only [List.all_map, List.all_eq_true]
    intro s hs'
    exact noSlash_strOf s (hs s hs')

/-- the strings of the path segments are the path segments of the strings -/
theorem pathSegsB_strs (onEntity : Bool) : ∀ (segs : List SegSpec) (ts : List Bytes),
    (pathSegsB onEntity segs ts).map strOf = pathStrs onEntity segs (ts.map strOf)
  | [], _ => rfl
  | [s], ts => by
    cases hk : s.key <;> cases onEntity <;> cases ts <;> simp [pathSegsB, pathStrs, restStrs, hk]
  | s :: s' :: rest, ts => by
    have ih := pathSegsB_strs onEntity (s' :: rest)
    cases hk : s.key with
    | none =>
      have := ih ts
      simp only [pathStrs] at this
      simp [pathSegsB, pathStrs, restStrs, hk, this]
    | some ty =>
      cases ts with
      | nil => simp [pathSegsB, pathStrs, restStrs, hk]
      | cons t ts' =>
        have := ih ts'
        simp only [pathStrs] at this
        simp [pathSegsB, pathStrs, restStrs, hk, this]

theorem pathSegsB_ne_nil (onEntity : Bool) (segs : List SegSpec) (ts : List Bytes) (h : segs ≠ []) :
    pathSegsB onEntity segs ts ≠ [] := by
  match segs, h with
  | [s], _ => cases hk : s.key <;> cases onEntity <;> cases ts <;> simp [pathSegsB, hk]
  | s :: s' :: rest, _ => cases hk : s.key <;> cases ts <;> simp [pathSegsB, hk]

/-- every segment of the path is a resource name or a key text -/
theorem pathSegsB_mem (onEntity : Bool) : ∀ (segs : List SegSpec) (ts : List Bytes) (x : Bytes),
    x ∈ pathSegsB onEntity segs ts → (∃ s ∈ segs, x = s.name) ∨ x ∈ ts
  | [], _, x, h => by simp [pathSegsB] at h
  | [s], ts, x, h => by
    cases hk : s.key <;> cases onEntity <;> cases ts <;> simp_all [pathSegsB]
    rcases h with h | h
    · exact Or.inl h
    · exact Or.inr (Or.inl h)
  | s :: s' :: rest, ts, x, h => by
    have ih := pathSegsB_mem onEntity (s' :: rest)
    cases hk : s.key with
    | none =>
      simp only [pathSegsB, hk, List.mem_cons] at h
      rcases h with rfl | h
      · exact Or.inl ⟨s, List.mem_cons_self .., rfl⟩
      · rcases ih ts x h with ⟨y, hy, rfl⟩ | hx
        · exact Or.inl ⟨y, List.mem_cons_of_mem _ hy, rfl⟩
        · exact Or.inr hx
    | some ty =>
      cases ts with
      | nil =>
        simp only [pathSegsB, hk, List.mem_singleton] at h
        exact Or.inl ⟨s, List.mem_cons_self .., h⟩
      | cons t ts' =>
        simp only [pathSegsB, hk, List.mem_cons] at h
        rcases h with rfl | rfl | h
        · exact Or.inl ⟨s, List.mem_cons_self .., rfl⟩
        · exact Or.inr (List.mem_cons_self ..)
        · rcases ih ts' x h with ⟨y, hy, rfl⟩ | hx
          · exact Or.inl ⟨y, List.mem_cons_of_mem _ hy, rfl⟩
          · exact Or.inr (List.mem_cons_of_mem _ hx)

/-! ## the wire: what the server has after `DecodeTunnelledQuery` (C14) -/

open Restli.Tunnel Restli.TunnelSpec Restli.Mime in
/-- the request `newRequest` builds with tunnelling off, as the handler receives it -/
def plainReq (T : Tunnel.Consts) (path : Bytes) (fq : Bool) (q verb rm : Bytes) (contents : Option Bytes) : Tunnel.Req :=
  { method := verb, path := path, forceQuery := fq, rawQuery := q,
    header := baseHdr T rm ++ (if contents.isSome then [((keysOf T).C, [T.ctJson])] else []),
    body := bodyOf contents, requestURI := urlRequestURI path fq q }

open Restli.Tunnel Restli.TunnelSpec Restli.Mime in
/-- Whatever the threshold: the request is built, and what the server's `DecodeTunnelledQuery` makes
of it is the request with tunnelling off (C14: `decode_sent` for the tunnelled case,
`decode_no_override` for the other). -/
theorem detunnelled (T : Tunnel.Consts) (g : Good T) (b : Bytes) (hb : TokenBoundary b) (thr : Nat)
    (path : Bytes) (fq : Bool) (q verb rm : Bytes) (contents : Option Bytes)
    (hverb : verb ≠ []) (hfresh : BoundaryFresh b q (contents.getD [])) (hne : contents ≠ some []) :
    ∃ sent, sentRequest T b thr path fq q verb rm contents = .ok sent ∧
      decodeTunnelledQuery T sent = .ok (plainReq T path fq q verb rm contents) := by
  cases hT : shouldTunnel thr q with
  | true =>
    obtain ⟨sent, orig, h1, h2, h3⟩ := decode_sent T g b hb thr path fq q verb rm contents hT hverb hfresh hne
    have hp := sent_plain T g b 0 path fq q verb rm contents (by simp [shouldTunnel])
    rw [hp] at h2
    injection h2 with e
    exact ⟨sent, h1, by rw [h3, ← e]; rfl⟩
  | false =>
    have hp := sent_plain T g b thr path fq q verb rm contents hT
    refine ⟨_, hp, ?_⟩
    have : decodeTunnelledQuery T (plainReq T path fq q verb rm contents) = .ok (plainReq T path fq q verb rm contents) := by
      apply decode_no_override
      simp only [plainReq]
      apply plain_header_no_override T g rm
      cases contents <;> simp
    exact this

open Restli.Tunnel Restli.Mime in
/-- the `X-RestLi-Method` header of that request is the one the client set -/
theorem plainReq_method_header (T : Tunnel.Consts) (g : Good T) (path : Bytes) (fq : Bool) (q verb rm : Bytes)
    (contents : Option Bytes) :
    (plainReq T path fq q verb rm contents).header.get T.hdrRestliMethod = rm := by
  have hk : canonicalKey T.hdrRestliMethod = (keysOf T).RM := rfl
  simp only [plainReq, baseHdr_eq T g rm, Hdr.get, hk]
  have h1 : ((keysOf T).PV == (keysOf T).RM) = false := beq_eq_false_iff_ne.mpr g.pvrm
  simp [Hdr.find, h1]

/-! ## routing of a request that names its method in the header -/

open Restli.Routing Restli.Routing.Spec in
/-- For a request whose path names a registered resource (`locate`), whose keys and query values are
well-formed and whose `X-RestLi-Method` header names the method `m`: `ServeHTTP`/`receive` settle on
`m` (on a simple resource: on what verb and `action` parameter say, which must be `m`) and hand the
request to the handler registered for it — `lookupHandler` on the located node. -/
theorem routeX_named (C : Routing.Consts) (V : String → Bool) (roots : List Node) (req : Req) (t : Target)
    (hloc : locate roots req.path = some t)
    (hkeys : t.keys.all V = true) (hq : (req.query.all fun kv => V kv.2) = true)
    (m : Method) (hm : m ≠ .unknown)
    (hhdr : nameMapping C ((req.headers.lookup C.methodHeader).getD "") = m)
    (hneeds : t.node.isCollection = true → needsEntity m = true → t.hasKey = true)
    (hforbids : t.node.isCollection = true → forbidsEntity m = true → t.hasKey = false)
    (hsimple : t.node.isCollection = false →
      simpleMethod req.verb ((lookupLast C.paramAction req.query).getD "") m = m) :
    routeX C V roots req =
      match lookupHandler C t.node t.rpath t.keys t.hasKey m
          ((lookupLast C.paramFinder req.query).getD "") ((lookupLast C.paramAction req.query).getD "") with
      | .ok f o => .routed f o t.hasKey
      | .errResp st => .errResp st := by
  cases hp : req.path with
  | nil => simp [locate, hp] at hloc
  | cons s rest =>
    rw [hp] at hloc
    simp only [locate] at hloc
    cases hf : findSub s roots with
    | none => simp [hf] at hloc
    | some sub =>
      simp only [hf, Option.bind_some] at hloc
      have hw := walk_some C V sub rest t hloc [] [] s
      simp only [hkeys, if_true, List.nil_append] at hw
      have hnokey := locateAt_simple_nokey sub rest t hloc
      simp only [routeX, hp, hf, hw, resolve, hq, Bool.not_true, Bool.false_eq_true, if_false, hhdr, resolveWith]
      cases hc : t.node.isCollection with
      | true =>
        have h1 : (needsEntity m && !t.hasKey) = false := by
          cases hn : needsEntity m with
          | false => rfl
          | true => simp [hneeds hc hn]
        have h2 : (forbidsEntity m && t.hasKey) = false := by
          cases hn : forbidsEntity m with
          | false => rfl
          | true => simp [hforbids hc hn]
        simp only [if_true, hm, if_false, checkEntity, h1, h2, Bool.false_eq_true, finish]
        cases lookupHandler C t.node t.rpath t.keys t.hasKey m _ _ <;> rfl
      | false =>
        have hk : t.hasKey = false := hnokey hc
        simp only [Bool.false_eq_true, if_false, hk, hsimple hc, finish]
        cases lookupHandler C t.node t.rpath t.keys false m _ _ <;> rfl

/-! ## from the wire to the registered closure -/

/-- a byte that reaches the client unchanged inside an HTTP header field value, wherever it stands:
valid for net/http and neither space nor tab (those are trimmed at the ends) -/
def hdrGood (c : UInt8) : Bool := Mime.validValueByte c && c != 32 && c != 9

open Restli.Routing in
/-- facts about the regenerated constants (decided for `constsV2` in `Props/C02.lean`) -/
structure ConstsOk (K : Consts) : Prop where
  good : Tunnel.Good K.T
  /-- `MethodNameMapping[m.String()] = m` -/
  names : ∀ m, m ≠ Method.unknown → nameMapping K.R (strOf (sB (methodName K.R m))) = m
  namesNe : ∀ m, m ≠ Method.unknown → sB (methodName K.R m) ≠ []
  /-- the v2 writers sort keys (what the codec round-trip theorems are stated for) -/
  sortKeys : K.sortKeys = true
  /-- a successful call without a status of its own answers 200 -/
  okStatus : K.R.srvInitialStatus = 200
  /-- the header escaper replaces every byte that does not survive in an HTTP header field value
  (control bytes, DEL, the space) and what it writes instead consists of bytes that do -/
  headerCovers : ∀ i : Fin 256, hdrGood (UInt8.ofNat i.val) = false → (K.headerEscapes.lookup (UInt8.ofNat i.val)).isSome = true
  headerWrites : ∀ p ∈ K.headerEscapes, p.2.all hdrGood = true
  /-- the reserved parameter names, as bytes and as the routing model's strings -/
  finderStr : strOf K.pFinder = K.R.paramFinder
  actionStr : strOf K.pAction = K.R.paramAction
  /-- the members of the collection envelope, in the order the sorting writer emits them -/
  elemMeta : bytesLt K.fElements K.fMetadata = true
  metaPaging : bytesLt K.fMetadata K.fPaging = true
  elemPaging : bytesLt K.fElements K.fPaging = true

theorem verbBytes_ne_nil (m : Method) : verbBytes m ≠ [] := by
  cases m <;> decide +kernel

theorem normalisePrefix_noSlash (p : String) (h : p.toList.getLast? ≠ some '/') :
    Routing.normalisePrefix p = p ++ "/" := by
  unfold Routing.normalisePrefix
  by_cases hp : p = ""
  · subst hp; decide
  · simp [hp, h]

open Restli.Routing in
/-- the facts a call's method is routed with, given the texts of its path keys -/
def factsOf (r : ResSpec) (texts : List Bytes) : Facts :=
  ⟨r.method.kind, rpathOf r.segs, texts.map strOf,
   if r.method.kind = .finder then some (strOf r.method.name) else Option.none,
   if r.method.kind = .action then some (strOf r.method.name) else Option.none⟩

theorem factsMatch_factsOf (r : ResSpec) (texts : List Bytes) : factsMatch r (factsOf r texts) = true := by
  cases hk : r.method.kind <;> simp [factsMatch, factsOf, hk]

open Restli.Routing in
/-- the query as `receive` sees it -/
def stringQuery (q : Bytes) : List (String × String) := (parseQuery q).map (fun e => (strOf e.1, strOf e.2))

open Restli.Routing in
/-- what the method kind demands of the resource, of the level and of the reserved query parameters —
each clause is what the generated client produces for that kind (`Props/C02.lean` shows it for the
client's own output) -/
structure KindOk (K : Consts) (r : ResSpec) (node : Node) (sq : List (String × String)) : Prop where
  known : r.method.kind ≠ .unknown
  /-- entity-level methods carry the resource's own key, resource-level ones do not -/
  needs : node.isCollection = true → needsEntity r.method.kind = true → hasKeyAt r.method.onEntity r.segs = true
  forbids : node.isCollection = true → forbidsEntity r.method.kind = true → hasKeyAt r.method.onEntity r.segs = false
  /-- on a simple resource the method must be the one verb and `action` parameter stand for -/
  simple : node.isCollection = false →
    simpleMethod (verbOfBytes (verbBytes r.method.kind)) ((lookupLast K.R.paramAction sq).getD "") r.method.kind = r.method.kind
  finder : r.method.kind = .finder →
    (lookupLast K.R.paramFinder sq).getD "" = strOf r.method.name ∧ node.finders.contains (strOf r.method.name) = true
  action : r.method.kind = .action →
    (lookupLast K.R.paramAction sq).getD "" = strOf r.method.name ∧
      node.actions.lookup (strOf r.method.name) = some (hasKeyAt r.method.onEntity r.segs)
  plain : r.method.kind ≠ .finder → r.method.kind ≠ .action → node.methods.contains r.method.kind = true

open Restli.Routing in
/-- the request `receive` looks at, for a call's untunnelled request -/
def clientRoutingReq (K : Consts) (r : ResSpec) (texts : List Bytes) (q : Bytes) : Req :=
  { verb := verbOfBytes (verbBytes r.method.kind),
    headers := [(K.R.methodHeader, strOf (sB (methodName K.R r.method.kind)))],
    path := pathStrs r.method.onEntity r.segs (texts.map strOf),
    query := stringQuery q, decodes := Method.all, implOk := true }

open Restli.Routing Restli.Tunnel in
/-- the untunnelled request of a call, below the server's prefix, split at `/`: the resource names
and key texts; its method header and query as the client wrote them -/
theorem routingReq_client (K : Consts) (hK : ConstsOk K) (cfg : Cfg) (r : ResSpec) (texts : List Bytes)
    (hsegs : r.segs ≠ [])
    (hnames : ∀ s ∈ r.segs, ∀ c ∈ s.name, c ≠ 47) (htexts : ∀ t ∈ texts, ∀ c ∈ t, c ≠ 47)
    (hpfx : (strOf cfg.pfx).toList.getLast? ≠ some '/') (q : Bytes) (fq : Bool) (body : Option Bytes) :
    routingReq K cfg (plainReq K.T (cfg.pfx ++ joinPath (pathSegsB r.method.onEntity r.segs texts)) fq q
      (verbBytes r.method.kind) (sB (methodName K.R r.method.kind)) body) = some (clientRoutingReq K r texts q) := by
  have hne := pathSegsB_ne_nil r.method.onEntity r.segs texts hsegs
  have hclean : ∀ s ∈ pathSegsB r.method.onEntity r.segs texts, ∀ c ∈ s, c ≠ 47 := by
    intro s hs
    rcases pathSegsB_mem r.method.onEntity r.segs texts s hs with ⟨y, hy, rfl⟩ | hx
    · exact hnames y hy
    · exact htexts s hx
  obtain ⟨rest, hrest, hsplit⟩ := split_joinPath _ hne hclean
  have hstrip : stripPrefix (normalisePrefix (strOf cfg.pfx)).toList
      (strOf (cfg.pfx ++ joinPath (pathSegsB r.method.onEntity r.segs texts))).toList = some rest := by
    rw [normalisePrefix_noSlash _ hpfx, strOf_append]
    simp only [String.toList_append, strOf_toList (joinPath _), hrest]
    have : ("/" : String).toList = ['/'] := by decide
    rw [this]
    have := stripPrefix_append ((strOf cfg.pfx).toList ++ ['/']) rest
    simpa using this
  simp only [routingReq]
  rw [show (plainReq K.T (cfg.pfx ++ joinPath (pathSegsB r.method.onEntity r.segs texts)) fq q
    (verbBytes r.method.kind) (sB (methodName K.R r.method.kind)) body).path =
      cfg.pfx ++ joinPath (pathSegsB r.method.onEntity r.segs texts) from rfl, hstrip]
  simp only [plainReq_method_header K.T hK.good, hsplit, pathSegsB_strs, stringQuery, clientRoutingReq]
  rfl

open Restli.Routing in
/-- **Routing picks the call's method.** `ServeHTTP`/`receive` route the request of a call to the
handler registered for the call's method on the resource its path names, with the key texts as entity
keys — for every resource shape, method kind and key text. -/
theorem routeX_client (K : Consts) (hK : ConstsOk K) (roots : List Node) (r : ResSpec) (node : Node)
    (hnode : nodeFor roots r.segs = some node)
    (texts : List Bytes) (hlen : texts.length = (keyTys r.method.onEntity r.segs).length)
    (htexts : ∀ t ∈ texts, validateRor2Input (strOf t) = true)
    (q : Bytes) (hqv : ((stringQuery q).all fun kv => validateRor2Input kv.2) = true)
    (hkind : KindOk K r node (stringQuery q)) :
    routeX K.R validateRor2Input roots (clientRoutingReq K r texts q) =
      .routed (factsOf r texts) (hasKeyAt r.method.onEntity r.segs) (hasKeyAt r.method.onEntity r.segs) := by
  have hloc := locate_pathStrs roots r.method.onEntity r.segs node (texts.map strOf) hnode (by simpa using hlen)
  have hroute := routeX_named K.R validateRor2Input roots (clientRoutingReq K r texts q)
    ⟨node, rpathOf r.segs, texts.map strOf, hasKeyAt r.method.onEntity r.segs⟩ hloc
    (by
      simp only [List.all_map, List.all_eq_true]
      intro t ht; exact htexts t ht)
    hqv r.method.kind hkind.known
    (by simp [clientRoutingReq, hK.names _ hkind.known])
    hkind.needs hkind.forbids hkind.simple
  dsimp only [clientRoutingReq] at hroute ⊢
  rw [hroute]
  by_cases hf : r.method.kind = .finder
  · obtain ⟨h1, h2⟩ := hkind.finder hf
    have h2' : strOf r.method.name ∈ node.finders := by simpa using h2
    simp [lookupHandler, factsOf, hf, h1, h2']
  · by_cases ha : r.method.kind = .action
    · obtain ⟨h1, h2⟩ := hkind.action ha
      simp [lookupHandler, factsOf, ha, h1, h2]
    · have h3 := hkind.plain hf ha
      have h3' : r.method.kind ∈ node.methods := by simpa using h3
      simp [lookupHandler, factsOf, hf, ha, h3']

open Restli.Routing Restli.Tunnel in
/-- **The request reaches the closure registered for the call's method, with the client's own
bytes.** For every registered resource shape (`nodeFor`), method kind (`KindOk`), texts of the path
keys and query, context path and tunnelling threshold: whatever the client put on the wire, the
server de-tunnels it to the untunnelled request (C14), splits its path into exactly the resource
names and key texts, routes it (`ServeHTTP`, `receive`) to the method the call names — never to
another one — and runs that method's decoders on the client's key texts, raw query and body. -/
theorem serverSees_delivered (K : Consts) (hK : ConstsOk K) (env : Env) (roots : List Node) (cfg : Cfg)
    (r : ResSpec) (node : Node) (hnode : nodeFor roots r.segs = some node)
    (texts : List Bytes) (hlen : texts.length = (keyTys r.method.onEntity r.segs).length)
    (hnames : ∀ s ∈ r.segs, ∀ c ∈ s.name, c ≠ 47)
    (htexts : ∀ t ∈ texts, (∀ c ∈ t, c ≠ 47) ∧ validateRor2Input (strOf t) = true)
    (q : Bytes) (hqv : ((stringQuery q).all fun kv => validateRor2Input kv.2) = true)
    (hkind : KindOk K r node (stringQuery q))
    (hpfx : (strOf cfg.pfx).toList.getLast? ≠ some '/')
    (fq : Bool) (body : Option Bytes)
    (hb : TokenBoundary cfg.boundary) (hfresh : TunnelSpec.BoundaryFresh cfg.boundary q (body.getD []))
    (hbody : body ≠ some []) :
    ∃ sent, sentRequest K.T cfg.boundary cfg.threshold (cfg.pfx ++ joinPath (pathSegsB r.method.onEntity r.segs texts)) fq q
        (verbBytes r.method.kind) (sB (methodName K.R r.method.kind)) body = .ok sent ∧
      serverSees K env roots cfg r sent =
        afterRouting K env r (factsOf r texts)
          (plainReq K.T (cfg.pfx ++ joinPath (pathSegsB r.method.onEntity r.segs texts)) fq q
            (verbBytes r.method.kind) (sB (methodName K.R r.method.kind)) body) := by
  obtain ⟨sent, hsent, hdec⟩ := detunnelled K.T hK.good cfg.boundary hb cfg.threshold
    (cfg.pfx ++ joinPath (pathSegsB r.method.onEntity r.segs texts)) fq q (verbBytes r.method.kind)
    (sB (methodName K.R r.method.kind)) body (verbBytes_ne_nil _) hfresh hbody
  refine ⟨sent, hsent, ?_⟩
  have hsegs : r.segs ≠ [] := by
    intro e; rw [e] at hnode; simp [nodeFor] at hnode
  have hpath := routingReq_client K hK cfg r texts hsegs hnames (fun t ht => (htexts t ht).1) hpfx q fq body
  have hroute := routeX_client K hK roots r node hnode texts hlen (fun t ht => (htexts t ht).2) q hqv hkind
  simp only [serverSees, hdec, hpath, hroute, factsMatch_factsOf, Bool.not_true, Bool.false_eq_true, if_false]
  by_cases ha : (factsOf r texts).method = .action
  · simp [ha]
  · simp [ha]

/-! ## the reserved query parameters, looked up in the client's own query -/

theorem strOf_injective {a b : Bytes} (h : strOf a = strOf b) : a = b := by
  have := congrArg bytesOf h
  simpa [bytesOf_strOf] using this

theorem lookupLast_none {α : Type} (k : String) : ∀ (l : List (String × α)), (∀ e ∈ l, e.1 ≠ k) →
    Routing.lookupLast k l = Option.none
  | [], _ => rfl
  | (k', v) :: rest, h => by
    have h1 := lookupLast_none k rest (fun e he => h e (List.mem_cons_of_mem _ he))
    have h2 : (k' == k) = false := beq_eq_false_iff_ne.mpr (h (k', v) (List.mem_cons_self ..))
    simp [Routing.lookupLast, h1, h2]

theorem lookupLast_of_mem {α : Type} (k : String) (v : α) : ∀ (l : List (String × α)), (l.map (·.1)).Nodup →
    (k, v) ∈ l → Routing.lookupLast k l = some v
  | [], _, h => by cases h
  | (k', v') :: rest, hn, h => by
    simp only [List.map_cons, List.nodup_cons] at hn
    rcases List.mem_cons.1 h with he | hr
    · cases he
      have : Routing.lookupLast k rest = Option.none := by
        apply lookupLast_none
        intro e he hek
        exact hn.1 (List.mem_map.2 ⟨e, he, hek⟩)
      simp [Routing.lookupLast, this]
    · have := lookupLast_of_mem k v rest hn.2 hr
      simp [Routing.lookupLast, this]

/-- the query `receive` sees, in terms of the pairs the client joined -/
theorem stringQuery_joinQuery (ps : List (Bytes × Bytes)) (h : ∀ e ∈ ps, PairClean e) :
    stringQuery (joinQuery ps) = (sortByKey ps).map (fun e => (strOf e.1, strOf e.2)) := by
  rw [stringQuery, parseQuery_joinQuery ps h]

theorem stringQuery_nil : stringQuery [] = [] := by
  simp [stringQuery, parseQuery, splitOn]

theorem nodup_map_inj {α β : Type} (f : α → β) (hf : ∀ a b, f a = f b → a = b) : ∀ l : List α, l.Nodup → (l.map f).Nodup
  | [], _ => List.nodup_nil
  | a :: l, h => by
    rw [List.nodup_cons] at h
    simp only [List.map_cons, List.nodup_cons]
    refine ⟨?_, nodup_map_inj f hf l h.2⟩
    intro hm
    obtain ⟨b, hb, hfb⟩ := List.mem_map.1 hm
    have : b = a := hf _ _ hfb
    exact h.1 (this ▸ hb)

theorem sq_names_nodup (ps : List (Bytes × Bytes)) (hn : ((sortByKey ps).map (·.1)).Nodup) :
    (((sortByKey ps).map (fun e => (strOf e.1, strOf e.2))).map (·.1)).Nodup := by
  rw [List.map_map]
  have : ((fun (e : String × String) => e.1) ∘ fun (e : Bytes × Bytes) => (strOf e.1, strOf e.2)) =
      (strOf ∘ fun (e : Bytes × Bytes) => e.1) := rfl
  rw [this, ← List.map_map]
  exact nodup_map_inj strOf (fun _ _ h => strOf_injective h) _ hn

/-- a parameter the client wrote is what `receive` finds under its name -/
theorem lookup_client_pair (ps : List (Bytes × Bytes)) (h : ∀ e ∈ ps, PairClean e)
    (hn : ((sortByKey ps).map (·.1)).Nodup) (k v : Bytes) (hm : (k, v) ∈ ps) :
    Routing.lookupLast (strOf k) (stringQuery (joinQuery ps)) = some (strOf v) := by
  rw [stringQuery_joinQuery ps h]
  apply lookupLast_of_mem _ _ _ (sq_names_nodup ps hn)
  exact List.mem_map.2 ⟨(k, v), (mem_sortByKey ps (k, v)).2 hm, rfl⟩

/-- a name the client did not write is absent -/
theorem lookup_client_absent (ps : List (Bytes × Bytes)) (h : ∀ e ∈ ps, PairClean e) (k : Bytes)
    (hk : ∀ e ∈ ps, e.1 ≠ k) :
    Routing.lookupLast (strOf k) (stringQuery (joinQuery ps)) = Option.none := by
  rw [stringQuery_joinQuery ps h]
  apply lookupLast_none
  intro e he hek
  obtain ⟨x, hx, rfl⟩ := List.mem_map.1 he
  exact hk x ((mem_sortByKey ps x).1 hx) (strOf_injective hek)

/-! ## the method kind's demands, met by the client's own query -/

open Restli.Routing in
/-- what a resource description and its registration must agree on (the generator emits both from
one restspec): the method is registered on the node at the level the description says, entity-level
methods exist on collections only, a simple resource has the five methods a simple resource can have -/
structure SpecOk (r : ResSpec) (node : Node) : Prop where
  known : r.method.kind ≠ .unknown
  coll : node.isCollection = (lastKeyTy r.segs).isSome
  needs : node.isCollection = true → needsEntity r.method.kind = true → r.method.onEntity = true
  forbids : node.isCollection = true → forbidsEntity r.method.kind = true → r.method.onEntity = false
  simpleLevel : node.isCollection = false → r.method.onEntity = false
  simpleKinds : node.isCollection = false →
    r.method.kind = .get ∨ r.method.kind = .update ∨ r.method.kind = .delete ∨ r.method.kind = .partial_update ∨
      r.method.kind = .action
  finderReg : r.method.kind = .finder → node.finders.contains (strOf r.method.name) = true
  actionReg : r.method.kind = .action → node.actions.lookup (strOf r.method.name) = some r.method.onEntity
  plainReg : r.method.kind ≠ .finder → r.method.kind ≠ .action → node.methods.contains r.method.kind = true
  nameNe : r.method.kind = .finder ∨ r.method.kind = .action → r.method.name ≠ []

theorem hasKeyAt_eq (onEntity : Bool) (segs : List SegSpec) :
    hasKeyAt onEntity segs = (onEntity && (lastKeyTy segs).isSome) := rfl

theorem verbs_simple : verbOfBytes (verbBytes .get) = .GET ∧ verbOfBytes (verbBytes .update) = .PUT ∧
    verbOfBytes (verbBytes .delete) = .DELETE ∧ verbOfBytes (verbBytes .partial_update) = .POST ∧
    verbOfBytes (verbBytes .action) = .POST := by decide +kernel

open Restli.Routing in
/-- **`KindOk` for the client's own query.** If description and registration agree (`SpecOk`) and the
query the client wrote carries the finder / action name under `q` / `action` — and no `action`
parameter otherwise on a simple resource — then the request meets everything routing asks of the
method kind. `pairs` are the parameter pairs before sorting and joining. -/
theorem kindOk_of_pairs (K : Consts) (hK : ConstsOk K) (r : ResSpec) (node : Node) (hs : SpecOk r node)
    (pairs : Option (List (Bytes × Bytes))) (hclean : ∀ e ∈ pairs.getD [], PairClean e)
    (hn : ((sortByKey (pairs.getD [])).map (·.1)).Nodup)
    (hfinder : r.method.kind = .finder → (K.pFinder, r.method.name) ∈ pairs.getD [])
    (haction : r.method.kind = .action → (K.pAction, r.method.name) ∈ pairs.getD [])
    (hnoaction : r.method.kind ≠ .action → ∀ e ∈ pairs.getD [], e.1 ≠ K.pAction) :
    KindOk K r node (stringQuery ((pairs.map joinQuery).getD [])) := by
  have hq : stringQuery ((pairs.map joinQuery).getD []) = stringQuery (joinQuery (pairs.getD [])) := by
    cases pairs with
    | none => simp [stringQuery_nil, joinQuery, sortByKey, joinWith]
    | some ps => rfl
  rw [hq]
  have look := fun k v hm => lookup_client_pair (pairs.getD []) hclean hn k v hm
  have absent := fun k hk => lookup_client_absent (pairs.getD []) hclean k hk
  refine ⟨hs.known, ?_, ?_, ?_, ?_, ?_, hs.plainReg⟩
  · intro hc hne
    rw [hasKeyAt_eq, hs.needs hc hne, ← hs.coll, hc]; rfl
  · intro hc hf
    rw [hasKeyAt_eq, hs.forbids hc hf]; rfl
  · intro hc
    rcases hs.simpleKinds hc with h | h | h | h | h
    · rw [h]; simp [simpleMethod, verbs_simple.1]
    · rw [h]; simp [simpleMethod, verbs_simple.2.1]
    · rw [h]; simp [simpleMethod, verbs_simple.2.2.1]
    · have hna : r.method.kind ≠ .action := by rw [h]; decide
      have := absent K.pAction (hnoaction hna)
      rw [hK.actionStr] at this
      rw [h]; simp [simpleMethod, verbs_simple.2.2.2.1, this]
    · have := look K.pAction r.method.name (haction h)
      rw [hK.actionStr] at this
      have hne : strOf r.method.name ≠ "" := by
        intro e
        have : r.method.name = [] := strOf_injective (by rw [e]; rfl)
        exact hs.nameNe (Or.inr h) this
      rw [h]; simp [simpleMethod, verbs_simple.2.2.2.2, this, hne]
  · intro h
    have := look K.pFinder r.method.name (hfinder h)
    rw [hK.finderStr] at this
    exact ⟨by simp [this], hs.finderReg h⟩
  · intro h
    have := look K.pAction r.method.name (haction h)
    rw [hK.actionStr] at this
    refine ⟨by simp [this], ?_⟩
    rw [hs.actionReg h, hasKeyAt_eq]
    cases hc : node.isCollection with
    | true => rw [← hs.coll, hc]; simp
    | false => rw [hs.simpleLevel hc]; rfl

/-- the generated client writes the finder name under `q` and the action name under `action` -/
theorem queryPairs_reserved (K : Consts) (env : Env) (r : ResSpec) (c : Call) (pairs : Option (List (Bytes × Bytes)))
    (h : queryPairs K env r c = some pairs) (hne : r.method.name ≠ [])
    (hesc : K.queryEsc r.method.name = r.method.name) :
    (r.method.kind = .finder → (K.pFinder, r.method.name) ∈ pairs.getD []) ∧
    (r.method.kind = .action → (K.pAction, r.method.name) ∈ pairs.getD []) := by
  have hstr : ror2Str K.queryEsc r.method.name = r.method.name := by
    have he : r.method.name.isEmpty = false := by
      cases hn : r.method.name with
      | nil => exact absurd hn hne
      | cons a b => rfl
    simp [ror2Str, he, hesc]
  constructor
  · intro hk
    simp only [queryPairs, hk] at h
    cases hp : r.method.params with
    | none =>
      simp only [hp, Option.some.injEq] at h
      subst h; simp
    | some n =>
      simp only [hp] at h
      cases hc : c.params with
      | none => simp [hc] at h
      | some v =>
        simp only [hc] at h
        cases hpp : paramPairs K env n v with
        | none => simp [hpp] at h
        | some ps =>
          simp only [hpp, Option.map_some, Option.some.injEq] at h
          subst h
          simp [hstr]
  · intro hk
    simp only [queryPairs, hk, Option.some.injEq] at h
    subst h; simp

/-! ## the client's own request -/

theorem keyTexts_length (K : Consts) (env : Env) : ∀ (tys : List Ty) (ks : List Value) (ts : List Bytes),
    keyTexts K env tys ks = some ts → ts.length = tys.length
  | [], _, ts, h => by simp [keyTexts] at h; subst h; rfl
  | _ :: _, [], _, h => by simp [keyTexts] at h
  | ty :: tys, k :: ks, ts, h => by
    simp only [keyTexts] at h
    cases h1 : pathKeyText K env ty k with
    | none => simp [h1] at h
    | some t =>
      cases h2 : keyTexts K env tys ks with
      | none => simp [h1, h2] at h
      | some ts' =>
        simp only [h1, h2, Option.some.injEq] at h
        subst h
        simp [keyTexts_length K env tys ks ts' h2]

/-- what `clientEncode` produces, in terms of the key texts, the parameter pairs and the body document -/
theorem clientEncode_eq (K : Consts) (env : Env) (r : ResSpec) (c : Call) (texts : List Bytes)
    (pairs : Option (List (Bytes × Bytes))) (bodyD : Option Doc)
    (ht : keyTexts K env (keyTys r.method.onEntity r.segs) c.keys = some texts)
    (hp : queryPairs K env r c = some pairs) (hb : bodyDoc K env r c = some bodyD) :
    clientEncode K env r c = some
      { verb := verbBytes r.method.kind, restliMethod := sB (methodName K.R r.method.kind),
        root := (r.segs.head?.map (·.name)).getD [], rp := joinPath (pathSegsB r.method.onEntity r.segs texts),
        query := pairs.map joinQuery, body := bodyD.map renderJson } := by
  simp [clientEncode, pathFrom, queryOf, ht, hp, hb]

open Restli.Tunnel in
/-- the closure's decoding of the client's own request, part by part: the key texts, the pairs
`ParseQueryParams` cuts the client's query into (the sorted pairs the client joined), the body bytes -/
theorem decodeInvocation_client (K : Consts) (env : Env) (r : ResSpec) (texts : List Bytes)
    (pairs : Option (List (Bytes × Bytes))) (hclean : ∀ e ∈ pairs.getD [], PairClean e)
    (path : Bytes) (fq : Bool) (verb rm : Bytes) (body : Option Bytes) :
    decodeInvocation K env r (factsOf r texts)
        (plainReq K.T path fq ((pairs.map joinQuery).getD []) verb rm body) =
      (decodeKeys env (keyTys r.method.onEntity r.segs) texts).bind (fun keys =>
        (decodeQuery K env r (sortByKey (pairs.getD []))).bind (fun qp =>
          (decodeBody K env r qp.1 qp.2 (body.getD [])).bind (fun pb => .ok ⟨keys, pb.1, pb.2⟩))) := by
  have hk : (factsOf r texts).keys.map bytesOf = texts := by
    simp only [factsOf, List.map_map]
    induction texts with
    | nil => rfl
    | cons t ts ih => simp only [List.map_cons, Function.comp, bytesOf_strOf, ih]
  have hq : parseQuery ((pairs.map joinQuery).getD []) = sortByKey (pairs.getD []) := by
    cases pairs with
    | none => simp [parseQuery, splitOn, sortByKey]
    | some ps => exact parseQuery_joinQuery ps hclean
  have hb : bodyBytes (plainReq K.T path fq ((pairs.map joinQuery).getD []) verb rm body).body = body.getD [] := by
    cases body with
    | none => rfl
    | some x =>
      cases x with
      | nil => rfl
      | cons a as => rfl
  simp only [decodeInvocation, hk, hb]
  rw [show (plainReq K.T path fq ((pairs.map joinQuery).getD []) verb rm body).rawQuery =
    (pairs.map joinQuery).getD [] from rfl, hq]

/-! ## the response direction -/

/-- the JSON text a writer emitted parses (strictly) to the tree the writers denote — C03's pending
whole-document theorem; compared with `encoding/json` and the Lean parser on every run -/
structure JsonText (d : Doc) : Prop where
  parses : Json.parse (renderJson d) = some (treeOf jsonEnc d)
  nonEmpty : (renderJson d).isEmpty = false
  notNull : (renderJson d == nullLit) = false

theorem parseJson_text (d : Doc) (h : JsonText d) : parseJson (renderJson d) = .ok (treeOf jsonEnc d) := by
  simp [parseJson, h.parses, h.nonEmpty, h.notNull]

theorem wcfg_eq (K : Consts) (hK : ConstsOk K) (env : Env) (F : FloatLaws) (C : ConvLaws) (S : SchemaOK env) :
    wcfg K env = (jsonCtx env F C S).cfg := by
  simp [wcfg, jsonCtx, RTCtx.cfg, hK.sortKeys]

/-- the entity a `get` returns is what the client returns: C01's JSON tree round trip, applied -/
theorem returns_entity_get (K : Consts) (hK : ConstsOk K) (env : Env) (F : FloatLaws) (C : ConvLaws) (S : SchemaOK env)
    (keq : Value → Value → Bool) (r : ResSpec) (c : Call) (n : TName) (hs : r.schema = some n)
    (hkind : r.method.kind = .get) (v : Value) (hv : ValOK v) (d : Doc)
    (henc : encode (wcfg K env) encFuel [] (.ref n) v = .ok d) (ht : JsonText d) :
    ∃ resp, serverRespond K env r (.entity v) = some resp ∧
      clientReturns K env keq r c resp = .entity (norm env encFuel (.ref n) v) := by
  refine ⟨⟨K.R.srvInitialStatus, Option.none, false, some (renderJson d)⟩, ?_, ?_⟩
  · simp [serverRespond, hs, henc, toOpt, hkind]
  · have hrt := json_roundtrip_tree env F C S 0 encFuel [] [] true (.ref n) v d hv (by rw [← wcfg_eq K hK env F C S]; exact henc)
    simp only [clientReturns, headerOnWire, hK.okStatus, hkind, hs]
    simp [parseJson_text d ht, Dec.bind, jsonTCfg, hrt, ofTRes', decRet]

/-- a header field value that net/http hands to the client as it was written: no CR/LF, no leading
or trailing space or tab, no control byte — and not empty (an empty `X-RestLi-Id` counts as absent) -/
def HeaderSafe (t : Bytes) : Prop := headerOnWire t = some t ∧ t ≠ []

instance (t : Bytes) : Decidable (HeaderSafe t) := by unfold HeaderSafe; infer_instance

/-- the status a create answers with: the implementation's, 201 when it left it at zero -/
def createdStatus (cr : Created) : Nat := if cr.status == 0 then 201 else cr.status

/-- **created id and status** (guarded): when the id's header text is a transparent header value,
the client returns the id the header text decodes to (C01, header flavour: the implementation's id)
and the status the implementation chose -/
theorem returns_created (K : Consts) (env : Env) (keq : Value → Value → Bool) (r : ResSpec) (c : Call)
    (kt : Ty) (hkt : lastKeyTy r.segs = some kt) (hkind : r.method.kind = .create) (hre : r.method.returnEntity = false)
    (cr : Created) (idt : Bytes) (hid : ror2Text K env K.headerEsc kt cr.id = some idt)
    (hsafe : HeaderSafe idt) (id' : Value) (hdec : ofRes (unmarshalRor2 (pathRCfg env) kt idt) = .ok id')
    (hst : createdStatus cr / 100 = 2) :
    ∃ resp, serverRespond K env r (.created cr) = some resp ∧
      clientReturns K env keq r c resp = .created id' (createdStatus cr) Option.none := by
  refine ⟨⟨createdStatus cr, some idt, false, Option.none⟩, ?_, ?_⟩
  · simp [serverRespond, hkt, hid, hre, createdStatus]
  · have hne : idt.isEmpty = false := by
      cases h : idt with
      | nil => exact absurd h hsafe.2
      | cons a b => rfl
    have hst' : (createdStatus cr / 100 != 2) = false := by simp [hst]
    simp only [clientReturns, hsafe.1, Option.map_some, hkind, hre, hkt, hst']
    simp [hne, hdec, decRet]

/-- **action result**: the value an action returns is what the client returns (the `value` envelope
opened, C01's JSON tree round trip applied to its content) -/
theorem returns_action (K : Consts) (hK : ConstsOk K) (env : Env) (F : FloatLaws) (C : ConvLaws) (S : SchemaOK env)
    (keq : Value → Value → Bool) (r : ResSpec) (c : Call) (ty : Ty) (hret : r.method.ret = some ty)
    (hkind : r.method.kind = .action) (v : Value) (hv : ValOK v) (d : Doc)
    (henc : encode (wcfg K env) encFuel [K.fValue] ty v = .ok d)
    (ht : JsonText ((wcfg K env).finish [(K.fValue, d)])) :
    ∃ resp, serverRespond K env r (.action v) = some resp ∧
      clientReturns K env keq r c resp = .action (norm env encFuel ty v) := by
  refine ⟨⟨K.R.srvInitialStatus, Option.none, false, some (renderJson ((wcfg K env).finish [(K.fValue, d)]))⟩, ?_, ?_⟩
  · simp [serverRespond, hret, henc, toOpt]
  · have hrt := json_roundtrip_tree env F C S 0 encFuel [K.fValue] [.key K.fValue] false ty v d hv
      (by rw [← wcfg_eq K hK env F C S]; exact henc)
    have htree : treeOf jsonEnc ((wcfg K env).finish [(K.fValue, d)]) = .obj [(K.fValue, treeOf jsonEnc d)] := by
      simp [EncCfg.finish, wcfg, hK.sortKeys, sortByKey, insertByKey, treeOf, treeOfKvs, jsonEnc]
    simp only [clientReturns, hK.okStatus, hkind, hret]
    simp [parseJson_text _ ht, htree, Dec.bind, soleMember, jsonTCfg, hrt, ofTRes', decRet]

theorem jsonLeaf_ne_null : ∀ x, jsonEnc.leaf x ≠ .null := by
  intro x
  cases x with
  | f64 b =>
    simp only [jsonEnc, jsonTreeLeaf]
    split
    · simp
    · split <;> simp
  | _ => simp [jsonEnc, jsonTreeLeaf]

theorem ne_of_bytesLt {a b : Bytes} (h : bytesLt a b = true) : a ≠ b := by
  intro e; subst e; rw [bytesLt_irrefl] at h; cases h

theorem beq_false_of_ne {a b : Bytes} (h : a ≠ b) : (a == b) = false := beq_eq_false_iff_ne.mpr h

/-- the elements of a collection response, read back one by one (C01's JSON tree round trip applied
to each) -/
theorem decodeArr_items (K : Consts) (hK : ConstsOk K) (env : Env) (F : FloatLaws) (C : ConvLaws) (S : SchemaOK env)
    (ty : Ty) (scopeR : List Codec.Seg) :
    ∀ (vs : List Value) (ds : List Doc), (∀ v ∈ vs, ValOK v) → encElems K env ty vs = some ds →
      decodeArr (fun x => ofTRes' (treeRead (jsonTCfg env 0) false scopeR ty x)) (treeOfItems jsonEnc ds) =
        .ok (vs.map (norm env encFuel ty))
  | [], ds, _, h => by
    simp only [encElems, mapM', Option.some.injEq] at h
    subst h
    simp [treeOfItems, decodeArr]
  | v :: vs, ds, hv, h => by
    simp only [encElems, mapM'] at h
    cases h1 : toOpt (encode (wcfg K env) encFuel [K.fElements, Gen.wildCard] ty v) with
    | none => simp [h1] at h
    | some d =>
      cases h2 : mapM' (fun v => toOpt (encode (wcfg K env) encFuel [K.fElements, Gen.wildCard] ty v)) vs with
      | none => simp [h1, h2] at h
      | some ds' =>
        simp only [h1, h2, Option.some.injEq] at h
        subst h
        have henc : encode (wcfg K env) encFuel [K.fElements, Gen.wildCard] ty v = .ok d := by
          cases he : encode (wcfg K env) encFuel [K.fElements, Gen.wildCard] ty v with
          | ok x => rw [he] at h1; simp only [toOpt, Option.some.injEq] at h1; rw [h1]
          | error e => rw [he] at h1; simp [toOpt] at h1
        have hrt := json_roundtrip_tree env F C S 0 encFuel [K.fElements, Gen.wildCard] scopeR false ty v d
          (hv v (List.mem_cons_self ..)) (by rw [← wcfg_eq K hK env F C S]; exact henc)
        have ih := decodeArr_items K hK env F C S ty scopeR vs ds' (fun x hx => hv x (List.mem_cons_of_mem _ hx)) h2
        simp only [treeOfItems, decodeArr, jsonTCfg] at ih ⊢
        rw [hrt, ih]
        simp [ofTRes', Dec.bind]

/-- **elements with paging**: what `get_all` / a finder (without declared metadata) returns is what
the client returns — every element, in order, and the paging record -/
theorem returns_elements (K : Consts) (hK : ConstsOk K) (env : Env) (F : FloatLaws) (C : ConvLaws) (S : SchemaOK env)
    (keq : Value → Value → Bool) (r : ResSpec) (c : Call) (ty : Ty)
    (hkind : r.method.kind = .get_all ∨ r.method.kind = .finder) (hty : elemTy r = some ty)
    (vs : List Value) (hvs : ∀ v ∈ vs, ValOK v) (ds : List Doc) (hds : encElems K env ty vs = some ds)
    (paging : Option Value) (hpv : ∀ p, paging = some p → ValOK p) (pg : List (Bytes × Doc))
    (hpg : encPaging K env paging = some pg) (hmeta : r.method.metadata = Option.none)
    (ht : JsonText ((wcfg K env).finish ((K.fElements, .arr ds) :: pg))) :
    ∃ resp, serverRespond K env r (.elements vs paging Option.none) = some resp ∧
      clientReturns K env keq r c resp =
        .elements (vs.map (norm env encFuel ty)) (paging.map (norm env encFuel (.ref tCollMeta))) Option.none := by
  have hel := decodeArr_items K hK env F C S ty [.key K.fElements, .idx 0] vs ds hvs hds
  have hne : (K.fPaging == K.fElements) = false := beq_false_of_ne (fun e => ne_of_bytesLt hK.elemPaging e.symm)
  have hmd : encMetadata K env r.method Option.none = some [] := by simp [encMetadata, hmeta]
  refine ⟨⟨K.R.srvInitialStatus, Option.none, false,
    some (renderJson ((wcfg K env).finish ((K.fElements, .arr ds) :: pg)))⟩, ?_, ?_⟩
  · simp [serverRespond, hty, hds, hmd, hpg]
  · cases paging with
    | none =>
      simp only [encPaging, Option.some.injEq] at hpg
      subst hpg
      have htree : treeOf jsonEnc ((wcfg K env).finish [(K.fElements, .arr ds)]) =
          .obj [(K.fElements, .arr (treeOfItems jsonEnc ds))] := by
        simp [EncCfg.finish, wcfg, hK.sortKeys, sortByKey, insertByKey, treeOf, treeOfKvs, jsonEnc]
      have hlk : List.lookup K.fPaging [(K.fElements, Json.JVal.arr (treeOfItems jsonEnc ds))] = Option.none := by
        simp [List.lookup, hne]
      rcases hkind with hk' | hk' <;>
        simp [clientReturns, hK.okStatus, hk', hty, parseJson_text _ ht, htree, Dec.bind, knownOnly, memberOf, hlk,
          hel, decRet, hmeta]
    | some p =>
      simp only [encPaging] at hpg
      cases hpe : encode (wcfg K env) encFuel [K.fPaging] (.ref tCollMeta) p with
      | error e => simp [hpe, toOpt] at hpg
      | ok d =>
        simp only [hpe, toOpt, Option.map_some, Option.some.injEq] at hpg
        subst hpg
        have hrt := json_roundtrip_tree env F C S 0 encFuel [K.fPaging] [.key K.fPaging] false (.ref tCollMeta) p d
          (hpv p rfl) (by rw [← wcfg_eq K hK env F C S]; exact hpe)
        have htree : treeOf jsonEnc ((wcfg K env).finish [(K.fElements, .arr ds), (K.fPaging, d)]) =
            .obj [(K.fElements, .arr (treeOfItems jsonEnc ds)), (K.fPaging, treeOf jsonEnc d)] := by
          simp [EncCfg.finish, wcfg, hK.sortKeys, sortByKey, insertByKey, hK.elemPaging, treeOf, treeOfKvs, jsonEnc]
        have hnn : treeOf jsonEnc d ≠ .null := treeOf_ne_null jsonEnc jsonLeaf_ne_null d
        have hmem : memberOf K.fPaging [(K.fElements, Json.JVal.arr (treeOfItems jsonEnc ds)), (K.fPaging, treeOf jsonEnc d)] =
            some (treeOf jsonEnc d) := by
          simp only [memberOf, List.lookup, hne, beq_self_eq_true]
          cases htd : treeOf jsonEnc d <;> first | rfl | exact absurd htd hnn
        have hmemE : memberOf K.fElements [(K.fElements, Json.JVal.arr (treeOfItems jsonEnc ds)), (K.fPaging, treeOf jsonEnc d)] =
            some (.arr (treeOfItems jsonEnc ds)) := by
          simp [memberOf, List.lookup]
        have hknown : ∀ extra, knownOnly ([K.fElements, K.fPaging] ++ extra)
            [(K.fElements, Json.JVal.arr (treeOfItems jsonEnc ds)), (K.fPaging, treeOf jsonEnc d)] = true := by
          intro extra; simp [knownOnly]
        have hk0 := hknown []
        simp only [List.append_nil] at hk0
        have hpj := parseJson_text _ ht
        rw [htree] at hpj
        have hrt' : ofTRes' (treeRead (jsonTCfg env 0) false [.key K.fPaging] (.ref tCollMeta) (treeOf jsonEnc d)) =
            .ok (norm env encFuel (.ref tCollMeta) p) := by simp [jsonTCfg, hrt, ofTRes']
        rcases hkind with hk' | hk' <;>
          simp [clientReturns, hK.okStatus, hk', hty, hpj, Dec.bind, hk0, hmemE, hmem,
            hel, decRet, hmeta, hrt']

/-! ## batch responses: every entry filed under the caller's key -/

/-- what reading one member of a batch response map needs: the member is not null, its name reads
as a key (path flavour) that the key type's equality finds among the caller's keys — `orig` — and
its value decodes -/
def MemberOk {β : Type} (env : Env) (kt : Ty) (keq : Value → Value → Bool) (callKeys : List Value)
    (dec : Json.JVal → Dec β) (orig : Bytes → Value) (val : Json.JVal → β) (m : Bytes × Json.JVal) : Prop :=
  m.2 ≠ .null ∧
  (∃ kv, ofRes (unmarshalRor2 (pathRCfg env) kt m.1) = .ok kv ∧ callKeys.find? (fun ck => keq ck kv) = some (orig m.1)) ∧
  dec m.2 = .ok (val m.2)

/-- one map (`results`, `statuses` or `errors`) of a batch response: every member is filed under the
caller's own key its name is equal to, with its decoded value — as many entries as members, in the
members' order, none lost, none filed twice -/
theorem decodeBatchMap_members {β : Type} (env : Env) (kt : Ty) (keq : Value → Value → Bool) (callKeys : List Value)
    (dec : Json.JVal → Dec β) (orig : Bytes → Value) (val : Json.JVal → β) :
    ∀ (ms : List (Bytes × Json.JVal)) (seen : List Value),
      (∀ m ∈ ms, MemberOk env kt keq callKeys dec orig val m) →
      (ms.map (fun m => orig m.1)).Pairwise (fun a b => keq a b = false) →
      (∀ s ∈ seen, ∀ m ∈ ms, keq s (orig m.1) = false) →
      decodeBatchMap env kt keq callKeys dec seen ms = .ok (ms.map (fun m => (orig m.1, val m.2)))
  | [], _, _, _, _ => by simp [decodeBatchMap]
  | (k, jv) :: rest, seen, hm, hp, hs => by
    obtain ⟨hnn, ⟨kv, hkv, hfind⟩, hdec⟩ := hm (k, jv) (List.mem_cons_self ..)
    simp only [List.map_cons, List.pairwise_cons] at hp
    have hseen : seen.any (fun s => keq s (orig k)) = false := by
      rw [List.any_eq_false]
      intro s hs'
      simp [hs s hs' (k, jv) (List.mem_cons_self ..)]
    have ih := decodeBatchMap_members env kt keq callKeys dec orig val rest (orig k :: seen)
      (fun m hm' => hm m (List.mem_cons_of_mem _ hm')) hp.2
      (by
        intro s hs' m hm'
        rcases List.mem_cons.1 hs' with rfl | hs''
        · exact hp.1 _ (List.mem_map.2 ⟨m, hm', rfl⟩)
        · exact hs s hs'' m (List.mem_cons_of_mem _ hm'))
    have hstep : decodeBatchMap env kt keq callKeys dec seen ((k, jv) :: rest) =
        (ofRes (unmarshalRor2 (pathRCfg env) kt k)).bind (fun kv =>
          match callKeys.find? (fun ck => keq ck kv) with
          | Option.none => .bad
          | some o =>
            if seen.any (fun s => keq s o) then .bad
            else (dec jv).bind (fun v =>
              (decodeBatchMap env kt keq callKeys dec (o :: seen) rest).bind (fun more => .ok ((o, v) :: more)))) := by
      cases jv <;> first | exact absurd rfl hnn | rfl
    rw [hstep, hkv]
    simp only [Dec.bind, hfind, hseen, Bool.false_eq_true, if_false, hdec, ih, List.map_cons]

/-! ## after the repairs: the writers discharge the two former guards -/

/-- the JSON text law from C03's whole-document theorem (`parse_renderJson`) -/
theorem renderJson_ne_null (N : NumLaws) (d : Doc) : (renderJson d == nullLit) = false := by
  have key : ∀ (c : UInt8) (tl : Bytes), renderJson d = c :: tl → c ≠ 110 → (renderJson d == nullLit) = false := by
    intro c tl h hc
    rw [h]
    apply beq_eq_false_iff_ne.mpr
    intro e
    simp only [nullLit, List.cons.injEq] at e
    exact hc e.1
  have digitOr45 : ∀ c : UInt8, (Json.isDigit c = true ∨ c = 45) → c ≠ 110 := by
    intro c hc
    rcases hc with hd | rfl
    · intro h; subst h; revert hd; decide
    · decide
  cases d with
  | int v =>
    have := Strconv.formatInt_clean v
    cases hfi : Strconv.formatInt v with
    | nil => exact absurd hfi this.1
    | cons c cs => exact key c cs (by simp [renderJson, hfi]) (digitOr45 c (this.2 c (by rw [hfi]; simp)))
  | f64 b =>
    by_cases h2 : ((Strconv.decodeBits Strconv.f64 b).cls == 2) = true
    · exact key 34 _ (by simp only [renderJson, jsonFloat, h2, ↓reduceIte, Json.jsonString]; rfl) (by decide)
    · have h2' : ((Strconv.decodeBits Strconv.f64 b).cls == 2) = false := by simpa using h2
      by_cases h1 : ((Strconv.decodeBits Strconv.f64 b).cls == 1) = true
      · exact key 34 _ (by simp only [renderJson, jsonFloat, h2', h1, Bool.false_eq_true, ↓reduceIte, Json.jsonString]; rfl) (by decide)
      · have h1' : ((Strconv.decodeBits Strconv.f64 b).cls == 1) = false := by simpa using h1
        obtain ⟨c, cs, hc, hd⟩ := N.float_head b h2' h1'
        exact key c cs (by simp [renderJson, jsonFloat, h2', h1', hc]) (digitOr45 c hd)
  | bool b =>
    cases b
    · exact key 102 _ (by simp only [renderJson, falseB, Bool.false_eq_true, ↓reduceIte]; rfl) (by decide)
    · exact key 116 _ (by simp only [renderJson, trueB, ↓reduceIte]; rfl) (by decide)
  | str b => exact key 34 _ (by simp only [renderJson, Json.jsonString]; rfl) (by decide)
  | bytes b => exact key 34 _ (by simp only [renderJson, Json.jsonString]; rfl) (by decide)
  | obj kvs => exact key 123 _ (by simp only [renderJson]; rfl) (by decide)
  | arr xs => exact key 91 _ (by simp only [renderJson]; rfl) (by decide)

/-- `JsonText` holds for every document whose strings and keys are valid UTF-8 (C03) -/
theorem jsonText_of (N : NumLaws) (d : Doc) (hok : DocTextOK d) : JsonText d where
  parses := parse_renderJson N d hok
  nonEmpty := by
    have := renderJson_len_pos N d
    cases h : renderJson d with
    | nil => rw [h] at this; simp at this
    | cons a b => rfl
  notNull := renderJson_ne_null N d

/-! ### the path writer never writes a dot segment -/

theorem escapeWith_cons (safe : List UInt8) (c : UInt8) (cs : Bytes) :
    Escape.escapeWith safe (c :: cs) = Escape.escOne safe c ++ Escape.escapeWith safe cs := by
  simp [Escape.escapeWith]

/-- the table-driven escaper maps nothing but `.` to `.` and nothing but `..` to `..` -/
theorem escapeWith_dot (safe : List UInt8) (b : Bytes) :
    (Escape.escapeWith safe b = [46] → b = [46]) ∧ (Escape.escapeWith safe b = [46, 46] → b = [46, 46]) := by
  have one : ∀ b, Escape.escapeWith safe b = [46] → b = [46] := by
    intro b h
    cases b with
    | nil => simp [Escape.escapeWith] at h
    | cons c cs =>
      rw [escapeWith_cons] at h
      unfold Escape.escOne at h
      split at h
      · simp only [List.cons_append, List.nil_append, List.cons.injEq] at h
        have hcs : cs = [] := by
          cases cs with
          | nil => rfl
          | cons d ds => exact absurd h.2 (Escape.escapeWith_ne_nil safe _ (by simp))
        rw [h.1, hcs]
      · simp [Escape.pct] at h
  refine ⟨one b, ?_⟩
  intro h
  cases b with
  | nil => simp [Escape.escapeWith] at h
  | cons c cs =>
    rw [escapeWith_cons] at h
    unfold Escape.escOne at h
    split at h
    · simp only [List.cons_append, List.nil_append, List.cons.injEq] at h
      rw [h.1, one cs h.2]
    · simp [Escape.pct] at h

/-- the first byte of escaped text is the first byte of the text or `%` -/
theorem escapeWith_head (safe : List UInt8) (c : UInt8) (cs : Bytes) :
    ∃ tl, Escape.escapeWith safe (c :: cs) = c :: tl ∨ Escape.escapeWith safe (c :: cs) = 37 :: tl := by
  rw [escapeWith_cons]
  unfold Escape.escOne
  split
  · exact ⟨_, Or.inl rfl⟩
  · exact ⟨Escape.hexUpper (c.toNat / 16) :: Escape.hexUpper (c.toNat % 16) :: Escape.escapeWith safe cs,
      Or.inr (by simp [Escape.pct])⟩

theorem not_dots_of_head (t : Bytes) (c : UInt8) (tl : Bytes) (h : t = c :: tl) (hc : c ≠ 46) :
    t ≠ [46] ∧ t ≠ [46, 46] := by
  subst h
  constructor <;> (intro e; simp only [List.cons.injEq] at e; exact hc e.1)

/-- **What the path writer writes for a key is never `.` or `..`** (after the repair): for every key
document — strings are special-cased, every other value starts with a byte that is not a dot -/
theorem renderRor2Path_not_dot (N : NumLaws) (safe : List UInt8) (d : Doc) :
    renderRor2Path (Escape.escapeWith safe) d ≠ [46] ∧ renderRor2Path (Escape.escapeWith safe) d ≠ [46, 46] := by
  have strCase : ∀ b : Bytes,
      (if b == [46] then [37, 50, 69] else if b == [46, 46] then [37, 50, 69, 37, 50, 69]
        else ror2Str (Escape.escapeWith safe) b) ≠ [46] ∧
      (if b == [46] then ([37, 50, 69] : Bytes) else if b == [46, 46] then [37, 50, 69, 37, 50, 69]
        else ror2Str (Escape.escapeWith safe) b) ≠ [46, 46] := by
    intro b
    by_cases h1 : b = [46]
    · subst h1; simp
    · by_cases h2 : b = [46, 46]
      · subst h2; simp
      · have e1 : (b == [46]) = false := beq_eq_false_iff_ne.mpr h1
        have e2 : (b == [46, 46]) = false := beq_eq_false_iff_ne.mpr h2
        simp only [e1, e2, Bool.false_eq_true, if_false, ror2Str]
        split
        · exact ⟨by decide, by decide⟩
        · exact ⟨fun e => h1 ((escapeWith_dot safe b).1 e), fun e => h2 ((escapeWith_dot safe b).2 e)⟩
  have digitOr45 : ∀ c : UInt8, (Strconv.isDigit c = true ∨ c = 45) → c ≠ 46 := by
    intro c hc
    rcases hc with hd | rfl
    · intro h; subst h; revert hd; decide
    · decide
  cases d with
  | str b => exact strCase b
  | bytes b => exact strCase b
  | int v =>
    have := Strconv.formatInt_clean v
    cases hfi : Strconv.formatInt v with
    | nil => exact absurd hfi this.1
    | cons c cs =>
      exact not_dots_of_head _ c cs (by simp [renderRor2Path, renderRor2, hfi]) (digitOr45 c (this.2 c (by rw [hfi]; simp)))
  | f64 b =>
    simp only [renderRor2Path, renderRor2, ror2Float]
    by_cases h2 : ((Strconv.decodeBits Strconv.f64 b).cls == 2) = true
    · simp only [h2, ↓reduceIte]; exact ⟨by decide, by decide⟩
    · have h2' : ((Strconv.decodeBits Strconv.f64 b).cls == 2) = false := by simpa using h2
      by_cases h1 : ((Strconv.decodeBits Strconv.f64 b).cls == 1) = true
      · simp only [h2', h1, Bool.false_eq_true, ↓reduceIte]
        split <;> exact ⟨by decide, by decide⟩
      · have h1' : ((Strconv.decodeBits Strconv.f64 b).cls == 1) = false := by simpa using h1
        obtain ⟨c, cs, hc, hd⟩ := N.float_head b h2' h1'
        simp only [h2', h1', Bool.false_eq_true, ↓reduceIte, hc]
        obtain ⟨tl, htl | htl⟩ := escapeWith_head safe c cs
        · exact not_dots_of_head _ c tl htl (digitOr45 c hd)
        · exact not_dots_of_head _ 37 tl htl (by decide)
  | bool b =>
    cases b
    · exact not_dots_of_head _ 102 _ (by simp only [renderRor2Path, renderRor2, falseB, Bool.false_eq_true, ↓reduceIte]; rfl) (by decide)
    · exact not_dots_of_head _ 116 _ (by simp only [renderRor2Path, renderRor2, trueB, ↓reduceIte]; rfl) (by decide)
  | obj kvs => exact not_dots_of_head _ 40 _ (by simp only [renderRor2Path, renderRor2]; rfl) (by decide)
  | arr xs =>
    exact not_dots_of_head _ 76 _ (by simp only [renderRor2Path, renderRor2]; rfl) (by decide)

theorem keyTexts_not_dot (K : Consts) (N : NumLaws) (env : Env) : ∀ (tys : List Ty) (ks : List Value) (ts : List Bytes),
    keyTexts K env tys ks = some ts → ∀ t ∈ ts, t ≠ [46] ∧ t ≠ [46, 46]
  | [], _, ts, h => by simp [keyTexts] at h; subst h; intro t ht; cases ht
  | _ :: _, [], _, h => by simp [keyTexts] at h
  | ty :: tys, k :: ks, ts, h => by
    simp only [keyTexts] at h
    cases h1 : pathKeyText K env ty k with
    | none => simp [h1] at h
    | some t0 =>
      cases h2 : keyTexts K env tys ks with
      | none => simp [h1, h2] at h
      | some ts' =>
        simp only [h1, h2, Option.some.injEq] at h
        subst h
        intro t ht
        rcases List.mem_cons.1 ht with rfl | ht'
        · simp only [pathKeyText] at h1
          cases he : toOpt (encode (wcfg K env) encFuel [] ty k) with
          | none => simp [he] at h1
          | some d =>
            simp only [he, Option.map_some, Option.some.injEq] at h1
            rw [← h1]
            exact renderRor2Path_not_dot N K.pathSafe d
        · exact keyTexts_not_dot K N env tys ks ts' h2 t ht'

open Restli.HttpUrlSpec in
/-- splitting a path of slash-free segments at `/` gives an empty first piece and the segments -/
theorem segmentsOf_joinPath : ∀ (segs : List Bytes), (∀ s ∈ segs, ∀ c ∈ s, c ≠ 47) →
    segmentsOf (joinPath segs) = [] :: segs
  | [], _ => by simp [joinPath, segmentsOf]
  | s :: rest, h => by
    have ih := segmentsOf_joinPath rest (fun x hx => h x (List.mem_cons_of_mem _ hx))
    have hs := h s (List.mem_cons_self ..)
    have aux : ∀ (x : Bytes), (∀ c ∈ x, c ≠ 47) → segmentsOf (x ++ joinPath rest) =
        (match segmentsOf (joinPath rest) with | hd :: tl => (x ++ hd) :: tl | [] => [x]) := by
      intro x hx
      induction x with
      | nil => simp [ih]
      | cons c cs ihx =>
        have hc : (c == 47) = false := beq_eq_false_iff_ne.mpr (hx c (List.mem_cons_self ..))
        have := ihx (fun d hd => hx d (List.mem_cons_of_mem _ hd))
        simp only [List.cons_append, segmentsOf, hc, Bool.false_eq_true, if_false, this, ih]
    have : joinPath (s :: rest) = 47 :: (s ++ joinPath rest) := by simp [joinPath]
    rw [this]
    simp only [segmentsOf, beq_self_eq_true, if_true, aux s hs, ih, List.append_nil]

open Restli.HttpUrlSpec in
/-- C15's guard 1 for a path all of whose segments are slash-free and none of which is a dot segment -/
theorem noDotSegments_joinPath (segs : List Bytes) (h1 : ∀ s ∈ segs, ∀ c ∈ s, c ≠ 47)
    (h2 : ∀ s ∈ segs, s ≠ [46] ∧ s ≠ [46, 46]) : NoDotSegments (joinPath segs) := by
  unfold NoDotSegments
  rw [segmentsOf_joinPath segs h1]
  intro s hs
  rcases List.mem_cons.1 hs with rfl | hs'
  · exact ⟨by decide, by decide⟩
  · exact h2 s hs'

/-! ### the header flavour writes only bytes that survive in a header field value -/

theorem replaceWith_good (pairs : List (UInt8 × Bytes))
    (hcov : ∀ i : Fin 256, hdrGood (UInt8.ofNat i.val) = false → (pairs.lookup (UInt8.ofNat i.val)).isSome = true)
    (hw : ∀ p ∈ pairs, p.2.all hdrGood = true) (b : Bytes) :
    (Escape.replaceWith pairs b).all hdrGood = true := by
  induction b with
  | nil => rfl
  | cons c cs ih =>
    have : Escape.replaceWith pairs (c :: cs) = Escape.replOne pairs c ++ Escape.replaceWith pairs cs := by
      simp [Escape.replaceWith]
    rw [this, List.all_append, ih, Bool.and_true]
    unfold Escape.replOne
    cases hl : pairs.lookup c with
    | some r =>
      simp only
      have hm : (c, r) ∈ pairs := Escape.lookup_mem pairs c r hl
      exact hw (c, r) hm
    | none =>
      simp only [List.all_cons, List.all_nil, Bool.and_true]
      cases hg : hdrGood c with
      | true => rfl
      | false =>
        have := hcov ⟨c.toNat, c.toNat_lt⟩ (by simpa using hg)
        simp only [UInt8.ofNat_toNat, hl] at this
        cases this

mutual
/-- every byte the header-flavour writer emits survives in an HTTP header field value -/
theorem renderRor2_good (esc : Bytes → Bytes) (hesc : ∀ b, (esc b).all hdrGood = true) :
    (d : Doc) → (renderRor2 esc d).all hdrGood = true
  | .int v => by
    simp only [renderRor2, List.all_eq_true]
    intro c hc
    rcases (Strconv.formatInt_clean v).2 c hc with hd | rfl
    · revert hd
      have := Url.byte_forall (fun c => !(Strconv.isDigit c) || hdrGood c) (by decide +kernel) c
      intro hd; simpa [hd] using this
    · decide
  | .f64 b => by
    simp only [renderRor2, ror2Float]
    split
    · decide
    · split
      · split <;> decide
      · exact hesc _
  | .bool b => by cases b <;> simp only [renderRor2] <;> decide
  | .str b => by
    simp only [renderRor2, ror2Str]
    split
    · decide
    · exact hesc _
  | .bytes b => by
    simp only [renderRor2, ror2Str]
    split
    · decide
    · exact hesc _
  | .obj kvs => by
    simp only [renderRor2, List.all_cons, List.all_append, renderRor2Kvs_good esc hesc kvs]
    decide
  | .arr xs => by
    simp only [renderRor2, List.all_append, renderRor2Items_good esc hesc xs]
    decide
theorem renderRor2Kvs_good (esc : Bytes → Bytes) (hesc : ∀ b, (esc b).all hdrGood = true) :
    (kvs : List (Bytes × Doc)) → (renderRor2Kvs esc kvs).all hdrGood = true
  | [] => rfl
  | [(k, v)] => by
    have hk : (ror2Str esc k).all hdrGood = true := by
      simp only [ror2Str]; split
      · decide
      · exact hesc _
    simp only [renderRor2Kvs, List.all_append, List.all_cons, hk, renderRor2_good esc hesc v]
    decide
  | (k, v) :: e2 :: rest => by
    have hk : (ror2Str esc k).all hdrGood = true := by
      simp only [ror2Str]; split
      · decide
      · exact hesc _
    simp only [renderRor2Kvs, List.all_append, List.all_cons, hk, renderRor2_good esc hesc v,
      renderRor2Kvs_good esc hesc (e2 :: rest)]
    decide
theorem renderRor2Items_good (esc : Bytes → Bytes) (hesc : ∀ b, (esc b).all hdrGood = true) :
    (xs : List Doc) → (renderRor2Items esc xs).all hdrGood = true
  | [] => rfl
  | [v] => by simp only [renderRor2Items, renderRor2_good esc hesc v]
  | v :: v2 :: rest => by
    simp only [renderRor2Items, List.all_append, List.all_cons, renderRor2_good esc hesc v,
      renderRor2Items_good esc hesc (v2 :: rest)]
    decide
end

theorem dropWhile_head_false {α : Type} (p : α → Bool) : ∀ (l : List α), (∀ a, l.head? = some a → p a = false) →
    l.dropWhile p = l
  | [], _ => rfl
  | a :: as, h => by simp [List.dropWhile, h a rfl]

/-- text made of such bytes reaches the client as it was written -/
theorem headerOnWire_good (t : Bytes) (h : t.all hdrGood = true) : headerOnWire t = some t := by
  have hall : ∀ c ∈ t, hdrGood c = true := List.all_eq_true.mp h
  have facts : ∀ c : UInt8, hdrGood c = true → c ≠ 10 ∧ c ≠ 13 ∧ c ≠ 32 ∧ c ≠ 9 ∧ Mime.validValueByte c = true := by
    intro c hc
    have := Url.byte_forall (fun c => !(hdrGood c) || (c != 10 && c != 13 && c != 32 && c != 9 && Mime.validValueByte c))
      (by decide +kernel) c
    simp only [hc, Bool.not_true, Bool.false_or, Bool.and_eq_true, bne_iff_ne, ne_eq] at this
    exact ⟨this.1.1.1.1, this.1.1.1.2, this.1.1.2, this.1.2, this.2⟩
  have hmap : t.map (fun c => if c == 10 || c == 13 then 32 else c) = t := by
    conv => rhs; rw [← List.map_id t]
    apply List.map_congr_left
    intro c hc
    obtain ⟨h10, h13, _⟩ := facts c (hall c hc)
    simp [h10, h13]
  have hnotws : ∀ c ∈ t, (c == 32 || c == 9) = false := by
    intro c hc
    obtain ⟨_, _, h32, h9, _⟩ := facts c (hall c hc)
    simp [h32, h9]
  have htrim1 : t.dropWhile (fun c => c == 32 || c == 9) = t := by
    apply dropWhile_head_false
    intro a ha
    exact hnotws a (List.mem_of_mem_head? ha)
  have htrim2 : t.reverse.dropWhile (fun c => c == 32 || c == 9) = t.reverse := by
    apply dropWhile_head_false
    intro a ha
    exact hnotws a (List.mem_reverse.1 (List.mem_of_mem_head? ha))
  have hvalid : t.all Mime.validValueByte = true := by
    rw [List.all_eq_true]
    intro c hc
    exact (facts c (hall c hc)).2.2.2.2
  simp only [headerOnWire, hmap, htrim1, htrim2, List.reverse_reverse, hvalid, if_true]

/-- a rendered ROR2 document is never empty (C01: `rawOf_wf`) -/
theorem renderRor2_ne_nil (esc : Bytes → Bytes) (plus : Bool) (E : EscLaws esc plus) (F : FloatLaws) (d : Doc) :
    renderRor2 esc d ≠ [] := by
  have hwf := rawOf_wf esc plus E F d
  rw [renderRor2_eq_renderRaw]
  cases hd : rawOf esc d with
  | str tok => rw [hd] at hwf; simp only [RawWF] at hwf; simpa [renderRaw] using hwf.1
  | obj kvs => simp [renderRaw]
  | arr xs => simp [renderRaw, Gen.listPrefix]
  | null => rw [hd] at hwf; simp [RawWF] at hwf
  | bool b => rw [hd] at hwf; simp [RawWF] at hwf
  | num t => rw [hd] at hwf; simp [RawWF] at hwf

/-- **The header text of every id is a transparent header value** (after the repair) -/
theorem headerText_safe (K : Consts) (hK : ConstsOk K) (E : EscLaws K.headerEsc false) (F : FloatLaws) (d : Doc) :
    HeaderSafe (renderRor2 K.headerEsc d) :=
  ⟨headerOnWire_good _ (renderRor2_good K.headerEsc
      (fun b => replaceWith_good K.headerEscapes hK.headerCovers hK.headerWrites b) d),
   renderRor2_ne_nil K.headerEsc false E F d⟩

end Restli.E2E
