import Restli.Model.EndToEnd
import Restli.Proofs.Routing
import Restli.Proofs.Tunnel
import Restli.Proofs.SortKeys
/-! Helper lemmas for C02 (end-to-end call fidelity). Property theorems: `Props/C02.lean`. -/
namespace Restli.E2E
open Restli Restli.Codec
open Restli.Routing (Method)

/-! ## the query string: `BuildQueryParams` then `ParseQueryParams` -/

theorem splitOn_ne_nil (sep : UInt8) : ∀ s, splitOn sep s ≠ []
  | [] => by simp [splitOn]
  | c :: cs => by
    simp only [splitOn]
    split
    · simp
    · split <;> simp

theorem splitOn_noSep (sep : UInt8) : ∀ (x : Bytes), (∀ c ∈ x, c ≠ sep) → splitOn sep x = [x]
  | [], _ => by simp [splitOn]
  | c :: cs, h => by
    have hc : (c == sep) = false := beq_eq_false_iff_ne.mpr (h c (List.mem_cons_self ..))
    have ih := splitOn_noSep sep cs (fun d hd => h d (List.mem_cons_of_mem _ hd))
    simp [splitOn, ih, hc]

theorem splitOn_append (sep : UInt8) : ∀ (x : Bytes) (rest : Bytes), (∀ c ∈ x, c ≠ sep) →
    splitOn sep (x ++ sep :: rest) = x :: splitOn sep rest
  | [], rest, _ => by
    have := splitOn_ne_nil sep rest
    cases h : splitOn sep rest with
    | nil => exact absurd h this
    | cons a b => simp [splitOn, h]
  | c :: cs, rest, h => by
    have hc : (c == sep) = false := beq_eq_false_iff_ne.mpr (h c (List.mem_cons_self ..))
    have ih := splitOn_append sep cs rest (fun d hd => h d (List.mem_cons_of_mem _ hd))
    simp only [List.cons_append, splitOn, ih, hc]
    simp

theorem splitOn_joinWith (sep : UInt8) : ∀ (xs : List Bytes), xs ≠ [] → (∀ x ∈ xs, ∀ c ∈ x, c ≠ sep) →
    splitOn sep (joinWith sep xs) = xs
  | [], h, _ => absurd rfl h
  | [x], _, h => by simpa [joinWith] using splitOn_noSep sep x (h x (List.mem_singleton.2 rfl))
  | x :: y :: rest, _, h => by
    have ih := splitOn_joinWith sep (y :: rest) (by simp) (fun z hz => h z (List.mem_cons_of_mem _ hz))
    simp only [joinWith]
    rw [splitOn_append sep x _ (h x (List.mem_cons_self ..)), ih]

theorem cutAt_append (sep : UInt8) : ∀ (k v : Bytes), (∀ c ∈ k, c ≠ sep) → cutAt sep (k ++ sep :: v) = (k, v)
  | [], v, _ => by simp [cutAt]
  | c :: cs, v, h => by
    have hc : (c == sep) = false := beq_eq_false_iff_ne.mpr (h c (List.mem_cons_self ..))
    have ih := cutAt_append sep cs v (fun d hd => h d (List.mem_cons_of_mem _ hd))
    simp [cutAt, hc, ih]

/-- a name/value pair that can be told apart again: the name is non-empty and free of `&` and `=`,
the value is free of `&` -/
def PairClean (e : Bytes × Bytes) : Prop := e.1 ≠ [] ∧ (∀ c ∈ e.1, c ≠ 38 ∧ c ≠ 61) ∧ (∀ c ∈ e.2, c ≠ 38)

/-- `ParseQueryParams` cuts what was joined with `&` and `=` into the pairs that were joined -/
theorem parseQuery_join (ps : List (Bytes × Bytes)) (h : ∀ e ∈ ps, PairClean e) :
    parseQuery (joinWith 38 (ps.map (fun e => e.1 ++ 61 :: e.2))) = ps := by
  cases ps with
  | nil => simp [parseQuery, joinWith, splitOn]
  | cons p rest =>
    have hsep : ∀ x ∈ (p :: rest).map (fun e => e.1 ++ 61 :: e.2), ∀ c ∈ x, c ≠ 38 := by
      intro x hx c hc
      obtain ⟨e, he, rfl⟩ := List.mem_map.1 hx
      obtain ⟨_, h1, h2⟩ := h e he
      rcases List.mem_append.1 hc with hc | hc
      · exact (h1 c hc).1
      · rcases List.mem_cons.1 hc with rfl | hc
        · decide
        · exact h2 c hc
    rw [parseQuery, splitOn_joinWith 38 _ (by simp) hsep]
    have hfilter : ((p :: rest).map (fun e => e.1 ++ 61 :: e.2)).filter (fun x => !x.isEmpty) =
        (p :: rest).map (fun e => e.1 ++ 61 :: e.2) := by
      apply List.filter_eq_self.2
      intro x hx
      obtain ⟨e, _, rfl⟩ := List.mem_map.1 hx
      cases e.1 <;> simp
    rw [hfilter, List.map_map]
    have : ∀ (l : List (Bytes × Bytes)), (∀ e ∈ l, PairClean e) →
        l.map (cutAt 61 ∘ fun e => e.1 ++ 61 :: e.2) = l := by
      intro l hl
      induction l with
      | nil => rfl
      | cons e es ih =>
        have he := hl e (List.mem_cons_self ..)
        simp only [List.map_cons, Function.comp]
        rw [cutAt_append 61 e.1 e.2 (fun c hc => (he.2.1 c hc).2), ih (fun x hx => hl x (List.mem_cons_of_mem _ hx))]
    exact this _ h

/-- …and the sorted join of `BuildQueryParams` is cut into the sorted pairs -/
theorem parseQuery_joinQuery (ps : List (Bytes × Bytes)) (h : ∀ e ∈ ps, PairClean e) :
    parseQuery (joinQuery ps) = sortByKey ps :=
  parseQuery_join (sortByKey ps) (fun e he => h e ((mem_sortByKey ps e).1 he))

/-! ## which resource a path names: the registered tree against a resource description -/

open Restli.Routing in
/-- the node reached from `n` by following the remaining segments (names, collection or not) -/
def descend : Node → List SegSpec → Option Node
  | n, [] => some n
  | n, s :: rest =>
    match findSub (strOf s.name) n.subs with
    | some sub => if sub.isCollection == s.key.isSome then descend sub rest else Option.none
    | Option.none => Option.none

open Restli.Routing in
/-- the node a resource's segments lead to in the registered tree -/
def nodeFor (roots : List Node) : List SegSpec → Option Node
  | [] => Option.none
  | s :: rest =>
    match findSub (strOf s.name) roots with
    | some n => if n.isCollection == s.key.isSome then descend n rest else Option.none
    | Option.none => Option.none

/-- the path segments below the first resource name, given the texts of the keys -/
def restStrs (onEntity : Bool) : List SegSpec → List String → List String
  | [], _ => []
  | [s], ks =>
    (match s.key, onEntity, ks with
    | some _, true, k :: _ => [k]
    | _, _, _ => [])
  | s :: (s' :: rest), ks =>
    (match s.key, ks with
    | some _, k :: ks' => k :: strOf s'.name :: restStrs onEntity (s' :: rest) ks'
    | some _, [] => []
    | Option.none, ks => strOf s'.name :: restStrs onEntity (s' :: rest) ks)

def pathStrs (onEntity : Bool) (segs : List SegSpec) (ks : List String) : List String :=
  match segs with
  | [] => []
  | s :: _ => strOf s.name :: restStrs onEntity segs ks

/-- does the resource's last segment carry a key at this level? -/
def hasKeyAt (onEntity : Bool) (segs : List SegSpec) : Bool :=
  onEntity && ((segs.getLast?).bind (·.key)).isSome

theorem findSub_name (name : String) : ∀ (l : List Routing.Node) (n : Routing.Node),
    Routing.findSub name l = some n → n.name = name
  | [], _, h => by simp [Routing.findSub] at h
  | m :: rest, n, h => by
    simp only [Routing.findSub] at h
    split at h
    · next hm => cases h; simpa using hm
    · exact findSub_name name rest n h

open Restli.Routing Restli.Routing.Spec in
/-- the specification's `locateAt` on the path of a call: the node the segments lead to, the
resource path of the description, the key texts in order, and whether the last one is the
resource's own key -/
theorem locateAt_restStrs (onEntity : Bool) : ∀ (segs : List SegSpec) (n node : Node) (ks : List String) (s : SegSpec)
    (_ : n.name = strOf s.name) (_ : n.isCollection = s.key.isSome)
    (_ : descend n segs = some node) (_ : ks.length = (keyTys onEntity (s :: segs)).length),
    locateAt n (restStrs onEntity (s :: segs) ks) =
      some ⟨node, rpathOf (s :: segs), ks, hasKeyAt onEntity (s :: segs)⟩
  | [], n, node, ks, s, hn, hc, hd, hl => by
    simp only [descend, Option.some.injEq] at hd
    subst hd
    cases hk : s.key with
    | none =>
      simp only [keyTys, hk, Option.toList, List.length_nil, ite_self] at hl
      have : ks = [] := List.eq_nil_of_length_eq_zero hl
      subst this
      simp [restStrs, hk, locateAt, rpathOf, hasKeyAt, Node.seg, hn, hc]
    | some ty =>
      cases onEntity with
      | false =>
        simp only [keyTys, Bool.false_eq_true, if_false, List.length_nil] at hl
        have : ks = [] := List.eq_nil_of_length_eq_zero hl
        subst this
        simp [restStrs, hk, locateAt, rpathOf, hasKeyAt, Node.seg, hn, hc]
      | true =>
        simp only [keyTys, hk, if_true, Option.toList, List.length_singleton] at hl
        match ks, hl with
        | [k], _ =>
          have hcoll : n.isCollection = true := by rw [hc, hk]; rfl
          simp [restStrs, hk, locateAt, hcoll, rpathOf, hasKeyAt, Node.seg, hn]
  | s' :: rest, n, node, ks, s, hn, hc, hd, hl => by
    simp only [descend] at hd
    cases hf : findSub (strOf s'.name) n.subs with
    | none => simp [hf] at hd
    | some sub =>
      simp only [hf] at hd
      split at hd
      · next hsub =>
        have hsubn := findSub_name _ _ _ hf
        have hsubc : sub.isCollection = s'.key.isSome := by simpa using hsub
        cases hk : s.key with
        | none =>
          have hcoll : n.isCollection = false := by rw [hc, hk]; rfl
          have hl' : ks.length = (keyTys onEntity (s' :: rest)).length := by
            simpa [keyTys, hk] using hl
          have ih := locateAt_restStrs onEntity rest sub node ks s' hsubn hsubc hd hl'
          simp only [restStrs, hk]
          rw [locateAt.eq_def]
          simp only [hcoll, Bool.false_eq_true, if_false, hf, Option.bind_some, ih, Option.map_some, Target.under]
          simp [rpathOf, Node.seg, hn, hcoll, hk, hasKeyAt]
        | some ty =>
          have hcoll : n.isCollection = true := by rw [hc, hk]; rfl
          match ks with
          | [] => simp [keyTys, hk] at hl
          | k :: ks' =>
            have hl' : ks'.length = (keyTys onEntity (s' :: rest)).length := by
              simpa [keyTys, hk] using hl
            have ih := locateAt_restStrs onEntity rest sub node ks' s' hsubn hsubc hd hl'
            simp only [restStrs, hk]
            rw [locateAt.eq_def]
            simp only [hcoll, if_true, hf, Option.bind_some, ih, Option.map_some, Target.under]
            simp [rpathOf, Node.seg, hn, hcoll, hk, hasKeyAt]
      · cases hd

open Restli.Routing Restli.Routing.Spec in
theorem locate_pathStrs (roots : List Node) (onEntity : Bool) (segs : List SegSpec) (node : Node) (ks : List String)
    (hnode : nodeFor roots segs = some node) (hl : ks.length = (keyTys onEntity segs).length) :
    locate roots (pathStrs onEntity segs ks) = some ⟨node, rpathOf segs, ks, hasKeyAt onEntity segs⟩ := by
  cases segs with
  | nil => simp [nodeFor] at hnode
  | cons s rest =>
    simp only [nodeFor] at hnode
    cases hf : findSub (strOf s.name) roots with
    | none => simp [hf] at hnode
    | some n =>
      simp only [hf] at hnode
      split at hnode
      · next hc =>
        have hc' : n.isCollection = s.key.isSome := by simpa using hc
        simp only [pathStrs, locate, hf, Option.bind_some]
        exact locateAt_restStrs onEntity rest n node ks s (findSub_name _ _ _ hf) hc' hnode hl
      · cases hnode

/-! ## routing of a request that names its method in the header -/

open Restli.Routing Restli.Routing.Spec in
/-- For a request whose path names a registered resource (`locate`), whose keys and query values are
well-formed and whose `X-RestLi-Method` header names the method `m`: `ServeHTTP`/`receive` settle on
`m` (on a simple resource: on what verb and `action` parameter say, which must be `m`) and hand the
request to the handler registered for it — `lookupHandler` on the located node. -/
theorem routeX_named (C : Consts) (hC : Tied C) (V : String → Bool) (roots : List Node) (req : Req) (t : Target)
    (hloc : locate roots req.path = some t)
    (hkeys : t.keys.all V = true) (hq : (req.query.all fun kv => V kv.2) = true)
    (m : Method) (hm : m ≠ .unknown)
    (hhdr : nameMapping C ((req.headers.lookup C.methodHeader).getD "") = m)
    (hneeds : t.node.isCollection = true → needsEntity m = true → t.hasKey = true)
    (hforbids : t.node.isCollection = true → forbidsEntity m = true → t.hasKey = false)
    (hsimple : t.node.isCollection = false →
      simpleMethod req.verb ((lookupLast C.paramAction req.query).getD "") m = m) :
    routeX C V roots req =
      match lookupHandler C t.node t.rpath t.keys t.hasKey m
          ((lookupLast C.paramFinder req.query).getD "") ((lookupLast C.paramAction req.query).getD "") with
      | .ok f o => .routed f o t.hasKey
      | .errResp st => .errResp st := by
  cases hp : req.path with
  | nil => simp [locate, hp] at hloc
  | cons s rest =>
    rw [hp] at hloc
    simp only [locate] at hloc
    cases hf : findSub s roots with
    | none => simp [hf] at hloc
    | some sub =>
      simp only [hf, Option.bind_some] at hloc
      have hw := walk_some C V sub rest t hloc [] [] s
      simp only [hkeys, if_true, List.nil_append] at hw
      have hnokey := locateAt_simple_nokey sub rest t hloc
      simp only [routeX, hp, hf, hw, resolve, hq, Bool.not_true, Bool.false_eq_true, if_false, hhdr, resolveWith]
      cases hc : t.node.isCollection with
      | true =>
        have h1 : (needsEntity m && !t.hasKey) = false := by
          cases hn : needsEntity m with
          | false => rfl
          | true => simp [hneeds hc hn]
        have h2 : (forbidsEntity m && t.hasKey) = false := by
          cases hn : forbidsEntity m with
          | false => rfl
          | true => simp [hforbids hc hn]
        simp only [if_true, hm, if_false, checkEntity, h1, h2, Bool.false_eq_true, finish]
        cases lookupHandler C t.node t.rpath t.keys t.hasKey m _ _ <;> rfl
      | false =>
        have hk : t.hasKey = false := hnokey hc
        simp only [Bool.false_eq_true, if_false, hk, hsimple hc, finish]
        cases lookupHandler C t.node t.rpath t.keys false m _ _ <;> rfl

end Restli.E2E
