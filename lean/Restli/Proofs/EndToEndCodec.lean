import Restli.Model.EndToEnd
import Restli.Proofs.RoundTrip4
/-! Request-direction codec facts for the end-to-end model, from the byte-level round trips: the
entity keys the generated client writes into the resource path are read back by the generated
`UnmarshalResourcePath` to the caller's keys. -/
namespace Restli.E2E
open Restli Restli.Codec

/-- the path writer's escaper as seen on a value handed to it directly: a string that is exactly
`.` or `..` is written `%2E` / `%2E%2E` -/
def pathEscTop (esc : Bytes → Bytes) (b : Bytes) : Bytes :=
  if b == [46] then [37, 50, 69] else if b == [46, 46] then [37, 50, 69, 37, 50, 69] else esc b

theorem pathEscTop_laws (esc : Bytes → Bytes) (E : EscLaws esc false) : EscLaws (pathEscTop esc) false where
  rt := by
    intro b
    unfold pathEscTop
    split
    · next h => have : b = [46] := by simpa using h
                subst this; decide
    · split
      · next h => have : b = [46, 46] := by simpa using h
                  subst this; decide
      · exact E.rt b
  clean := by
    intro b c hc
    unfold pathEscTop at hc
    split at hc
    · revert hc; revert c; decide
    · split at hc
      · revert hc; revert c; decide
      · exact E.clean b c hc
  ne := by
    intro b hb
    unfold pathEscTop
    split
    · simp
    · split
      · simp
      · exact E.ne b hb

/-- what the path writer emits for a value written to it directly is what the underlying writer
emits with the escaper that special-cases dot strings — when the value is a string or bytes — and
with the plain escaper otherwise -/
theorem renderRor2Path_eq (esc : Bytes → Bytes) (d : Doc) :
    renderRor2Path esc d = renderRor2 esc d ∨ renderRor2Path esc d = renderRor2 (pathEscTop esc) d := by
  cases d with
  | str b =>
    right
    simp only [renderRor2Path, renderRor2, ror2Str, pathEscTop]
    by_cases h1 : b = [46]
    · subst h1; simp
    · by_cases h2 : b = [46, 46]
      · subst h2; simp
      · have hne : b.isEmpty = true → esc b = Gen.emptyMarker → True := fun _ _ => trivial
        by_cases he : b = []
        · subst he; simp
        · simp [h1, h2, he]
  | bytes b =>
    right
    simp only [renderRor2Path, renderRor2, ror2Str, pathEscTop]
    by_cases h1 : b = [46]
    · subst h1; simp
    · by_cases h2 : b = [46, 46]
      · subst h2; simp
      · have hne : b.isEmpty = true → esc b = Gen.emptyMarker → True := fun _ _ => trivial
        by_cases he : b = []
        · subst he; simp
        · simp [h1, h2, he]
  | int _ => left; rfl
  | f64 _ => left; rfl
  | bool _ => left; rfl
  | obj _ => left; rfl
  | arr _ => left; rfl

/-- one key: `UnmarshalResourcePath`'s reader on the text the path writer produced -/
theorem key_roundtrip (K : Consts) (hs : K.sortKeys = true) (E : EscLaws K.pathEsc false) (F : FloatLaws)
    (env : Env) (S : SchemaOK env) (ty : Ty) (k : Value) (hv : ValOK k) (text : Bytes)
    (ht : pathKeyText K env ty k = some text) :
    ofRes (unmarshalRor2 (pathRCfg env) ty text) = .ok (norm env encFuel ty k) := by
  unfold pathKeyText at ht
  cases henc : encode (wcfg K env) encFuel [] ty k with
  | error e => simp [henc, toOpt] at ht
  | ok doc =>
    simp only [henc, toOpt, Option.map_some, Option.some.injEq] at ht
    subst ht
    have hcfg : ∀ esc' (E' : EscLaws esc' false), (ror2Ctx env esc' false E' F S).cfg = wcfg K env := by
      intro esc' E'
      simp [RTCtx.cfg, ror2Ctx, wcfg, hs]
    have key : ∀ esc' (E' : EscLaws esc' false),
        ofRes (unmarshalRor2 (pathRCfg env) ty (renderRor2 esc' doc)) = .ok (norm env encFuel ty k) := by
      intro esc' E'
      have hwf : RawWF (rawOf esc' doc) := rawOf_wf esc' false E' F _
      have hrt := ror2_roundtrip_any env esc' false E' F S 0 encFuel false [] [] ty k doc
        (3 * (renderRor2 esc' doc).length + 8) (by omega) hv (by rw [hcfg esc' E']; exact henc)
      unfold unmarshalRor2
      have hval : validateRor2 (renderRor2 esc' doc) = true := by
        rw [renderRor2_eq_renderRaw]; exact validate_raw _ hwf
      simp only [hval, Bool.not_true, Bool.false_eq_true, ↓reduceIte]
      have hrc : pathRCfg env = ror2RcQ env false 0 false := rfl
      rw [hrc, hrt]
      simp [ofRes]
    rcases renderRor2Path_eq K.pathEsc doc with h | h
    · rw [h]; exact key K.pathEsc E
    · rw [h]; exact key (pathEscTop K.pathEsc) (pathEscTop_laws K.pathEsc E)

/-- **the keys of a call come back**: the texts the client writes for the entity keys of a resource
path are decoded by the generated `UnmarshalResourcePath` to the caller's keys (normalised), for
every key type of every schema -/
theorem decodeKeys_keyTexts (K : Consts) (hs : K.sortKeys = true) (E : EscLaws K.pathEsc false) (F : FloatLaws)
    (env : Env) (S : SchemaOK env) :
    ∀ (tys : List Ty) (keys : List Value) (texts : List Bytes), (∀ k ∈ keys, ValOK k) →
      keyTexts K env tys keys = some texts →
      decodeKeys env tys texts = .ok (List.zipWith (norm env encFuel) tys keys)
  | [], keys, texts, _, h => by
    simp only [keyTexts, Option.some.injEq] at h
    subst h
    simp [decodeKeys]
  | ty :: tys, [], texts, _, h => by simp [keyTexts] at h
  | ty :: tys, k :: ks, texts, hv, h => by
    simp only [keyTexts] at h
    cases h1 : pathKeyText K env ty k with
    | none => simp [h1] at h
    | some t =>
      cases h2 : keyTexts K env tys ks with
      | none => simp [h1, h2] at h
      | some ts =>
        simp only [h1, h2, Option.some.injEq] at h
        subst h
        simp only [decodeKeys, List.zipWith_cons_cons]
        rw [key_roundtrip K hs E F env S ty k (hv k (by simp)) t h1]
        simp only [Dec.bind]
        rw [decodeKeys_keyTexts K hs E F env S tys ks ts (fun x hx => hv x (List.mem_cons_of_mem _ hx)) h2]

/-! ## the parameters of a call -/

theorem lastOf_of_nodup : ∀ (q : List (Bytes × Bytes)) (hnd : (q.map (·.1)).Nodup) (k v : Bytes),
    (k, v) ∈ q → lastOf k q = some v := by
  intro q hnd k v hmem
  unfold lastOf
  have hnd' : ((q.reverse).map (·.1)).Nodup := by
    rw [List.map_reverse]; exact (List.reverse_perm _).nodup_iff.2 hnd
  have hmem' : (k, v) ∈ q.reverse := List.mem_reverse.2 hmem
  generalize q.reverse = l at hnd' hmem'
  induction l with
  | nil => cases hmem'
  | cons e rest ih =>
    obtain ⟨k', v'⟩ := e
    simp only [List.map_cons, List.nodup_cons] at hnd'
    rcases List.mem_cons.1 hmem' with h | h
    · cases h; simp [List.lookup]
    · have hne : k ≠ k' := by
        intro heq; subst heq
        exact hnd'.1 (List.mem_map.2 ⟨(k, v), h, rfl⟩)
      have : (k == k') = false := by simpa using hne
      simp only [List.lookup, this]
      exact ih hnd'.2 h

theorem dedupNames_of_nodup : ∀ (q : List (Bytes × Bytes)), (q.map (·.1)).Nodup → dedupNames q = q.map (·.1)
  | [], _ => rfl
  | (k, v) :: rest, h => by
    simp only [List.map_cons, List.nodup_cons] at h
    have ih := dedupNames_of_nodup rest h.2
    simp only [dedupNames, ih, List.map_cons]
    have : (rest.map (·.1)).contains k = false := by
      rw [List.contains_eq_mem]; simpa using h.1
    rw [this]; simp

/-- every listed name is a field whose parameter reads back: the entries come back in that order -/
theorem decodeParamFields_all (env : Env) (fields : List Field) (q : List (Bytes × Bytes))
    (hnd : (q.map (·.1)).Nodup) :
    ∀ (ts : List (Bytes × Bytes × Value)),
      (∀ t ∈ ts, (t.1, t.2.1) ∈ q ∧ ∃ f, findField fields t.1 = some f ∧ readParam env t.1 f.ty t.2.1 = .ok t.2.2) →
      decodeParamFields env fields q (ts.map (·.1)) = .ok (ts.map (fun t => (t.1, t.2.2)))
  | [], _ => rfl
  | (k, raw, v) :: rest, h => by
    obtain ⟨hmem, f, hf, hread⟩ := h (k, raw, v) (by simp)
    simp only [List.map_cons, decodeParamFields, hf, lastOf_of_nodup q hnd k raw hmem]
    simp only at hread
    rw [hread]
    simp only [Dec.bind]
    rw [decodeParamFields_all env fields q hnd rest (fun t ht => h t (List.mem_cons_of_mem _ ht))]

theorem insertByKey_mapSnd {α β : Type} (f : α → β) (e : Bytes × α) (l : List (Bytes × α)) :
    insertByKey (e.1, f e.2) (l.map (fun x => (x.1, f x.2))) = (insertByKey e l).map (fun x => (x.1, f x.2)) := by
  induction l with
  | nil => simp [insertByKey]
  | cons x xs ih =>
    simp only [List.map_cons, insertByKey]
    split <;> simp [ih]

theorem sortByKey_mapSnd {α β : Type} (f : α → β) (l : List (Bytes × α)) :
    sortByKey (l.map (fun x => (x.1, f x.2))) = (sortByKey l).map (fun x => (x.1, f x.2)) := by
  induction l with
  | nil => simp [sortByKey]
  | cons x xs ih =>
    simp only [List.map_cons, sortByKey, ih]
    exact insertByKey_mapSnd f x (sortByKey xs)

/-- **the parameters of a call come back**: the sorted name/value pairs the generated client writes
for a record of parameters are decoded by the generated `DecodeQueryParams` to the caller's record
(normalised), for every params record of every schema -/
theorem decodeParams_paramPairs (K : Consts) (hs : K.sortKeys = true) (E : EscLaws K.queryEsc true) (F : FloatLaws)
    (env : Env) (S : SchemaOK env) (n : TName) (incs : List TName) (own : List Field)
    (hfind : env.find n = some (.record incs own)) (fs : List (Bytes × Value)) (hv : ValOK (.record fs))
    (pairs : List (Bytes × Bytes)) (hp : paramPairs K env n (.record fs) = some pairs) :
    decodeParams env n (sortByKey pairs) = .ok (norm env (encFuel + 1) (.ref n) (.record fs)) := by
  unfold paramPairs at hp
  simp only at hp
  have hnorm : norm env (encFuel + 1) (.ref n) (.record fs) =
      (match setFields (allFields env (includeFuel env) n) fs with
        | some triples =>
          .record (populateDefaults own (sortByKey (triples.map (fun x => (x.1, norm env encFuel x.2.1 x.2.2)))))
        | none => .record fs) := by
    simp only [norm, hfind]
    cases setFields (allFields env (includeFuel env) n) fs <;> rfl
  rw [hnorm]
  unfold decodeParams
  simp only
  generalize hfields : allFields env (includeFuel env) n = fields at hp ⊢
  cases hsf : setFields fields fs with
  | none => simp [hsf] at hp
  | some triples =>
    simp only [hsf] at hp ⊢
    cases hl : encodeTyped (fun _ => false) (fun k t v => encode (wcfg K env) encFuel [k] t v) triples with
    | error e => simp [hl, toOpt] at hp
    | ok kvs =>
      simp only [hl, toOpt, Option.map_some, Option.some.injEq] at hp
      subst hp
      obtain ⟨hkvs, hall⟩ := encodeTyped_all _ triples kvs hl
      obtain ⟨hsub, hmem, hreq⟩ := setFields_spec fields fs triples hsf
      have hfnd : (fields.map (·.name)).Nodup := by
        rw [← hfields]; exact S.fieldsNodup n incs own hfind
      have hnd : (triples.map (·.1)).Nodup := hsub.nodup hfnd
      simp only [ValOK] at hv
      have hcfg : (ror2Ctx env K.queryEsc true E F S).cfg = wcfg K env := by
        simp [RTCtx.cfg, ror2Ctx, wcfg, hs]
      let g : Bytes × Ty × Value → Value := fun it => norm env encFuel it.2.1 it.2.2
      -- the parameters in the order they are sorted into, with the values they read back to
      let ts : List (Bytes × Bytes × Value) :=
        (sortByKey kvs).map (fun e => (e.1, renderRor2 K.queryEsc e.2, valFor g triples e.1))
      have hq : sortByKey (kvs.map (fun e => (e.1, renderRor2 K.queryEsc e.2))) = ts.map (fun t => (t.1, t.2.1)) := by
        rw [sortByKey_mapSnd]
        simp [ts, List.map_map, Function.comp_def]
      have hkvsnd : KeysNodup kvs := by
        unfold KeysNodup
        rw [hkvs]
        simpa [List.map_map, Function.comp_def] using hnd
      have hkeys : ts.map (·.1) = (sortByKey kvs).map (·.1) := by
        simp [ts, List.map_map, Function.comp_def]
      have hqnd : ((ts.map (fun t => (t.1, t.2.1))).map (·.1)).Nodup := by
        have : (ts.map (fun t => (t.1, t.2.1))).map (·.1) = (sortByKey kvs).map (·.1) := by
          simp [ts, List.map_map, Function.comp_def]
        rw [this]; exact keysNodup_sortByKey kvs hkvsnd
      rw [hq, dedupNames_of_nodup _ hqnd]
      have hnames : (ts.map (fun t => (t.1, t.2.1))).map (·.1) = ts.map (·.1) := by
        simp [List.map_map, Function.comp_def]
      rw [hnames]
      have hgood : ∀ t ∈ ts, (t.1, t.2.1) ∈ ts.map (fun t => (t.1, t.2.1)) ∧
          ∃ f, findField fields t.1 = some f ∧ readParam env t.1 f.ty t.2.1 = .ok t.2.2 := by
        intro t ht
        refine ⟨List.mem_map.2 ⟨t, ht, rfl⟩, ?_⟩
        simp only [ts, List.mem_map] at ht
        obtain ⟨e, he, rfl⟩ := ht
        have he' : e ∈ kvs := (mem_sortByKey kvs e).1 he
        rw [hkvs] at he'
        simp only [List.mem_map] at he'
        obtain ⟨it, hit, rfl⟩ := he'
        obtain ⟨fld, hfld, hname, hty, hlk⟩ := hmem it hit
        refine ⟨fld, ?_, ?_⟩
        · simp only; rw [← hname]; exact findField_of_nodup fields hfnd fld hfld
        · simp only [readParam]
          rw [valFor_mem g triples hnd it hit, hty]
          have hrc : queryRCfg env = ror2RcQ env true 0 true := rfl
          rw [hrc, ror2_roundtrip_any env K.queryEsc true E F S 0 encFuel true [it.1] [.key it.1] it.2.1 it.2.2 _ _
            (by omega) (lookup_valOK fs hv _ _ hlk) (by rw [hcfg]; exact hall it hit)]
          simp [ofRes, g]
      rw [decodeParamFields_all env fields _ hqnd ts hgood]
      simp only [Dec.bind]
      -- the values, in sorted key order
      have hvals : ts.map (fun t => (t.1, t.2.2)) = sortByKey (triples.map (fun it => (it.1, g it))) := by
        have h1 : ts.map (fun t => (t.1, t.2.2)) = (sortByKey kvs).map (fun e => (e.1, valFor g triples e.1)) := by
          simp [ts, List.map_map, Function.comp_def]
        rw [h1, ← sortByKey_mapVal (valFor g triples) kvs, hkvs]
        congr 1
        simp only [List.map_map, Function.comp_def]
        apply List.map_congr_left
        intro it hit
        simp [valFor_mem g triples hnd it hit]
      rw [hvals]
      have hseen : ∀ fld ∈ fields, fld.optOrDefault = false →
          fld.name ∈ (sortByKey (triples.map (fun it => (it.1, g it)))).map (·.1) := by
        intro fld hf ho
        have h1 := hreq fld hf ho
        have h2 := ((keys_sortByKey_perm (triples.map (fun it => (it.1, g it)))).map (·.1)).mem_iff (a := fld.name)
        rw [h2]
        simpa [List.map_map, Function.comp_def] using h1
      rw [remainingRequired_nil fields _ hseen]
      simp [hfind, g]

end Restli.E2E
