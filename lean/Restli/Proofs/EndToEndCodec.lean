import Restli.Model.EndToEnd
import Restli.Proofs.RoundTrip4
/-! Request-direction codec facts for the end-to-end model, from the byte-level round trips: the
entity keys the generated client writes into the resource path are read back by the generated
`UnmarshalResourcePath` to the caller's keys. -/
namespace Restli.E2E
open Restli Restli.Codec

/-- the path writer's escaper as seen on a value handed to it directly: a string that is exactly
`.` or `..` is written `%2E` / `%2E%2E` -/
def pathEscTop (esc : Bytes → Bytes) (b : Bytes) : Bytes :=
  if b == [46] then [37, 50, 69] else if b == [46, 46] then [37, 50, 69, 37, 50, 69] else esc b

theorem pathEscTop_laws (esc : Bytes → Bytes) (E : EscLaws esc false) : EscLaws (pathEscTop esc) false where
  rt := by
    intro b
    unfold pathEscTop
    split
    · next h => have : b = [46] := by simpa using h
                subst this; decide
    · split
      · next h => have : b = [46, 46] := by simpa using h
                  subst this; decide
      · exact E.rt b
  clean := by
    intro b c hc
    unfold pathEscTop at hc
    split at hc
    · revert hc; revert c; decide
    · split at hc
      · revert hc; revert c; decide
      · exact E.clean b c hc
  ne := by
    intro b hb
    unfold pathEscTop
    split
    · simp
    · split
      · simp
      · exact E.ne b hb

/-- what the path writer emits for a value written to it directly is what the underlying writer
emits with the escaper that special-cases dot strings — when the value is a string or bytes — and
with the plain escaper otherwise -/
theorem renderRor2Path_eq (esc : Bytes → Bytes) (d : Doc) :
    renderRor2Path esc d = renderRor2 esc d ∨ renderRor2Path esc d = renderRor2 (pathEscTop esc) d := by
  cases d with
  | str b =>
    right
    simp only [renderRor2Path, renderRor2, ror2Str, pathEscTop]
    by_cases h1 : b = [46]
    · subst h1; simp
    · by_cases h2 : b = [46, 46]
      · subst h2; simp
      · have hne : b.isEmpty = true → esc b = Gen.emptyMarker → True := fun _ _ => trivial
        by_cases he : b = []
        · subst he; simp
        · simp [h1, h2, he]
  | bytes b =>
    right
    simp only [renderRor2Path, renderRor2, ror2Str, pathEscTop]
    by_cases h1 : b = [46]
    · subst h1; simp
    · by_cases h2 : b = [46, 46]
      · subst h2; simp
      · have hne : b.isEmpty = true → esc b = Gen.emptyMarker → True := fun _ _ => trivial
        by_cases he : b = []
        · subst he; simp
        · simp [h1, h2, he]
  | int _ => left; rfl
  | f64 _ => left; rfl
  | bool _ => left; rfl
  | obj _ => left; rfl
  | arr _ => left; rfl

/-- one key: `UnmarshalResourcePath`'s reader on the text the path writer produced -/
theorem key_roundtrip (K : Consts) (hs : K.sortKeys = true) (E : EscLaws K.pathEsc false) (F : FloatLaws)
    (env : Env) (S : SchemaOK env) (ty : Ty) (k : Value) (hv : ValOK k) (text : Bytes)
    (ht : pathKeyText K env ty k = some text) :
    ofRes (unmarshalRor2 (pathRCfg env) ty text) = .ok (norm env encFuel ty k) := by
  unfold pathKeyText at ht
  cases henc : encode (wcfg K env) encFuel [] ty k with
  | error e => simp [henc, toOpt] at ht
  | ok doc =>
    simp only [henc, toOpt, Option.map_some, Option.some.injEq] at ht
    subst ht
    have hcfg : ∀ esc' (E' : EscLaws esc' false), (ror2Ctx env esc' false E' F S).cfg = wcfg K env := by
      intro esc' E'
      simp [RTCtx.cfg, ror2Ctx, wcfg, hs]
    have key : ∀ esc' (E' : EscLaws esc' false),
        ofRes (unmarshalRor2 (pathRCfg env) ty (renderRor2 esc' doc)) = .ok (norm env encFuel ty k) := by
      intro esc' E'
      have hwf : RawWF (rawOf esc' doc) := rawOf_wf esc' false E' F _
      have hrt := ror2_roundtrip_any env esc' false E' F S 0 encFuel false [] [] ty k doc
        (3 * (renderRor2 esc' doc).length + 8) (by omega) hv (by rw [hcfg esc' E']; exact henc)
      unfold unmarshalRor2
      have hval : validateRor2 (renderRor2 esc' doc) = true := by
        rw [renderRor2_eq_renderRaw]; exact validate_raw _ hwf
      simp only [hval, Bool.not_true, Bool.false_eq_true, ↓reduceIte]
      have hrc : pathRCfg env = ror2RcQ env false 0 false := rfl
      rw [hrc, hrt]
      simp [ofRes]
    rcases renderRor2Path_eq K.pathEsc doc with h | h
    · rw [h]; exact key K.pathEsc E
    · rw [h]; exact key (pathEscTop K.pathEsc) (pathEscTop_laws K.pathEsc E)

/-- **the keys of a call come back**: the texts the client writes for the entity keys of a resource
path are decoded by the generated `UnmarshalResourcePath` to the caller's keys (normalised), for
every key type of every schema -/
theorem decodeKeys_keyTexts (K : Consts) (hs : K.sortKeys = true) (E : EscLaws K.pathEsc false) (F : FloatLaws)
    (env : Env) (S : SchemaOK env) :
    ∀ (tys : List Ty) (keys : List Value) (texts : List Bytes), (∀ k ∈ keys, ValOK k) →
      keyTexts K env tys keys = some texts →
      decodeKeys env tys texts = .ok (List.zipWith (norm env encFuel) tys keys)
  | [], keys, texts, _, h => by
    simp only [keyTexts, Option.some.injEq] at h
    subst h
    simp [decodeKeys]
  | ty :: tys, [], texts, _, h => by simp [keyTexts] at h
  | ty :: tys, k :: ks, texts, hv, h => by
    simp only [keyTexts] at h
    cases h1 : pathKeyText K env ty k with
    | none => simp [h1] at h
    | some t =>
      cases h2 : keyTexts K env tys ks with
      | none => simp [h1, h2] at h
      | some ts =>
        simp only [h1, h2, Option.some.injEq] at h
        subst h
        simp only [decodeKeys, List.zipWith_cons_cons]
        rw [key_roundtrip K hs E F env S ty k (hv k (by simp)) t h1]
        simp only [Dec.bind]
        rw [decodeKeys_keyTexts K hs E F env S tys ks ts (fun x hx => hv x (List.mem_cons_of_mem _ hx)) h2]

end Restli.E2E
