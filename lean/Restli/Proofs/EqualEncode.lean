import Restli.Proofs.GenEquals
import Restli.Proofs.EncodePerm
import Restli.Proofs.RoundTrip2
/-! Equal values that do not differ in the sign of a zero have the same encoding (v2 writer:
keys sorted), at every type of every schema. Links the generated `Equals` model
(`Model/GenEquals.lean`) with the writer model (`Model/Encode.lean`). -/
namespace Restli.Codec
open Restli Restli.Fnv Restli.Equals Restli.EqualsSpec

/-! ## what `primEqZ` excludes -/

/-- floats that are `==` have different bit patterns only when both are zeros -/
theorem floatEq32_bits (a b : UInt32) (h : floatEq32 a b = true) (hne : a ≠ b) :
    isZero32 a = true ∧ isZero32 b = true := by
  unfold floatEq32 at h
  split at h
  · cases h
  · split at h
    · next hz => simpa using hz
    · exact absurd (by simpa using h) hne

theorem floatEq64_bits (a b : UInt64) (h : floatEq64 a b = true) (hne : a ≠ b) :
    isZero64 a = true ∧ isZero64 b = true := by
  unfold floatEq64 at h
  split at h
  · cases h
  · split at h
    · next hz => simpa using hz
    · exact absurd (by simpa using h) hne

theorem primEqZ_primEq (p : Prim) (a b : Value) (h : primEqZ p a b = true) : primEq p a b = true := by
  unfold primEqZ at h
  exact (Bool.and_eq_true _ _ ▸ h).1

theorem uint32_ofNat_inj (x y : Nat) (hx : x < 2 ^ 32) (hy : y < 2 ^ 32)
    (h : UInt32.ofNat x = UInt32.ofNat y) : x = y := by
  have := congrArg UInt32.toNat h
  simp only [UInt32.toNat_ofNat'] at this
  omega

theorem uint64_ofNat_inj (x y : Nat) (hx : x < 2 ^ 64) (hy : y < 2 ^ 64)
    (h : UInt64.ofNat x = UInt64.ofNat y) : x = y := by
  have := congrArg UInt64.toNat h
  simp only [UInt64.toNat_ofNat'] at this
  omega

/-- on Go values (float bit patterns fit their width) `primEqZ` is identity of the value -/
theorem primEqZ_eq (p : Prim) (a b : Value) (ha : ValOK a) (hb : ValOK b) (h : primEqZ p a b = true) :
    a = b := by
  unfold primEqZ at h
  have h1 := (Bool.and_eq_true _ _ ▸ h).1
  have h2 := (Bool.and_eq_true _ _ ▸ h).2
  unfold primEq at h1
  split at h1
  · simp at h1; subst h1; rfl
  · simp at h1; subst h1; rfl
  · simp at h1; subst h1; rfl
  · simp at h1; subst h1; rfl
  · simp at h1; subst h1; rfl
  · simp only [ValOK] at ha hb
    simp only [beq_iff_eq] at h2
    rw [uint32_ofNat_inj _ _ ha hb h2]
  · simp only [ValOK] at ha hb
    simp only [beq_iff_eq] at h2
    rw [uint64_ofNat_inj _ _ ha hb h2]
  · cases h1

/-! ## Go values have genuine maps -/

mutual
theorem mapsOK_of_valOK : ∀ v, ValOK v → MapsOK v
  | .i32 _, _ => trivial
  | .i64 _, _ => trivial
  | .f32 _, _ => trivial
  | .f64 _, _ => trivial
  | .bool _, _ => trivial
  | .str _, _ => trivial
  | .bytes _, _ => trivial
  | .enum _, _ => trivial
  | .fixed _, _ => trivial
  | .record fs, h => by simp only [ValOK] at h; simp only [MapsOK]; exact mapsOKKvs_of_valOK fs h
  | .union ms, h => by simp only [ValOK] at h; simp only [MapsOK]; exact mapsOKKvs_of_valOK ms h
  | .arr vs, h => by simp only [ValOK] at h; simp only [MapsOK]; exact mapsOKList_of_valOK vs h
  | .map es, h => by
    simp only [ValOK] at h; simp only [MapsOK]
    exact ⟨h.1, mapsOKKvs_of_valOK es h.2⟩
theorem mapsOKKvs_of_valOK : ∀ l, ValOKKvs l → MapsOKKvs l
  | [], _ => trivial
  | (_, v) :: rest, h => by
    simp only [ValOKKvs] at h; simp only [MapsOKKvs]
    exact ⟨mapsOK_of_valOK v h.1, mapsOKKvs_of_valOK rest h.2⟩
theorem mapsOKList_of_valOK : ∀ l, ValOKList l → MapsOKList l
  | [], _ => trivial
  | v :: rest, h => by
    simp only [ValOKList] at h; simp only [MapsOKList]
    exact ⟨mapsOK_of_valOK v h.1, mapsOKList_of_valOK rest h.2⟩
end

/-! ## `valueEqZ` strengthens `valueEq` -/

theorem ArrRel.mono {α : Type} {eq eq' : α → α → Bool} {l r : List α} (h : ArrRel eq l r)
    (hm : ∀ a ∈ l, ∀ b ∈ r, eq a b = true → eq' a b = true) : ArrRel eq' l r := by
  induction h with
  | nil => exact ArrRel.nil
  | @cons a b l r hab _ ih =>
    exact ArrRel.cons (hm a List.mem_cons_self b List.mem_cons_self hab)
      (ih (fun x hx y hy => hm x (List.mem_cons_of_mem _ hx) y (List.mem_cons_of_mem _ hy)))

theorem MapRel.mono {α : Type} {eq eq' : α → α → Bool} {l r : List (Bytes × α)} (h : MapRel eq l r)
    (hm : ∀ a ∈ l, ∀ b ∈ r, eq a.2 b.2 = true → eq' a.2 b.2 = true) : MapRel eq' l r := by
  refine ⟨fun k lv hin => ?_, fun k rv hin => ?_⟩
  · obtain ⟨rv, hr, he⟩ := h.1 k lv hin
    exact ⟨rv, hr, hm (k, lv) hin (k, rv) hr he⟩
  · obtain ⟨lv, hl, he⟩ := h.2 k rv hin
    exact ⟨lv, hl, hm (k, lv) hl (k, rv) hin he⟩

theorem optEqV_mono (eq eq' : Value → Value → Bool) (a b : Option Value)
    (hm : ∀ x y, a = some x → b = some y → eq x y = true → eq' x y = true)
    (h : optEqV eq a b = true) : optEqV eq' a b = true := by
  cases a <;> cases b <;> simp only [optEqV] at h ⊢
  · cases h
  · cases h
  · exact hm _ _ rfl rfl h

def ZImp (env : Env) (f : Nat) : Prop :=
  ∀ ty a b, MapsOK a → MapsOK b → valueEqZ env f ty a b = true → valueEq env f ty a b = true

theorem namedEqZ_namedEq (env : Env) (f : Nat) (ih : ZImp env f) (n : TName) (a b : Value)
    (ha : MapsOK a) (hb : MapsOK b) (he : namedEqZ env (valueEqZ env f) n a b = true) :
    namedEq env (valueEq env f) n a b = true := by
  unfold namedEqZ at he
  split at he
  · next p hfind => simp only [namedEq, hfind]; exact primEqZ_primEq p _ _ he
  · next syms x y hfind => simp only [namedEq, hfind]; exact he
  · next x y hfind => simp only [namedEq, hfind]; exact he
  · next xs ys hfind =>
    simp only [namedEq, hfind]
    simp only [MapsOK] at ha hb
    apply List.all_eq_true.2
    intro fld hfld
    exact optEqV_mono _ _ _ _
      (fun x y hx hy e => ih fld.ty x y (lookup_mapsOK xs ha _ _ hx) (lookup_mapsOK ys hb _ _ hy) e)
      ((List.all_eq_true.1 he) fld hfld)
  · next members xs ys hfind =>
    simp only [namedEq, hfind]
    simp only [MapsOK] at ha hb
    apply List.all_eq_true.2
    intro m hm
    exact optEqV_mono _ _ _ _
      (fun x y hx hy e => ih m.2 x y (lookup_mapsOK xs ha _ _ hx) (lookup_mapsOK ys hb _ _ hy) e)
      ((List.all_eq_true.1 he) m hm)
  · cases he

/-- "Equal and not differing in the sign of a zero" implies Equal -/
theorem valueEqZ_valueEq (env : Env) : ∀ f, ZImp env f
  | 0 => by intro ty a b _ _ h; simp [valueEqZ] at h
  | f + 1 => by
    have ih := valueEqZ_valueEq env f
    intro ty a b ha hb he
    unfold valueEqZ at he
    split at he
    · simp only [valueEq]; exact primEqZ_primEq _ _ _ he
    · next t xs ys =>
      simp only [valueEq]
      simp only [MapsOK] at ha hb
      exact (genericArray_iff _ xs ys).2 (ArrRel.mono ((genericArray_iff _ xs ys).1 he)
        (fun x hx y hy e => ih t x y (mapsOKList_mem xs ha x hx) (mapsOKList_mem ys hb y hy) e))
    · next t xs ys =>
      simp only [valueEq]
      simp only [MapsOK] at ha hb
      exact (genericMap_iff _ xs ys ha.1 hb.1).2 (MapRel.mono ((genericMap_iff _ xs ys ha.1 hb.1).1 he)
        (fun x hx y hy e => ih t x.2 y.2 (mapsOKKvs_mem xs ha.2 x hx) (mapsOKKvs_mem ys hb.2 y hy) e))
    · simp only [valueEq]
      exact namedEqZ_namedEq env f ih _ _ _ ha hb he
    · cases he

/-! ## congruence of the writer loops -/

/-- pointwise relation between two lists of the same length -/
inductive All2 {α β : Type} (R : α → β → Prop) : List α → List β → Prop
  | nil : All2 R [] []
  | cons {a b l r} : R a b → All2 R l r → All2 R (a :: l) (b :: r)

theorem all2_map_right {α β : Type} (R : α → β → Prop) (g : α → β) :
    ∀ (l : List α), (∀ x ∈ l, R x (g x)) → All2 R l (l.map g)
  | [], _ => All2.nil
  | x :: rest, h => All2.cons (h x List.mem_cons_self)
      (all2_map_right R g rest (fun y hy => h y (List.mem_cons_of_mem _ hy)))

theorem encodeList_congr (enc : Value → Except EncErr Doc) (eq : Value → Value → Bool) :
    ∀ {xs ys : List Value}, ArrRel eq xs ys →
      (∀ x ∈ xs, ∀ y ∈ ys, eq x y = true → ∀ d, enc x = .ok d → enc y = .ok d) →
      ∀ ds, encodeList enc xs = .ok ds → encodeList enc ys = .ok ds := by
  intro xs ys h
  induction h with
  | nil => intro _ ds h; exact h
  | @cons a b l r hab _ ih =>
    intro hc ds h
    simp only [encodeList, bind, Except.bind] at h ⊢
    cases hd : enc a with
    | error e => simp [hd] at h
    | ok d =>
      cases hm : encodeList enc l with
      | error e => simp [hd, hm] at h
      | ok more =>
        simp only [hd, hm] at h
        rw [hc a List.mem_cons_self b List.mem_cons_self hab d hd]
        rw [ih (fun x hx y hy => hc x (List.mem_cons_of_mem _ hx) y (List.mem_cons_of_mem _ hy)) more hm]
        exact h

/-- the writer's `WriteMap` loop over two lists with the same keys in the same order -/
theorem encodeKeyed_congr (excluded : Bytes → Bool) (enc : Bytes → Value → Except EncErr Doc) :
    ∀ (l r : List (Bytes × Value)), All2 (fun a b => a.1 = b.1 ∧ ∀ d, enc a.1 a.2 = .ok d → enc b.1 b.2 = .ok d) l r →
      ∀ out, encodeKeyed excluded enc l = .ok out → encodeKeyed excluded enc r = .ok out := by
  intro l r h
  induction h with
  | nil => intro out h; exact h
  | @cons a b l r hab _ ih =>
    obtain ⟨k, v⟩ := a
    obtain ⟨k', w⟩ := b
    obtain ⟨hk, hv⟩ := hab
    simp only at hk hv
    subst hk
    intro out h
    simp only [encodeKeyed, bind, Except.bind] at h ⊢
    cases hd : enc k v with
    | error e => simp [hd] at h
    | ok d =>
      cases hm : encodeKeyed excluded enc l with
      | error e => simp [hd, hm] at h
      | ok more =>
        simp only [hd, hm] at h
        rw [hv d hd, ih more hm]
        exact h

theorem encodeTyped_congr (excluded : Bytes → Bool) (enc : Bytes → Ty → Value → Except EncErr Doc) :
    ∀ (l r : List (Bytes × Ty × Value)),
      All2 (fun a b => a.1 = b.1 ∧ a.2.1 = b.2.1 ∧ ∀ d, enc a.1 a.2.1 a.2.2 = .ok d → enc b.1 b.2.1 b.2.2 = .ok d) l r →
      ∀ out, encodeTyped excluded enc l = .ok out → encodeTyped excluded enc r = .ok out := by
  intro l r h
  induction h with
  | nil => intro out h; exact h
  | @cons a b l r hab _ ih =>
    obtain ⟨k, t, v⟩ := a
    obtain ⟨k', t', w⟩ := b
    obtain ⟨hk, ht, hv⟩ := hab
    simp only at hk ht hv
    subst hk; subst ht
    intro out h
    simp only [encodeTyped, bind, Except.bind] at h ⊢
    cases hd : enc k t v with
    | error e => simp [hd] at h
    | ok d =>
      cases hm : encodeTyped excluded enc l with
      | error e => simp [hd, hm] at h
      | ok more =>
        simp only [hd, hm] at h
        rw [hv d hd, ih more hm]
        exact h

/-! ## the set fields / members of Equal structs -/

/-- two triples name the same slot and hold related values -/
def TripRel (R : Ty → Value → Value → Prop) (a b : Bytes × Ty × Value) : Prop :=
  a.1 = b.1 ∧ a.2.1 = b.2.1 ∧ R a.2.1 a.2.2 b.2.2

/-- a slot of two Equal structs: both unset, or both set to related values -/
def SlotRel (R : Ty → Value → Value → Prop) (xs ys : List (Bytes × Value)) (k : Bytes) (t : Ty) : Prop :=
  (Value.lookup xs k = none ∧ Value.lookup ys k = none) ∨
    ∃ x y, Value.lookup xs k = some x ∧ Value.lookup ys k = some y ∧ R t x y

theorem setFields_rel (R : Ty → Value → Value → Prop) (xs ys : List (Bytes × Value)) :
    ∀ (fields : List Field), (∀ fld ∈ fields, SlotRel R xs ys fld.name fld.ty) →
      ∀ tr, setFields fields xs = some tr → ∃ tr', setFields fields ys = some tr' ∧ All2 (TripRel R) tr tr'
  | [], _, tr, h => by
    simp only [setFields, Option.some.injEq] at h; subst h
    exact ⟨[], rfl, All2.nil⟩
  | fld :: rest, hall, tr, h => by
    have hrest := fun g hg => hall g (List.mem_cons_of_mem _ hg)
    simp only [setFields] at h ⊢
    rcases hall fld List.mem_cons_self with ⟨hx, hy⟩ | ⟨x, y, hx, hy, hr⟩
    · simp only [hx, hy] at h ⊢
      split at h
      · next ho =>
        obtain ⟨tr', h', hr⟩ := setFields_rel R xs ys rest hrest tr h
        exact ⟨tr', by simp [ho, h'], hr⟩
      · cases h
    · simp only [hx, hy] at h ⊢
      cases hs : setFields rest xs with
      | none => simp [hs] at h
      | some tr0 =>
        simp only [hs, Option.map_some, Option.some.injEq] at h
        subst h
        obtain ⟨tr', h', hr'⟩ := setFields_rel R xs ys rest hrest tr0 hs
        exact ⟨(fld.name, fld.ty, y) :: tr', by simp [h'], All2.cons ⟨rfl, rfl, hr⟩ hr'⟩

theorem setMembers_rel (R : Ty → Value → Value → Prop) (xs ys : List (Bytes × Value)) :
    ∀ (members : List (Bytes × Ty)), (∀ m ∈ members, SlotRel R xs ys m.1 m.2) →
      All2 (TripRel R) (setMembers members xs) (setMembers members ys) ∧
        countSet xs members = countSet ys members
  | [], _ => ⟨All2.nil, rfl⟩
  | m :: rest, hall => by
    obtain ⟨ihr, ihc⟩ := setMembers_rel R xs ys rest (fun g hg => hall g (List.mem_cons_of_mem _ hg))
    simp only [setMembers, countSet] at ihr ihc ⊢
    rcases hall m List.mem_cons_self with ⟨hx, hy⟩ | ⟨x, y, hx, hy, hr⟩
    · simp only [List.filterMap_cons, hx, hy, Option.map_none, List.filter_cons, Option.isSome_none,
        Bool.false_eq_true, ↓reduceIte]
      exact ⟨ihr, ihc⟩
    · simp only [List.filterMap_cons, hx, hy, Option.map_some, List.filter_cons, Option.isSome_some,
        ↓reduceIte, List.length_cons]
      exact ⟨All2.cons ⟨rfl, rfl, hr⟩ ihr, by omega⟩

theorem optEqV_slot (eq : Ty → Value → Value → Bool) (R : Ty → Value → Value → Prop)
    (xs ys : List (Bytes × Value)) (k : Bytes) (t : Ty)
    (hR : ∀ x y, List.lookup k xs = some x → List.lookup k ys = some y → eq t x y = true → R t x y)
    (h : optEqV (eq t) (xs.lookup k) (ys.lookup k) = true) : SlotRel R xs ys k t := by
  unfold SlotRel Value.lookup
  cases hx : List.lookup k xs <;> cases hy : List.lookup k ys <;> simp only [hx, hy, optEqV] at h
  · exact Or.inl ⟨rfl, rfl⟩
  · cases h
  · cases h
  · exact Or.inr ⟨_, _, rfl, rfl, hR _ _ hx hy h⟩

/-! ## the theorem -/

/-- at one nesting depth: what `a` encodes to, `b` encodes to -/
def EncCong (c : EncCfg) (f : Nat) : Prop :=
  ∀ scope ty a b d, ValOK a → ValOK b → valueEqZ c.env f ty a b = true →
    encode c f scope ty a = .ok d → encode c f scope ty b = .ok d

theorem encodeNoop_congr (env : Env) (f : Nat) (ty : Ty) (a b : Value) (ha : ValOK a) (hb : ValOK b)
    (he : valueEqZ env f ty a b = true) : encodeNoop env ty a = encodeNoop env ty b := by
  cases f with
  | zero => simp [valueEqZ] at he
  | succ f =>
    unfold valueEqZ at he
    split at he
    · rw [primEqZ_eq _ _ _ ha hb he]
    · rfl
    · rfl
    · next n a b =>
      unfold namedEqZ at he
      split at he
      · rw [primEqZ_eq _ _ _ ha hb he]
      · simp only [Bool.and_eq_true, decide_eq_true_eq, beq_iff_eq] at he
        obtain ⟨_, rfl⟩ := he
        rfl
      · rfl
      · rfl
      · rfl
      · cases he
    · cases he

/-- the values under two related triples encode alike, excluded or not -/
theorem triples_congr (c : EncCfg) (f : Nat) (ih : EncCong c f) (scope : List Bytes)
    (tr tr' : List (Bytes × Ty × Value))
    (h : All2 (TripRel (fun t x y => ValOK x ∧ ValOK y ∧ valueEqZ c.env f t x y = true)) tr tr') :
    All2 (fun a b => a.1 = b.1 ∧ a.2.1 = b.2.1 ∧
      ∀ d, (fun k t v => if c.excl.matchesB (scope ++ [k]) then encodeNoop c.env t v
              else encode c f (scope ++ [k]) t v) a.1 a.2.1 a.2.2 = .ok d →
           (fun k t v => if c.excl.matchesB (scope ++ [k]) then encodeNoop c.env t v
              else encode c f (scope ++ [k]) t v) b.1 b.2.1 b.2.2 = .ok d) tr tr' := by
  induction h with
  | nil => exact All2.nil
  | @cons a b l r hab _ ih' =>
    refine All2.cons ?_ ih'
    obtain ⟨k, t, v⟩ := a
    obtain ⟨k', t', w⟩ := b
    obtain ⟨hk, ht, hva, hvb, he⟩ := hab
    simp only at hk ht hva hvb he
    subst hk; subst ht
    refine ⟨rfl, rfl, ?_⟩
    intro d hd
    simp only at hd ⊢
    split
    · next hx =>
      simp only [hx, ↓reduceIte] at hd
      rw [← encodeNoop_congr c.env f t v w hva hvb he]; exact hd
    · next hx =>
      simp only [hx, Bool.false_eq_true, ↓reduceIte] at hd
      exact ih _ t v w d hva hvb he hd

theorem encCong (c : EncCfg) (hs : c.sortKeys = true) : ∀ f, EncCong c f
  | 0 => by intro scope ty a b d _ _ h; simp [valueEqZ] at h
  | f + 1 => by
    have ih := encCong c hs f
    intro scope ty a b d ha hb he h
    unfold valueEqZ at he
    split at he
    · -- primitives
      rw [← primEqZ_eq _ _ _ ha hb he]; exact h
    · -- arrays
      next t xs ys =>
      simp only [ValOK] at ha hb
      simp only [encode, bind, Except.bind] at h ⊢
      cases h1 : encodeList (encode c f (scope ++ [Gen.wildCard]) t) xs with
      | error e => simp [h1] at h
      | ok items =>
        simp only [h1] at h
        rw [encodeList_congr _ _ ((genericArray_iff _ xs ys).1 he)
          (fun x hx y hy e d hd => ih _ t x y d (valOKList_mem xs ha x hx) (valOKList_mem ys hb y hy) e hd) items h1]
        exact h
    · -- maps: re-list the right map in the order of the left one, then permute
      next t xs ys =>
      simp only [ValOK] at ha hb
      have hrel := (genericMap_iff _ xs ys ha.1 hb.1).1 he
      have hperm : (alignTo xs ys).Perm ys := alignTo_perm hrel ha.1 hb.1
      have hnA : KeysNodup (alignTo xs ys) := by
        have : (alignTo xs ys).map Prod.fst = xs.map Prod.fst := alignTo_keys xs ys
        unfold KeysNodup
        rw [show (alignTo xs ys).map (·.1) = xs.map (·.1) from this]
        exact ha.1
      -- the aligned map encodes to the same document
      have hA : encode c (f + 1) scope (.map t) (.map (alignTo xs ys)) = .ok d := by
        simp only [encode, bind, Except.bind] at h ⊢
        cases h1 : encodeKeyed (fun k => c.excl.matchesB (scope ++ [k]))
            (fun k v => if c.excl.matchesB (scope ++ [k]) then encodeNoop c.env t v
              else encode c f (scope ++ [k]) t v) xs with
        | error e => simp [h1] at h
        | ok out =>
          simp only [h1] at h
          rw [encodeKeyed_congr _ _ xs (alignTo xs ys) ?_ out h1]
          · exact h
          · -- pointwise: same key, related value
            unfold alignTo
            apply all2_map_right
            intro ⟨k, lv⟩ hin
            obtain ⟨rv, hr', hev⟩ := hrel.1 k lv hin
            refine ⟨rfl, ?_⟩
            intro d' hd'
            simp only [mapLookup_of_mem hb.1 hr'] at hd' ⊢
            have hlv := valOKKvs_mem xs ha.2 _ hin
            have hrv := valOKKvs_mem ys hb.2 _ hr'
            split
            · next hx =>
              simp only [hx, ↓reduceIte] at hd'
              rw [← encodeNoop_congr c.env f t lv rv hlv hrv hev]; exact hd'
            · next hx =>
              simp only [hx, Bool.false_eq_true, ↓reduceIte] at hd'
              exact ih _ t lv rv d' hlv hrv hev hd'
      -- and the order of enumeration does not matter
      have := encodeKeyed_perm (fun k => c.excl.matchesB (scope ++ [k]))
        (fun k v => if c.excl.matchesB (scope ++ [k]) then encodeNoop c.env t v
          else encode c f (scope ++ [k]) t v) (alignTo xs ys) ys hperm
      simp only [encode, bind, Except.bind] at hA ⊢
      cases h1 : encodeKeyed (fun k => c.excl.matchesB (scope ++ [k]))
          (fun k v => if c.excl.matchesB (scope ++ [k]) then encodeNoop c.env t v
            else encode c f (scope ++ [k]) t v) (alignTo xs ys) with
      | error e => simp [h1] at hA
      | ok r₁ =>
        obtain ⟨r₂, h2, hp⟩ := this r₁ h1
        simp only [h1, pure, Except.pure, Except.ok.injEq] at hA
        simp only [h2, pure, Except.pure, Except.ok.injEq]
        rw [← hA]
        simp only [EncCfg.finish, hs, ↓reduceIte, Doc.obj.injEq]
        have hn1 : KeysNodup r₁ := by
          unfold KeysNodup at hnA ⊢
          exact (encodeKeyed_keys _ _ _ r₁ h1).nodup hnA
        exact (sortByKey_perm r₁ r₂ hp hn1).symm
    · -- named types
      rename_i n
      unfold namedEqZ at he
      split at he
      · rw [← primEqZ_eq _ _ _ ha hb he]; exact h
      · simp only [Bool.and_eq_true, decide_eq_true_eq, beq_iff_eq] at he
        obtain ⟨_, rfl⟩ := he
        exact h
      · next x y _ =>
        have : x = y := by simpa using he
        subst this; exact h
      · next xs ys hfind =>
        simp only [ValOK] at ha hb
        simp only [encode, hfind, bind, Except.bind] at h ⊢
        cases hsf : setFields (allFields c.env (includeFuel c.env) n) xs with
        | none => simp [hsf] at h
        | some tr =>
          obtain ⟨tr', hsf', hrel⟩ := setFields_rel
            (fun t x y => ValOK x ∧ ValOK y ∧ valueEqZ c.env f t x y = true) xs ys _
            (fun fld hfld => optEqV_slot (valueEqZ c.env f) _ xs ys fld.name fld.ty
              (fun x y hx hy e => ⟨lookup_valOK xs ha _ _ hx, lookup_valOK ys hb _ _ hy, e⟩)
              ((List.all_eq_true.1 he) fld hfld)) tr hsf
          simp only [hsf, hsf'] at h ⊢
          cases h1 : encodeTyped (fun k => c.excl.matchesB (scope ++ [k]))
              (fun k t v => if c.excl.matchesB (scope ++ [k]) then encodeNoop c.env t v
                else encode c f (scope ++ [k]) t v) tr with
          | error e => simp [h1] at h
          | ok out =>
            simp only [h1] at h
            rw [encodeTyped_congr _ _ tr tr' (triples_congr c f ih scope tr tr' hrel) out h1]
            exact h
      · next hasNull members xs ys hfind =>
        simp only [ValOK] at ha hb
        obtain ⟨hrel, hcount⟩ := setMembers_rel
          (fun t x y => ValOK x ∧ ValOK y ∧ valueEqZ c.env f t x y = true) xs ys members
          (fun m hm => optEqV_slot (valueEqZ c.env f) _ xs ys m.1 m.2
            (fun x y hx hy e => ⟨lookup_valOK xs ha _ _ hx, lookup_valOK ys hb _ _ hy, e⟩)
            ((List.all_eq_true.1 he) m hm))
        simp only [encode, hfind, bind, Except.bind] at h ⊢
        rw [← hcount]
        split at h
        · cases h
        · split at h
          · cases h
          · next h1 h2 =>
            simp only [h1, h2, ↓reduceIte]
            cases h3 : encodeTyped (fun k => c.excl.matchesB (scope ++ [k]))
                (fun k t v => if c.excl.matchesB (scope ++ [k]) then encodeNoop c.env t v
                  else encode c f (scope ++ [k]) t v) (setMembers members xs) with
            | error e => simp [h3] at h
            | ok out =>
              simp only [h3] at h
              rw [encodeTyped_congr _ _ _ _ (triples_congr c f ih scope _ _ hrel) out h3]
              exact h
      · cases he
    · cases he

end Restli.Codec
