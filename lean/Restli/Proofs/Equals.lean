import Restli.Model.Equals
import Restli.Spec.Equals
/-! Helper lemmas for C10 (library level). Property statements live in `Props/C10.lean`. -/
namespace Restli.Equals
open Restli Restli.EqualsSpec Restli.Fnv

/-! ## sorting hashes -/

theorem sortHashes_perm_input (l : List Hash) : (sortHashes l).Perm l := isort_perm _ l

theorem hashLe_trans (a b c : Hash) (hab : decide (a ≤ b) = true) (hbc : decide (b ≤ c) = true) :
    decide (a ≤ c) = true := by
  simp only [decide_eq_true_eq] at *
  exact UInt32.le_trans hab hbc

theorem hashLe_total (a b : Hash) : (decide (a ≤ b) || decide (b ≤ a)) = true := by
  simp only [Bool.or_eq_true, decide_eq_true_eq]
  exact UInt32.le_total a b

theorem hashLe_antisymm (a b : Hash) (hab : decide (a ≤ b) = true) (hba : decide (b ≤ a) = true) :
    a = b := by
  simp only [decide_eq_true_eq] at hab hba
  exact UInt32.le_antisymm hab hba

theorem sortHashes_sorted (l : List Hash) :
    (sortHashes l).Pairwise (fun a b => decide (a ≤ b) = true) :=
  isort_pairwise _ hashLe_trans hashLe_total l

/-- the sorted sequence is a function of the multiset -/
theorem sortHashes_perm {l l' : List Hash} (h : l.Perm l') : sortHashes l = sortHashes l' :=
  isort_eq_of_perm _ hashLe_trans hashLe_total hashLe_antisymm h

theorem addMap_perm {α : Type} (P : Params) (hasher : Hash → α → Hash) (h : Hash)
    {m m' : List (Bytes × α)} (hp : m.Perm m') : addMap P hasher h m = addMap P hasher h m' := by
  simp only [addMap]
  rw [sortHashes_perm (hp.map (kvHash P hasher))]

/-! ## arrays -/

theorem arrayLoop_iff {α : Type} (eq : α → α → Bool) (l r : List α) (hlen : l.length = r.length) :
    arrayLoop eq l r = true ↔ ArrRel eq l r := by
  induction l generalizing r with
  | nil =>
    cases r with
    | nil => simp [arrayLoop]; exact ArrRel.nil
    | cons b r => simp at hlen
  | cons a l ih =>
    cases r with
    | nil => simp at hlen
    | cons b r =>
      simp only [List.length_cons, Nat.add_right_cancel_iff] at hlen
      simp only [arrayLoop]
      constructor
      · intro h
        cases hab : eq a b with
        | false => simp [hab] at h
        | true =>
          simp [hab] at h
          exact ArrRel.cons hab ((ih r hlen).1 h)
      · intro h
        cases h with
        | cons hab hrest =>
          simp [hab]
          exact (ih r hlen).2 hrest

theorem _root_.Restli.EqualsSpec.ArrRel.length_eq {α : Type} {eq : α → α → Bool} {l r : List α} (h : ArrRel eq l r) :
    l.length = r.length := by
  induction h with
  | nil => rfl
  | cons _ _ ih => simp [ih]

/-- `GenericArray` decides position-wise equality -/
theorem genericArray_iff {α : Type} (eq : α → α → Bool) (l r : List α) :
    genericArray eq l r = true ↔ ArrRel eq l r := by
  simp only [genericArray]
  by_cases hlen : l.length = r.length
  · simp [hlen, arrayLoop_iff eq l r hlen]
  · simp [hlen]
    intro h
    exact hlen h.length_eq

/-- the index expression `right[i]` never panics -/
theorem genericArrayP_eq {α : Type} (eq : α → α → Bool) (l r : List α) :
    genericArrayP eq l r = some (genericArray eq l r) := by
  simp only [genericArrayP, genericArray]
  by_cases hlen : l.length = r.length
  · simp only [hlen, bne_self_eq_false, Bool.false_eq_true, ↓reduceIte]
    induction l generalizing r with
    | nil => simp [arrayLoopP, arrayLoop]
    | cons a l ih =>
      cases r with
      | nil => simp at hlen
      | cons b r =>
        simp only [List.length_cons, Nat.add_right_cancel_iff] at hlen
        simp only [arrayLoopP, arrayLoop]
        cases eq a b <;> simp [ih r hlen]
  · simp [hlen]

theorem _root_.Restli.EqualsSpec.ArrRel.refl_on {α : Type} {eq : α → α → Bool} (l : List α) (h : ∀ a ∈ l, eq a a = true) :
    ArrRel eq l l := by
  induction l with
  | nil => exact ArrRel.nil
  | cons a l ih =>
    exact ArrRel.cons (h a List.mem_cons_self) (ih (fun x hx => h x (List.mem_cons_of_mem a hx)))

theorem _root_.Restli.EqualsSpec.ArrRel.symm_on {α : Type} {eq : α → α → Bool} {l r : List α} (h : ArrRel eq l r)
    (hs : ∀ a ∈ l, ∀ b ∈ r, eq a b = true → eq b a = true) : ArrRel eq r l := by
  induction h with
  | nil => exact ArrRel.nil
  | @cons a b l r hab _ ih =>
    exact ArrRel.cons (hs a List.mem_cons_self b List.mem_cons_self hab)
      (ih (fun x hx y hy => hs x (List.mem_cons_of_mem a hx) y (List.mem_cons_of_mem b hy)))

theorem _root_.Restli.EqualsSpec.ArrRel.trans_on {α : Type} {eq : α → α → Bool} {l m r : List α} (h₁ : ArrRel eq l m)
    (h₂ : ArrRel eq m r)
    (ht : ∀ a ∈ l, ∀ b ∈ m, ∀ c ∈ r, eq a b = true → eq b c = true → eq a c = true) :
    ArrRel eq l r := by
  induction h₁ generalizing r with
  | nil => cases h₂; exact ArrRel.nil
  | @cons a b l m hab _ ih =>
    cases h₂ with
    | @cons _ c _ r' hbc hrest =>
      exact ArrRel.cons (ht a List.mem_cons_self b List.mem_cons_self c List.mem_cons_self hab hbc)
        (ih hrest (fun x hx y hy z hz =>
          ht x (List.mem_cons_of_mem a hx) y (List.mem_cons_of_mem b hy) z (List.mem_cons_of_mem c hz)))

/-- equal arrays hash alike, provided equal elements do -/
theorem _root_.Restli.EqualsSpec.ArrRel.addArray_eq {α : Type} {eq : α → α → Bool} {l r : List α} (h : ArrRel eq l r)
    (hasher : Hash → α → Hash)
    (hc : ∀ a ∈ l, ∀ b ∈ r, eq a b = true → ∀ h, hasher h a = hasher h b) (h0 : Hash) :
    addArray hasher h0 l = addArray hasher h0 r := by
  induction h generalizing h0 with
  | nil => rfl
  | @cons a b l r hab _ ih =>
    simp only [addArray, List.foldl_cons]
    rw [hc a List.mem_cons_self b List.mem_cons_self hab h0]
    exact ih (fun x hx y hy => hc x (List.mem_cons_of_mem a hx) y (List.mem_cons_of_mem b hy)) _

/-! ## maps -/

theorem mapLookup_mem {α : Type} {k : Bytes} {m : List (Bytes × α)} {v : α}
    (h : mapLookup k m = some v) : (k, v) ∈ m := by
  induction m with
  | nil => simp [mapLookup] at h
  | cons kv m ih =>
    obtain ⟨k', v'⟩ := kv
    simp only [mapLookup] at h
    by_cases hk : k' = k
    · subst hk
      simp at h
      subst h
      exact List.mem_cons_self
    · have : (k' == k) = false := by simpa using hk
      simp [this] at h
      exact List.mem_cons_of_mem _ (ih h)

theorem mapLookup_eq_none {α : Type} {k : Bytes} {m : List (Bytes × α)} :
    mapLookup k m = none ↔ k ∉ m.map Prod.fst := by
  induction m with
  | nil => simp [mapLookup]
  | cons kv m ih =>
    obtain ⟨k', v'⟩ := kv
    simp only [mapLookup, List.map_cons, List.mem_cons, not_or]
    by_cases hk : k' = k
    · subst hk; simp
    · have : (k' == k) = false := by simpa using hk
      simp only [this, Bool.false_eq_true, ↓reduceIte, ih]
      constructor
      · intro h; exact ⟨fun e => hk e.symm, h⟩
      · intro h; exact h.2

theorem mapLookup_of_mem {α : Type} {k : Bytes} {m : List (Bytes × α)} {v : α}
    (hn : KeysNodup m) (h : (k, v) ∈ m) : mapLookup k m = some v := by
  induction m with
  | nil => simp at h
  | cons kv m ih =>
    obtain ⟨k', v'⟩ := kv
    simp only [KeysNodup, List.map_cons, List.nodup_cons] at hn
    simp only [mapLookup]
    rcases List.mem_cons.1 h with heq | hin
    · cases heq; simp
    · have hne : k' ≠ k := by
        intro e; subst e
        exact hn.1 (List.mem_map.2 ⟨(k', v), hin, rfl⟩)
      have : (k' == k) = false := by simpa using hne
      simp only [this, Bool.false_eq_true, ↓reduceIte]
      exact ih hn.2 hin

theorem keysNodup_perm {α : Type} {m m' : List (Bytes × α)} (hp : m.Perm m') (h : KeysNodup m) :
    KeysNodup m' := (hp.map Prod.fst).nodup h

theorem keysNodup_unique {α : Type} {m : List (Bytes × α)} (hn : KeysNodup m) {k : Bytes} {v w : α}
    (hv : (k, v) ∈ m) (hw : (k, w) ∈ m) : v = w := by
  have h1 := mapLookup_of_mem hn hv
  have h2 := mapLookup_of_mem hn hw
  rw [h1] at h2
  exact Option.some.inj h2

/-- a duplicate-free list of pairs with distinct first components -/
theorem nodup_of_keysNodup {α : Type} {m : List (Bytes × α)} (hn : KeysNodup m) : m.Nodup := by
  simp only [KeysNodup, List.Nodup, List.pairwise_map] at hn
  exact hn.imp (fun hab e => hab (by rw [e]))

/-- pigeonhole on duplicate-free lists of equal length -/
theorem subset_of_subset_of_length_eq {l r : List Bytes} (hl : l.Nodup)
    (hsub : l ⊆ r) (hlen : l.length = r.length) : r ⊆ l := by
  intro x hx
  apply Classical.byContradiction
  intro hnx
  have hsub' : l ⊆ r.erase x := by
    intro y hy
    have hyx : y ≠ x := fun e => hnx (e ▸ hy)
    exact (List.mem_erase_of_ne hyx).2 (hsub hy)
  have h1 := hl.length_le_of_subset hsub'
  have h2 : (r.erase x).length = r.length - 1 := List.length_erase_of_mem hx
  have h3 : 0 < r.length := List.length_pos_of_mem hx
  omega

/-- `GenericMap` decides "same key set, equal values" (for genuine maps: distinct keys) -/
theorem genericMap_iff {α : Type} (eq : α → α → Bool) (l r : List (Bytes × α))
    (hl : KeysNodup l) (hr : KeysNodup r) :
    genericMap eq l r = true ↔ MapRel eq l r := by
  simp only [genericMap]
  constructor
  · intro h
    by_cases hlen : l.length = r.length
    · simp only [hlen, bne_self_eq_false, Bool.false_eq_true, ↓reduceIte, List.all_eq_true] at h
      have fwd : ∀ k lv, (k, lv) ∈ l → ∃ rv, (k, rv) ∈ r ∧ eq lv rv = true := by
        intro k lv hin
        have := h (k, lv) hin
        simp only at this
        cases hlk : mapLookup k r with
        | none => simp [hlk] at this
        | some rv =>
          simp only [hlk] at this
          exact ⟨rv, mapLookup_mem hlk, this⟩
      refine ⟨fwd, ?_⟩
      intro k rv hin
      have hsub : l.map Prod.fst ⊆ r.map Prod.fst := by
        intro x hx
        obtain ⟨⟨k', lv⟩, hkin, rfl⟩ := List.mem_map.1 hx
        obtain ⟨rv', hr', _⟩ := fwd k' lv hkin
        exact List.mem_map.2 ⟨(k', rv'), hr', rfl⟩
      have hrev := subset_of_subset_of_length_eq hl hsub (by simpa using hlen)
      have hk : k ∈ l.map Prod.fst := hrev (List.mem_map.2 ⟨(k, rv), hin, rfl⟩)
      obtain ⟨⟨k', lv⟩, hkin, hk'⟩ := List.mem_map.1 hk
      simp only at hk'
      subst hk'
      obtain ⟨rv', hr', he⟩ := fwd k' lv hkin
      have : rv' = rv := keysNodup_unique hr hr' hin
      subst this
      exact ⟨lv, hkin, he⟩
    · simp [hlen] at h
  · intro ⟨fwd, bwd⟩
    have hsub : l.map Prod.fst ⊆ r.map Prod.fst := by
      intro x hx
      obtain ⟨⟨k', lv⟩, hkin, rfl⟩ := List.mem_map.1 hx
      obtain ⟨rv', hr', _⟩ := fwd k' lv hkin
      exact List.mem_map.2 ⟨(k', rv'), hr', rfl⟩
    have hsub' : r.map Prod.fst ⊆ l.map Prod.fst := by
      intro x hx
      obtain ⟨⟨k', rv⟩, hkin, rfl⟩ := List.mem_map.1 hx
      obtain ⟨lv', hl', _⟩ := bwd k' rv hkin
      exact List.mem_map.2 ⟨(k', lv'), hl', rfl⟩
    have h1 := hl.length_le_of_subset hsub
    have h2 := hr.length_le_of_subset hsub'
    simp only [List.length_map] at h1 h2
    have hlen : l.length = r.length := by omega
    simp only [hlen, bne_self_eq_false, Bool.false_eq_true, ↓reduceIte, List.all_eq_true]
    intro ⟨k, lv⟩ hin
    obtain ⟨rv, hr', he⟩ := fwd k lv hin
    simp [mapLookup_of_mem hr hr', he]

theorem _root_.Restli.EqualsSpec.MapRel.refl_on {α : Type} {eq : α → α → Bool} (m : List (Bytes × α))
    (h : ∀ kv ∈ m, eq kv.2 kv.2 = true) : MapRel eq m m :=
  ⟨fun k lv hin => ⟨lv, hin, h (k, lv) hin⟩, fun k rv hin => ⟨rv, hin, h (k, rv) hin⟩⟩

theorem _root_.Restli.EqualsSpec.MapRel.symm_on {α : Type} {eq : α → α → Bool} {l r : List (Bytes × α)} (h : MapRel eq l r)
    (hs : ∀ a ∈ l, ∀ b ∈ r, eq a.2 b.2 = true → eq b.2 a.2 = true) : MapRel eq r l :=
  ⟨fun k rv hin => by
      obtain ⟨lv, hl, he⟩ := h.2 k rv hin
      exact ⟨lv, hl, hs (k, lv) hl (k, rv) hin he⟩,
   fun k lv hin => by
      obtain ⟨rv, hr, he⟩ := h.1 k lv hin
      exact ⟨rv, hr, hs (k, lv) hin (k, rv) hr he⟩⟩

theorem _root_.Restli.EqualsSpec.MapRel.trans_on {α : Type} {eq : α → α → Bool} {l m r : List (Bytes × α)}
    (h₁ : MapRel eq l m) (h₂ : MapRel eq m r)
    (ht : ∀ a ∈ l, ∀ b ∈ m, ∀ c ∈ r, eq a.2 b.2 = true → eq b.2 c.2 = true → eq a.2 c.2 = true) :
    MapRel eq l r :=
  ⟨fun k lv hin => by
      obtain ⟨mv, hm, he⟩ := h₁.1 k lv hin
      obtain ⟨rv, hr, he'⟩ := h₂.1 k mv hm
      exact ⟨rv, hr, ht (k, lv) hin (k, mv) hm (k, rv) hr he he'⟩,
   fun k rv hin => by
      obtain ⟨mv, hm, he'⟩ := h₂.2 k rv hin
      obtain ⟨lv, hl, he⟩ := h₁.2 k mv hm
      exact ⟨lv, hl, ht (k, lv) hl (k, mv) hm (k, rv) hin he he'⟩⟩

theorem _root_.Restli.EqualsSpec.MapRel.perm {α : Type} {eq : α → α → Bool} {l l' r r' : List (Bytes × α)}
    (hl : l.Perm l') (hr : r.Perm r') (h : MapRel eq l r) : MapRel eq l' r' :=
  ⟨fun k lv hin => by
      obtain ⟨rv, hr', he⟩ := h.1 k lv (hl.mem_iff.2 hin)
      exact ⟨rv, hr.mem_iff.1 hr', he⟩,
   fun k rv hin => by
      obtain ⟨lv, hl', he⟩ := h.2 k rv (hr.mem_iff.2 hin)
      exact ⟨lv, hl.mem_iff.1 hl', he⟩⟩

/-- the verdict of `GenericMap` does not depend on the iteration order of either map -/
theorem genericMap_perm {α : Type} (eq : α → α → Bool) {l l' r r' : List (Bytes × α)}
    (hl : l.Perm l') (hr : r.Perm r') (hnl : KeysNodup l) (hnr : KeysNodup r) :
    genericMap eq l r = genericMap eq l' r' := by
  have hnl' := keysNodup_perm hl hnl
  have hnr' := keysNodup_perm hr hnr
  have h1 := genericMap_iff eq l r hnl hnr
  have h2 := genericMap_iff eq l' r' hnl' hnr'
  cases hb : genericMap eq l r with
  | true => exact ((h2.2 ((h1.1 hb).perm hl hr))).symm
  | false =>
    cases hb' : genericMap eq l' r' with
    | false => rfl
    | true =>
      have := h1.2 ((h2.1 hb').perm hl.symm hr.symm)
      rw [hb] at this
      exact this

/-- the right map re-listed in the order of the left one -/
def alignTo {α : Type} (l r : List (Bytes × α)) : List (Bytes × α) :=
  l.map (fun kv => (kv.1, match mapLookup kv.1 r with
                          | some rv => rv
                          | none => kv.2))

theorem alignTo_keys {α : Type} (l r : List (Bytes × α)) :
    (alignTo l r).map Prod.fst = l.map Prod.fst := by
  simp [alignTo, List.map_map, Function.comp_def]

theorem alignTo_perm {α : Type} {eq : α → α → Bool} {l r : List (Bytes × α)} (h : MapRel eq l r)
    (hl : KeysNodup l) (hr : KeysNodup r) : (alignTo l r).Perm r := by
  have hna : KeysNodup (alignTo l r) := by simpa [KeysNodup, alignTo_keys] using hl
  rw [List.perm_ext_iff_of_nodup (nodup_of_keysNodup hna) (nodup_of_keysNodup hr)]
  intro ⟨k, v⟩
  constructor
  · intro hin
    simp only [alignTo, List.mem_map, Prod.mk.injEq] at hin
    obtain ⟨⟨k', lv⟩, hkin, hk, hv⟩ := hin
    simp only at hk hv
    subst hk
    obtain ⟨rv, hr', _⟩ := h.1 k' lv hkin
    rw [mapLookup_of_mem hr hr'] at hv
    simp only at hv
    subst hv
    exact hr'
  · intro hin
    obtain ⟨lv, hl', _⟩ := h.2 k v hin
    simp only [alignTo, List.mem_map, Prod.mk.injEq]
    refine ⟨(k, lv), hl', rfl, ?_⟩
    simp [mapLookup_of_mem hr hin]

/-- equal maps hash alike, provided equal values do -/
theorem _root_.Restli.EqualsSpec.MapRel.addMap_eq {α : Type} {eq : α → α → Bool} {l r : List (Bytes × α)} (h : MapRel eq l r)
    (hl : KeysNodup l) (hr : KeysNodup r) (P : Params) (hasher : Hash → α → Hash)
    (hc : ∀ a ∈ l, ∀ b ∈ r, eq a.2 b.2 = true → ∀ h, hasher h a.2 = hasher h b.2) (h0 : Hash) :
    addMap P hasher h0 l = addMap P hasher h0 r := by
  rw [← addMap_perm P hasher h0 (alignTo_perm h hl hr)]
  simp only [addMap]
  congr 2
  simp only [alignTo, List.map_map]
  apply List.map_congr_left
  intro ⟨k, lv⟩ hin
  obtain ⟨rv, hr', he⟩ := h.1 k lv hin
  simp only [Function.comp_def, kvHash, mapLookup_of_mem hr hr']
  exact hc (k, lv) hin (k, rv) hr' he _

/-! ## pointers / optionals -/

theorem genericPointer_eq_optEq {α : Type} (eq : α → α → Bool) (p q : Option (Ptr α))
    (hc : ∀ a ∈ p, ∀ b ∈ q, Ptr.Coherent a b) (hr : ∀ a ∈ p, eq a.val a.val = true) :
    genericPointer eq p q = optEq eq (p.map Ptr.val) (q.map Ptr.val) := by
  cases p with
  | none => cases q <;> rfl
  | some a =>
    cases q with
    | none => rfl
    | some b =>
      simp only [genericPointer, Option.map_some, optEq]
      by_cases hab : a.addr = b.addr
      · have := hc a rfl b rfl hab
        simp [hab, ← this, hr a rfl]
      · simp [hab]

theorem optEq_iff {α : Type} (eq : α → α → Bool) (a b : Option α) :
    optEq eq a b = true ↔ OptRel eq a b := by
  cases a <;> cases b <;> simp [optEq, OptRel]

/-- `if p != nil { hasher(h, *p) }` — how generated code hashes an optional field -/
def addOpt {α : Type} (hasher : Hash → α → Hash) (h : Hash) : Option α → Hash
  | none => h
  | some a => hasher h a

theorem optEq_addOpt_eq {α : Type} (eq : α → α → Bool) (hasher : Hash → α → Hash) (a b : Option α)
    (hc : ∀ x ∈ a, ∀ y ∈ b, eq x y = true → ∀ h, hasher h x = hasher h y)
    (h : optEq eq a b = true) (h0 : Hash) : addOpt hasher h0 a = addOpt hasher h0 b := by
  cases a <;> cases b <;> simp_all [optEq, addOpt]

/-! ## IEEE `==` on bit patterns -/

theorem floatEq32_symm (a b : UInt32) : floatEq32 a b = floatEq32 b a := by
  simp only [floatEq32, Bool.or_comm (isNaN32 a), Bool.and_comm (isZero32 a)]
  split
  · rfl
  · split
    · rfl
    · exact Bool.eq_iff_iff.2 ⟨fun h => by simp at h ⊢; exact h.symm, fun h => by simp at h ⊢; exact h.symm⟩

theorem floatEq64_symm (a b : UInt64) : floatEq64 a b = floatEq64 b a := by
  simp only [floatEq64, Bool.or_comm (isNaN64 a), Bool.and_comm (isZero64 a)]
  split
  · rfl
  · split
    · rfl
    · exact Bool.eq_iff_iff.2 ⟨fun h => by simp at h ⊢; exact h.symm, fun h => by simp at h ⊢; exact h.symm⟩

theorem floatEq32_trans (a b c : UInt32) (h₁ : floatEq32 a b = true) (h₂ : floatEq32 b c = true) :
    floatEq32 a c = true := by
  simp only [floatEq32] at *
  cases ha : isNaN32 a <;> cases hb : isNaN32 b <;> cases hc : isNaN32 c <;>
    simp [ha, hb, hc] at h₁ h₂ ⊢
  cases za : isZero32 a <;> cases zb : isZero32 b <;> cases zc : isZero32 c <;>
    simp [za, zb, zc] at h₁ h₂ ⊢ <;> (try subst h₁) <;> (try subst h₂) <;> simp_all

theorem floatEq64_trans (a b c : UInt64) (h₁ : floatEq64 a b = true) (h₂ : floatEq64 b c = true) :
    floatEq64 a c = true := by
  simp only [floatEq64] at *
  cases ha : isNaN64 a <;> cases hb : isNaN64 b <;> cases hc : isNaN64 c <;>
    simp [ha, hb, hc] at h₁ h₂ ⊢
  cases za : isZero64 a <;> cases zb : isZero64 b <;> cases zc : isZero64 c <;>
    simp [za, zb, zc] at h₁ h₂ ⊢ <;> (try subst h₁) <;> (try subst h₂) <;> simp_all

theorem floatEq32_refl (a : UInt32) (h : isNaN32 a = false) : floatEq32 a a = true := by
  simp [floatEq32, h]

theorem floatEq64_refl (a : UInt64) (h : isNaN64 a = false) : floatEq64 a a = true := by
  simp [floatEq64, h]

theorem Prim.eq_symm (a b : Prim) : Prim.eq a b = Prim.eq b a := by
  cases a <;> cases b <;> simp only [Prim.eq, floatEq32_symm, floatEq64_symm] <;>
    exact Bool.eq_iff_iff.2 ⟨fun h => by simp at h ⊢; exact h.symm, fun h => by simp at h ⊢; exact h.symm⟩

theorem Prim.eq_trans (a b c : Prim) (h₁ : Prim.eq a b = true) (h₂ : Prim.eq b c = true) :
    Prim.eq a c = true := by
  cases a <;> cases b <;> simp only [Prim.eq, Bool.false_eq_true] at h₁ <;>
    cases c <;> simp only [Prim.eq, Bool.false_eq_true] at h₂ ⊢
  · simp at h₁ h₂ ⊢; exact h₁.trans h₂
  · simp at h₁ h₂ ⊢; exact h₁.trans h₂
  · exact floatEq32_trans _ _ _ h₁ h₂
  · exact floatEq64_trans _ _ _ h₁ h₂
  · simp at h₁ h₂ ⊢; exact h₁.trans h₂
  · simp at h₁ h₂ ⊢; exact h₁.trans h₂

theorem Prim.eq_refl (a : Prim) (h : a.nanFree = true) : Prim.eq a a = true := by
  cases a <;> simp [Prim.eq, Prim.nanFree] at h ⊢
  · exact floatEq32_refl _ h
  · exact floatEq64_refl _ h

theorem floatEq32_normZero (a b : UInt32) (h : floatEq32 a b = true) :
    normZero32 a = normZero32 b := by
  simp only [floatEq32] at h
  cases hn : (isNaN32 a || isNaN32 b) <;> simp only [hn, Bool.false_eq_true, ↓reduceIte] at h
  simp only [isZero32] at h
  simp only [normZero32]
  cases za : ((a &&& 0x7FFFFFFF) == 0) <;> cases zb : ((b &&& 0x7FFFFFFF) == 0) <;>
    simp [za, zb] at h ⊢ <;> simp_all

theorem floatEq64_normZero (a b : UInt64) (h : floatEq64 a b = true) :
    normZero64 a = normZero64 b := by
  simp only [floatEq64] at h
  cases hn : (isNaN64 a || isNaN64 b) <;> simp only [hn, Bool.false_eq_true, ↓reduceIte] at h
  simp only [isZero64] at h
  simp only [normZero64]
  cases za : ((a &&& 0x7FFFFFFFFFFFFFFF) == 0) <;> cases zb : ((b &&& 0x7FFFFFFFFFFFFFFF) == 0) <;>
    simp [za, zb] at h ⊢ <;> simp_all

/-- `==`-equal primitives are hashed alike into any running hash (zero is normalised) -/
theorem Prim.hashInto_congr (P : Params) (a b : Prim) (h : Prim.eq a b = true) (h0 : Hash) :
    Prim.hashInto P h0 a = Prim.hashInto P h0 b := by
  cases a <;> cases b <;> simp only [Prim.eq, Bool.false_eq_true] at h
  · simp at h; rw [h]
  · simp at h; rw [h]
  · simp only [Prim.hashInto, addFloat32, floatEq32_normZero _ _ h]
  · simp only [Prim.hashInto, addFloat64, floatEq64_normZero _ _ h]
  · simp at h; rw [h]
  · simp at h; rw [h]

end Restli.Equals
