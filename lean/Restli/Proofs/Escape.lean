import Restli.Lib.Escape
/-! Round trip and cleanliness of the three ROR2 string escapers against Go's unescapers. -/
namespace Restli.Escape

theorem unhex_hexUpper_fin : ∀ n : Fin 16, unhex (hexUpper n.val) = some n.val := by decide

theorem unhex_hexUpper (n : Nat) (h : n < 16) : unhex (hexUpper n) = some n :=
  unhex_hexUpper_fin ⟨n, h⟩

theorem byte_recompose (c : UInt8) : UInt8.ofNat (c.toNat / 16 * 16 + c.toNat % 16) = c := by
  have : c.toNat / 16 * 16 + c.toNat % 16 = c.toNat := by omega
  rw [this]; exact UInt8.ofNat_toNat

theorem unescape_pct (plus : Bool) (c : UInt8) (rest : Bytes) :
    unescape plus (pct c ++ rest) = (unescape plus rest).map (c :: ·) := by
  have h1 : c.toNat / 16 < 16 := by have := c.toNat_lt; omega
  have h2 : c.toNat % 16 < 16 := by omega
  simp only [pct, List.cons_append, List.nil_append, unescape, unescAux, beq_self_eq_true, ↓reduceIte,
    unhex_hexUpper _ h1, unhex_hexUpper _ h2, byte_recompose]

theorem unescape_plain (plus : Bool) (c : UInt8) (rest : Bytes) (h37 : c ≠ 37)
    (h43 : plus = true → c ≠ 43) :
    unescape plus (c :: rest) = (unescape plus rest).map (c :: ·) := by
  have e1 : (c == 37) = false := beq_eq_false_iff_ne.mpr h37
  cases plus with
  | false => simp [unescape, unescAux, e1]
  | true =>
    have e2 : (c == 43) = false := beq_eq_false_iff_ne.mpr (h43 rfl)
    simp [unescape, unescAux, e1, e2]

/-- decoding what the table-driven escaper wrote gives the original bytes, for every byte string -/
theorem unescape_escapeWith (safe : List UInt8) (plus : Bool) (h37 : safe.contains 37 = false)
    (h43 : plus = true → safe.contains 43 = false) (b : Bytes) :
    unescape plus (escapeWith safe b) = some b := by
  induction b with
  | nil => simp [escapeWith, unescape, unescAux]
  | cons c cs ih =>
    have hstep : escapeWith safe (c :: cs) = escOne safe c ++ escapeWith safe cs := by
      simp [escapeWith]
    rw [hstep]
    by_cases hc : safe.contains c = true
    · have n37 : c ≠ 37 := by
        intro h; subst h; rw [h37] at hc; exact absurd hc (by decide)
      have n43 : plus = true → c ≠ 43 := by
        intro hp h; subst h; rw [h43 hp] at hc; exact absurd hc (by decide)
      simp only [escOne, hc, ↓reduceIte, List.cons_append, List.nil_append]
      rw [unescape_plain plus c _ n37 n43, ih]; rfl
    · simp only [escOne, hc, Bool.false_eq_true, ↓reduceIte]
      rw [unescape_pct, ih]; rfl

def isUpperHex (c : UInt8) : Bool := (48 ≤ c && c ≤ 57) || (65 ≤ c && c ≤ 70)

theorem hexUpper_isUpperHex_fin : ∀ n : Fin 16, isUpperHex (hexUpper n.val) = true := by decide

/-- every byte the table-driven escaper emits is a safe byte, '%' or an upper-case hex digit -/
theorem escapeWith_bytes (safe : List UInt8) (b : Bytes) :
    ∀ c ∈ escapeWith safe b, safe.contains c = true ∨ c = 37 ∨ isUpperHex c = true := by
  induction b with
  | nil => simp [escapeWith]
  | cons x xs ih =>
    intro c hc
    have hstep : escapeWith safe (x :: xs) = escOne safe x ++ escapeWith safe xs := by
      simp [escapeWith]
    rw [hstep, List.mem_append] at hc
    rcases hc with hc | hc
    · by_cases hx : safe.contains x = true
      · simp only [escOne, hx, ↓reduceIte, List.mem_singleton] at hc; subst hc; exact Or.inl hx
      · simp only [escOne, hx, Bool.false_eq_true, ↓reduceIte, pct, List.mem_cons, List.not_mem_nil, or_false] at hc
        have h1 : x.toNat / 16 < 16 := by have := x.toNat_lt; omega
        have h2 : x.toNat % 16 < 16 := by omega
        rcases hc with hc | hc | hc
        · exact Or.inr (Or.inl hc)
        · subst hc; exact Or.inr (Or.inr (hexUpper_isUpperHex_fin ⟨_, h1⟩))
        · subst hc; exact Or.inr (Or.inr (hexUpper_isUpperHex_fin ⟨_, h2⟩))
    · exact ih c hc

/-- the ROR2 structural bytes: ( ) , : ' -/
def reserved : List UInt8 := [40, 41, 44, 58, 39]

theorem escapeWith_clean (safe : List UInt8) (hs : ∀ r ∈ reserved, safe.contains r = false) (b : Bytes) :
    ∀ c ∈ escapeWith safe b, c ∉ reserved := by
  intro c hc hr
  rcases escapeWith_bytes safe b c hc with h | h | h
  · rw [hs c hr] at h; exact absurd h (by decide)
  · subst h; exact absurd hr (by decide)
  · simp only [reserved, List.mem_cons, List.not_mem_nil, or_false] at hr
    rcases hr with hr | hr | hr | hr | hr <;> subst hr <;> exact absurd h (by decide)

theorem escapeWith_ne_nil (safe : List UInt8) (b : Bytes) (h : b ≠ []) : escapeWith safe b ≠ [] := by
  cases b with
  | nil => exact absurd rfl h
  | cons c cs =>
    have hstep : escapeWith safe (c :: cs) = escOne safe c ++ escapeWith safe cs := by
      simp [escapeWith]
    rw [hstep]
    unfold escOne
    split <;> simp [pct]

/-! header flavour: a replacer whose pairs are each the percent-encoding of their pattern -/

/-- a replacement is the 3-byte percent encoding of its pattern -/
def goodPair (p : UInt8 × Bytes) : Bool :=
  match p.2 with
  | [a, x, y] =>
    a == 37 && (match unhex x, unhex y with
      | some h, some l => UInt8.ofNat (h * 16 + l) == p.1
      | _, _ => false)
  | _ => false

theorem unescape_goodPair (p : UInt8 × Bytes) (hp : goodPair p = true) (rest : Bytes) :
    unescape false (p.2 ++ rest) = (unescape false rest).map (p.1 :: ·) := by
  obtain ⟨c, r⟩ := p
  simp only [goodPair] at hp
  match r, hp with
  | [a, x, y], hp =>
    simp only [Bool.and_eq_true, beq_iff_eq] at hp
    obtain ⟨ha, hxy⟩ := hp
    subst ha
    cases hx : unhex x with
    | none => simp [hx] at hxy
    | some h =>
      cases hy : unhex y with
      | none => simp [hx, hy] at hxy
      | some l =>
        simp only [hx, hy, beq_iff_eq] at hxy
        simp [unescape, unescAux, hx, hy, hxy]

theorem lookup_mem {α β : Type} [BEq α] [LawfulBEq α] (l : List (α × β)) (k : α) (v : β)
    (h : l.lookup k = some v) : (k, v) ∈ l := by
  induction l with
  | nil => simp at h
  | cons x xs ih =>
    obtain ⟨a, b⟩ := x
    simp only [List.lookup] at h
    by_cases hk : (k == a) = true
    · simp only [hk] at h
      have : k = a := by simpa using hk
      subst this; cases h; simp
    · simp only [Bool.not_eq_true] at hk
      simp only [hk] at h
      exact List.mem_cons_of_mem _ (ih h)

/-- decoding what the header replacer wrote gives the original bytes, provided '%' itself is one
of the patterns and every replacement is the percent-encoding of its pattern -/
theorem unescape_replaceWith (pairs : List (UInt8 × Bytes)) (hg : ∀ p ∈ pairs, goodPair p = true)
    (h37 : (pairs.lookup 37).isSome = true) (b : Bytes) :
    unescape false (replaceWith pairs b) = some b := by
  induction b with
  | nil => simp [replaceWith, unescape, unescAux]
  | cons c cs ih =>
    have hstep : replaceWith pairs (c :: cs) =
        replOne pairs c ++ replaceWith pairs cs := by
      simp [replaceWith]
    rw [hstep]
    unfold replOne
    cases hl : pairs.lookup c with
    | some r =>
      have hm := lookup_mem pairs c r hl
      have := unescape_goodPair (c, r) (hg _ hm) (replaceWith pairs cs)
      simp only at this ⊢
      rw [this, ih]; rfl
    | none =>
      have n37 : c ≠ 37 := by
        intro h; subst h; rw [hl] at h37; exact absurd h37 (by decide)
      simp only [List.cons_append, List.nil_append]
      rw [unescape_plain false c _ n37 (by intro h; cases h), ih]; rfl

theorem replaceWith_clean (pairs : List (UInt8 × Bytes))
    (hk : ∀ r ∈ reserved, (pairs.lookup r).isSome = true)
    (hv : ∀ p ∈ pairs, ∀ c ∈ p.2, c ∉ reserved) (b : Bytes) :
    ∀ c ∈ replaceWith pairs b, c ∉ reserved := by
  induction b with
  | nil => simp [replaceWith]
  | cons x xs ih =>
    intro c hc
    have hstep : replaceWith pairs (x :: xs) =
        replOne pairs x ++ replaceWith pairs xs := by
      simp [replaceWith]
    rw [hstep, List.mem_append] at hc
    rcases hc with hc | hc
    · unfold replOne at hc
      cases hl : pairs.lookup x with
      | some r =>
        rw [hl] at hc
        exact hv _ (lookup_mem pairs x r hl) c hc
      | none =>
        rw [hl] at hc
        simp only [List.mem_singleton] at hc; subst hc
        intro hr
        have := hk c hr
        rw [hl] at this; exact absurd this (by decide)
    · exact ih c hc

theorem replaceWith_ne_nil (pairs : List (UInt8 × Bytes)) (hv : ∀ p ∈ pairs, p.2 ≠ []) (b : Bytes)
    (h : b ≠ []) : replaceWith pairs b ≠ [] := by
  cases b with
  | nil => exact absurd rfl h
  | cons c cs =>
    have hstep : replaceWith pairs (c :: cs) =
        replOne pairs c ++ replaceWith pairs cs := by
      simp [replaceWith]
    rw [hstep]
    unfold replOne
    cases hl : pairs.lookup c with
    | some r =>
      have := hv _ (lookup_mem pairs c r hl)
      simp only at this ⊢
      intro h'; exact this (List.append_eq_nil_iff.1 h').1
    | none => simp

/-- the regenerated tables of one module generation -/
structure Tables where
  pathSafe : List UInt8
  querySafe : List UInt8
  headerEscapes : List (UInt8 × Bytes)

def tablesV2 : Tables := ⟨Gen.pathSafe, Gen.querySafe, Gen.headerEscapes⟩
def tablesRoot : Tables := ⟨GenRoot.pathSafe, GenRoot.querySafe, GenRoot.headerEscapes⟩

/-- the side conditions the round trip needs, as one decidable predicate over the tables -/
def TablesOk (t : Tables) : Prop :=
  t.pathSafe.contains 37 = false ∧ t.querySafe.contains 37 = false ∧ t.querySafe.contains 43 = false ∧
  (∀ r ∈ reserved, t.pathSafe.contains r = false) ∧ (∀ r ∈ reserved, t.querySafe.contains r = false) ∧
  (∀ p ∈ t.headerEscapes, goodPair p = true) ∧ (t.headerEscapes.lookup 37).isSome = true ∧
  (∀ r ∈ reserved, (t.headerEscapes.lookup r).isSome = true) ∧
  (∀ p ∈ t.headerEscapes, ∀ c ∈ p.2, c ∉ reserved) ∧ (∀ p ∈ t.headerEscapes, p.2 ≠ [])

instance (t : Tables) : Decidable (TablesOk t) := by unfold TablesOk; infer_instance


end Restli.Escape
