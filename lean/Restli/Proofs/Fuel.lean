import Restli.Model.Ror2Reader
/-! The ROR2 reader model never runs out of fuel: for **every** input, the fuel `unmarshalRor2`
starts with suffices — each recursive call either descends one level of the generated code or
consumes input, and nothing is ever pushed back. Together with `Proofs/NoPanic.lean` this makes the
model a total function with outcomes value / error only; the real code's termination on the inputs
of a run is watched by the harness. -/
namespace Restli.Codec

/-- a result that is not "out of fuel" and whose remaining input is no longer than `n` -/
def Good {α : Type} (n : Nat) (r : Res α) : Prop :=
  r ≠ .fuel ∧ ∀ v s', r = .ok v s' → s'.rest.length ≤ n

theorem Good.err {α : Type} (n : Nat) (e : DecErr) : Good n (Res.err e : Res α) := ⟨by simp, by simp⟩
theorem Good.panic {α : Type} (n : Nat) : Good n (Res.panic : Res α) := ⟨by simp, by simp⟩
theorem Good.unmodelled {α : Type} (n : Nat) : Good n (Res.unmodelled : Res α) := ⟨by simp, by simp⟩
theorem Good.ok {α : Type} (n : Nat) (v : α) (s : RS) (h : s.rest.length ≤ n) : Good n (Res.ok v s) :=
  ⟨by simp, by intro v' s' he; cases he; exact h⟩
theorem Good.mono {α : Type} {n m : Nat} {r : Res α} (h : Good n r) (hnm : n ≤ m) : Good m r :=
  ⟨h.1, fun v s' he => Nat.le_trans (h.2 v s' he) hnm⟩
theorem Good.le {α : Type} {n : Nat} {r : Res α} (h : Good n r) {v : α} {s' : RS} (he : r = .ok v s') :
    s'.rest.length ≤ n := h.2 v s' he
theorem Good.not_fuel {α : Type} {n : Nat} {r : Res α} (h : Good n r) (he : r = .fuel) : False := h.1 he

@[simp] theorem adv_rest (s : RS) (r : Bytes) : (s.adv r).rest = r := rfl

theorem scanPrim_len : ∀ (b : Bytes), (scanPrim b).2.length ≤ b.length
  | [] => by simp [scanPrim]
  | c :: cs => by
    simp only [scanPrim]
    split
    · simp
    · have := scanPrim_len cs
      simp only [List.length_cons]
      omega

theorem readPrimTok_good (s : RS) : Good s.rest.length (readPrimTok s) := by
  unfold readPrimTok
  split
  · split
    · exact Good.err _ _
    · exact Good.ok _ _ _ (by simp)
  · have := scanPrim_len s.rest
    generalize scanPrim s.rest = tr at this
    obtain ⟨t, r⟩ := tr
    simp only
    split
    · exact Good.err _ _
    · split
      · exact Good.err _ _
      · exact Good.ok _ _ _ (by simpa using this)

theorem readString_good (c : RCfg) (s : RS) : Good s.rest.length (readString c s) := by
  unfold readString
  have h := readPrimTok_good s
  split
  · next t s' he =>
    split
    · exact Good.ok _ _ _ (h.le he)
    · exact Good.err _ _
  · exact Good.err _ _
  · exact Good.panic _
  · next he => exact absurd he h.1
  · exact Good.unmodelled _

theorem readPrim_good (c : RCfg) (p : Prim) (s : RS) : Good s.rest.length (readPrim c p s) := by
  unfold readPrim
  have h := readPrimTok_good s
  split
  · next t s' he =>
    split
    · exact Good.ok _ _ _ (h.le he)
    · exact Good.err _ _
    · exact Good.unmodelled _
  · exact Good.err _ _
  · exact Good.panic _
  · next he => exact absurd he h.1
  · exact Good.unmodelled _

theorem skipScan_len (b : Bool) : ∀ (cs : Bytes) (n : Nat) (r : Bytes), skipScan b n cs = some r → r.length ≤ cs.length
  | [], _, _, h => by simp [skipScan] at h
  | c :: cs, n, r, h => by
    simp only [skipScan] at h
    repeat' split at h
    all_goals first
      | (cases h; done)
      | (simp only [Option.some.injEq] at h; subst h; simp; done)
      | (have := skipScan_len b cs _ r h; simp only [List.length_cons]; omega)

theorem skip_good (s : RS) : Good s.rest.length (skip s) := by
  unfold skip
  split
  · exact Good.ok _ _ _ (by simp)
  · split
    · next r he => exact Good.ok _ _ _ (by simpa using skipScan_len _ _ _ _ he)
    · exact Good.err _ _

theorem scanName_len : ∀ (b n r : Bytes), scanName b = some (n, r) → n.length + 1 + r.length = b.length
  | [], _, _, h => by simp [scanName] at h
  | c :: cs, n, r, h => by
    simp only [scanName] at h
    split at h
    · simp only [Option.some.injEq, Prod.mk.injEq] at h
      obtain ⟨rfl, rfl⟩ := h
      simp only [List.length_nil, List.length_cons]; omega
    · split at h
      · cases h
      · split at h
        · next n' r' he =>
          simp only [Option.some.injEq, Prod.mk.injEq] at h
          obtain ⟨rfl, rfl⟩ := h
          have := scanName_len cs n' r' he
          simp only [List.length_cons]
          omega
        · cases h

theorem readFieldName_len (rest raw after : Bytes) (h : readFieldName rest = .name raw after) :
    after.length + 2 ≤ rest.length := by
  unfold readFieldName at h
  split at h
  · cases h
  · next c cs =>
    split at h
    · cases h
    · split at h
      · cases h
      · next n a he =>
        split at h
        · cases h
        · next hne =>
          simp only [FieldName.name.injEq] at h
          obtain ⟨rfl, rfl⟩ := h
          have := scanName_len _ _ _ he
          have hn : 1 ≤ n.length := by
            cases n with
            | nil => simp at hne
            | cons _ _ => simp
          omega

theorem atMap_len (s : RS) (h : atMap s = true) : 1 ≤ s.rest.length := by
  unfold atMap at h
  cases hs : s.rest with
  | nil => simp [hs] at h
  | cons _ _ => simp

theorem atArray_len (s : RS) (h : atArray s = true) : Gen.listPrefix.length < s.rest.length := by
  unfold atArray at h
  simp only [Bool.and_eq_true, decide_eq_true_eq] at h
  exact h.2

/-- the six mutually recursive reader functions at one fuel level: enough fuel for the remaining
input means no "out of fuel" outcome, and the input never grows -/
def FuelOK (c : RCfg) (F : Nat) : Prop :=
  (∀ scope ty s, 2 * s.rest.length + 4 ≤ F → Good s.rest.length (readTy c F scope ty s)) ∧
  (∀ scope mode s, 2 * s.rest.length + 3 ≤ F → Good s.rest.length (readMap c F scope mode s)) ∧
  (∀ scope mode acc seen s, 2 * s.rest.length + 4 ≤ F →
    Good s.rest.length (readMapLoop c F scope mode acc seen s)) ∧
  (∀ scope mode acc seen k s, 2 * s.rest.length + 5 ≤ F →
    Good s.rest.length (readMapCallback c F scope mode acc seen k s)) ∧
  (∀ scope t s, 2 * s.rest.length + 3 ≤ F → Good s.rest.length (readArray c F scope t s)) ∧
  (∀ scope t i s, 2 * s.rest.length + 5 ≤ F → Good s.rest.length (readArrayLoop c F scope t i s))

theorem fuelOK (c : RCfg) : ∀ F, FuelOK c F
  | 0 => by
    refine ⟨?_, ?_, ?_, ?_, ?_, ?_⟩ <;> intros <;> omega
  | F + 1 => by
    obtain ⟨ihT, ihM, ihL, ihC, ihA, ihAL⟩ := fuelOK c F
    refine ⟨?_, ?_, ?_, ?_, ?_, ?_⟩
    · -- readTy
      intro scope ty s hF
      simp only [readTy]
      cases ty with
      | prim p => exact readPrim_good c p s
      | arr t => exact ihA scope t s (by omega)
      | map t =>
        have g := ihM scope (.mapOf t) s (by omega)
        simp only
        split
        · next he => exact Good.ok _ _ _ (g.le he)
        · exact Good.err _ _
        · exact Good.panic _
        · next he => exact (g.not_fuel he).elim
        · exact Good.unmodelled _
      | ref n =>
        simp only
        split
        · exact readPrim_good c _ s
        · have g := readString_good c s
          split
          · next he => exact Good.ok _ _ _ (g.le he)
          · exact Good.err _ _
          · exact Good.panic _
          · next he => exact (g.not_fuel he).elim
          · exact Good.unmodelled _
        · have g := readString_good c s
          split
          · next he =>
            split
            · exact Good.ok _ _ _ (g.le he)
            · exact Good.err _ _
          · exact Good.err _ _
          · exact Good.panic _
          · next he => exact (g.not_fuel he).elim
          · exact Good.unmodelled _
        · next own hfind =>
          have g := ihM scope (.record (allFields c.env (includeFuel c.env) n)) s (by omega)
          split
          · next he =>
            split
            · exact Good.panic _
            · exact Good.err _ _
            · exact Good.ok _ _ _ (by simpa using g.le he)
          · exact Good.err _ _
          · exact Good.panic _
          · next he => exact (g.not_fuel he).elim
          · exact Good.unmodelled _
        · next hasNull members hfind =>
          have g := ihM scope (.union members) s (by omega)
          split
          · next he =>
            split
            · exact Good.err _ _
            · exact Good.ok _ _ _ (g.le he)
          · exact Good.err _ _
          · exact Good.panic _
          · next he => exact (g.not_fuel he).elim
          · exact Good.unmodelled _
        · exact Good.err _ _
    · -- readMap
      intro scope mode s hF
      simp only [readMap]
      split
      · exact Good.err _ _
      · next hat =>
        have hlen := atMap_len s (by simpa using hat)
        have hd : (s.rest.drop 1).length = s.rest.length - 1 := by simp
        have g := ihL scope mode [] [] (s.adv (s.rest.drop 1)) (by simp only [adv_rest, hd]; omega)
        exact g.mono (by simp only [adv_rest, hd]; omega)
    · -- readMapLoop
      intro scope mode acc seen s hF
      simp only [readMapLoop]
      split
      · exact Good.err _ _
      · exact Good.panic _
      · exact Good.ok _ _ _ (by simp)
      · next raw after hname =>
        have hlen := readFieldName_len s.rest raw after hname
        split
        · exact Good.err _ _
        · next k hk =>
          split
          · exact Good.panic _
          · exact Good.err _ _
          · have g := ihC (scope ++ [.key k]) mode acc seen k (s.adv after) (by simp only [adv_rest]; omega)
            simp only [adv_rest] at g
            split
            · next acc' s2 he =>
              have h2 := g.le he
              split
              · exact Good.err _ _
              · next d r2 hr =>
                have hr2 : r2.length + 1 = s2.rest.length := by rw [hr]; simp
                split
                · have g2 := ihL scope mode acc' (seen ++ [k]) (s2.adv r2) (by simp only [adv_rest]; omega)
                  exact g2.mono (by simp only [adv_rest]; omega)
                · split
                  · exact Good.ok _ _ _ (by simp only [adv_rest]; omega)
                  · exact Good.err _ _
            · exact Good.err _ _
            · exact Good.panic _
            · next he => exact (g.not_fuel he).elim
            · exact Good.unmodelled _
    · -- readMapCallback
      intro scope mode acc seen k s hF
      simp only [readMapCallback]
      split
      · next fields =>
        split
        · next f hf =>
          have g := ihT scope f.ty s (by omega)
          split
          · next he => exact Good.ok _ _ _ (g.le he)
          · exact Good.err _ _
          · exact Good.panic _
          · next he => exact (g.not_fuel he).elim
          · exact Good.unmodelled _
        · have g := skip_good s
          split
          · next he => exact Good.ok _ _ _ (g.le he)
          · exact Good.err _ _
          · exact Good.panic _
          · next he => exact (g.not_fuel he).elim
          · exact Good.unmodelled _
      · next t =>
        have g := ihT scope t s (by omega)
        split
        · next he => exact Good.ok _ _ _ (g.le he)
        · exact Good.err _ _
        · exact Good.panic _
        · next he => exact (g.not_fuel he).elim
        · exact Good.unmodelled _
      · next members =>
        split
        · exact Good.err _ _
        · split
          · next t ht =>
            have g := ihT scope t s (by omega)
            split
            · next he => exact Good.ok _ _ _ (g.le he)
            · exact Good.err _ _
            · exact Good.panic _
            · next he => exact (g.not_fuel he).elim
            · exact Good.unmodelled _
          · exact Good.err _ _
    · -- readArray
      intro scope t s hF
      simp only [readArray]
      split
      · exact Good.err _ _
      · next hat =>
        have hlen := atArray_len s (by simpa using hat)
        have hlp : Gen.listPrefix.length = 5 := rfl
        have hd : (s.rest.drop Gen.listPrefix.length).length = s.rest.length - Gen.listPrefix.length := by simp
        split
        · exact Good.panic _
        · next d r hr =>
          simp only [adv_rest] at hr
          have hr' : r.length + 1 = (s.rest.drop Gen.listPrefix.length).length := by rw [hr]; simp
          split
          · exact Good.ok _ _ _ (by simp only [adv_rest]; omega)
          · have g := ihAL scope t 0 (s.adv (s.rest.drop Gen.listPrefix.length)) (by simp only [adv_rest]; omega)
            simp only [adv_rest] at g
            split
            · next he => exact Good.ok _ _ _ (by have := g.le he; omega)
            · exact Good.err _ _
            · exact Good.panic _
            · next he => exact (g.not_fuel he).elim
            · exact Good.unmodelled _
    · -- readArrayLoop
      intro scope t i s hF
      simp only [readArrayLoop]
      have g := ihT (scope ++ [.idx i]) t s (by omega)
      split
      · next v s2 he =>
        have h2 := g.le he
        split
        · exact Good.err _ _
        · next d r2 hr =>
          have hr2 : r2.length + 1 = s2.rest.length := by rw [hr]; simp
          split
          · have g2 := ihAL scope t (i + 1) (s2.adv r2) (by simp only [adv_rest]; omega)
            simp only [adv_rest] at g2
            split
            · next he2 => exact Good.ok _ _ _ (by have := g2.le he2; omega)
            · exact Good.err _ _
            · exact Good.panic _
            · next he2 => exact (g2.not_fuel he2).elim
            · exact Good.unmodelled _
          · split
            · exact Good.ok _ _ _ (by simp only [adv_rest]; omega)
            · exact Good.err _ _
      · exact Good.err _ _
      · exact Good.panic _
      · next he => exact (g.not_fuel he).elim
      · exact Good.unmodelled _

/-- **the ROR2 reader never runs out of fuel**: for every schema, type, exclusion spec and input,
`NewRor2Reader(data)` + generated `UnmarshalRestLi` is a value or an error in the model -/
theorem unmarshalRor2_ne_fuel (c : RCfg) (ty : Ty) (data : Bytes) : unmarshalRor2 c ty data ≠ .fuel := by
  unfold unmarshalRor2
  split
  · simp
  · exact ((fuelOK c _).1 [] ty { rest := data, start := true } (by simp only; omega)).1

end Restli.Codec
