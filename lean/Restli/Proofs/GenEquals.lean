import Restli.Model.GenEquals
import Restli.Proofs.Equals
/-! Schema-level Equals / ComputeHash contract: for every schema, every type, every pair of
values, `Equals` true implies equal `ComputeHash`; `Equals` is symmetric and transitive. By
induction over the nesting depth, discharging the membership-restricted hypotheses of the library
lemmas (`Proofs/Equals.lean`) with the induction hypothesis. -/
namespace Restli.Codec
open Restli Restli.Fnv Restli.Equals Restli.EqualsSpec

/-! ## values whose maps are genuine maps (distinct keys), at every depth -/
mutual
def MapsOK : Value → Prop
  | .record fs => MapsOKKvs fs
  | .union ms => MapsOKKvs ms
  | .map es => KeysNodup es ∧ MapsOKKvs es
  | .arr vs => MapsOKList vs
  | _ => True
def MapsOKKvs : List (Bytes × Value) → Prop
  | [] => True
  | (_, v) :: rest => MapsOK v ∧ MapsOKKvs rest
def MapsOKList : List Value → Prop
  | [] => True
  | v :: rest => MapsOK v ∧ MapsOKList rest
end

theorem mapsOKKvs_mem : ∀ (l : List (Bytes × Value)), MapsOKKvs l → ∀ e ∈ l, MapsOK e.2
  | [], _, e, he => by cases he
  | (k, v) :: rest, h, e, he => by
    simp only [MapsOKKvs] at h
    rcases List.mem_cons.1 he with rfl | he
    · exact h.1
    · exact mapsOKKvs_mem rest h.2 e he

theorem mapsOKList_mem : ∀ (l : List Value), MapsOKList l → ∀ v ∈ l, MapsOK v
  | [], _, v, hv => by cases hv
  | x :: rest, h, v, hv => by
    simp only [MapsOKList] at h
    rcases List.mem_cons.1 hv with rfl | hv
    · exact h.1
    · exact mapsOKList_mem rest h.2 v hv

theorem lookup_mem' {α : Type} : ∀ (l : List (Bytes × α)) (k : Bytes) (v : α), l.lookup k = some v → (k, v) ∈ l
  | [], _, _, h => by simp at h
  | (k', v') :: rest, k, v, h => by
    simp only [List.lookup] at h
    split at h
    · next he =>
      have : k = k' := by simpa using he
      cases h; subst this; exact List.mem_cons_self
    · exact List.mem_cons_of_mem _ (lookup_mem' rest k v h)

theorem lookup_mapsOK (fs : List (Bytes × Value)) (h : MapsOKKvs fs) (k : Bytes) (v : Value)
    (hl : fs.lookup k = some v) : MapsOK v :=
  mapsOKKvs_mem fs h _ (lookup_mem' fs k v hl)

/-! ## primitives -/

theorem primEq_hash (P : Params) (p : Prim) (a b : Value) (h : primEq p a b = true) (h0 : Hash) :
    primHash P h0 p a = primHash P h0 p b := by
  unfold primEq at h
  split at h
  · simp at h; subst h; rfl
  · simp at h; subst h; rfl
  · simp at h; subst h; rfl
  · simp at h; subst h; rfl
  · simp at h; subst h; rfl
  · simp only [primHash, addFloat32, floatEq32_normZero _ _ h]
  · simp only [primHash, addFloat64, floatEq64_normZero _ _ h]
  · cases h

theorem primEq_symm (p : Prim) (a b : Value) (h : primEq p a b = true) : primEq p b a = true := by
  unfold primEq at h
  split at h
  · simp at h; subst h; simp [primEq]
  · simp at h; subst h; simp [primEq]
  · simp at h; subst h; simp [primEq]
  · simp at h; subst h; simp [primEq]
  · simp at h; subst h; simp [primEq]
  · simp only [primEq]; rw [floatEq32_symm]; exact h
  · simp only [primEq]; rw [floatEq64_symm]; exact h
  · cases h

theorem primEq_trans (p : Prim) (a b c : Value) (h₁ : primEq p a b = true) (h₂ : primEq p b c = true) :
    primEq p a c = true := by
  unfold primEq at h₁
  split at h₁
  · simp at h₁; subst h₁; exact h₂
  · simp at h₁; subst h₁; exact h₂
  · simp at h₁; subst h₁; exact h₂
  · simp at h₁; subst h₁; exact h₂
  · simp at h₁; subst h₁; exact h₂
  · cases c <;> simp [primEq] at h₂ ⊢
    exact floatEq32_trans _ _ _ h₁ h₂
  · cases c <;> simp [primEq] at h₂ ⊢
    exact floatEq64_trans _ _ _ h₁ h₂
  · cases h₁

/-! ## struct slots -/

theorem foldl_congr {α β : Type} (F G : β → α → β) : ∀ (l : List α) (b : β),
    (∀ x ∈ l, ∀ b, F b x = G b x) → l.foldl F b = l.foldl G b
  | [], _, _ => rfl
  | x :: rest, b, h => by
    simp only [List.foldl_cons]
    rw [h x List.mem_cons_self b]
    exact foldl_congr F G rest _ (fun y hy => h y (List.mem_cons_of_mem _ hy))

theorem slot_congr (eqf : Ty → Value → Value → Bool) (hf : Ty → Hash → Value → Hash)
    (xs ys : List (Bytes × Value)) (k : Bytes) (ty : Ty)
    (hc : ∀ a b, xs.lookup k = some a → ys.lookup k = some b → eqf ty a b = true → ∀ h, hf ty h a = hf ty h b)
    (he : optEqV (eqf ty) (xs.lookup k) (ys.lookup k) = true) (h : Hash) :
    hashSlot hf xs h k ty = hashSlot hf ys h k ty := by
  unfold hashSlot
  cases hx : xs.lookup k <;> cases hy : ys.lookup k <;> simp only [hx, hy, optEqV] at he ⊢
  · cases he
  · cases he
  · exact hc _ _ hx hy he h

/-- the record hash visits exactly the flattened field list -/
theorem recHash_congr (env : Env) (P : Params) (hf : Ty → Hash → Value → Hash) (xs ys : List (Bytes × Value)) :
    ∀ (g : Nat) (n : TName),
      (∀ fld ∈ allFields env g n, ∀ h, hashSlot hf xs h fld.name fld.ty = hashSlot hf ys h fld.name fld.ty) →
      recHash env P hf g n xs = recHash env P hf g n ys
  | 0, _, _ => rfl
  | g + 1, n, hall => by
    simp only [recHash]
    simp only [allFields] at hall
    split
    · next incs own hfind =>
      simp only [hfind] at hall
      have hinc : ∀ inc ∈ incs, recHash env P hf g inc xs = recHash env P hf g inc ys := by
        intro inc hi
        apply recHash_congr env P hf xs ys g inc
        intro fld hfld
        exact hall fld (List.mem_append_left _ (List.mem_flatMap.2 ⟨inc, hi, hfld⟩))
      have h0 : incs.foldl (fun h inc => add P h (recHash env P hf g inc xs)) P.init
          = incs.foldl (fun h inc => add P h (recHash env P hf g inc ys)) P.init :=
        foldl_congr _ _ incs _ (fun inc hi b => by rw [hinc inc hi])
      simp only [h0]
      exact foldl_congr _ _ own _ (fun fld hfld b => hall fld (List.mem_append_right _ hfld) b)
    · rfl

/-! ## Equals ⇒ same hash -/

/-- the statement at one nesting depth -/
def HashCong (env : Env) (P : Params) (f : Nat) : Prop :=
  ∀ ty a b, MapsOK a → MapsOK b → valueEq env f ty a b = true →
    ∀ h, hashInto env P f ty h a = hashInto env P f ty h b

theorem namedEq_hash (env : Env) (P : Params) (f : Nat) (ih : HashCong env P f) (n : TName) (a b : Value)
    (ha : MapsOK a) (hb : MapsOK b) (he : namedEq env (valueEq env f) n a b = true) :
    namedHash env P (hashInto env P f) n a = namedHash env P (hashInto env P f) n b := by
  unfold namedEq at he
  split at he
  · next p hfind => simp only [namedHash, hfind]; exact primEq_hash P p _ _ he _
  · next syms x y hfind =>
    simp only [Bool.and_eq_true, decide_eq_true_eq, beq_iff_eq] at he
    obtain ⟨_, rfl⟩ := he
    rfl
  · next x y hfind =>
    have : x = y := by simpa using he
    subst this; rfl
  · next xs ys hfind =>
    simp only [namedHash, hfind]
    simp only [MapsOK] at ha hb
    apply recHash_congr
    intro fld hfld h
    have hslot := (List.all_eq_true.1 he) fld hfld
    exact slot_congr (valueEq env f) (hashInto env P f) xs ys fld.name fld.ty
      (fun a b hxa hyb e h => ih fld.ty a b (lookup_mapsOK xs ha _ _ hxa) (lookup_mapsOK ys hb _ _ hyb) e h)
      hslot h
  · next members xs ys hfind =>
    simp only [namedHash, hfind]
    simp only [MapsOK] at ha hb
    apply foldl_congr
    intro m hm h
    have hslot := (List.all_eq_true.1 he) m hm
    exact slot_congr (valueEq env f) (hashInto env P f) xs ys m.1 m.2
      (fun a b hxa hyb e h => ih m.2 a b (lookup_mapsOK xs ha _ _ hxa) (lookup_mapsOK ys hb _ _ hyb) e h)
      hslot h
  · cases he

theorem hashCong (env : Env) (P : Params) : ∀ f, HashCong env P f
  | 0 => by intro ty a b _ _ h; simp [valueEq] at h
  | f + 1 => by
    have ih := hashCong env P f
    intro ty a b ha hb he h
    unfold valueEq at he
    split at he
    · simp only [hashInto]; exact primEq_hash P _ _ _ he h
    · next t xs ys =>
      simp only [hashInto]
      simp only [MapsOK] at ha hb
      exact ((genericArray_iff _ xs ys).1 he).addArray_eq _
        (fun x hx y hy e h => ih t x y (mapsOKList_mem xs ha x hx) (mapsOKList_mem ys hb y hy) e h) h
    · next t xs ys =>
      simp only [hashInto]
      simp only [MapsOK] at ha hb
      exact ((genericMap_iff _ xs ys ha.1 hb.1).1 he).addMap_eq ha.1 hb.1 P _
        (fun x hx y hy e h => ih t x.2 y.2 (mapsOKKvs_mem xs ha.2 x hx) (mapsOKKvs_mem ys hb.2 y hy) e h) h
    · simp only [hashInto]
      rw [namedEq_hash env P f ih _ _ _ ha hb he]
    · cases he

/-! ## symmetry -/

def EqSymm (env : Env) (f : Nat) : Prop :=
  ∀ ty a b, MapsOK a → MapsOK b → valueEq env f ty a b = true → valueEq env f ty b a = true

theorem optEqV_symm (eq : Value → Value → Bool) (a b : Option Value)
    (hs : ∀ x y, a = some x → b = some y → eq x y = true → eq y x = true)
    (h : optEqV eq a b = true) : optEqV eq b a = true := by
  cases a <;> cases b <;> simp only [optEqV] at h ⊢
  · cases h
  · cases h
  · exact hs _ _ rfl rfl h

theorem namedEq_symm (env : Env) (f : Nat) (ih : EqSymm env f) (n : TName) (a b : Value)
    (ha : MapsOK a) (hb : MapsOK b) (he : namedEq env (valueEq env f) n a b = true) :
    namedEq env (valueEq env f) n b a = true := by
  unfold namedEq at he
  split at he
  · next p hfind => simp only [namedEq, hfind]; exact primEq_symm p _ _ he
  · next syms x y hfind =>
    simp only [Bool.and_eq_true, decide_eq_true_eq, beq_iff_eq] at he
    obtain ⟨⟨hx, _⟩, rfl⟩ := he
    simp [namedEq, hfind, hx]
  · next x y hfind =>
    have : x = y := by simpa using he
    subst this; simp [namedEq, hfind]
  · next xs ys hfind =>
    simp only [namedEq, hfind]
    simp only [MapsOK] at ha hb
    apply List.all_eq_true.2
    intro fld hfld
    exact optEqV_symm _ _ _
      (fun x y hx hy e => ih fld.ty x y (lookup_mapsOK xs ha _ _ hx) (lookup_mapsOK ys hb _ _ hy) e)
      ((List.all_eq_true.1 he) fld hfld)
  · next members xs ys hfind =>
    simp only [namedEq, hfind]
    simp only [MapsOK] at ha hb
    apply List.all_eq_true.2
    intro m hm
    exact optEqV_symm _ _ _
      (fun x y hx hy e => ih m.2 x y (lookup_mapsOK xs ha _ _ hx) (lookup_mapsOK ys hb _ _ hy) e)
      ((List.all_eq_true.1 he) m hm)
  · cases he

theorem eqSymm (env : Env) : ∀ f, EqSymm env f
  | 0 => by intro ty a b _ _ h; simp [valueEq] at h
  | f + 1 => by
    have ih := eqSymm env f
    intro ty a b ha hb he
    unfold valueEq at he
    split at he
    · simp only [valueEq]; exact primEq_symm _ _ _ he
    · next t xs ys =>
      simp only [valueEq]
      simp only [MapsOK] at ha hb
      exact (genericArray_iff _ ys xs).2 (((genericArray_iff _ xs ys).1 he).symm_on
        (fun x hx y hy e => ih t x y (mapsOKList_mem xs ha x hx) (mapsOKList_mem ys hb y hy) e))
    · next t xs ys =>
      simp only [valueEq]
      simp only [MapsOK] at ha hb
      exact (genericMap_iff _ ys xs hb.1 ha.1).2 (((genericMap_iff _ xs ys ha.1 hb.1).1 he).symm_on
        (fun x hx y hy e => ih t x.2 y.2 (mapsOKKvs_mem xs ha.2 x hx) (mapsOKKvs_mem ys hb.2 y hy) e))
    · simp only [valueEq]
      exact namedEq_symm env f ih _ _ _ ha hb he
    · cases he

/-! ## transitivity -/

def EqTrans (env : Env) (f : Nat) : Prop :=
  ∀ ty a b c, MapsOK a → MapsOK b → MapsOK c →
    valueEq env f ty a b = true → valueEq env f ty b c = true → valueEq env f ty a c = true

theorem optEqV_trans (eq : Value → Value → Bool) (a b c : Option Value)
    (ht : ∀ x y z, a = some x → b = some y → c = some z → eq x y = true → eq y z = true → eq x z = true)
    (h₁ : optEqV eq a b = true) (h₂ : optEqV eq b c = true) : optEqV eq a c = true := by
  cases a <;> cases b <;> cases c <;> simp only [optEqV] at h₁ h₂ ⊢
  all_goals first
    | exact ht _ _ _ rfl rfl rfl h₁ h₂
    | (cases h₁; done)
    | (cases h₂; done)

theorem namedEq_trans (env : Env) (f : Nat) (ih : EqTrans env f) (n : TName) (a b c : Value)
    (ha : MapsOK a) (hb : MapsOK b) (hc : MapsOK c)
    (h₁ : namedEq env (valueEq env f) n a b = true) (h₂ : namedEq env (valueEq env f) n b c = true) :
    namedEq env (valueEq env f) n a c = true := by
  unfold namedEq at h₁
  split at h₁
  · next p hfind =>
    simp only [namedEq, hfind] at h₂ ⊢
    exact primEq_trans p _ _ _ h₁ h₂
  · next syms x y hfind =>
    simp only [Bool.and_eq_true, decide_eq_true_eq, beq_iff_eq] at h₁
    obtain ⟨_, rfl⟩ := h₁
    exact h₂
  · next x y hfind =>
    have : x = y := by simpa using h₁
    subst this; exact h₂
  · next xs ys hfind =>
    cases c <;> simp only [namedEq, hfind, Bool.false_eq_true] at h₂ ⊢
    · next zs =>
      simp only [MapsOK] at ha hb hc
      apply List.all_eq_true.2
      intro fld hfld
      exact optEqV_trans _ _ _ _
        (fun x y z hx hy hz e₁ e₂ => ih fld.ty x y z (lookup_mapsOK xs ha _ _ hx)
          (lookup_mapsOK ys hb _ _ hy) (lookup_mapsOK _ hc _ _ hz) e₁ e₂)
        ((List.all_eq_true.1 h₁) fld hfld) ((List.all_eq_true.1 h₂) fld hfld)
  · next members xs ys hfind =>
    cases c <;> simp only [namedEq, hfind, Bool.false_eq_true] at h₂ ⊢
    · next zs =>
      simp only [MapsOK] at ha hb hc
      apply List.all_eq_true.2
      intro m hm
      exact optEqV_trans _ _ _ _
        (fun x y z hx hy hz e₁ e₂ => ih m.2 x y z (lookup_mapsOK xs ha _ _ hx)
          (lookup_mapsOK ys hb _ _ hy) (lookup_mapsOK _ hc _ _ hz) e₁ e₂)
        ((List.all_eq_true.1 h₁) m hm) ((List.all_eq_true.1 h₂) m hm)
  · cases h₁

theorem eqTrans (env : Env) : ∀ f, EqTrans env f
  | 0 => by intro ty a b c _ _ _ h; simp [valueEq] at h
  | f + 1 => by
    have ih := eqTrans env f
    intro ty a b c ha hb hc h₁ h₂
    unfold valueEq at h₁
    split at h₁
    · simp only [valueEq] at h₂ ⊢; exact primEq_trans _ _ _ c h₁ h₂
    · next t xs ys =>
      cases c <;> simp only [valueEq, Bool.false_eq_true] at h₂ ⊢
      next zs =>
      simp only [MapsOK] at ha hb hc
      exact (genericArray_iff _ xs zs).2 (((genericArray_iff _ xs ys).1 h₁).trans_on
        ((genericArray_iff _ ys zs).1 h₂)
        (fun x hx y hy z hz e₁ e₂ => ih t x y z (mapsOKList_mem xs ha x hx) (mapsOKList_mem ys hb y hy)
          (mapsOKList_mem zs hc z hz) e₁ e₂))
    · next t xs ys =>
      cases c <;> simp only [valueEq, Bool.false_eq_true] at h₂ ⊢
      next zs =>
      simp only [MapsOK] at ha hb hc
      exact (genericMap_iff _ xs zs ha.1 hc.1).2 (((genericMap_iff _ xs ys ha.1 hb.1).1 h₁).trans_on
        ((genericMap_iff _ ys zs hb.1 hc.1).1 h₂)
        (fun x hx y hy z hz e₁ e₂ => ih t x.2 y.2 z.2 (mapsOKKvs_mem xs ha.2 x hx) (mapsOKKvs_mem ys hb.2 y hy)
          (mapsOKKvs_mem zs hc.2 z hz) e₁ e₂))
    · simp only [valueEq] at h₂ ⊢
      exact namedEq_trans env f ih _ _ _ c ha hb hc h₁ h₂
    · cases h₁

end Restli.Codec
