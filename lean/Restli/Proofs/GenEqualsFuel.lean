import Restli.Proofs.EqualEncode
/-! The fuel argument of the generated-`Equals` model is an artefact of the model (the Go code
recurses over the value). A positive verdict never depends on it: once `valueEq` says `true` at
some fuel it says `true` at every larger fuel — so "Equal" is well defined as "`true` at some
fuel", and every `c10_generated_*` theorem speaks about that one relation. -/
namespace Restli.Codec
open Restli Restli.Fnv Restli.Equals Restli.EqualsSpec

def FuelStep (env : Env) (f : Nat) : Prop :=
  ∀ ty a b, MapsOK a → MapsOK b → valueEq env f ty a b = true → valueEq env (f + 1) ty a b = true

theorem namedEq_fuel (env : Env) (f : Nat) (ih : FuelStep env f) (n : TName) (a b : Value)
    (ha : MapsOK a) (hb : MapsOK b) (he : namedEq env (valueEq env f) n a b = true) :
    namedEq env (valueEq env (f + 1)) n a b = true := by
  unfold namedEq at he
  split at he
  · next p hfind => simp only [namedEq, hfind]; exact he
  · next syms x y hfind => simp only [namedEq, hfind]; exact he
  · next x y hfind => simp only [namedEq, hfind]; exact he
  · next xs ys hfind =>
    simp only [namedEq, hfind]
    simp only [MapsOK] at ha hb
    apply List.all_eq_true.2
    intro fld hfld
    exact optEqV_mono _ _ _ _
      (fun x y hx hy e => ih fld.ty x y (lookup_mapsOK xs ha _ _ hx) (lookup_mapsOK ys hb _ _ hy) e)
      ((List.all_eq_true.1 he) fld hfld)
  · next members xs ys hfind =>
    simp only [namedEq, hfind]
    simp only [MapsOK] at ha hb
    apply List.all_eq_true.2
    intro m hm
    exact optEqV_mono _ _ _ _
      (fun x y hx hy e => ih m.2 x y (lookup_mapsOK xs ha _ _ hx) (lookup_mapsOK ys hb _ _ hy) e)
      ((List.all_eq_true.1 he) m hm)
  · cases he

/-- one more unit of fuel keeps a positive verdict -/
theorem valueEq_fuel_step (env : Env) : ∀ f, FuelStep env f
  | 0 => by intro ty a b _ _ h; simp [valueEq] at h
  | f + 1 => by
    have ih := valueEq_fuel_step env f
    intro ty a b ha hb he
    unfold valueEq at he
    split at he
    · rw [valueEq]; exact he
    · next t xs ys =>
      rw [valueEq]
      simp only [MapsOK] at ha hb
      exact (genericArray_iff _ xs ys).2 (ArrRel.mono ((genericArray_iff _ xs ys).1 he)
        (fun x hx y hy e => ih t x y (mapsOKList_mem xs ha x hx) (mapsOKList_mem ys hb y hy) e))
    · next t xs ys =>
      rw [valueEq]
      simp only [MapsOK] at ha hb
      exact (genericMap_iff _ xs ys ha.1 hb.1).2 (MapRel.mono ((genericMap_iff _ xs ys ha.1 hb.1).1 he)
        (fun x hx y hy e => ih t x.2 y.2 (mapsOKKvs_mem xs ha.2 x hx) (mapsOKKvs_mem ys hb.2 y hy) e))
    · rw [valueEq]
      exact namedEq_fuel env f ih _ _ _ ha hb he
    · cases he

/-- any larger fuel keeps a positive verdict -/
theorem valueEq_fuel_mono (env : Env) (f g : Nat) (hfg : f ≤ g) (ty : Ty) (a b : Value)
    (ha : MapsOK a) (hb : MapsOK b) (h : valueEq env f ty a b = true) :
    valueEq env g ty a b = true := by
  induction hfg with
  | refl => exact h
  | step _ ih => exact valueEq_fuel_step env _ ty a b ha hb ih

/-! ## the same for `valueEqZ` (Equal and not differing in the sign of a zero) -/

def FuelStepZ (env : Env) (f : Nat) : Prop :=
  ∀ ty a b, MapsOK a → MapsOK b → valueEqZ env f ty a b = true → valueEqZ env (f + 1) ty a b = true

theorem namedEqZ_fuel (env : Env) (f : Nat) (ih : FuelStepZ env f) (n : TName) (a b : Value)
    (ha : MapsOK a) (hb : MapsOK b) (he : namedEqZ env (valueEqZ env f) n a b = true) :
    namedEqZ env (valueEqZ env (f + 1)) n a b = true := by
  unfold namedEqZ at he
  split at he
  · next p hfind => simp only [namedEqZ, hfind]; exact he
  · next syms x y hfind => simp only [namedEqZ, hfind]; exact he
  · next x y hfind => simp only [namedEqZ, hfind]; exact he
  · next xs ys hfind =>
    simp only [namedEqZ, hfind]
    simp only [MapsOK] at ha hb
    apply List.all_eq_true.2
    intro fld hfld
    exact optEqV_mono _ _ _ _
      (fun x y hx hy e => ih fld.ty x y (lookup_mapsOK xs ha _ _ hx) (lookup_mapsOK ys hb _ _ hy) e)
      ((List.all_eq_true.1 he) fld hfld)
  · next members xs ys hfind =>
    simp only [namedEqZ, hfind]
    simp only [MapsOK] at ha hb
    apply List.all_eq_true.2
    intro m hm
    exact optEqV_mono _ _ _ _
      (fun x y hx hy e => ih m.2 x y (lookup_mapsOK xs ha _ _ hx) (lookup_mapsOK ys hb _ _ hy) e)
      ((List.all_eq_true.1 he) m hm)
  · cases he

/-- one more unit of fuel keeps a positive verdict -/
theorem valueEqZ_fuel_step (env : Env) : ∀ f, FuelStepZ env f
  | 0 => by intro ty a b _ _ h; simp [valueEqZ] at h
  | f + 1 => by
    have ih := valueEqZ_fuel_step env f
    intro ty a b ha hb he
    unfold valueEqZ at he
    split at he
    · rw [valueEqZ]; exact he
    · next t xs ys =>
      rw [valueEqZ]
      simp only [MapsOK] at ha hb
      exact (genericArray_iff _ xs ys).2 (ArrRel.mono ((genericArray_iff _ xs ys).1 he)
        (fun x hx y hy e => ih t x y (mapsOKList_mem xs ha x hx) (mapsOKList_mem ys hb y hy) e))
    · next t xs ys =>
      rw [valueEqZ]
      simp only [MapsOK] at ha hb
      exact (genericMap_iff _ xs ys ha.1 hb.1).2 (MapRel.mono ((genericMap_iff _ xs ys ha.1 hb.1).1 he)
        (fun x hx y hy e => ih t x.2 y.2 (mapsOKKvs_mem xs ha.2 x hx) (mapsOKKvs_mem ys hb.2 y hy) e))
    · rw [valueEqZ]
      exact namedEqZ_fuel env f ih _ _ _ ha hb he
    · cases he

/-- any larger fuel keeps a positive verdict -/
theorem valueEqZ_fuel_mono (env : Env) (f g : Nat) (hfg : f ≤ g) (ty : Ty) (a b : Value)
    (ha : MapsOK a) (hb : MapsOK b) (h : valueEqZ env f ty a b = true) :
    valueEqZ env g ty a b = true := by
  induction hfg with
  | refl => exact h
  | step _ ih => exact valueEqZ_fuel_step env _ ty a b ha hb ih

end Restli.Codec
