import Restli.Proofs.Url
import Restli.Model.HttpUrl
/-! Helper lemmas about `Model.HttpUrl` (no property statements here). -/
namespace Restli.HttpUrl
open Restli Restli.Url Restli.HttpUrlSpec

/-! ### segments -/

theorem segText_facts (s : Bytes) (h : segText s = true) : s ≠ [] ∧ pathText s = true ∧ cSlash ∉ s := by
  simp only [segText, Bool.and_eq_true, Bool.not_eq_true', List.isEmpty_eq_false_iff] at h
  refine ⟨h.1.1, h.1.2, fun hm => ?_⟩
  have := List.contains_iff_mem.2 hm
  rw [h.2] at this; exact absurd this (by simp)

theorem pathText_append : (a b : Bytes) → pathText a = true → pathText b = true → pathText (a ++ b) = true
  | [], b, _, hb => hb
  | c :: rest, b, ha, hb => by
    unfold pathText at ha
    split at ha
    · next hc =>
      match rest, ha with
      | x :: y :: rest', ha =>
        simp only [Bool.and_eq_true] at ha
        have ih := pathText_append rest' b ha.2 hb
        simp only [List.cons_append]
        unfold pathText
        simp [hc, ha.1.1, ha.1.2, ih]
    · next hc =>
      simp only [Bool.and_eq_true] at ha
      have ih := pathText_append rest b ha.2 hb
      simp only [List.cons_append]
      unfold pathText
      rw [if_neg hc]
      simp only [Bool.and_eq_true]
      exact ⟨ha.1, ih⟩

theorem pathText_slash (s : Bytes) (h : pathText s = true) : pathText (cSlash :: s) = true := by
  unfold pathText
  rw [if_neg (by decide)]
  simp [h]

theorem joinSegs_cons (s : Bytes) (rest : List Bytes) : joinSegs (s :: rest) = cSlash :: s ++ joinSegs rest := by
  simp [joinSegs]

theorem joinSegs_append (a b : List Bytes) : joinSegs (a ++ b) = joinSegs a ++ joinSegs b := by
  simp [joinSegs]

theorem pathText_joinSegs (segs : List Bytes) (h : ∀ s ∈ segs, segText s = true) :
    pathText (joinSegs segs) = true := by
  induction segs with
  | nil => rfl
  | cons s rest ih =>
    rw [joinSegs_cons]
    have hs := segText_facts s (h s (by simp))
    have := ih (fun x hx => h x (by simp [hx]))
    exact pathText_append (cSlash :: s) _ (pathText_slash s hs.2.1) this

/-- `joinSegs` is empty or starts with `/` -/
theorem joinSegs_head (segs : List Bytes) : joinSegs segs = [] ∨ ∃ t, joinSegs segs = cSlash :: t := by
  cases segs with
  | nil => exact Or.inl rfl
  | cons s rest => exact Or.inr ⟨_, joinSegs_cons s rest⟩

theorem joinSegs_last (segs : List Bytes) (h : ∀ s ∈ segs, segText s = true) :
    ∀ x, (joinSegs segs).getLast? = some x → x ≠ cSlash := by
  induction segs with
  | nil => intro x hx; simp [joinSegs] at hx
  | cons s rest ih =>
    intro x hx
    have hs := segText_facts s (h s (by simp))
    rw [joinSegs_cons, List.getLast?_append] at hx
    cases hr : (joinSegs rest).getLast? with
    | some y =>
      rw [hr] at hx
      simp at hx
      exact hx ▸ ih (fun z hz => h z (by simp [hz])) y hr
    | none =>
      rw [hr] at hx
      simp only [Option.none_or] at hx
      obtain ⟨c, cs, rfl⟩ := List.exists_cons_of_ne_nil hs.1
      rw [List.getLast?_cons_cons] at hx
      have : x ∈ c :: cs := List.mem_of_getLast? hx
      exact fun e => hs.2.2 (e ▸ this)

/-! ### the context path the client derives from the resolver's URL -/

theorem trimSuffixSlash_snoc (t : Bytes) : trimSuffixSlash (t ++ [cSlash]) = t := by
  simp [trimSuffixSlash]

theorem trimSuffixSlash_id (t : Bytes) (h : t.getLast? ≠ some cSlash) : trimSuffixSlash t = t := by
  simp [trimSuffixSlash, h]

theorem resolvedPath_ctx (b : URL) (segs : List Bytes) (trail : Bool)
    (hsegs : ∀ s ∈ segs, segText s = true)
    (hb : escapedPath b = joinSegs segs ++ (if trail then [cSlash] else [])) :
    resolvedPath b = if segs = [] then [cSlash] else joinSegs segs := by
  simp only [resolvedPath, hb]
  cases segs with
  | nil => cases trail <;> simp [joinSegs, trimPrefixSlash, trimSuffixSlash]
  | cons s rest =>
    have hlast := joinSegs_last (s :: rest) hsegs
    rw [joinSegs_cons] at hlast ⊢
    simp only [List.cons_append, trimPrefixSlash, beq_self_eq_true, if_true, List.cons_ne_nil, if_false]
    have hs := segText_facts s (hsegs s (by simp))
    obtain ⟨c, cs, rfl⟩ := List.exists_cons_of_ne_nil hs.1
    have hl2 : ((c :: cs) ++ joinSegs rest).getLast? ≠ some cSlash := by
      intro e
      have : (cSlash :: (c :: cs) ++ joinSegs rest).getLast? = some cSlash := by
        simp only [List.cons_append] at e ⊢
        rw [List.getLast?_cons_cons]; exact e
      exact hlast _ this rfl
    cases trail with
    | false => simp only [Bool.false_eq_true, if_false, List.append_nil]; rw [trimSuffixSlash_id _ hl2]
    | true =>
      have := trimSuffixSlash_snoc ((c :: cs) ++ joinSegs rest)
      simpa using this

/-! ### `strings.Index(ctx, "/"+root)` over a segmented context -/

theorem isPrefixOf_seg (root sk t : Bytes) (hroot : cSlash ∉ root)
    (ht : t = [] ∨ ∃ t', t = cSlash :: t') : root.isPrefixOf (sk ++ t) = root.isPrefixOf sk := by
  induction root generalizing sk with
  | nil => simp
  | cons r rs ih =>
    have hr : r ≠ cSlash := fun e => hroot (by simp [e])
    have hrs : cSlash ∉ rs := fun e => hroot (by simp [e])
    cases sk with
    | nil =>
      rcases ht with rfl | ⟨t', rfl⟩
      · simp
      · simp [List.isPrefixOf, hr]
    | cons c sk' => simp [List.isPrefixOf, ih sk' hrs]

theorem indexOf_skip (pat s t : Bytes) (p0 : UInt8) (pr : Bytes) (hpat : pat = p0 :: pr) (hs : p0 ∉ s) :
    indexOf pat (s ++ t) = (indexOf pat t).map (· + s.length) := by
  induction s with
  | nil => simp
  | cons c cs ih =>
    have hc : p0 ≠ c := fun e => hs (by simp [e])
    have hcs : p0 ∉ cs := fun e => hs (by simp [e])
    have hp : pat.isPrefixOf (c :: (cs ++ t)) = false := by rw [hpat]; simp [List.isPrefixOf, hc]
    simp only [List.cons_append]
    rw [indexOf, if_neg (by simp [hp]), ih hcs]
    cases indexOf pat t with
    | none => rfl
    | some n => simp; omega

theorem indexOf_joinSegs_none (root : Bytes) (hroot : cSlash ∉ root) (segs : List Bytes)
    (hsegs : ∀ s ∈ segs, segText s = true) (hno : ∀ s ∈ segs, root.isPrefixOf s = false) :
    indexOf (cSlash :: root) (joinSegs segs) = none := by
  induction segs with
  | nil => simp [joinSegs, indexOf]
  | cons s rest ih =>
    have hs := segText_facts s (hsegs s (by simp))
    rw [joinSegs_cons]
    simp only [List.cons_append, indexOf, List.isPrefixOf, beq_self_eq_true, Bool.true_and]
    rw [isPrefixOf_seg root s _ hroot (joinSegs_head rest), hno s (by simp)]
    simp only [Bool.false_eq_true, if_false]
    rw [indexOf_skip (cSlash :: root) s _ cSlash root rfl hs.2.2,
      ih (fun x hx => hsegs x (by simp [hx])) (fun x hx => hno x (by simp [hx]))]
    rfl

theorem indexOf_joinSegs_some (root : Bytes) (hroot : cSlash ∉ root) (pre : List Bytes) (sk : Bytes)
    (post : List Bytes) (hsegs : ∀ s ∈ pre ++ sk :: post, segText s = true)
    (hno : ∀ s ∈ pre, root.isPrefixOf s = false) (hsk : root.isPrefixOf sk = true) :
    indexOf (cSlash :: root) (joinSegs (pre ++ sk :: post)) = some (joinSegs pre).length := by
  induction pre with
  | nil =>
    simp only [List.nil_append, joinSegs_cons]
    simp only [List.cons_append, indexOf, List.isPrefixOf, beq_self_eq_true, Bool.true_and]
    rw [isPrefixOf_seg root sk _ hroot (joinSegs_head post), hsk]
    simp [joinSegs]
  | cons s rest ih =>
    have hs := segText_facts s (hsegs s (by simp))
    simp only [List.cons_append, joinSegs_cons]
    simp only [indexOf, List.isPrefixOf, beq_self_eq_true, Bool.true_and]
    rw [isPrefixOf_seg root s _ hroot (joinSegs_head _), hno s (by simp)]
    simp only [Bool.false_eq_true, if_false]
    rw [indexOf_skip (cSlash :: root) s _ cSlash root rfl hs.2.2,
      ih (fun x hx => hsegs x (List.mem_cons_of_mem _ hx)) (fun x hx => hno x (by simp [hx]))]
    simp [List.length_append]; omega

theorem getElem?_at_length {α} (A B : List α) (n : Nat) (h : n = A.length) : (A ++ B)[n]? = B.head? := by
  subst h
  rw [List.getElem?_append_right (Nat.le_refl _)]
  cases B <;> simp

/-- the `strings.Index` block, when some context segment starts with the root name: the context is
cut before the FIRST such segment iff that segment IS the root name -/
theorem stripRoot_some (root : Bytes) (hroot : cSlash ∉ root) (pre : List Bytes) (sk : Bytes)
    (post : List Bytes) (hsegs : ∀ s ∈ pre ++ sk :: post, segText s = true)
    (hno : ∀ s ∈ pre, root.isPrefixOf s = false) (hsk : root.isPrefixOf sk = true) :
    stripRoot (joinSegs (pre ++ sk :: post)) root =
      .ok (if sk = root then joinSegs pre else joinSegs (pre ++ sk :: post)) := by
  obtain ⟨x, rfl⟩ : ∃ x, sk = root ++ x := by
    have := List.isPrefixOf_iff_prefix.1 hsk
    obtain ⟨x, hx⟩ := this
    exact ⟨x, hx.symm⟩
  have hskf := segText_facts _ (hsegs (root ++ x) (by simp))
  unfold stripRoot
  rw [indexOf_joinSegs_some root hroot pre _ post hsegs hno hsk]
  have hshape : joinSegs (pre ++ (root ++ x) :: post) =
      (joinSegs pre ++ cSlash :: root) ++ (x ++ joinSegs post) := by
    simp [joinSegs_append, joinSegs_cons]
  have hlen : (joinSegs pre ++ cSlash :: root).length = (joinSegs pre).length + root.length + 1 := by
    simp [List.length_append]; omega
  simp only []
  rw [hshape, getElem?_at_length _ _ _ hlen.symm]
  have htake : ((joinSegs pre ++ cSlash :: root) ++ (x ++ joinSegs post)).take (joinSegs pre).length
      = joinSegs pre := by
    rw [List.append_assoc]; exact List.take_left' rfl
  rw [htake]
  cases x with
  | nil =>
    cases post with
    | nil => simp [joinSegs, List.length_append]; omega
    | cons p ps =>
      have : ¬ ((joinSegs pre ++ cSlash :: root ++ ([] ++ joinSegs (p :: ps))).length
          = (joinSegs pre).length + root.length + 1) := by
        simp [joinSegs_cons, List.length_append]; omega
      simp [joinSegs_cons]
  | cons c x' =>
    have hc : c ≠ cSlash := fun e => hskf.2.2 (by simp [e])
    have : ¬ ((joinSegs pre ++ cSlash :: root ++ (c :: x' ++ joinSegs post)).length
        = (joinSegs pre).length + root.length + 1) := by
      simp [List.length_append]; omega
    simp [hc]
    omega

theorem first_split (P : Bytes → Bool) (l : List Bytes) :
    (∀ s ∈ l, P s = false) ∨
      ∃ pre sk post, l = pre ++ sk :: post ∧ (∀ s ∈ pre, P s = false) ∧ P sk = true := by
  induction l with
  | nil => left; simp
  | cons a t ih =>
    cases ha : P a with
    | true => right; exact ⟨[], a, t, rfl, by simp, ha⟩
    | false =>
      rcases ih with h | ⟨pre, sk, post, rfl, hpre, hsk⟩
      · left; intro s hs
        rcases List.mem_cons.1 hs with rfl | hs
        · exact ha
        · exact h s hs
      · right
        refine ⟨a :: pre, sk, post, rfl, ?_, hsk⟩
        intro s hs
        rcases List.mem_cons.1 hs with rfl | hs
        · exact ha
        · exact hpre s hs

theorem mem_dropLast_mid (pre : List Bytes) (sk p : Bytes) (ps : List Bytes) :
    sk ∈ (pre ++ sk :: p :: ps).dropLast := by
  rw [List.dropLast_append_of_ne_nil (by simp)]
  simp [List.dropLast]

/-- Under the property's own exclusion and guard 2 the context is cut exactly as the property asks. -/
theorem stripRoot_spec (root : Bytes) (hroot : cSlash ∉ root) (segs : List Bytes)
    (hsegs : ∀ s ∈ segs, segText s = true) (hex : RootOnlyLast segs root)
    (hg : FirstRootIsLast segs root) :
    stripRoot (joinSegs segs) root =
      .ok (joinSegs (if segs.getLast? = some root then segs.dropLast else segs)) := by
  have hself : root.isPrefixOf root = true := List.isPrefixOf_iff_prefix.2 (List.prefix_refl _)
  rcases first_split (fun s => root.isPrefixOf s) segs with hnone | ⟨pre, sk, post, rfl, hpre, hsk⟩
  · have hl : segs.getLast? ≠ some root := by
      intro e
      have := hnone root (List.mem_of_getLast? e)
      simp [hself] at this
    simp only [stripRoot, indexOf_joinSegs_none root hroot segs hsegs hnone, hl, if_false]
  · rw [stripRoot_some root hroot pre sk post hsegs hpre hsk]
    cases post with
    | nil =>
      by_cases e : sk = root
      · subst e; simp
      · have : ¬ (some sk = some root) := by simpa using e
        simp [e]
    | cons p ps =>
      have hmem := mem_dropLast_mid pre sk p ps
      by_cases e : sk = root
      · exact absurd e (hex sk hmem)
      · have hl : (pre ++ sk :: p :: ps).getLast? ≠ some root := by
          intro hlast
          have := hg hlast sk hmem
          have hsk' : root.isPrefixOf sk = true := hsk
          rw [this] at hsk'
          exact absurd hsk' (by simp)
        simp only [e, hl, if_false]

/-! ### the resource path and the expected path -/

theorem rp_shape (root rp : Bytes) (h : resourcePathOk root rp = true) :
    segText root = true ∧ pathText rp = true ∧
      ∃ tail, rp = cSlash :: (root ++ tail) ∧ (tail = [] ∨ ∃ t, tail = cSlash :: t) := by
  simp only [resourcePathOk, Bool.and_eq_true] at h
  obtain ⟨⟨hroot, hp⟩, hm⟩ := h
  refine ⟨hroot, hp, ?_⟩
  cases rp with
  | nil => simp at hm
  | cons c r =>
    simp only [Bool.and_eq_true, beq_iff_eq, Bool.or_eq_true, List.isEmpty_iff] at hm
    obtain ⟨⟨hc, hpre⟩, htail⟩ := hm
    obtain ⟨tail, rfl⟩ : ∃ tail, r = root ++ tail := by
      obtain ⟨x, hx⟩ := List.isPrefixOf_iff_prefix.1 hpre
      exact ⟨x, hx.symm⟩
    refine ⟨tail, by rw [hc], ?_⟩
    simp only [List.drop_left] at htail
    rcases htail with h | h
    · exact Or.inl h
    · right
      cases tail with
      | nil => simp at h
      | cons a t => simp at h; exact ⟨t, by rw [h]⟩

/-- a path made of context segments followed by the resource path starts with exactly one `/` -/
theorem expected_shape (segs' : List Bytes) (hsegs' : ∀ s ∈ segs', segText s = true) (root tail : Bytes)
    (hroot : segText root = true) (hp : pathText (cSlash :: (root ++ tail)) = true) :
    ∃ r', joinSegs segs' ++ cSlash :: (root ++ tail) = cSlash :: r' ∧ r'.head? ≠ some cSlash ∧
      pathText (cSlash :: r') = true := by
  have hr := segText_facts root hroot
  cases segs' with
  | nil =>
    refine ⟨root ++ tail, by simp [joinSegs], ?_, hp⟩
    obtain ⟨c, cs, rfl⟩ := List.exists_cons_of_ne_nil hr.1
    simp only [List.cons_append, List.head?_cons, ne_eq, Option.some.injEq]
    exact fun e => hr.2.2 (by simp [e])
  | cons s rest =>
    have hs := segText_facts s (hsegs' s (by simp))
    refine ⟨s ++ joinSegs rest ++ cSlash :: (root ++ tail), by simp [joinSegs_cons], ?_, ?_⟩
    · obtain ⟨c, cs, rfl⟩ := List.exists_cons_of_ne_nil hs.1
      simp only [List.cons_append, List.head?_cons, ne_eq, Option.some.injEq]
      exact fun e => hs.2.2 (by simp [e])
    · have := pathText_append _ _ (pathText_joinSegs (s :: rest) hsegs') hp
      simpa [joinSegs_cons] using this

theorem joinSegs_ne_slash (s : Bytes) (rest : List Bytes) (hs : s ≠ []) : joinSegs (s :: rest) ≠ [cSlash] := by
  rw [joinSegs_cons]
  obtain ⟨c, cs, rfl⟩ := List.exists_cons_of_ne_nil hs
  simp

theorem res_ok_inj {α} {a b : α} (h : Res.ok a = Res.ok b) : a = b := by injection h

theorem queryPath_eq (rp : Bytes) (q : Option Bytes) :
    queryPath rp q = rp ++ queryPart q := by
  cases q <;> simp [queryPath, queryPart]

/-- `formatQueryUrl` on inputs of the property's quantifier, for whatever the `strings.Index` block
leaves of the context (`ctx' = joinSegs segs'`), provided the joined path has no dot segment -/
theorem formatQueryUrl_ok (b : URL) (segs : List Bytes) (trail : Bool) (root rp : Bytes) (q : Option Bytes)
    (hsegs : ∀ s ∈ segs, segText s = true)
    (hb : escapedPath b = joinSegs segs ++ (if trail then [cSlash] else []))
    (hrp : resourcePathOk root rp = true) (hq : queryText (q.getD []) = true)
    (segs' : List Bytes) (hsegs' : ∀ s ∈ segs', segText s = true)
    (hstrip : stripRoot (joinSegs segs) root = .ok (joinSegs segs'))
    (hd : NoDotSegments (joinSegs segs' ++ rp)) :
    ∃ u, formatQueryUrl b root rp q = .ok u ∧ ParsedAs u b.scheme b.host (joinSegs segs' ++ rp) q := by
  obtain ⟨hroot, hp, tail, rfl, htail⟩ := rp_shape root rp hrp
  have hr := segText_facts root hroot
  -- the reference parsed from the resource path and query
  obtain ⟨r0, e0, h0, hp0⟩ := expected_shape [] (by simp) root tail hroot hp
  simp only [joinSegs, List.map_nil, List.flatten_nil, List.nil_append] at e0
  have er0 : r0 = root ++ tail := by injection e0 with _ h; exact h.symm
  subst er0
  obtain ⟨u0, hu0, hpa0⟩ := parse_rel (root ++ tail) q hp h0 hq
  unfold formatQueryUrl
  simp only [queryPath_eq, hu0, resolvedPath_ctx b segs trail hsegs hb]
  cases segs with
  | nil =>
    have hs' : joinSegs segs' = [] := by
      have : stripRoot (joinSegs []) root = .ok [] := by simp [joinSegs, stripRoot, indexOf]
      rw [this] at hstrip
      exact (res_ok_inj hstrip).symm
    rw [hs'] at hd ⊢
    simp only [if_true, beq_self_eq_true, List.nil_append] at hd ⊢
    exact ⟨_, rfl, resolveReference_abs b u0 _ q hpa0 hp hd⟩
  | cons s rest =>
    have hs := segText_facts s (hsegs s (by simp))
    have hne : (joinSegs (s :: rest) == [cSlash]) = false := by
      simpa using joinSegs_ne_slash s rest hs.1
    simp only [List.cons_ne_nil, if_false, hne, Bool.false_eq_true, hstrip]
    obtain ⟨r', e', h', hp'⟩ := expected_shape segs' hsegs' root tail hroot hp
    rw [requestURI_parsed u0 [] [] (root ++ tail) q hpa0]
    rw [e'] at hd
    obtain ⟨u1, hu1, hpa1⟩ := parse_rel r' q hp' h' hq
    have : joinSegs segs' ++ (cSlash :: (root ++ tail) ++ queryPart q) = cSlash :: r' ++ queryPart q := by
      rw [← List.append_assoc, e']
    simp only [urlParse, this, hu1, e']
    exact ⟨_, rfl, resolveReference_abs b u1 _ q hpa1 hp' hd⟩

/-! ### the base URL as parsed, and the re-parse in `http.NewRequestWithContext` -/

theorem lowerByte_eq (c : UInt8) : toLowerByte c = lowerByte c := rfl

theorem schemeText_lower (s : Bytes) (hs : schemeText s = true) :
    schemeText (s.map lowerByte) = true ∧ (s.map lowerByte).map toLowerByte = s.map lowerByte := by
  have f1 : ∀ c, alpha c = true → alpha (lowerByte c) = true := fun c h => by
    have := byte_forall (fun c => !(alpha c) || alpha (lowerByte c)) (by decide +kernel) c
    simpa [h] using this
  have f2 : ∀ c, schemeByte c = true → schemeByte (lowerByte c) = true := fun c h => by
    have := byte_forall (fun c => !(schemeByte c) || schemeByte (lowerByte c)) (by decide +kernel) c
    simpa [h] using this
  have f3 : ∀ c, toLowerByte (lowerByte c) = lowerByte c := fun c => by
    have := byte_forall (fun c => toLowerByte (lowerByte c) == lowerByte c) (by decide +kernel) c
    simpa using this
  constructor
  · cases s with
    | nil => simp [schemeText] at hs
    | cons c r =>
      simp only [schemeText, Bool.and_eq_true, List.all_eq_true, List.map_cons, List.mem_map] at hs ⊢
      refine ⟨f1 c hs.1, ?_⟩
      rintro x ⟨y, hy, rfl⟩
      exact f2 y (hs.2 y hy)
  · rw [List.map_map]
    apply List.map_congr_left
    intro c _
    exact f3 c

/-- what the proofs need of a base URL's scheme and host -/
inductive AuthGood : Bytes → Bytes → Prop where
  | none : AuthGood [] []
  | some (s h : Bytes) (hs : schemeText s = true) (hl : s.map toLowerByte = s) (hh : HostGood h) : AuthGood s h

theorem ctx_shape (segs : List Bytes) (trail : Bool) (hsegs : ∀ s ∈ segs, segText s = true) :
    pathText (joinSegs segs ++ (if trail then [cSlash] else [])) = true ∧
    ((segs = [] ∧ trail = false) ∨
      ∃ r, joinSegs segs ++ (if trail then [cSlash] else []) = cSlash :: r ∧ r.head? ≠ some cSlash) := by
  constructor
  · apply pathText_append _ _ (pathText_joinSegs segs hsegs)
    cases trail <;> decide
  · cases segs with
    | nil =>
      cases trail with
      | false => left; exact ⟨rfl, rfl⟩
      | true => right; exact ⟨[], by simp [joinSegs], by simp⟩
    | cons s rest =>
      right
      have hs := segText_facts s (hsegs s (by simp))
      obtain ⟨c, cs, rfl⟩ := List.exists_cons_of_ne_nil hs.1
      refine ⟨(c :: cs) ++ joinSegs rest ++ (if trail then [cSlash] else []), by simp [joinSegs_cons], ?_⟩
      simp only [List.cons_append, List.head?_cons, ne_eq, Option.some.injEq]
      exact fun e => hs.2.2 (by simp [e])

theorem base_parse (b : Base) (hwf : b.wf = true) :
    ∃ u, parse b.text = .ok u ∧ u.scheme = b.scheme ∧ u.host = b.host ∧ escapedPath u = b.ctx ∧
      AuthGood b.scheme b.host := by
  simp only [Base.wf, Bool.and_eq_true, List.all_eq_true] at hwf
  obtain ⟨hauth, hsegs⟩ := hwf
  obtain ⟨hpt, hshape⟩ := ctx_shape b.segs b.trailingSlash hsegs
  cases ha : b.authority with
  | none =>
    simp only [Base.text, Base.scheme, Base.host, ha, List.nil_append, Base.ctx]
    rcases hshape with ⟨h1, h2⟩ | ⟨r, hr, hh⟩
    · refine ⟨{}, ?_, rfl, rfl, ?_, AuthGood.none⟩
      · simp [h1, h2, joinSegs, parse_nil]
      · simp [h1, h2, joinSegs]; decide
    · rw [hr] at hpt ⊢
      obtain ⟨u, hu, hpa⟩ := parse_rel r none hpt hh (by decide)
      simp only [queryPart, List.append_nil] at hu
      exact ⟨u, hu, hpa.scheme, hpa.host, hpa.esc, AuthGood.none⟩
  | some a =>
    simp only [ha, Authority.wf, Bool.and_eq_true] at hauth
    have hg := hostGood_of_spec a hauth.2
    have hp0 : b.ctx = [] ∨ ∃ r, b.ctx = cSlash :: r := by
      simp only [Base.ctx]
      rcases hshape with ⟨h1, h2⟩ | ⟨r, hr, _⟩
      · left; simp [h1, h2, joinSegs]
      · right; exact ⟨r, hr⟩
    obtain ⟨u, hu, hpa⟩ := parse_abs a.scheme a.host b.ctx none hauth.1 hg hpt hp0 (by decide)
    obtain ⟨hl1, hl2⟩ := schemeText_lower a.scheme hauth.1
    refine ⟨u, ?_, by simp only [Base.scheme, ha]; exact hpa.scheme, by simp only [Base.host, ha]; exact hpa.host,
      hpa.esc, ?_⟩
    · simp only [Base.text, ha, Authority.text]
      simp only [queryPart, List.append_nil] at hu
      simpa using hu
    · simp only [Base.scheme, Base.host, ha]
      exact AuthGood.some _ _ hl1 hl2 hg

/-- `http.NewRequestWithContext` re-parses `u.String()`: nothing changes -/
theorem httpRequestUrl_ok (u : URL) (s h r : Bytes) (q : Option Bytes) (hu : ParsedAs u s h (cSlash :: r) q)
    (hauth : AuthGood s h) (hp : pathText (cSlash :: r) = true) (hr : r.head? ≠ some cSlash)
    (hq : queryText (q.getD []) = true) :
    ∃ u', httpRequestUrl (toString u) = .ok u' ∧ ParsedAs u' s h (cSlash :: r) q ∧
      toString u' = toString u := by
  cases hauth with
  | none =>
    rw [toString_rel u r q hu]
    obtain ⟨u1, hu1, hpa1⟩ := parse_rel r q hp hr hq
    have hpa1' : ParsedAs { u1 with host := removeEmptyPort u1.host } [] [] (cSlash :: r) q := by
      have hh : removeEmptyPort u1.host = [] := by rw [hpa1.host]; decide
      refine ⟨hpa1.scheme, hh, ?_, hpa1.noOmit, hpa1.fq, hpa1.rq, hpa1.pathNil⟩
      simpa [escapedPath] using hpa1.esc
    refine ⟨_, by simp only [httpRequestUrl, hu1], hpa1', ?_⟩
    rw [toString_rel _ r q hpa1']
  | some s h hs hl hh =>
    have hsne : s ≠ [] := by
      intro e; rw [e] at hs; simp [schemeText] at hs
    rw [toString_abs u s h r q hu hsne hh.ne hh.esc]
    obtain ⟨u1, hu1, hpa1⟩ := parse_abs s h (cSlash :: r) q hs hh hp (Or.inr ⟨r, rfl⟩) hq
    rw [hl] at hpa1
    have hpa1' : ParsedAs { u1 with host := removeEmptyPort u1.host } s h (cSlash :: r) q := by
      have hh' : removeEmptyPort u1.host = h := by rw [hpa1.host]; exact hh.port
      refine ⟨hpa1.scheme, hh', ?_, hpa1.noOmit, hpa1.fq, hpa1.rq, hpa1.pathNil⟩
      simpa [escapedPath] using hpa1.esc
    refine ⟨_, by simp only [httpRequestUrl, hu1], hpa1', ?_⟩
    rw [toString_abs _ s h r q hpa1' hsne hh.ne hh.esc]

theorem toString_parsed (u : URL) (s h r : Bytes) (q : Option Bytes) (hu : ParsedAs u s h (cSlash :: r) q)
    (hauth : AuthGood s h) :
    toString u = (if s = [] then [] else s ++ [cColon, cSlash, cSlash] ++ h) ++ cSlash :: r ++ queryPart q := by
  cases hauth with
  | none => rw [toString_rel u r q hu]; simp
  | some s h hs hl hh =>
    have hsne : s ≠ [] := by
      intro e; rw [e] at hs; simp [schemeText] at hs
    rw [toString_abs u s h r q hu hsne hh.ne hh.esc]
    simp [hsne]

theorem expectedText_eq (b : Base) (hwf : b.wf = true) (root rp : Bytes) (q : Option Bytes) :
    expectedText b root rp q =
      (if b.scheme = [] then [] else b.scheme ++ [cColon, cSlash, cSlash] ++ b.host)
        ++ expectedPath b.segs root rp ++ queryPart q := by
  obtain ⟨auth, segs, trail⟩ := b
  cases auth with
  | none => simp [expectedText, Base.scheme]
  | some a =>
    simp only [Base.wf, Authority.wf, Bool.and_eq_true] at hwf
    have : a.scheme.map lowerByte ≠ [] := by
      intro e
      have : a.scheme = [] := by simpa using e
      rw [this] at hwf; simp [schemeText] at hwf
    simp [expectedText, Base.scheme, Base.host, this]

/-- no byte access of `formatQueryUrl` is out of range -/
theorem indexOf_le (pat : Bytes) : (s : Bytes) → (i : Nat) → indexOf pat s = some i → i + pat.length ≤ s.length
  | [], i, h => by
    simp only [indexOf] at h
    split at h
    · next hp => simp at h; subst h; simp [List.isEmpty_iff.1 hp]
    · simp at h
  | c :: cs, i, h => by
    simp only [indexOf] at h
    split at h
    · next hp =>
      simp at h; subst h
      have := (List.isPrefixOf_iff_prefix.1 hp).length_le
      simpa using this
    · cases hi : indexOf pat cs with
      | none => simp [hi] at h
      | some j =>
        simp [hi] at h; subst h
        have := indexOf_le pat cs j hi
        simp; omega

theorem stripRoot_no_panic (resolved root : Bytes) : stripRoot resolved root ≠ .panic := by
  unfold stripRoot
  split
  · simp
  · next idx hidx =>
    have hle := indexOf_le _ _ _ hidx
    simp only [List.length_cons] at hle
    split
    · simp
    · next hne =>
      have hlt : idx + root.length + 1 < resolved.length := by
        have : resolved.length ≠ idx + root.length + 1 := by simpa using hne
        omega
      rw [List.getElem?_eq_getElem hlt]
      simp only []
      split <;> simp

theorem parseHost_no_panic (h : Bytes) : parseHost h ≠ .panic := by
  unfold parseHost
  repeat' split
  all_goals (try simp)
  all_goals (split <;> simp)

theorem parse_no_panic (raw : Bytes) : parse raw ≠ .panic := by
  unfold parse
  split; · simp
  split; · simp
  split; · simp
  split
  · simp
  · simp only []
    repeat' split
    all_goals first | (simp; done) | exact fun _ => parseHost_no_panic _ (by assumption)

theorem formatQueryUrl_no_panic (hostUrl : URL) (root rp : Bytes) (q : Option Bytes) :
    formatQueryUrl hostUrl root rp q ≠ .panic := by
  unfold formatQueryUrl
  split
  · simp only []
    split
    · simp
    · split
      · simp only [urlParse]
        split
        · simp
        · simp
        · simp
        · next h => exact absurd h (parse_no_panic _)
      · simp
      · simp
      · next h => exact absurd h (stripRoot_no_panic _ _)
  · simp
  · simp
  · next h => exact absurd h (parse_no_panic _)

/-- The whole pipeline (`url.Parse` of the base, `formatQueryUrl`, re-parse in `http.NewRequest`) for
whatever the `strings.Index` block leaves of the context (`segs'`). -/
theorem requestUrl_pipeline (b : Base) (root rp : Bytes) (q : Option Bytes)
    (hwf : b.wf = true) (hrp : resourcePathOk root rp = true) (hq : queryText (q.getD []) = true)
    (segs' : List Bytes) (hsegs' : ∀ s ∈ segs', segText s = true)
    (hstrip : stripRoot (joinSegs b.segs) root = .ok (joinSegs segs'))
    (hd : NoDotSegments (joinSegs segs' ++ rp)) :
    ∃ base u r', parse b.text = .ok base ∧ requestUrl base root rp q = .ok u ∧
      joinSegs segs' ++ rp = cSlash :: r' ∧ ParsedAs u b.scheme b.host (cSlash :: r') q ∧
      AuthGood b.scheme b.host := by
  obtain ⟨base, hparse, hsch, hhost, hesc, hauth⟩ := base_parse b hwf
  have hsegs : ∀ s ∈ b.segs, segText s = true := by
    simp only [Base.wf, Bool.and_eq_true, List.all_eq_true] at hwf; exact hwf.2
  obtain ⟨hroot, hp, tail, hrpe, _⟩ := rp_shape root rp hrp
  obtain ⟨u1, hu1, hpa1⟩ := formatQueryUrl_ok base b.segs b.trailingSlash root rp q hsegs hesc hrp hq segs' hsegs'
    hstrip hd
  rw [hrpe] at hp
  obtain ⟨r', he', hh', hp'⟩ := expected_shape segs' hsegs' root tail hroot hp
  rw [hsch, hhost] at hpa1
  have hexp : joinSegs segs' ++ rp = cSlash :: r' := by rw [← he', hrpe]
  have hpa1' : ParsedAs u1 b.scheme b.host (cSlash :: r') q := by rw [← hexp]; exact hpa1
  obtain ⟨u2, hu2, hpa2, _⟩ := httpRequestUrl_ok u1 _ _ r' q hpa1' hauth hp' hh' hq
  have hreq : requestUrl base root rp q = .ok u2 := by simp only [requestUrl, hu1, hu2]
  exact ⟨base, u2, r', hparse, hreq, hexp, hpa2, hauth⟩

/-- when guard 2 fails (inside the property's quantifier) the context is NOT cut -/
theorem stripRoot_guard2_fails (root : Bytes) (hroot : cSlash ∉ root) (segs : List Bytes)
    (hsegs : ∀ s ∈ segs, segText s = true) (hex : RootOnlyLast segs root)
    (hng : ¬ FirstRootIsLast segs root) :
    stripRoot (joinSegs segs) root = .ok (joinSegs segs) ∧ segs.getLast? = some root := by
  simp only [FirstRootIsLast, Classical.not_imp, Classical.not_forall] at hng
  obtain ⟨hlast, s, hs, hpre⟩ := hng
  have hpre' : root.isPrefixOf s = true := by
    cases h : root.isPrefixOf s with
    | true => rfl
    | false => exact absurd h hpre
  refine ⟨?_, hlast⟩
  rcases first_split (fun s => root.isPrefixOf s) segs with hnone | ⟨pre, sk, post, rfl, hpren, hsk⟩
  · have := hnone s (List.dropLast_subset _ hs)
    simp [hpre'] at this
  · rw [stripRoot_some root hroot pre sk post hsegs hpren hsk]
    cases post with
    | nil =>
      rw [List.dropLast_concat] at hs
      have := hpren s hs
      rw [hpre'] at this; exact absurd this (by simp)
    | cons p ps =>
      have hne : sk ≠ root := hex sk (mem_dropLast_mid pre sk p ps)
      simp [hne]

end Restli.HttpUrl
