import Restli.Model.Identifier
import Restli.Proofs.SortKeys
/-! Helper lemmas for `Props/C12.lean`: what `ExportedIdentifier` computes on legal names, in closed form. -/
namespace Restli.Ident
open Restli

/-- finite facts about single bytes: check all 256 values -/
theorem byte_forall (P : UInt8 → Bool) (h : ∀ i : Fin 256, P (UInt8.ofNat i.val) = true) (c : UInt8) :
    P c = true := by
  have := h ⟨c.toNat, c.toNat_lt⟩
  simpa using this

/-- a character Go allows inside an identifier (ASCII) -/
def wordChar (c : UInt8) : Bool := isLetter c || isDigit c || c == 95

/-- a non-empty word that starts with an upper-case letter and continues with identifier characters:
an exported Go identifier -/
def exportedWord : Bytes → Bool
  | [] => false
  | h :: t => isUpper h && t.all wordChar

/-- the facts about the regenerated literals the theorems rest on (checked by `decide` for both
module generations) -/
def Params.good (P : Params) : Bool :=
  exportedWord P.digitPrefix && exportedWord P.underscorePrefix && exportedWord P.dollarWord
    && wordChar P.dollarSep && P.underscoreChar == 95 && decide (P.dollarChar < 128)
    && !wordChar P.dollarChar && P.digitPrefix == P.underscorePrefix ++ [95]

/-- the input alphabet: `[A-Za-z0-9_$]` -/
def identChar (P : Params) (c : UInt8) : Bool :=
  isLetter c || isDigit c || c == P.underscoreChar || c == P.dollarChar

/-- a legal name: non-empty, over the alphabet (a superset of what Pegasus allows: Pegasus additionally
forbids a leading digit and `$`) -/
def Legal (P : Params) (s : Bytes) : Prop := s ≠ [] ∧ ∀ c ∈ s, identChar P c = true

/-- every `$` spelled out the way the loop does it -/
def expandTail (P : Params) : Bytes → Bytes
  | [] => []
  | c :: t => (if c = P.dollarChar then P.dollarSep :: P.dollarWord else [c]) ++ expandTail P t

def expand (P : Params) : Bytes → Bytes
  | [] => []
  | c :: t => (if c = P.dollarChar then P.dollarWord else [c]) ++ expandTail P t

/-- what is written for the first character of a `$`-free name -/
def headOf (P : Params) (c : UInt8) : Bytes :=
  if isLetter c then [toUpper c] else if isDigit c then P.digitPrefix ++ [c] else P.underscorePrefix ++ [c]

/-- the function on `$`-free names -/
def mangle0 (P : Params) : Bytes → Bytes
  | [] => []
  | c :: t => headOf P c ++ t

/-! ### single-byte facts -/

theorem letter_ascii (c : UInt8) (h : isLetter c = true) : ¬ (128 ≤ c) := by
  have := byte_forall (fun c => !(isLetter c) || !(decide (128 ≤ c))) (by decide +kernel) c
  simpa [h] using this

theorem digit_ascii (c : UInt8) (h : isDigit c = true) : ¬ (128 ≤ c) := by
  have := byte_forall (fun c => !(isDigit c) || !(decide (128 ≤ c))) (by decide +kernel) c
  simpa [h] using this

theorem digit_not_letter (c : UInt8) (h : isDigit c = true) : isLetter c = false := by
  have := byte_forall (fun c => !(isDigit c) || !(isLetter c)) (by decide +kernel) c
  simpa [h] using this

theorem upper_is_letter (c : UInt8) (h : isUpper c = true) : isLetter c = true := by
  simp [isLetter, h]

theorem toUpper_of_upper (c : UInt8) (h : isUpper c = true) : toUpper c = c := by
  have := byte_forall (fun c => !(isUpper c) || toUpper c == c) (by decide +kernel) c
  simpa [h] using this

theorem toUpper_isUpper (c : UInt8) (h : isLetter c = true) : isUpper (toUpper c) = true := by
  have := byte_forall (fun c => !(isLetter c) || isUpper (toUpper c)) (by decide +kernel) c
  simpa [h] using this

theorem wordChar_ascii (c : UInt8) (h : wordChar c = true) : ¬ (128 ≤ c) := by
  have := byte_forall (fun c => !(wordChar c) || !(decide (128 ≤ c))) (by decide +kernel) c
  simpa [h] using this

theorem letter_wordChar (c : UInt8) (h : isLetter c = true) : wordChar c = true := by simp [wordChar, h]
theorem digit_wordChar (c : UInt8) (h : isDigit c = true) : wordChar c = true := by simp [wordChar, h]

theorem underscore_facts : isLetter 95 = false ∧ isDigit 95 = false ∧ wordChar 95 = true := by decide

/-- a word character is exactly one of: letter, digit, underscore -/
theorem wordChar_cases (c : UInt8) (h : wordChar c = true) :
    (isLetter c = true ∧ isDigit c = false) ∨ (isLetter c = false ∧ isDigit c = true)
      ∨ (isLetter c = false ∧ isDigit c = false ∧ c = 95) := by
  have := byte_forall (fun c => !(wordChar c) || ((isLetter c && !isDigit c) || (!isLetter c && isDigit c)
      || (!isLetter c && !isDigit c && c == 95))) (by decide +kernel) c
  simp only [h, Bool.not_true, Bool.false_or, Bool.or_eq_true, Bool.and_eq_true, Bool.not_eq_eq_eq_not,
    beq_iff_eq] at this
  rcases this with (h1 | h1) | h1
  · exact Or.inl ⟨h1.1, by simpa using h1.2⟩
  · exact Or.inr (Or.inl ⟨by simpa using h1.1, h1.2⟩)
  · exact Or.inr (Or.inr ⟨by simpa using h1.1.1, by simpa using h1.1.2, h1.2⟩)

/-! ### the facts packed in `Params.good` -/

structure Good (P : Params) : Prop where
  dp : exportedWord P.digitPrefix = true
  up : exportedWord P.underscorePrefix = true
  dw : exportedWord P.dollarWord = true
  sep : wordChar P.dollarSep = true
  uc : P.underscoreChar = 95
  dcAscii : ¬ (128 ≤ P.dollarChar)
  dcNotWord : wordChar P.dollarChar = false
  dpUp : P.digitPrefix = P.underscorePrefix ++ [95]

theorem good_of (P : Params) (h : P.good = true) : Good P := by
  simp only [Params.good, Bool.and_eq_true, beq_iff_eq, decide_eq_true_eq, Bool.not_eq_eq_eq_not,
    Bool.not_true] at h
  obtain ⟨⟨⟨⟨⟨⟨⟨h1, h2⟩, h3⟩, h4⟩, h5⟩, h6⟩, h7⟩, h8⟩ := h
  exact ⟨h1, h2, h3, h4, h5, by
    intro hh
    have : P.dollarChar < 128 := h6
    exact absurd (UInt8.lt_of_lt_of_le this hh) (UInt8.lt_irrefl _), h7, h8⟩

theorem paramsV2_good : Good paramsV2 := good_of _ (by decide)
theorem paramsRoot_good : Good paramsRoot := good_of _ (by decide)

theorem dollar_not (P : Params) (g : Good P) :
    isLetter P.dollarChar = false ∧ isDigit P.dollarChar = false ∧ P.dollarChar ≠ P.underscoreChar := by
  have h := g.dcNotWord
  simp only [wordChar, Bool.or_eq_false_iff, beq_eq_false_iff_ne] at h
  exact ⟨h.1.1, h.1.2, by rw [g.uc]; exact h.2⟩

theorem exportedWord_append (w r : Bytes) (hw : exportedWord w = true) (hr : r.all wordChar = true) :
    exportedWord (w ++ r) = true := by
  cases w with
  | nil => simp [exportedWord] at hw
  | cons h t =>
    simp only [exportedWord, Bool.and_eq_true, List.cons_append, List.all_append] at hw ⊢
    exact ⟨hw.1, hw.2, hr⟩

theorem exportedWord_tail_all (w : Bytes) (hw : exportedWord w = true) : w.all wordChar = true := by
  cases w with
  | nil => simp [exportedWord] at hw
  | cons h t =>
    simp only [exportedWord, Bool.and_eq_true] at hw
    simp only [List.all_cons, Bool.and_eq_true]
    exact ⟨letter_wordChar h (upper_is_letter h hw.1), hw.2⟩

/-! ### the loop on legal input -/

theorem step_tail_plain (P : Params) (g : Good P) (c : UInt8) (hc : identChar P c = true)
    (hd : c ≠ P.dollarChar) : step P false c = .emit [c] := by
  simp only [identChar, Bool.or_eq_true, beq_iff_eq] at hc
  rcases hc with ((hl | hdg) | hu) | hdol
  · simp [step, letter_ascii c hl, hl]
  · simp [step, digit_ascii c hdg, digit_not_letter c hdg, hdg]
  · have hu' : c = 95 := by rw [hu, g.uc]
    subst hu'
    have := underscore_facts
    simp [step, this.1, this.2.1, g.uc]
  · exact absurd hdol hd

theorem step_tail_dollar (P : Params) (g : Good P) :
    step P false P.dollarChar = .emit (P.dollarSep :: P.dollarWord) := by
  have h := dollar_not P g
  simp [step, g.dcAscii, h.1, h.2.1, h.2.2]

theorem go_tail (P : Params) (g : Good P) : ∀ (cs acc : Bytes), (∀ c ∈ cs, identChar P c = true) →
    go P false cs acc = .ok (acc ++ expandTail P cs)
  | [], acc, _ => by simp [go, expandTail]
  | c :: cs, acc, h => by
    have hc := h c (by simp)
    have hcs : ∀ x ∈ cs, identChar P x = true := fun x hx => h x (by simp [hx])
    by_cases hd : c = P.dollarChar
    · subst hd
      rw [go, step_tail_dollar P g]
      simp only
      rw [go_tail P g cs _ hcs]
      simp [expandTail]
    · rw [go, step_tail_plain P g c hc hd]
      simp only
      rw [go_tail P g cs _ hcs]
      simp [expandTail, hd]

theorem step_first_plain (P : Params) (g : Good P) (c : UInt8) (hc : identChar P c = true)
    (hd : c ≠ P.dollarChar) : step P true c = .emit (headOf P c) := by
  simp only [identChar, Bool.or_eq_true, beq_iff_eq] at hc
  rcases hc with ((hl | hdg) | hu) | hdol
  · simp [step, headOf, letter_ascii c hl, hl]
  · simp [step, headOf, digit_ascii c hdg, digit_not_letter c hdg, hdg]
  · have hu' : c = 95 := by rw [hu, g.uc]
    subst hu'
    have := underscore_facts
    simp [step, headOf, this.1, this.2.1, g.uc]
  · exact absurd hdol hd

theorem step_first_dollar (P : Params) (g : Good P) : step P true P.dollarChar = .emit P.dollarWord := by
  have h := dollar_not P g
  simp [step, g.dcAscii, h.1, h.2.1, h.2.2]

/-- closed form on legal names: spell out every `$`, then apply the first-character rule -/
theorem exported_eq (P : Params) (g : Good P) (s : Bytes) (hs : Legal P s) :
    exportedIdentifier P s = .ok (mangle0 P (expand P s)) := by
  obtain ⟨hne, hall⟩ := hs
  cases s with
  | nil => exact absurd rfl hne
  | cons c t =>
    have hc := hall c (by simp)
    have ht : ∀ x ∈ t, identChar P x = true := fun x hx => hall x (by simp [hx])
    unfold exportedIdentifier
    by_cases hd : c = P.dollarChar
    · subst hd
      rw [go, step_first_dollar P g]
      simp only
      rw [go_tail P g t _ ht]
      have hdw := g.dw
      cases hw : P.dollarWord with
      | nil => rw [hw] at hdw; simp [exportedWord] at hdw
      | cons D w =>
        rw [hw] at hdw
        simp only [exportedWord, Bool.and_eq_true] at hdw
        simp [expand, mangle0, headOf, hw, upper_is_letter D hdw.1, toUpper_of_upper D hdw.1]
    · rw [go, step_first_plain P g c hc hd]
      simp only
      rw [go_tail P g t _ ht]
      simp [expand, mangle0, hd]

theorem expandTail_all (P : Params) (g : Good P) : ∀ (t : Bytes), (∀ c ∈ t, identChar P c = true) →
    (expandTail P t).all wordChar = true
  | [], _ => by simp [expandTail]
  | c :: t, h => by
    have hc := h c (by simp)
    have ht := expandTail_all P g t (fun x hx => h x (by simp [hx]))
    by_cases hd : c = P.dollarChar
    · simp only [expandTail, hd, ↓reduceIte, List.cons_append, List.all_cons, List.all_append, Bool.and_eq_true]
      exact ⟨g.sep, exportedWord_tail_all _ g.dw, ht⟩
    · simp only [expandTail, hd, ↓reduceIte, List.cons_append, List.nil_append, List.all_cons, Bool.and_eq_true]
      refine ⟨?_, ht⟩
      simp only [identChar, Bool.or_eq_true, beq_iff_eq] at hc
      rcases hc with ((hl | hdg) | hu) | hdol
      · exact letter_wordChar c hl
      · exact digit_wordChar c hdg
      · rw [hu, g.uc]; decide
      · exact absurd hdol hd

/-- the spelled-out name is non-empty and `$`-free -/
theorem expand_word (P : Params) (g : Good P) (s : Bytes) (hs : Legal P s) :
    expand P s ≠ [] ∧ (expand P s).all wordChar = true := by
  obtain ⟨hne, hall⟩ := hs
  cases s with
  | nil => exact absurd rfl hne
  | cons c t =>
    have hc := hall c (by simp)
    have ht := expandTail_all P g t (fun x hx => hall x (by simp [hx]))
    by_cases hd : c = P.dollarChar
    · have hdw := g.dw
      cases hw : P.dollarWord with
      | nil => rw [hw] at hdw; simp [exportedWord] at hdw
      | cons D w =>
        have hall' := exportedWord_tail_all _ g.dw
        rw [hw] at hall'
        simp only [expand, hd, ↓reduceIte, hw, List.cons_append, ne_eq, reduceCtorEq, not_false_eq_true,
          List.all_cons, List.all_append, Bool.and_eq_true, true_and]
        simp only [List.all_cons, Bool.and_eq_true] at hall'
        exact ⟨hall'.1, hall'.2, ht⟩
    · simp only [expand, hd, ↓reduceIte, List.cons_append, List.nil_append, ne_eq, reduceCtorEq,
        not_false_eq_true, List.all_cons, Bool.and_eq_true, true_and]
      refine ⟨?_, ht⟩
      simp only [identChar, Bool.or_eq_true, beq_iff_eq] at hc
      rcases hc with ((hl | hdg) | hu) | hdol
      · exact letter_wordChar c hl
      · exact digit_wordChar c hdg
      · rw [hu, g.uc]; decide
      · exact absurd hdol hd

theorem expandTail_id (P : Params) : ∀ (t : Bytes), (∀ c ∈ t, c ≠ P.dollarChar) → expandTail P t = t
  | [], _ => rfl
  | c :: t, h => by
    have hc := h c (by simp)
    simp [expandTail, hc, expandTail_id P t (fun x hx => h x (by simp [hx]))]

/-- a name without `$` is its own spelling -/
theorem expand_id (P : Params) (s : Bytes) (h : ∀ c ∈ s, c ≠ P.dollarChar) : expand P s = s := by
  cases s with
  | nil => rfl
  | cons c t =>
    have hc := h c (by simp)
    simp [expand, hc, expandTail_id P t (fun x hx => h x (by simp [hx]))]

/-- the mangled form of a non-empty `$`-free word is an exported Go identifier -/
theorem mangle0_exported (P : Params) (g : Good P) (x : Bytes) (hne : x ≠ []) (hall : x.all wordChar = true) :
    exportedWord (mangle0 P x) = true := by
  cases x with
  | nil => exact absurd rfl hne
  | cons a t =>
    simp only [List.all_cons, Bool.and_eq_true] at hall
    rcases wordChar_cases a hall.1 with h | h | h
    · simp only [mangle0, headOf, h.1, ↓reduceIte, List.cons_append, List.nil_append, exportedWord,
        Bool.and_eq_true]
      exact ⟨toUpper_isUpper a h.1, hall.2⟩
    · simp only [mangle0, headOf, h.1, h.2, ↓reduceIte, Bool.false_eq_true, List.append_assoc]
      apply exportedWord_append _ _ g.dp
      simp only [List.cons_append, List.nil_append, List.all_cons, Bool.and_eq_true]
      exact ⟨hall.1, hall.2⟩
    · simp only [mangle0, headOf, h.1, h.2.1, ↓reduceIte, Bool.false_eq_true, List.append_assoc]
      apply exportedWord_append _ _ g.up
      simp only [List.cons_append, List.nil_append, List.all_cons, Bool.and_eq_true]
      exact ⟨hall.1, hall.2⟩

/-! ### when two `$`-free words are mangled alike -/

/-- the (directed) collision classes of `$`-free words -/
def Cls (P : Params) (x y : Bytes) : Prop :=
  (∃ a b t, x = a :: t ∧ y = b :: t ∧ isLetter a = true ∧ isLetter b = true ∧ toUpper a = toUpper b)
  ∨ (∃ d t, isDigit d = true ∧ x = d :: t ∧ y = 95 :: d :: t)
  ∨ (∃ a t d t', isLetter a = true ∧ isDigit d = true ∧ x = a :: t ∧ y = d :: t' ∧
      toUpper a :: t = P.digitPrefix ++ y)
  ∨ (∃ a t t', isLetter a = true ∧ x = a :: t ∧ y = 95 :: t' ∧ toUpper a :: t = P.underscorePrefix ++ y)

theorem cls_sound (P : Params) (g : Good P) (x y : Bytes) (h : Cls P x y) : mangle0 P x = mangle0 P y := by
  have hu := underscore_facts
  rcases h with ⟨a, b, t, rfl, rfl, ha, hb, hab⟩ | ⟨d, t, hd, rfl, rfl⟩ | ⟨a, t, d, t', ha, hd, rfl, rfl, he⟩
    | ⟨a, t, t', ha, rfl, rfl, he⟩
  · simp [mangle0, headOf, ha, hb, hab]
  · simp [mangle0, headOf, hd, digit_not_letter d hd, hu.1, hu.2.1, g.dpUp]
  · simp only [mangle0, headOf, ha, ↓reduceIte, digit_not_letter d hd, hd, Bool.false_eq_true,
      List.cons_append, List.nil_append, List.append_assoc]
    exact he
  · simp only [mangle0, headOf, ha, ↓reduceIte, hu.1, hu.2.1, Bool.false_eq_true, List.cons_append,
      List.nil_append, List.append_assoc]
    exact he

theorem cls_complete (P : Params) (g : Good P) (x y : Bytes) (hx : x ≠ []) (hy : y ≠ [])
    (hxa : x.all wordChar = true) (hya : y.all wordChar = true) (h : mangle0 P x = mangle0 P y) :
    x = y ∨ Cls P x y ∨ Cls P y x := by
  have hu := underscore_facts
  cases x with
  | nil => exact absurd rfl hx
  | cons a tx =>
  cases y with
  | nil => exact absurd rfl hy
  | cons b ty =>
    simp only [List.all_cons, Bool.and_eq_true] at hxa hya
    rcases wordChar_cases a hxa.1 with ka | ka | ka <;> rcases wordChar_cases b hya.1 with kb | kb | kb
    · -- letter / letter
      simp only [mangle0, headOf, ka.1, kb.1, ↓reduceIte, List.cons_append, List.nil_append,
        List.cons.injEq] at h
      obtain ⟨h1, rfl⟩ := h
      exact Or.inr (Or.inl (Or.inl ⟨a, b, tx, rfl, rfl, ka.1, kb.1, h1⟩))
    · -- letter / digit
      simp only [mangle0, headOf, ka.1, kb.1, kb.2, ↓reduceIte, Bool.false_eq_true, List.cons_append,
        List.nil_append, List.append_assoc] at h
      exact Or.inr (Or.inl (Or.inr (Or.inr (Or.inl ⟨a, tx, b, ty, ka.1, kb.2, rfl, rfl, h⟩))))
    · -- letter / underscore
      obtain ⟨kb1, kb2, rfl⟩ := kb
      simp only [mangle0, headOf, ka.1, hu.1, hu.2.1, ↓reduceIte, Bool.false_eq_true, List.cons_append,
        List.nil_append, List.append_assoc] at h
      exact Or.inr (Or.inl (Or.inr (Or.inr (Or.inr ⟨a, tx, ty, ka.1, rfl, rfl, h⟩))))
    · -- digit / letter
      simp only [mangle0, headOf, ka.1, ka.2, kb.1, ↓reduceIte, Bool.false_eq_true, List.cons_append,
        List.nil_append, List.append_assoc] at h
      exact Or.inr (Or.inr (Or.inr (Or.inr (Or.inl ⟨b, ty, a, tx, kb.1, ka.2, rfl, rfl, h.symm⟩))))
    · -- digit / digit
      simp only [mangle0, headOf, ka.1, ka.2, kb.1, kb.2, ↓reduceIte, Bool.false_eq_true,
        List.append_assoc, List.append_cancel_left_eq] at h
      exact Or.inl (by simpa using h)
    · -- digit / underscore
      obtain ⟨kb1, kb2, rfl⟩ := kb
      simp only [mangle0, headOf, ka.1, ka.2, hu.1, hu.2.1, ↓reduceIte, Bool.false_eq_true, g.dpUp,
        List.append_assoc, List.append_cancel_left_eq, List.cons_append, List.nil_append,
        List.cons.injEq, true_and] at h
      subst h
      exact Or.inr (Or.inl (Or.inr (Or.inl ⟨a, tx, ka.2, rfl, rfl⟩)))
    · -- underscore / letter
      obtain ⟨ka1, ka2, rfl⟩ := ka
      simp only [mangle0, headOf, kb.1, hu.1, hu.2.1, ↓reduceIte, Bool.false_eq_true, List.cons_append,
        List.nil_append, List.append_assoc] at h
      exact Or.inr (Or.inr (Or.inr (Or.inr (Or.inr ⟨b, ty, tx, kb.1, rfl, rfl, h.symm⟩))))
    · -- underscore / digit
      obtain ⟨ka1, ka2, rfl⟩ := ka
      simp only [mangle0, headOf, kb.1, kb.2, hu.1, hu.2.1, ↓reduceIte, Bool.false_eq_true, g.dpUp,
        List.append_assoc, List.append_cancel_left_eq, List.cons_append, List.nil_append,
        List.cons.injEq, true_and] at h
      subst h
      exact Or.inr (Or.inr (Or.inr (Or.inl ⟨b, ty, kb.2, rfl, rfl⟩)))
    · -- underscore / underscore
      obtain ⟨ka1, ka2, rfl⟩ := ka
      obtain ⟨kb1, kb2, rfl⟩ := kb
      simp only [mangle0, headOf, hu.1, hu.2.1, ↓reduceIte, Bool.false_eq_true, List.append_assoc,
        List.append_cancel_left_eq] at h
      exact Or.inl (by simpa using h)

end Restli.Ident
