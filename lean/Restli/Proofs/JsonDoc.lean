import Restli.Proofs.JsonString
import Restli.Proofs.RoundTripJson
import Restli.Proofs.Digits
/-! The compact JSON writer against the strict parser, for whole documents: the text
`renderJson d` parses to exactly the tree `treeOf jsonEnc d` the tree-level round trip is about. -/
namespace Restli.Codec
open Json (JVal parseValue parseMembers parseElements parseNumber parseStrBody)

/-- what may follow a value inside a document (or nothing, at the top) -/
def delimStart : Bytes → Bool
  | [] => true
  | c :: _ => c == 44 || c == 125 || c == 93

theorem delimStart_cons (c : UInt8) (r : Bytes) (h : delimStart (c :: r) = true) : c = 44 ∨ c = 125 ∨ c = 93 := by
  simp only [delimStart, Bool.or_eq_true, beq_iff_eq] at h
  rcases h with (h | h) | h
  · exact Or.inl h
  · exact Or.inr (Or.inl h)
  · exact Or.inr (Or.inr h)

/-! ### integers -/

theorem digit_ofNat_ne_zero (n : Nat) (h1 : 0 < n) (h2 : n < 10) : UInt8.ofNat (48 + n) ≠ 48 := by
  intro h
  have := congrArg UInt8.toNat h
  simp at this
  omega

theorem digitsOfNat_head_nonzero : ∀ n : Nat, 0 < n → ∃ c cs, Strconv.digitsOfNat n = c :: cs ∧ c ≠ 48 := by
  intro n
  induction n using Nat.strongRecOn with
  | _ n ih =>
    intro hn
    rw [Strconv.digitsOfNat]
    split
    · next h => exact ⟨_, [], rfl, digit_ofNat_ne_zero n hn h⟩
    · next h =>
      obtain ⟨c, cs, hc, hne⟩ := ih (n / 10) (by omega) (by omega)
      exact ⟨c, cs ++ [UInt8.ofNat (48 + n % 10)], by rw [hc]; rfl, hne⟩

theorem takeDigits_append : ∀ (ds rest : Bytes), (∀ c ∈ ds, Json.isDigit c = true) →
    (∀ c r, rest = c :: r → Json.isDigit c = false) → Json.takeDigits (ds ++ rest) = (ds, rest)
  | [], rest, _, hr => by
    cases rest with
    | nil => simp [Json.takeDigits]
    | cons c r => simp [Json.takeDigits, hr c r rfl]
  | d :: ds, rest, hd, hr => by
    have := takeDigits_append ds rest (fun c hc => hd c (by simp [hc])) hr
    simp [Json.takeDigits, hd d (by simp), this]

theorem isDigit_same (c : UInt8) : Json.isDigit c = Strconv.isDigit c := rfl

/-- a non-digit, non-'.', non-exponent byte (or nothing) follows the number -/
def numEnd : Bytes → Bool
  | [] => true
  | c :: _ => !Json.isDigit c && c != 46 && c != 101 && c != 69

theorem numEnd_of_delim (rest : Bytes) (h : delimStart rest = true) : numEnd rest = true := by
  cases rest with
  | nil => rfl
  | cons c r =>
    rcases delimStart_cons c r h with rfl | rfl | rfl <;> rfl

theorem parseNumber_digits (sign ds rest : Bytes) (hs : sign = [] ∨ sign = [45])
    (hds : ∀ c ∈ ds, Json.isDigit c = true) (hne : ds ≠ [])
    (hz : ∀ c cs, ds = c :: cs → c = 48 → cs = []) (hr : numEnd rest = true) :
    parseNumber (sign ++ ds ++ rest) = some (sign ++ ds, rest) := by
  have hrd : ∀ c r, rest = c :: r → Json.isDigit c = false := by
    intro c r h; subst h
    simp only [numEnd, Bool.and_eq_true, Bool.not_eq_eq_eq_not, Bool.not_true, bne_iff_ne] at hr
    exact hr.1.1.1
  cases ds with
  | nil => exact absurd rfl hne
  | cons d dr =>
    have hdd : Json.isDigit d = true := hds d (by simp)
    have hd45 : d ≠ 45 := by
      intro h; subst h; simp [Json.isDigit] at hdd
    have e45 : (d == 45) = false := by simpa using hd45
    have htd := takeDigits_append (d :: dr) rest hds hrd
    simp only [List.cons_append] at htd
    -- the sign is split off and the first digit found
    have hsplit : parseNumber (sign ++ (d :: dr) ++ rest) =
        (let (ip, s2) : Bytes × Bytes := if d == 48 then ([48], dr ++ rest) else Json.takeDigits (d :: (dr ++ rest))
         let frac : Option (Bytes × Bytes) := match s2 with
           | 46 :: r2 => let (fd, r3) := Json.takeDigits r2; if fd.isEmpty then none else some (46 :: fd, r3)
           | r2 => some ([], r2)
         match frac with
         | none => none
         | some (fp, s3) =>
           let exp : Option (Bytes × Bytes) := match s3 with
             | e :: r3 =>
               if e == 101 || e == 69 then
                 let (sg, r4) : Bytes × Bytes := match r3 with
                   | 43 :: t => ([43], t)
                   | 45 :: t => ([45], t)
                   | t => ([], t)
                 let (ed, r5) := Json.takeDigits r4
                 if ed.isEmpty then none else some (e :: sg ++ ed, r5)
               else some ([], e :: r3)
             | [] => some ([], [])
           match exp with
           | none => none
           | some (ep, s4) => some (sign ++ ip ++ fp ++ ep, s4)) := by
      rcases hs with rfl | rfl
      · simp only [List.nil_append, List.cons_append, parseNumber]
        have : (match d :: (dr ++ rest) with | 45 :: r => (([45] : Bytes), r) | r => ([], r)) = ([], d :: (dr ++ rest)) := by
          split
          · next r heq => simp only [List.cons.injEq] at heq; exact absurd heq.1 hd45
          · rfl
        simp only [this, hdd, Bool.not_true, Bool.false_eq_true, ↓reduceIte, List.nil_append]
      · simp only [List.cons_append, List.nil_append, parseNumber, hdd, Bool.not_true, Bool.false_eq_true, ↓reduceIte]
    rw [hsplit]
    have hip : (if d == 48 then (([48] : Bytes), dr ++ rest) else Json.takeDigits (d :: (dr ++ rest))) = (d :: dr, rest) := by
      by_cases h48 : d = 48
      · have hdr : dr = [] := hz d dr rfl h48
        subst hdr; subst h48; simp
      · have e48 : (d == 48) = false := by simpa using h48
        simp only [e48, Bool.false_eq_true, ↓reduceIte, htd]
    simp only [hip]
    cases rest with
    | nil => simp
    | cons c r =>
      simp only [numEnd, Bool.and_eq_true, Bool.not_eq_eq_eq_not, Bool.not_true, bne_iff_ne] at hr
      obtain ⟨⟨⟨_, h46⟩, h101⟩, h69⟩ := hr
      have e101 : (c == 101) = false := by simpa using h101
      have e69 : (c == 69) = false := by simpa using h69
      have hfrac : (match c :: r with
           | 46 :: r2 => let (fd, r3) := Json.takeDigits r2; if fd.isEmpty then none else some (46 :: fd, r3)
           | r2 => some (([] : Bytes), r2)) = some ([], c :: r) := by
        split
        · next r2 heq => simp only [List.cons.injEq] at heq; exact absurd heq.1 h46
        · rfl
      simp only [hfrac, e101, e69, Bool.or_self, Bool.false_eq_true, ↓reduceIte, List.append_nil]

theorem parseNumber_formatInt (v : Int) (rest : Bytes) (hr : numEnd rest = true) :
    parseNumber (Strconv.formatInt v ++ rest) = some (Strconv.formatInt v, rest) := by
  have hds : ∀ c ∈ Strconv.digitsOfNat v.natAbs, Json.isDigit c = true :=
    fun c hc => Strconv.digitsOfNat_all_digits _ c hc
  have hne := Strconv.digitsOfNat_ne_nil v.natAbs
  have hz : ∀ c cs, Strconv.digitsOfNat v.natAbs = c :: cs → c = 48 → cs = [] := by
    intro c cs h h48
    by_cases h0 : v.natAbs = 0
    · rw [h0, Strconv.digitsOfNat] at h
      simp at h
      exact h.2
    · obtain ⟨c', cs', hc', hne'⟩ := digitsOfNat_head_nonzero v.natAbs (by omega)
      rw [hc'] at h
      simp only [List.cons.injEq] at h
      exact absurd (h.1 ▸ h48) hne'
  unfold Strconv.formatInt
  split
  · have := parseNumber_digits [45] _ rest (Or.inr rfl) hds hne hz hr
    simpa using this
  · have := parseNumber_digits [] _ rest (Or.inl rfl) hds hne hz hr
    simpa using this

end Restli.Codec
