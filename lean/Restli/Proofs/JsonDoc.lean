import Restli.Proofs.JsonString
import Restli.Proofs.RoundTripJson
import Restli.Proofs.Digits
/-! The compact JSON writer against the strict parser, for whole documents: the text
`renderJson d` parses to exactly the tree `treeOf jsonEnc d` the tree-level round trip is about. -/
namespace Restli.Codec
open Json (JVal parseValue parseMembers parseElements parseNumber parseStrBody)

/-- what may follow a value inside a document (or nothing, at the top) -/
def delimStart : Bytes → Bool
  | [] => true
  | c :: _ => c == 44 || c == 125 || c == 93

theorem delimStart_cons (c : UInt8) (r : Bytes) (h : delimStart (c :: r) = true) : c = 44 ∨ c = 125 ∨ c = 93 := by
  simp only [delimStart, Bool.or_eq_true, beq_iff_eq] at h
  rcases h with (h | h) | h
  · exact Or.inl h
  · exact Or.inr (Or.inl h)
  · exact Or.inr (Or.inr h)

/-! ### integers -/

theorem digit_ofNat_ne_zero (n : Nat) (h1 : 0 < n) (h2 : n < 10) : UInt8.ofNat (48 + n) ≠ 48 := by
  intro h
  have := congrArg UInt8.toNat h
  simp at this
  omega

theorem digitsOfNat_head_nonzero : ∀ n : Nat, 0 < n → ∃ c cs, Strconv.digitsOfNat n = c :: cs ∧ c ≠ 48 := by
  intro n
  induction n using Nat.strongRecOn with
  | _ n ih =>
    intro hn
    rw [Strconv.digitsOfNat]
    split
    · next h => exact ⟨_, [], rfl, digit_ofNat_ne_zero n hn h⟩
    · next h =>
      obtain ⟨c, cs, hc, hne⟩ := ih (n / 10) (by omega) (by omega)
      exact ⟨c, cs ++ [UInt8.ofNat (48 + n % 10)], by rw [hc]; rfl, hne⟩

theorem takeDigits_append : ∀ (ds rest : Bytes), (∀ c ∈ ds, Json.isDigit c = true) →
    (∀ c r, rest = c :: r → Json.isDigit c = false) → Json.takeDigits (ds ++ rest) = (ds, rest)
  | [], rest, _, hr => by
    cases rest with
    | nil => simp [Json.takeDigits]
    | cons c r => simp [Json.takeDigits, hr c r rfl]
  | d :: ds, rest, hd, hr => by
    have := takeDigits_append ds rest (fun c hc => hd c (by simp [hc])) hr
    simp [Json.takeDigits, hd d (by simp), this]

theorem isDigit_same (c : UInt8) : Json.isDigit c = Strconv.isDigit c := rfl

/-- a non-digit, non-'.', non-exponent byte (or nothing) follows the number -/
def numEnd : Bytes → Bool
  | [] => true
  | c :: _ => !Json.isDigit c && c != 46 && c != 101 && c != 69

theorem numEnd_of_delim (rest : Bytes) (h : delimStart rest = true) : numEnd rest = true := by
  cases rest with
  | nil => rfl
  | cons c r =>
    rcases delimStart_cons c r h with rfl | rfl | rfl <;> rfl

theorem numFrac_end (rest : Bytes) (hr : numEnd rest = true) : Json.numFrac rest = some ([], rest) := by
  cases rest with
  | nil => rfl
  | cons c r =>
    simp only [numEnd, Bool.and_eq_true, Bool.not_eq_eq_eq_not, Bool.not_true, bne_iff_ne] at hr
    unfold Json.numFrac
    split
    · next r2 heq => simp only [List.cons.injEq] at heq; exact absurd heq.1 hr.1.1.2
    · rfl

theorem numExp_end (rest : Bytes) (hr : numEnd rest = true) : Json.numExp rest = some ([], rest) := by
  cases rest with
  | nil => rfl
  | cons c r =>
    simp only [numEnd, Bool.and_eq_true, Bool.not_eq_eq_eq_not, Bool.not_true, bne_iff_ne] at hr
    have e101 : (c == 101) = false := by simpa using hr.1.2
    have e69 : (c == 69) = false := by simpa using hr.2
    simp [Json.numExp, e101, e69]

theorem parseNumber_digits (sign ds rest : Bytes) (hs : sign = [] ∨ sign = [45])
    (hds : ∀ c ∈ ds, Json.isDigit c = true) (hne : ds ≠ [])
    (hz : ∀ c cs, ds = c :: cs → c = 48 → cs = []) (hr : numEnd rest = true) :
    parseNumber (sign ++ ds ++ rest) = some (sign ++ ds, rest) := by
  have hrd : ∀ c r, rest = c :: r → Json.isDigit c = false := by
    intro c r h; subst h
    simp only [numEnd, Bool.and_eq_true, Bool.not_eq_eq_eq_not, Bool.not_true, bne_iff_ne] at hr
    exact hr.1.1.1
  cases ds with
  | nil => exact absurd rfl hne
  | cons d dr =>
    have hdd : Json.isDigit d = true := hds d (by simp)
    have hd45 : d ≠ 45 := by
      intro h; subst h; simp [Json.isDigit] at hdd
    have htd := takeDigits_append (d :: dr) rest hds hrd
    simp only [List.cons_append] at htd
    have hsign : Json.numSign (sign ++ (d :: dr) ++ rest) = (sign, d :: (dr ++ rest)) := by
      rcases hs with rfl | rfl
      · simp only [List.nil_append, List.cons_append, Json.numSign]
        split
        · next r heq => simp only [List.cons.injEq] at heq; exact absurd heq.1 hd45
        · rfl
      · rfl
    have hint : Json.numInt (d :: (dr ++ rest)) = some (d :: dr, rest) := by
      simp only [Json.numInt, hdd, Bool.not_true, Bool.false_eq_true, ↓reduceIte]
      by_cases h48 : d = 48
      · have hdr : dr = [] := hz d dr rfl h48
        subst hdr; subst h48; simp
      · have e48 : (d == 48) = false := by simpa using h48
        simp only [e48, Bool.false_eq_true, ↓reduceIte, htd]
    simp only [parseNumber, hsign, hint, numFrac_end rest hr, numExp_end rest hr, List.append_nil]

theorem parseNumber_formatInt (v : Int) (rest : Bytes) (hr : numEnd rest = true) :
    parseNumber (Strconv.formatInt v ++ rest) = some (Strconv.formatInt v, rest) := by
  have hds : ∀ c ∈ Strconv.digitsOfNat v.natAbs, Json.isDigit c = true :=
    fun c hc => Strconv.digitsOfNat_all_digits _ c hc
  have hne := Strconv.digitsOfNat_ne_nil v.natAbs
  have hz : ∀ c cs, Strconv.digitsOfNat v.natAbs = c :: cs → c = 48 → cs = [] := by
    intro c cs h h48
    by_cases h0 : v.natAbs = 0
    · rw [h0, Strconv.digitsOfNat] at h
      simp at h
      exact h.2
    · obtain ⟨c', cs', hc', hne'⟩ := digitsOfNat_head_nonzero v.natAbs (by omega)
      rw [hc'] at h
      simp only [List.cons.injEq] at h
      exact absurd (h.1 ▸ h48) hne'
  unfold Strconv.formatInt
  split
  · have := parseNumber_digits [45] _ rest (Or.inr rfl) hds hne hz hr
    simpa using this
  · have := parseNumber_digits [] _ rest (Or.inl rfl) hds hne hz hr
    simpa using this

/-! ### dispatch of `parseValue` on the first byte -/

theorem parseValue_number (fuel : Nat) (t rest : Bytes) (c : UInt8) (cs : Bytes) (ht : t = c :: cs)
    (hc : Json.isDigit c = true ∨ c = 45) (h : parseNumber (t ++ rest) = some (t, rest)) :
    parseValue (fuel + 1) (t ++ rest) = some (.num t, rest) := by
  subst ht
  have facts : Json.isWs c = false ∧ c ≠ 34 ∧ c ≠ 123 ∧ c ≠ 91 ∧ c ≠ 116 ∧ c ≠ 102 ∧ c ≠ 110 := by
    rcases hc with hd | rfl
    · simp only [Json.isDigit, Bool.and_eq_true, decide_eq_true_eq, UInt8.le_iff_toNat_le] at hd
      refine ⟨?_, ?_, ?_, ?_, ?_, ?_, ?_⟩
      · simp only [Json.isWs, Bool.or_eq_false_iff, beq_eq_false_iff_ne, ne_eq]
        refine ⟨⟨⟨?_, ?_⟩, ?_⟩, ?_⟩ <;> (intro h; subst h; simp at hd)
      all_goals (intro h; subst h; simp at hd)
    · decide
  obtain ⟨hws, h34, h123, h91, h116, h102, h110⟩ := facts
  have e34 : (c == 34) = false := by simpa using h34
  have e123 : (c == 123) = false := by simpa using h123
  have e91 : (c == 91) = false := by simpa using h91
  have ht : Json.litTrue.isPrefixOf (c :: (cs ++ rest)) = false := by
    simp only [Json.litTrue, List.isPrefixOf, Bool.and_eq_false_imp, beq_iff_eq]
    intro h; exact absurd h.symm h116
  have hf : Json.litFalse.isPrefixOf (c :: (cs ++ rest)) = false := by
    simp only [Json.litFalse, List.isPrefixOf, Bool.and_eq_false_imp, beq_iff_eq]
    intro h; exact absurd h.symm h102
  have hn : Json.litNull.isPrefixOf (c :: (cs ++ rest)) = false := by
    simp only [Json.litNull, List.isPrefixOf, Bool.and_eq_false_imp, beq_iff_eq]
    intro h; exact absurd h.symm h110
  simp only [List.cons_append] at h ⊢
  simp only [parseValue, Json.skipWs, hws, Bool.false_eq_true, ↓reduceIte, e34, e123, e91, ht, hf, hn, h,
    Option.map_some]

theorem parseValue_true (fuel : Nat) (rest : Bytes) :
    parseValue (fuel + 1) (trueB ++ rest) = some (.bool true, rest) := by
  simp [parseValue, trueB, Json.skipWs, Json.isWs, Json.litTrue, List.isPrefixOf]

theorem parseValue_false (fuel : Nat) (rest : Bytes) :
    parseValue (fuel + 1) (falseB ++ rest) = some (.bool false, rest) := by
  simp [parseValue, falseB, Json.skipWs, Json.isWs, Json.litTrue, Json.litFalse, List.isPrefixOf]

/-! ### bytes are always written as valid UTF-8 -/

theorem validGo_latin1 : ∀ (b : Bytes) (fuel : Nat), b.length ≤ fuel → Utf8.validUtf8.go fuel (latin1 b) = true := by
  intro b
  induction b with
  | nil => intro fuel _; cases fuel <;> simp [latin1, Utf8.validUtf8.go]
  | cons c cs ih =>
    intro fuel hf
    cases fuel with
    | zero => simp at hf
    | succ f =>
      have hl : latin1 (c :: cs) = Utf8.encodeRune c.toNat ++ latin1 cs := by simp [latin1]
      have hpos := encodeRune_len_pos c
      rw [hl]
      cases hcons : Utf8.encodeRune c.toNat ++ latin1 cs with
      | nil =>
        have : (Utf8.encodeRune c.toNat ++ latin1 cs).length = 0 := by rw [hcons]; rfl
        simp only [List.length_append] at this; omega
      | cons x xs =>
        simp only [Utf8.validUtf8.go]
        rw [← hcons, decodeRune_latin1 c (latin1 cs)]
        have hne : ¬ (c.toNat = Utf8.runeError) := by
          have := c.toNat_lt; simp [Utf8.runeError]; omega
        have hb : (c.toNat == Utf8.runeError) = false := by simpa using hne
        simp only [hb, Bool.false_and, Bool.false_eq_true, ↓reduceIte, List.drop_left]
        exact ih f (by simp at hf; omega)

theorem valid_latin1 (b : Bytes) : Utf8.validUtf8 (latin1 b) = true := by
  unfold Utf8.validUtf8
  exact validGo_latin1 b _ (runesOf_latin1_le b)

/-! ### whole documents -/

/-- what is assumed of `strconv`'s float text so that it is one JSON number token: the strict
number grammar accepts exactly it and stops (an assumption about `formatFloat64`'s shape, compared
with Go's output on every float of every run) -/
structure NumLaws : Prop where
  float_tok : ∀ b rest, ((Strconv.decodeBits Strconv.f64 b).cls == 2) = false →
    ((Strconv.decodeBits Strconv.f64 b).cls == 1) = false → numEnd rest = true →
    parseNumber (Strconv.formatFloat64 b ++ rest) = some (Strconv.formatFloat64 b, rest)
  float_head : ∀ b, ((Strconv.decodeBits Strconv.f64 b).cls == 2) = false →
    ((Strconv.decodeBits Strconv.f64 b).cls == 1) = false →
    ∃ c cs, Strconv.formatFloat64 b = c :: cs ∧ (Json.isDigit c = true ∨ c = 45)

mutual
/-- every string and key of the document is valid UTF-8 (byte strings are written through the
Latin-1 mapping and need nothing) -/
def DocTextOK : Doc → Prop
  | .str b => Utf8.validUtf8 b = true
  | .obj kvs => DocTextOKKvs kvs
  | .arr xs => DocTextOKItems xs
  | _ => True
def DocTextOKKvs : List (Bytes × Doc) → Prop
  | [] => True
  | (k, v) :: rest => Utf8.validUtf8 k = true ∧ DocTextOK v ∧ DocTextOKKvs rest
def DocTextOKItems : List Doc → Prop
  | [] => True
  | v :: rest => DocTextOK v ∧ DocTextOKItems rest
end

mutual
/-- parser fuel that certainly suffices for the compact rendering -/
def jneed : Doc → Nat
  | .obj kvs => 1 + jneedKvs kvs
  | .arr xs => 1 + jneedItems xs
  | _ => 1
def jneedKvs : List (Bytes × Doc) → Nat
  | [] => 0
  | (_, v) :: rest => 1 + max (jneed v) (jneedKvs rest)
def jneedItems : List Doc → Nat
  | [] => 0
  | v :: rest => 1 + max (jneed v) (jneedItems rest)
end

theorem nanB_valid : Utf8.validUtf8 nanB = true := by decide
theorem infB_valid : Utf8.validUtf8 infinityB = true := by decide
theorem negInfB_valid : Utf8.validUtf8 (45 :: infinityB) = true := by decide

theorem skipWs_delim (c : UInt8) (r : Bytes) (h : c = 44 ∨ c = 125 ∨ c = 93 ∨ c = 58 ∨ c = 34) :
    Json.skipWs (c :: r) = c :: r := by
  rcases h with rfl | rfl | rfl | rfl | rfl <;> rfl

theorem skipWs_nonws (c : UInt8) (r : Bytes) (h : Json.isWs c = false) : Json.skipWs (c :: r) = c :: r := by
  simp [Json.skipWs, h]

/-- the first byte of a rendered value: never whitespace, never a closing bracket -/
theorem renderJson_head (N : NumLaws) (d : Doc) (rest : Bytes) :
    ∃ c tl, renderJson d ++ rest = c :: tl ∧ Json.isWs c = false ∧ c ≠ 93 ∧ c ≠ 125 := by
  have digitOr45 : ∀ c : UInt8, (Json.isDigit c = true ∨ c = 45) → Json.isWs c = false ∧ c ≠ 93 ∧ c ≠ 125 := by
    intro c hc
    rcases hc with hd | rfl
    · simp only [Json.isDigit, Bool.and_eq_true, decide_eq_true_eq, UInt8.le_iff_toNat_le] at hd
      refine ⟨?_, ?_, ?_⟩
      · simp only [Json.isWs, Bool.or_eq_false_iff, beq_eq_false_iff_ne, ne_eq]
        refine ⟨⟨⟨?_, ?_⟩, ?_⟩, ?_⟩ <;> (intro h; subst h; simp at hd)
      all_goals (intro h; subst h; simp at hd)
    · decide
  cases d with
  | int v =>
    have := Strconv.formatInt_clean v
    cases hfi : Strconv.formatInt v with
    | nil => exact absurd hfi this.1
    | cons c cs =>
      refine ⟨c, cs ++ rest, by simp [renderJson, hfi], digitOr45 c (this.2 c (by rw [hfi]; simp))⟩
  | f64 b =>
    simp only [renderJson, jsonFloat]
    by_cases h2 : ((Strconv.decodeBits Strconv.f64 b).cls == 2) = true
    · exact ⟨34, _, (by simp only [h2, ↓reduceIte, Json.jsonString, List.cons_append, List.append_assoc]; rfl), by decide, by decide, by decide⟩
    · have h2' : ((Strconv.decodeBits Strconv.f64 b).cls == 2) = false := by simpa using h2
      by_cases h1 : ((Strconv.decodeBits Strconv.f64 b).cls == 1) = true
      · exact ⟨34, _, (by simp only [h2', h1, Bool.false_eq_true, ↓reduceIte, Json.jsonString, List.cons_append, List.append_assoc]; rfl), by decide, by decide, by decide⟩
      · have h1' : ((Strconv.decodeBits Strconv.f64 b).cls == 1) = false := by simpa using h1
        obtain ⟨c, cs, hc, hd⟩ := N.float_head b h2' h1'
        exact ⟨c, cs ++ rest, by simp [h2', h1', hc], digitOr45 c hd⟩
  | bool b =>
    cases b
    · exact ⟨102, _, (by simp only [renderJson, falseB, ↓reduceIte, Bool.false_eq_true, List.cons_append]; rfl), by decide, by decide, by decide⟩
    · exact ⟨116, _, (by simp only [renderJson, trueB, ↓reduceIte, List.cons_append]; rfl), by decide, by decide, by decide⟩
  | str b => exact ⟨34, _, (by simp only [renderJson, Json.jsonString, List.cons_append, List.append_assoc]; rfl), by decide, by decide, by decide⟩
  | bytes b => exact ⟨34, _, (by simp only [renderJson, Json.jsonString, List.cons_append, List.append_assoc]; rfl), by decide, by decide, by decide⟩
  | obj kvs => exact ⟨123, _, (by simp only [renderJson, List.cons_append, List.append_assoc]; rfl), by decide, by decide, by decide⟩
  | arr xs => exact ⟨91, _, (by simp only [renderJson, List.cons_append, List.append_assoc]; rfl), by decide, by decide, by decide⟩

/-- one member: the key is read, then the value, then `,` or `}` decides -/
theorem parseMembers_member (fuel : Nat) (k : Bytes) (hk : Utf8.validUtf8 k = true) (tail : Bytes) :
    parseMembers (fuel + 1) (Json.jsonString k ++ 58 :: tail) =
      (match parseValue fuel tail with
       | none => none
       | some (v, r3) =>
         match Json.skipWs r3 with
         | 44 :: r4 => (parseMembers fuel r4).map (fun (kvs, r5) => ((k, v) :: kvs, r5))
         | 125 :: r4 => some ([(k, v)], r4)
         | _ => none) := by
  unfold Json.jsonString
  simp only [List.cons_append, List.append_assoc, List.nil_append, parseMembers]
  rw [skipWs_nonws 34 _ (by decide)]
  simp only
  rw [Json.parse_escapeBody k.length k _ (58 :: tail) (Nat.le_refl _) (by simp; omega) hk]
  simp only
  rw [skipWs_nonws 58 _ (by decide)]
  rfl

mutual
theorem parse_render (N : NumLaws) : (d : Doc) → DocTextOK d → ∀ (fuel : Nat) (rest : Bytes),
    jneed d ≤ fuel → numEnd rest = true →
    parseValue fuel (renderJson d ++ rest) = some (treeOf jsonEnc d, rest)
  | .int v, _, fuel, rest, hf, hr => by
    obtain ⟨f, rfl⟩ : ∃ f, fuel = f + 1 := ⟨fuel - 1, by simp [jneed] at hf; omega⟩
    obtain ⟨c, cs, hc, hd⟩ : ∃ c cs, Strconv.formatInt v = c :: cs ∧ (Json.isDigit c = true ∨ c = 45) := by
      have := Strconv.formatInt_clean v
      cases hfi : Strconv.formatInt v with
      | nil => exact absurd hfi this.1
      | cons c cs => exact ⟨c, cs, rfl, this.2 c (by rw [hfi]; simp)⟩
    simp only [renderJson, treeOf, jsonEnc, jsonTreeLeaf]
    exact parseValue_number f _ rest c cs hc hd (parseNumber_formatInt v rest hr)
  | .f64 b, _, fuel, rest, hf, hr => by
    obtain ⟨f, rfl⟩ : ∃ f, fuel = f + 1 := ⟨fuel - 1, by simp [jneed] at hf; omega⟩
    simp only [renderJson, jsonFloat, treeOf, jsonEnc, jsonTreeLeaf]
    by_cases h2 : ((Strconv.decodeBits Strconv.f64 b).cls == 2) = true
    · simp only [h2, ↓reduceIte]
      exact Json.parseValue_jsonString nanB rest f nanB_valid
    · have h2' : ((Strconv.decodeBits Strconv.f64 b).cls == 2) = false := by simpa using h2
      simp only [h2', Bool.false_eq_true, ↓reduceIte]
      by_cases h1 : ((Strconv.decodeBits Strconv.f64 b).cls == 1) = true
      · simp only [h1, ↓reduceIte]
        by_cases hn : (Strconv.decodeBits Strconv.f64 b).neg = true
        · simp only [hn, ↓reduceIte]
          exact Json.parseValue_jsonString _ rest f negInfB_valid
        · simp only [hn, Bool.false_eq_true, ↓reduceIte]
          exact Json.parseValue_jsonString _ rest f infB_valid
      · have h1' : ((Strconv.decodeBits Strconv.f64 b).cls == 1) = false := by simpa using h1
        simp only [h1', Bool.false_eq_true, ↓reduceIte]
        obtain ⟨c, cs, hc, hd⟩ := N.float_head b h2' h1'
        exact parseValue_number f _ rest c cs hc hd (N.float_tok b rest h2' h1' hr)
  | .bool b, _, fuel, rest, hf, _ => by
    obtain ⟨f, rfl⟩ : ∃ f, fuel = f + 1 := ⟨fuel - 1, by simp [jneed] at hf; omega⟩
    cases b
    · simpa [renderJson, treeOf, jsonEnc, jsonTreeLeaf] using parseValue_false f rest
    · simpa [renderJson, treeOf, jsonEnc, jsonTreeLeaf] using parseValue_true f rest
  | .str b, hok, fuel, rest, hf, _ => by
    obtain ⟨f, rfl⟩ : ∃ f, fuel = f + 1 := ⟨fuel - 1, by simp [jneed] at hf; omega⟩
    simp only [DocTextOK] at hok
    simpa [renderJson, treeOf, jsonEnc, jsonTreeLeaf] using Json.parseValue_jsonString b rest f hok
  | .bytes b, _, fuel, rest, hf, _ => by
    obtain ⟨f, rfl⟩ : ∃ f, fuel = f + 1 := ⟨fuel - 1, by simp [jneed] at hf; omega⟩
    simpa [renderJson, treeOf, jsonEnc, jsonTreeLeaf] using Json.parseValue_jsonString (latin1 b) rest f (valid_latin1 b)
  | .obj kvs, hok, fuel, rest, hf, _ => by
    obtain ⟨f, rfl⟩ : ∃ f, fuel = f + 1 := ⟨fuel - 1, by simp [jneed] at hf; omega⟩
    simp only [DocTextOK] at hok
    simp only [jneed] at hf
    simp only [renderJson, List.cons_append, List.append_assoc, treeOf]
    cases kvs with
    | nil =>
      simp [renderJsonKvs, treeOfKvs, parseValue, Json.skipWs, Json.isWs]
    | cons kv more =>
      have := parse_renderKvs N (kv :: more) (by simp) hok f rest (by omega)
      obtain ⟨k, v⟩ := kv
      have hstart : ∃ tl, renderJsonKvs ((k, v) :: more) ++ ([125] ++ rest) = 34 :: tl := by
        cases more <;> simp [renderJsonKvs, Json.jsonString]
      obtain ⟨tl, htl⟩ := hstart
      simp only [List.singleton_append] at htl this
      simp only [parseValue, Json.skipWs, Json.isWs, show ((123 : UInt8) == 32) = false from rfl,
        show ((123 : UInt8) == 9) = false from rfl, show ((123 : UInt8) == 10) = false from rfl,
        show ((123 : UInt8) == 13) = false from rfl, Bool.or_self, Bool.false_eq_true, ↓reduceIte,
        show ((123 : UInt8) == 34) = false from rfl, beq_self_eq_true, List.singleton_append, List.nil_append]
      rw [htl] at this ⊢
      simp only [Json.skipWs, Json.isWs, show ((34 : UInt8) == 32) = false from rfl,
        show ((34 : UInt8) == 9) = false from rfl, show ((34 : UInt8) == 10) = false from rfl,
        show ((34 : UInt8) == 13) = false from rfl, Bool.or_self, Bool.false_eq_true, ↓reduceIte]
      split
      · next r heq => simp at heq
      · rw [this]; rfl
  | .arr xs, hok, fuel, rest, hf, _ => by
    obtain ⟨f, rfl⟩ : ∃ f, fuel = f + 1 := ⟨fuel - 1, by simp [jneed] at hf; omega⟩
    simp only [DocTextOK] at hok
    simp only [jneed] at hf
    simp only [renderJson, List.cons_append, List.append_assoc, treeOf]
    cases xs with
    | nil =>
      simp [renderJsonItems, treeOfItems, parseValue, Json.skipWs, Json.isWs]
    | cons x more =>
      have := parse_renderItems N (x :: more) (by simp) hok f rest (by omega)
      obtain ⟨c, tl, htl, hws, h93, _⟩ : ∃ c tl, renderJsonItems (x :: more) ++ 93 :: rest = c :: tl ∧
          Json.isWs c = false ∧ c ≠ 93 ∧ c ≠ 125 := by
        cases more with
        | nil =>
          obtain ⟨c, tl, h, hh⟩ := renderJson_head N x (93 :: rest)
          exact ⟨c, tl, by simpa [renderJsonItems] using h, hh⟩
        | cons y ys =>
          obtain ⟨c, tl, h, hh⟩ := renderJson_head N x (44 :: renderJsonItems (y :: ys) ++ 93 :: rest)
          exact ⟨c, tl, by simpa [renderJsonItems] using h, hh⟩
      simp only [parseValue, Json.skipWs, Json.isWs, show ((91 : UInt8) == 32) = false from rfl,
        show ((91 : UInt8) == 9) = false from rfl, show ((91 : UInt8) == 10) = false from rfl,
        show ((91 : UInt8) == 13) = false from rfl, Bool.or_self, Bool.false_eq_true, ↓reduceIte,
        show ((91 : UInt8) == 34) = false from rfl, show ((91 : UInt8) == 123) = false from rfl,
        beq_self_eq_true, List.singleton_append, List.nil_append]
      rw [htl] at this ⊢
      rw [skipWs_nonws c tl hws]
      split
      · next r heq => simp only [List.cons.injEq] at heq; exact absurd heq.1 h93
      · rw [this]; rfl
theorem parse_renderKvs (N : NumLaws) : (kvs : List (Bytes × Doc)) → kvs ≠ [] → DocTextOKKvs kvs →
    ∀ (fuel : Nat) (rest : Bytes), jneedKvs kvs ≤ fuel →
    parseMembers fuel (renderJsonKvs kvs ++ 125 :: rest) = some (treeOfKvs jsonEnc kvs, rest)
  | [], h, _, _, _, _ => absurd rfl h
  | [(k, v)], _, hok, fuel, rest, hf => by
    obtain ⟨f, rfl⟩ : ∃ f, fuel = f + 1 := ⟨fuel - 1, by simp [jneedKvs] at hf; omega⟩
    simp only [DocTextOKKvs] at hok
    simp only [jneedKvs] at hf
    have hv := parse_render N v hok.2.1 f (125 :: rest) (by omega) rfl
    simp only [renderJsonKvs, List.append_assoc, List.cons_append]
    rw [parseMembers_member f k hok.1, hv]
    simp only [skipWs_nonws 125 rest (by decide), treeOfKvs, jsonEnc]
    rfl
  | (k, v) :: kv2 :: more, _, hok, fuel, rest, hf => by
    obtain ⟨f, rfl⟩ : ∃ f, fuel = f + 1 := ⟨fuel - 1, by simp [jneedKvs] at hf; omega⟩
    simp only [DocTextOKKvs] at hok
    have hf' : 1 + max (jneed v) (jneedKvs (kv2 :: more)) ≤ f + 1 := by simpa [jneedKvs] using hf
    have hv := parse_render N v hok.2.1 f (44 :: renderJsonKvs (kv2 :: more) ++ 125 :: rest) (by omega) rfl
    have ih := parse_renderKvs N (kv2 :: more) (by simp) (by
      obtain ⟨k2, v2⟩ := kv2
      simpa [DocTextOKKvs] using hok.2.2) f rest (by omega)
    obtain ⟨k2, v2⟩ := kv2
    simp only [renderJsonKvs, List.append_assoc, List.cons_append] at hv ih ⊢
    rw [parseMembers_member f k hok.1, hv]
    simp only [skipWs_nonws 44 _ (by decide)]
    rw [ih]
    simp [treeOfKvs, jsonEnc]
theorem parse_renderItems (N : NumLaws) : (xs : List Doc) → xs ≠ [] → DocTextOKItems xs →
    ∀ (fuel : Nat) (rest : Bytes), jneedItems xs ≤ fuel →
    parseElements fuel (renderJsonItems xs ++ 93 :: rest) = some (treeOfItems jsonEnc xs, rest)
  | [], h, _, _, _, _ => absurd rfl h
  | [v], _, hok, fuel, rest, hf => by
    obtain ⟨f, rfl⟩ : ∃ f, fuel = f + 1 := ⟨fuel - 1, by simp [jneedItems] at hf; omega⟩
    simp only [DocTextOKItems] at hok
    simp only [jneedItems] at hf
    have hv := parse_render N v hok.1 f (93 :: rest) (by omega) rfl
    simp only [renderJsonItems, parseElements, hv, skipWs_nonws 93 rest (by decide), treeOfItems]
  | v :: v2 :: more, _, hok, fuel, rest, hf => by
    obtain ⟨f, rfl⟩ : ∃ f, fuel = f + 1 := ⟨fuel - 1, by simp [jneedItems] at hf; omega⟩
    simp only [DocTextOKItems] at hok
    have hf' : 1 + max (jneed v) (jneedItems (v2 :: more)) ≤ f + 1 := by simpa [jneedItems] using hf
    have hv := parse_render N v hok.1 f (44 :: renderJsonItems (v2 :: more) ++ 93 :: rest) (by omega) rfl
    have ih := parse_renderItems N (v2 :: more) (by simp) (by simpa [DocTextOKItems] using hok.2) f rest (by omega)
    simp only [renderJsonItems, List.append_assoc, List.cons_append] at hv ih ⊢
    simp only [parseElements, hv, skipWs_nonws 44 _ (by decide), ih, Option.map_some, treeOfItems]
end

/-! ### the parser's fuel suffices, and the top-level statement -/

theorem renderJson_len_pos (N : NumLaws) (d : Doc) : 1 ≤ (renderJson d).length := by
  obtain ⟨c, tl, h, _⟩ := renderJson_head N d []
  simp only [List.append_nil] at h
  rw [h]; simp

mutual
theorem jneed_le (N : NumLaws) : (d : Doc) → jneed d ≤ (renderJson d).length
  | .int v => by simpa [jneed] using renderJson_len_pos N (.int v)
  | .f64 b => by simpa [jneed] using renderJson_len_pos N (.f64 b)
  | .bool b => by simpa [jneed] using renderJson_len_pos N (.bool b)
  | .str b => by simpa [jneed] using renderJson_len_pos N (.str b)
  | .bytes b => by simpa [jneed] using renderJson_len_pos N (.bytes b)
  | .obj kvs => by
    have := jneedKvs_le N kvs
    simp only [jneed, renderJson, List.length_cons, List.length_append, List.length_nil]
    omega
  | .arr xs => by
    have := jneedItems_le N xs
    simp only [jneed, renderJson, List.length_cons, List.length_append, List.length_nil]
    omega
theorem jneedKvs_le (N : NumLaws) : (kvs : List (Bytes × Doc)) → jneedKvs kvs ≤ (renderJsonKvs kvs).length + 1
  | [] => by simp [jneedKvs]
  | [(k, v)] => by
    have := jneed_le N v
    simp only [jneedKvs, renderJsonKvs, List.length_append, List.length_cons]
    omega
  | (k, v) :: kv2 :: more => by
    have h1 := jneed_le N v
    have h2 := jneedKvs_le N (kv2 :: more)
    simp only [jneedKvs, renderJsonKvs, List.length_append, List.length_cons] at h2 ⊢
    omega
theorem jneedItems_le (N : NumLaws) : (xs : List Doc) → jneedItems xs ≤ (renderJsonItems xs).length + 1
  | [] => by simp [jneedItems]
  | [v] => by
    have := jneed_le N v
    simp only [jneedItems, renderJsonItems]
    omega
  | v :: v2 :: more => by
    have h1 := jneed_le N v
    have h2 := jneedItems_le N (v2 :: more)
    simp only [jneedItems, renderJsonItems, List.length_append, List.length_cons] at h2 ⊢
    omega
end

/-- **the compact JSON writer's output parses, under the strict RFC 8259 parser, to exactly the
document tree** the tree-level round trip (`json_roundtrip_tree`) is stated about — for every
document whose strings and keys are valid UTF-8 -/
theorem parse_renderJson (N : NumLaws) (d : Doc) (hok : DocTextOK d) :
    Json.parse (renderJson d) = some (treeOf jsonEnc d) := by
  unfold Json.parse
  have h := parse_render N d hok ((renderJson d).length + 1) [] (by have := jneed_le N d; omega) rfl
  simp only [List.append_nil] at h
  rw [h]
  rfl

/-- **JSON round trip at byte level** (compact writer) for every value whose encoding is an object:
`UnmarshalJSON(MarshalJSON(v)) = norm v`, nothing reported missing -/
theorem json_roundtrip_obj (env : Env) (F : FloatLaws) (C : ConvLaws) (N : NumLaws) (S : SchemaOK env)
    (ign f : Nat) (ty : Ty) (v : Value) (kvs : List (Bytes × Doc)) (hv : ValOK v)
    (henc : encode (jsonCtx env F C S).cfg f [] ty v = .ok (.obj kvs)) (htext : DocTextOK (.obj kvs)) :
    unmarshalJson { env := env, tracker := { excl := .empty, ignore := ign } } ty (renderJson (.obj kvs)) =
      some (.ok (norm env f ty v) []) := by
  have htree := json_roundtrip_tree env F C S ign f [] [] true ty v _ hv henc
  have hparse := parse_renderJson N (.obj kvs) htext
  unfold unmarshalJson
  have hne : (renderJson (.obj kvs)).isEmpty = false := by simp [renderJson]
  have hnn : (renderJson (.obj kvs) == nullLit) = false := by
    simp only [renderJson, nullLit]
    apply beq_eq_false_iff_ne.mpr
    intro h; simp at h
  simp only [hne, hnn, Bool.or_self, Bool.false_eq_true, ↓reduceIte, hparse, htree]

end Restli.Codec
