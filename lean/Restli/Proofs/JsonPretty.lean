import Restli.Proofs.JsonDoc
/-! The pretty JSON writer against the strict parser: the indentation and line breaks it inserts
are exactly where the grammar allows insignificant whitespace, so `renderPretty 0 d` parses to the
same tree as the compact rendering. -/
namespace Restli.Codec
open Json (JVal parseValue parseMembers parseElements parseNumber parseStrBody)

def WsOnly (w : Bytes) : Prop := ∀ c ∈ w, Json.isWs c = true

theorem skipWs_ws : ∀ (w x : Bytes), WsOnly w → Json.skipWs (w ++ x) = Json.skipWs x
  | [], _, _ => rfl
  | c :: w, x, h => by
    have hc := h c (by simp)
    simp only [List.cons_append, Json.skipWs, hc, ↓reduceIte]
    exact skipWs_ws w x (fun c hc => h c (by simp [hc]))

theorem wsOnly_ind (n : Nat) : WsOnly (ind n) := by
  intro c hc
  simp only [ind, List.mem_replicate] at hc
  rw [hc.2]; rfl

theorem wsOnly_nl_ind (n : Nat) : WsOnly (10 :: ind n) := by
  intro c hc
  rcases List.mem_cons.1 hc with rfl | hc
  · rfl
  · exact wsOnly_ind n c hc

theorem parseValue_ws (fuel : Nat) (w x : Bytes) (h : WsOnly w) : parseValue fuel (w ++ x) = parseValue fuel x := by
  cases fuel with
  | zero => simp [parseValue]
  | succ f => simp only [parseValue, skipWs_ws w x h]

theorem parseMembers_ws (fuel : Nat) (w x : Bytes) (h : WsOnly w) : parseMembers fuel (w ++ x) = parseMembers fuel x := by
  cases fuel with
  | zero => simp [parseMembers]
  | succ f => simp only [parseMembers, skipWs_ws w x h]

theorem parseElements_ws (fuel : Nat) (w x : Bytes) (h : WsOnly w) : parseElements fuel (w ++ x) = parseElements fuel x := by
  cases fuel with
  | zero => simp [parseElements]
  | succ f => simp only [parseElements, parseValue_ws f w x h]

/-- one pretty member: `"key": value` -/
theorem parseMembers_member_pretty (fuel : Nat) (k : Bytes) (hk : Utf8.validUtf8 k = true) (tail : Bytes) :
    parseMembers (fuel + 1) (Json.jsonString k ++ 58 :: 32 :: tail) =
      (match parseValue fuel tail with
       | none => none
       | some (v, r3) =>
         match Json.skipWs r3 with
         | 44 :: r4 => (parseMembers fuel r4).map (fun (kvs, r5) => ((k, v) :: kvs, r5))
         | 125 :: r4 => some ([(k, v)], r4)
         | _ => none) := by
  have := parseMembers_member fuel k hk (32 :: tail)
  simp only [List.append_assoc, List.cons_append, List.nil_append] at this ⊢
  rw [this]
  have hw : parseValue fuel (32 :: tail) = parseValue fuel tail :=
    parseValue_ws fuel [32] tail (by intro c hc; simp at hc; subst hc; rfl)
  rw [hw]
  rfl

theorem renderPretty_leaf (n : Nat) (d : Doc) (h : ∀ kvs, d ≠ .obj kvs) (h' : ∀ xs, d ≠ .arr xs) :
    renderPretty n d = renderJson d := by
  cases d with
  | obj kvs => exact absurd rfl (h kvs)
  | arr xs => exact absurd rfl (h' xs)
  | _ => simp [renderPretty, renderJson]

/-- the first byte of a pretty-rendered value is that of the compact rendering -/
theorem renderPretty_head (N : NumLaws) (n : Nat) (d : Doc) (rest : Bytes) :
    ∃ c tl, renderPretty n d ++ rest = c :: tl ∧ Json.isWs c = false ∧ c ≠ 93 ∧ c ≠ 125 := by
  cases d with
  | obj kvs =>
    cases kvs with
    | nil => exact ⟨123, _, by simp only [renderPretty, List.cons_append]; rfl, by decide, by decide, by decide⟩
    | cons kv more => exact ⟨123, _, by simp only [renderPretty, List.cons_append, List.append_assoc]; rfl, by decide, by decide, by decide⟩
  | arr xs =>
    cases xs with
    | nil => exact ⟨91, _, by simp only [renderPretty, List.cons_append]; rfl, by decide, by decide, by decide⟩
    | cons x more => exact ⟨91, _, by simp only [renderPretty, List.cons_append, List.append_assoc]; rfl, by decide, by decide, by decide⟩
  | int v => simpa [renderPretty, renderJson] using renderJson_head N (.int v) rest
  | f64 b => simpa [renderPretty, renderJson] using renderJson_head N (.f64 b) rest
  | bool b => simpa [renderPretty, renderJson] using renderJson_head N (.bool b) rest
  | str b => simpa [renderPretty, renderJson] using renderJson_head N (.str b) rest
  | bytes b => simpa [renderPretty, renderJson] using renderJson_head N (.bytes b) rest

mutual
theorem parse_pretty (N : NumLaws) : (d : Doc) → DocTextOK d → ∀ (n fuel : Nat) (rest : Bytes),
    jneed d ≤ fuel → numEnd rest = true →
    parseValue fuel (renderPretty n d ++ rest) = some (treeOf jsonEnc d, rest)
  | .int v, hok, n, fuel, rest, hf, hr => by
    simpa [renderPretty, renderJson] using parse_render N (.int v) hok fuel rest hf hr
  | .f64 b, hok, n, fuel, rest, hf, hr => by
    simpa [renderPretty, renderJson] using parse_render N (.f64 b) hok fuel rest hf hr
  | .bool b, hok, n, fuel, rest, hf, hr => by
    simpa [renderPretty, renderJson] using parse_render N (.bool b) hok fuel rest hf hr
  | .str b, hok, n, fuel, rest, hf, hr => by
    simpa [renderPretty, renderJson] using parse_render N (.str b) hok fuel rest hf hr
  | .bytes b, hok, n, fuel, rest, hf, hr => by
    simpa [renderPretty, renderJson] using parse_render N (.bytes b) hok fuel rest hf hr
  | .obj [], hok, n, fuel, rest, hf, hr => by
    simpa [renderPretty, renderJson, renderJsonKvs] using parse_render N (.obj []) hok fuel rest hf hr
  | .arr [], hok, n, fuel, rest, hf, hr => by
    simpa [renderPretty, renderJson, renderJsonItems] using parse_render N (.arr []) hok fuel rest hf hr
  | .obj (kv :: more), hok, n, fuel, rest, hf, _ => by
    obtain ⟨f, rfl⟩ : ∃ f, fuel = f + 1 := ⟨fuel - 1, by simp [jneed] at hf; omega⟩
    simp only [DocTextOK] at hok
    simp only [jneed] at hf
    have := parse_prettyKvs N (kv :: more) (by simp) hok n f rest (by omega)
    simp only [renderPretty, List.cons_append, List.append_assoc, List.nil_append, treeOf]
    simp only [parseValue, Json.skipWs, Json.isWs, show ((123 : UInt8) == 32) = false from rfl,
      show ((123 : UInt8) == 9) = false from rfl, show ((123 : UInt8) == 10) = false from rfl,
      show ((123 : UInt8) == 13) = false from rfl, Bool.or_self, Bool.false_eq_true, ↓reduceIte,
      show ((123 : UInt8) == 34) = false from rfl, beq_self_eq_true,
      show ((10 : UInt8) == 32) = false from rfl, show ((10 : UInt8) == 9) = false from rfl, Bool.or_true,
      Bool.true_or]
    -- what follows `{` + newline starts with the first member's indentation, then a quote
    obtain ⟨k, v⟩ := kv
    have hstart : ∃ tl, renderPrettyKvs n ((k, v) :: more) ++ (10 :: (ind n ++ 125 :: rest)) =
        ind (n + 1) ++ 34 :: tl := by
      cases more with
      | nil => exact ⟨_, by simp only [renderPrettyKvs, Json.jsonString, List.append_assoc, List.cons_append]; rfl⟩
      | cons y ys => exact ⟨_, by simp only [renderPrettyKvs, Json.jsonString, List.append_assoc, List.cons_append]; rfl⟩
    obtain ⟨tl, htl⟩ := hstart
    have hm : parseMembers f (renderPrettyKvs n ((k, v) :: more) ++ (10 :: (ind n ++ 125 :: rest))) =
        some (treeOfKvs jsonEnc ((k, v) :: more), rest) := by
      simpa [List.append_assoc] using this
    rw [htl] at hm ⊢
    rw [skipWs_ws (ind (n + 1)) _ (wsOnly_ind _), skipWs_nonws 34 tl (by decide)]
    rw [parseMembers_ws f (ind (n + 1)) _ (wsOnly_ind _)] at hm
    split
    · next r heq => simp at heq
    · rw [hm]; rfl
  | .arr (x :: more), hok, n, fuel, rest, hf, _ => by
    obtain ⟨f, rfl⟩ : ∃ f, fuel = f + 1 := ⟨fuel - 1, by simp [jneed] at hf; omega⟩
    simp only [DocTextOK] at hok
    simp only [jneed] at hf
    have := parse_prettyItems N (x :: more) (by simp) hok n f rest (by omega)
    simp only [renderPretty, List.cons_append, List.append_assoc, List.nil_append, treeOf]
    simp only [parseValue, Json.skipWs, Json.isWs, show ((91 : UInt8) == 32) = false from rfl,
      show ((91 : UInt8) == 9) = false from rfl, show ((91 : UInt8) == 10) = false from rfl,
      show ((91 : UInt8) == 13) = false from rfl, Bool.or_self, Bool.false_eq_true, ↓reduceIte,
      show ((91 : UInt8) == 34) = false from rfl, show ((91 : UInt8) == 123) = false from rfl, beq_self_eq_true,
      show ((10 : UInt8) == 32) = false from rfl, show ((10 : UInt8) == 9) = false from rfl, Bool.or_true,
      Bool.true_or]
    have hi : parseElements f (renderPrettyItems n (x :: more) ++ (10 :: (ind n ++ 93 :: rest))) =
        some (treeOfItems jsonEnc (x :: more), rest) := by
      simpa [List.append_assoc] using this
    -- the first item: not whitespace, not `]`
    obtain ⟨c, tl, htl, hws, h93, _⟩ : ∃ c tl, renderPrettyItems n (x :: more) ++ (10 :: (ind n ++ 93 :: rest)) = c :: tl ∧
        Json.isWs c = false ∧ c ≠ 93 ∧ c ≠ 125 := by
      have hd := renderPretty_head N (n + 1) x
      cases more with
      | nil =>
        obtain ⟨c, tl, h, hh⟩ := hd (10 :: (ind n ++ 93 :: rest))
        exact ⟨c, tl, by simpa [renderPrettyItems] using h, hh⟩
      | cons y ys =>
        obtain ⟨c, tl, h, hh⟩ := hd ([44, 10] ++ ind (n + 1) ++ renderPrettyItems n (y :: ys) ++ (10 :: (ind n ++ 93 :: rest)))
        exact ⟨c, tl, by simpa [renderPrettyItems, List.append_assoc] using h, hh⟩
    rw [skipWs_ws (ind (n + 1)) _ (wsOnly_ind _), htl, skipWs_nonws c tl hws]
    rw [htl] at hi
    split
    · next r heq => simp only [List.cons.injEq] at heq; exact absurd heq.1 h93
    · rw [hi]; rfl
theorem parse_prettyKvs (N : NumLaws) : (kvs : List (Bytes × Doc)) → kvs ≠ [] → DocTextOKKvs kvs →
    ∀ (n fuel : Nat) (rest : Bytes), jneedKvs kvs ≤ fuel →
    parseMembers fuel (renderPrettyKvs n kvs ++ [10] ++ ind n ++ 125 :: rest) = some (treeOfKvs jsonEnc kvs, rest)
  | [], h, _, _, _, _, _ => absurd rfl h
  | [(k, v)], _, hok, n, fuel, rest, hf => by
    obtain ⟨f, rfl⟩ : ∃ f, fuel = f + 1 := ⟨fuel - 1, by simp [jneedKvs] at hf; omega⟩
    simp only [DocTextOKKvs] at hok
    simp only [jneedKvs] at hf
    have hv := parse_pretty N v hok.2.1 (n + 1) f (10 :: (ind n ++ 125 :: rest)) (by omega) rfl
    simp only [renderPrettyKvs, List.append_assoc, List.cons_append, List.nil_append]
    rw [parseMembers_ws (f + 1) (ind (n + 1)) _ (wsOnly_ind _)]
    rw [parseMembers_member_pretty f k hok.1, hv]
    have hs : Json.skipWs (10 :: (ind n ++ 125 :: rest)) = 125 :: rest := by
      have := skipWs_ws (10 :: ind n) (125 :: rest) (wsOnly_nl_ind n)
      simp only [List.cons_append] at this
      rw [this, skipWs_nonws 125 rest (by decide)]
    simp only [hs, treeOfKvs, jsonEnc]
    rfl
  | (k, v) :: kv2 :: more, _, hok, n, fuel, rest, hf => by
    obtain ⟨f, rfl⟩ : ∃ f, fuel = f + 1 := ⟨fuel - 1, by simp [jneedKvs] at hf; omega⟩
    simp only [DocTextOKKvs] at hok
    have hf' : 1 + max (jneed v) (jneedKvs (kv2 :: more)) ≤ f + 1 := by simpa [jneedKvs] using hf
    have ih := parse_prettyKvs N (kv2 :: more) (by simp) (by
      obtain ⟨k2, v2⟩ := kv2
      simpa [DocTextOKKvs] using hok.2.2) n f rest (by omega)
    obtain ⟨k2, v2⟩ := kv2
    have hv := parse_pretty N v hok.2.1 (n + 1) f
      ([44, 10] ++ renderPrettyKvs n ((k2, v2) :: more) ++ [10] ++ ind n ++ 125 :: rest) (by omega) rfl
    simp only [renderPrettyKvs, List.append_assoc, List.cons_append, List.nil_append] at hv ih ⊢
    rw [parseMembers_ws (f + 1) (ind (n + 1)) _ (wsOnly_ind _)]
    rw [parseMembers_member_pretty f k hok.1, hv]
    simp only [skipWs_nonws 44 _ (by decide)]
    have hnl : ∀ x, parseMembers f (10 :: x) = parseMembers f x :=
      fun x => parseMembers_ws f [10] x (by intro c hc; simp at hc; subst hc; rfl)
    rw [hnl, ih]
    simp [treeOfKvs, jsonEnc]
theorem parse_prettyItems (N : NumLaws) : (xs : List Doc) → xs ≠ [] → DocTextOKItems xs →
    ∀ (n fuel : Nat) (rest : Bytes), jneedItems xs ≤ fuel →
    parseElements fuel (renderPrettyItems n xs ++ [10] ++ ind n ++ 93 :: rest) = some (treeOfItems jsonEnc xs, rest)
  | [], h, _, _, _, _, _ => absurd rfl h
  | [v], _, hok, n, fuel, rest, hf => by
    obtain ⟨f, rfl⟩ : ∃ f, fuel = f + 1 := ⟨fuel - 1, by simp [jneedItems] at hf; omega⟩
    simp only [DocTextOKItems] at hok
    simp only [jneedItems] at hf
    have hv := parse_pretty N v hok.1 (n + 1) f (10 :: (ind n ++ 93 :: rest)) (by omega) rfl
    have hs : Json.skipWs (10 :: (ind n ++ 93 :: rest)) = 93 :: rest := by
      have := skipWs_ws (10 :: ind n) (93 :: rest) (wsOnly_nl_ind n)
      simp only [List.cons_append] at this
      rw [this, skipWs_nonws 93 rest (by decide)]
    simp only [renderPrettyItems, List.append_assoc, List.cons_append, List.nil_append, parseElements, hv, hs,
      treeOfItems]
  | v :: v2 :: more, _, hok, n, fuel, rest, hf => by
    obtain ⟨f, rfl⟩ : ∃ f, fuel = f + 1 := ⟨fuel - 1, by simp [jneedItems] at hf; omega⟩
    simp only [DocTextOKItems] at hok
    have hf' : 1 + max (jneed v) (jneedItems (v2 :: more)) ≤ f + 1 := by simpa [jneedItems] using hf
    have ih := parse_prettyItems N (v2 :: more) (by simp) (by simpa [DocTextOKItems] using hok.2) n f rest (by omega)
    have hv := parse_pretty N v hok.1 (n + 1) f
      ([44, 10] ++ ind (n + 1) ++ renderPrettyItems n (v2 :: more) ++ [10] ++ ind n ++ 93 :: rest) (by omega) rfl
    simp only [renderPrettyItems, List.append_assoc, List.cons_append, List.nil_append] at hv ih ⊢
    simp only [parseElements, hv, skipWs_nonws 44 _ (by decide)]
    have hws : ∀ x, parseElements f (10 :: (ind (n + 1) ++ x)) = parseElements f x := by
      intro x
      have := parseElements_ws f (10 :: ind (n + 1)) x (wsOnly_nl_ind _)
      simpa using this
    rw [hws, ih]
    simp [treeOfItems]
end

/-! ### fuel and the top-level statements -/

mutual
theorem pretty_len_ge : (d : Doc) → ∀ n, (renderJson d).length ≤ (renderPretty n d).length
  | .int _, _ => by simp [renderPretty, renderJson]
  | .f64 _, _ => by simp [renderPretty, renderJson]
  | .bool _, _ => by simp [renderPretty, renderJson]
  | .str _, _ => by simp [renderPretty, renderJson]
  | .bytes _, _ => by simp [renderPretty, renderJson]
  | .obj [], _ => by simp [renderPretty, renderJson, renderJsonKvs]
  | .arr [], _ => by simp [renderPretty, renderJson, renderJsonItems]
  | .obj (kv :: more), n => by
    have := prettyKvs_len_ge (kv :: more) n
    simp only [renderPretty, renderJson, List.length_cons, List.length_append, List.length_nil]
    omega
  | .arr (x :: more), n => by
    have := prettyItems_len_ge (x :: more) n
    simp only [renderPretty, renderJson, List.length_cons, List.length_append, List.length_nil]
    omega
theorem prettyKvs_len_ge : (kvs : List (Bytes × Doc)) → ∀ n, (renderJsonKvs kvs).length ≤ (renderPrettyKvs n kvs).length
  | [], _ => by simp [renderJsonKvs, renderPrettyKvs]
  | [(k, v)], n => by
    have := pretty_len_ge v (n + 1)
    simp only [renderJsonKvs, renderPrettyKvs, List.length_cons, List.length_append, List.length_nil]
    omega
  | (k, v) :: kv2 :: more, n => by
    have h1 := pretty_len_ge v (n + 1)
    have h2 := prettyKvs_len_ge (kv2 :: more) n
    simp only [renderJsonKvs, renderPrettyKvs, List.length_cons, List.length_append, List.length_nil] at h2 ⊢
    omega
theorem prettyItems_len_ge : (xs : List Doc) → ∀ n, (renderJsonItems xs).length ≤ (renderPrettyItems n xs).length
  | [], _ => by simp [renderJsonItems, renderPrettyItems]
  | [v], n => by
    have := pretty_len_ge v (n + 1)
    simp only [renderJsonItems, renderPrettyItems]
    omega
  | v :: v2 :: more, n => by
    have h1 := pretty_len_ge v (n + 1)
    have h2 := prettyItems_len_ge (v2 :: more) n
    simp only [renderJsonItems, renderPrettyItems, List.length_cons, List.length_append, List.length_nil] at h2 ⊢
    omega
end

/-- **the pretty JSON writer's output parses to the same tree** -/
theorem parse_renderPretty (N : NumLaws) (d : Doc) (hok : DocTextOK d) :
    Json.parse (renderPretty 0 d) = some (treeOf jsonEnc d) := by
  unfold Json.parse
  have h := parse_pretty N d hok 0 ((renderPretty 0 d).length + 1) []
    (by have := jneed_le N d; have := pretty_len_ge d 0; omega) rfl
  simp only [List.append_nil] at h
  rw [h]
  rfl

/-- **JSON round trip at byte level, pretty writer** -/
theorem json_pretty_roundtrip_obj (env : Env) (F : FloatLaws) (C : ConvLaws) (N : NumLaws) (S : SchemaOK env)
    (ign f : Nat) (ty : Ty) (v : Value) (kvs : List (Bytes × Doc)) (hv : ValOK v)
    (henc : encode (jsonCtx env F C S).cfg f [] ty v = .ok (.obj kvs)) (htext : DocTextOK (.obj kvs)) :
    unmarshalJson { env := env, tracker := { excl := .empty, ignore := ign } } ty (renderPretty 0 (.obj kvs)) =
      some (.ok (norm env f ty v) []) := by
  have htree := json_roundtrip_tree env F C S ign f [] [] true ty v _ hv henc
  have hparse := parse_renderPretty N (.obj kvs) htext
  unfold unmarshalJson
  obtain ⟨c, tl, hhead, _, _, _⟩ := renderPretty_head N 0 (.obj kvs) []
  have h123 : ∃ tl, renderPretty 0 (.obj kvs) = 123 :: tl := by
    cases kvs with
    | nil => exact ⟨_, by simp only [renderPretty]; rfl⟩
    | cons kv more => exact ⟨_, by simp only [renderPretty, List.cons_append]; rfl⟩
  obtain ⟨tl', htl'⟩ := h123
  have hne : (renderPretty 0 (.obj kvs)).isEmpty = false := by rw [htl']; rfl
  have hnn : (renderPretty 0 (.obj kvs) == nullLit) = false := by
    rw [htl']
    apply beq_eq_false_iff_ne.mpr
    intro h; simp [nullLit] at h
  simp only [hne, hnn, Bool.or_self, Bool.false_eq_true, ↓reduceIte, hparse, htree]

end Restli.Codec
