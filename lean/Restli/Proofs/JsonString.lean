import Restli.Lib.JsonText
/-! `jwriter.String` against the strict parser: the string body the writer emits for a valid UTF-8
byte string is read back to exactly that byte string (and the parser stops right after the closing
quote). For byte strings that are not valid UTF-8 the writer substitutes U+FFFD — lossy by
design of easyjson; such strings are outside this lemma. -/
namespace Restli.Json
open Restli

/-! ### hex digits -/

theorem unhex_hexLower : ∀ n, n < 16 → unhex (hexLower n) = some n := by decide

theorem u4_00 (c : UInt8) (hc : c.toNat < 128) (rest : Bytes) :
    u4 (48 :: 48 :: hexLower (c.toNat / 16) :: hexLower (c.toNat % 16) :: rest) = some (c.toNat, rest) := by
  have h1 := unhex_hexLower (c.toNat / 16) (by omega)
  have h2 := unhex_hexLower (c.toNat % 16) (by omega)
  have h0 : unhex 48 = some 0 := by decide
  simp only [u4, h0, h1, h2, Option.bind_eq_bind, Option.bind_some, Option.pure_def, Option.some.injEq, Prod.mk.injEq,
    and_true]
  omega

/-! ### one step of the parser on an ordinary byte -/

theorem parseStrBody_copy (fuel : Nat) (c : UInt8) (cs : Bytes) (h34 : c ≠ 34) (h32 : ¬ c < 32) (h92 : c ≠ 92) :
    parseStrBody (fuel + 1) (c :: cs) = (parseStrBody fuel cs).map (fun (s, r) => (c :: s, r)) := by
  have e34 : (c == 34) = false := by simpa using h34
  have e92 : (c == 92) = false := by simpa using h92
  simp only [parseStrBody, e34, Bool.false_eq_true, ↓reduceIte, h32, e92]

/-- copying a run of bytes none of which is a quote, a backslash or a control character -/
theorem parseStrBody_copy_run : ∀ (p : Bytes) (fuel : Nat) (cs : Bytes),
    (∀ c ∈ p, c ≠ 34 ∧ ¬ c < 32 ∧ c ≠ 92) →
    parseStrBody (fuel + p.length) (p ++ cs) = (parseStrBody fuel cs).map (fun (s, r) => (p ++ s, r))
  | [], fuel, cs, _ => by
    simp only [List.length_nil, Nat.add_zero, List.nil_append]
    cases parseStrBody fuel cs <;> simp
  | c :: p, fuel, cs, h => by
    have hc := h c (by simp)
    have ih := parseStrBody_copy_run p fuel cs (fun x hx => h x (by simp [hx]))
    have : fuel + (c :: p).length = (fuel + p.length) + 1 := by simp; omega
    rw [this, List.cons_append, parseStrBody_copy _ c _ hc.1 hc.2.1 hc.2.2, ih]
    cases parseStrBody fuel cs <;> simp

/-! ### the two-character escapes and `\u00XY` -/

theorem parse_escapeAscii (c : UInt8) (hc : c < 128) (hns : asciiSafe c = false) (fuel : Nat) (cs : Bytes) :
    parseStrBody (fuel + 1) (escapeAscii c ++ cs) = (parseStrBody fuel cs).map (fun (s, r) => (c :: s, r)) := by
  unfold escapeAscii
  by_cases h9 : c = 9
  · subst h9; simp [parseStrBody]
  by_cases h13 : c = 13
  · subst h13; simp [parseStrBody]
  by_cases h10 : c = 10
  · subst h10; simp [parseStrBody]
  by_cases h92 : c = 92
  · subst h92; simp [parseStrBody]
  by_cases h34 : c = 34
  · subst h34; simp [parseStrBody]
  have e9 : (c == 9) = false := by simpa using h9
  have e13 : (c == 13) = false := by simpa using h13
  have e10 : (c == 10) = false := by simpa using h10
  have e92 : (c == 92) = false := by simpa using h92
  have e34 : (c == 34) = false := by simpa using h34
  simp only [e9, e13, e10, e92, e34, Bool.false_eq_true, ↓reduceIte, List.cons_append, List.nil_append]
  have hlt : c.toNat < 128 := by simpa [UInt8.lt_iff_toNat_lt] using hc
  simp only [parseStrBody, show ((92 : UInt8) == 34) = false from rfl, Bool.false_eq_true, ↓reduceIte,
    show ¬ ((92 : UInt8) < 32) from by decide, show ((117 : UInt8) == 34) = false from rfl,
    show ((117 : UInt8) == 92) = false from rfl, show ((117 : UInt8) == 47) = false from rfl,
    show ((117 : UInt8) == 98) = false from rfl, show ((117 : UInt8) == 102) = false from rfl,
    show ((117 : UInt8) == 110) = false from rfl, show ((117 : UInt8) == 114) = false from rfl,
    show ((117 : UInt8) == 116) = false from rfl, beq_self_eq_true, u4_00 c hlt cs]
  have hns' : ¬ (0xD800 ≤ c.toNat) := by omega
  have henc : Utf8.encodeRune c.toNat = [c] := by
    have : ∀ n, n < 128 → Utf8.encodeRune n = [UInt8.ofNat n] := by decide
    rw [this c.toNat hlt]; simp
  simp only [Bool.and_eq_true, decide_eq_true_eq, hns', false_and, Bool.false_eq_true, ↓reduceIte, henc]
  cases parseStrBody fuel cs <;> simp

/-! ### multi-byte sequences -/

theorem isCont_ge (lo hi : Nat) (b : UInt8) (h : Utf8.isCont lo hi b = true) : lo ≤ b.toNat ∧ b.toNat ≤ hi := by
  simpa [Utf8.isCont] using h

set_option maxRecDepth 8000 in
/-- a valid multi-byte sequence: its width, its bytes (all ≥ 0x80), and its value range -/
theorem decodeRune_multibyte (c : UInt8) (rest : Bytes) (r w : Nat) (hc : ¬ c.toNat < 0x80)
    (h : Utf8.decodeRune (c :: rest) = (r, w)) (hv : ¬ (r = Utf8.runeError ∧ w ≤ 1)) :
    2 ≤ w ∧ w ≤ (c :: rest).length ∧ (∀ x ∈ (c :: rest).take w, 0x80 ≤ x.toNat) := by
  simp only [Utf8.decodeRune, hc, ↓reduceIte] at h
  repeat' split at h
  all_goals first
    | (simp only [Prod.mk.injEq] at h
       obtain ⟨_, rfl⟩ := h
       simp only [Bool.and_eq_true, Utf8.isCont, decide_eq_true_eq, beq_iff_eq] at *
       refine ⟨by omega, by simp, ?_⟩
       simp only [List.take_succ_cons, List.take_zero, List.mem_cons, List.not_mem_nil, or_false,
         forall_eq_or_imp, forall_eq]
       omega)
    | (simp only [Prod.mk.injEq] at h; exact absurd ⟨h.1.symm, by omega⟩ hv)

theorem u8_of_toNat (c : UInt8) (n : Nat) (hn : n < 256) (h : c.toNat = n) : c = UInt8.ofNat n := by
  apply UInt8.toNat_inj.1
  rw [h]; simp; omega

set_option maxRecDepth 8000 in
/-- the only encodings of U+2028 / U+2029 are the canonical three-byte ones -/
theorem decodeRune_linesep (c : UInt8) (rest : Bytes) (r w : Nat) (hc : ¬ c.toNat < 0x80)
    (h : Utf8.decodeRune (c :: rest) = (r, w)) (hr : r = 0x2028 ∨ r = 0x2029) :
    (c :: rest).take w = Utf8.encodeRune r ∧ w = 3 ∧ 3 ≤ (c :: rest).length := by
  simp only [Utf8.decodeRune, hc, ↓reduceIte] at h
  repeat' split at h
  all_goals first
    | (simp only [Prod.mk.injEq, Utf8.runeError] at h; omega)
    | (simp only [Prod.mk.injEq] at h
       obtain ⟨hr', rfl⟩ := h
       simp only [Bool.and_eq_true, Utf8.isCont, decide_eq_true_eq, beq_iff_eq] at *
       omega)
    | (simp only [Prod.mk.injEq] at h
       obtain ⟨hr', rfl⟩ := h
       simp only [Bool.and_eq_true, Utf8.isCont, decide_eq_true_eq, beq_iff_eq] at *
       refine ⟨?_, by simp, by simp⟩
       have e1 : Utf8.encodeRune 0x2028 = [226, 128, 168] := by decide
       have e2 : Utf8.encodeRune 0x2029 = [226, 128, 169] := by decide
       rcases hr with hr | hr <;> subst hr <;>
         simp only [e1, e2, List.take_succ_cons, List.take_zero, List.cons.injEq, and_true] <;>
         refine ⟨?_, ?_, ?_⟩ <;> (apply UInt8.toNat_inj.1; simp; omega))

theorem asciiSafe_facts (c : UInt8) (h : asciiSafe c = true) : c ≠ 34 ∧ ¬ c < 32 ∧ c ≠ 92 := by
  simp only [asciiSafe, Bool.and_eq_true, decide_eq_true_eq, bne_iff_ne, ne_eq] at h
  refine ⟨h.1.1.1.1.2, ?_, h.2⟩
  have := h.1.1.1.1.1
  simp only [UInt8.lt_iff_toNat_lt, UInt8.le_iff_toNat_le] at *
  omega

theorem u4_linesep (r : Nat) (hr : r = 0x2028 ∨ r = 0x2029) (rest : Bytes) :
    u4 (50 :: 48 :: 50 :: hexLower (r % 16) :: rest) = some (r, rest) := by
  rcases hr with rfl | rfl <;> rfl

theorem escapeAscii_len (c : UInt8) : 1 ≤ (escapeAscii c).length := by
  unfold escapeAscii
  repeat' split
  all_goals simp

/-- **the writer's string body parses back**: for every valid UTF-8 byte string, with any fuel
exceeding the length of the escaped text -/
theorem parse_escapeBody : ∀ (n : Nat) (s : Bytes) (f : Nat) (rest : Bytes),
    s.length ≤ n → (escapeBody n s).length < f → Utf8.validUtf8.go n s = true →
    parseStrBody f (escapeBody n s ++ 34 :: rest) = some (s, rest)
  | 0, s, f, rest, hn, hf, _ => by
    have : s = [] := by cases s <;> simp_all
    subst this
    obtain ⟨f', rfl⟩ : ∃ f', f = f' + 1 := ⟨f - 1, by omega⟩
    simp [escapeBody, parseStrBody]
  | n + 1, [], f, rest, _, hf, _ => by
    obtain ⟨f', rfl⟩ : ∃ f', f = f' + 1 := ⟨f - 1, by omega⟩
    simp [escapeBody, parseStrBody]
  | n + 1, c :: r, f, rest, hn, hf, hv => by
    obtain ⟨f', rfl⟩ : ∃ f', f = f' + 1 := ⟨f - 1, by omega⟩
    simp only [List.length_cons] at hn
    by_cases hc : c < 128
    · -- ASCII
      have hct : c.toNat < 128 := by simpa [UInt8.lt_iff_toNat_lt] using hc
      have hd : Utf8.decodeRune (c :: r) = (c.toNat, 1) := by simp [Utf8.decodeRune, hct]
      have hv' : Utf8.validUtf8.go n r = true := by
        simp only [Utf8.validUtf8.go, hd] at hv
        have : ¬ (c.toNat = Utf8.runeError) := by simp [Utf8.runeError]; omega
        simpa [this] using hv
      simp only [escapeBody, hc, ↓reduceIte, List.append_assoc] at hf ⊢
      by_cases hs : asciiSafe c = true
      · obtain ⟨h34, h32, h92⟩ := asciiSafe_facts c hs
        simp only [hs, ↓reduceIte, List.cons_append, List.nil_append, List.length_cons] at hf ⊢
        have ih := parse_escapeBody n r f' rest (by omega) (by omega) hv'
        rw [parseStrBody_copy f' c _ h34 h32 h92, ih]; rfl
      · have hs' : asciiSafe c = false := by simpa using hs
        simp only [hs', Bool.false_eq_true, ↓reduceIte, List.length_append] at hf ⊢
        have := escapeAscii_len c
        have ih := parse_escapeBody n r f' rest (by omega) (by omega) hv'
        rw [parse_escapeAscii c hc hs' f' _, ih]; rfl
    · -- multi-byte
      have hct : ¬ c.toNat < 0x80 := by simpa [UInt8.lt_iff_toNat_lt] using hc
      cases hd : Utf8.decodeRune (c :: r) with
      | mk rr w =>
        simp only [Utf8.validUtf8.go, hd] at hv
        have hvalid : ¬ (rr = Utf8.runeError ∧ w ≤ 1) := by
          intro ⟨h1, h2⟩; simp [h1, h2] at hv
        have hv' : Utf8.validUtf8.go n ((c :: r).drop w) = true := by
          by_cases hcond : (rr == Utf8.runeError && decide (w ≤ 1)) = true
          · simp [hcond] at hv
          · simpa [hcond] using hv
        obtain ⟨hw2, hwlen, hbytes⟩ := decodeRune_multibyte c r rr w hct hd hvalid
        simp only [List.length_cons] at hwlen
        have hdroplen : ((c :: r).drop w).length = r.length + 1 - w := by simp
        simp only [escapeBody, hc, ↓reduceIte, hd] at hf ⊢
        have hlossy : ¬ ((rr == Utf8.runeError && w == 1) = true) := by
          intro h; simp only [Bool.and_eq_true, beq_iff_eq] at h; exact hvalid ⟨h.1, by omega⟩
        simp only [hlossy, Bool.false_eq_true, ↓reduceIte] at hf ⊢
        by_cases hls : (rr == 0x2028 || rr == 0x2029) = true
        · have hls' : rr = 0x2028 ∨ rr = 0x2029 := by simpa using hls
          obtain ⟨htake, hw3, _⟩ := decodeRune_linesep c r rr w hct hd hls'
          simp only [hls, ↓reduceIte, List.cons_append, List.nil_append, List.length_cons] at hf ⊢
          have ih := parse_escapeBody n ((c :: r).drop w) f' rest (by rw [hdroplen]; omega) (by omega) hv'
          have hnotsur : ¬ (0xD800 ≤ rr ∧ rr ≤ 0xDFFF) := by rcases hls' with rfl | rfl <;> omega
          show parseStrBody (f' + 1) (92 :: 117 :: 50 :: 48 :: 50 :: hexLower (rr % 16) :: (escapeBody n (List.drop w (c :: r)) ++ 34 :: rest)) = _
          rw [parseStrBody]
          simp only [show ((92 : UInt8) == 34) = false from rfl, Bool.false_eq_true, ↓reduceIte,
            show ¬ ((92 : UInt8) < 32) from by decide, beq_self_eq_true,
            show ((117 : UInt8) == 34) = false from rfl,
            show ((117 : UInt8) == 92) = false from rfl, show ((117 : UInt8) == 47) = false from rfl,
            show ((117 : UInt8) == 98) = false from rfl, show ((117 : UInt8) == 102) = false from rfl,
            show ((117 : UInt8) == 110) = false from rfl, show ((117 : UInt8) == 114) = false from rfl,
            show ((117 : UInt8) == 116) = false from rfl, u4_linesep rr hls', Bool.and_eq_true, decide_eq_true_eq,
            hnotsur, ih, Option.map_some, ← htake, List.take_append_drop]
        · simp only [hls, Bool.false_eq_true, ↓reduceIte, List.append_assoc, List.length_append] at hf ⊢
          have hlen : ((c :: r).take w).length = w := by simp; omega
          rw [hlen] at hf
          obtain ⟨f'', hf''⟩ : ∃ f'', f' + 1 = f'' + w := ⟨f' + 1 - w, by omega⟩
          have ih := parse_escapeBody n ((c :: r).drop w) f'' rest (by rw [hdroplen]; omega) (by omega) hv'
          have hrun := parseStrBody_copy_run ((c :: r).take w) f'' (escapeBody n ((c :: r).drop w) ++ 34 :: rest)
            (by
              intro x hx
              have := hbytes x hx
              refine ⟨?_, ?_, ?_⟩
              · intro h; subst h; simp at this
              · simp only [UInt8.lt_iff_toNat_lt]; simp; omega
              · intro h; subst h; simp at this)
          rw [hlen] at hrun
          rw [hf'', hrun, ih]
          simp [List.take_append_drop]

/-- `jwriter.String(s)` followed by anything is read by the strict parser as the string `s` -/
theorem parseValue_jsonString (s rest : Bytes) (fuel : Nat) (hv : Utf8.validUtf8 s = true) :
    parseValue (fuel + 1) (jsonString s ++ rest) = some (.str s, rest) := by
  unfold jsonString
  simp only [List.cons_append, List.append_assoc, List.nil_append, parseValue, skipWs, isWs,
    show ((34 : UInt8) == 32) = false from rfl, show ((34 : UInt8) == 9) = false from rfl,
    show ((34 : UInt8) == 10) = false from rfl, show ((34 : UInt8) == 13) = false from rfl, Bool.or_self,
    Bool.false_eq_true, ↓reduceIte, beq_self_eq_true]
  rw [parse_escapeBody s.length s _ rest (Nat.le_refl _) (by simp; omega) hv]
  rfl

end Restli.Json
