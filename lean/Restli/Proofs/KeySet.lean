import Restli.Model.KeySet
/-! Helper lemmas for C16. Property statements live in `Props/C16.lean`. -/
namespace Restli.KeySet
open Restli

variable {α V : Type}

/-! ## buckets -/

theorem bucketOf_mem {h : UInt32} {bs : List (UInt32 × List (Key α))} {k : Key α}
    (hk : k ∈ bucketOf h bs) : (h, bucketOf h bs) ∈ bs := by
  induction bs with
  | nil => simp [bucketOf] at hk
  | cons hb rest ih =>
    obtain ⟨h', b⟩ := hb
    simp only [bucketOf] at hk ⊢
    by_cases e : h' = h
    · subst e; simp
    · have : (h' == h) = false := by simpa using e
      simp only [this, Bool.false_eq_true, ↓reduceIte] at hk ⊢
      exact List.mem_cons_of_mem _ (ih hk)

theorem bucketOf_of_mem {h : UInt32} {b : List (Key α)} {bs : List (UInt32 × List (Key α))}
    (hn : (bs.map (·.1)).Nodup) (hm : (h, b) ∈ bs) : bucketOf h bs = b := by
  induction bs with
  | nil => simp at hm
  | cons hb rest ih =>
    obtain ⟨h', b'⟩ := hb
    simp only [List.map_cons, List.nodup_cons] at hn
    simp only [bucketOf]
    rcases List.mem_cons.1 hm with heq | hin
    · cases heq; simp
    · have hne : h' ≠ h := by
        intro e; subst e
        exact hn.1 (List.mem_map.2 ⟨(h', b), hin, rfl⟩)
      have : (h' == h) = false := by simpa using hne
      simp only [this, Bool.false_eq_true, ↓reduceIte]
      exact ih hn.2 hin

theorem mem_allKeys {s : GenericSet α} {k : Key α} :
    k ∈ s.allKeys ↔ ∃ hb ∈ s.buckets, k ∈ hb.2 := by
  simp [GenericSet.allKeys, List.mem_flatMap]

/-- hashes of the buckets are distinct and every key sits in the bucket of its own hash -/
structure BucketsWF (O : KeyOps α) (bs : List (UInt32 × List (Key α))) : Prop where
  nodup : (bs.map (·.1)).Nodup
  hash : ∀ hb ∈ bs, ∀ k ∈ hb.2, O.hash k.val = hb.1

/-- inside a bucket, a later key is not `equals` to an earlier one (what `AddKey` checked) -/
def BucketsSep (O : KeyOps α) (bs : List (UInt32 × List (Key α))) : Prop :=
  ∀ hb ∈ bs, hb.2.Pairwise (fun a b => O.eq b.val a.val = false)

/-- the representation invariant of a key set built by `AddKey` calls -/
structure Good (O : KeyOps α) (s : GenericSet α) : Prop where
  wf : BucketsWF O s.buckets
  sep : BucketsSep O s.buckets
  count : s.keyCount = s.allKeys.length

theorem good_empty (O : KeyOps α) : Good O (GenericSet.empty : GenericSet α) :=
  ⟨⟨by simp [GenericSet.empty], by simp [GenericSet.empty]⟩, by simp [BucketsSep, GenericSet.empty],
   by simp [GenericSet.empty, GenericSet.allKeys]⟩

theorem mem_allKeys_iff_bucket {O : KeyOps α} {s : GenericSet α} (g : Good O s) {k : Key α} :
    k ∈ s.allKeys ↔ k ∈ bucketOf (O.hash k.val) s.buckets := by
  rw [mem_allKeys]
  constructor
  · intro ⟨⟨h, b⟩, hin, hk⟩
    have := g.wf.hash (h, b) hin k hk
    simp only at this hk
    rw [this, bucketOf_of_mem g.wf.nodup hin]
    exact hk
  · intro hk
    exact ⟨_, bucketOf_mem hk, hk⟩

theorem setBucket_fst (h : UInt32) (b : List (Key α)) (bs : List (UInt32 × List (Key α))) :
    (setBucket h b bs).map (·.1) =
      if h ∈ bs.map (·.1) then bs.map (·.1) else bs.map (·.1) ++ [h] := by
  induction bs with
  | nil => simp [setBucket]
  | cons hb rest ih =>
    obtain ⟨h', b'⟩ := hb
    simp only [setBucket]
    by_cases e : h' = h
    · subst e; simp
    · have : (h' == h) = false := by simpa using e
      have hne : ¬ h = h' := fun x => e x.symm
      simp only [this, Bool.false_eq_true, ↓reduceIte, List.map_cons, ih, List.mem_cons, hne, false_or]
      split <;> simp

theorem setBucket_nodup {h : UInt32} {b : List (Key α)} {bs : List (UInt32 × List (Key α))}
    (hn : (bs.map (·.1)).Nodup) : ((setBucket h b bs).map (·.1)).Nodup := by
  rw [setBucket_fst]
  split
  · exact hn
  · next hnot =>
    rw [List.nodup_append]
    refine ⟨hn, by simp, ?_⟩
    intro a ha c hc
    simp only [List.mem_singleton] at hc
    subst hc
    intro e; subst e
    exact hnot ha

theorem mem_setBucket {h : UInt32} {b : List (Key α)} {bs : List (UInt32 × List (Key α))}
    (hn : (bs.map (·.1)).Nodup) {hb : UInt32 × List (Key α)} (hm : hb ∈ setBucket h b bs) :
    hb = (h, b) ∨ (hb ∈ bs ∧ hb.1 ≠ h) := by
  induction bs with
  | nil => simp [setBucket] at hm; exact Or.inl hm
  | cons x rest ih =>
    obtain ⟨h', b'⟩ := x
    simp only [List.map_cons, List.nodup_cons] at hn
    simp only [setBucket] at hm
    by_cases e : h' = h
    · subst e
      simp only [beq_self_eq_true, ↓reduceIte, List.mem_cons] at hm
      rcases hm with rfl | hin
      · exact Or.inl rfl
      · refine Or.inr ⟨List.mem_cons_of_mem _ hin, ?_⟩
        intro e2
        exact hn.1 (List.mem_map.2 ⟨hb, hin, e2⟩)
    · have : (h' == h) = false := by simpa using e
      simp only [this, Bool.false_eq_true, ↓reduceIte, List.mem_cons] at hm
      rcases hm with rfl | hin
      · exact Or.inr ⟨List.mem_cons_self, e⟩
      · rcases ih hn.2 hin with h1 | ⟨h1, h2⟩
        · exact Or.inl h1
        · exact Or.inr ⟨List.mem_cons_of_mem _ h1, h2⟩

/-- the keys after `AddKey` are the old keys plus the new one (as a multiset) -/
theorem setBucket_allKeys_perm (h : UInt32) (t : Key α) (bs : List (UInt32 × List (Key α))) :
    ((setBucket h (bucketOf h bs ++ [t]) bs).flatMap (·.2)).Perm (t :: bs.flatMap (·.2)) := by
  induction bs with
  | nil => simp [setBucket, bucketOf]
  | cons x rest ih =>
    obtain ⟨h', b'⟩ := x
    simp only [setBucket, bucketOf]
    by_cases e : h' = h
    · subst e
      simp only [beq_self_eq_true, ↓reduceIte, List.flatMap_cons, List.append_assoc,
        List.singleton_append]
      exact List.perm_middle
    · have : (h' == h) = false := by simpa using e
      simp only [this, Bool.false_eq_true, ↓reduceIte, List.flatMap_cons]
      exact (List.Perm.append_left b' ih).trans List.perm_middle

theorem addKey_eq_none_iff (O : KeyOps α) (s : GenericSet α) (t : Key α) :
    addKey O s t = none ↔ ∃ k ∈ bucketOf (O.hash t.val) s.buckets, O.eq t.val k.val = true := by
  simp only [addKey]
  split
  · next h => simp only [List.any_eq_true] at h; simp [h]
  · next h =>
    simp only [List.any_eq_true] at h
    simp only [reduceCtorEq, false_iff]
    exact h

theorem addKey_allKeys_perm {O : KeyOps α} {s s' : GenericSet α} {t : Key α}
    (h : addKey O s t = some s') : s'.allKeys.Perm (t :: s.allKeys) := by
  simp only [addKey] at h
  split at h
  · simp at h
  · simp only [Option.some.injEq] at h
    subst h
    exact setBucket_allKeys_perm _ t s.buckets

theorem good_addKey {O : KeyOps α} {s s' : GenericSet α} {t : Key α} (g : Good O s)
    (h : addKey O s t = some s') : Good O s' := by
  have hperm := addKey_allKeys_perm h
  simp only [addKey] at h
  split at h
  · simp at h
  · next hany =>
    simp only [Option.some.injEq] at h
    subst h
    simp only [List.any_eq_true, not_exists, not_and, Bool.not_eq_true] at hany
    refine ⟨⟨setBucket_nodup g.wf.nodup, ?_⟩, ?_, ?_⟩
    · intro hb hin k hk
      rcases mem_setBucket g.wf.nodup hin with rfl | ⟨h1, _⟩
      · simp only [List.mem_append, List.mem_singleton] at hk
        rcases hk with hk | rfl
        · have hm := bucketOf_mem hk
          exact g.wf.hash _ hm k hk
        · rfl
      · exact g.wf.hash hb h1 k hk
    · intro hb hin
      rcases mem_setBucket g.wf.nodup hin with rfl | ⟨h1, _⟩
      · simp only
        rw [List.pairwise_append]
        refine ⟨?_, by simp, ?_⟩
        · by_cases hne : bucketOf (O.hash t.val) s.buckets = []
          · rw [hne]; exact List.Pairwise.nil
          · obtain ⟨k, hk⟩ := List.exists_mem_of_ne_nil _ hne
            exact g.sep _ (bucketOf_mem hk)
        · intro a ha b hb'
          simp only [List.mem_singleton] at hb'
          subst hb'
          exact hany a ha
      · exact g.sep hb h1
    · simp only at hperm ⊢
      rw [hperm.length_eq, g.count]
      simp

/-! ## locate -/

theorem find?_unique {β : Type} {R : β → β → Prop} {p : β → Bool} {xs : List β} {k : β}
    (hpw : xs.Pairwise R) (hk : k ∈ xs) (hp : p k = true)
    (hex : ∀ a b, R a b → p a = true → p b = true → False) : xs.find? p = some k := by
  induction xs with
  | nil => simp at hk
  | cons y ys ih =>
    have hy := List.pairwise_cons.1 hpw
    simp only [List.find?_cons]
    cases hpy : p y with
    | true =>
      simp only
      rcases List.mem_cons.1 hk with rfl | hin
      · rfl
      · exact absurd (hex y k (hy.1 k hin) hpy hp) id
    | false =>
      simp only
      rcases List.mem_cons.1 hk with rfl | hin
      · rw [hp] at hpy; cases hpy
      · exact ih hy.2 hin

theorem locate_mem {O : KeyOps α} {s : GenericSet α} {probe o : Key α}
    (h : locate O s probe = some o) : o ∈ s.allKeys ∧ O.eq o.val probe.val = true := by
  simp only [locate] at h
  have hm := List.mem_of_find?_eq_some h
  have hp := List.find?_some h
  exact ⟨mem_allKeys.2 ⟨_, bucketOf_mem hm, hm⟩, hp⟩

/-- the located key is the stored key Equal to the probe — the very object, identity included -/
theorem locate_eq_some {O : KeyOps α} {s : GenericSet α} (g : Good O s) {k probe : Key α}
    (hk : k ∈ s.allKeys) (he : O.eq k.val probe.val = true)
    (hhash : O.hash k.val = O.hash probe.val)
    (hsymm : ∀ a ∈ s.allKeys, O.eq a.val probe.val = true → O.eq probe.val a.val = true)
    (htrans : ∀ a ∈ s.allKeys, ∀ b ∈ s.allKeys, O.eq b.val probe.val = true →
      O.eq probe.val a.val = true → O.eq b.val a.val = true) :
    locate O s probe = some k := by
  simp only [locate]
  have hkb : k ∈ bucketOf (O.hash probe.val) s.buckets := by
    rw [← hhash]; exact (mem_allKeys_iff_bucket g).1 hk
  have hbm := bucketOf_mem hkb
  have hsub : ∀ a ∈ bucketOf (O.hash probe.val) s.buckets, a ∈ s.allKeys :=
    fun a ha => mem_allKeys.2 ⟨_, hbm, ha⟩
  -- strengthen the pairwise relation with membership so that the laws can be applied
  have hpw := g.sep _ hbm
  simp only at hpw
  have hpw' : (bucketOf (O.hash probe.val) s.buckets).Pairwise
      (fun a b => a ∈ s.allKeys ∧ b ∈ s.allKeys ∧ O.eq b.val a.val = false) := by
    have := List.Pairwise.and_mem.1 hpw
    exact this.imp (fun ⟨ha, hb, hr⟩ => ⟨hsub _ ha, hsub _ hb, hr⟩)
  apply find?_unique hpw' hkb he
  intro a b ⟨ha, hb, hr⟩ hpa hpb
  have := htrans a ha b hb hpb (hsymm a ha hpa)
  rw [hr] at this
  cases this

theorem locate_eq_none {O : KeyOps α} {s : GenericSet α} {probe : Key α}
    (h : ∀ k ∈ s.allKeys, O.eq k.val probe.val = false) : locate O s probe = none := by
  simp only [locate, List.find?_eq_none]
  intro x hx
  have := h x (mem_allKeys.2 ⟨_, bucketOf_mem hx, hx⟩)
  simp [this]

/-! ## all stored keys are pairwise inequivalent (needs hash congruence across buckets) -/

theorem pairwise_flatMap_buckets {R : Key α → Key α → Prop}
    (bs : List (UInt32 × List (Key α)))
    (hin : ∀ hb ∈ bs, hb.2.Pairwise R)
    (hcross : ∀ x ∈ bs, ∀ y ∈ bs, x.1 ≠ y.1 → ∀ a ∈ x.2, ∀ b ∈ y.2, R a b)
    (hn : (bs.map (·.1)).Nodup) : (bs.flatMap (·.2)).Pairwise R := by
  induction bs with
  | nil => simp
  | cons x rest ih =>
    simp only [List.map_cons, List.nodup_cons] at hn
    simp only [List.flatMap_cons, List.pairwise_append]
    refine ⟨hin x List.mem_cons_self, ?_, ?_⟩
    · exact ih (fun hb h => hin hb (List.mem_cons_of_mem _ h))
        (fun a ha b hb => hcross a (List.mem_cons_of_mem _ ha) b (List.mem_cons_of_mem _ hb)) hn.2
    · intro a ha b hb
      simp only [List.mem_flatMap] at hb
      obtain ⟨y, hy, hby⟩ := hb
      have hne : x.1 ≠ y.1 := by
        intro e
        exact hn.1 (List.mem_map.2 ⟨y, hy, e.symm⟩)
      exact hcross x List.mem_cons_self y (List.mem_cons_of_mem _ hy) hne a ha b hby

theorem allKeys_sep {O : KeyOps α} {s : GenericSet α} (g : Good O s)
    (hcongr : ∀ a ∈ s.allKeys, ∀ b ∈ s.allKeys, O.eq b.val a.val = true → O.hash b.val = O.hash a.val) :
    s.allKeys.Pairwise (fun a b => O.eq b.val a.val = false) := by
  apply pairwise_flatMap_buckets s.buckets g.sep _ g.wf.nodup
  intro x hx y hy hne a ha b hb
  cases he : O.eq b.val a.val with
  | false => rfl
  | true =>
    have h1 := hcongr a (mem_allKeys.2 ⟨x, hx, ha⟩) b (mem_allKeys.2 ⟨y, hy, hb⟩) he
    rw [g.wf.hash x hx a ha, g.wf.hash y hy b hb] at h1
    exact absurd h1.symm hne

/-! ## sorting byte strings -/

theorem bytesLe_refl (a : Bytes) : bytesLe a a = true := by
  induction a with
  | nil => rfl
  | cons x xs ih => simp [bytesLe, ih]

theorem bytesLe_total (a b : Bytes) : (bytesLe a b || bytesLe b a) = true := by
  induction a generalizing b with
  | nil => simp [bytesLe]
  | cons x xs ih =>
    cases b with
    | nil => simp [bytesLe]
    | cons y ys =>
      simp only [bytesLe]
      by_cases hxy : x < y
      · simp [hxy]
      · by_cases hyx : y < x
        · simp [hxy, hyx]
        · have : x = y := UInt8.le_antisymm (UInt8.not_lt.1 hyx) (UInt8.not_lt.1 hxy)
          subst this
          simpa [hxy] using ih ys

theorem bytesLe_antisymm (a b : Bytes) (h₁ : bytesLe a b = true) (h₂ : bytesLe b a = true) :
    a = b := by
  induction a generalizing b with
  | nil => cases b with
    | nil => rfl
    | cons y ys => simp [bytesLe] at h₂
  | cons x xs ih =>
    cases b with
    | nil => simp [bytesLe] at h₁
    | cons y ys =>
      simp only [bytesLe] at h₁ h₂
      by_cases hxy : x < y
      · have hyx : ¬ y < x := fun h => absurd (UInt8.lt_trans hxy h) (UInt8.lt_irrefl x)
        have hne : ¬ y = x := fun e => by subst e; exact UInt8.lt_irrefl _ hxy
        simp [hyx, hne] at h₂
      · by_cases hyx : y < x
        · have hne : ¬ x = y := fun e => by subst e; exact UInt8.lt_irrefl _ hyx
          simp [hxy, hne] at h₁
        · have : x = y := UInt8.le_antisymm (UInt8.not_lt.1 hyx) (UInt8.not_lt.1 hxy)
          subst this
          simp [hxy] at h₁ h₂
          rw [ih ys h₁ h₂]

theorem bytesLe_trans (a b c : Bytes) (h₁ : bytesLe a b = true) (h₂ : bytesLe b c = true) :
    bytesLe a c = true := by
  induction a generalizing b c with
  | nil => simp [bytesLe]
  | cons x xs ih =>
    cases b with
    | nil => simp [bytesLe] at h₁
    | cons y ys =>
      cases c with
      | nil => simp [bytesLe] at h₂
      | cons z zs =>
        simp only [bytesLe] at h₁ h₂ ⊢
        by_cases hxy : x < y
        · by_cases hyz : y < z
          · simp [UInt8.lt_trans hxy hyz]
          · by_cases eyz : y = z
            · subst eyz; simp [hxy]
            · simp [hyz, eyz] at h₂
        · by_cases exy : x = y
          · subst exy
            simp only [hxy, ↓reduceIte, beq_self_eq_true] at h₁
            by_cases hyz : x < z
            · simp [hyz]
            · by_cases eyz : x = z
              · subst eyz
                simp only [hyz, ↓reduceIte, beq_self_eq_true] at h₂ ⊢
                exact ih ys zs h₁ h₂
              · simp [hyz, eyz] at h₂
          · simp [hxy, exy] at h₁

theorem sortIds_perm {l l' : List Bytes} (h : l.Perm l') : isort bytesLe l = isort bytesLe l' :=
  isort_eq_of_perm bytesLe bytesLe_trans bytesLe_total bytesLe_antisymm h

theorem sortIds_sorted (l : List Bytes) : (isort bytesLe l).Pairwise (fun a b => bytesLe a b = true) :=
  isort_pairwise bytesLe bytesLe_trans bytesLe_total l

/-! ## encoding -/

theorem mapM_encode_some (encode : α → Option Bytes) (enc : α → Bytes) (keys : List (Key α))
    (h : ∀ k ∈ keys, encode k.val = some (enc k.val)) :
    keys.mapM (fun k => encode k.val) = some (keys.map (fun k => enc k.val)) := by
  induction keys with
  | nil => rfl
  | cons k ks ih =>
    have hk := h k List.mem_cons_self
    have ih' := ih (fun x hx => h x (List.mem_cons_of_mem _ hx))
    simp [List.mapM_cons, hk, ih']

theorem mapM_encode_none (encode : α → Option Bytes) (keys : List (Key α))
    (h : ∃ k ∈ keys, encode k.val = none) : keys.mapM (fun k => encode k.val) = none := by
  induction keys with
  | nil => simp at h
  | cons k ks ih =>
    obtain ⟨x, hx, hnone⟩ := h
    simp only [List.mapM_cons]
    cases hk : encode k.val with
    | none => rfl
    | some e =>
      rcases List.mem_cons.1 hx with rfl | hin
      · rw [hnone] at hk; cases hk
      · simp [ih ⟨x, hin, hnone⟩]

/-! ## filling a response map -/

/-- annotated entries: raw key, the original it is located to, the decoded value -/
abbrev AEntry (α V : Type) := Bytes × Key α × V

def AEntry.plain (e : AEntry α V) : Bytes × Option V := (e.1, some e.2.2)
def AEntry.filed (e : AEntry α V) : Key α × V := (e.2.1, e.2.2)

/-- no key of the list is Go-equal to an earlier one -/
def NoRepeat (goEq : Key α → Key α → Bool) (ks : List (Key α)) : Prop :=
  ks.Pairwise (fun a b => goEq a b = false)

theorem fillField_ok (locator : Bytes → Except ErrClass (Key α)) (goEq : Key α → Key α → Bool)
    (m : List (Key α × V)) (es : List (AEntry α V))
    (hloc : ∀ e ∈ es, locator e.1 = .ok e.2.1)
    (hnr : NoRepeat goEq (m.map (·.1) ++ es.map (·.2.1))) :
    fillField locator goEq m (es.map AEntry.plain) = .ok (m ++ es.map AEntry.filed) := by
  induction es generalizing m with
  | nil => simp [fillField]
  | cons e rest ih =>
    obtain ⟨raw, o, v⟩ := e
    have h1 := hloc (raw, o, v) List.mem_cons_self
    simp only at h1
    have hfresh : m.any (fun kv => goEq kv.1 o) = false := by
      rw [List.any_eq_false]
      intro x hx
      simp only [NoRepeat] at hnr
      rw [List.pairwise_append] at hnr
      have := hnr.2.2 x.1 (List.mem_map.2 ⟨x, hx, rfl⟩) o (by simp)
      simp [this]
    simp only [List.map_cons, AEntry.plain, fillField, h1, hfresh, Bool.false_eq_true, ↓reduceIte]
    have := ih (m ++ [(o, v)]) (fun e he => hloc e (List.mem_cons_of_mem _ he)) (by
      simpa [NoRepeat, List.map_append, List.append_assoc] using hnr)
    rw [this]
    simp [AEntry.filed]

/-- a successful fill located every raw key, refused none, and appended **exactly** the entries
re-keyed by their originals, which are pairwise distinct keys -/
theorem fillField_sound (locator : Bytes → Except ErrClass (Key α)) (goEq : Key α → Key α → Bool)
    (m m' : List (Key α × V)) (entries : List (Bytes × Option V))
    (h : fillField locator goEq m entries = .ok m') :
    ∃ es : List (AEntry α V), entries = es.map AEntry.plain ∧
      (∀ e ∈ es, locator e.1 = .ok e.2.1) ∧ m' = m ++ es.map AEntry.filed ∧
      (NoRepeat goEq (m.map (·.1)) → NoRepeat goEq (m'.map (·.1))) := by
  induction entries generalizing m with
  | nil =>
    simp only [fillField, Except.ok.injEq] at h
    subst h
    exact ⟨[], rfl, by simp, by simp, id⟩
  | cons e rest ih =>
    obtain ⟨raw, v⟩ := e
    simp only [fillField] at h
    cases hl : locator raw with
    | error x => simp [hl] at h
    | ok o =>
      simp only [hl] at h
      cases hany : m.any (fun kv => goEq kv.1 o) with
      | true => simp [hany] at h
      | false =>
        simp only [hany, Bool.false_eq_true, ↓reduceIte] at h
        cases v with
        | none => simp at h
        | some v =>
          obtain ⟨es, h1, h2, h3, h4⟩ := ih _ h
          refine ⟨(raw, o, v) :: es, ?_, ?_, ?_, ?_⟩
          · simp [AEntry.plain, h1]
          · intro e he
            rcases List.mem_cons.1 he with rfl | hin
            · exact hl
            · exact h2 e hin
          · simp [h3, AEntry.filed]
          · intro hm
            apply h4
            simp only [NoRepeat, List.map_append, List.map_cons, List.map_nil, List.pairwise_append]
            refine ⟨hm, by simp, ?_⟩
            intro a ha b hb
            simp only [List.mem_singleton] at hb
            subst hb
            obtain ⟨x, hx, rfl⟩ := List.mem_map.1 ha
            have := (List.any_eq_false.1 hany) x hx
            simpa using this

theorem fillField_error_of_unlocated (locator : Bytes → Except ErrClass (Key α))
    (goEq : Key α → Key α → Bool) (m : List (Key α × V)) (entries : List (Bytes × Option V))
    (h : ∃ e ∈ entries, ∃ x, locator e.1 = .error x) :
    ∃ x, fillField locator goEq m entries = .error x := by
  cases hf : fillField locator goEq m entries with
  | error x => exact ⟨x, rfl⟩
  | ok m' =>
    obtain ⟨es, h1, h2, _, _⟩ := fillField_sound locator goEq m m' entries hf
    obtain ⟨e, he, x, hx⟩ := h
    rw [h1] at he
    obtain ⟨a, ha, rfl⟩ := List.mem_map.1 he
    have := h2 a ha
    simp only [AEntry.plain] at hx
    rw [hx] at this
    cases this

/-- a key that already has an entry is refused -/
theorem fillField_repeated (locator : Bytes → Except ErrClass (Key α)) (goEq : Key α → Key α → Bool)
    (m : List (Key α × V)) (raw : Bytes) (v : Option V) (rest : List (Bytes × Option V)) (o : Key α)
    (hl : locator raw = .ok o) (hp : ∃ kv ∈ m, goEq kv.1 o = true) :
    fillField locator goEq m ((raw, v) :: rest) = .error .repeatedKey := by
  have : m.any (fun kv => goEq kv.1 o) = true := List.any_eq_true.2 hp
  simp [fillField, hl, this]

/-! ## duplicates, with hash congruence -/

/-- Equal keys among `keys` have equal hashes (C10's `hash_congr`, restricted to the keys at hand) -/
def HashCongrOn (O : KeyOps α) (keys : List (Key α)) : Prop :=
  ∀ a ∈ keys, ∀ b ∈ keys, O.eq a.val b.val = true → O.hash a.val = O.hash b.val

theorem HashCongrOn.mono {O : KeyOps α} {ks ks' : List (Key α)} (h : HashCongrOn O ks)
    (hsub : ∀ k ∈ ks', k ∈ ks) : HashCongrOn O ks' :=
  fun a ha b hb => h a (hsub a ha) b (hsub b hb)

theorem addKey_none_iff_dup {O : KeyOps α} {s : GenericSet α} (g : Good O s) (t : Key α)
    (hc : HashCongrOn O (t :: s.allKeys)) :
    addKey O s t = none ↔ ∃ k ∈ s.allKeys, O.eq t.val k.val = true := by
  rw [addKey_eq_none_iff]
  constructor
  · intro ⟨k, hk, he⟩
    exact ⟨k, mem_allKeys.2 ⟨_, bucketOf_mem hk, hk⟩, he⟩
  · intro ⟨k, hk, he⟩
    have hh := hc t List.mem_cons_self k (List.mem_cons_of_mem _ hk) he
    refine ⟨k, ?_, he⟩
    rw [hh]
    exact (mem_allKeys_iff_bucket g).1 hk

/-- "no key of `ts` duplicates an earlier one or a key already in the set" -/
def NoDups (O : KeyOps α) (old ts : List (Key α)) : Prop :=
  (∀ t ∈ ts, ∀ k ∈ old, O.eq t.val k.val = false) ∧ ts.Pairwise (fun a b => O.eq b.val a.val = false)

theorem addAllFrom_spec {O : KeyOps α} (ts : List (Key α)) (i : Nat) (s : GenericSet α)
    (g : Good O s) (hc : HashCongrOn O (s.allKeys ++ ts)) :
    (NoDups O s.allKeys ts → ∃ s', addAllFrom (addKey O) i s ts = .inr s' ∧ Good O s' ∧
        s'.allKeys.Perm (s.allKeys ++ ts)) ∧
    (¬ NoDups O s.allKeys ts → ∃ j, addAllFrom (addKey O) i s ts = .inl j) := by
  induction ts generalizing i s with
  | nil =>
    refine ⟨fun _ => ⟨s, rfl, g, by simp⟩, fun h => ?_⟩
    exact absurd (⟨by simp, List.Pairwise.nil⟩ : NoDups O s.allKeys []) h
  | cons t ts ih =>
    have hct : HashCongrOn O (t :: s.allKeys) :=
      hc.mono (fun k hk => by
        rcases List.mem_cons.1 hk with rfl | h
        · simp
        · simp [h])
    have hiff := addKey_none_iff_dup g t hct
    simp only [addAllFrom]
    cases hadd : addKey O s t with
    | none =>
      obtain ⟨k, hk, he⟩ := hiff.1 hadd
      refine ⟨fun hnd => ?_, fun _ => ⟨i, rfl⟩⟩
      have := hnd.1 t List.mem_cons_self k hk
      rw [he] at this; cases this
    | some s1 =>
      have g1 := good_addKey g hadd
      have hperm := addKey_allKeys_perm hadd
      have hnone : ¬ ∃ k ∈ s.allKeys, O.eq t.val k.val = true := by
        intro h; have := hiff.2 h; rw [hadd] at this; cases this
      have hc1 : HashCongrOn O (s1.allKeys ++ ts) :=
        hc.mono (fun k hk => by
          rcases List.mem_append.1 hk with h | h
          · rcases List.mem_cons.1 (hperm.mem_iff.1 h) with rfl | h'
            · simp
            · simp [h']
          · simp [h])
      obtain ⟨ih1, ih2⟩ := ih (i + 1) s1 g1 hc1
      have hnd_iff : NoDups O s.allKeys (t :: ts) ↔ NoDups O s1.allKeys ts := by
        simp only [NoDups, List.pairwise_cons, List.mem_cons, forall_eq_or_imp]
        constructor
        · intro ⟨⟨_, h2⟩, h3, h4⟩
          refine ⟨fun t' ht' k hk => ?_, h4⟩
          rcases List.mem_cons.1 (hperm.mem_iff.1 hk) with rfl | hk'
          · exact h3 t' ht'
          · exact h2 t' ht' k hk'
        · intro ⟨h1, h2⟩
          refine ⟨⟨fun k hk => ?_, fun t' ht' k hk => ?_⟩, fun t' ht' => ?_, h2⟩
          · cases he : O.eq t.val k.val with
            | false => rfl
            | true => exact absurd ⟨k, hk, he⟩ hnone
          · exact h1 t' ht' k (hperm.mem_iff.2 (List.mem_cons_of_mem _ hk))
          · exact h1 t' ht' t (hperm.mem_iff.2 List.mem_cons_self)
      refine ⟨fun hnd => ?_, fun hnd => ?_⟩
      · obtain ⟨s', h1, h2, h3⟩ := ih1 (hnd_iff.1 hnd)
        refine ⟨s', h1, h2, h3.trans ?_⟩
        exact (List.Perm.append_right ts hperm).trans (by simpa using List.perm_middle.symm)
      · exact ih2 (fun h => hnd (hnd_iff.2 h))

/-! ## the response document -/

/-- an annotated document: every entry carries the original it is located to -/
abbrev ADoc (α V : Type) := List (FieldTag × List (AEntry α V))

def ADoc.plain (d : ADoc α V) : List (FieldTag × List (Bytes × Option V)) :=
  d.map (fun f => (f.1, f.2.map AEntry.plain))

def BatchResponse.get (b : BatchResponse α V) : FieldTag → Option (List (Key α × V))
  | .results => b.results
  | .statuses => b.statuses
  | .errors => b.errors
  | .other => none

def BatchResponse.set (b : BatchResponse α V) (m : List (Key α × V)) : FieldTag → BatchResponse α V
  | .results => { b with results := some m }
  | .statuses => { b with statuses := some m }
  | .errors => { b with errors := some m }
  | .other => b

/-- what the property asks for: every field's entries, re-keyed by their originals, in order -/
def specFields (b : BatchResponse α V) : ADoc α V → BatchResponse α V
  | [] => b
  | (tag, es) :: rest => specFields (b.set (es.map AEntry.filed) tag) rest

theorem BatchResponse.get_set (b : BatchResponse α V) (m : List (Key α × V)) (t t' : FieldTag)
    (ht : t ≠ .other) : (b.set m t).get t' = if t' = t then some m else b.get t' := by
  cases t <;> cases t' <;> simp_all [BatchResponse.get, BatchResponse.set]

/-- one step of the field loop, for any of the three known fields -/
theorem unmarshalFields_known (strict : Bool) (locator : Bytes → Except ErrClass (Key α))
    (goEq : Key α → Key α → Bool) (seen : List FieldTag) (b : BatchResponse α V) (tag : FieldTag)
    (entries : List (Bytes × Option V)) (rest : List (FieldTag × List (Bytes × Option V)))
    (ht : tag ≠ .other) :
    unmarshalFields strict locator goEq seen b ((tag, entries) :: rest) =
      if seen.contains tag then .error .repeatedField else
      match fillField locator goEq [] entries with
      | .error e => .error e
      | .ok m => unmarshalFields strict locator goEq (tag :: seen) (b.set m tag) rest := by
  cases tag with
  | other => exact absurd rfl ht
  | results =>
    simp only [unmarshalFields, BatchResponse.set]
    split
    · rfl
    · cases fillField locator goEq [] entries <;> rfl
  | statuses =>
    simp only [unmarshalFields, BatchResponse.set]
    split
    · rfl
    · cases fillField locator goEq [] entries <;> rfl
  | errors =>
    simp only [unmarshalFields, BatchResponse.set]
    split
    · rfl
    · cases fillField locator goEq [] entries <;> rfl

/-- hypotheses under which a document is read without loss: every raw key is located to its
annotation, no field mentions one original twice, and — where the implementation rejects them
(v2) — there is no member besides the three fields -/
def ADoc.Located (strict : Bool) (locator : Bytes → Except ErrClass (Key α))
    (goEq : Key α → Key α → Bool) (d : ADoc α V) : Prop :=
  ∀ f ∈ d, (f.1 = .other → strict = false) ∧ (f.1 ≠ .other →
    (∀ e ∈ f.2, locator e.1 = .ok e.2.1) ∧ NoRepeat goEq (f.2.map (·.2.1)))

/-- each of the three known fields occurs at most once, and none was met before -/
def FieldsOnce (seen : List FieldTag) : List FieldTag → Prop
  | [] => True
  | t :: rest => (t ≠ .other → t ∉ seen ∧ t ∉ rest) ∧ FieldsOnce seen rest

theorem FieldsOnce.cons_seen {seen : List FieldTag} {tags : List FieldTag} {t : FieldTag}
    (h : FieldsOnce seen tags) (ht : t ∉ tags) : FieldsOnce (t :: seen) tags := by
  induction tags with
  | nil => trivial
  | cons x rest ih =>
    simp only [List.mem_cons, not_or] at ht
    refine ⟨fun hne => ?_, ih h.2 ht.2⟩
    obtain ⟨h1, h2⟩ := h.1 hne
    refine ⟨?_, h2⟩
    simp only [List.mem_cons, not_or]
    exact ⟨fun e => ht.1 e.symm, h1⟩

theorem FieldsOnce.not_mem_post {seen : List FieldTag} {t : FieldTag} (pre post : List FieldTag)
    (h : FieldsOnce seen (pre ++ t :: post)) (ht : t ≠ .other) : t ∉ post := by
  induction pre with
  | nil => exact (h.1 ht).2
  | cons x xs ih => exact ih h.2

theorem unmarshalFields_ok (strict : Bool) (locator : Bytes → Except ErrClass (Key α))
    (goEq : Key α → Key α → Bool) (d : ADoc α V) (seen : List FieldTag) (b : BatchResponse α V)
    (h : d.Located strict locator goEq) (honce : FieldsOnce seen (d.map (·.1))) :
    unmarshalFields strict locator goEq seen b d.plain = .ok (specFields b d) := by
  induction d generalizing seen b with
  | nil => rfl
  | cons f rest ih =>
    obtain ⟨tag, es⟩ := f
    have hrest : ADoc.Located strict locator goEq rest := fun f hf => h f (List.mem_cons_of_mem _ hf)
    have hf := h (tag, es) List.mem_cons_self
    simp only [List.map_cons, FieldsOnce] at honce
    by_cases ht : tag = .other
    · subst ht
      have hs := hf.1 rfl
      subst hs
      simp only [ADoc.plain, List.map_cons, unmarshalFields, Bool.false_eq_true, ↓reduceIte, specFields,
        BatchResponse.set]
      exact ih seen b hrest honce.2
    · obtain ⟨h1, h2⟩ := hf.2 ht
      obtain ⟨hns, hnr⟩ := honce.1 ht
      have hfill := fillField_ok locator goEq ([] : List (Key α × V)) es h1 (by simpa using h2)
      have hc : seen.contains tag = false := by simpa using hns
      simp only [ADoc.plain, List.map_cons]
      rw [unmarshalFields_known strict locator goEq seen b tag _ _ ht]
      simp only [hc, Bool.false_eq_true, ↓reduceIte, hfill, List.nil_append, specFields]
      exact ih (tag :: seen) _ hrest (honce.2.cons_seen hnr)

theorem specFields_get_absent (b : BatchResponse α V) (d : ADoc α V) (t : FieldTag)
    (h : t ∉ d.map (·.1)) : (specFields b d).get t = b.get t := by
  induction d generalizing b with
  | nil => rfl
  | cons f rest ih =>
    obtain ⟨tag, es⟩ := f
    simp only [List.map_cons, List.mem_cons, not_or] at h
    simp only [specFields]
    rw [ih _ h.2]
    cases tag with
    | other => rfl
    | _ =>
      rw [BatchResponse.get_set _ _ _ _ (by simp)]
      simp [h.1]

/-- the last occurrence of a field decides its content -/
theorem specFields_get_last (b : BatchResponse α V) (pre post : ADoc α V) (t : FieldTag)
    (es : List (AEntry α V)) (ht : t ≠ .other) (hlast : t ∉ post.map (·.1)) :
    (specFields b (pre ++ (t, es) :: post)).get t = some (es.map AEntry.filed) := by
  induction pre generalizing b with
  | nil =>
    simp only [List.nil_append, specFields]
    rw [specFields_get_absent _ _ _ hlast, BatchResponse.get_set _ _ _ _ ht]
    simp
  | cons f rest ih =>
    obtain ⟨tag, es'⟩ := f
    simp only [List.cons_append, specFields]
    exact ih _

/-- soundness of the field loop: if it succeeds, then (i) fields met before are untouched,
(ii) fields the document does not name are untouched, (iii) every known field of the document was
read in full: all its raw keys located, pairwise distinct originals, and the resulting map is
exactly its entries re-keyed by those originals, (iv) where unknown members are errors there was none -/
theorem unmarshalFields_sound (strict : Bool) (locator : Bytes → Except ErrClass (Key α))
    (goEq : Key α → Key α → Bool) (doc : List (FieldTag × List (Bytes × Option V)))
    (seen : List FieldTag) (b b' : BatchResponse α V)
    (h : unmarshalFields strict locator goEq seen b doc = .ok b') :
    (∀ t ∈ seen, b'.get t = b.get t) ∧
    (∀ t, t ∉ doc.map (·.1) → b'.get t = b.get t) ∧
    (∀ f ∈ doc, f.1 ≠ .other → ∃ es : List (AEntry α V), f.2 = es.map AEntry.plain ∧
        (∀ e ∈ es, locator e.1 = .ok e.2.1) ∧ NoRepeat goEq (es.map (·.2.1)) ∧
        b'.get f.1 = some (es.map AEntry.filed)) ∧
    (strict = true → ∀ f ∈ doc, f.1 ≠ .other) := by
  induction doc generalizing seen b with
  | nil =>
    simp only [unmarshalFields, Except.ok.injEq] at h
    subst h
    exact ⟨fun _ _ => rfl, fun _ _ => rfl, by simp, by simp⟩
  | cons f rest ih =>
    obtain ⟨tag, entries⟩ := f
    by_cases ht : tag = .other
    · subst ht
      simp only [unmarshalFields] at h
      rcases Bool.eq_false_or_eq_true strict with hs | hs
      · subst hs; simp at h
      · subst hs
        simp only [Bool.false_eq_true, ↓reduceIte] at h
        obtain ⟨i1, i2, i3, _⟩ := ih seen b h
        refine ⟨i1, fun t hnt => i2 t (fun hin => hnt (List.mem_cons_of_mem _ hin)), ?_, by simp⟩
        intro f hf hne
        rcases List.mem_cons.1 hf with rfl | hin
        · exact absurd rfl hne
        · exact i3 f hin hne
    · rw [unmarshalFields_known strict locator goEq seen b tag entries rest ht] at h
      by_cases hmem : tag ∈ seen
      · simp [hmem] at h
      · have hc : seen.contains tag = false := by simpa using hmem
        simp only [hc, Bool.false_eq_true, ↓reduceIte] at h
        cases hfill : fillField locator goEq [] entries with
        | error x => simp [hfill] at h
        | ok m1 =>
          simp only [hfill] at h
          obtain ⟨es, e1, e2, e3, e4⟩ := fillField_sound locator goEq [] m1 entries hfill
          obtain ⟨i1, i2, i3, i4⟩ := ih (tag :: seen) (b.set m1 tag) h
          have hnotseen : tag ∉ seen := by simpa using hc
          have hget : b'.get tag = some m1 := by
            rw [i1 tag List.mem_cons_self, BatchResponse.get_set _ _ _ _ ht]; simp
          refine ⟨?_, ?_, ?_, ?_⟩
          · intro t hts
            rw [i1 t (List.mem_cons_of_mem _ hts), BatchResponse.get_set _ _ _ _ ht]
            have : t ≠ tag := fun e => hnotseen (e ▸ hts)
            simp [this]
          · intro t hnt
            simp only [List.map_cons, List.mem_cons, not_or] at hnt
            by_cases hr : t ∈ rest.map (·.1)
            · exact absurd hr hnt.2
            · rw [i2 t hr, BatchResponse.get_set _ _ _ _ ht]
              simp [hnt.1]
          · intro f hf hne
            rcases List.mem_cons.1 hf with rfl | hin
            · refine ⟨es, e1, e2, ?_, ?_⟩
              · have := e4 (by simp [NoRepeat])
                simpa [e3, AEntry.filed, List.map_map, Function.comp_def] using this
              · simp only
                rw [hget, e3]; simp
            · exact i3 f hin hne
          · intro hs f hf
            rcases List.mem_cons.1 hf with rfl | hin
            · exact ht
            · exact i4 hs f hin

/-- a field met for the second time is an error -/
theorem unmarshalFields_repeated_field (strict : Bool) (locator : Bytes → Except ErrClass (Key α))
    (goEq : Key α → Key α → Bool) (seen : List FieldTag) (b : BatchResponse α V) (tag : FieldTag)
    (entries : List (Bytes × Option V)) (rest : List (FieldTag × List (Bytes × Option V)))
    (ht : tag ≠ .other) (hs : tag ∈ seen) :
    unmarshalFields strict locator goEq seen b ((tag, entries) :: rest) = .error .repeatedField := by
  rw [unmarshalFields_known strict locator goEq seen b tag entries rest ht]
  simp [hs]

/-! ## distinct encodings -/

/-- inequivalent keys have different encodings -/
def EncInj (O : KeyOps α) (enc : α → Bytes) : Prop := ∀ a b, O.eq a b = false → enc a ≠ enc b

theorem enc_nodup {O : KeyOps α} {s : GenericSet α} (g : Good O s) (enc : α → Bytes)
    (hc : HashCongrOn O s.allKeys)
    (hs : ∀ a ∈ s.allKeys, ∀ b ∈ s.allKeys, O.eq a.val b.val = true → O.eq b.val a.val = true)
    (hinj : EncInj O enc) : (s.allKeys.map (fun k => enc k.val)).Nodup := by
  have hsep := allKeys_sep g (fun a ha b hb he => hc b hb a ha he)
  simp only [List.Nodup, List.pairwise_map]
  have := List.Pairwise.and_mem.1 hsep
  exact this.imp (fun {a b} ⟨ha, hb, hab⟩ => hinj a.val b.val (by
    cases h : O.eq a.val b.val with
    | false => rfl
    | true =>
      have := hs a ha b hb h
      rw [hab] at this
      cases this))

theorem sorted_strict {l : List Bytes} (h1 : l.Pairwise (fun a b => bytesLe a b = true))
    (h2 : l.Nodup) : l.Pairwise (fun a b => bytesLe a b = true ∧ a ≠ b) := by
  induction l with
  | nil => exact List.Pairwise.nil
  | cons x xs ih =>
    have a := List.pairwise_cons.1 h1
    have b := List.nodup_cons.1 h2
    refine List.pairwise_cons.2 ⟨fun y hy => ⟨a.1 y hy, fun e => b.1 (e ▸ hy)⟩, ih a.2 b.2⟩

/-! ## primitive key sets -/

open Restli.Equals in
/-- representation invariant of a primitive key set built by `AddKey`: no key is `==` to an earlier one -/
def PrimGood (s : PrimSet) : Prop := s.keys.Pairwise (fun a b => Prim.eq b.val a.val = false)

theorem primGood_empty : PrimGood ⟨[]⟩ := List.Pairwise.nil

open Restli.Equals in
theorem primGood_addKey {s s' : PrimSet} {t : Key Prim} (g : PrimGood s) (h : s.addKey t = some s') :
    PrimGood s' := by
  simp only [PrimSet.addKey] at h
  split at h
  · cases h
  · next hany =>
    simp only [Option.some.injEq] at h
    subst h
    simp only [List.any_eq_true, not_exists, not_and, Bool.not_eq_true] at hany
    simp only [PrimGood, List.pairwise_append]
    refine ⟨g, by simp, ?_⟩
    intro a ha b hb
    simp only [List.mem_singleton] at hb
    subst hb
    exact hany a ha

end Restli.KeySet
