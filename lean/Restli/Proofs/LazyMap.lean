import Restli.Model.LazyMap
/-! Invariants of the lazy-map transition system and their preservation (helper lemmas for
`Props/C18.lean`). Everything is for arbitrary programs, thread counts and schedules. -/
namespace Restli.LazyMap

/-! ## Shapes of a step -/

/-- thread `t` is inside the `LoadOrStore` that installed placeholder `p` -/
def Pc.owns : Pc → Nat → Bool
  | .compute p, q => p == q
  | .rawStore p _, q => p == q
  | .signal p _, q => p == q
  | _, _ => false

/-- … and has not yet done the raw store -/
def Pc.preStore : Pc → Nat → Bool
  | .compute p, q => p == q
  | .rawStore p _, q => p == q
  | _, _ => false

@[simp] theorem owns_start (q) : Pc.owns .start q = false := rfl
@[simp] theorem owns_wait (p q) : Pc.owns (.wait p) q = false := rfl
@[simp] theorem owns_final (q) : Pc.owns .finalStore q = false := rfl
@[simp] theorem owns_compute (p q) : Pc.owns (.compute p) q = (p == q) := rfl
@[simp] theorem owns_raw (p v q) : Pc.owns (.rawStore p v) q = (p == q) := rfl
@[simp] theorem owns_signal (p v q) : Pc.owns (.signal p v) q = (p == q) := rfl
@[simp] theorem pre_start (q) : Pc.preStore .start q = false := rfl
@[simp] theorem pre_wait (p q) : Pc.preStore (.wait p) q = false := rfl
@[simp] theorem pre_final (q) : Pc.preStore .finalStore q = false := rfl
@[simp] theorem pre_compute (p q) : Pc.preStore (.compute p) q = (p == q) := rfl
@[simp] theorem pre_raw (p v q) : Pc.preStore (.rawStore p v) q = (p == q) := rfl
@[simp] theorem pre_signal (p v q) : Pc.preStore (.signal p v) q = false := rfl

theorem preStore_owns {pc : Pc} {p : Nat} (h : pc.preStore p = true) : pc.owns p = true := by
  cases pc <;> simp_all

/-- the value an operation would put into the map -/
def Op.value : Op → Nat
  | .los _ fv => fv | .store _ v => v | .load _ => 0

/-- The ten kinds of atomic step (what `stepOp` does, as a relation with explicit effects). -/
inductive Shape (s : Sys) (op : Op) : Pc → Sys → Next → Prop
  | loadMissing : op.isLoad = true → s.cell op.key = .absent →
      Shape s op .start s (.fin .missing .direct)
  | foundVal (v : Nat) : op.isStore = false → s.cell op.key = .val v →
      Shape s op .start s (.fin (.val v) .direct)
  | toWait (q : Nat) : s.cell op.key = .infl q →
      Shape s op .start s (.goto (.wait q))
  | install : op.isLoad = false → s.cell op.key = .absent →
      Shape s op .start
        { setCell s op.key (.infl s.nextPid) with
          nextPid := s.nextPid + 1, placed := bump s.placed op.key,
          phOf := fun k' => if k' = op.key then some s.nextPid else s.phOf k' }
        (.goto (.compute s.nextPid))
  | storeFound (w : Nat) : op.isStore = true → s.cell op.key = .val w →
      Shape s op .start s (.goto .finalStore)
  | compute (p : Nat) : op.isLoad = false →
      Shape s op (.compute p)
        { setPh s p { (s.ph p) with v := some op.value } with
          computes := if op.isStore then s.computes else bump s.computes op.key }
        (.goto (.rawStore p op.value))
  | rawStore (p : Nat) (v : Nat) :
      Shape s op (.rawStore p v) (setCell s op.key (.val v)) (.goto (.signal p v))
  | signal (p : Nat) (v : Nat) :
      Shape s op (.signal p v) (setPh s p { (s.ph p) with done := true })
        (.fin (if op.isStore then .unit else .val v) (.own p))
  | wakeStore (q : Nat) : (s.ph q).done = true → op.isStore = true →
      Shape s op (.wait q) s (.goto .finalStore)
  | wakeRet (q : Nat) : (s.ph q).done = true → op.isStore = false →
      Shape s op (.wait q) s (.fin (retOfPh (s.ph q)) (.waited q))
  | finalStore : op.isStore = true →
      Shape s op .finalStore (setCell s op.key (.val op.value)) (.fin .unit .direct)

theorem stepOp_shape {s s1 : Sys} {op : Op} {pc : Pc} {nx : Next}
    (h : stepOp s op pc = some (s1, nx)) : Shape s op pc s1 nx := by
  cases pc with
  | start =>
    cases op with
    | load k =>
      cases hc : s.cell k <;> simp [stepOp, Op.key, hc] at h <;> obtain ⟨rfl, rfl⟩ := h
      · exact .loadMissing rfl hc
      · exact .toWait _ hc
      · exact .foundVal _ rfl hc
    | los k fv =>
      cases hc : s.cell k <;> simp [stepOp, Op.key, hc, Op.isStore] at h <;> obtain ⟨rfl, rfl⟩ := h
      · exact .install rfl hc
      · exact .toWait _ hc
      · exact .foundVal _ rfl hc
    | store k v =>
      cases hc : s.cell k <;> simp [stepOp, Op.key, hc, Op.isStore] at h <;> obtain ⟨rfl, rfl⟩ := h
      · exact .install rfl hc
      · exact .toWait _ hc
      · exact .storeFound _ rfl hc
  | compute p =>
    cases op with
    | load k => simp [stepOp] at h
    | los k fv => simp [stepOp] at h; obtain ⟨rfl, rfl⟩ := h; exact .compute p rfl
    | store k v => simp [stepOp] at h; obtain ⟨rfl, rfl⟩ := h; exact .compute p rfl
  | rawStore p v => simp [stepOp] at h; obtain ⟨rfl, rfl⟩ := h; exact .rawStore p v
  | signal p v => simp [stepOp] at h; obtain ⟨rfl, rfl⟩ := h; exact .signal p v
  | wait q =>
    simp only [stepOp] at h
    split at h
    · rename_i hd
      split at h
      · rename_i hs; simp at h; obtain ⟨rfl, rfl⟩ := h; exact .wakeStore q hd hs
      · rename_i hs; simp at h; obtain ⟨rfl, rfl⟩ := h; exact .wakeRet q hd (by simpa using hs)
    · simp at h
  | finalStore =>
    cases op with
    | store k v => simp [stepOp] at h; obtain ⟨rfl, rfl⟩ := h; exact .finalStore rfl
    | load k => simp [stepOp] at h
    | los k fv => simp [stepOp] at h

theorem shape_frame {s s1 : Sys} {op : Op} {pc : Pc} {nx : Next} (h : Shape s op pc s1 nx) :
    s1.threads = s.threads ∧ s1.trace = s.trace := by
  cases h <;> exact ⟨rfl, rfl⟩

/-- `step` in one piece. -/
theorem step_eq {s s' : Sys} {i : Nat} (h : step s i = some s') :
    ∃ op rest s1 nx, (s.threads i).todo = op :: rest ∧
      Shape s op (s.threads i).pc s1 nx ∧
      s' = { s1 with threads := fun j => if j = i then advance (s.threads i) rest nx else s.threads j,
                     trace := traceAfter s.trace i op (s.threads i).pc nx } := by
  unfold step at h
  split at h
  · simp at h
  · rename_i op rest htodo
    split at h
    · simp at h
    · rename_i s1 nx hop
      have hs := stepOp_shape hop
      refine ⟨op, rest, s1, nx, htodo, hs, ?_⟩
      obtain ⟨ht, htr⟩ := shape_frame hs
      simp at h
      rw [← h, ht, htr]

/-! ## The invariant -/

def Cell.isVal : Cell → Bool
  | .val _ => true | _ => false

@[simp] theorem isVal_val (v) : Cell.isVal (.val v) = true := rfl
@[simp] theorem isVal_infl (p) : Cell.isVal (.infl p) = false := rfl
@[simp] theorem isVal_absent : Cell.isVal .absent = false := rfl

/-- what holds of the shared state while a thread executing `op` stands at `pc` -/
def PcInv (s : Sys) (op : Op) : Pc → Prop
  | .start => True
  | .compute p => op.isLoad = false ∧ p < s.nextPid ∧ s.cell op.key = .infl p ∧
      (s.ph p).done = false ∧ s.computes op.key = 0 ∧ s.phOf op.key = some p
  | .rawStore p v => op.isLoad = false ∧ p < s.nextPid ∧ s.cell op.key = .infl p ∧
      (s.ph p).done = false ∧ (s.ph p).v = some v ∧ op.value = v ∧ s.phOf op.key = some p
  | .signal p v => op.isLoad = false ∧ p < s.nextPid ∧ (s.cell op.key).isVal = true ∧
      (s.ph p).done = false ∧ (s.ph p).v = some v ∧ s.phOf op.key = some p
  | .wait q => q < s.nextPid ∧ s.phOf op.key = some q ∧
      (s.cell op.key = .infl q ∨
        ((s.cell op.key).isVal = true ∧ (∃ v, (s.ph q).v = some v) ∧
          ∀ j, (s.threads j).pc.preStore q = false))
  | .finalStore => op.isStore = true ∧ (s.cell op.key).isVal = true

def TInv (s : Sys) (t : Thread) : Prop :=
  match t.todo with
  | [] => t.pc = .start
  | op :: _ => PcInv s op t.pc

def retShape : Op → Ret → Prop
  | .store _ _, r => r = .unit
  | .los _ _, r => ∃ v, r = .val v
  | .load _, r => r = .missing ∨ ∃ v, r = .val v

/-- a result obtained through placeholder `p` is the value written into `p`, once and for all -/
def PhOk (s : Sys) (op : Op) (r : Ret) (p : Nat) : Prop :=
  p < s.nextPid ∧ s.phOf op.key = some p ∧ (∀ j, (s.threads j).pc ≠ .compute p) ∧
    ∃ v, (s.ph p).v = some v ∧ (op.isStore = false → r = .val v)

def ViaOk (s : Sys) (op : Op) (r : Ret) : Via → Prop
  | .direct => True
  | .own p => PhOk s op r p
  | .waited p => PhOk s op r p

def EvOk (s : Sys) : Ev → Prop
  | .call _ _ => True
  | .ret _ op r via => retShape op r ∧ ViaOk s op r via

structure Inv (s : Sys) : Prop where
  thr : ∀ j, TInv s (s.threads j)
  cellLt : ∀ k p, s.cell k = .infl p → p < s.nextPid
  cellPh : ∀ k p, s.cell k = .infl p → s.phOf k = some p
  cellOwner : ∀ k p, s.cell k = .infl p →
    ∃ j op rest, (s.threads j).todo = op :: rest ∧ op.key = k ∧ (s.threads j).pc.preStore p = true
  notDone : ∀ p, p < s.nextPid → (s.ph p).done = false → ∃ j, (s.threads j).pc.owns p = true
  fresh : ∀ p, s.nextPid ≤ p → s.ph p = {}
  uniq : ∀ i j p, (s.threads i).pc.owns p = true → (s.threads j).pc.owns p = true → i = j
  absent0 : ∀ k, s.cell k = .absent → s.computes k = 0 ∧ s.placed k = 0 ∧ s.phOf k = none
  comp1 : ∀ k, s.computes k ≤ 1
  placed1 : ∀ k, s.placed k ≤ 1
  tr : ∀ e ∈ s.trace, EvOk s e

theorem inv_init (progs : Nat → List Op) : Inv (init progs) := by
  constructor <;> simp [init, TInv]
  · intro j; split <;> simp [PcInv]

/-! ## Frame lemmas -/

theorem EvOk_frame {s s' : Sys} {e : Ev} (h : EvOk s e)
    (hn : s.nextPid ≤ s'.nextPid)
    (hc : ∀ p, p < s.nextPid → (∀ j, (s.threads j).pc ≠ .compute p) →
      ∀ j, (s'.threads j).pc ≠ .compute p)
    (hv : ∀ p v, p < s.nextPid → (∀ j, (s.threads j).pc ≠ .compute p) →
      (s.ph p).v = some v → (s'.ph p).v = some v)
    (hk : ∀ k p, s.phOf k = some p → s'.phOf k = some p) : EvOk s' e := by
  cases e with
  | call t op => trivial
  | ret t op r via =>
    refine ⟨h.1, ?_⟩
    have key : ∀ p, PhOk s op r p → PhOk s' op r p := by
      intro p ⟨h1, h0, h2, v, h3, h4⟩
      exact ⟨Nat.lt_of_lt_of_le h1 hn, hk _ _ h0, hc p h1 h2, v, hv p v h1 h2 h3, h4⟩
    cases via with
    | direct => trivial
    | own p => exact key p h.2
    | waited p => exact key p h.2

/-- a step that changes nothing shared and neither creates nor gives up ownership keeps every
other thread's local invariant -/
theorem PcInv_local {s s' : Sys} {op : Op} {pc : Pc} (h : PcInv s op pc)
    (hcell : s'.cell = s.cell) (hph : s'.ph = s.ph) (hn : s'.nextPid = s.nextPid)
    (hcomp : s'.computes = s.computes) (hof : s'.phOf = s.phOf)
    (hpre : ∀ j q, (s'.threads j).pc.preStore q = true → (s.threads j).pc.preStore q = true) :
    PcInv s' op pc := by
  cases pc with
  | start => trivial
  | compute p => simpa [PcInv, hcell, hph, hn, hcomp, hof] using h
  | rawStore p v => simpa [PcInv, hcell, hph, hn, hcomp, hof] using h
  | signal p v => simpa [PcInv, hcell, hph, hn, hcomp, hof] using h
  | finalStore => simpa [PcInv, hcell, hph, hn, hcomp, hof] using h
  | wait q =>
    simp only [PcInv, hcell, hph, hn, hof] at h ⊢
    refine ⟨h.1, h.2.1, h.2.2.imp id (fun ⟨a, b, c⟩ => ⟨a, b, fun j => ?_⟩)⟩
    cases hq : (s'.threads j).pc.preStore q
    · rfl
    · have := hpre j q hq; rw [c j] at this; cases this

/-- general frame lemma for another thread's local invariant -/
theorem PcInv_frame {s s' : Sys} {op : Op} {pc : Pc} (h : PcInv s op pc)
    (hn : s.nextPid ≤ s'.nextPid)
    (hcell : s.cell op.key ≠ .absent → s'.cell op.key = s.cell op.key ∨
      ((s.cell op.key).isVal = true ∧ (s'.cell op.key).isVal = true))
    (hph : ∀ p, pc.owns p = true → s'.ph p = s.ph p)
    (hphw : ∀ q v, pc = .wait q → (s.ph q).v = some v → ∃ v', (s'.ph q).v = some v')
    (hcomp : ∀ p, pc = .compute p → s.cell op.key = .infl p → s'.computes op.key = s.computes op.key)
    (hpre : ∀ q, pc = .wait q → q < s.nextPid → (∀ j, (s.threads j).pc.preStore q = false) →
      ∀ j, (s'.threads j).pc.preStore q = false)
    (hof : s.cell op.key ≠ .absent → s'.phOf op.key = s.phOf op.key) :
    PcInv s' op pc := by
  cases pc with
  | start => trivial
  | compute p =>
    obtain ⟨h1, h2, h3, h4, h5, h0⟩ := h
    have hc := hcell (by rw [h3]; simp)
    have ho := hof (by rw [h3]; simp)
    rw [h3] at hc; simp at hc
    exact ⟨h1, Nat.lt_of_lt_of_le h2 hn, hc, by rw [hph p (by simp)]; exact h4,
      by rw [hcomp p rfl h3]; exact h5, by rw [ho]; exact h0⟩
  | rawStore p v =>
    obtain ⟨h1, h2, h3, h4, h5, h6, h0⟩ := h
    have hc := hcell (by rw [h3]; simp)
    have ho := hof (by rw [h3]; simp)
    rw [h3] at hc; simp at hc
    exact ⟨h1, Nat.lt_of_lt_of_le h2 hn, hc, by rw [hph p (by simp)]; exact h4,
      by rw [hph p (by simp)]; exact h5, h6, by rw [ho]; exact h0⟩
  | signal p v =>
    obtain ⟨h1, h2, h3, h4, h5, h0⟩ := h
    have hc := hcell (by intro e; rw [e] at h3; simp at h3)
    have ho := hof (by intro e; rw [e] at h3; simp at h3)
    have : (s'.cell op.key).isVal = true := by
      rcases hc with hc | hc
      · rw [hc]; exact h3
      · exact hc.2
    exact ⟨h1, Nat.lt_of_lt_of_le h2 hn, this, by rw [hph p (by simp)]; exact h4,
      by rw [hph p (by simp)]; exact h5, by rw [ho]; exact h0⟩
  | finalStore =>
    obtain ⟨h1, h3⟩ := h
    have hc := hcell (by intro e; rw [e] at h3; simp at h3)
    have : (s'.cell op.key).isVal = true := by
      rcases hc with hc | hc
      · rw [hc]; exact h3
      · exact hc.2
    exact ⟨h1, this⟩
  | wait q =>
    obtain ⟨h1, h0, h2⟩ := h
    have hne : s.cell op.key ≠ .absent := by
      rcases h2 with h2 | ⟨h2, _⟩
      · rw [h2]; simp
      · intro e; rw [e] at h2; simp at h2
    refine ⟨Nat.lt_of_lt_of_le h1 hn, by rw [hof hne]; exact h0, ?_⟩
    rcases h2 with h2 | ⟨h2, ⟨v, h3⟩, h4⟩
    · have hc := hcell (by rw [h2]; simp)
      rw [h2] at hc; simp at hc
      exact Or.inl hc
    · have hc := hcell (by intro e; rw [e] at h2; simp at h2)
      have : (s'.cell op.key).isVal = true := by
        rcases hc with hc | hc
        · rw [hc]; exact h2
        · exact hc.2
      exact Or.inr ⟨this, hphw q v rfl h3, hpre q rfl h1 h4⟩

/-- The state after thread `i` moved without touching shared state. -/
def localStep (s : Sys) (i : Nat) (t' : Thread) (tr : List Ev) : Sys :=
  { s with threads := fun j => if j = i then t' else s.threads j, trace := tr }

theorem inv_local {s : Sys} {i : Nat} {t' : Thread} {tr : List Ev} (hI : Inv s)
    (hold : ∀ p, (s.threads i).pc.owns p = false)
    (hnew : ∀ p, t'.pc.owns p = false)
    (ht' : TInv (localStep s i t' tr) t')
    (htr : ∀ e ∈ tr, e ∈ s.trace ∨ EvOk (localStep s i t' tr) e) :
    Inv (localStep s i t' tr) := by
  have hpre : ∀ j q, ((localStep s i t' tr).threads j).pc.preStore q = true →
      (s.threads j).pc.preStore q = true := by
    intro j q hq
    simp only [localStep] at hq
    split at hq
    · have := hnew q; rw [preStore_owns hq] at this; cases this
    · exact hq
  constructor
  · intro j
    by_cases hj : j = i
    · subst hj; simpa [localStep] using ht'
    · have := hI.thr j
      simp only [localStep, hj, if_false]
      unfold TInv at this ⊢
      split
      · rename_i h0; simpa [h0] using this
      · rename_i op rest h0
        simp only [h0] at this
        exact PcInv_local this rfl rfl rfl rfl rfl hpre
  · exact hI.cellLt
  · exact hI.cellPh
  · intro k p hk
    obtain ⟨j, op, rest, h1, h2, h3⟩ := hI.cellOwner k p hk
    have hj : j ≠ i := by
      intro e; subst e; have := hold p; rw [preStore_owns h3] at this; cases this
    exact ⟨j, op, rest, by simpa [localStep, hj] using h1, h2, by simpa [localStep, hj] using h3⟩
  · intro p hp hd
    obtain ⟨j, h1⟩ := hI.notDone p hp hd
    have hj : j ≠ i := by
      intro e; subst e; have := hold p; rw [h1] at this; cases this
    exact ⟨j, by simpa [localStep, hj] using h1⟩
  · exact hI.fresh
  · intro a b p ha hb
    simp only [localStep] at ha hb
    split at ha
    · rw [hnew p] at ha; cases ha
    · split at hb
      · rw [hnew p] at hb; cases hb
      · exact hI.uniq a b p ha hb
  · exact hI.absent0
  · exact hI.comp1
  · exact hI.placed1
  · intro e he
    rcases htr e he with h | h
    · refine EvOk_frame (hI.tr e h) (Nat.le_refl _) ?_ (fun p v _ _ h => h) (fun _ _ h => h)
      intro p _ hc j
      simp only [localStep]
      split
      · intro hpc; have := hnew p; rw [hpc] at this; simp at this
      · exact hc j
    · exact h

theorem TInv_of_frame {s s' : Sys} {t : Thread} (h : TInv s t)
    (H : ∀ op rest, t.todo = op :: rest → PcInv s op t.pc → PcInv s' op t.pc) : TInv s' t := by
  unfold TInv at h ⊢
  split
  · rename_i h0; simpa [h0] using h
  · rename_i op rest h0
    simp only [h0] at h
    exact H op rest h0 h

theorem TInv_cons {s : Sys} {t : Thread} {op : Op} {rest : List Op} (h : TInv s t)
    (h0 : t.todo = op :: rest) : PcInv s op t.pc := by
  unfold TInv at h; simpa [h0] using h

theorem owns_lt {s : Sys} (hI : Inv s) {j : Nat} {p : Nat}
    (h : (s.threads j).pc.owns p = true) : p < s.nextPid := by
  have ht := hI.thr j
  unfold TInv at ht
  split at ht
  · rw [ht] at h; simp at h
  · cases hpc : (s.threads j).pc <;> rw [hpc] at h ht <;> simp at h <;> subst h
    · exact ht.2.1
    · exact ht.2.1
    · exact ht.2.1

/-- the state after a step of thread `i` whose shared-state effect is `s1` -/
def post (s1 s : Sys) (i : Nat) (rest : List Op) (op : Op) (nx : Next) : Sys :=
  { s1 with threads := fun j => if j = i then advance (s.threads i) rest nx else s.threads j,
            trace := traceAfter s.trace i op (s.threads i).pc nx }

theorem inv_install {s : Sys} {i : Nat} {op : Op} {rest : List Op} (hI : Inv s)
    (htodo : (s.threads i).todo = op :: rest) (hpc : (s.threads i).pc = .start)
    (hl : op.isLoad = false) (hc : s.cell op.key = .absent) :
    Inv (post { setCell s op.key (.infl s.nextPid) with
                nextPid := s.nextPid + 1, placed := bump s.placed op.key,
                phOf := fun k' => if k' = op.key then some s.nextPid else s.phOf k' }
          s i rest op (.goto (.compute s.nextPid))) := by
  have hfr := hI.fresh s.nextPid (Nat.le_refl _)
  have h0 := hI.absent0 _ hc
  constructor
  · intro j
    by_cases hj : j = i
    · subst hj
      simp only [post, if_true, advance, TInv, htodo, PcInv, setCell, hl, hfr]
      simp [h0.1]
    · simp only [post, hj, if_false]
      refine TInv_of_frame (hI.thr j) (fun opj restj _ hp => PcInv_frame hp (by simp) ?_ ?_ ?_ ?_ ?_ ?_)
      · intro hne
        left
        have : opj.key ≠ op.key := by intro e; rw [e] at hne; exact hne hc
        simp [setCell, this]
      · intro p _; rfl
      · intro q v _ h; exact ⟨v, h⟩
      · intro p _ _; rfl
      · intro q _ hq hall j'
        simp only []
        split
        · simp only [advance, pre_compute]
          cases hh : (s.nextPid == q)
          · rfl
          · simp at hh; omega
        · exact hall j'
      · intro hne
        have : opj.key ≠ op.key := by intro e; rw [e] at hne; exact hne hc
        simp [this]
  · intro k p hk
    simp only [post, setCell] at hk ⊢
    split at hk
    · cases hk; omega
    · have := hI.cellLt k p hk; omega
  · intro k p hk
    simp only [post, setCell] at hk ⊢
    split at hk
    · rename_i hkk; cases hk; simp [hkk]
    · rename_i hkk; simp [hkk]; exact hI.cellPh k p hk
  · intro k p hk
    simp only [post, setCell] at hk ⊢
    split at hk
    · rename_i hkk; cases hk
      exact ⟨i, op, rest, by simp [advance, htodo], hkk.symm, by simp [advance]⟩
    · obtain ⟨j, opj, restj, h1, h2, h3⟩ := hI.cellOwner k p hk
      have hj : j ≠ i := by intro e; subst e; rw [hpc] at h3; simp at h3
      exact ⟨j, opj, restj, by simpa [hj] using h1, h2, by simpa [hj] using h3⟩
  · intro p hp hd
    simp only [post, setCell] at hp hd ⊢
    by_cases hpn : p = s.nextPid
    · exact ⟨i, by simp [advance, hpn]⟩
    · obtain ⟨j, h1⟩ := hI.notDone p (by omega) hd
      have hj : j ≠ i := by intro e; subst e; rw [hpc] at h1; simp at h1
      exact ⟨j, by simpa [hj] using h1⟩
  · intro p hp
    simp only [post, setCell] at hp ⊢
    exact hI.fresh p (by omega)
  · intro a b p ha hb
    simp only [post] at ha hb
    have key : ∀ c, c ≠ i → (s.threads c).pc.owns s.nextPid = true → False := by
      intro c _ hc'; have := owns_lt hI hc'; omega
    split at ha <;> split at hb
    · rename_i h1 h2; rw [h1, h2]
    · rename_i h1 h2; simp [advance] at ha; subst ha; exact (key b h2 hb).elim
    · rename_i h1 h2; simp [advance] at hb; subst hb; exact (key a h1 ha).elim
    · exact hI.uniq a b p ha hb
  · intro k hk
    simp only [post, setCell] at hk ⊢
    split at hk
    · cases hk
    · rename_i hkk
      simpa [bump, hkk] using hI.absent0 k hk
  · exact hI.comp1
  · intro k
    simp only [post, bump]
    split
    · rename_i hkk; rw [hkk, h0.2.1]; omega
    · exact hI.placed1 k
  · intro e he
    simp only [post, traceAfter, hpc, if_true, List.mem_append, List.mem_singleton] at he
    rcases he with he | rfl
    · refine EvOk_frame (hI.tr e he) (by simp [post]) ?_ (fun p v _ _ h => h) ?_
      · intro p hp hall j
        simp only [post]
        split
        · simp only [advance]; intro h; cases h; omega
        · exact hall j
      · intro k p hk
        simp only [post]
        split
        · rename_i e; rw [e, h0.2.2] at hk; cases hk
        · exact hk
    · trivial

theorem owns_compute_raw (p v q : Nat) : Pc.owns (.rawStore p v) q = Pc.owns (.compute p) q := rfl

theorem inv_compute {s : Sys} {i : Nat} {op : Op} {rest : List Op} {p : Nat} (hI : Inv s)
    (htodo : (s.threads i).todo = op :: rest) (hpc : (s.threads i).pc = .compute p) :
    Inv (post { setPh s p { (s.ph p) with v := some op.value } with
                computes := if op.isStore then s.computes else bump s.computes op.key }
          s i rest op (.goto (.rawStore p op.value))) := by
  obtain ⟨hl, hpn, hcell, hdone, hcomp, hof⟩ := (by simpa [hpc] using TInv_cons (hI.thr i) htodo :
    PcInv s op (.compute p))
  have hown : (s.threads i).pc.owns p = true := by simp [hpc]
  have hne : ∀ j, j ≠ i → (s.threads j).pc.owns p = false := by
    intro j hj
    cases h : (s.threads j).pc.owns p
    · rfl
    · exact (hj (hI.uniq j i p h hown)).elim
  constructor
  · intro j
    by_cases hj : j = i
    · subst hj
      simp [post, advance, TInv, htodo, PcInv, setPh, hl, hpn, hcell, hdone, hof]
    · simp only [post, hj, if_false]
      refine TInv_of_frame (hI.thr j) (fun opj restj _ hp => PcInv_frame hp (Nat.le_refl _) ?_ ?_ ?_ ?_ ?_ (fun _ => rfl))
      · intro _; left; rfl
      · intro p' hp'
        have : p' ≠ p := by intro e; subst e; rw [hne j hj] at hp'; cases hp'
        simp [setPh, this]
      · intro q v _ h
        simp only [setPh]
        split
        · exact ⟨_, rfl⟩
        · exact ⟨v, h⟩
      · intro p' hpc' hc'
        have : opj.key ≠ op.key := by
          intro e; rw [e, hcell] at hc'; cases hc'
          have := hne j hj; rw [hpc'] at this; simp at this
        simp only []
        split
        · rfl
        · simp [bump, this]
      · intro q _ _ hall j'
        simp only []
        split
        · rename_i e; subst e
          have := hall j'; rw [hpc] at this
          simpa [advance] using this
        · exact hall j'
  · exact hI.cellLt
  · exact hI.cellPh
  · intro k p' hk
    obtain ⟨j, opj, restj, h1, h2, h3⟩ := hI.cellOwner k p' hk
    refine ⟨j, opj, restj, ?_, h2, ?_⟩
    · simp only [post]; split
      · rename_i e; subst e; simpa [advance] using h1
      · exact h1
    · simp only [post]; split
      · rename_i e; subst e; rw [hpc] at h3; simpa [advance] using h3
      · exact h3
  · intro p' hp' hd
    have hd' : (s.ph p').done = false := by
      simp only [post, setPh] at hd
      split at hd
      · rename_i e; subst e; exact hdone
      · exact hd
    obtain ⟨j, h1⟩ := hI.notDone p' hp' hd'
    refine ⟨j, ?_⟩
    simp only [post]; split
    · rename_i e; subst e; rw [hpc] at h1; simpa [advance] using h1
    · exact h1
  · intro p' hp'
    have : p' ≠ p := by simp only [post, setPh] at hp'; omega
    simpa [post, setPh, this] using hI.fresh p' hp'
  · intro a b p' ha hb
    have conv : ∀ c, ((post { setPh s p { (s.ph p) with v := some op.value } with
                computes := if op.isStore then s.computes else bump s.computes op.key }
          s i rest op (.goto (.rawStore p op.value))).threads c).pc.owns p' = (s.threads c).pc.owns p' := by
      intro c; simp only [post]; split
      · rename_i e; subst e; simp [advance, hpc]
      · rfl
    rw [conv] at ha hb
    exact hI.uniq a b p' ha hb
  · intro k hk
    have hk' : s.cell k = .absent := hk
    have : k ≠ op.key := by intro e; rw [e, hcell] at hk'; cases hk'
    have := hI.absent0 k hk'
    simp only [post]
    split
    · exact this
    · simpa [bump, ‹k ≠ op.key›, setPh] using this
  · intro k
    simp only [post]
    split
    · exact hI.comp1 k
    · simp only [bump]; split
      · rename_i e; rw [e, hcomp]; omega
      · exact hI.comp1 k
  · exact hI.placed1
  · intro e he
    simp only [post, traceAfter, hpc] at he
    simp at he
    refine EvOk_frame (hI.tr e he) (Nat.le_refl _) ?_ ?_ (fun _ _ h => h)
    · intro p' _ hall j
      simp only [post]; split
      · simp [advance]
      · exact hall j
    · intro p' v _ hall h
      have : p' ≠ p := by intro e; subst e; exact hall i hpc
      simpa [post, setPh, this] using h

theorem inv_rawStore {s : Sys} {i : Nat} {op : Op} {rest : List Op} {p v : Nat} (hI : Inv s)
    (htodo : (s.threads i).todo = op :: rest) (hpc : (s.threads i).pc = .rawStore p v) :
    Inv (post (setCell s op.key (.val v)) s i rest op (.goto (.signal p v))) := by
  obtain ⟨hl, hpn, hcell, hdone, hv, hval, hof⟩ := (by simpa [hpc] using TInv_cons (hI.thr i) htodo :
    PcInv s op (.rawStore p v))
  have hown : (s.threads i).pc.owns p = true := by simp [hpc]
  have hne : ∀ j, j ≠ i → (s.threads j).pc.owns p = false := by
    intro j hj
    cases h : (s.threads j).pc.owns p
    · rfl
    · exact (hj (hI.uniq j i p h hown)).elim
  have hpre' : ∀ j, ((post (setCell s op.key (.val v)) s i rest op (.goto (.signal p v))).threads j).pc.preStore p
      = false := by
    intro j
    simp only [post]; split
    · simp [advance]
    · rename_i hj
      cases h : (s.threads j).pc.preStore p
      · rfl
      · have := hne j hj; rw [preStore_owns h] at this; cases this
  constructor
  · intro j
    by_cases hj : j = i
    · subst hj
      simp [post, advance, TInv, htodo, PcInv, setCell, hl, hpn, hdone, hv, hof]
    · simp only [post, hj, if_false]
      refine TInv_of_frame (hI.thr j) (fun opj restj _ hp => ?_)
      by_cases hk : opj.key = op.key
      · -- same key: only a waiter on p is possible
        cases hpcj : (s.threads j).pc with
        | start => trivial
        | compute p' =>
          rw [hpcj] at hp; have h3 := hp.2.2.1; rw [hk, hcell] at h3; cases h3
          have := hne j hj; rw [hpcj] at this; simp at this
        | rawStore p' v' =>
          rw [hpcj] at hp; have h3 := hp.2.2.1; rw [hk, hcell] at h3; cases h3
          have := hne j hj; rw [hpcj] at this; simp at this
        | signal p' v' =>
          rw [hpcj] at hp; have h3 := hp.2.2.1; rw [hk, hcell] at h3; simp at h3
        | finalStore =>
          rw [hpcj] at hp; have h3 := hp.2; rw [hk, hcell] at h3; simp at h3
        | wait q =>
          rw [hpcj] at hp
          obtain ⟨h1, h0, h2⟩ := hp
          refine ⟨h1, h0, Or.inr ?_⟩
          rcases h2 with h2 | h2
          · rw [hk, hcell] at h2; cases h2
            refine ⟨by simp [setCell, hk], ⟨v, hv⟩, fun j' => ?_⟩
            have := hpre' j'
            simpa [post] using this
          · rw [hk, hcell] at h2; simp at h2
      · refine PcInv_frame hp (Nat.le_refl _) ?_ (fun _ _ => rfl) (fun q v' _ h => ⟨v', h⟩)
          (fun _ _ _ => rfl) ?_ (fun _ => rfl)
        · intro _; left; simp [setCell, hk]
        · intro q _ _ hall j'
          simp only []
          split
          · simp [advance]
          · exact hall j'
  · intro k p' hk
    simp only [post, setCell] at hk
    split at hk
    · cases hk
    · exact hI.cellLt k p' hk
  · intro k p' hk
    simp only [post, setCell] at hk
    split at hk
    · cases hk
    · exact hI.cellPh k p' hk
  · intro k p' hk
    simp only [post, setCell] at hk
    split at hk
    · cases hk
    · rename_i hkk
      obtain ⟨j, opj, restj, h1, h2, h3⟩ := hI.cellOwner k p' hk
      have hj : j ≠ i := by
        intro e; subst e
        rw [htodo] at h1; cases h1
        exact hkk h2.symm
      exact ⟨j, opj, restj, by simpa [post, hj] using h1, h2, by simpa [post, hj] using h3⟩
  · intro p' hp' hd
    obtain ⟨j, h1⟩ := hI.notDone p' hp' hd
    refine ⟨j, ?_⟩
    simp only [post]; split
    · rename_i e; subst e; rw [hpc] at h1; simpa [advance] using h1
    · exact h1
  · exact hI.fresh
  · intro a b p' ha hb
    have conv : ∀ c, ((post (setCell s op.key (.val v)) s i rest op (.goto (.signal p v))).threads c).pc.owns p'
        = (s.threads c).pc.owns p' := by
      intro c; simp only [post]; split
      · rename_i e; subst e; simp [advance, hpc]
      · rfl
    rw [conv] at ha hb
    exact hI.uniq a b p' ha hb
  · intro k hk
    simp only [post, setCell] at hk
    split at hk
    · cases hk
    · exact hI.absent0 k hk
  · exact hI.comp1
  · exact hI.placed1
  · intro e he
    simp only [post, traceAfter, hpc] at he
    simp at he
    refine EvOk_frame (hI.tr e he) (Nat.le_refl _) ?_ (fun _ _ _ _ h => h) (fun _ _ h => h)
    intro p' _ hall j
    simp only [post]; split
    · simp [advance]
    · exact hall j

theorem TInv_fresh (s : Sys) (rest : List Op) (rets : List Ret) :
    TInv s { todo := rest, pc := .start, rets := rets } := by
  unfold TInv; split <;> simp [PcInv]

theorem retShape_own {op : Op} {v : Nat} (hl : op.isLoad = false) :
    retShape op (if op.isStore then .unit else .val v) := by
  cases op <;> simp [retShape, Op.isStore, Op.isLoad] at *

theorem inv_signal {s : Sys} {i : Nat} {op : Op} {rest : List Op} {p v : Nat} (hI : Inv s)
    (htodo : (s.threads i).todo = op :: rest) (hpc : (s.threads i).pc = .signal p v) :
    Inv (post (setPh s p { (s.ph p) with done := true }) s i rest op
      (.fin (if op.isStore then .unit else .val v) (.own p))) := by
  obtain ⟨hl, hpn, hcell, hdone, hv, hof⟩ := (by simpa [hpc] using TInv_cons (hI.thr i) htodo :
    PcInv s op (.signal p v))
  have hown : (s.threads i).pc.owns p = true := by simp [hpc]
  have hne : ∀ j, j ≠ i → (s.threads j).pc.owns p = false := by
    intro j hj
    cases h : (s.threads j).pc.owns p
    · rfl
    · exact (hj (hI.uniq j i p h hown)).elim
  have hcomp : ∀ q j, (s.threads j).pc ≠ .compute q →
      ((post (setPh s p { (s.ph p) with done := true }) s i rest op
      (.fin (if op.isStore then .unit else .val v) (.own p))).threads j).pc ≠ .compute q := by
    intro q j h
    simp only [post]; split
    · simp [advance]
    · exact h
  constructor
  · intro j
    by_cases hj : j = i
    · subst hj
      simp only [post, if_true, advance]
      exact TInv_fresh _ _ _
    · simp only [post, hj, if_false]
      refine TInv_of_frame (hI.thr j) (fun opj restj _ hp => PcInv_frame hp (Nat.le_refl _)
        (fun _ => Or.inl rfl) ?_ ?_ (fun _ _ _ => rfl) ?_ (fun _ => rfl))
      · intro p' hp'
        have : p' ≠ p := by intro e; subst e; rw [hne j hj] at hp'; cases hp'
        simp [setPh, this]
      · intro q v' _ h
        simp only [setPh]
        split
        · rename_i e; subst e; exact ⟨v', h⟩
        · exact ⟨v', h⟩
      · intro q _ _ hall j'
        simp only []
        split
        · simp [advance]
        · exact hall j'
  · exact hI.cellLt
  · exact hI.cellPh
  · intro k p' hk
    obtain ⟨j, opj, restj, h1, h2, h3⟩ := hI.cellOwner k p' hk
    have hj : j ≠ i := by intro e; subst e; rw [hpc] at h3; simp at h3
    exact ⟨j, opj, restj, by simpa [post, hj] using h1, h2, by simpa [post, hj] using h3⟩
  · intro p' hp' hd
    have hpp : p' ≠ p := by intro e; subst e; simp [post, setPh] at hd
    have hd' : (s.ph p').done = false := by simpa [post, setPh, hpp] using hd
    obtain ⟨j, h1⟩ := hI.notDone p' hp' hd'
    have hj : j ≠ i := by
      intro e; subst e; rw [hpc] at h1; simp at h1; exact hpp h1.symm
    exact ⟨j, by simpa [post, hj] using h1⟩
  · intro p' hp'
    have : p' ≠ p := by simp only [post, setPh] at hp'; omega
    simpa [post, setPh, this] using hI.fresh p' hp'
  · intro a b p' ha hb
    simp only [post] at ha hb
    split at ha
    · simp [advance] at ha
    · split at hb
      · simp [advance] at hb
      · exact hI.uniq a b p' ha hb
  · exact hI.absent0
  · exact hI.comp1
  · exact hI.placed1
  · intro e he
    simp only [post, traceAfter, hpc] at he
    simp at he
    rcases he with he | rfl
    · refine EvOk_frame (hI.tr e he) (Nat.le_refl _) (fun p' _ hall j => hcomp p' j (hall j)) ?_
        (fun _ _ h => h)
      intro p' v' _ _ h
      simp only [post, setPh]
      split
      · rename_i e; subst e; exact h
      · exact h
    · refine ⟨retShape_own hl, hpn, hof, ?_, v, by simp [post, setPh, hv], ?_⟩
      · intro j
        apply hcomp
        intro h
        by_cases hj : j = i
        · subst hj; rw [hpc] at h; cases h
        · have := hne j hj; rw [h] at this; simp at this
      · intro hs; simp [hs]

theorem inv_finalStore {s : Sys} {i : Nat} {op : Op} {rest : List Op} (hI : Inv s)
    (htodo : (s.threads i).todo = op :: rest) (hpc : (s.threads i).pc = .finalStore) :
    Inv (post (setCell s op.key (.val op.value)) s i rest op (.fin .unit .direct)) := by
  obtain ⟨hst, hcell⟩ := (by simpa [hpc] using TInv_cons (hI.thr i) htodo :
    PcInv s op .finalStore)
  have hcomp : ∀ q j, (s.threads j).pc ≠ .compute q →
      ((post (setCell s op.key (.val op.value)) s i rest op (.fin .unit .direct)).threads j).pc
        ≠ .compute q := by
    intro q j h
    simp only [post]; split
    · simp [advance]
    · exact h
  constructor
  · intro j
    by_cases hj : j = i
    · subst hj
      simp only [post, if_true, advance]
      exact TInv_fresh _ _ _
    · simp only [post, hj, if_false]
      refine TInv_of_frame (hI.thr j) (fun opj restj _ hp => PcInv_frame hp (Nat.le_refl _)
        ?_ (fun _ _ => rfl) (fun q v' _ h => ⟨v', h⟩) (fun _ _ _ => rfl) ?_ (fun _ => rfl))
      · intro _
        by_cases hk : opj.key = op.key
        · right; rw [hk]; exact ⟨hcell, by simp [setCell]⟩
        · left; simp [setCell, hk]
      · intro q _ _ hall j'
        simp only []
        split
        · simp [advance]
        · exact hall j'
  · intro k p' hk
    simp only [post, setCell] at hk
    split at hk
    · cases hk
    · exact hI.cellLt k p' hk
  · intro k p' hk
    simp only [post, setCell] at hk
    split at hk
    · cases hk
    · exact hI.cellPh k p' hk
  · intro k p' hk
    simp only [post, setCell] at hk
    split at hk
    · cases hk
    · obtain ⟨j, opj, restj, h1, h2, h3⟩ := hI.cellOwner k p' hk
      have hj : j ≠ i := by intro e; subst e; rw [hpc] at h3; simp at h3
      exact ⟨j, opj, restj, by simpa [post, hj] using h1, h2, by simpa [post, hj] using h3⟩
  · intro p' hp' hd
    obtain ⟨j, h1⟩ := hI.notDone p' hp' hd
    have hj : j ≠ i := by intro e; subst e; rw [hpc] at h1; simp at h1
    exact ⟨j, by simpa [post, hj] using h1⟩
  · exact hI.fresh
  · intro a b p' ha hb
    simp only [post] at ha hb
    split at ha
    · simp [advance] at ha
    · split at hb
      · simp [advance] at hb
      · exact hI.uniq a b p' ha hb
  · intro k hk
    simp only [post, setCell] at hk
    split at hk
    · cases hk
    · exact hI.absent0 k hk
  · exact hI.comp1
  · exact hI.placed1
  · intro e he
    simp only [post, traceAfter, hpc] at he
    simp at he
    rcases he with he | rfl
    · exact EvOk_frame (hI.tr e he) (Nat.le_refl _) (fun p' _ hall j => hcomp p' j (hall j))
        (fun _ _ _ _ h => h) (fun _ _ h => h)
    · refine ⟨?_, trivial⟩
      cases op <;> simp [retShape, Op.isStore] at *

theorem preStore_notDone {s : Sys} (hI : Inv s) {j q : Nat}
    (h : (s.threads j).pc.preStore q = true) : (s.ph q).done = false := by
  have ht := hI.thr j
  unfold TInv at ht
  split at ht
  · rw [ht] at h; simp at h
  · cases hpc : (s.threads j).pc <;> rw [hpc] at h ht <;> simp at h <;> subst h
    · exact ht.2.2.2.1
    · exact ht.2.2.2.1

/-- a waiter whose placeholder is done finds a plain value in its key's cell, the placeholder's
`v` written, and the owner past its raw store -/
theorem wait_done {s : Sys} (hI : Inv s) {op : Op} {q : Nat} (h : PcInv s op (.wait q))
    (hd : (s.ph q).done = true) :
    q < s.nextPid ∧ s.phOf op.key = some q ∧ (s.cell op.key).isVal = true ∧
      (∃ v, (s.ph q).v = some v) ∧ ∀ j, (s.threads j).pc.preStore q = false := by
  obtain ⟨h1, h0, h2⟩ := h
  rcases h2 with h2 | h2
  · obtain ⟨j, _, _, _, _, h3⟩ := hI.cellOwner _ _ h2
    rw [preStore_notDone hI h3] at hd; cases hd
  · exact ⟨h1, h0, h2⟩

theorem post_local (s : Sys) (i : Nat) (rest : List Op) (op : Op) (nx : Next) :
    post s s i rest op nx
      = localStep s i (advance (s.threads i) rest nx) (traceAfter s.trace i op (s.threads i).pc nx) := rfl

/-- **Preservation.** Every step keeps the invariant. -/
theorem inv_step {s s' : Sys} {i : Nat} (hI : Inv s) (h : step s i = some s') : Inv s' := by
  obtain ⟨op, rest, s1, nx, htodo, hs, rfl⟩ := step_eq h
  have hti := TInv_cons (hI.thr i) htodo
  change Inv (post s1 s i rest op nx)
  generalize hpc : (s.threads i).pc = pc at hs hti
  cases hs with
  | loadMissing hl hc =>
    rw [post_local]
    refine inv_local hI (by simp [hpc]) (by simp [advance]) (TInv_fresh _ _ _) ?_
    intro e he
    simp [traceAfter, hpc] at he
    rcases he with he | rfl | rfl
    · exact Or.inl he
    · exact Or.inr trivial
    · refine Or.inr ⟨?_, trivial⟩
      cases op <;> simp [retShape, Op.isLoad] at *
  | foundVal v hst hc =>
    rw [post_local]
    refine inv_local hI (by simp [hpc]) (by simp [advance]) (TInv_fresh _ _ _) ?_
    intro e he
    simp [traceAfter, hpc] at he
    rcases he with he | rfl | rfl
    · exact Or.inl he
    · exact Or.inr trivial
    · refine Or.inr ⟨?_, trivial⟩
      cases op <;> simp [retShape, Op.isStore] at *
  | toWait q hc =>
    rw [post_local]
    refine inv_local hI (by simp [hpc]) (by simp [advance]) ?_ ?_
    · simp only [advance, TInv, htodo]
      exact ⟨hI.cellLt _ _ hc, hI.cellPh _ _ hc, Or.inl hc⟩
    · intro e he
      simp [traceAfter, hpc] at he
      rcases he with he | rfl
      · exact Or.inl he
      · exact Or.inr trivial
  | install hl hc => exact inv_install hI htodo hpc hl hc
  | storeFound w hst hc =>
    rw [post_local]
    refine inv_local hI (by simp [hpc]) (by simp [advance]) ?_ ?_
    · simp only [advance, TInv, htodo]
      exact ⟨hst, by simp [localStep, hc]⟩
    · intro e he
      simp [traceAfter, hpc] at he
      rcases he with he | rfl
      · exact Or.inl he
      · exact Or.inr trivial
  | compute p hl => exact inv_compute hI htodo hpc
  | rawStore p v => exact inv_rawStore hI htodo hpc
  | signal p v => exact inv_signal hI htodo hpc
  | wakeStore q hd hst =>
    obtain ⟨_, _, hval, _, _⟩ := wait_done hI hti hd
    rw [post_local]
    refine inv_local hI (by simp [hpc]) (by simp [advance]) ?_ ?_
    · simp only [advance, TInv, htodo]
      exact ⟨hst, by simpa [localStep] using hval⟩
    · intro e he
      simp [traceAfter, hpc] at he
      exact Or.inl he
  | wakeRet q hd hst =>
    obtain ⟨hq, hof, hval, ⟨v, hv⟩, hpre⟩ := wait_done hI hti hd
    rw [post_local]
    refine inv_local hI (by simp [hpc]) (by simp [advance]) (TInv_fresh _ _ _) ?_
    intro e he
    simp [traceAfter, hpc] at he
    rcases he with he | rfl
    · exact Or.inl he
    · refine Or.inr ⟨?_, hq, hof, ?_, v, hv, ?_⟩
      · simp only [retOfPh, hv]
        cases op <;> simp [retShape, Op.isStore] at *
      · intro j
        simp only [localStep]
        split
        · simp [advance]
        · intro hc
          have := hpre j; rw [hc] at this; simp at this
      · intro _; simp [retOfPh, hv]
  | finalStore hst => exact inv_finalStore hI htodo hpc

theorem inv_run {s : Sys} (hI : Inv s) (sched : List Nat) : Inv (run s sched) := by
  induction sched generalizing s with
  | nil => exact hI
  | cons i is ih =>
    simp only [run]
    split
    · rename_i s' h; exact ih (inv_step hI h)
    · exact ih hI

theorem inv_reachable {s : Sys} (h : Reachable s) : Inv s := by
  obtain ⟨progs, sched, rfl⟩ := h
  exact inv_run (inv_init progs) sched

/-! ## Consequences used by the property theorems -/

def Via.pid? : Via → Option Nat
  | .direct => none
  | .own p => some p
  | .waited p => some p

/-- every result obtained through a placeholder (as its owner or as a waiter) is the value
written into that placeholder, and the placeholder is the one installed for the key -/
theorem via_value {s : Sys} (hI : Inv s) {t : Nat} {op : Op} {r : Ret} {via : Via} {p : Nat}
    (he : Ev.ret t op r via ∈ s.trace) (hp : via.pid? = some p) :
    s.phOf op.key = some p ∧ ∃ v, (s.ph p).v = some v ∧ (op.isStore = false → r = .val v) := by
  have h := (hI.tr _ he).2
  cases via with
  | direct => cases hp
  | own q => cases hp; exact ⟨h.2.1, h.2.2.2⟩
  | waited q => cases hp; exact ⟨h.2.1, h.2.2.2⟩

theorem stepOp_none {s : Sys} {op : Op} {pc : Pc} (h : stepOp s op pc = none) :
    (∃ p, pc = .compute p ∧ op.isLoad = true) ∨ (∃ q, pc = .wait q ∧ (s.ph q).done = false) ∨
      (pc = .finalStore ∧ op.isStore = false) := by
  cases pc with
  | start =>
    cases op with
    | load k => cases hc : s.cell k <;> simp [stepOp, Op.key, hc] at h
    | los k fv => cases hc : s.cell k <;> simp [stepOp, Op.key, hc, Op.isStore] at h
    | store k v => cases hc : s.cell k <;> simp [stepOp, Op.key, hc, Op.isStore] at h
  | compute p => cases op <;> simp [stepOp, Op.isLoad] at h ⊢
  | rawStore p v => simp [stepOp] at h
  | signal p v => simp [stepOp] at h
  | wait q =>
    cases hd : (s.ph q).done
    · exact Or.inr (Or.inl ⟨q, rfl, hd⟩)
    · simp only [stepOp, hd, if_true] at h; split at h <;> simp at h
  | finalStore => cases op <;> simp [stepOp, Op.isStore] at h ⊢

theorem step_none_stepOp {s : Sys} {i : Nat} {op : Op} {rest : List Op}
    (htodo : (s.threads i).todo = op :: rest) (h : step s i = none) :
    stepOp s op (s.threads i).pc = none := by
  unfold step at h
  rw [htodo] at h
  simp only at h
  cases hso : stepOp s op (s.threads i).pc with
  | none => rfl
  | some x => rw [hso] at h; simp at h

theorem step_none_wait {s : Sys} (hI : Inv s) {i : Nat} {op : Op} {rest : List Op}
    (htodo : (s.threads i).todo = op :: rest) (h : step s i = none) :
    ∃ q, (s.threads i).pc = .wait q ∧ (s.ph q).done = false := by
  have hp := TInv_cons (hI.thr i) htodo
  rcases stepOp_none (step_none_stepOp htodo h) with ⟨p, hpc, hl⟩ | hw | ⟨hpc, hst⟩
  · rw [hpc] at hp; rw [hp.1] at hl; cases hl
  · exact hw
  · rw [hpc] at hp; rw [hp.1] at hst; cases hst

theorem owner_enabled {s : Sys} (hI : Inv s) {j q : Nat}
    (h : (s.threads j).pc.owns q = true) : (step s j).isSome = true := by
  cases hs : step s j with
  | some _ => rfl
  | none =>
    have ht := hI.thr j
    unfold TInv at ht
    split at ht
    · rw [ht] at h; simp at h
    · rename_i op rest htodo
      obtain ⟨q', hq', _⟩ := step_none_wait hI htodo hs
      rw [hq'] at h; simp at h

theorem step_cell_val {s s' : Sys} {i : Nat} (h : step s i = some s') (k : Nat)
    (hv : (s.cell k).isVal = true) : (s'.cell k).isVal = true := by
  obtain ⟨op, rest, s1, nx, htodo, hs, rfl⟩ := step_eq h
  generalize (s.threads i).pc = pc at hs
  cases hs <;> try exact hv
  · rename_i hl hc
    simp only [setCell]
    split
    · rename_i e; rw [e, hc] at hv; simp at hv
    · exact hv
  · simp only [setCell]; split <;> simp [hv]
  · simp only [setCell]; split <;> simp [hv]

theorem run_cell_val {s : Sys} (sched : List Nat) (k : Nat)
    (hv : (s.cell k).isVal = true) : ((run s sched).cell k).isVal = true := by
  induction sched generalizing s with
  | nil => exact hv
  | cons i is ih =>
    simp only [run]
    split
    · rename_i s' h; exact ih (step_cell_val h k hv)
    · exact ih hv

/-- a present value is only ever replaced by a `Store` operation's own final store -/
theorem overwrite_is_store {s s' : Sys} (hI : Inv s) {i k w : Nat} (h : step s i = some s')
    (hw : s.cell k = .val w) (hne : s'.cell k ≠ .val w) :
    ∃ v rest, (s.threads i).todo = .store k v :: rest ∧ (s.threads i).pc = .finalStore ∧
      s'.cell k = .val v := by
  obtain ⟨op, rest, s1, nx, htodo, hs, rfl⟩ := step_eq h
  have hti := TInv_cons (hI.thr i) htodo
  generalize hpc : (s.threads i).pc = pc at hs hti
  cases hs <;> try exact (hne hw).elim
  · rename_i hl hc
    exfalso; apply hne
    simp only [setCell]
    split
    · rename_i e; rw [e, hc] at hw; cases hw
    · exact hw
  · rename_i p v
    exfalso; apply hne
    have hc := hti.2.2.1
    simp only [setCell]
    split
    · rename_i e; rw [e, hc] at hw; cases hw
    · exact hw
  · rename_i hst
    cases op with
    | store k' v =>
      by_cases e : k = k'
      · subst e
        exact ⟨v, rest, htodo, rfl, by simp [setCell, Op.key, Op.value]⟩
      · exfalso; apply hne; simp [setCell, Op.key, e]; exact hw
    | los _ _ => simp [Op.isStore] at hst
    | load _ => simp [Op.isStore] at hst

end Restli.LazyMap
