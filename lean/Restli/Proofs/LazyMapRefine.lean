import Restli.Proofs.LazyMap
import Restli.Spec.LazyMap
/-! Forward simulation from the lazy-map transition system (`Model/LazyMap.lean`) to the
atomic-object automaton of the plain map with compute-if-absent (`Spec/LazyMap.lean`).

Linearization points: the atomic map access of a call that finds a plain value or nothing; the
placeholder owner's raw `Store` — at which every `Load`/`LoadOrStore` already waiting on that
placeholder is linearized too ("helping"); a `Store`'s final raw store. -/
namespace Restli.LazyMap
open Restli.LazyMapSpec (State Label Step Steps Status Res)

/-- model operation ↦ specification operation (a bijection) -/
def opS : Op → LazyMapSpec.Op
  | .los k fv => .computeIfAbsent k fv
  | .load k => .load k
  | .store k v => .store k v

/-- specification result ↦ model result (injective; `Ret.nil` is not in its range) -/
def retM : Res → Ret
  | .unit => .unit
  | .missing => .missing
  | .found v => .val v

/-- a visible event: a call or a response, by thread, with the (specification-level) operation
and the (model-level) result -/
inductive Obs where
  | call (t : Nat) (op : LazyMapSpec.Op)
  | ret (t : Nat) (op : LazyMapSpec.Op) (r : Ret)
deriving DecidableEq, Repr

/-- what an outside observer sees of a model trace event (the ghost `via` is dropped) -/
def Ev.obs : Ev → Obs
  | .call t op => .call t (opS op)
  | .ret t op r _ => .ret t (opS op) r

/-- what an outside observer sees of a specification step (`lin` is invisible) -/
def labObs : Label → Option Obs
  | .call t op => some (.call t op)
  | .lin _ => none
  | .ret t op r => some (.ret t op (retM r))

/-! ## Executions of the specification automaton -/

theorem steps_append {a b c : State} {l₁ l₂ : List Label} (h₁ : Steps a l₁ b) (h₂ : Steps b l₂ c) :
    Steps a (l₁ ++ l₂) c := by
  induction h₁ with
  | nil => exact h₂
  | cons hs _ ih => exact .cons hs (ih h₂)

theorem steps_one {a b : State} {l : Label} (h : Step a l b) : Steps a [l] b := .cons h (.nil _)

/-! ## The simulation relation -/

def absMap (s : Sys) : LazyMapSpec.Map := fun k =>
  match s.cell k with
  | .val v => some v
  | _ => none

/-- the specification status of a thread, from its program counter -/
def StatusRel (s : Sys) (t : Thread) (st : Status) : Prop :=
  match t.todo with
  | [] => st = .idle
  | op :: _ =>
    match t.pc with
    | .start => st = .idle
    | .compute _ => st = .pending
    | .rawStore _ _ => st = .pending
    | .finalStore => st = .pending
    | .signal _ v => ∃ r, st = .linearized r ∧ retM r = if op.isStore then .unit else .val v
    | .wait q =>
      if op.isStore = true ∨ s.cell op.key = .infl q then st = .pending
      else ∃ r, st = .linearized r ∧ retM r = retOfPh (s.ph q)

structure R (s : Sys) (a : State) : Prop where
  map : a.map = absMap s
  todo : ∀ t, a.todo t = (s.threads t).todo.map opS
  rets : ∀ t, (a.rets t).map retM = (s.threads t).rets
  status : ∀ t, StatusRel s (s.threads t) (a.status t)

theorem StatusRel_fresh (s : Sys) (rest : List Op) (rets : List Ret) :
    StatusRel s { todo := rest, pc := .start, rets := rets } .idle := by
  unfold StatusRel; split <;> rfl

theorem StatusRel_cons {s : Sys} {t : Thread} {op : Op} {rest : List Op} {st : Status}
    (h0 : t.todo = op :: rest) :
    StatusRel s t st ↔
      match t.pc with
      | .start => st = .idle
      | .compute _ => st = .pending
      | .rawStore _ _ => st = .pending
      | .finalStore => st = .pending
      | .signal _ v => ∃ r, st = .linearized r ∧ retM r = if op.isStore then .unit else .val v
      | .wait q =>
        if op.isStore = true ∨ s.cell op.key = .infl q then st = .pending
        else ∃ r, st = .linearized r ∧ retM r = retOfPh (s.ph q) := by
  unfold StatusRel; rw [h0]

/-- another thread's status is unaffected as long as, for a waiter, "is my placeholder still in
the cell" and the placeholder's content are unchanged -/
theorem StatusRel_frame {s s' : Sys} {t : Thread} {st : Status} (h : StatusRel s t st)
    (H : ∀ op rest q, t.todo = op :: rest → t.pc = .wait q → op.isStore = false →
      ((s'.cell op.key = .infl q ↔ s.cell op.key = .infl q) ∧
        (s.cell op.key ≠ .infl q → retOfPh (s'.ph q) = retOfPh (s.ph q)))) :
    StatusRel s' t st := by
  unfold StatusRel at h ⊢
  split
  · rename_i h0; simpa [h0] using h
  · rename_i op rest h0
    simp only [h0] at h
    cases hpc : t.pc with
    | wait q =>
      simp only [hpc] at h ⊢
      by_cases hs : op.isStore = true
      · simp only [hs, true_or, if_true] at h ⊢; exact h
      have hs' : op.isStore = false := by simpa using hs
      obtain ⟨h1, h2⟩ := H op rest q h0 hpc hs'
      by_cases hc : op.isStore = true ∨ s.cell op.key = .infl q
      · have hc' : op.isStore = true ∨ s'.cell op.key = .infl q := hc.imp id h1.2
        rw [if_pos hc] at h; rw [if_pos hc']; exact h
      · have hc' : ¬(op.isStore = true ∨ s'.cell op.key = .infl q) := fun x => hc (x.imp id h1.1)
        rw [if_neg hc] at h; rw [if_neg hc', h2 (fun x => hc (Or.inr x))]; exact h
    | start => simpa [hpc] using h
    | compute p => simpa [hpc] using h
    | rawStore p v => simpa [hpc] using h
    | signal p v => simpa [hpc] using h
    | finalStore => simpa [hpc] using h

theorem absMap_congr {s s' : Sys} (h : s'.cell = s.cell) : absMap s' = absMap s := by
  funext k; simp [absMap, h]

theorem absMap_val {s : Sys} {k v : Nat} (h : s.cell k = .val v) : absMap s k = some v := by
  simp [absMap, h]

theorem absMap_notVal {s : Sys} {k : Nat} (h : (s.cell k).isVal = false) : absMap s k = none := by
  unfold absMap; cases hc : s.cell k <;> simp [hc] at h ⊢

/-! ## One implementation step is matched by specification steps -/

/-- `s'` is reached from `s`, and the specification can follow from `a` with the same visible
events -/
def Sim (s : Sys) (a : State) (s' : Sys) : Prop :=
  ∃ ls a', Steps a ls a' ∧ R s' a' ∧
    s'.trace.map Ev.obs = s.trace.map Ev.obs ++ ls.filterMap labObs

def callSt (a : State) (t : Nat) : State :=
  { a with status := LazyMapSpec.upd a.status t .pending }
def linSt (a : State) (t : Nat) (op : LazyMapSpec.Op) : State :=
  { a with map := (LazyMapSpec.apply a.map op).1,
           status := LazyMapSpec.upd a.status t (.linearized (LazyMapSpec.apply a.map op).2) }
def retSt (a : State) (t : Nat) (rest : List LazyMapSpec.Op) (r : Res) : State :=
  { a with todo := LazyMapSpec.upd a.todo t rest, status := LazyMapSpec.upd a.status t .idle,
           rets := LazyMapSpec.upd a.rets t (a.rets t ++ [r]) }

theorem step_call {a : State} {t : Nat} {op : LazyMapSpec.Op} {rest : List LazyMapSpec.Op}
    (h1 : a.todo t = op :: rest) (h2 : a.status t = .idle) : Step a (.call t op) (callSt a t) :=
  .call h1 h2
theorem step_lin {a : State} {t : Nat} {op : LazyMapSpec.Op} {rest : List LazyMapSpec.Op}
    (h1 : a.todo t = op :: rest) (h2 : a.status t = .pending) : Step a (.lin t) (linSt a t op) :=
  .lin h1 h2
theorem step_ret {a : State} {t : Nat} {op : LazyMapSpec.Op} {rest : List LazyMapSpec.Op} {r : Res}
    (h1 : a.todo t = op :: rest) (h2 : a.status t = .linearized r) :
    Step a (.ret t op r) (retSt a t rest r) :=
  .ret h1 h2

open LazyMapSpec (upd) in
@[simp] theorem upd_same {α : Type} (f : Nat → α) (t : Nat) (x : α) : upd f t x t = x := by simp [upd]
open LazyMapSpec (upd) in
theorem upd_other {α : Type} (f : Nat → α) {t j : Nat} (x : α) (h : j ≠ t) : upd f t x j = f j := by
  simp [upd, h]

/-- the other threads keep their status relation when nothing a waiter looks at changes -/
theorem others_ok {s s' : Sys} {a : State} {i : Nat} (hR : R s a)
    (H : ∀ j, j ≠ i → ∀ op rest q, (s.threads j).todo = op :: rest → (s.threads j).pc = .wait q →
      ((s'.cell op.key = .infl q ↔ s.cell op.key = .infl q) ∧
        (s.cell op.key ≠ .infl q → retOfPh (s'.ph q) = retOfPh (s.ph q)))) :
    ∀ j, j ≠ i → StatusRel s' (s.threads j) (a.status j) :=
  fun j hj => StatusRel_frame (hR.status j) (fun op rest q h1 h2 _ => H j hj op rest q h1 h2)

/-- a call that takes effect and returns within its first atomic step (`Load`/`LoadOrStore`
finding a plain value, `Load` finding nothing): `call`, `lin`, `ret` -/
theorem sim_call_lin_ret {s : Sys} {a : State} {i : Nat} {op : Op} {rest : List Op} {r : Ret}
    {via : Via} {rs : Res} (hR : R s a)
    (htodo : (s.threads i).todo = op :: rest) (hpc : (s.threads i).pc = .start)
    (happ : LazyMapSpec.apply (absMap s) (opS op) = (absMap s, rs)) (hr : retM rs = r) :
    Sim s a (post s s i rest op (.fin r via)) := by
  have hst : a.status i = .idle := by
    have := hR.status i; rw [StatusRel_cons htodo, hpc] at this; exact this
  have htd : a.todo i = opS op :: rest.map opS := by rw [hR.todo i, htodo]; rfl
  let a1 := callSt a i
  let a2 := linSt a1 i (opS op)
  let a3 := retSt a2 i (rest.map opS) rs
  have s1 : Step a (.call i (opS op)) a1 := step_call htd hst
  have s2 : Step a1 (.lin i) a2 := step_lin (rest := rest.map opS) htd (by simp [a1, callSt])
  have hm : a1.map = absMap s := hR.map
  have s3 : Step a2 (.ret i (opS op) rs) a3 :=
    step_ret (rest := rest.map opS) htd (by simp [a2, linSt, hm, happ])
  refine ⟨_, a3, .cons s1 (.cons s2 (.cons s3 (.nil _))), ⟨?_, ?_, ?_, ?_⟩, ?_⟩
  · simp only [a3, retSt, a2, linSt, hm, happ]
    exact (absMap_congr rfl).symm
  · intro t
    by_cases ht : t = i
    · subst ht; simp [a3, retSt, post, advance]
    · simp [a3, retSt, a2, linSt, a1, callSt, post, ht, upd_other, hR.todo t]
  · intro t
    by_cases ht : t = i
    · subst ht
      simp [a3, retSt, a2, linSt, a1, callSt, post, advance, hR.rets t, hr]
    · simp [a3, retSt, a2, linSt, a1, callSt, post, ht, upd_other, hR.rets t]
  · intro t
    by_cases ht : t = i
    · subst ht
      simp only [a3, retSt, post, if_true, advance, upd_same]
      exact StatusRel_fresh _ _ _
    · simp only [a3, retSt, a2, linSt, a1, callSt, post, ht, if_false, upd_other _ _ ht]
      exact others_ok hR (fun _ _ _ _ _ _ _ => ⟨Iff.rfl, fun _ => rfl⟩) t ht
  · simp [post, traceAfter, hpc, Ev.obs, labObs, hr, List.filterMap_cons]

/-- assembling `R` for the state after a step of thread `i` -/
theorem R_post {s : Sys} {a a' : State} (hR : R s a) {i : Nat} {op : Op} {rest : List Op}
    {s1 : Sys} {nx : Next}
    (hmap : a'.map = absMap s1)
    (htd : ∀ t, a'.todo t =
      if t = i then (advance (s.threads i) rest nx).todo.map opS else a.todo t)
    (hrt : ∀ t, (a'.rets t).map retM =
      if t = i then (advance (s.threads i) rest nx).rets else (a.rets t).map retM)
    (hsti : StatusRel (post s1 s i rest op nx) (advance (s.threads i) rest nx) (a'.status i))
    (hstj : ∀ j, j ≠ i → StatusRel (post s1 s i rest op nx) (s.threads j) (a'.status j)) :
    R (post s1 s i rest op nx) a' := by
  refine ⟨?_, ?_, ?_, ?_⟩
  · rw [hmap]; exact (absMap_congr rfl).symm
  · intro t
    rw [htd t]
    by_cases ht : t = i
    · simp [post, ht]
    · simp [post, ht, hR.todo t]
  · intro t
    rw [hrt t]
    by_cases ht : t = i
    · simp [post, ht]
    · simp [post, ht, hR.rets t]
  · intro t
    by_cases ht : t = i
    · subst ht; simpa [post] using hsti
    · simpa [post, ht] using hstj t ht

/-- the first step of a call that does not return at once: `call` -/
theorem sim_call_goto {s : Sys} {a : State} {i : Nat} {op : Op} {rest : List Op} {pc' : Pc}
    (s1 : Sys) (hR : R s a)
    (htodo : (s.threads i).todo = op :: rest) (hpc : (s.threads i).pc = .start)
    (hmap : absMap s1 = absMap s)
    (hsti : StatusRel (post s1 s i rest op (.goto pc'))
      (advance (s.threads i) rest (.goto pc')) .pending)
    (hoth : ∀ j, j ≠ i → ∀ opj restj q, (s.threads j).todo = opj :: restj →
      (s.threads j).pc = .wait q →
      ((s1.cell opj.key = .infl q ↔ s.cell opj.key = .infl q) ∧
        (s.cell opj.key ≠ .infl q → retOfPh (s1.ph q) = retOfPh (s.ph q)))) :
    Sim s a (post s1 s i rest op (.goto pc')) := by
  have hst : a.status i = .idle := by
    have := hR.status i; rw [StatusRel_cons htodo, hpc] at this; exact this
  have htd : a.todo i = opS op :: rest.map opS := by rw [hR.todo i, htodo]; rfl
  refine ⟨_, callSt a i, steps_one (step_call htd hst), R_post hR ?_ ?_ ?_ ?_ ?_, ?_⟩
  · simp [callSt, hR.map, hmap]
  · intro t
    by_cases ht : t = i
    · subst ht; simp [callSt, advance, htodo, htd]
    · simp [callSt, ht]
  · intro t
    by_cases ht : t = i
    · subst ht; simp [callSt, advance, hR.rets]
    · simp [callSt, ht]
  · simpa [callSt] using hsti
  · intro j hj
    simp only [callSt, upd_other _ _ hj]
    exact others_ok hR (fun j hj opj restj q h1 h2 => by simpa [post] using hoth j hj opj restj q h1 h2) j hj
  · simp [post, traceAfter, hpc, Ev.obs, labObs]

/-- a step inside a call that is invisible to the specification (the compute function; a
`Store` waking up from `Wait`) -/
theorem sim_stutter {s : Sys} {a : State} {i : Nat} {op : Op} {rest : List Op} {pc' : Pc}
    (s1 : Sys) (hR : R s a)
    (htodo : (s.threads i).todo = op :: rest) (hpc : (s.threads i).pc ≠ .start)
    (hmap : absMap s1 = absMap s)
    (hsti : StatusRel (post s1 s i rest op (.goto pc'))
      (advance (s.threads i) rest (.goto pc')) (a.status i))
    (hoth : ∀ j, j ≠ i → ∀ opj restj q, (s.threads j).todo = opj :: restj →
      (s.threads j).pc = .wait q →
      ((s1.cell opj.key = .infl q ↔ s.cell opj.key = .infl q) ∧
        (s.cell opj.key ≠ .infl q → retOfPh (s1.ph q) = retOfPh (s.ph q)))) :
    Sim s a (post s1 s i rest op (.goto pc')) := by
  refine ⟨[], a, .nil _, R_post hR ?_ ?_ ?_ hsti ?_, ?_⟩
  · simp [hR.map, hmap]
  · intro t
    by_cases ht : t = i
    · subst ht; simp [advance, htodo, hR.todo]
    · simp [ht]
  · intro t
    by_cases ht : t = i
    · subst ht; simp [advance, hR.rets]
    · simp [ht]
  · intro j hj
    exact others_ok hR (fun j hj opj restj q h1 h2 => by simpa [post] using hoth j hj opj restj q h1 h2) j hj
  · simp [post, traceAfter, hpc]

/-- the last step of a call that took effect earlier: `ret` -/
theorem sim_ret {s : Sys} {a : State} {i : Nat} {op : Op} {rest : List Op} {r : Ret} {via : Via}
    {rs : Res} (s1 : Sys) (hR : R s a)
    (htodo : (s.threads i).todo = op :: rest) (hpc : (s.threads i).pc ≠ .start)
    (hmap : absMap s1 = absMap s)
    (hst : a.status i = .linearized rs) (hr : retM rs = r)
    (hoth : ∀ j, j ≠ i → ∀ opj restj q, (s.threads j).todo = opj :: restj →
      (s.threads j).pc = .wait q →
      ((s1.cell opj.key = .infl q ↔ s.cell opj.key = .infl q) ∧
        (s.cell opj.key ≠ .infl q → retOfPh (s1.ph q) = retOfPh (s.ph q)))) :
    Sim s a (post s1 s i rest op (.fin r via)) := by
  have htd : a.todo i = opS op :: rest.map opS := by rw [hR.todo i, htodo]; rfl
  refine ⟨_, retSt a i (rest.map opS) rs, steps_one (step_ret htd hst), R_post hR ?_ ?_ ?_ ?_ ?_, ?_⟩
  · simp [retSt, hR.map, hmap]
  · intro t
    by_cases ht : t = i
    · subst ht; simp [retSt, advance]
    · simp [retSt, ht, upd_other]
  · intro t
    by_cases ht : t = i
    · subst ht; simp [retSt, advance, hR.rets, hr]
    · simp [retSt, ht, upd_other]
  · simp only [retSt, upd_same, advance]; exact StatusRel_fresh _ _ _
  · intro j hj
    simp only [retSt, upd_other _ _ hj]
    exact others_ok hR (fun j hj opj restj q h1 h2 => by simpa [post] using hoth j hj opj restj q h1 h2) j hj
  · simp [post, traceAfter, hpc, Ev.obs, labObs, hr]

theorem absMap_setCell_val (s : Sys) (k v : Nat) :
    absMap (setCell s k (.val v)) = (absMap s).set k v := by
  funext k'
  by_cases h : k' = k
  · simp [absMap, setCell, LazyMapSpec.Map.set, h]
  · simp [absMap, setCell, LazyMapSpec.Map.set, h]

/-- a `Store`'s final raw store: `lin`, `ret` -/
theorem sim_finalStore {s : Sys} {a : State} {i : Nat} {op : Op} {rest : List Op} (hI : Inv s)
    (hR : R s a) (htodo : (s.threads i).todo = op :: rest)
    (hpc : (s.threads i).pc = .finalStore) :
    Sim s a (post (setCell s op.key (.val op.value)) s i rest op (.fin .unit .direct)) := by
  obtain ⟨hst, hcell⟩ := (by simpa [hpc] using TInv_cons (hI.thr i) htodo :
    PcInv s op .finalStore)
  have hstat : a.status i = .pending := by
    have := hR.status i; rw [StatusRel_cons htodo, hpc] at this; exact this
  have htd : a.todo i = opS op :: rest.map opS := by rw [hR.todo i, htodo]; rfl
  obtain ⟨k, v, rfl⟩ : ∃ k v, op = .store k v := by
    cases op <;> simp [Op.isStore] at hst; exact ⟨_, _, rfl⟩
  let a1 := linSt a i (opS (.store k v))
  have s1 : Step a (.lin i) a1 := step_lin htd hstat
  have s2 : Step a1 (.ret i (opS (.store k v)) .unit) (retSt a1 i (rest.map opS) .unit) :=
    step_ret (by simpa [a1, linSt] using htd) (by simp [a1, linSt, opS, LazyMapSpec.apply])
  refine ⟨_, _, .cons s1 (.cons s2 (.nil _)), R_post hR ?_ ?_ ?_ ?_ ?_, ?_⟩
  · simp [retSt, a1, linSt, opS, LazyMapSpec.apply, hR.map, absMap_setCell_val, Op.key, Op.value]
  · intro t
    by_cases ht : t = i
    · subst ht; simp [retSt, advance]
    · simp [retSt, a1, linSt, ht, upd_other]
  · intro t
    by_cases ht : t = i
    · subst ht; simp [retSt, a1, linSt, advance, hR.rets, retM]
    · simp [retSt, a1, linSt, ht, upd_other]
  · simp only [retSt, upd_same, advance]; exact StatusRel_fresh _ _ _
  · intro j hj
    simp only [retSt, a1, linSt, upd_other _ _ hj]
    refine others_ok hR (fun j hj opj restj q h1 h2 => ?_) j hj
    simp only [post, setCell]
    refine ⟨?_, fun _ => trivial⟩
    split
    · rename_i e
      rw [e]
      constructor
      · intro h; cases h
      · intro h; rw [h] at hcell; simp at hcell
    · exact Iff.rfl
  · simp [post, traceAfter, hpc, Ev.obs, labObs, List.filterMap_cons, retM]

/-! ## Helping: the owner's raw store linearizes every waiting reader -/

/-- In the specification, any set `W` of pending read-like calls on a present key can take
effect one after the other (threads `< N`), invisibly, each returning the present value. -/
theorem help_steps (a : State) (v : Nat) (W : Nat → Bool)
    (hW : ∀ t, W t = true → a.status t = .pending ∧
      ∃ op rest, a.todo t = op :: rest ∧ LazyMapSpec.apply a.map op = (a.map, .found v))
    (N : Nat) :
    ∃ ls, Steps a ls
        { a with status := fun t => if t < N ∧ W t = true then .linearized (.found v) else a.status t } ∧
      ls.filterMap labObs = [] := by
  induction N with
  | zero =>
    refine ⟨[], ?_, rfl⟩
    have : (fun t => if t < 0 ∧ W t = true then Status.linearized (.found v) else a.status t) = a.status := by
      funext t; simp
    rw [this]; exact .nil _
  | succ N ih =>
    obtain ⟨ls, hs, hf⟩ := ih
    by_cases hN : W N = true
    · obtain ⟨hp, op, rest, htd, happ⟩ := hW N hN
      let aN : State :=
        { a with status := fun t => if t < N ∧ W t = true then .linearized (.found v) else a.status t }
      have st : Step aN (.lin N) (linSt aN N op) :=
        step_lin (rest := rest) htd (by simp [aN, hp])
      refine ⟨ls ++ [.lin N], ?_, by simp [hf, labObs, List.filterMap_append]⟩
      have : linSt aN N op =
          { a with status := fun t => if t < N + 1 ∧ W t = true then .linearized (.found v) else a.status t } := by
        simp only [linSt, aN, happ]
        congr 1
        funext t
        by_cases ht : t = N
        · subst ht; simp [hN]
        · have : t < N + 1 ↔ t < N := by omega
          simp [upd_other _ _ ht, this]
      rw [← this]
      exact steps_append hs (steps_one st)
    · refine ⟨ls, ?_, hf⟩
      have : (fun t => if t < N + 1 ∧ W t = true then Status.linearized (.found v) else a.status t)
          = (fun t => if t < N ∧ W t = true then Status.linearized (.found v) else a.status t) := by
        funext t
        by_cases ht : t = N
        · subst ht; simp [hN]
        · have : t < N + 1 ↔ t < N := by omega
          simp [this]
      rw [this]; exact hs

/-- thread `t` is a reader (`Load`/`LoadOrStore`) waiting on placeholder `p` -/
def waitsOn (t : Thread) (p : Nat) : Bool :=
  match t.pc, t.todo with
  | .wait q, o :: _ => q == p && !o.isStore
  | _, _ => false

theorem waitsOn_iff {t : Thread} {p : Nat} :
    waitsOn t p = true ↔ ∃ o rest, t.todo = o :: rest ∧ t.pc = .wait p ∧ o.isStore = false := by
  unfold waitsOn
  constructor
  · intro h
    split at h
    · rename_i q o rest hpc htd
      simp at h
      exact ⟨o, rest, htd, by rw [hpc, h.1], h.2⟩
    · cases h
  · rintro ⟨o, rest, htd, hpc, hs⟩
    simp [htd, hpc, hs]

/-- The owner's raw store: the owner's call takes effect, and so does every reader already
waiting on the placeholder. -/
theorem sim_rawStore {s : Sys} {a : State} {i : Nat} {op : Op} {rest : List Op} {p v N : Nat}
    (hI : Inv s) (hF : ∀ t, N ≤ t → (s.threads t).pc = .start) (hR : R s a)
    (htodo : (s.threads i).todo = op :: rest) (hpc : (s.threads i).pc = .rawStore p v) :
    Sim s a (post (setCell s op.key (.val v)) s i rest op (.goto (.signal p v))) := by
  obtain ⟨hl, hpn, hcell, hdone, hv, hval, hof⟩ := (by simpa [hpc] using TInv_cons (hI.thr i) htodo :
    PcInv s op (.rawStore p v))
  have hown : (s.threads i).pc.owns p = true := by simp [hpc]
  have hstat : a.status i = .pending := by
    have := hR.status i; rw [StatusRel_cons htodo, hpc] at this; exact this
  have htd : a.todo i = opS op :: rest.map opS := by rw [hR.todo i, htodo]; rfl
  have hmk : a.map op.key = none := by rw [hR.map]; exact absMap_notVal (by rw [hcell]; rfl)
  -- the owner's own linearization
  obtain ⟨ri, happ, hri⟩ : ∃ ri, LazyMapSpec.apply a.map (opS op) = (a.map.set op.key v, ri) ∧
      retM ri = if op.isStore then .unit else .val v := by
    cases op with
    | load k => simp [Op.isLoad] at hl
    | los k fv =>
      simp only [Op.value] at hval; subst hval
      simp only [Op.key] at hmk
      exact ⟨.found fv, by simp [opS, LazyMapSpec.apply, hmk, Op.key], by simp [retM, Op.isStore]⟩
    | store k w =>
      simp only [Op.value] at hval; subst hval
      exact ⟨.unit, by simp [opS, LazyMapSpec.apply, Op.key], by simp [retM, Op.isStore]⟩
  let a1 := linSt a i (opS op)
  have s1 : Step a (.lin i) a1 := step_lin htd hstat
  have ha1m : a1.map = a.map.set op.key v := by simp [a1, linSt, happ]
  -- facts about a reader waiting on p
  have hwait : ∀ t o restt, (s.threads t).todo = o :: restt → (s.threads t).pc = .wait p →
      s.cell o.key = .infl p ∧ o.key = op.key := by
    intro t o restt h1 h2
    have hp := TInv_cons (hI.thr t) h1
    rw [h2] at hp
    have hc : s.cell o.key = .infl p := by
      rcases hp.2.2 with h | ⟨_, _, h⟩
      · exact h
      · have := h i; rw [hpc] at this; simp at this
    refine ⟨hc, ?_⟩
    obtain ⟨j', op', rest', h3, h4, h5⟩ := hI.cellOwner _ _ hc
    have : j' = i := hI.uniq j' i p (preStore_owns h5) hown
    subst this
    rw [htodo] at h3; cases h3
    exact h4.symm
  let W : Nat → Bool := fun t => decide (t ≠ i) && waitsOn (s.threads t) p
  have hW : ∀ t, W t = true → a1.status t = .pending ∧
      ∃ o rest, a1.todo t = o :: rest ∧ LazyMapSpec.apply a1.map o = (a1.map, .found v) := by
    intro t ht
    simp only [W, Bool.and_eq_true, decide_eq_true_eq] at ht
    obtain ⟨hti, hw⟩ := ht
    obtain ⟨o, restt, h1, h2, h3⟩ := waitsOn_iff.mp hw
    obtain ⟨hc, hk⟩ := hwait t o restt h1 h2
    constructor
    · simp only [a1, linSt, upd_other _ _ hti]
      have := hR.status t
      rw [StatusRel_cons h1, h2] at this
      simpa [hc] using this
    · refine ⟨opS o, restt.map opS, by simp [a1, linSt, hR.todo t, h1], ?_⟩
      rw [ha1m]
      cases o with
      | store _ _ => simp [Op.isStore] at h3
      | load k' =>
        have hk' : k' = op.key := hk
        simp [opS, LazyMapSpec.apply, LazyMapSpec.Map.set, hk']
      | los k' fv =>
        have hk' : k' = op.key := hk
        simp [opS, LazyMapSpec.apply, LazyMapSpec.Map.set, hk']
  obtain ⟨ls, hls, hlf⟩ := help_steps a1 v W hW N
  refine ⟨.lin i :: ls, _, .cons s1 hls, R_post hR ?_ ?_ ?_ ?_ ?_, ?_⟩
  · simp only [ha1m, hR.map, absMap_setCell_val]
  · intro t
    by_cases ht : t = i
    · subst ht; simp [a1, linSt, advance, htodo, htd]
    · simp [a1, linSt, ht]
  · intro t
    by_cases ht : t = i
    · subst ht; simp [a1, linSt, advance, hR.rets]
    · simp [a1, linSt, ht]
  · have : W i = false := by simp [W]
    simp only [this, Bool.false_eq_true, and_false, if_false, a1, linSt, upd_same, happ]
    rw [StatusRel_cons (op := op) (rest := rest) (by simp [advance, htodo])]
    simp only [advance]
    exact ⟨ri, rfl, hri⟩
  · intro j hj
    by_cases hw : waitsOn (s.threads j) p = true
    · obtain ⟨o, restj, h1, h2, h3⟩ := waitsOn_iff.mp hw
      obtain ⟨hc, hk⟩ := hwait j o restj h1 h2
      have hjN : j < N := by
        apply Nat.lt_of_not_le; intro h; have := hF j h; rw [h2] at this; cases this
      have hWj : W j = true := by simp [W, hj, hw]
      simp only [hjN, hWj, and_self, if_true]
      rw [StatusRel_cons h1, h2]
      have hne : ¬(o.isStore = true ∨
          (post (setCell s op.key (.val v)) s i rest op (.goto (.signal p v))).cell o.key = .infl p) := by
        simp [h3, post, setCell, hk]
      simp only [hne, if_false]
      exact ⟨.found v, rfl, by simp [post, setCell, retOfPh, hv, retM]⟩
    · have hWj : W j = false := by simp [W]; intro _; simpa using hw
      simp only [hWj, Bool.false_eq_true, and_false, if_false, a1, linSt, upd_other _ _ hj]
      refine StatusRel_frame (hR.status j) (fun o restj q h1 h2 h3 => ?_)
      have hqp : q ≠ p := by
        intro e; subst e; exact hw (waitsOn_iff.mpr ⟨o, restj, h1, h2, h3⟩)
      refine ⟨?_, fun _ => rfl⟩
      simp only [post, setCell]
      split
      · rename_i e
        rw [e, hcell]
        constructor
        · intro h; cases h
        · intro h; cases h; exact (hqp rfl).elim
      · exact Iff.rfl
  · simp [post, traceAfter, hpc, labObs, hlf, List.filterMap_cons]

/-! ## The simulation -/

theorem retOfPh_done (h : PH) : retOfPh { h with done := true } = retOfPh h := rfl

/-- every implementation step is matched by specification steps with the same visible events -/
theorem sim_step {s s' : Sys} {a : State} {i N : Nat} (hI : Inv s)
    (hF : ∀ t, N ≤ t → (s.threads t).pc = .start) (hR : R s a) (h : step s i = some s') :
    Sim s a s' := by
  obtain ⟨op, rest, s1, nx, htodo, hs, rfl⟩ := step_eq h
  have hti := TInv_cons (hI.thr i) htodo
  change Sim s a (post s1 s i rest op nx)
  generalize hpc : (s.threads i).pc = pc at hs hti
  have triv : ∀ j, j ≠ i → ∀ opj restj q, (s.threads j).todo = opj :: restj →
      (s.threads j).pc = .wait q →
      ((s.cell opj.key = .infl q ↔ s.cell opj.key = .infl q) ∧
        (s.cell opj.key ≠ .infl q → retOfPh (s.ph q) = retOfPh (s.ph q))) :=
    fun _ _ _ _ _ _ _ => ⟨Iff.rfl, fun _ => rfl⟩
  cases hs with
  | loadMissing hl hc =>
    refine sim_call_lin_ret (rs := .missing) hR htodo hpc ?_ rfl
    cases op <;> simp [Op.isLoad] at hl
    simp only [Op.key] at hc
    simp [opS, LazyMapSpec.apply, absMap, hc]
  | foundVal v hst hc =>
    refine sim_call_lin_ret (rs := .found v) hR htodo hpc ?_ rfl
    cases op <;> simp [Op.isStore] at hst <;> simp only [Op.key] at hc <;>
      simp [opS, LazyMapSpec.apply, absMap, hc]
  | toWait q hc =>
    refine sim_call_goto s hR htodo hpc rfl ?_ triv
    rw [StatusRel_cons (op := op) (rest := rest) (by simp [advance, htodo])]
    simp [advance, post, hc]
  | install hl hc =>
    refine sim_call_goto _ hR htodo hpc ?_ ?_ ?_
    · funext k
      by_cases e : k = op.key
      · simp [absMap, setCell, e, hc]
      · simp [absMap, setCell, e]
    · rw [StatusRel_cons (op := op) (rest := rest) (by simp [advance, htodo])]
      simp [advance]
    · intro j hj opj restj q h1 h2
      refine ⟨?_, fun _ => rfl⟩
      have hp := TInv_cons (hI.thr j) h1
      rw [h2] at hp
      simp only [setCell]
      split
      · rename_i e
        rw [e, hc]
        constructor
        · intro h; cases h; have := hp.1; omega
        · intro h; cases h
      · exact Iff.rfl
  | storeFound w hst hc =>
    refine sim_call_goto s hR htodo hpc rfl ?_ triv
    rw [StatusRel_cons (op := op) (rest := rest) (by simp [advance, htodo])]
    simp [advance]
  | compute p hl =>
    have hstat : a.status i = .pending := by
      have := hR.status i; rw [StatusRel_cons htodo, hpc] at this; exact this
    refine sim_stutter _ hR htodo (by rw [hpc]; simp) (absMap_congr rfl) ?_ ?_
    · rw [StatusRel_cons (op := op) (rest := rest) (by simp [advance, htodo])]
      exact hstat
    · intro j hj opj restj q h1 h2
      refine ⟨Iff.rfl, fun hne => ?_⟩
      have hp := TInv_cons (hI.thr j) h1
      rw [h2] at hp
      have hqp : q ≠ p := by
        rcases hp.2.2 with hx | ⟨_, _, hx⟩
        · exact (hne hx).elim
        · intro e; subst e; have := hx i; rw [hpc] at this; simp at this
      simp [setPh, hqp]
  | rawStore p v => exact sim_rawStore hI hF hR htodo hpc
  | signal p v =>
    obtain ⟨rs, hst, hr⟩ : ∃ rs, a.status i = .linearized rs ∧
        retM rs = if op.isStore then .unit else .val v := by
      have := hR.status i; rw [StatusRel_cons htodo, hpc] at this; exact this
    refine sim_ret _ hR htodo (by rw [hpc]; simp) (absMap_congr rfl) hst hr ?_
    intro j hj opj restj q h1 h2
    refine ⟨Iff.rfl, fun _ => ?_⟩
    simp only [setPh]
    split
    · rename_i e; rw [e]; rfl
    · rfl
  | wakeStore q hd hst =>
    have hstat : a.status i = .pending := by
      have := hR.status i; rw [StatusRel_cons htodo, hpc] at this; simpa [hst] using this
    refine sim_stutter s hR htodo (by rw [hpc]; simp) rfl ?_ triv
    rw [StatusRel_cons (op := op) (rest := rest) (by simp [advance, htodo])]
    exact hstat
  | wakeRet q hd hst =>
    obtain ⟨_, _, hval, _, _⟩ := wait_done hI hti hd
    obtain ⟨rs, hs, hr⟩ : ∃ rs, a.status i = .linearized rs ∧ retM rs = retOfPh (s.ph q) := by
      have := hR.status i
      rw [StatusRel_cons htodo, hpc] at this
      have hne : ¬(op.isStore = true ∨ s.cell op.key = .infl q) := by
        rw [hst]; intro h; rcases h with h | h
        · cases h
        · rw [h] at hval; simp at hval
      simpa [hne] using this
    exact sim_ret s hR htodo (by rw [hpc]; simp) rfl hs hr triv
  | finalStore hst => exact sim_finalStore hI hR htodo hpc

/-- **Forward simulation along a whole run.** -/
theorem refine_run (progs : Nat → List Op) (sched : List Nat) :
    ∃ ls a, Steps (LazyMapSpec.init (fun t => (progs t).map opS)) ls a ∧
      R (run (init progs) sched) a ∧
      ls.filterMap labObs = (run (init progs) sched).trace.map Ev.obs := by
  suffices H : ∀ (sched : List Nat) (s : Sys) (a : State) (ls : List Label) (N : Nat),
      Inv s → (∀ t, N ≤ t → (s.threads t).pc = .start) →
      Steps (LazyMapSpec.init (fun t => (progs t).map opS)) ls a → R s a →
      ls.filterMap labObs = s.trace.map Ev.obs →
      ∃ ls' a', Steps (LazyMapSpec.init (fun t => (progs t).map opS)) ls' a' ∧
        R (run s sched) a' ∧ ls'.filterMap labObs = (run s sched).trace.map Ev.obs by
    refine H sched (init progs) _ [] 0 (inv_init progs) (fun _ _ => rfl) (.nil _) ?_ rfl
    refine ⟨?_, fun _ => rfl, fun _ => rfl, fun t => ?_⟩
    · funext k; rfl
    · simp only [init, LazyMapSpec.init]; unfold StatusRel; split <;> rfl
  intro sched
  induction sched with
  | nil => intro s a ls N _ _ hs hR htr; exact ⟨ls, a, hs, hR, htr⟩
  | cons i is ih =>
    intro s a ls N hI hF hs hR htr
    simp only [run]
    split
    · rename_i s' hstep
      obtain ⟨ls1, a1, hs1, hR1, htr1⟩ := sim_step hI hF hR hstep
      refine ih s' a1 (ls ++ ls1) (max N (i + 1)) (inv_step hI hstep) ?_ (steps_append hs hs1) hR1 ?_
      · intro t ht
        obtain ⟨op, rest, s1, nx, _, hsh, rfl⟩ := step_eq hstep
        have hti : t ≠ i := by omega
        simp only [hti, if_false]
        exact hF t (by omega)
      · rw [List.filterMap_append, htr, htr1]
    · exact ih s a ls N hI hF hs hR htr

end Restli.LazyMap
