import Restli.Model.TreeReader
import Restli.Proofs.Ror2Bridge
import Restli.Proofs.NoPanic
/-! C06 at document level: what a reader reports as missing is a function of the document's
*shape* alone — which members are present and non-null, at which paths — and equals a short
specification that never looks at a value, an accumulator or a default. -/
namespace Restli.Codec
open Json (JVal)

/-- the decoded names of the non-null members of an object, in document order -/
def presentKeys (sem : LeafSem) : List (Bytes × JVal) → List Bytes
  | [] => []
  | (k0, v) :: rest =>
    match v with
    | .null => presentKeys sem rest
    | _ => (match sem.key k0 with | some k => [k] | none => []) ++ presentKeys sem rest

/-- the type a member is read at, if the reader looks at it at all -/
def memberTy (mode : MapMode) (k : Bytes) : Option Ty :=
  match mode with
  | .record fields => (findField fields k).map (·.ty)
  | .mapOf ty => some ty
  | .union members => members.lookup k

mutual
/-- **specification**: the required fields a document does not carry, by full path, for a value
read below the top level (records pass them up; only the top level turns them into an error) -/
def specMissing (c : TCfg) (scope : List Seg) : Ty → JVal → List Bytes
  | .arr ty, .arr xs => specItems c scope ty 0 xs
  | .map ty, .obj kvs => specEntries c scope (.mapOf ty) kvs
  | .ref n, .obj kvs =>
    (match c.env.find n with
    | some (.record _ _) =>
      let fields := allFields c.env (includeFuel c.env) n
      missingAfter c.tracker scope fields (presentKeys c.sem kvs) (specEntries c scope (.record fields) kvs)
    | some (.union _ members) => specEntries c scope (.union members) kvs
    | _ => [])
  | .ref n, .null =>
    (match c.env.find n with
    | some (.record _ _) =>
      missingAfter c.tracker scope (allFields c.env (includeFuel c.env) n) [] []
    | _ => [])
  | _, _ => []
def specEntries (c : TCfg) (scope : List Seg) (mode : MapMode) : List (Bytes × JVal) → List Bytes
  | [] => []
  | (k0, v) :: rest =>
    match v with
    | .null => specEntries c scope mode rest
    | v =>
      (match c.sem.key k0 with
      | some k =>
        (match memberTy mode k with
        | some ty => specMissing c (scope ++ [.key k]) ty v
        | none => [])
      | none => []) ++ specEntries c scope mode rest
def specItems (c : TCfg) (scope : List Seg) (ty : Ty) (index : Nat) : List JVal → List Bytes
  | [] => []
  | x :: xs => specMissing c (scope ++ [.idx index]) ty x ++ specItems c scope ty (index + 1) xs
end

/-- leaves report nothing themselves (true of the JSON and of the ROR2 leaf semantics) -/
structure SemClean (sem : LeafSem) : Prop where
  prim : ∀ p t v m, sem.prim p t = .ok v m → m = []
  str : ∀ t b m, sem.str t = .ok b m → m = []

theorem jsonSem_clean : SemClean jsonSem where
  prim := by
    intro p t v m h
    simp only [jsonSem, jsonPrim] at h
    repeat' split at h
    all_goals first
      | (cases h; done)
      | (simp only [TRes.ok.injEq] at h; exact h.2.symm)
  str := by
    intro t b m h
    simp only [jsonSem] at h
    split at h
    · simp only [TRes.ok.injEq] at h; exact h.2.symm
    · cases h

theorem bindT_ok {α β : Type} (r : TRes α) (f : α → List Bytes → TRes β) (v : β) (m : List Bytes)
    (h : bindT r f = .ok v m) : ∃ x m0, r = .ok x m0 ∧ f x m0 = .ok v m := by
  cases r with
  | ok x m0 => exact ⟨x, m0, rfl, h⟩
  | err e => cases h
  | panic => cases h
  | unmodelled => cases h

/-- the member callback adds exactly what reading the member's value reports -/
theorem callback_missing (rd : Ty → TRes Value) (mode : MapMode) (acc : List (Bytes × Value)) (seen : List Bytes)
    (k : Bytes) (acc' : List (Bytes × Value)) (m : List Bytes)
    (h : treeCallbackWith rd mode acc seen k = .ok acc' m) :
    (∃ ty, memberTy mode k = some ty ∧ ∃ x, rd ty = .ok x m) ∨ (memberTy mode k = none ∧ m = []) := by
  unfold treeCallbackWith at h
  cases mode with
  | record fields =>
    simp only at h
    cases hf : findField fields k with
    | none => simp only [hf, TRes.ok.injEq] at h; exact Or.inr ⟨by simp [memberTy, hf], h.2.symm⟩
    | some f =>
      simp only [hf] at h
      obtain ⟨x, m0, hr, hk⟩ := bindT_ok _ _ _ _ h
      simp only [TRes.ok.injEq] at hk
      exact Or.inl ⟨f.ty, by simp [memberTy, hf], x, by rw [hr, hk.2]⟩
  | mapOf ty =>
    simp only at h
    obtain ⟨x, m0, hr, hk⟩ := bindT_ok _ _ _ _ h
    simp only [TRes.ok.injEq] at hk
    exact Or.inl ⟨ty, rfl, x, by rw [hr, hk.2]⟩
  | union members =>
    simp only at h
    split at h
    · cases h
    · cases hl : members.lookup k with
      | none => simp [hl] at h
      | some ty =>
        simp only [hl] at h
        obtain ⟨x, m0, hr, hk⟩ := bindT_ok _ _ _ _ h
        simp only [TRes.ok.injEq] at hk
        exact Or.inl ⟨ty, by simp [memberTy, hl], x, by rw [hr, hk.2]⟩

/-- one non-null member of an object, given what is known about its value and about the rest -/
theorem entries_step (c : TCfg) (hc : SemClean c.sem) (k0 : Bytes) (v : JVal) (rest : List (Bytes × JVal))
    (hv : v ≠ .null) (scope : List Seg) (mode : MapMode) (acc : List (Bytes × Value)) (seen : List Bytes)
    (r : List (Bytes × Value) × List Bytes) (m : List Bytes)
    (h : treeReadEntries c scope mode acc seen ((k0, v) :: rest) = .ok r m)
    (ihv : ∀ sc ty x m', treeRead c false sc ty v = .ok x m' → m' = specMissing c sc ty v)
    (ihr : ∀ sc md a sn r' m', treeReadEntries c sc md a sn rest = .ok r' m' →
      m' = specEntries c sc md rest ∧ r'.2 = sn ++ presentKeys c.sem rest) :
    m = specEntries c scope mode ((k0, v) :: rest) ∧ r.2 = seen ++ presentKeys c.sem ((k0, v) :: rest) := by
  have hstep : treeReadEntries c scope mode acc seen ((k0, v) :: rest) =
      (match c.sem.key k0 with
       | none => .err .syntax
       | some k =>
         match c.tracker.check (scope ++ [.key k]) with
         | .panic => .panic
         | .yes => .err (.excluded (scopeString (scope ++ [.key k])))
         | .no =>
           bindT (treeCallbackWith (fun ty => treeRead c false (scope ++ [.key k]) ty v) mode acc seen k)
             (fun acc' m1 => bindT (treeReadEntries c scope mode acc' (seen ++ [k]) rest)
               (fun res m2 => .ok res (m1 ++ m2)))) := by
    exact treeReadEntries_cons c scope mode acc seen k0 v rest hv
  rw [hstep] at h
  have hspec : specEntries c scope mode ((k0, v) :: rest) =
      (match c.sem.key k0 with
       | some k => (match memberTy mode k with
         | some ty => specMissing c (scope ++ [.key k]) ty v
         | none => [])
       | none => []) ++ specEntries c scope mode rest := by
    cases v <;> first | exact absurd rfl hv | rfl
  have hpres : presentKeys c.sem ((k0, v) :: rest) =
      (match c.sem.key k0 with | some k => [k] | none => []) ++ presentKeys c.sem rest := by
    cases v <;> first | exact absurd rfl hv | rfl
  rw [hspec, hpres]
  cases hk : c.sem.key k0 with
  | none => simp [hk] at h
  | some k =>
    simp only [hk] at h ⊢
    split at h
    · cases h
    · cases h
    · obtain ⟨acc', m1, hcb, hrest⟩ := bindT_ok _ _ _ _ h
      obtain ⟨res, m2, hre, hfin⟩ := bindT_ok _ _ _ _ hrest
      simp only [TRes.ok.injEq] at hfin
      obtain ⟨rfl, rfl⟩ := hfin
      obtain ⟨ih1, ih2⟩ := ihr scope mode acc' (seen ++ [k]) res m2 hre
      refine ⟨?_, by rw [ih2]; simp⟩
      rcases callback_missing _ mode acc seen k acc' m1 hcb with ⟨ty, hty, x, hx⟩ | ⟨hnone, hm1⟩
      · rw [hty, ih1, ihv _ ty x m1 hx]
      · rw [hnone, hm1, ih1]

theorem finish_ok_missing (env : Env) (tr : Tracker) (scope : List Seg) (fields own : List Field)
    (fs : List (Bytes × Value)) (seen m0 : List Bytes) (v : Value) (m : List Bytes)
    (h : finishRecord env tr scope false fields own fs seen m0 = .ok v m) :
    m = missingAfter tr scope fields seen m0 := by
  unfold finishRecord at h
  split at h
  · cases h
  · simp only [Bool.false_and, Bool.false_eq_true, ↓reduceIte, RecFin.ok.injEq] at h
    exact h.2.symm

mutual
/-- **what a reader reports as missing below the top level is exactly the specification** -/
theorem read_missing (c : TCfg) (hc : SemClean c.sem) : (t : JVal) → ∀ (scope : List Seg) (ty : Ty) (v : Value)
    (m : List Bytes), treeRead c false scope ty t = .ok v m → m = specMissing c scope ty t
  | t, scope, .prim p, v, m, h => by
    have : specMissing c scope (.prim p) t = [] := by cases t <;> simp [specMissing]
    rw [this]
    simp only [treeRead] at h
    exact hc.prim p t v m h
  | .null, scope, .arr ty, v, m, h => by
    simp only [treeRead, TRes.ok.injEq] at h; simp [specMissing, h.2.symm]
  | .bool _, scope, .arr ty, v, m, h => by simp [treeRead] at h
  | .num _, scope, .arr ty, v, m, h => by simp [treeRead] at h
  | .str _, scope, .arr ty, v, m, h => by simp [treeRead] at h
  | .obj _, scope, .arr ty, v, m, h => by simp [treeRead] at h
  | .arr xs, scope, .arr ty, v, m, h => by
    simp only [treeRead] at h
    obtain ⟨vs, m0, hr, hk⟩ := bindT_ok _ _ _ _ h
    simp only [TRes.ok.injEq] at hk
    rw [← hk.2, specMissing]
    exact items_missing c hc xs scope ty 0 vs m0 hr
  | .null, scope, .map ty, v, m, h => by
    simp only [treeRead, TRes.ok.injEq] at h; simp [specMissing, h.2.symm]
  | .bool _, scope, .map ty, v, m, h => by simp [treeRead] at h
  | .num _, scope, .map ty, v, m, h => by simp [treeRead] at h
  | .str _, scope, .map ty, v, m, h => by simp [treeRead] at h
  | .arr _, scope, .map ty, v, m, h => by simp [treeRead] at h
  | .obj kvs, scope, .map ty, v, m, h => by
    simp only [treeRead] at h
    obtain ⟨r, m0, hr, hk⟩ := bindT_ok _ _ _ _ h
    simp only [TRes.ok.injEq] at hk
    rw [← hk.2, specMissing]
    exact (entries_missing c hc kvs scope (.mapOf ty) [] [] r m0 hr).1
  | t, scope, .ref n, v, m, h => by
    simp only [treeRead] at h
    cases hfind : c.env.find n with
    | none => simp [hfind] at h
    | some decl =>
      simp only [hfind] at h
      cases decl with
      | typeref p =>
        have : specMissing c scope (.ref n) t = [] := by cases t <;> simp [specMissing, hfind]
        rw [this]; exact hc.prim p t v m h
      | enum syms =>
        have : specMissing c scope (.ref n) t = [] := by cases t <;> simp [specMissing, hfind]
        rw [this]
        obtain ⟨b, m0, hr, hk⟩ := bindT_ok _ _ _ _ h
        simp only [TRes.ok.injEq] at hk
        rw [← hk.2]; exact hc.str t b m0 hr
      | fixed size =>
        have : specMissing c scope (.ref n) t = [] := by cases t <;> simp [specMissing, hfind]
        rw [this]
        obtain ⟨x, m0, hr, hk⟩ := bindT_ok _ _ _ _ h
        have hm0 := hc.prim .bytes t x m0 hr
        subst hm0
        split at hk
        · split at hk
          · simp only [TRes.ok.injEq] at hk; exact hk.2.symm
          · cases hk
        · cases hk
      | record incs own =>
        obtain ⟨r, m0, hr, hk⟩ := bindT_ok _ _ _ _ h
        split at hk
        · cases hk
        · cases hk
        · next v' m' hfin =>
          simp only [TRes.ok.injEq] at hk
          have hm := finish_ok_missing _ _ _ _ _ _ _ _ _ _ hfin
          rw [← hk.2, hm]
          cases t with
          | null =>
            simp only [TRes.ok.injEq] at hr
            obtain ⟨hr1, hr2⟩ := hr
            subst hr1; subst hr2
            simp [specMissing, hfind]
          | obj kvs =>
            have := entries_missing c hc kvs scope (.record (allFields c.env (includeFuel c.env) n)) [] [] r m0 hr
            simp only [specMissing, hfind, this.1, this.2, List.nil_append]
          | bool _ => cases hr
          | num _ => cases hr
          | str _ => cases hr
          | arr _ => cases hr
      | union hasNull members =>
        obtain ⟨r, m0, hr, hk⟩ := bindT_ok _ _ _ _ h
        split at hk
        · cases hk
        · simp only [TRes.ok.injEq] at hk
          rw [← hk.2]
          cases t with
          | null =>
            simp only [TRes.ok.injEq] at hr
            simp [specMissing, hfind, hr.2.symm]
          | obj kvs =>
            have := entries_missing c hc kvs scope (.union members) [] [] r m0 hr
            simp only [specMissing, hfind, this.1]
          | bool _ => cases hr
          | num _ => cases hr
          | str _ => cases hr
          | arr _ => cases hr
theorem entries_missing (c : TCfg) (hc : SemClean c.sem) : (kvs : List (Bytes × JVal)) → ∀ (scope : List Seg)
    (mode : MapMode) (acc : List (Bytes × Value)) (seen : List Bytes) (r : List (Bytes × Value) × List Bytes)
    (m : List Bytes), treeReadEntries c scope mode acc seen kvs = .ok r m →
    m = specEntries c scope mode kvs ∧ r.2 = seen ++ presentKeys c.sem kvs
  | [], scope, mode, acc, seen, r, m, h => by
    simp only [treeReadEntries, TRes.ok.injEq] at h
    obtain ⟨rfl, rfl⟩ := h
    simp [specEntries, presentKeys]
  | (k0, .null) :: rest, scope, mode, acc, seen, r, m, h => by
    simp only [treeReadEntries] at h
    have := entries_missing c hc rest scope mode acc seen r m h
    simpa [specEntries, presentKeys] using this
  | (k0, .bool b) :: rest, scope, mode, acc, seen, r, m, h =>
    entries_step c hc k0 (.bool b) rest (by simp) scope mode acc seen r m h
      (fun sc ty v m' h' => read_missing c hc (.bool b) sc ty v m' h')
      (fun sc md a sn r' m' h' => entries_missing c hc rest sc md a sn r' m' h')
  | (k0, .num x) :: rest, scope, mode, acc, seen, r, m, h =>
    entries_step c hc k0 (.num x) rest (by simp) scope mode acc seen r m h
      (fun sc ty v m' h' => read_missing c hc (.num x) sc ty v m' h')
      (fun sc md a sn r' m' h' => entries_missing c hc rest sc md a sn r' m' h')
  | (k0, .str x) :: rest, scope, mode, acc, seen, r, m, h =>
    entries_step c hc k0 (.str x) rest (by simp) scope mode acc seen r m h
      (fun sc ty v m' h' => read_missing c hc (.str x) sc ty v m' h')
      (fun sc md a sn r' m' h' => entries_missing c hc rest sc md a sn r' m' h')
  | (k0, .arr xs) :: rest, scope, mode, acc, seen, r, m, h =>
    entries_step c hc k0 (.arr xs) rest (by simp) scope mode acc seen r m h
      (fun sc ty v m' h' => read_missing c hc (.arr xs) sc ty v m' h')
      (fun sc md a sn r' m' h' => entries_missing c hc rest sc md a sn r' m' h')
  | (k0, .obj kvs) :: rest, scope, mode, acc, seen, r, m, h =>
    entries_step c hc k0 (.obj kvs) rest (by simp) scope mode acc seen r m h
      (fun sc ty v m' h' => read_missing c hc (.obj kvs) sc ty v m' h')
      (fun sc md a sn r' m' h' => entries_missing c hc rest sc md a sn r' m' h')
theorem items_missing (c : TCfg) (hc : SemClean c.sem) : (xs : List JVal) → ∀ (scope : List Seg) (ty : Ty) (idx : Nat)
    (vs : List Value) (m : List Bytes), treeReadItems c scope ty idx xs = .ok vs m →
    m = specItems c scope ty idx xs
  | [], scope, ty, idx, vs, m, h => by
    simp only [treeReadItems, TRes.ok.injEq] at h
    simp [specItems, h.2.symm]
  | x :: xs, scope, ty, idx, vs, m, h => by
    simp only [treeReadItems] at h
    obtain ⟨v, m1, hr, hk⟩ := bindT_ok _ _ _ _ h
    obtain ⟨vs', m2, hr2, hk2⟩ := bindT_ok _ _ _ _ hk
    simp only [TRes.ok.injEq] at hk2
    rw [← hk2.2, specItems, read_missing c hc x _ ty v m1 hr, items_missing c hc xs scope ty (idx + 1) vs' m2 hr2]
end

theorem ror2Sem_clean (plus : Bool) : SemClean (ror2Sem plus) where
  prim := by
    intro p t v m h
    simp only [ror2Sem] at h
    split at h
    · unfold liftTok at h
      split at h
      · simp only [TRes.ok.injEq] at h; exact h.2.symm
      · cases h
      · cases h
    · cases h
  str := by
    intro t b m h
    simp only [ror2Sem] at h
    split at h
    · split at h
      · simp only [TRes.ok.injEq] at h; exact h.2.symm
      · cases h
    · cases h

/-- **top level**: when the members of the document decode, a record read at the top either
succeeds with nothing missing — exactly when the specification's list is empty — or fails with one
error that lists exactly the specification's paths and still carries every field that was present -/
theorem read_top_record (c : TCfg) (hc : SemClean c.sem) (n : TName) (incs : List TName) (own : List Field)
    (hfind : c.env.find n = some (.record incs own)) (kvs : List (Bytes × JVal))
    (r : List (Bytes × Value) × List Bytes) (m0 : List Bytes)
    (hent : treeReadEntries c [] (.record (allFields c.env (includeFuel c.env) n)) [] [] kvs = .ok r m0) :
    treeRead c true [] (.ref n) (.obj kvs) =
      (if specMissing c [] (.ref n) (.obj kvs) = [] then
        .ok (.record (populateDefaults own (fillRequired c.env (allFields c.env (includeFuel c.env) n) r.1))) []
       else .err (.missing (specMissing c [] (.ref n) (.obj kvs))
         (.record (fillRequired c.env (allFields c.env (includeFuel c.env) n) r.1)))) := by
  have hsp := entries_missing c hc kvs [] _ [] [] r m0 hent
  have hspec : specMissing c [] (.ref n) (.obj kvs) =
      missingAfter c.tracker [] (allFields c.env (includeFuel c.env) n) r.2 m0 := by
    simp only [specMissing, hfind, hsp.1, hsp.2, List.nil_append]
  have hnp : finishPanics c.tracker [] (allFields c.env (includeFuel c.env) n) r.2 = false := by
    unfold finishPanics
    simp only [List.any_eq_false, beq_iff_eq]
    intro x _
    exact tracker_check_ne_panic c.tracker [] (.key x)
  simp only [treeRead, hfind, hent, bindT, finishRecord, hnp, Bool.false_eq_true, ↓reduceIte, Bool.true_and, hspec]
  by_cases hnil : missingAfter c.tracker [] (allFields c.env (includeFuel c.env) n) r.2 m0 = []
  · simp [hnil]
  · have : (missingAfter c.tracker [] (allFields c.env (includeFuel c.env) n) r.2 m0).isEmpty = false := by
      cases h : missingAfter c.tracker [] (allFields c.env (includeFuel c.env) n) r.2 m0 with
      | nil => exact absurd h hnil
      | cons _ _ => rfl
    simp [hnil, this]

end Restli.Codec
