import Restli.Lib.Multipart
import Restli.Spec.Tunnel
import Restli.Proofs.Url
/-! Helper lemmas about `Lib.Multipart` (no property statements here): reading back what the writer
wrote, under a fresh boundary. -/
namespace Restli.Mime
open Restli Restli.Url Restli.TunnelSpec

/-! ### prefixes and occurrences -/

theorem isPrefixOf_append_self (a b : Bytes) : a.isPrefixOf (a ++ b) = true :=
  List.isPrefixOf_iff_prefix.2 (List.prefix_append a b)

/-- a prefix of `A ++ B` is a prefix of `A`, or runs past the end of `A` -/
theorem isPrefixOf_append_cases (P A B : Bytes) (h : P.isPrefixOf (A ++ B) = true) :
    P.isPrefixOf A = true ∨ ∃ P2, P = A ++ P2 ∧ P2 ≠ [] ∧ P2.isPrefixOf B = true := by
  induction A generalizing P with
  | nil =>
    cases P with
    | nil => left; rfl
    | cons p ps => right; exact ⟨p :: ps, rfl, by simp, by simpa using h⟩
  | cons a as ih =>
    cases P with
    | nil => left; rfl
    | cons p ps =>
      simp only [List.cons_append, List.isPrefixOf, Bool.and_eq_true, beq_iff_eq] at h
      rcases ih ps h.2 with h1 | ⟨P2, e, hne, hp⟩
      · left; simp [List.isPrefixOf, h.1, h1]
      · right; exact ⟨P2, by rw [h.1, e]; rfl, hne, hp⟩

theorem occursIn_of_prefix (pat s : Bytes) (h : pat.isPrefixOf s = true) : occursIn pat s = true := by
  cases s with
  | nil => cases pat <;> simp_all [occursIn, List.isPrefixOf]
  | cons c cs => simp [occursIn, h]

theorem occursIn_append_left (pat a b : Bytes) (h : occursIn pat b = true) : occursIn pat (a ++ b) = true := by
  induction a with
  | nil => exact h
  | cons c cs ih => simp [occursIn, ih]

theorem occursIn_cons_false (pat : Bytes) (c : UInt8) (cs : Bytes) (h : occursIn pat (c :: cs) = false) :
    pat.isPrefixOf (c :: cs) = false ∧ occursIn pat cs = false := by
  simpa [occursIn] using h

/-- the boundary delimiter line's bytes, as far as freshness needs them: `"--" ++ b` with `b` free of
CR (and LF) -/
structure BoundaryOk (b : Bytes) : Prop where
  ne : b ≠ []
  noCR : cCR ∉ b
  noLF : cLF ∉ b
  short : b.length ≤ 70

def dashB (b : Bytes) : Bytes := dashDash ++ b
def nlDashB (b : Bytes) : Bytes := crlf ++ dashB b

theorem dashB_noCR (b : Bytes) (hb : BoundaryOk b) : cCR ∉ dashB b ∧ cLF ∉ dashB b := by
  simp only [dashB, dashDash, List.mem_append, List.mem_cons, not_or]
  exact ⟨⟨⟨by decide, by decide, by simp⟩, hb.noCR⟩, ⟨⟨by decide, by decide, by simp⟩, hb.noLF⟩⟩

/-- `"--b"` is not a prefix of `content ++ CR …` when it does not occur in `content` -/
theorem dash_not_prefix (b content tail : Bytes) (hb : BoundaryOk b) (hf : occursIn (dashB b) content = false) :
    (dashB b).isPrefixOf (content ++ cCR :: tail) = false := by
  cases h : (dashB b).isPrefixOf (content ++ cCR :: tail) with
  | false => rfl
  | true =>
    rcases isPrefixOf_append_cases _ _ _ h with h1 | ⟨P2, e, hne, hp⟩
    · rw [occursIn_of_prefix _ _ h1] at hf; exact absurd hf (by simp)
    · cases P2 with
      | nil => exact absurd rfl hne
      | cons x xs =>
        have hx : x = cCR := by simpa [List.isPrefixOf] using (And.left (by simpa [List.isPrefixOf] using hp : x = cCR ∧ _))
        have : cCR ∈ dashB b := by rw [e, hx]; simp
        exact absurd this (dashB_noCR b hb).1

/-- `CRLF "--b"` is not a prefix of `A ++ CRLF "--b" …` for non-empty `A` in which `"--b"` does not occur -/
theorem nlDash_not_prefix (b : Bytes) (a : UInt8) (as tail : Bytes) (hb : BoundaryOk b)
    (hf : occursIn (dashB b) (a :: as) = false) :
    (nlDashB b).isPrefixOf ((a :: as) ++ (nlDashB b ++ tail)) = false := by
  cases h : (nlDashB b).isPrefixOf ((a :: as) ++ (nlDashB b ++ tail)) with
  | false => rfl
  | true =>
    rcases isPrefixOf_append_cases _ _ _ h with h1 | ⟨P2, e, hne, hp⟩
    · -- CRLF--b is a prefix of A: then --b occurs in A
      obtain ⟨t, ht⟩ := List.isPrefixOf_iff_prefix.1 h1
      have : occursIn (dashB b) (a :: as) = true := by
        rw [← ht, nlDashB, List.append_assoc]
        exact occursIn_append_left _ _ _ (occursIn_of_prefix _ _ (isPrefixOf_append_self _ _))
      rw [this] at hf; exact absurd hf (by simp)
    · cases P2 with
      | nil => exact absurd rfl hne
      | cons x xs =>
        have hx : x = cCR := by
          have : (x :: xs).isPrefixOf (cCR :: (cLF :: dashB b ++ tail)) = true := by
            simpa [nlDashB, crlf] using hp
          simp only [List.isPrefixOf, Bool.and_eq_true, beq_iff_eq] at this
          exact this.1
        -- x sits at offset ≥ 1 of CRLF--b, where no CR is
        have e' : cCR :: cLF :: dashB b = a :: (as ++ x :: xs) := by simpa [nlDashB, crlf] using e
        injection e' with _ e2
        have hm : cCR ∈ cLF :: dashB b := by rw [e2, hx]; simp
        rcases List.mem_cons.1 hm with h0 | h0
        · exact absurd h0 (by decide)
        · exact absurd h0 (dashB_noCR b hb).1

/-! ### the part body ends at the first real delimiter -/

theorem scanFrom_fresh (b : Bytes) (hb : BoundaryOk b) (content tail : Bytes)
    (hf : occursIn (dashB b) content = false) (ht : boundaryTerminated tail = true) :
    scanFrom (nlDashB b) (content ++ (nlDashB b ++ tail)) = some (content, nlDashB b ++ tail) := by
  induction content with
  | nil =>
    have hne : nlDashB b ++ tail ≠ [] := by simp [nlDashB, crlf]
    obtain ⟨c, cs, hcs⟩ := List.exists_cons_of_ne_nil hne
    simp only [List.nil_append]
    rw [hcs, scanFrom, ← hcs, isPrefixOf_append_self, List.drop_left, ht]
    simp
  | cons a as ih =>
    obtain ⟨h1, h2⟩ := occursIn_cons_false _ _ _ hf
    have hnp := nlDash_not_prefix b a as tail hb hf
    simp only [List.cons_append] at hnp ⊢
    rw [scanFrom, hnp, ih h2]
    simp

theorem scanBody_fresh (b : Bytes) (hb : BoundaryOk b) (content tail : Bytes)
    (hf : occursIn (dashB b) content = false) (ht : boundaryTerminated tail = true) :
    scanBody (dashB b) (nlDashB b) (content ++ (nlDashB b ++ tail)) = some (content, nlDashB b ++ tail) := by
  have hnp : (dashB b).isPrefixOf (content ++ (nlDashB b ++ tail)) = false := by
    have := dash_not_prefix b content (cLF :: dashB b ++ tail) hb hf
    simpa [nlDashB, crlf] using this
  simp only [scanBody, hnp, Bool.false_and, Bool.false_eq_true, if_false]
  exact scanFrom_fresh b hb content tail hf ht

/-! ### lines -/

theorem readSlice_line (l rest : Bytes) (h : cLF ∉ l) : readSlice (l ++ cLF :: rest) = (l ++ [cLF], rest, true) := by
  induction l with
  | nil => simp [readSlice]
  | cons c cs ih =>
    have hc : c ≠ cLF := fun e => h (by simp [e])
    have hcs : cLF ∉ cs := fun e => h (by simp [e])
    simp [readSlice, hc, ih hcs]

/-- a line ending in CRLF, as `textproto` hands it over -/
theorem readLine_crlf (l rest : Bytes) (h : cLF ∉ l) : readLine (l ++ crlf ++ rest) = some (l, rest) := by
  have h' : cLF ∉ l ++ [cCR] := by
    simp only [List.mem_append, List.mem_cons, List.not_mem_nil, or_false, not_or]
    exact ⟨h, by decide⟩
  have e : l ++ crlf ++ rest = (l ++ [cCR]) ++ cLF :: rest := by simp [crlf]
  have hne : ((l ++ [cCR]) ++ cLF :: rest).isEmpty = false := by simp
  rw [e, readLine, hne, readSlice_line _ _ h']
  simp

/-! ### the header block of a written part -/

/-- what the writer may put into a part header so that the reader returns it unchanged -/
structure SimpleHeader (k v : Bytes) : Prop where
  kne : k ≠ []
  kvalid : k.all validFieldByte = true
  kcanon : canonLoop true k = k
  vne : v ≠ []
  vvalid : v.all validValueByte = true
  vhead : v.head? ≠ some cSP ∧ v.head? ≠ some cTAB
  vlast : v.getLast? ≠ some cSP ∧ v.getLast? ≠ some cTAB
  notCTE : k ≠ strB "Content-Transfer-Encoding"

theorem validFieldByte_facts (c : UInt8) (h : validFieldByte c = true) :
    c ≠ cLF ∧ c ≠ cSP ∧ c ≠ cTAB ∧ c ≠ cColon := by
  have := byte_forall (fun c => !(validFieldByte c) || (c != cLF && c != cSP && c != cTAB && c != cColon))
    (by decide +kernel) c
  simpa [h, and_assoc] using this

theorem validValueByte_facts (c : UInt8) (h : validValueByte c = true) : c ≠ cLF ∧ c ≠ cCR := by
  have := byte_forall (fun c => !(validValueByte c) || (c != cLF && c != cCR)) (by decide +kernel) c
  simpa [h] using this

theorem dropWhile_head {α} (p : α → Bool) (l : List α) (h : ∀ x, l.head? = some x → p x = false) :
    l.dropWhile p = l := by
  cases l with
  | nil => rfl
  | cons a as => simp [List.dropWhile, h a rfl]

theorem trimWS_id (s : Bytes) (hh : ∀ x, s.head? = some x → (x == cSP || x == cTAB) = false)
    (hl : ∀ x, s.getLast? = some x → (x == cSP || x == cTAB) = false) : trimWS s = s := by
  simp only [trimWS]
  rw [dropWhile_head _ s hh, dropWhile_head _ s.reverse (by simpa [List.head?_reverse] using hl)]
  simp

theorem readHeader_simple (k v rest : Bytes) (h : SimpleHeader k v) :
    readHeader (partHead ⟨k, v, []⟩ ++ rest) = .ok [(k, v)] rest := by
  obtain ⟨k0, ks, hk⟩ := List.exists_cons_of_ne_nil h.kne
  obtain ⟨v0, vs, hv⟩ := List.exists_cons_of_ne_nil h.vne
  have hkall : ∀ c ∈ k, validFieldByte c = true := List.all_eq_true.1 h.kvalid
  have hvall : ∀ c ∈ v, validValueByte c = true := List.all_eq_true.1 h.vvalid
  have hk0 := validFieldByte_facts k0 (hkall k0 (by simp [hk]))
  -- the header line and what follows it
  let line := k ++ [cColon, cSP] ++ v
  have hline_nolf : cLF ∉ line := by
    simp only [line, List.mem_append, List.mem_cons, List.not_mem_nil, or_false, not_or]
    exact ⟨⟨fun hm => (validFieldByte_facts _ (hkall _ hm)).1 rfl, by decide, by decide⟩,
      fun hm => (validValueByte_facts _ (hvall _ hm)).1 rfl⟩
  have e1 : partHead ⟨k, v, []⟩ ++ rest = line ++ crlf ++ (crlf ++ rest) := by
    simp [partHead, line, crlf]
  have hhead : (partHead ⟨k, v, []⟩ ++ rest).head? = some k0 := by simp [partHead, hk]
  have hlen : 2 ≤ (partHead ⟨k, v, []⟩ ++ rest).length + 1 := by simp [partHead]; omega
  obtain ⟨fuel, hfuel⟩ : ∃ f, (partHead ⟨k, v, []⟩ ++ rest).length + 1 = f + 2 :=
    ⟨(partHead ⟨k, v, []⟩ ++ rest).length - 1, by omega⟩
  have hcolon_k : cColon ∉ k := fun hm => (validFieldByte_facts _ (hkall _ hm)).2.2.2 rfl
  have hcut : cut cColon line = (k, cSP :: v, true) := by
    have := cut_append cColon k (cSP :: v) hcolon_k
    simpa [line] using this
  have htrim : trimWS line = line := by
    apply trimWS_id
    · intro x hx
      have : x = k0 := by simpa [line, hk] using hx.symm
      rw [this]; simp [hk0.2.1, hk0.2.2.1]
    · intro x hx
      have hl : line.getLast? = v.getLast? := by
        simp only [line, List.getLast?_append, hv, List.getLast?_cons_cons]
        cases hg : (v0 :: vs).getLast? with
        | none => simp at hg
        | some z => simp
      rw [hl] at hx
      have h1 : x ≠ cSP := fun e => h.vlast.1 (by rw [hx, e])
      have h2 : x ≠ cTAB := fun e => h.vlast.2 (by rw [hx, e])
      simp [h1, h2]
  have hkey : readerKey k = some k := by
    have h1 : k.isEmpty = false := by simp [hk]
    have h2 : k.any (fun c => !validFieldByte c && c != cSP) = false := by
      rw [List.any_eq_false]; intro c hc; simp [hkall c hc]
    have h3 : k.contains cSP = false := by
      cases hc : k.contains cSP with
      | false => rfl
      | true => exact absurd rfl (validFieldByte_facts _ (hkall _ (List.contains_iff_mem.1 hc))).2.1
    simp [readerKey, h1, h2, h.kcanon]
  have hvalbytes : (cSP :: v).any (fun x => !validValueByte x) = false := by
    rw [List.any_eq_false]
    intro c hc
    rcases List.mem_cons.1 hc with rfl | hc
    · decide
    · simp [hvall c hc]
  have hvdrop : (cSP :: v).dropWhile (fun x => x == cSP || x == cTAB) = v := by
    have : v.dropWhile (fun x => x == cSP || x == cTAB) = v := by
      apply dropWhile_head
      intro x hx
      have h1 : x ≠ cSP := fun e => h.vhead.1 (by rw [hx, e])
      have h2 : x ≠ cTAB := fun e => h.vhead.2 (by rw [hx, e])
      simp [h1, h2]
    simp [List.dropWhile, this]
  have hcontains : line.contains cColon = true := by
    apply List.contains_iff_mem.2; simp [line]
  have hline_ne : line.isEmpty = false := by simp [line, hk]
  simp only [readHeader, hhead, hfuel]
  have hk0' : (some k0 == some cSP || some k0 == some cTAB) = false := by
    simp [hk0.2.1, hk0.2.2.1]
  simp only [hk0', Bool.false_eq_true, if_false]
  rw [e1, readHeaderLoop, readLine_crlf line (crlf ++ rest) hline_nolf]
  simp only [hline_ne, hcontains, Bool.false_eq_true, if_false, Bool.not_true, htrim, hcut, hkey, hvalbytes, hvdrop]
  have hrest : ((crlf ++ rest).head? == some cSP || (crlf ++ rest).head? == some cTAB) = false := by
    simp [crlf]; decide
  simp only [hrest, Bool.false_eq_true, if_false, List.nil_append]
  cases fuel with
  | zero =>
    -- one more unit of fuel is always there: the block is at least 7 bytes long
    simp [partHead, crlf, hk, hv] at hfuel
  | succ f =>
    have : readLine (crlf ++ rest) = some ([], rest) := by
      have := readLine_crlf [] rest (by simp)
      simpa using this
    rw [readHeaderLoop, this]
    simp

/-! ### `NextPart` on what the writer wrote -/

/-- the reader's view of written parts -/
def asParts : List WPart → Parts
  | [] => .eof
  | p :: ps => .part [(p.key, p.value)] p.content (asParts ps)

/-- a part the reader returns unchanged under boundary `b` -/
structure GoodPart (b : Bytes) (p : WPart) : Prop where
  hdr : SimpleHeader p.key p.value
  fresh : occursIn (dashB b) p.content = false

theorem dashB_head (b : Bytes) : ∃ t, dashB b = cDash :: t := ⟨cDash :: b, rfl⟩

theorem skipLWSP_crlf (t : Bytes) : skipLWSP (crlf ++ t) = crlf ++ t := rfl

theorem lf_notin_dash_cr (b : Bytes) (hb : BoundaryOk b) : cLF ∉ dashB b ++ [cCR] := by
  simp only [List.mem_append, List.mem_cons, List.not_mem_nil, or_false, not_or]
  exact ⟨(dashB_noCR b hb).2, by decide⟩

/-- the separator line between a part body and the next boundary line -/
theorem nextPart_nl (b : Bytes) (fuel : Nat) (rest : Bytes) :
    nextPart b (fuel + 1) crlf false false (crlf ++ rest) = nextPart b fuel crlf false true rest := by
  have hs : readSlice (crlf ++ rest) = (crlf, rest, true) := by
    have := readSlice_line [cCR] rest (by decide)
    simpa [crlf] using this
  have hp : (dashDash ++ b).isPrefixOf crlf = false := rfl
  have hf : isFinalBoundary b crlf crlf = false := rfl
  rw [nextPart]
  simp only [hs, hp, Bool.false_and, Bool.false_eq_true, if_false, hf]
  simp [show crlf.length = 2 from rfl]

/-- a boundary delimiter line followed by a written part -/
theorem nextPart_delim (b : Bytes) (hb : BoundaryOk b) (fuel : Nat) (first expect : Bool) (p : WPart)
    (hp : GoodPart b p) (tail : Bytes) (ht : boundaryTerminated tail = true) :
    nextPart b (fuel + 1) crlf first expect
        (dashB b ++ crlf ++ (partHead p ++ (p.content ++ (nlDashB b ++ tail)))) =
      .part [(p.key, p.value)] p.content (nextPart b fuel crlf false false (nlDashB b ++ tail)) := by
  have hs : readSlice (dashB b ++ crlf ++ (partHead p ++ (p.content ++ (nlDashB b ++ tail))))
      = (dashB b ++ crlf, partHead p ++ (p.content ++ (nlDashB b ++ tail)), true) := by
    have := readSlice_line (dashB b ++ [cCR]) (partHead p ++ (p.content ++ (nlDashB b ++ tail))) (lf_notin_dash_cr b hb)
    simpa [crlf] using this
  have hlen : ¬ ((dashB b ++ crlf).length > 4096) := by
    have := hb.short
    simp [dashB, dashDash, crlf]; omega
  have hpre : (dashDash ++ b).isPrefixOf (dashB b ++ crlf) = true := isPrefixOf_append_self _ _
  have hdrop : (dashB b ++ crlf).drop (dashDash ++ b).length = crlf := List.drop_left
  have hafter : skipLWSP crlf = crlf := by simpa using skipLWSP_crlf []
  have hhdr : readHeader (partHead p ++ (p.content ++ (nlDashB b ++ tail))) =
      .ok [(p.key, p.value)] (p.content ++ (nlDashB b ++ tail)) :=
    readHeader_simple p.key p.value (p.content ++ (nlDashB b ++ tail)) hp.hdr
  have hcte : (([(p.key, p.value)] : List (Bytes × Bytes)).lookup (strB "Content-Transfer-Encoding")).isSome = false := by
    have : (strB "Content-Transfer-Encoding" == p.key) = false := by
      have := hp.hdr.notCTE
      simp only [beq_eq_false_iff_ne, ne_eq]
      exact fun e => this e.symm
    simp [List.lookup, this]
  have hscan := scanBody_fresh b hb p.content tail hp.fresh ht
  rw [nextPart]
  simp only [hs, hlen, hpre, hdrop, hafter, hhdr, hcte]
  have hc : (crlf == [cLF]) = false := by decide
  simp only [hc, Bool.and_false, Bool.false_eq_true, if_false, Bool.true_and, beq_self_eq_true, if_true,
    Bool.not_true]
  have e : crlf ++ (dashDash ++ b) = nlDashB b := rfl
  have e2 : dashDash ++ b = dashB b := rfl
  rw [e, e2, hscan]
  simp

/-- the closing line `--b--` -/
theorem nextPart_final (b : Bytes) (hb : BoundaryOk b) (fuel : Nat) (first expect : Bool) :
    nextPart b (fuel + 1) crlf first expect (dashB b ++ dashDash ++ crlf) = .eof := by
  have hs : readSlice (dashB b ++ dashDash ++ crlf) = (dashB b ++ dashDash ++ crlf, [], true) := by
    have hn : cLF ∉ dashB b ++ dashDash ++ [cCR] := by
      simp only [List.mem_append, List.mem_cons, List.not_mem_nil, or_false, not_or, dashDash]
      exact ⟨⟨(dashB_noCR b hb).2, by decide, by decide⟩, by decide⟩
    have := readSlice_line (dashB b ++ dashDash ++ [cCR]) [] hn
    simpa [crlf] using this
  have hlen : ¬ ((dashB b ++ dashDash ++ crlf).length > 4096) := by
    have := hb.short
    simp [dashB, dashDash, crlf]; omega
  have hpre : (dashDash ++ b).isPrefixOf (dashB b ++ dashDash ++ crlf) = true := by
    rw [List.append_assoc]; exact isPrefixOf_append_self _ _
  have hdrop : (dashB b ++ dashDash ++ crlf).drop (dashDash ++ b).length = dashDash ++ crlf := by
    rw [List.append_assoc]; exact List.drop_left
  have hafter : skipLWSP (dashDash ++ crlf) = dashDash ++ crlf := by decide
  have hfin : isFinalBoundary b crlf (dashB b ++ dashDash ++ crlf) = true := by
    have h1 : (dashDash ++ b ++ dashDash).isPrefixOf (dashB b ++ dashDash ++ crlf) = true := isPrefixOf_append_self _ _
    have h2 : (dashB b ++ dashDash ++ crlf).drop (dashDash ++ b ++ dashDash).length = crlf := List.drop_left
    have h3 : skipLWSP crlf = crlf := rfl
    simp only [isFinalBoundary, h1, h2, h3]
    decide
  rw [nextPart]
  have h1 : (dashDash ++ crlf == [cLF]) = false := by decide
  have h2 : (dashDash ++ crlf == crlf) = false := by decide
  simp only [hs, hlen, hpre, hdrop, hafter, h1, h2, hfin, Bool.and_false, Bool.false_eq_true, if_false,
    Bool.not_true, Bool.false_and, if_true, Bool.or_false, decide_false]

theorem writeRest_terminated (b : Bytes) (ps : List WPart) :
    ∃ tail, writeRest b ps = nlDashB b ++ tail ∧ boundaryTerminated tail = true := by
  cases ps with
  | nil => exact ⟨dashDash ++ crlf, by simp [writeRest, nlDashB, dashB], by decide⟩
  | cons p ps =>
    exact ⟨crlf ++ (partHead p ++ (p.content ++ writeRest b ps)), by simp [writeRest, nlDashB, dashB], by simp [crlf, boundaryTerminated]⟩

/-- after a part body: the remaining parts and the closing line -/
theorem nextPart_writeRest (b : Bytes) (hb : BoundaryOk b) (ps : List WPart) (hps : ∀ p ∈ ps, GoodPart b p)
    (fuel : Nat) (hfuel : 2 * ps.length + 2 ≤ fuel) :
    nextPart b fuel crlf false false (writeRest b ps) = asParts ps := by
  induction ps generalizing fuel with
  | nil =>
    obtain ⟨f, rfl⟩ : ∃ f, fuel = f + 2 := ⟨fuel - 2, by simp at hfuel; omega⟩
    have e : writeRest b [] = crlf ++ (dashB b ++ dashDash ++ crlf) := by simp [writeRest, dashB]
    rw [e, nextPart_nl, nextPart_final b hb]
    rfl
  | cons p ps ih =>
    obtain ⟨f, rfl⟩ : ∃ f, fuel = f + 2 := ⟨fuel - 2, by simp at hfuel; omega⟩
    obtain ⟨tail, ht, htt⟩ := writeRest_terminated b ps
    have e : writeRest b (p :: ps) = crlf ++ (dashB b ++ crlf ++ (partHead p ++ (p.content ++ (nlDashB b ++ tail)))) := by
      simp [writeRest, dashB, ht]
    rw [e, nextPart_nl, nextPart_delim b hb f false true p (hps p (by simp)) tail htt, ← ht]
    rw [ih (fun q hq => hps q (by simp [hq])) f (by simp at hfuel; omega)]
    rfl

/-- **reading back what was written**: with a boundary that occurs in no part, `multipart.Reader`
returns exactly the parts `multipart.Writer` was given -/
theorem readParts_writeParts (b : Bytes) (hb : BoundaryOk b) (ps : List WPart) (hps : ∀ p ∈ ps, GoodPart b p) :
    readParts b (writeParts b ps) = asParts ps := by
  have h1 : b.contains cCR = false := by
    cases h : b.contains cCR with
    | false => rfl
    | true => exact absurd (List.contains_iff_mem.1 h) hb.noCR
  have h2 : b.contains cLF = false := by
    cases h : b.contains cLF with
    | false => rfl
    | true => exact absurd (List.contains_iff_mem.1 h) hb.noLF
  have h3 : b.isEmpty = false := by simpa using hb.ne
  simp only [readParts, h1, h2, h3, Bool.false_eq_true, if_false, Bool.or_self]
  cases ps with
  | nil =>
    -- Close() without parts: a skipped blank preamble line, then the closing line
    have e : writeParts b [] = crlf ++ (dashB b ++ dashDash ++ crlf) := by simp [writeParts, writeRest, dashB]
    have hs : readSlice (crlf ++ (dashB b ++ dashDash ++ crlf)) = (crlf, dashB b ++ dashDash ++ crlf, true) := by
      have := readSlice_line [cCR] (dashB b ++ dashDash ++ crlf) (by decide)
      simpa [crlf] using this
    have hp : (dashDash ++ b).isPrefixOf crlf = false := rfl
    have hf : isFinalBoundary b crlf crlf = false := rfl
    obtain ⟨f, hf2⟩ : ∃ f, (writeParts b []).length + 2 = f + 2 := ⟨_, rfl⟩
    rw [hf2, e, nextPart]
    simp only [hs, hp, Bool.false_and, Bool.false_eq_true, if_false, hf]
    have : nextPart b (f + 1) crlf true false (dashB b ++ dashDash ++ crlf) = .eof := nextPart_final b hb f true false
    rw [List.append_assoc] at this
    simp [show crlf.length = 2 from rfl, this, asParts]
  | cons p ps =>
    obtain ⟨tail, ht, htt⟩ := writeRest_terminated b ps
    have e : writeParts b (p :: ps) = dashB b ++ crlf ++ (partHead p ++ (p.content ++ (nlDashB b ++ tail))) := by
      simp [writeParts, dashB, ht]
    have hlen : 2 * ps.length + 2 + 1 ≤ (writeParts b (p :: ps)).length + 2 := by
      have : ∀ qs : List WPart, 2 * qs.length + 2 ≤ (writeRest b qs).length := by
        intro qs
        induction qs with
        | nil => simp [writeRest, crlf, dashDash]
        | cons q qs ih => simp [writeRest, crlf, dashDash] at ih ⊢; omega
      have := this ps
      simp [writeParts]; omega
    obtain ⟨f, hf⟩ : ∃ f, (writeParts b (p :: ps)).length + 2 = f + 1 := ⟨_, rfl⟩
    rw [hf, e, nextPart_delim b hb f true false p (hps p (by simp)) tail htt, ← ht,
      nextPart_writeRest b hb ps (fun q hq => hps q (by simp [hq])) f (by omega)]
    rfl

end Restli.Mime
