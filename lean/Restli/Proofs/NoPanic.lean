import Restli.Model.Ror2Reader
/-! The ROR2 cursor reader model never takes a `.panic` branch: every index the Go code performs
is guarded (after the bounds-check repair). -/
namespace Restli.Codec

theorem or_ne_panic (a : MatchRes) (b : Unit → MatchRes) (ha : a ≠ .panic) (hb : b () ≠ .panic) :
    a.or b ≠ .panic := by
  cases a <;> simp_all [MatchRes.or]

theorem gmatches_ne_panic : (p : PathSpec) → (path : List Bytes) → path ≠ [] → gmatches p path ≠ .panic
  | _, [], h => absurd rfl h
  | .node cs, [p0], _ => by
    simp only [gmatches]
    split
    · simp
    · split
      · simp
      · have key : ∀ (s : Bytes), (match lookupSpec cs s with
            | none => MatchRes.no
            | some (PathSpec.node sub) => if sub.isEmpty = true then MatchRes.yes else MatchRes.no) ≠ .panic := by
          intro s
          split
          · simp
          · split <;> simp
        exact or_ne_panic _ _ (key _) (key _)
  | .node cs, p0 :: p1 :: rest, _ => by
    simp only [gmatches]
    split
    · simp
    · split
      · have key : ∀ (s : Bytes), (match lookupSpec cs s with
            | none => MatchRes.no
            | some (PathSpec.node sub) =>
              if sub.isEmpty = true then MatchRes.yes
              else if rest.isEmpty = true then MatchRes.no else gmatches (PathSpec.node sub) rest) ≠ .panic := by
          intro s
          split
          · simp
          · split
            · simp
            · split
              · simp
              · next hne => exact gmatches_ne_panic _ rest (by intro h; subst h; simp at hne)
        exact or_ne_panic _ _ (key _) (key _)
      · have key : ∀ (s : Bytes), (match lookupSpec cs s with
            | none => MatchRes.no
            | some (PathSpec.node sub) =>
              if sub.isEmpty = true then MatchRes.yes else gmatches (PathSpec.node sub) (p1 :: rest)) ≠ .panic := by
          intro s
          split
          · simp
          · split
            · simp
            · exact gmatches_ne_panic _ (p1 :: rest) (by simp)
        exact or_ne_panic _ _ (key _) (key _)

theorem tracker_check_ne_panic (t : Tracker) (scope : List Seg) (k : Seg) :
    t.check (scope ++ [k]) ≠ .panic := by
  unfold Tracker.check
  split
  · simp
  · next h =>
    have hlen : t.ignore < (scope ++ [k]).length := by omega
    cases hd : (scope ++ [k]).drop t.ignore with
    | nil =>
      have := List.drop_eq_nil_iff.1 hd
      omega
    | cons x xs =>
      simp only [List.map_cons]
      exact gmatches_ne_panic _ _ (by simp)

theorem finishRecord_ne_panic (env : Env) (tr : Tracker) (scope : List Seg) (top : Bool)
    (fields own : List Field) (fs : List (Bytes × Value)) (seen m₀ : List Bytes) :
    finishRecord env tr scope top fields own fs seen m₀ ≠ .panic := by
  unfold finishRecord
  have : finishPanics tr scope fields seen = false := by
    unfold finishPanics
    simp only [List.any_eq_false, beq_iff_eq]
    intro r _
    exact tracker_check_ne_panic tr scope (.key r)
  simp only [this, Bool.false_eq_true, ↓reduceIte]
  split <;> simp

theorem readPrimTok_ne_panic (s : RS) : readPrimTok s ≠ .panic := by
  unfold readPrimTok
  repeat' split
  all_goals simp

theorem readString_ne_panic (c : RCfg) (s : RS) : readString c s ≠ .panic := by
  unfold readString
  have := readPrimTok_ne_panic s
  repeat' split
  all_goals simp_all

theorem readPrim_ne_panic (c : RCfg) (p : Prim) (s : RS) : readPrim c p s ≠ .panic := by
  unfold readPrim
  have := readPrimTok_ne_panic s
  repeat' split
  all_goals simp_all

theorem skip_ne_panic (s : RS) : skip s ≠ .panic := by
  unfold skip
  repeat' split
  all_goals simp

theorem readFieldName_ne_panic (rest : Bytes) : readFieldName rest ≠ .panic := by
  unfold readFieldName
  repeat' split
  all_goals simp

/-- the six mutually recursive reader functions at one fuel level -/
def NoPanicAt (c : RCfg) (fuel : Nat) : Prop :=
  (∀ scope ty s, readTy c fuel scope ty s ≠ .panic) ∧
  (∀ scope mode s, readMap c fuel scope mode s ≠ .panic) ∧
  (∀ scope mode acc seen s, readMapLoop c fuel scope mode acc seen s ≠ .panic) ∧
  (∀ scope mode acc seen k s, readMapCallback c fuel scope mode acc seen k s ≠ .panic) ∧
  (∀ scope t s, readArray c fuel scope t s ≠ .panic) ∧
  (∀ scope t i s, readArrayLoop c fuel scope t i s ≠ .panic)

theorem noPanicAt (c : RCfg) : ∀ fuel, NoPanicAt c fuel
  | 0 => by
    refine ⟨?_, ?_, ?_, ?_, ?_, ?_⟩ <;> intros <;>
      simp [readTy, readMap, readMapLoop, readMapCallback, readArray, readArrayLoop]
  | fuel + 1 => by
    obtain ⟨ihT, ihM, ihL, ihC, ihA, ihAL⟩ := noPanicAt c fuel
    refine ⟨?_, ?_, ?_, ?_, ?_, ?_⟩
    · intro scope ty s h
      simp only [readTy] at h
      have hp := fun p => readPrim_ne_panic c p s
      have hs := readString_ne_panic c s
      have hf := fun env tr sc top fields own fs seen m => finishRecord_ne_panic env tr sc top fields own fs seen m
      repeat' split at h
      all_goals first
        | exact (hp _) h
        | exact (ihA _ _ _) h
        | exact (ihM _ _ _) (by assumption)
        | exact hs (by assumption)
        | exact (hf _ _ _ _ _ _ _ _ _) (by assumption)
        | (cases h; done)
    · intro scope mode s h
      simp only [readMap] at h
      split at h
      · cases h
      · exact ihL _ _ _ _ _ h
    · intro scope mode acc seen s h
      simp only [readMapLoop] at h
      have hfn := readFieldName_ne_panic s.rest
      have htc := fun sc k => tracker_check_ne_panic c.tracker sc k
      repeat' split at h
      all_goals first
        | exact hfn (by assumption)
        | exact (htc _ _) (by assumption)
        | exact (ihL _ _ _ _ _) h
        | exact (ihC _ _ _ _ _ _) (by assumption)
        | (cases h; done)
    · intro scope mode acc seen k s h
      simp only [readMapCallback] at h
      have hsk := fun s1 => skip_ne_panic s1
      repeat' split at h
      all_goals first
        | exact (ihT _ _ _) (by assumption)
        | exact (hsk _) (by assumption)
        | (cases h; done)
    · intro scope t s h
      simp only [readArray] at h
      split at h
      · cases h
      · next hat =>
        split at h
        · -- `atArray` guarantees more than `len("List(")` bytes: the index cannot fail
          next hnil =>
          have hat' : atArray s = true := by simpa using hat
          simp only [atArray, Bool.and_eq_true, decide_eq_true_eq] at hat'
          have h0 : (s.rest.drop Gen.listPrefix.length) = [] := by simpa [RS.adv] using hnil
          have := List.drop_eq_nil_iff.1 h0
          omega
        · repeat' split at h
          all_goals first
            | exact (ihAL _ _ _ _) (by assumption)
            | (cases h; done)
    · intro scope t i s h
      simp only [readArrayLoop] at h
      repeat' split at h
      all_goals first
        | exact (ihT _ _ _) (by assumption)
        | exact (ihAL _ _ _ _) h
        | exact (ihAL _ _ _ _) (by assumption)
        | (cases h; done)

/-- **no reader entry point of the ROR2 model can take a panic branch**, for any input bytes, any
schema, any type, any exclusion spec and ignore count -/
theorem unmarshalRor2_ne_panic (c : RCfg) (ty : Ty) (data : Bytes) : unmarshalRor2 c ty data ≠ .panic := by
  unfold unmarshalRor2
  split
  · simp
  · exact (noPanicAt c _).1 _ _ _

end Restli.Codec
