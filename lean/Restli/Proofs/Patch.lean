import Restli.Model.Patch
/-! Facts about the partial-update model: what `CheckFields` accepts, and that both the writer and
the reader go through it. -/
namespace Restli.Codec
open Json (JVal)

/-- a field the partial update deletes, sets or patches -/
def PU.touches (env : Env) (pu : PU) (f : Field) : Bool := pu.isDeleted f || pu.isSet f || pu.isPatched env f

/-- two different operations on one field -/
def PU.conflicts (env : Env) (pu : PU) (f : Field) : Bool :=
  (pu.isDeleted f && pu.isSet f) || (pu.isDeleted f && pu.isPatched env f) || (pu.isSet f && pu.isPatched env f)

/-- what `CheckFields` demands of one field -/
def fieldLegal (env : Env) (pu : PU) (excluded : Bytes → Bool) (f : Field) : Bool :=
  !pu.touches env f || (!excluded f.name && !pu.conflicts env f)

theorem checkField_ok_iff (excluded : Bytes → Bool) (name : Bytes) (d s p : Bool) (fl : PUFlags) :
    (∃ fl', checkField excluded name d s p fl = .ok fl') ↔
      (!(d || s || p) || (!excluded name && !((d && s) || (d && p) || (s && p)))) = true := by
  unfold checkField
  generalize excluded name = e
  cases d <;> cases s <;> cases p <;> cases e <;> simp

theorem checkField_flags (excluded : Bytes → Bool) (name : Bytes) (d s p : Bool) (fl fl' : PUFlags)
    (h : checkField excluded name d s p fl = .ok fl') :
    fl'.hasDeletes = (fl.hasDeletes || d) ∧ fl'.hasSets = (fl.hasSets || s) := by
  unfold checkField at h
  generalize excluded name = e at h
  cases d <;> cases s <;> cases p <;> cases e <;> simp at h <;> subst h <;> simp

/-- `CheckFields` succeeds exactly when every field of the include closure is legal, and then the
flags say whether anything is deleted / set -/
theorem checkFieldsFrom_ok_iff (env : Env) (pu : PU) (excluded : Bytes → Bool) :
    ∀ (fields : List Field) (fl : PUFlags),
      (∃ fl', checkFieldsFrom env pu excluded fields fl = .ok fl') ↔
        ∀ f ∈ fields, fieldLegal env pu excluded f = true := by
  intro fields
  induction fields with
  | nil => intro fl; simp [checkFieldsFrom]
  | cons f rest ih =>
    intro fl
    simp only [checkFieldsFrom, List.mem_cons, forall_eq_or_imp]
    cases h1 : checkField excluded f.name (pu.isDeleted f) (pu.isSet f) (pu.isPatched env f) fl with
    | error e =>
      have : ¬ ∃ fl', checkField excluded f.name (pu.isDeleted f) (pu.isSet f) (pu.isPatched env f) fl = .ok fl' := by
        simp [h1]
      rw [checkField_ok_iff] at this
      simp only [reduceCtorEq, exists_false, false_iff, not_and]
      intro hleg
      exact absurd (by simpa [fieldLegal, PU.touches, PU.conflicts] using hleg) this
    | ok fl1 =>
      have : ∃ fl', checkField excluded f.name (pu.isDeleted f) (pu.isSet f) (pu.isPatched env f) fl = .ok fl' := ⟨fl1, h1⟩
      rw [checkField_ok_iff] at this
      have hleg : fieldLegal env pu excluded f = true := by simpa [fieldLegal, PU.touches, PU.conflicts] using this
      simp only [hleg, true_and]
      exact ih fl1

theorem checkFields_ok_iff (env : Env) (n : TName) (pu : PU) (excluded : Bytes → Bool) :
    (∃ fl, checkFields env n pu excluded = .ok fl) ↔
      ∀ f ∈ allFields env (includeFuel env) n, fieldLegal env pu excluded f = true :=
  checkFieldsFrom_ok_iff env pu excluded _ _

theorem checkFieldsFrom_flags (env : Env) (pu : PU) (excluded : Bytes → Bool) :
    ∀ (fields : List Field) (fl fl' : PUFlags), checkFieldsFrom env pu excluded fields fl = .ok fl' →
      fl'.hasDeletes = (fl.hasDeletes || fields.any (fun f => pu.isDeleted f)) ∧
      fl'.hasSets = (fl.hasSets || fields.any (fun f => pu.isSet f)) := by
  intro fields
  induction fields with
  | nil => intro fl fl' h; simp [checkFieldsFrom] at h; subst h; simp
  | cons f rest ih =>
    intro fl fl' h
    simp only [checkFieldsFrom] at h
    cases h1 : checkField excluded f.name (pu.isDeleted f) (pu.isSet f) (pu.isPatched env f) fl with
    | error e => simp [h1] at h
    | ok fl1 =>
      simp only [h1] at h
      obtain ⟨a, b⟩ := checkField_flags _ _ _ _ _ _ _ h1
      obtain ⟨c, d⟩ := ih fl1 fl' h
      simp only [List.any_cons, c, d, a, b, Bool.or_assoc, and_self]

/-- whatever `MarshalRestLiPatch` emits passed `CheckFields` under the writer's exclusion spec -/
theorem marshalPatch_ok_checked (c : EncCfg) (fuel : Nat) (scope : List Bytes) (n : TName) (pu : PU) (d : Doc)
    (h : marshalPatch c fuel scope n pu = .ok d) :
    ∃ fl, checkFields c.env n pu (fun k => c.excl.matchesB (scope ++ [k])) = .ok fl := by
  cases fuel with
  | zero => simp [marshalPatch] at h
  | succ f =>
    simp only [marshalPatch] at h
    split at h
    · simp at h
    · next fl hfl => exact ⟨fl, hfl⟩

/-- whatever `UnmarshalRestLiPatch` returns passed `CheckFields` under the reader's exclusion spec -/
theorem unmarshalPatch_ok_checked (c : TCfg) (fuel : Nat) (scope : List Seg) (n : TName) (pu₀ pu : PU)
    (t : JVal) (m : List Bytes) (h : unmarshalPatch c fuel scope n pu₀ t = .ok pu m) :
    ∃ fl, checkFields c.env n pu (fun k => c.tracker.check (scope ++ [.key k]) == .yes) = .ok fl := by
  cases fuel with
  | zero => simp [unmarshalPatch] at h
  | succ f =>
    simp only [unmarshalPatch] at h
    split at h
    · next kvs =>
      simp only [PRes.bind] at h
      split at h
      · next r m1 hr =>
        split at h
        · simp at h
        · next fl hfl =>
          simp only [PRes.ok.injEq] at h
          obtain ⟨rfl, _⟩ := h
          exact ⟨fl, hfl⟩
      all_goals simp at h
    · simp at h

/-- a `$delete` list naming a required field is refused -/
theorem readDeletes_required (c : TCfg) (fields : List Field) (pu : PU) (name : Bytes) (x : JVal) (xs : List JVal)
    (f : Field) (hx : c.sem.str x = .ok name []) (hf : findField fields name = some f)
    (hreq : f.optOrDefault = false) :
    readDeletes c fields pu (x :: xs) = .err (.pu (.cannotDelete name)) := by
  simp [readDeletes, hx, hf, hreq]

end Restli.Codec
