import Restli.Proofs.NoPanic
/-! `NewPathSpec` + `genericMatches` against the declarative reading of an exclusion spec: a path
is excluded iff some directive matches a prefix of it segment by segment, `*` in a directive
standing for any one segment — where, at each step, one leading `$set` / `$delete` segment of
the remaining path is passed over first (partial-update documents). -/
namespace Restli.Codec

def isOp (s : Bytes) : Bool := s == setKey || s == deleteKey

/-- the segment that is compared next, and what remains: a leading patch operator is passed over -/
def skipOp : List Bytes → Option (Bytes × List Bytes)
  | [] => none
  | [p0] => if isOp p0 then none else some (p0, [])
  | p0 :: p1 :: rest => if isOp p0 then some (p1, rest) else some (p0, p1 :: rest)

/-- **specification**: one directive (split into segments) against a path -/
def dirMatches : List Bytes → List Bytes → Bool
  | [], _ => true
  | s :: ds, path =>
    match skipOp path with
    | none => false
    | some (x, tl) => (s == Gen.wildCard || s == x) && (ds.isEmpty || dirMatches ds tl)

/-- one child step of `genericMatches` -/
def stepRes (cs : List (Bytes × PathSpec)) (s : Bytes) (tl : List Bytes) : MatchRes :=
  match lookupSpec cs s with
  | none => .no
  | some (.node sub) => if sub.isEmpty then .yes else if tl.isEmpty then .no else gmatches (.node sub) tl

theorem gmatches_unfold (cs : List (Bytes × PathSpec)) (path : List Bytes) (hp : path ≠ []) :
    gmatches (.node cs) path =
      if cs.isEmpty then .no
      else match skipOp path with
        | none => .no
        | some (x, tl) => (stepRes cs Gen.wildCard tl).or (fun _ => stepRes cs x tl) := by
  cases path with
  | nil => exact absurd rfl hp
  | cons p0 r =>
    cases r with
    | nil =>
      simp only [gmatches, skipOp, isOp]
      by_cases hc : cs.isEmpty = true
      · simp [hc]
      · simp only [hc, Bool.false_eq_true, ↓reduceIte]
        by_cases ho : (p0 == setKey || p0 == deleteKey) = true
        · simp [ho]
        · simp only [ho, Bool.false_eq_true, ↓reduceIte, stepRes, List.isEmpty_nil, ↓reduceIte]
          congr 1 <;> (try funext _) <;> (split <;> simp)
    | cons p1 rest =>
      simp only [gmatches, skipOp, isOp]
      by_cases hc : cs.isEmpty = true
      · simp [hc]
      · simp only [hc, Bool.false_eq_true, ↓reduceIte]
        by_cases ho : (p0 == setKey || p0 == deleteKey) = true
        · simp only [ho, ↓reduceIte, stepRes]; rfl
        · simp only [ho, Bool.false_eq_true, ↓reduceIte, stepRes, List.isEmpty_cons]; rfl

theorem stepRes_ne_panic (cs : List (Bytes × PathSpec)) (s : Bytes) (tl : List Bytes) : stepRes cs s tl ≠ .panic := by
  unfold stepRes
  split
  · simp
  · split
    · simp
    · split
      · simp
      · next hne => exact gmatches_ne_panic _ tl (by intro h; subst h; simp at hne)

theorem or_yes_iff (a : MatchRes) (b : Unit → MatchRes) (ha : a ≠ .panic) :
    a.or b = .yes ↔ a = .yes ∨ b () = .yes := by
  cases a <;> simp_all [MatchRes.or]

/-- `Y t path`: the trie excludes the path -/
def Y (t : PathSpec) (path : List Bytes) : Prop := gmatches t path = .yes

theorem Y_node (cs : List (Bytes × PathSpec)) (path : List Bytes) (hp : path ≠ []) :
    Y (.node cs) path ↔ cs.isEmpty = false ∧
      ∃ x tl, skipOp path = some (x, tl) ∧ (stepRes cs Gen.wildCard tl = .yes ∨ stepRes cs x tl = .yes) := by
  unfold Y
  rw [gmatches_unfold cs path hp]
  by_cases hc : cs.isEmpty = true
  · simp [hc]
  · simp only [hc, Bool.false_eq_true, ↓reduceIte, Bool.not_eq_true, true_and]
    cases hs : skipOp path with
    | none => simp
    | some xt =>
      obtain ⟨x, tl⟩ := xt
      simp only [Option.some.injEq, Prod.mk.injEq]
      rw [or_yes_iff _ _ (stepRes_ne_panic cs _ tl)]
      constructor
      · intro h; exact ⟨x, tl, ⟨rfl, rfl⟩, h⟩
      · rintro ⟨x', tl', ⟨rfl, rfl⟩, h⟩; exact h

theorem lookup_isSome_of_mem (l : List (Bytes × PathSpec)) (e : Bytes × PathSpec) (he : e ∈ l) :
    (List.lookup e.1 l).isSome = true := by
  induction l with
  | nil => cases he
  | cons y ys ih =>
    obtain ⟨a, b⟩ := y
    simp only [List.lookup]
    cases hka : e.1 == a with
    | true => simp
    | false =>
      simp only
      rcases List.mem_cons.1 he with rfl | he'
      · simp at hka
      · exact ih he'

theorem lookup_update (cs : List (Bytes × PathSpec)) (seg : Bytes) (new : PathSpec)
    (h : (lookupSpec cs seg).isSome = true) (s : Bytes) :
    lookupSpec (cs.map (fun e => if e.1 == seg then (seg, new) else e)) s =
      if s == seg then some new else lookupSpec cs s := by
  unfold lookupSpec at *
  induction cs with
  | nil => simp [List.lookup] at h
  | cons e rest ih =>
    obtain ⟨k, v⟩ := e
    simp only [List.map_cons]
    cases hk : k == seg with
    | true =>
      have hk' : k = seg := by simpa using hk
      subst hk'
      simp only [↓reduceIte, List.lookup]
      cases hs : s == k with
      | true => simp
      | false =>
        simp only
        cases hr : (List.lookup k rest).isSome with
        | true => simpa [hs] using ih hr
        | false =>
          -- no further occurrence of the key: the rest is unchanged
          have hnone : ∀ e ∈ rest, (e.1 == k) = false := by
            intro e he
            cases hek : e.1 == k with
            | false => rfl
            | true =>
              have hek' : e.1 = k := by simpa using hek
              have hsome := lookup_isSome_of_mem rest e he
              rw [hek', hr] at hsome
              cases hsome
          have hmap : rest.map (fun e => if e.1 == k then (k, new) else e) = rest := by
            have : ∀ e ∈ rest, (fun e : Bytes × PathSpec => if e.1 == k then (k, new) else e) e = e := by
              intro e he; simp [hnone e he]
            calc rest.map (fun e => if e.1 == k then (k, new) else e) = rest.map id := List.map_congr_left this
              _ = rest := List.map_id rest
          rw [hmap]; simp
    | false =>
      simp only [Bool.false_eq_true, ↓reduceIte, List.lookup]
      have hsk : (seg == k) = false := by
        cases hx : seg == k with
        | false => rfl
        | true => have : seg = k := by simpa using hx
                  subst this; simp at hk
      have hr : (List.lookup seg rest).isSome = true := by
        simpa [List.lookup, hsk] using h
      cases hs : s == k with
      | true =>
        have : s = k := by simpa using hs
        subst this
        simp [hk]
      | false => exact ih hr

theorem lookup_append (cs : List (Bytes × PathSpec)) (seg : Bytes) (new : PathSpec)
    (h : lookupSpec cs seg = none) (s : Bytes) :
    lookupSpec (cs ++ [(seg, new)]) s = if s == seg then some new else lookupSpec cs s := by
  unfold lookupSpec at *
  induction cs with
  | nil => simp [List.lookup]; split <;> simp_all
  | cons e rest ih =>
    obtain ⟨k, v⟩ := e
    simp only [List.cons_append, List.lookup] at h ⊢
    by_cases hs : (s == k) = true
    · have : s = k := by simpa using hs
      subst this
      have hne : (s == seg) = false := by
        cases hx : s == seg with
        | false => rfl
        | true =>
          have : s = seg := by simpa using hx
          subst this
          simp at h
      simp [hne]
    · have hs' : (s == k) = false := by simpa using hs
      simp only [hs']
      apply ih
      cases hx : seg == k with
      | true => simp [hx] at h
      | false => simpa [hx] using h

/-- what a child node answers for the rest of the path -/
def childRes (sub : List (Bytes × PathSpec)) (tl : List Bytes) : MatchRes :=
  if sub.isEmpty then .yes else if tl.isEmpty then .no else gmatches (.node sub) tl

theorem stepRes_eq (cs : List (Bytes × PathSpec)) (s : Bytes) (tl : List Bytes) :
    stepRes cs s tl = match lookupSpec cs s with
      | none => .no
      | some (.node sub) => childRes sub tl := rfl

theorem Y_node' (cs : List (Bytes × PathSpec)) (path : List Bytes) (hp : path ≠ []) :
    Y (.node cs) path ↔
      ∃ x tl, skipOp path = some (x, tl) ∧ (stepRes cs Gen.wildCard tl = .yes ∨ stepRes cs x tl = .yes) := by
  rw [Y_node cs path hp]
  constructor
  · rintro ⟨_, h⟩; exact h
  · rintro ⟨x, tl, hs, h⟩
    refine ⟨?_, x, tl, hs, h⟩
    cases cs with
    | nil => rcases h with h | h <;> simp [stepRes, lookupSpec] at h
    | cons _ _ => rfl

theorem stepRes_replaced (cs cs' : List (Bytes × PathSpec)) (seg : Bytes) (newcs : List (Bytes × PathSpec))
    (hl : ∀ s, lookupSpec cs' s = if s == seg then some (.node newcs) else lookupSpec cs s) (s : Bytes) (tl : List Bytes) :
    stepRes cs' s tl = if s == seg then childRes newcs tl else stepRes cs s tl := by
  rw [stepRes_eq, hl s]
  cases hs : s == seg with
  | true => simp
  | false => simp only [Bool.false_eq_true, ↓reduceIte]; rfl

theorem childRes_yes (sub : List (Bytes × PathSpec)) (tl : List Bytes) (hne : sub.isEmpty = false) :
    childRes sub tl = .yes ↔ tl ≠ [] ∧ Y (.node sub) tl := by
  unfold childRes Y
  simp only [hne, Bool.false_eq_true, ↓reduceIte]
  cases tl with
  | nil => simp
  | cons a as => simp

theorem dirMatches_nil_path (d : List Bytes) (hd : d ≠ []) : dirMatches d [] = false := by
  cases d with
  | nil => exact absurd rfl hd
  | cons s ds => simp [dirMatches, skipOp]

theorem lookup_some_nonempty (cs : List (Bytes × PathSpec)) (seg : Bytes) (v : PathSpec)
    (h : List.lookup seg cs = some v) : cs.isEmpty = false := by
  cases cs with
  | nil => simp at h
  | cons _ _ => rfl

theorem insert_nonempty (d : List Bytes) (hd : d ≠ []) (cs : List (Bytes × PathSpec)) :
    (PathSpec.insert d (.node cs)).children.isEmpty = false := by
  cases d with
  | nil => exact absurd rfl hd
  | cons seg rest =>
    cases rest with
    | nil =>
      simp only [PathSpec.insert, lookupSpec0]
      split
      · next h => simpa [PathSpec.children] using lookup_some_nonempty cs seg _ h
      · next h => simpa [PathSpec.children] using lookup_some_nonempty cs seg _ h
      · simp [PathSpec.children]
    | cons s2 r =>
      simp only [PathSpec.insert, lookupSpec0]
      split
      · next h => simpa [PathSpec.children] using lookup_some_nonempty cs seg _ h
      · next h => simpa [PathSpec.children] using lookup_some_nonempty cs seg _ h
      · simp [PathSpec.children]

theorem Y_empty (tl : List Bytes) : ¬ Y (.node []) tl := by
  unfold Y
  cases tl with
  | nil => simp [gmatches]
  | cons a as => cases as <;> simp [gmatches]

theorem beq_symm_true {a b : Bytes} (h : (a == b) = true) : (b == a) = true := by
  have : a = b := by simpa using h
  subst this; simp

theorem wild_comm (seg : Bytes) : (seg == Gen.wildCard) = (Gen.wildCard == seg) := by
  cases h : seg == Gen.wildCard <;> cases h' : Gen.wildCard == seg <;> simp_all

/-- the children of `cs` with the child under `seg` replaced by (or, if absent, extended with) a
node whose children are `newcs` -/
def Replaced (cs cs' : List (Bytes × PathSpec)) (seg : Bytes) (newcs : List (Bytes × PathSpec)) : Prop :=
  ∀ s, lookupSpec cs' s = if s == seg then some (.node newcs) else lookupSpec cs s

/-- one insertion step, semantically: the new child answers `A tl`, every other child as before -/
theorem Y_replaced (cs cs' : List (Bytes × PathSpec)) (seg : Bytes) (newcs : List (Bytes × PathSpec))
    (hr : Replaced cs cs' seg newcs) (path : List Bytes) (hp : path ≠ []) :
    Y (.node cs') path ↔ ∃ x tl, skipOp path = some (x, tl) ∧
      (((Gen.wildCard == seg) = true ∧ childRes newcs tl = .yes) ∨
       ((Gen.wildCard == seg) = false ∧ stepRes cs Gen.wildCard tl = .yes) ∨
       ((x == seg) = true ∧ childRes newcs tl = .yes) ∨
       ((x == seg) = false ∧ stepRes cs x tl = .yes)) := by
  rw [Y_node' cs' path hp]
  constructor
  · rintro ⟨x, tl, hs, h⟩
    refine ⟨x, tl, hs, ?_⟩
    rw [stepRes_replaced cs cs' seg newcs hr, stepRes_replaced cs cs' seg newcs hr] at h
    cases hw : Gen.wildCard == seg <;> cases hx : x == seg <;> simp_all
  · rintro ⟨x, tl, hs, h⟩
    refine ⟨x, tl, hs, ?_⟩
    rw [stepRes_replaced cs cs' seg newcs hr, stepRes_replaced cs cs' seg newcs hr]
    cases hw : Gen.wildCard == seg <;> cases hx : x == seg <;> simp_all

/-- the old child under `seg`, as a match answer -/
theorem stepRes_old (cs : List (Bytes × PathSpec)) (seg : Bytes) (scs : List (Bytes × PathSpec))
    (h : lookupSpec cs seg = some (.node scs)) (s : Bytes) (hs : (s == seg) = true) (tl : List Bytes) :
    stepRes cs s tl = childRes scs tl := by
  have : s = seg := by simpa using hs
  subst this
  rw [stepRes_eq, h]

theorem stepRes_none (cs : List (Bytes × PathSpec)) (seg : Bytes) (h : lookupSpec cs seg = none)
    (s : Bytes) (hs : (s == seg) = true) (tl : List Bytes) : stepRes cs s tl = .no := by
  have : s = seg := by simpa using hs
  subst this
  rw [stepRes_eq, h]

/-- **inserting a directive adds exactly the paths it matches** -/
theorem insert_sem : ∀ (d : List Bytes), d ≠ [] → ∀ (cs : List (Bytes × PathSpec)) (path : List Bytes), path ≠ [] →
    (Y (PathSpec.insert d (.node cs)) path ↔ Y (.node cs) path ∨ dirMatches d path = true)
  | [], h, _, _, _ => absurd rfl h
  | [seg], _, cs, path, hp => by
    have hdm : dirMatches [seg] path = true ↔
        ∃ x tl, skipOp path = some (x, tl) ∧ ((Gen.wildCard == seg) = true ∨ (x == seg) = true) := by
      simp only [dirMatches]
      cases hs : skipOp path with
      | none => simp
      | some xt =>
        obtain ⟨x, tl⟩ := xt
        simp only [List.isEmpty_nil, Bool.true_or, Bool.and_true, Bool.or_eq_true, Option.some.injEq, Prod.mk.injEq]
        rw [wild_comm seg]
        constructor
        · intro h
          refine ⟨x, tl, ⟨rfl, rfl⟩, ?_⟩
          rcases h with h | h
          · exact Or.inl h
          · right; exact beq_symm_true h
        · rintro ⟨x', tl', ⟨rfl, rfl⟩, h⟩
          rcases h with h | h
          · exact Or.inl h
          · right; exact beq_symm_true h
    simp only [PathSpec.insert, lookupSpec0]
    cases hl : List.lookup seg cs with
    | none =>
      simp only
      have hr : Replaced cs (cs ++ [(seg, .node [])]) seg [] := lookup_append cs seg _ hl
      rw [Y_replaced cs _ seg [] hr path hp, Y_node' cs path hp, hdm]
      constructor
      · rintro ⟨x, tl, hs, h⟩
        rcases h with ⟨hw, _⟩ | ⟨_, h⟩ | ⟨hx, _⟩ | ⟨_, h⟩
        · exact Or.inr ⟨x, tl, hs, Or.inl hw⟩
        · exact Or.inl ⟨x, tl, hs, Or.inl h⟩
        · exact Or.inr ⟨x, tl, hs, Or.inr hx⟩
        · exact Or.inl ⟨x, tl, hs, Or.inr h⟩
      · rintro (⟨x, tl, hs, h⟩ | ⟨x, tl, hs, h⟩)
        · refine ⟨x, tl, hs, ?_⟩
          rcases h with h | h
          · cases hw : Gen.wildCard == seg with
            | true => rw [stepRes_none cs seg hl _ hw] at h; cases h
            | false => exact Or.inr (Or.inl ⟨rfl, h⟩)
          · cases hx : x == seg with
            | true => rw [stepRes_none cs seg hl _ hx] at h; cases h
            | false => exact Or.inr (Or.inr (Or.inr ⟨rfl, h⟩))
        · refine ⟨x, tl, hs, ?_⟩
          rcases h with h | h
          · exact Or.inl ⟨h, by simp [childRes]⟩
          · exact Or.inr (Or.inr (Or.inl ⟨h, by simp [childRes]⟩))
    | some sub =>
      obtain ⟨scs⟩ := sub
      cases scs with
      | nil =>
        -- a shorter (here: equal) directive is already there
        simp only
        rw [Y_node' cs path hp, hdm]
        constructor
        · intro h; exact Or.inl h
        · rintro (h | ⟨x, tl, hs, h⟩)
          · exact h
          · refine ⟨x, tl, hs, ?_⟩
            rcases h with h | h
            · left; rw [stepRes_old cs seg [] hl _ h]; simp [childRes]
            · right; rw [stepRes_old cs seg [] hl _ h]; simp [childRes]
      | cons c0 cr =>
        simp only
        have hsome : (lookupSpec cs seg).isSome = true := by simp [lookupSpec, hl]
        have hr : Replaced cs (cs.map (fun e => if e.1 == seg then (seg, PathSpec.node []) else e)) seg [] :=
          lookup_update cs seg _ hsome
        rw [Y_replaced cs _ seg [] hr path hp, Y_node' cs path hp, hdm]
        constructor
        · rintro ⟨x, tl, hs, h⟩
          rcases h with ⟨hw, _⟩ | ⟨_, h⟩ | ⟨hx, _⟩ | ⟨_, h⟩
          · exact Or.inr ⟨x, tl, hs, Or.inl hw⟩
          · exact Or.inl ⟨x, tl, hs, Or.inl h⟩
          · exact Or.inr ⟨x, tl, hs, Or.inr hx⟩
          · exact Or.inl ⟨x, tl, hs, Or.inr h⟩
        · rintro (⟨x, tl, hs, h⟩ | ⟨x, tl, hs, h⟩)
          · refine ⟨x, tl, hs, ?_⟩
            rcases h with h | h
            · cases hw : Gen.wildCard == seg with
              | true => exact Or.inl ⟨rfl, by simp [childRes]⟩
              | false => exact Or.inr (Or.inl ⟨rfl, h⟩)
            · cases hx : x == seg with
              | true => exact Or.inr (Or.inr (Or.inl ⟨rfl, by simp [childRes]⟩))
              | false => exact Or.inr (Or.inr (Or.inr ⟨rfl, h⟩))
          · refine ⟨x, tl, hs, ?_⟩
            rcases h with h | h
            · exact Or.inl ⟨h, by simp [childRes]⟩
            · exact Or.inr (Or.inr (Or.inl ⟨h, by simp [childRes]⟩))
  | seg :: s2 :: rest, _, cs, path, hp => by
    have ih := insert_sem (s2 :: rest) (by simp)
    have hdm : dirMatches (seg :: s2 :: rest) path = true ↔
        ∃ x tl, skipOp path = some (x, tl) ∧ ((Gen.wildCard == seg) = true ∨ (x == seg) = true) ∧
          dirMatches (s2 :: rest) tl = true := by
      rw [dirMatches]
      cases hs : skipOp path with
      | none => simp
      | some xt =>
        obtain ⟨x, tl⟩ := xt
        simp only [List.isEmpty_cons, Bool.false_or, Bool.and_eq_true, Bool.or_eq_true, Option.some.injEq, Prod.mk.injEq]
        rw [wild_comm seg]
        constructor
        · rintro ⟨h, hd⟩
          refine ⟨x, tl, ⟨rfl, rfl⟩, ?_, hd⟩
          rcases h with h | h
          · exact Or.inl h
          · right; exact beq_symm_true h
        · rintro ⟨x', tl', ⟨rfl, rfl⟩, h, hd⟩
          refine ⟨?_, hd⟩
          rcases h with h | h
          · exact Or.inl h
          · right; exact beq_symm_true h
    -- the child under `seg` after inserting the remainder below a node with children `scs`
    have child_new : ∀ (scs ncs : List (Bytes × PathSpec)) (tl : List Bytes),
        PathSpec.insert (s2 :: rest) (.node scs) = .node ncs →
        (childRes ncs tl = .yes ↔ (tl ≠ [] ∧ Y (.node scs) tl) ∨ dirMatches (s2 :: rest) tl = true) := by
      intro scs ncs tl hins
      have hne : ncs.isEmpty = false := by
        have := insert_nonempty (s2 :: rest) (by simp) scs
        rw [hins] at this; exact this
      rw [childRes_yes ncs tl hne, ← hins]
      constructor
      · rintro ⟨htl, hy⟩
        rcases (ih scs tl htl).1 hy with h | h
        · exact Or.inl ⟨htl, h⟩
        · exact Or.inr h
      · rintro (⟨htl, h⟩ | h)
        · exact ⟨htl, (ih scs tl htl).2 (Or.inl h)⟩
        · have htl : tl ≠ [] := by
            intro he; subst he
            rw [dirMatches_nil_path _ (by simp)] at h; cases h
          exact ⟨htl, (ih scs tl htl).2 (Or.inr h)⟩
    -- the generic assembly, given what the old child under `seg` answered
    have assemble : ∀ (scs ncs cs' : List (Bytes × PathSpec)),
        PathSpec.insert (s2 :: rest) (.node scs) = .node ncs → Replaced cs cs' seg ncs →
        (∀ s tl, (s == seg) = true → (stepRes cs s tl = .yes ↔ tl ≠ [] ∧ Y (.node scs) tl)) →
        (Y (.node cs') path ↔ Y (.node cs) path ∨ dirMatches (seg :: s2 :: rest) path = true) := by
      intro scs ncs cs' hins hr hold
      rw [Y_replaced cs cs' seg ncs hr path hp, Y_node' cs path hp, hdm]
      constructor
      · rintro ⟨x, tl, hs, h⟩
        rcases h with ⟨hw, h⟩ | ⟨_, h⟩ | ⟨hx, h⟩ | ⟨_, h⟩
        · rcases (child_new scs ncs tl hins).1 h with h | h
          · exact Or.inl ⟨x, tl, hs, Or.inl ((hold _ tl hw).2 h)⟩
          · exact Or.inr ⟨x, tl, hs, Or.inl hw, h⟩
        · exact Or.inl ⟨x, tl, hs, Or.inl h⟩
        · rcases (child_new scs ncs tl hins).1 h with h | h
          · exact Or.inl ⟨x, tl, hs, Or.inr ((hold _ tl hx).2 h)⟩
          · exact Or.inr ⟨x, tl, hs, Or.inr hx, h⟩
        · exact Or.inl ⟨x, tl, hs, Or.inr h⟩
      · rintro (⟨x, tl, hs, h⟩ | ⟨x, tl, hs, hq, hd⟩)
        · refine ⟨x, tl, hs, ?_⟩
          rcases h with h | h
          · cases hw : Gen.wildCard == seg with
            | true => exact Or.inl ⟨rfl, (child_new scs ncs tl hins).2 (Or.inl ((hold _ tl hw).1 h))⟩
            | false => exact Or.inr (Or.inl ⟨rfl, h⟩)
          · cases hx : x == seg with
            | true => exact Or.inr (Or.inr (Or.inl ⟨rfl, (child_new scs ncs tl hins).2 (Or.inl ((hold _ tl hx).1 h))⟩))
            | false => exact Or.inr (Or.inr (Or.inr ⟨rfl, h⟩))
        · refine ⟨x, tl, hs, ?_⟩
          rcases hq with hq | hq
          · exact Or.inl ⟨hq, (child_new scs ncs tl hins).2 (Or.inr hd)⟩
          · exact Or.inr (Or.inr (Or.inl ⟨hq, (child_new scs ncs tl hins).2 (Or.inr hd)⟩))
    simp only [PathSpec.insert, lookupSpec0]
    cases hl : List.lookup seg cs with
    | none =>
      simp only
      cases hins : PathSpec.insert (s2 :: rest) (.node []) with
      | node ncs =>
        refine assemble [] ncs _ hins (lookup_append cs seg _ hl) ?_
        intro s tl hs
        rw [stepRes_none cs seg hl s hs]
        constructor
        · intro h; cases h
        · rintro ⟨_, h⟩; exact absurd h (Y_empty tl)
    | some sub =>
      obtain ⟨scs⟩ := sub
      cases scs with
      | nil =>
        simp only
        rw [Y_node' cs path hp, hdm]
        constructor
        · intro h; exact Or.inl h
        · rintro (h | ⟨x, tl, hs, hq, _⟩)
          · exact h
          · refine ⟨x, tl, hs, ?_⟩
            rcases hq with h | h
            · left; rw [stepRes_old cs seg [] hl _ h]; simp [childRes]
            · right; rw [stepRes_old cs seg [] hl _ h]; simp [childRes]
      | cons c0 cr =>
        simp only
        cases hins : PathSpec.insert (s2 :: rest) (.node (c0 :: cr)) with
        | node ncs =>
          have hsome : (lookupSpec cs seg).isSome = true := by simp [lookupSpec, hl]
          refine assemble (c0 :: cr) ncs _ hins (lookup_update cs seg _ hsome) ?_
          intro s tl hs
          rw [stepRes_old cs seg (c0 :: cr) hl s hs]
          exact childRes_yes (c0 :: cr) tl rfl

theorem splitSlash_go_ne_nil (s cur : Bytes) : splitSlash.go s cur ≠ [] := by
  induction s generalizing cur with
  | nil => simp [splitSlash.go]
  | cons c cs ih =>
    simp only [splitSlash.go]
    split
    · simp
    · exact ih _

theorem splitSlash_ne_nil (s : Bytes) : splitSlash s ≠ [] := by
  unfold splitSlash
  exact splitSlash_go_ne_nil _ _

theorem fold_insert_sem (dirs : List Bytes) (path : List Bytes) (hp : path ≠ []) :
    ∀ t : PathSpec, Y (dirs.foldl (fun p d => PathSpec.insert (splitSlash d) p) t) path ↔
      Y t path ∨ ∃ d ∈ dirs, dirMatches (splitSlash d) path = true := by
  induction dirs with
  | nil => intro t; simp
  | cons d rest ih =>
    intro t
    obtain ⟨cs⟩ := t
    simp only [List.foldl_cons]
    rw [ih, insert_sem (splitSlash d) (splitSlash_ne_nil d) cs path hp]
    simp only [List.mem_cons, exists_eq_or_imp]
    constructor
    · rintro ((h | h) | h)
      · exact Or.inl h
      · exact Or.inr (Or.inl h)
      · exact Or.inr (Or.inr h)
    · rintro (h | h | h)
      · exact Or.inl (Or.inl h)
      · exact Or.inl (Or.inr h)
      · exact Or.inr h

/-- **`NewPathSpec` + `genericMatches` = the specification**: a non-empty path is excluded iff one of
the directives matches a prefix of it -/
theorem newPathSpec_sem (dirs : List Bytes) (path : List Bytes) (hp : path ≠ []) :
    gmatches (newPathSpec dirs) path = .yes ↔ ∃ d ∈ dirs, dirMatches (splitSlash d) path = true := by
  have := fold_insert_sem dirs path hp .empty
  unfold newPathSpec
  unfold Y at this
  rw [this]
  constructor
  · rintro (h | h)
    · exact absurd h (Y_empty path)
    · exact h
  · intro h; exact Or.inr h

/-! ### paths without patch operators: plain prefix matching -/

/-- a directive matches a prefix of the path segment by segment, `*` matching any segment -/
def prefixMatches : List Bytes → List Bytes → Bool
  | [], _ => true
  | _ :: _, [] => false
  | s :: ds, x :: xs => (s == Gen.wildCard || s == x) && prefixMatches ds xs

theorem dirMatches_plain : ∀ (d path : List Bytes), d ≠ [] → (∀ x ∈ path, isOp x = false) →
    dirMatches d path = prefixMatches d path
  | [], _, h, _ => absurd rfl h
  | s :: ds, [], _, _ => by simp [dirMatches, skipOp, prefixMatches]
  | s :: ds, [p0], _, hno => by
    have h0 : isOp p0 = false := hno p0 (by simp)
    simp only [dirMatches, skipOp, h0, Bool.false_eq_true, ↓reduceIte, prefixMatches]
    cases ds with
    | nil => simp [prefixMatches]
    | cons a as => simp [dirMatches_nil_path, prefixMatches]
  | s :: ds, p0 :: p1 :: rest, _, hno => by
    have h0 : isOp p0 = false := hno p0 (by simp)
    simp only [dirMatches, skipOp, h0, Bool.false_eq_true, ↓reduceIte, prefixMatches]
    cases ds with
    | nil => simp [prefixMatches]
    | cons a as =>
      have := dirMatches_plain (a :: as) (p1 :: rest) (by simp) (fun x hx => hno x (by simp [hx]))
      simp only [List.isEmpty_cons, Bool.false_or, this, prefixMatches]

end Restli.Codec
