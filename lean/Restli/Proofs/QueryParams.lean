import Restli.Model.QueryParams
import Restli.Model.Envelope
import Restli.Proofs.RoundTrip4
import Restli.Proofs.Fuel
import Restli.Proofs.NoPanic
/-! Query parameters round trip: what `BuildQueryParams` writes for a record of parameters,
`ParseQueryParams` + the generated `DecodeQueryParams` read back. -/
namespace Restli.Codec
open Json (JVal)

/-! ## `ParseQueryParams` on a well-formed query string -/

theorem splitOn_go_append (p : Bytes) (hp : ∀ c ∈ p, c ≠ 38) (rest cur : Bytes) :
    splitOn.go 38 (p ++ rest) cur = splitOn.go 38 rest (p.reverse ++ cur) := by
  induction p generalizing cur with
  | nil => simp
  | cons c cs ih =>
    have hc : (c == 38) = false := by simpa using hp c (by simp)
    simp only [List.cons_append, splitOn.go, hc, Bool.false_eq_true, ↓reduceIte]
    rw [ih (fun x hx => hp x (List.mem_cons_of_mem _ hx))]
    simp

theorem splitOn_joinAmp : ∀ (pieces : List Bytes), pieces ≠ [] → (∀ p ∈ pieces, ∀ c ∈ p, c ≠ 38) →
    splitOn 38 (joinAmp pieces) = pieces
  | [], h, _ => absurd rfl h
  | [x], _, hp => by
    simp only [joinAmp, splitOn]
    have := splitOn_go_append x (hp x (by simp)) [] []
    simp only [List.append_nil] at this
    rw [this]; simp [splitOn.go]
  | x :: y :: rest, _, hp => by
    simp only [joinAmp, splitOn]
    rw [splitOn_go_append x (hp x (by simp)) _ []]
    simp only [splitOn.go, beq_self_eq_true, ↓reduceIte, List.append_nil, List.reverse_reverse]
    have := splitOn_joinAmp (y :: rest) (by simp) (fun p hp' => hp p (List.mem_cons_of_mem _ hp'))
    simp only [splitOn] at this
    rw [this]

theorem cutAt_key (k raw : Bytes) (hk : ∀ c ∈ k, c ≠ 61) : cutAt 61 (k ++ 61 :: raw) = (k, raw) := by
  induction k with
  | nil => simp [cutAt]
  | cons c cs ih =>
    have hc : (c == 61) = false := by simpa using hk c (by simp)
    simp only [List.cons_append, cutAt, hc, Bool.false_eq_true, ↓reduceIte]
    rw [ih (fun x hx => hk x (List.mem_cons_of_mem _ hx))]

theorem setRaw_fresh (m : List (Bytes × Bytes)) (k v : Bytes) (h : ∀ e ∈ m, e.1 ≠ k) :
    setRaw m k v = m ++ [(k, v)] := by
  unfold setRaw
  have : m.any (·.1 == k) = false := by
    simp only [List.any_eq_false, beq_iff_eq]
    intro e he; exact h e he
  simp [this]

/-- a parameter as it is written: `name=value` -/
def qpPiece (e : Bytes × Bytes) : Bytes := e.1 ++ 61 :: e.2

/-- what makes a list of (name, raw value) pairs survive the query-string syntax -/
structure QpOK (ps : List (Bytes × Bytes)) : Prop where
  keyAmp : ∀ e ∈ ps, ∀ c ∈ e.1, c ≠ 38 ∧ c ≠ 61
  valAmp : ∀ e ∈ ps, ∀ c ∈ e.2, c ≠ 38
  valid : ∀ e ∈ ps, validateRor2 e.2 = true
  nodup : (ps.map (·.1)).Nodup

theorem parse_fold (ps : List (Bytes × Bytes)) :
    ∀ (pre : List (Bytes × Bytes)), (∀ e ∈ ps, ∀ c ∈ e.1, c ≠ 61) → (∀ e ∈ ps, validateRor2 e.2 = true) →
      ((pre ++ ps).map (·.1)).Nodup →
      (ps.map qpPiece).foldl (fun acc piece =>
        match acc with
        | none => none
        | some m =>
          if piece.isEmpty then some m
          else
            let (k, v) := cutAt 61 piece
            if !validateRor2 v then none else some (setRaw m k v)) (some pre) = some (pre ++ ps) := by
  induction ps with
  | nil => intro pre _ _ _; simp
  | cons e rest ih =>
    obtain ⟨k, raw⟩ := e
    intro pre hk hv hnd
    simp only [List.map_cons, List.foldl_cons, qpPiece]
    have hne : (k ++ 61 :: raw).isEmpty = false := by cases k <;> simp
    simp only [hne, Bool.false_eq_true, ↓reduceIte, cutAt_key k raw (hk (k, raw) (by simp)),
      hv (k, raw) (by simp), Bool.not_true]
    have hfresh : ∀ e ∈ pre, e.1 ≠ k := by
      intro e he heq
      simp only [List.map_append, List.map_cons] at hnd
      have := (List.nodup_append.1 hnd).2.2 e.1 (List.mem_map.2 ⟨e, he, rfl⟩) k (by simp)
      exact this heq
    rw [setRaw_fresh pre k raw hfresh]
    have := ih (pre ++ [(k, raw)]) (fun e he => hk e (List.mem_cons_of_mem _ he))
      (fun e he => hv e (List.mem_cons_of_mem _ he)) (by simpa using hnd)
    simpa using this

theorem parse_built (ps : List (Bytes × Bytes)) (h : QpOK ps) :
    parseQueryParams (joinAmp (ps.map qpPiece)) = some ps := by
  unfold parseQueryParams
  cases ps with
  | nil => simp [joinAmp, splitOn, splitOn.go]
  | cons e rest =>
    rw [splitOn_joinAmp _ (by simp)]
    · exact parse_fold (e :: rest) [] (fun x hx c hc => (h.keyAmp x hx c hc).2) h.valid (by simpa using h.nodup)
    · intro p hp c hc
      simp only [List.mem_map] at hp
      obtain ⟨x, hx, rfl⟩ := hp
      simp only [qpPiece, List.mem_append, List.mem_cons] at hc
      rcases hc with hc | rfl | hc
      · exact (h.keyAmp x hx c hc).1
      · decide
      · exact h.valAmp x hx c hc

/-! ## the loop over parameters that all read back -/

/-- every parameter names a field and its value reads as `t.2.2`, consuming everything: the
entries come back in parameter order, every name is seen, nothing is reported missing -/
theorem qpLoop_all (env : Env) (fields : List Field) (render : Doc → Bytes) :
    ∀ (ts : List (Bytes × Doc × Value)),
      (∀ t ∈ ts, ∃ f, findField fields t.1 = some f ∧
        readTy (qpCfg env) (3 * (render t.2.1).length + 8) [.key t.1] f.ty
            { rest := render t.2.1, start := true } =
          .ok t.2.2 { rest := [], start := false, missing := [] }) →
      (ts.map (·.1)).Nodup →
      ∀ acc seen miss, (∀ e ∈ acc, e.1 ∉ ts.map (·.1)) →
        qpLoop env fields (ts.map (fun t => (t.1, render t.2.1))) acc seen miss =
          .ok (acc ++ ts.map (fun t => (t.1, t.2.2)), seen ++ ts.map (·.1), miss)
            { rest := [], start := false } := by
  intro ts
  induction ts with
  | nil => intro _ _ acc seen miss _; simp [qpLoop]
  | cons t rest ih =>
    obtain ⟨k, d, x⟩ := t
    intro hgood hnd acc seen miss hacc
    simp only [List.map_cons, List.nodup_cons] at hnd
    obtain ⟨f, hf, hread⟩ := hgood (k, d, x) (by simp)
    simp only [List.map_cons, qpLoop, hf]
    simp only at hread
    rw [hread]
    simp only
    have hfresh : ∀ e ∈ acc, e.1 ≠ k := by
      intro e he heq
      exact hacc e he (by simp [heq])
    rw [setEntry_fresh acc k x hfresh]
    have hacc' : ∀ e ∈ acc ++ [(k, x)], e.1 ∉ rest.map (·.1) := by
      intro e he
      rcases List.mem_append.1 he with he | he
      · intro hm; exact hacc e he (by simp [hm])
      · simp only [List.mem_singleton] at he; subst he; exact hnd.1
    rw [ih (fun t ht => hgood t (by simp [ht])) hnd.2 (acc ++ [(k, x)]) (seen ++ [k]) (miss ++ []) hacc']
    simp [List.append_assoc]

/-! ## what the writer's output is free of -/

/-- nothing the query-flavour writer emits is an `&` -/
def NoAmp (esc : Bytes → Bytes) : Prop := ∀ b, ∀ c ∈ esc b, c ≠ 38

theorem ror2Str_noAmp (esc : Bytes → Bytes) (h : NoAmp esc) (b : Bytes) : ∀ c ∈ ror2Str esc b, c ≠ 38 := by
  unfold ror2Str
  split
  · decide
  · exact h b

theorem ror2Float_noAmp (esc : Bytes → Bytes) (h : NoAmp esc) (b : Nat) : ∀ c ∈ ror2Float esc b, c ≠ 38 := by
  unfold ror2Float
  simp only
  split
  · decide
  · split
    · split <;> decide
    · exact h _

mutual
theorem render_noAmp (esc : Bytes → Bytes) (h : NoAmp esc) : (d : Doc) → ∀ c ∈ renderRor2 esc d, c ≠ 38
  | .int v => by
    intro c hc
    simp only [renderRor2] at hc
    have := (Strconv.formatInt_clean v).2 c hc
    intro h38; subst h38; revert this; decide
  | .f64 b => by simp only [renderRor2]; exact ror2Float_noAmp esc h b
  | .bool b => by cases b <;> simp only [renderRor2] <;> decide
  | .str b => by simp only [renderRor2]; exact ror2Str_noAmp esc h b
  | .bytes b => by simp only [renderRor2]; exact ror2Str_noAmp esc h b
  | .obj kvs => by
    intro c hc
    simp only [renderRor2, List.mem_cons, List.mem_append, List.not_mem_nil, or_false] at hc
    rcases hc with rfl | hc | rfl
    · decide
    · exact renderKvs_noAmp esc h kvs c hc
    · decide
  | .arr items => by
    intro c hc
    simp only [renderRor2, List.mem_append, List.mem_cons, List.not_mem_nil, or_false] at hc
    rcases hc with hc | hc | rfl
    · rw [listPrefix_eq] at hc
      intro h38; subst h38; revert hc; decide
    · exact renderItems_noAmp esc h items c hc
    · decide
theorem renderKvs_noAmp (esc : Bytes → Bytes) (h : NoAmp esc) :
    (kvs : List (Bytes × Doc)) → ∀ c ∈ renderRor2Kvs esc kvs, c ≠ 38
  | [] => by simp [renderRor2Kvs]
  | [(k, v)] => by
    intro c hc
    simp only [renderRor2Kvs, List.mem_append, List.mem_cons] at hc
    rcases hc with hc | rfl | hc
    · exact ror2Str_noAmp esc h k c hc
    · decide
    · exact render_noAmp esc h v c hc
  | (k, v) :: e2 :: rest => by
    intro c hc
    simp only [renderRor2Kvs, List.mem_append, List.mem_cons] at hc
    rcases hc with (hc | rfl | hc) | rfl | hc
    · exact ror2Str_noAmp esc h k c hc
    · decide
    · exact render_noAmp esc h v c hc
    · decide
    · exact renderKvs_noAmp esc h (e2 :: rest) c hc
theorem renderItems_noAmp (esc : Bytes → Bytes) (h : NoAmp esc) :
    (xs : List Doc) → ∀ c ∈ renderRor2Items esc xs, c ≠ 38
  | [] => by simp [renderRor2Items]
  | [v] => by simp only [renderRor2Items]; exact render_noAmp esc h v
  | v :: v2 :: rest => by
    intro c hc
    simp only [renderRor2Items, List.mem_append, List.mem_cons] at hc
    rcases hc with hc | rfl | hc
    · exact render_noAmp esc h v c hc
    · decide
    · exact renderItems_noAmp esc h (v2 :: rest) c hc
end

/-! ## the round trip -/

/-- **query parameters round trip**: the query string `BuildQueryParams` writes for a record of
parameters is read back by `ParseQueryParams` + the generated `DecodeQueryParams` to the record
(normalised: own defaults filled in, NaN canonical), every parameter consumed entirely, nothing
reported missing — for every schema, every record type, parameters of every type. -/
theorem query_roundtrip (env : Env) (esc : Bytes → Bytes) (E : EscLaws esc true) (F : FloatLaws)
    (S : SchemaOK env) (hamp : NoAmp esc) (n : TName) (incs : List TName) (own : List Field)
    (hfind : env.find n = some (.record incs own))
    (hnames : ∀ fld ∈ allFields env (includeFuel env) n, ∀ c ∈ fld.name, c ≠ 38 ∧ c ≠ 61)
    (fuel : Nat) (fs : List (Bytes × Value)) (hv : ValOK (.record fs)) (q : Bytes)
    (hq : buildQueryParams env esc fuel n (.record fs) = .ok q) :
    unmarshalQuery env n q =
      .ok (norm env (fuel + 1) (.ref n) (.record fs)) { rest := [], start := false } := by
  unfold buildQueryParams at hq
  simp only at hq
  have hnorm : norm env (fuel + 1) (.ref n) (.record fs) =
      (match setFields (allFields env (includeFuel env) n) fs with
        | some triples =>
          .record (populateDefaults own (sortByKey (triples.map (fun x => (x.1, norm env fuel x.2.1 x.2.2)))))
        | none => .record fs) := by
    simp only [norm, hfind]
    cases setFields (allFields env (includeFuel env) n) fs <;> rfl
  rw [hnorm]
  generalize hfields : allFields env (includeFuel env) n = fields at hq hnames ⊢
  cases hsf : setFields fields fs with
  | none => simp [hsf] at hq
  | some triples =>
    simp only [hsf] at hq ⊢
    cases hl : encodeTyped (fun _ => false)
        (fun k t v => encode { env := env, excl := .empty, sortKeys := true } fuel [k] t v) triples with
    | error e => simp [hl] at hq
    | ok kvs =>
      simp only [hl, Except.ok.injEq] at hq
      subst hq
      obtain ⟨hkvs, hall⟩ := encodeTyped_all _ triples kvs hl
      obtain ⟨hsub, hmem, hreq⟩ := setFields_spec fields fs triples hsf
      have hfnd : (fields.map (·.name)).Nodup := by
        rw [← hfields]; exact S.fieldsNodup n incs own hfind
      have hnd : (triples.map (·.1)).Nodup := hsub.nodup hfnd
      simp only [ValOK] at hv
      -- the parameters in the order they are written, with the values they read back to
      let g : Bytes × Ty × Value → Value := fun it => norm env fuel it.2.1 it.2.2
      let ts : List (Bytes × Doc × Value) := (sortByKey kvs).map (fun e => (e.1, e.2, valFor g triples e.1))
      have hkeys : ts.map (·.1) = (sortByKey kvs).map (·.1) := by
        simp [ts, List.map_map, Function.comp_def]
      have hkvsnd : KeysNodup kvs := by
        unfold KeysNodup
        rw [hkvs]
        simpa [List.map_map, Function.comp_def] using hnd
      have hnd' : (ts.map (·.1)).Nodup := by
        rw [hkeys]; exact keysNodup_sortByKey kvs hkvsnd
      -- every member of ts comes from a triple
      have horigin : ∀ t ∈ ts, ∃ it ∈ triples, t.1 = it.1 ∧
          t.2.1 = okDoc (encode { env := env, excl := .empty, sortKeys := true } fuel [it.1] it.2.1 it.2.2) ∧
          t.2.2 = g it := by
        intro t ht
        simp only [ts, List.mem_map] at ht
        obtain ⟨e, he, rfl⟩ := ht
        have he' : e ∈ kvs := (mem_sortByKey kvs e).1 he
        rw [hkvs] at he'
        simp only [List.mem_map] at he'
        obtain ⟨it, hit, rfl⟩ := he'
        exact ⟨it, hit, rfl, rfl, valFor_mem g triples hnd it hit⟩
      -- the query string is these parameters, written `name=value` and joined with `&`
      have hq : (sortByKey kvs).map (fun e => e.1 ++ 61 :: renderRor2 esc e.2) =
          (ts.map (fun t => (t.1, renderRor2 esc t.2.1))).map qpPiece := by
        simp [ts, List.map_map, Function.comp_def, qpPiece]
      rw [hq]
      have hok : QpOK (ts.map (fun t => (t.1, renderRor2 esc t.2.1))) := by
        refine ⟨?_, ?_, ?_, ?_⟩
        · intro e he c hc
          simp only [List.mem_map] at he
          obtain ⟨t, ht, rfl⟩ := he
          obtain ⟨it, hit, h1, _, _⟩ := horigin t ht
          obtain ⟨fld, hfld, hname, _, _⟩ := hmem it hit
          simp only at hc
          rw [h1, ← hname] at hc
          exact hnames fld hfld c hc
        · intro e he c hc
          simp only [List.mem_map] at he
          obtain ⟨t, _, rfl⟩ := he
          exact render_noAmp esc hamp _ c hc
        · intro e he
          simp only [List.mem_map] at he
          obtain ⟨t, _, rfl⟩ := he
          simp only
          rw [renderRor2_eq_renderRaw]
          exact validate_raw _ (rawOf_wf esc true E F _)
        · simpa [List.map_map, Function.comp_def] using hnd'
      unfold unmarshalQuery
      rw [parse_built _ hok]
      simp only [decodeQueryParams, hfind, hfields]
      -- each parameter reads back
      have hgood : ∀ t ∈ ts, ∃ f, findField fields t.1 = some f ∧
          readTy (qpCfg env) (3 * (renderRor2 esc t.2.1).length + 8) [.key t.1] f.ty
              { rest := renderRor2 esc t.2.1, start := true } =
            .ok t.2.2 { rest := [], start := false, missing := [] } := by
        intro t ht
        obtain ⟨it, hit, h1, h2, h3⟩ := horigin t ht
        obtain ⟨fld, hfld, hname, hty, hlk⟩ := hmem it hit
        refine ⟨fld, ?_, ?_⟩
        · rw [h1, ← hname]; exact findField_of_nodup fields hfnd fld hfld
        · rw [h1, h2, h3, hty]
          exact ror2_roundtrip_any env esc true E F S 0 fuel true [it.1] [.key it.1] it.2.1 it.2.2 _ _
            (by omega) (lookup_valOK fs hv _ _ hlk) (hall it hit)
      rw [qpLoop_all env fields (renderRor2 esc) ts hgood hnd' [] [] [] (by simp)]
      simp only [List.nil_append]
      -- the values, in sorted key order
      have hvals : ts.map (fun t => (t.1, t.2.2)) = sortByKey (triples.map (fun it => (it.1, g it))) := by
        have h1 : ts.map (fun t => (t.1, t.2.2)) = (sortByKey kvs).map (fun e => (e.1, valFor g triples e.1)) := by
          simp [ts, List.map_map, Function.comp_def]
        rw [h1, ← sortByKey_mapVal (valFor g triples) kvs, hkvs]
        congr 1
        simp only [List.map_map, Function.comp_def]
        apply List.map_congr_left
        intro it hit
        simp [valFor_mem g triples hnd it hit]
      rw [hvals, hkeys]
      -- the epilogue: nothing is missing, nothing to fill
      have hseen : ∀ fld ∈ fields, fld.optOrDefault = false → fld.name ∈ (sortByKey kvs).map (·.1) := by
        intro fld hf ho
        have h1 := hreq fld hf ho
        have h2 := ((keys_sortByKey_perm kvs).map (·.1)).mem_iff (a := fld.name)
        rw [h2, hkvs]
        simpa [List.map_map, Function.comp_def] using h1
      have hrem := remainingRequired_nil fields _ hseen
      have hfill : fillRequired env fields (sortByKey (triples.map (fun it => (it.1, g it)))) =
          sortByKey (triples.map (fun it => (it.1, g it))) := by
        apply fillRequired_id
        intro fld hf ho
        have h1 := hreq fld hf ho
        simp only [List.mem_map] at h1
        obtain ⟨t, ht, hteq⟩ := h1
        simp only [List.any_eq_true, beq_iff_eq]
        refine ⟨(t.1, g t), ?_, hteq⟩
        rw [mem_sortByKey]
        exact List.mem_map.2 ⟨t, ht, rfl⟩
      simp only [finishRecord, finishPanics, missingAfter, hrem, hfill]
      simp [g]

/-! ## totality: any query string -/

theorem qpLoop_total (env : Env) (fields : List Field) :
    ∀ (ps : List (Bytes × Bytes)) acc seen miss,
      qpLoop env fields ps acc seen miss ≠ .panic ∧ qpLoop env fields ps acc seen miss ≠ .fuel
  | [], acc, seen, miss => by simp [qpLoop]
  | (k, raw) :: rest, acc, seen, miss => by
    simp only [qpLoop]
    split
    · next f _ =>
      have hp := (noPanicAt (qpCfg env) (3 * raw.length + 8)).1 [.key k] f.ty { rest := raw, start := true }
      have hf := ((fuelOK (qpCfg env) (3 * raw.length + 8)).1 [.key k] f.ty { rest := raw, start := true }
        (by simp only; omega)).1
      split
      · exact qpLoop_total env fields rest _ _ _
      · simp
      · next h => exact absurd h hp
      · next h => exact absurd h hf
      · simp
    · have hs := skip_ne_panic { rest := raw, start := true }
      split
      · exact qpLoop_total env fields rest _ _ _
      · simp
      · next h => exact absurd h hs
      · next h =>
        exfalso
        unfold skip at h
        split at h
        · cases h
        · split at h <;> cases h
      · simp

/-- the query-parameters reader model returns a value or an error on every query string: no panic
branch, never out of fuel -/
theorem unmarshalQuery_total (env : Env) (n : TName) (q : Bytes) :
    unmarshalQuery env n q ≠ .panic ∧ unmarshalQuery env n q ≠ .fuel := by
  unfold unmarshalQuery
  split
  · simp
  · next params _ =>
    unfold decodeQueryParams
    split
    · next own _ =>
      have ht := qpLoop_total env (allFields env (includeFuel env) n) params [] [] []
      simp only
      cases hq : qpLoop env (allFields env (includeFuel env) n) params [] [] [] with
      | ok r s =>
        obtain ⟨acc, seen, miss⟩ := r
        simp only
        have hfr := finishRecord_ne_panic env { excl := .empty, ignore := 0 } [] true
          (allFields env (includeFuel env) n) own acc seen miss
        cases hf : finishRecord env { excl := .empty, ignore := 0 } [] true
          (allFields env (includeFuel env) n) own acc seen miss with
        | panic => exact absurd hf hfr
        | missingErr ps v => simp
        | ok v m => simp
      | err e => simp
      | panic => exact absurd hq ht.1
      | fuel => exact absurd hq ht.2
      | unmodelled => simp
    · simp

/-! ## the query-parameters reader is the tree reader on the object of its parameters -/

/-- a parameter name the ROR2 key decoding leaves as it is (no escapes, not the empty marker):
query strings use names verbatim -/
def PlainKey (k : Bytes) : Prop := decodeKey true k = some k

/-- the state every per-parameter reader ends in -/
def qpEnd : RS := { rest := [], start := false }

theorem qpLoop_eq_tree (env : Env) (fields : List Field) :
    ∀ (ps : List (Bytes × JVal)), (∀ e ∈ ps, RawWF e.2 ∧ PlainKey e.1) →
    ∀ acc seen miss,
      qpLoop env fields (ps.map (fun e => (e.1, renderRaw e.2))) acc seen miss =
        (match treeReadEntries (tcOf (qpCfg env)) [] (.record fields) acc seen ps with
        | .ok r m => .ok (r.1, r.2, miss ++ m) qpEnd
        | .err e => .err e
        | .panic => .panic
        | .unmodelled => .unmodelled)
  | [], _, acc, seen, miss => by simp [qpLoop, treeReadEntries, qpEnd]
  | (k, t) :: rest, hps, acc, seen, miss => by
    obtain ⟨hw, hk⟩ := hps (k, t) (by simp)
    have hrest := fun e he => hps e (List.mem_cons_of_mem _ he)
    have ih := qpLoop_eq_tree env fields rest hrest
    have hnn : t ≠ .null := rawWF_ne_null t hw
    rw [treeReadEntries_cons _ _ _ _ _ _ _ _ hnn]
    have hkey : (tcOf (qpCfg env)).sem.key k = some k := hk
    have hchk : (tcOf (qpCfg env)).tracker.check [Seg.key k] = .no := tracker_check_empty 0 _
    simp only [hkey, List.nil_append, hchk, List.map_cons, qpLoop, treeCallbackWith]
    cases hf : findField fields k with
    | none =>
      simp only [skip, ↓reduceIte, bindT]
      rw [ih acc (seen ++ [k]) miss]
      cases treeReadEntries (tcOf (qpCfg env)) [] (.record fields) acc (seen ++ [k]) rest <;> simp
    | some f =>
      have hb := bridge_top (qpCfg env) t hw (3 * (renderRaw t).length + 8)
        (by have := needT_le t hw; omega) [.key k] f.ty
      have hq : (!(qpCfg env).query) = false := rfl
      rw [hq] at hb
      simp only
      rw [hb]
      cases htr : treeRead (tcOf (qpCfg env)) false [.key k] f.ty t with
      | ok x m1 =>
        simp only [liftT, bindT, List.nil_append]
        rw [ih (setEntry acc k x) (seen ++ [k]) (miss ++ m1)]
        cases treeReadEntries (tcOf (qpCfg env)) [] (.record fields) (setEntry acc k x) (seen ++ [k]) rest <;>
          simp [List.append_assoc]
      | err e => simp [liftT, bindT]
      | panic => simp [liftT, bindT]
      | unmodelled => simp [liftT, bindT]

/-- **the generated `DecodeQueryParams` on parameters whose values are renderings of raw-token
trees is the tree reader, at top level, on the object whose members are the parameters** — so
everything proved about the tree reader for an arbitrary leaf semantics (what is reported missing,
the top-level outcome, unknown members skipped, no panic) holds for the query-parameters reader -/
theorem decodeQueryParams_eq_tree (env : Env) (n : TName) (incs : List TName) (own : List Field)
    (hfind : env.find n = some (.record incs own)) (ps : List (Bytes × JVal))
    (hps : ∀ e ∈ ps, RawWF e.2 ∧ PlainKey e.1) :
    decodeQueryParams env n (ps.map (fun e => (e.1, renderRaw e.2))) =
      liftT (treeRead (tcOf (qpCfg env)) true [] (.ref n) (.obj ps)) qpEnd := by
  have hfind' : (tcOf (qpCfg env)).env.find n = some (.record incs own) := hfind
  simp only [decodeQueryParams, hfind, treeRead, hfind']
  rw [qpLoop_eq_tree env _ ps hps [] [] []]
  have henv : (tcOf (qpCfg env)).env = env := rfl
  have htrk : (tcOf (qpCfg env)).tracker = { excl := .empty, ignore := 0 } := rfl
  simp only [henv, htrk]
  cases htr : treeReadEntries (tcOf (qpCfg env)) [] (.record (allFields env (includeFuel env) n)) [] [] ps with
  | ok r m =>
    simp only [bindT, List.nil_append]
    cases hfr : finishRecord env { excl := .empty, ignore := 0 } [] true
        (allFields env (includeFuel env) n) own r.1 r.2 m with
    | panic => simp [liftT]
    | missingErr ps' v => simp [liftT]
    | ok v m' =>
      -- at the top level the record is returned only when nothing is missing
      have hm : m' = [] := by
        unfold finishRecord at hfr
        split at hfr
        · cases hfr
        · split at hfr
          · cases hfr
          · next hne =>
            simp only [RecFin.ok.injEq] at hfr
            simp only [Bool.true_and, Bool.not_eq_true'] at hne
            rw [← hfr.2]
            simpa using hne
      subst hm
      simp [liftT, qpEnd]
  | err e => simp [liftT, bindT]
  | panic => simp [liftT, bindT]
  | unmodelled => simp [liftT, bindT]

end Restli.Codec
