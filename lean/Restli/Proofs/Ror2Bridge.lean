import Restli.Proofs.Ror2Scan
/-! The bridge between the ROR2 cursor reader and the tree reader: on the rendering of any
well-formed raw-token tree, followed by a delimiter, the generated unmarshalers driving
`ror2Reader` (model `readTy`) produce exactly what `treeRead` produces on the tree — the same
value, the same error, the same missing-field list — and stop at that delimiter. -/
namespace Restli.Codec
open Json (JVal)

theorem scanName_key (k tail : Bytes) (hk : ∀ c ∈ k, c ≠ 40 ∧ c ≠ 41 ∧ c ≠ 44 ∧ c ≠ 58) :
    scanName (k ++ 58 :: tail) = some (k, tail) := by
  induction k with
  | nil => simp [scanName]
  | cons c cs ih =>
    have hc := hk c (by simp)
    have h1 : (c == 58) = false := by simp [hc.2.2.2]
    have h2 : (c == 44) = false := by simp [hc.2.2.1]
    have h3 : (c == 41) = false := by simp [hc.2.1]
    simp [scanName, h1, h2, h3, ih (fun x hx => hk x (by simp [hx]))]

theorem readFieldName_key (k tail : Bytes) (hk : keyClean k) :
    readFieldName (k ++ 58 :: tail) = .name k tail := by
  obtain ⟨hne, hcl⟩ := hk
  cases k with
  | nil => exact absurd rfl hne
  | cons c cs =>
    have hc := hcl c (by simp)
    have h1 : (c == 41) = false := by simp [hc.2.1]
    have := scanName_key (c :: cs) tail hcl
    simp only [List.cons_append] at this
    simp [readFieldName, h1, this]

theorem readFieldName_close (tail : Bytes) : readFieldName (41 :: tail) = .close := by
  simp [readFieldName]

theorem liftT_ok {α : Type} (v : α) (ms : List Bytes) (s : RS) :
    liftT (.ok v ms) s = .ok v { s with missing := s.missing ++ ms } := rfl

/-- the state after consuming a rendered value: only `rest` changes -/
theorem adv_nonstart (r1 r2 : Bytes) (m : List Bytes) :
    ({ rest := r1, start := false, missing := m } : RS).adv r2 = { rest := r2, start := false, missing := m } := by
  simp [RS.adv]

/-- leaves: a primitive read of a clean token -/
theorem readPrim_leaf (rc : RCfg) (p : Prim) (tok : Bytes) (hc : tokClean tok) (d : UInt8)
    (hd : isDelim d = true) (rest : Bytes) (m : List Bytes) :
    readPrim rc p { rest := tok ++ d :: rest, start := false, missing := m } =
      liftT (liftTok (tokPrim rc.plus p tok)) { rest := d :: rest, start := false, missing := m } := by
  unfold readPrim
  rw [readPrimTok_clean tok hc d hd rest m]
  cases h : tokPrim rc.plus p tok <;> simp only [h, liftTok, liftT, List.append_nil]

theorem readString_leaf (rc : RCfg) (tok : Bytes) (hc : tokClean tok) (d : UInt8)
    (hd : isDelim d = true) (rest : Bytes) (m : List Bytes) :
    readString rc { rest := tok ++ d :: rest, start := false, missing := m } =
      (match tokString rc.plus tok with
       | some b => .ok b { rest := d :: rest, start := false, missing := m }
       | none => .err .syntax) := by
  unfold readString
  rw [readPrimTok_clean tok hc d hd rest m]
  rfl

/-- a rendered object or array contains a '(' before any delimiter and ends in a delimiter -/
theorem container_shape (t : JVal) (hw : RawWF t) (hnl : ∀ tok, t ≠ .str tok) (d : UInt8) (rest : Bytes) :
    (∃ pre post, renderRaw t ++ d :: rest = pre ++ 40 :: post ∧ ∀ c ∈ pre, isDelim c = false) ∧
    (∃ x ∈ renderRaw t ++ d :: rest, isDelim x = true) := by
  cases t with
  | str tok => exact absurd rfl (hnl tok)
  | obj kvs =>
    refine ⟨⟨[], renderRawKvs kvs ++ [41] ++ d :: rest, by simp [renderRaw], by simp⟩, 41, ?_, by decide⟩
    simp [renderRaw]
  | arr xs =>
    refine ⟨⟨[76, 105, 115, 116], renderRawItems xs ++ [41] ++ d :: rest, by simp [renderRaw, listPrefix_eq], ?_⟩, 41, ?_, by decide⟩
    · intro c hc
      simp only [List.mem_cons, List.not_mem_nil, or_false] at hc
      rcases hc with rfl | rfl | rfl | rfl <;> decide
    · simp [renderRaw]
  | null => simp [RawWF] at hw
  | bool _ => simp [RawWF] at hw
  | num _ => simp [RawWF] at hw

theorem readPrim_container (rc : RCfg) (p : Prim) (t : JVal) (hw : RawWF t) (hnl : ∀ tok, t ≠ .str tok)
    (d : UInt8) (rest : Bytes) (m : List Bytes) :
    readPrim rc p { rest := renderRaw t ++ d :: rest, start := false, missing := m } = .err .syntax := by
  unfold readPrim
  obtain ⟨h1, h2⟩ := container_shape t hw hnl d rest
  rw [readPrimTok_on_container _ m h1 h2]

theorem readString_container (rc : RCfg) (t : JVal) (hw : RawWF t) (hnl : ∀ tok, t ≠ .str tok)
    (d : UInt8) (rest : Bytes) (m : List Bytes) :
    readString rc { rest := renderRaw t ++ d :: rest, start := false, missing := m } = .err .syntax := by
  unfold readString
  obtain ⟨h1, h2⟩ := container_shape t hw hnl d rest
  rw [readPrimTok_on_container _ m h1 h2]

/-- the result of the loop lemma for objects, lifted -/
abbrev liftEntries (rc : RCfg) (scope : List Seg) (mode : MapMode) (acc : List (Bytes × Value))
    (seen : List Bytes) (kvs : List (Bytes × JVal)) (s : RS) : Res (List (Bytes × Value) × List Bytes) :=
  liftT (treeReadEntries (tcOf rc) scope mode acc seen kvs) s

theorem liftT_bind_ok {α β : Type} (r : TRes α) (f : α → List Bytes → TRes β) (s : RS) :
    liftT (bindT r f) s =
      match r with
      | .ok v m => liftT (f v m) s
      | .err e => .err e
      | .panic => .panic
      | .unmodelled => .unmodelled := by
  cases r <;> rfl

theorem missingAfter_prefix (tr : Tracker) (scope : List Seg) (fields : List Field) (seen m ms : List Bytes) :
    missingAfter tr scope fields seen (m ++ ms) = m ++ missingAfter tr scope fields seen ms := by
  simp [missingAfter, List.append_assoc]

/-- below the top level `finishRecord` only appends to the missing list it is given -/
theorem finishRecord_nontop_prefix (env : Env) (tr : Tracker) (scope : List Seg) (fields own : List Field)
    (fs : List (Bytes × Value)) (seen m ms : List Bytes) :
    finishRecord env tr scope false fields own fs seen (m ++ ms) =
      (match finishRecord env tr scope false fields own fs seen ms with
       | .ok v mm => .ok v (m ++ mm)
       | .missingErr ps v => .missingErr (m ++ ps) v
       | .panic => .panic) := by
  unfold finishRecord
  by_cases hp : finishPanics tr scope fields seen = true
  · simp [hp]
  · simp [hp, missingAfter_prefix]

theorem treeReadEntries_cons (c : TCfg) (scope : List Seg) (mode : MapMode) (acc : List (Bytes × Value))
    (seen : List Bytes) (k0 : Bytes) (v : JVal) (more : List (Bytes × JVal)) (hv : v ≠ .null) :
    treeReadEntries c scope mode acc seen ((k0, v) :: more) =
      (match c.sem.key k0 with
       | none => .err .syntax
       | some k =>
         match c.tracker.check (scope ++ [.key k]) with
         | .panic => .panic
         | .yes => .err (.excluded (scopeString (scope ++ [.key k])))
         | .no =>
           bindT (treeCallbackWith (fun ty => treeRead c false (scope ++ [.key k]) ty v) mode acc seen k)
             (fun acc' m1 => bindT (treeReadEntries c scope mode acc' (seen ++ [k]) more)
               (fun res m2 => .ok res (m1 ++ m2)))) := by
  cases v <;> first | exact absurd rfl hv | (simp only [treeReadEntries]; rfl)

theorem rawWF_ne_null (v : JVal) (hw : RawWF v) : v ≠ .null := by
  intro h; subst h; simp [RawWF] at hw

/-- the `ReadMap` callback on a rendered member value, given the bridge for that value -/
theorem callback_bridge (rc : RCfg) (v : JVal) (hw : RawWF v) (f : Nat) (scope' : List Seg) (mode : MapMode)
    (acc : List (Bytes × Value)) (seen : List Bytes) (k' : Bytes) (d2 : UInt8) (tail2 : Bytes) (m : List Bytes)
    (hd2 : isDelim d2 = true)
    (ih : ∀ ty, readTy rc f scope' ty { rest := renderRaw v ++ d2 :: tail2, start := false, missing := m } =
      liftT (treeRead (tcOf rc) false scope' ty v) { rest := d2 :: tail2, start := false, missing := m }) :
    readMapCallback rc (f + 1) scope' mode acc seen k' { rest := renderRaw v ++ d2 :: tail2, start := false, missing := m } =
      liftT (treeCallbackWith (fun ty => treeRead (tcOf rc) false scope' ty v) mode acc seen k')
        { rest := d2 :: tail2, start := false, missing := m } := by
  cases mode with
  | record fields =>
    simp only [readMapCallback, treeCallbackWith]
    cases findField fields k' with
    | none => simp [skip_rendered v hw d2 hd2 tail2 m, liftT]
    | some fld =>
      simp only [ih, liftT_bind_ok]
      cases treeRead (tcOf rc) false scope' fld.ty v <;> simp [liftT]
  | mapOf ty =>
    simp only [readMapCallback, treeCallbackWith, ih, liftT_bind_ok]
    cases treeRead (tcOf rc) false scope' ty v <;> simp [liftT]
  | union members =>
    simp only [readMapCallback, treeCallbackWith]
    by_cases hs : (!seen.isEmpty) = true
    · simp [hs, liftT]
    · simp only [hs, Bool.false_eq_true, ↓reduceIte]
      cases List.lookup k' members with
      | none => simp [liftT]
      | some ty =>
        simp only [ih, liftT_bind_ok]
        cases treeRead (tcOf rc) false scope' ty v <;> simp [liftT]

/-- the first byte of a rendered value is never ')' -/
theorem renderRaw_head (v : JVal) (hw : RawWF v) : ∃ c cs, renderRaw v = c :: cs ∧ c ≠ 41 := by
  cases v with
  | str tok =>
    simp only [RawWF] at hw
    cases tok with
    | nil => exact absurd rfl hw.1
    | cons c cs => exact ⟨c, cs, rfl, (hw.2 c (by simp)).2.1⟩
  | obj kvs => exact ⟨40, renderRawKvs kvs ++ [41], by simp [renderRaw], by decide⟩
  | arr xs => exact ⟨76, [105, 115, 116, 40] ++ (renderRawItems xs ++ [41]), by simp [renderRaw, listPrefix_eq], by decide⟩
  | null => simp [RawWF] at hw
  | bool _ => simp [RawWF] at hw
  | num _ => simp [RawWF] at hw

theorem renderRawItems_head (xs : List JVal) (hne : xs ≠ []) (hw : RawWFItems xs) (tail : Bytes) :
    ∃ c cs, renderRawItems xs ++ tail = c :: cs ∧ c ≠ 41 := by
  cases xs with
  | nil => exact absurd rfl hne
  | cons v more =>
    simp only [RawWFItems] at hw
    obtain ⟨c, cs, hc, hne41⟩ := renderRaw_head v hw.1
    cases more with
    | nil => exact ⟨c, cs ++ tail, by simp [renderRawItems, hc], hne41⟩
    | cons v2 more' => exact ⟨c, cs ++ 44 :: renderRawItems (v2 :: more') ++ tail, by simp [renderRawItems, hc], hne41⟩

theorem finishRecord_nontop_ne_missingErr (env : Env) (tr : Tracker) (scope : List Seg) (fields own : List Field)
    (fs : List (Bytes × Value)) (seen ms ps : List Bytes) (v : Value) :
    finishRecord env tr scope false fields own fs seen ms ≠ .missingErr ps v := by
  unfold finishRecord
  by_cases hp : finishPanics tr scope fields seen = true <;> simp [hp]

mutual
/-- **bridge**: the cursor reader on a rendered tree equals the tree reader on the tree -/
theorem bridge (rc : RCfg) : (t : JVal) → RawWF t → ∀ (fuel : Nat) (scope : List Seg) (ty : Ty) (d : UInt8)
    (rest : Bytes) (m : List Bytes), isDelim d = true → needT t ≤ fuel →
    readTy rc fuel scope ty { rest := renderRaw t ++ d :: rest, start := false, missing := m } =
      liftT (treeRead (tcOf rc) false scope ty t) { rest := d :: rest, start := false, missing := m }
  | .str tok, hw, fuel, scope, ty, d, rest, m, hd, hf => by
    simp only [RawWF] at hw
    simp only [needT] at hf
    obtain ⟨f1, rfl⟩ : ∃ f1, fuel = f1 + 2 := ⟨fuel - 2, by omega⟩
    cases ty with
    | prim p =>
      simp only [readTy, treeRead, renderRaw, tcOf, ror2Sem]
      exact readPrim_leaf rc p tok hw d hd rest m
    | arr ty' =>
      simp only [readTy, readArray, treeRead, renderRaw, atArray_tok tok hw d hd rest, Bool.not_false,
        ↓reduceIte, liftT]
    | map ty' =>
      simp only [readTy, readMap, treeRead, renderRaw, atMap_tok tok hw, Bool.not_false, ↓reduceIte, liftT]
    | ref n =>
      simp only [readTy, treeRead, tcOf]
      cases hfind : rc.env.find n with
      | none => simp [liftT]
      | some decl =>
        cases decl with
        | typeref p =>
          simp only [renderRaw, ror2Sem]
          exact readPrim_leaf rc p tok hw d hd rest m
        | enum syms =>
          simp only [renderRaw, readString_leaf rc tok hw d hd rest m, ror2Sem, bindT]
          cases tokString rc.plus tok <;> simp [liftT] <;> rfl
        | fixed size =>
          simp only [renderRaw, readString_leaf rc tok hw d hd rest m, ror2Sem, bindT, liftTok, tokPrim]
          cases tokString rc.plus tok with
          | none => simp [liftT]
          | some b =>
            simp only [liftT]
            by_cases hl : b.length = size <;> simp [hl, liftT]
        | record incs own =>
          simp only [readMap, renderRaw, atMap_tok tok hw, Bool.not_false, ↓reduceIte, liftT, bindT]
        | union hasNull members =>
          simp only [readMap, renderRaw, atMap_tok tok hw, Bool.not_false, ↓reduceIte, liftT, bindT]
  | .obj kvs, hw, fuel, scope, ty, d, rest, m, hd, hf => by
    simp only [RawWF] at hw
    simp only [needT] at hf
    obtain ⟨f, rfl⟩ : ∃ f, fuel = f + 4 := ⟨fuel - 4, by omega⟩
    have hfk : needKvs kvs ≤ f + 2 := by omega
    have hnl : ∀ tok, JVal.obj kvs ≠ .str tok := by intro tok h; cases h
    have hwf : RawWF (.obj kvs) := by simpa [RawWF] using hw
    have hrender : renderRaw (.obj kvs) ++ d :: rest = 40 :: (renderRawKvs kvs ++ 41 :: d :: rest) := by
      simp [renderRaw]
    -- what `ReadMap` does on this input, for any callback mode
    have hmap : ∀ mode, readMap rc (f + 3) scope mode { rest := renderRaw (.obj kvs) ++ d :: rest, start := false, missing := m } =
        liftT (treeReadEntries (tcOf rc) scope mode [] [] kvs) { rest := d :: rest, start := false, missing := m } := by
      intro mode
      rw [hrender]
      simp only [readMap, atMap_obj, Bool.not_true, Bool.false_eq_true, ↓reduceIte, List.drop_succ_cons,
        List.drop_zero, adv_nonstart]
      exact bridge_kvs rc kvs hw (f + 2) scope mode [] [] (d :: rest) m hfk
    cases ty with
    | prim p =>
      simp only [readTy, treeRead, tcOf, ror2Sem]
      rw [readPrim_container rc p _ hwf hnl d rest m]; rfl
    | arr ty' =>
      rw [hrender]
      simp only [readTy, readArray, treeRead, atArray_obj, Bool.not_false, ↓reduceIte, liftT]
    | map ty' =>
      simp only [readTy, treeRead, hmap]
      rw [liftT_bind_ok]
      cases treeReadEntries (tcOf rc) scope (.mapOf ty') [] [] kvs <;> simp [liftT]
    | ref n =>
      simp only [readTy, treeRead, tcOf]
      cases hfind : rc.env.find n with
      | none => simp [liftT]
      | some decl =>
        cases decl with
        | typeref p =>
          simp only [ror2Sem]
          rw [readPrim_container rc p _ hwf hnl d rest m]; rfl
        | enum syms =>
          simp only [readString_container rc _ hwf hnl d rest m, ror2Sem, bindT, liftT]
        | fixed size =>
          simp only [readString_container rc _ hwf hnl d rest m, ror2Sem, bindT, liftT]
        | record incs own =>
          simp only [Bool.false_and]
          have := hmap (.record (allFields rc.env (includeFuel rc.env) n))
          simp only [tcOf] at this
          rw [this, liftT_bind_ok]
          cases hr : treeReadEntries { env := rc.env, tracker := rc.tracker, sem := ror2Sem rc.plus } scope
              (.record (allFields rc.env (includeFuel rc.env) n)) [] [] kvs with
          | ok r ms =>
            obtain ⟨fs, seen⟩ := r
            simp only [liftT]
            rw [finishRecord_nontop_prefix]
            cases hfr : finishRecord rc.env rc.tracker scope false (allFields rc.env (includeFuel rc.env) n) own fs seen ms with
            | ok v mm => simp [liftT]
            | panic => simp [liftT]
            | missingErr ps v => exact absurd hfr (finishRecord_nontop_ne_missingErr _ _ _ _ _ _ _ _ _ _)
          | err e => simp [liftT]
          | panic => simp [liftT]
          | unmodelled => simp [liftT]
        | union hasNull members =>
          have := hmap (.union members)
          simp only [tcOf] at this
          simp only []
          rw [this, liftT_bind_ok]
          cases hr : treeReadEntries { env := rc.env, tracker := rc.tracker, sem := ror2Sem rc.plus } scope
              (.union members) [] [] kvs with
          | ok r ms =>
            obtain ⟨ms', seen⟩ := r
            simp only [liftT]
            by_cases hu : (!hasNull && seen.isEmpty) = true <;> simp [hu, liftT]
          | err e => simp [liftT]
          | panic => simp [liftT]
          | unmodelled => simp [liftT]
  | .arr xs, hw, fuel, scope, ty, d, rest, m, hd, hf => by
    simp only [RawWF] at hw
    simp only [needT] at hf
    obtain ⟨f, rfl⟩ : ∃ f, fuel = f + 4 := ⟨fuel - 4, by omega⟩
    have hfi : needItems xs ≤ f + 2 := by omega
    have hnl : ∀ tok, JVal.arr xs ≠ .str tok := by intro tok h; cases h
    have hwf : RawWF (.arr xs) := by simpa [RawWF] using hw
    have hrender : renderRaw (.arr xs) ++ d :: rest = Gen.listPrefix ++ (renderRawItems xs ++ 41 :: d :: rest) := by
      simp [renderRaw]
    have hnomap : ∀ mode, readMap rc (f + 3) scope mode { rest := renderRaw (.arr xs) ++ d :: rest, start := false, missing := m } =
        .err .syntax := by
      intro mode
      rw [hrender]
      simp only [readMap, atMap_arr, Bool.not_false, ↓reduceIte]
    cases ty with
    | prim p =>
      simp only [readTy, treeRead, tcOf, ror2Sem]
      rw [readPrim_container rc p _ hwf hnl d rest m]; rfl
    | map ty' =>
      simp only [readTy, treeRead, hnomap, liftT]
    | arr ty' =>
      simp only [readTy, treeRead]
      rw [hrender, readArray]
      have hat : atArray { rest := Gen.listPrefix ++ (renderRawItems xs ++ 41 :: d :: rest), start := false, missing := m } = true :=
        atArray_arr _ (by simp) _ _
      simp only [hat, Bool.not_true, Bool.false_eq_true, ↓reduceIte, adv_nonstart, List.drop_left']
      cases xs with
      | nil => simp [renderRawItems, treeReadItems, bindT, liftT, adv_nonstart]
      | cons x more =>
        obtain ⟨c, cs, hc, hne41⟩ := renderRawItems_head (x :: more) (by simp) hw (41 :: d :: rest)
        have hih := bridge_items rc (x :: more) (by simp) hw (f + 2) scope ty' 0 (d :: rest) m hfi
        rw [hc] at hih ⊢
        have h41 : (c == 41) = false := by simp [hne41]
        simp only [h41, Bool.false_eq_true, ↓reduceIte, hih, liftT_bind_ok]
        cases treeReadItems (tcOf rc) scope ty' 0 (x :: more) <;> simp [liftT]
    | ref n =>
      simp only [readTy, treeRead, tcOf]
      cases hfind : rc.env.find n with
      | none => simp [liftT]
      | some decl =>
        cases decl with
        | typeref p =>
          simp only [ror2Sem]
          rw [readPrim_container rc p _ hwf hnl d rest m]; rfl
        | enum syms =>
          simp only [readString_container rc _ hwf hnl d rest m, ror2Sem, bindT, liftT]
        | fixed size =>
          simp only [readString_container rc _ hwf hnl d rest m, ror2Sem, bindT, liftT]
        | record incs own =>
          simp only [hnomap, bindT, liftT]
        | union hasNull members =>
          simp only [hnomap, bindT, liftT]
  | .null, hw, _, _, _, _, _, _, _, _ => by simp [RawWF] at hw
  | .bool _, hw, _, _, _, _, _, _, _, _ => by simp [RawWF] at hw
  | .num _, hw, _, _, _, _, _, _, _, _ => by simp [RawWF] at hw
theorem bridge_kvs (rc : RCfg) : (kvs : List (Bytes × JVal)) → RawWFKvs kvs → ∀ (fuel : Nat) (scope : List Seg)
    (mode : MapMode) (acc : List (Bytes × Value)) (seen : List Bytes) (tail : Bytes) (m : List Bytes),
    needKvs kvs ≤ fuel →
    readMapLoop rc fuel scope mode acc seen { rest := renderRawKvs kvs ++ 41 :: tail, start := false, missing := m } =
      liftT (treeReadEntries (tcOf rc) scope mode acc seen kvs) { rest := tail, start := false, missing := m }
  | [], _, fuel, scope, mode, acc, seen, tail, m, hf => by
    simp only [needKvs] at hf
    obtain ⟨f, rfl⟩ : ∃ f, fuel = f + 1 := ⟨fuel - 1, by omega⟩
    simp [readMapLoop, renderRawKvs, readFieldName_close, treeReadEntries, liftT, adv_nonstart]
  | (k, v) :: more, hw, fuel, scope, mode, acc, seen, tail, m, hf => by
    simp only [RawWFKvs] at hw
    obtain ⟨hk, hv, hmore⟩ := hw
    simp only [needKvs] at hf
    obtain ⟨f, rfl⟩ : ∃ f, fuel = f + 2 := ⟨fuel - 2, by omega⟩
    have hfv : needT v ≤ f := by omega
    have hfm : needKvs more ≤ f + 1 := by omega
    -- the rendering: key, ':', value, then either ')' (last entry) or ',' and the other entries
    obtain ⟨d2, tail2, hd2, hrender, hnext⟩ : ∃ d2 tail2, isDelim d2 = true ∧
        renderRawKvs ((k, v) :: more) ++ 41 :: tail = k ++ 58 :: (renderRaw v ++ d2 :: tail2) ∧
        ((more = [] ∧ d2 = 41 ∧ tail2 = tail) ∨
         (more ≠ [] ∧ d2 = 44 ∧ tail2 = renderRawKvs more ++ 41 :: tail)) := by
      cases more with
      | nil => exact ⟨41, tail, by decide, by simp [renderRawKvs], Or.inl ⟨rfl, rfl, rfl⟩⟩
      | cons kv2 more' =>
        exact ⟨44, renderRawKvs (kv2 :: more') ++ 41 :: tail, by decide, by simp [renderRawKvs],
          Or.inr ⟨by simp, rfl, rfl⟩⟩
    rw [hrender, treeReadEntries_cons _ _ _ _ _ _ _ _ (rawWF_ne_null v hv)]
    rw [readMapLoop]
    simp only [readFieldName_key k _ hk, adv_nonstart]
    -- the decoded key
    have hkey : (if (k == Gen.emptyMarker) = true then some [] else rc.decode k) = (tcOf rc).sem.key k := by
      simp [tcOf, ror2Sem, decodeKey, RCfg.decode]
    rw [hkey]
    cases hdk : (tcOf rc).sem.key k with
    | none => simp [liftT]
    | some k' =>
      simp only []
      have htr : (tcOf rc).tracker = rc.tracker := rfl
      rw [htr]
      cases hchk : rc.tracker.check (scope ++ [Seg.key k']) with
      | panic => simp [liftT]
      | yes => simp [liftT]
      | no =>
        simp only []
        rw [callback_bridge rc v hv f (scope ++ [Seg.key k']) mode acc seen k' d2 tail2 m hd2
          (fun ty => bridge rc v hv f (scope ++ [Seg.key k']) ty d2 tail2 m hd2 hfv)]
        rw [liftT_bind_ok]
        cases hcb : treeCallbackWith (fun ty => treeRead (tcOf rc) false (scope ++ [.key k']) ty v) mode acc seen k' with
        | err e => simp [liftT]
        | panic => simp [liftT]
        | unmodelled => simp [liftT]
        | ok acc' m1 =>
          simp only [liftT]
          rcases hnext with ⟨hm0, rfl, rfl⟩ | ⟨hmne, rfl, rfl⟩
          · subst hm0
            simp [treeReadEntries, bindT, liftT, adv_nonstart]
          · have hih := bridge_kvs rc more hmore (f + 1) scope mode acc' (seen ++ [k']) tail (m ++ m1) hfm
            simp only [beq_self_eq_true, ↓reduceIte, adv_nonstart, hih, liftT_bind_ok]
            cases treeReadEntries (tcOf rc) scope mode acc' (seen ++ [k']) more <;>
              simp [liftT, bindT, List.append_assoc]
theorem bridge_items (rc : RCfg) : (xs : List JVal) → xs ≠ [] → RawWFItems xs → ∀ (fuel : Nat) (scope : List Seg)
    (ty : Ty) (idx : Nat) (tail : Bytes) (m : List Bytes), needItems xs ≤ fuel →
    readArrayLoop rc fuel scope ty idx { rest := renderRawItems xs ++ 41 :: tail, start := false, missing := m } =
      liftT (treeReadItems (tcOf rc) scope ty idx xs) { rest := tail, start := false, missing := m }
  | [], hne, _, _, _, _, _, _, _, _ => absurd rfl hne
  | v :: more, _, hw, fuel, scope, ty, idx, tail, m, hf => by
    simp only [RawWFItems] at hw
    obtain ⟨hv, hmore⟩ := hw
    simp only [needItems] at hf
    obtain ⟨f, rfl⟩ : ∃ f, fuel = f + 1 := ⟨fuel - 1, by omega⟩
    have hfv : needT v ≤ f := by omega
    have hfm : needItems more ≤ f := by omega
    obtain ⟨d2, tail2, hd2, hrender, hnext⟩ : ∃ d2 tail2, isDelim d2 = true ∧
        renderRawItems (v :: more) ++ 41 :: tail = renderRaw v ++ d2 :: tail2 ∧
        ((more = [] ∧ d2 = 41 ∧ tail2 = tail) ∨
         (more ≠ [] ∧ d2 = 44 ∧ tail2 = renderRawItems more ++ 41 :: tail)) := by
      cases more with
      | nil => exact ⟨41, tail, by decide, by simp [renderRawItems], Or.inl ⟨rfl, rfl, rfl⟩⟩
      | cons v2 more' =>
        exact ⟨44, renderRawItems (v2 :: more') ++ 41 :: tail, by decide, by simp [renderRawItems],
          Or.inr ⟨by simp, rfl, rfl⟩⟩
    rw [hrender, readArrayLoop, bridge rc v hv f (scope ++ [Seg.idx idx]) ty d2 tail2 m hd2 hfv]
    simp only [treeReadItems, liftT_bind_ok]
    cases htr : treeRead (tcOf rc) false (scope ++ [Seg.idx idx]) ty v with
    | err e => simp [liftT]
    | panic => simp [liftT]
    | unmodelled => simp [liftT]
    | ok val m1 =>
      simp only [liftT]
      rcases hnext with ⟨hm0, rfl, rfl⟩ | ⟨hmne, rfl, rfl⟩
      · subst hm0
        simp [treeReadItems, bindT, liftT, adv_nonstart]
      · have hih := bridge_items rc more hmne hmore f scope ty (idx + 1) tail (m ++ m1) hfm
        simp only [beq_self_eq_true, ↓reduceIte, adv_nonstart, hih, liftT_bind_ok]
        cases treeReadItems (tcOf rc) scope ty (idx + 1) more <;>
          simp [liftT, bindT, List.append_assoc]
end

/-! ### top level: the document starts at position 0 and nothing need follow it -/

theorem adv_start (r1 r2 : Bytes) (m : List Bytes) (h : r2.length < r1.length) :
    ({ rest := r1, start := true, missing := m } : RS).adv r2 = { rest := r2, start := false, missing := m } := by
  have : (r2.length == r1.length) = false := by
    simp only [beq_eq_false_iff_ne, ne_eq]; omega
  simp [RS.adv, this]

/-- `ReadMap` at the very start of the input, whatever follows the object (the reader never
looks past the closing parenthesis) -/
theorem readMap_top (rc : RCfg) (kvs : List (Bytes × JVal)) (hw : RawWFKvs kvs) (fuel : Nat) (hf : needKvs kvs + 1 ≤ fuel)
    (scope : List Seg) (mode : MapMode) (junk : Bytes) :
    readMap rc fuel scope mode { rest := renderRaw (.obj kvs) ++ junk, start := true, missing := [] } =
      liftT (treeReadEntries (tcOf rc) scope mode [] [] kvs) { rest := junk, start := false, missing := [] } := by
  obtain ⟨f, rfl⟩ : ∃ f, fuel = f + 1 := ⟨fuel - 1, by omega⟩
  have hrender : renderRaw (.obj kvs) ++ junk = 40 :: (renderRawKvs kvs ++ 41 :: junk) := by
    simp [renderRaw]
  rw [hrender]
  simp only [readMap, atMap, List.head?_cons, beq_self_eq_true, Bool.not_true, Bool.false_eq_true,
    ↓reduceIte, List.drop_succ_cons, List.drop_zero]
  rw [adv_start _ _ _ (by simp)]
  exact bridge_kvs rc kvs hw f scope mode [] [] junk [] (by omega)

/-- a primitive read at the start of the input consumes everything; on a rendered object it
sees the '(' and fails -/
theorem readPrimTok_top_obj (kvs : List (Bytes × JVal)) (junk : Bytes) :
    readPrimTok { rest := renderRaw (.obj kvs) ++ junk, start := true, missing := [] } = .err .syntax := by
  simp [readPrimTok, renderRaw, hasBad]

/-- **top-level bridge**: a whole document that is an object, read from position 0 — by the
generated `UnmarshalRestLi` of any type — behaves like the tree reader at top level (so missing
required fields are raised here, in one error), and whatever follows the object is not looked at -/
theorem bridge_top_obj (rc : RCfg) (hq : rc.query = false) (kvs : List (Bytes × JVal)) (hw : RawWFKvs kvs)
    (fuel : Nat) (hf : needT (.obj kvs) ≤ fuel) (ty : Ty) (junk : Bytes) :
    readTy rc fuel [] ty { rest := renderRaw (.obj kvs) ++ junk, start := true, missing := [] } =
      liftT (treeRead (tcOf rc) true [] ty (.obj kvs)) { rest := junk, start := false, missing := [] } := by
  simp only [needT] at hf
  obtain ⟨f, rfl⟩ : ∃ f, fuel = f + 4 := ⟨fuel - 4, by omega⟩
  have hmap := fun mode => readMap_top rc kvs hw (f + 3) (by omega) [] mode junk
  have hprim : ∀ p, readPrim rc p { rest := renderRaw (.obj kvs) ++ junk, start := true, missing := [] } = .err .syntax := by
    intro p; simp [readPrim, readPrimTok_top_obj]
  have hstr : readString rc { rest := renderRaw (.obj kvs) ++ junk, start := true, missing := [] } = .err .syntax := by
    simp [readString, readPrimTok_top_obj]
  cases ty with
  | prim p => simp [readTy, treeRead, tcOf, ror2Sem, hprim, liftT]
  | arr ty' =>
    have : atArray { rest := renderRaw (.obj kvs) ++ junk, start := true, missing := [] } = false := by
      simp [renderRaw, atArray_obj]
    simp [readTy, readArray, treeRead, this, liftT]
  | map ty' =>
    simp only [readTy, treeRead, hmap, liftT_bind_ok]
    cases treeReadEntries (tcOf rc) [] (.mapOf ty') [] [] kvs <;> simp [liftT]
  | ref n =>
    simp only [readTy, treeRead, tcOf]
    cases hfind : rc.env.find n with
    | none => simp [liftT]
    | some decl =>
      cases decl with
      | typeref p => simp [hprim, ror2Sem, liftT]
      | enum syms => simp [hstr, ror2Sem, bindT, liftT]
      | fixed size => simp [hstr, ror2Sem, bindT, liftT]
      | record incs own =>
        have := hmap (.record (allFields rc.env (includeFuel rc.env) n))
        simp only [tcOf] at this
        simp only [hq, Bool.not_false, Bool.and_true]
        rw [this, liftT_bind_ok]
        cases treeReadEntries { env := rc.env, tracker := rc.tracker, sem := ror2Sem rc.plus } []
            (.record (allFields rc.env (includeFuel rc.env) n)) [] [] kvs with
        | ok r ms =>
          obtain ⟨fs, seen⟩ := r
          simp only [liftT, List.nil_append]
          cases finishRecord rc.env rc.tracker [] true (allFields rc.env (includeFuel rc.env) n) own fs seen ms <;>
            simp [liftT]
        | err e => simp [liftT]
        | panic => simp [liftT]
        | unmodelled => simp [liftT]
      | union hasNull members =>
        have := hmap (.union members)
        simp only [tcOf] at this
        simp only []
        rw [this, liftT_bind_ok]
        cases treeReadEntries { env := rc.env, tracker := rc.tracker, sem := ror2Sem rc.plus } []
            (.union members) [] [] kvs with
        | ok r ms =>
          obtain ⟨ms', seen⟩ := r
          simp only [liftT]
          by_cases hu : (!hasNull && seen.isEmpty) = true <;> simp [hu, liftT]
        | err e => simp [liftT]
        | panic => simp [liftT]
        | unmodelled => simp [liftT]

end Restli.Codec
